/-
  F5 / Layer A — the async client's request manager and the two message handlers.

  Mirrors (current /repo tree):
    core/src/client/async_client/manager.rs    the four tables + every method        → `Mgr.*`
    core/src/client/async_client/helpers.rs    process_* / build_unsubscribe_message  → `process*`
    core/src/client/async_client/mod.rs:675-796   handle_backend_messages             → `handleBack`
    core/src/client/async_client/mod.rs:799-886   handle_frontend_messages            → `handleFront`
    core/src/client/mod.rs:303-315,419-456,608-655  Subscription next/drop/unsubscribe, bounded
                                                    channel with the `lagged` flag    → `Chan`, consumer steps
    core/src/client/mod.rs:458-527             id allocation                          → `St.nextId`, `mkId`

  Every manager access in the real code happens under one mutex and the two background tasks share
  nothing else, so every schedule of the client is a sequence of the atomic steps below
  (`Step`); theorems quantify over arbitrary `List Step`.
-/
import JrpcVerif.Model.BatchClient
namespace Jrpc.Client

/-! ### association lists (HashMap stand-in; key uniqueness is a separate invariant theorem) -/

def alookup [DecidableEq κ] (k : κ) : List (κ × ν) → Option ν
  | [] => none
  | (k', v) :: r => if k = k' then some v else alookup k r

/-- remove every binding of `k` -/
def aerase [DecidableEq κ] (k : κ) : List (κ × ν) → List (κ × ν)
  | [] => []
  | (k', v) :: r => if k = k' then aerase k r else (k', v) :: aerase k r

/-- overwrite the value of every binding of `k` (`*entry.get_mut() = v`) -/
def areplace [DecidableEq κ] (k : κ) (v : ν) : List (κ × ν) → List (κ × ν)
  | [] => []
  | (k', v') :: r => if k = k' then (k', v) :: areplace k v r else (k', v') :: areplace k v r

def akeys : List (κ × ν) → List κ
  | [] => []
  | (k, _) :: r => k :: akeys r

/-! ### tables -/

abbrev ChanId := Nat

/-- ghost identity of the front-end operation waiting on a oneshot: `op` numbers the operation,
`wire` is the request id that operation wrote into its message -/
structure Ticket where
  op : Nat
  wire : Id
  deriving DecidableEq, Repr

/-- manager.rs:48-53 -/
inductive Kind where
  | pendingCall (t : Option Ticket)                     -- `None` = reserved slot / internal unsubscribe
  | pendingSub (unsubId : Id) (t : Ticket) (unsubMethod : Text)
  | sub (unsubId : Id) (chan : ChanId) (unsubMethod : Text)
  | pendingUnsub (subReq : Id) (chan : ChanId)   -- under the unsubscribe id while that call is in flight; holds the
                                                 -- subscribe id (`chan` is ghost: whose unsubscribe it is)
  deriving DecidableEq, Repr

/-- manager.rs:84-96 -/
structure Mgr where
  requests : List (Id × Kind) := []
  subs : List (SubId × Id) := []
  batches : List ((Nat × Nat) × Ticket) := []
  handlers : List (Text × ChanId) := []
  deriving Repr

inductive Status where
  | pendingCall | pendingSub | sub | invalid
  deriving DecidableEq, Repr

namespace Mgr

/-- manager.rs:108-119 -/
def insertPendingCall (m : Mgr) (id : Id) (t : Option Ticket) : Option Mgr :=
  match alookup id m.requests with
  | some _ => none
  | none => some { m with requests := (id, .pendingCall t) :: m.requests }

/-- manager.rs:124-135 -/
def insertPendingBatch (m : Mgr) (r : Nat × Nat) (t : Ticket) : Option Mgr :=
  match alookup r m.batches with
  | some _ => none
  | none => some { m with batches := (r, t) :: m.batches }

/-- manager.rs:140-159: the subscribe slot **and** the reserved unsubscribe slot -/
def insertPendingSubscription (m : Mgr) (sid uid : Id) (t : Ticket) (um : Text) : Option Mgr :=
  if (alookup sid m.requests).isNone ∧ (alookup uid m.requests).isNone ∧ sid ≠ uid then
    some { m with requests := (uid, .pendingCall none) :: (sid, .pendingSub uid t um) :: m.requests }
  else none

/-- manager.rs:164-181 -/
def insertSubscription (m : Mgr) (sid uid : Id) (s : SubId) (c : ChanId) (um : Text) : Option Mgr :=
  if (alookup sid m.requests).isNone ∧ (alookup s m.subs).isNone then
    some { m with requests := (sid, .sub uid c um) :: m.requests, subs := (s, sid) :: m.subs }
  else none

/-- manager.rs:184-195 -/
def insertNotificationHandler (m : Mgr) (meth : Text) (c : ChanId) : Option Mgr :=
  match alookup meth m.handlers with
  | some _ => none
  | none => some { m with handlers := (meth, c) :: m.handlers }

/-- manager.rs:198-200 -/
def removeNotificationHandler (m : Mgr) (meth : Text) : Mgr × Option ChanId :=
  ({ m with handlers := aerase meth m.handlers }, alookup meth m.handlers)

/-- manager.rs:205-220 -/
def completePendingSubscription (m : Mgr) (id : Id) : Option (Mgr × Id × Ticket × Text) :=
  match alookup id m.requests with
  | some (.pendingSub uid t um) => some ({ m with requests := aerase id m.requests }, uid, t, um)
  | _ => none

/-- manager.rs:225-233 -/
def completePendingBatch (m : Mgr) (r : Nat × Nat) : Option (Mgr × Ticket) :=
  match alookup r m.batches with
  | some t => some ({ m with batches := aerase r m.batches }, t)
  | none => none

/-- `release_reserved_slot`: frees the slot `insert_pending_subscription` reserved for the unsubscribe
call, if it is still unused -/
def releaseReservedSlot (m : Mgr) (id : Id) : Mgr :=
  match alookup id m.requests with
  | some (.pendingCall none) => { m with requests := aerase id m.requests }
  | _ => m

/-- end of `unsubscribe`: remember under the reserved unsubscribe id which marker to drop on
acknowledgement -/
def markUnsubscribing (m : Mgr) (uid rid : Id) (c : ChanId) : Mgr :=
  match alookup uid m.requests with
  | some (.pendingCall none) => { m with requests := areplace uid (.pendingUnsub rid c) m.requests }
  | _ => m

/-- `complete_pending_call`: a plain pending call, or the acknowledgement of an unsubscribe call —
then the marker `unsubscribe` left under the subscribe id is dropped as well -/
def completePendingCall (m : Mgr) (id : Id) : Option (Mgr × Option Ticket) :=
  match alookup id m.requests with
  | some (.pendingCall t) => some ({ m with requests := aerase id m.requests }, t)
  | some (.pendingUnsub rid _) => some (({ m with requests := aerase id m.requests }).releaseReservedSlot rid, none)
  | _ => none

/-- `remove_subscription`: removes the subscription entry and the reverse index and releases the
reserved unsubscribe slot (no unsubscribe call will be made) -/
def removeSubscription (m : Mgr) (rid : Id) (s : SubId) : Option (Mgr × Id × ChanId × Text) :=
  match alookup rid m.requests, alookup s m.subs with
  | some (.sub uid c um), some _ =>
    some (({ m with requests := aerase rid m.requests, subs := aerase s m.subs }).releaseReservedSlot uid, uid, c, um)
  | _, _ => none

/-- `unsubscribe`: the subscription entry is **replaced** by the marker `PendingMethodCall(None)`,
the reserved slot becomes `PendingUnsubscribe(subscribe id)` -/
def unsubscribe (m : Mgr) (rid : Id) (s : SubId) : Option (Mgr × Id × ChanId × Text) :=
  match alookup rid m.requests, alookup s m.subs with
  | some (.sub uid c um), some _ =>
    some (({ m with requests := areplace rid (.pendingCall none) m.requests, subs := aerase s m.subs }).markUnsubscribing uid rid c,
          uid, c, um)
  | _, _ => none

/-- manager.rs:305-311 -/
def requestStatus (m : Mgr) (id : Id) : Status :=
  match alookup id m.requests with
  | none => .invalid
  | some (.pendingCall _) => .pendingCall
  | some (.pendingSub _ _ _) => .pendingSub
  | some (.sub _ _ _) => .sub
  | some (.pendingUnsub _ _) => .pendingCall

/-- manager.rs:316-318 -/
def asSubscription (m : Mgr) (rid : Id) : Option ChanId :=
  match alookup rid m.requests with
  | some (.sub _ c _) => some c
  | _ => none

/-- manager.rs:323-325 -/
def asNotificationHandler (m : Mgr) (meth : Text) : Option ChanId := alookup meth m.handlers

/-- manager.rs:330-332 -/
def getRequestIdBySubscriptionId (m : Mgr) (s : SubId) : Option Id := alookup s m.subs

/-- the cfg-guarded accessor (DESIGN §8): `HashMap::len` of the four tables -/
def sizes (m : Mgr) : Nat × Nat × Nat × Nat :=
  (m.requests.length, m.subs.length, m.batches.length, m.handlers.length)

end Mgr

/-! ### bounded subscription channels (core/src/client/mod.rs:608-655) -/

inductive Owner where
  | sub (s : SubId)
  | method (m : Text)
  deriving DecidableEq, Repr

structure Chan where
  cap : Nat
  owner : Owner
  op : Nat                          -- ghost: the front-end operation this channel was created for
  buf : List Text := []
  senderAlive : Bool := true
  receiverAlive : Bool := true
  lagged : Bool := false
  hasKind : Bool := true            -- `Subscription.kind` is still `Some` (cleared by `unsubscribe`)
  -- ghost (C05)
  sent : List Text := []            -- every payload handed to this channel's `send`, accepted or not
  accepted : List Text := []        -- the payloads `try_send` accepted
  yielded : List Text := []         -- the payloads `next` returned
  gapped : Bool := false            -- a payload was accepted after an earlier one had been refused
  fullSeen : Nat := 0               -- how often `send` answered `TooSlow` (buffer full, or refused after a lag)
  unsubWires : Nat := 0             -- unsubscribe requests written to the transport for this channel
  closedByServer : Bool := false    -- ended by a close/error notification
  unsubscribed : Bool := false      -- ended by `RequestManager::unsubscribe`
  uid : Id := .null                 -- ghost (C18): request id reserved for this subscription's unsubscribe call
  rid : Id := .null                 -- ghost (C18): request id of the subscribe call (key of its table entry)
  acked : Bool := false             -- ghost (C18): the unsubscribe call has been answered
  deriving Repr

inductive SendRes where
  | ok | closed | full
  deriving DecidableEq, Repr

/-- outcome of `SubscriptionSender::send`: once lagged every message is refused (`TooSlow`);
otherwise `mpsc::Sender::try_send` (tokio reports `Closed` before `Full`) -/
def Chan.sendRes (c : Chan) : SendRes :=
  if c.lagged then .full
  else if !c.receiverAlive then .closed
  else if c.buf.length < c.cap then .ok
  else .full

/-- `SubscriptionSender::send` = `try_send` + `set_lagged` on `Full` (mod.rs:622-632) -/
def Chan.afterSend (c : Chan) (p : Text) : Chan :=
  match c.sendRes with
  | .closed => { c with sent := c.sent ++ [p] }
  | .ok => { c with buf := c.buf ++ [p], sent := c.sent ++ [p], accepted := c.accepted ++ [p],
                    gapped := c.gapped || c.lagged }
  | .full => { c with lagged := true, sent := c.sent ++ [p], fullSeen := c.fullSeen + 1 }

def modifyAt (f : α → α) : List α → Nat → List α
  | [], _ => []
  | x :: xs, 0 => f x :: xs
  | x :: xs, i + 1 => x :: modifyAt f xs i

/-! ### messages and effects -/

/-- `FrontToBack` (core/src/client/mod.rs:386-405) -/
inductive FrontMsg where
  | batch (lo hi : Nat) (t : Ticket) (raw : Text)
  | notification (raw : Text)
  | request (id : Id) (t : Option Ticket) (raw : Text)
  | subscribe (sid uid : Id) (t : Ticket) (unsubMethod : Text) (raw : Text)
  | subscriptionClosed (s : SubId)
  | registerNotif (meth : Text) (t : Ticket)
  | unregisterNotif (meth : Text)
  deriving DecidableEq, Repr

/-- what a front-end future is resolved with -/
inductive Outcome where
  | response (r : Response)                  -- call: `Ok(response)`
  | batch (rs : List Response)               -- batch: `Ok(responses)`
  | subscribed (c : ChanId) (s : SubId)      -- subscribe: `Ok((rx, sub_id))`
  | registered (c : ChanId)                  -- subscribe_to_method: `Ok((rx, method))`
  | callErr (e : ErrObj)                     -- subscribe answered with an error object
  | badSubId                                 -- subscribe result is not a subscription id
  | invalidSubId                             -- `Error::InvalidSubscriptionId` (id already in use)
  | occupied                                 -- `InvalidRequestId::Occupied`
  | alreadyRegistered
  deriving DecidableEq, Repr

inductive Effect where
  | complete (t : Ticket) (o : Outcome)      -- a oneshot is completed (the front-end future resolves)
  | dropped (t : Ticket) (o : Outcome)       -- ghost: `oneshot::send` failed, the future had been dropped
  | wire (text : Text)                       -- handed to the transport sender
  | push (c : ChanId) (payload : Text)       -- accepted by a subscription channel
  | toFront (msg : FrontMsg)                 -- queued by the read task for the send task
  deriving DecidableEq, Repr

/-- errors that end the read task (the client abandons the connection) -/
inductive Fatal where
  | unparseable
  | batch (e : BErr)
  | notPending (id : Id)
  deriving DecidableEq, Repr

/-- manager + channels: everything the two handlers touch -/
structure Core where
  mgr : Mgr := {}
  chans : List Chan := []
  cap : Nat                          -- max_buffer_capacity_per_subscription
  dead : List Nat := []              -- ops whose front-end future was dropped (oneshot receiver gone)
  deriving Repr

def Core.alive (st : Core) (t : Ticket) : Bool := !(st.dead.contains t.op)

/-- `oneshot::Sender::send`: reaches the front end only if the receiver still exists -/
def Core.completeIfAlive (st : Core) (t : Ticket) (o : Outcome) : List Effect :=
  if st.alive t then [.complete t o] else [.dropped t o]

def Core.newChan (st : Core) (owner : Owner) (op : Nat) (uid : Id := .null) (rid : Id := .null) : Core × ChanId :=
  ({ st with chans := st.chans ++ [{ cap := st.cap, owner := owner, op := op, uid := uid, rid := rid }] }, st.chans.length)

def Core.modChan (st : Core) (c : ChanId) (f : Chan → Chan) : Core :=
  { st with chans := modifyAt f st.chans c }

/-- ghost (C18): the response `id` is the acknowledgement of the unsubscribe call of this channel -/
def Mgr.ackTarget (m : Mgr) (id : Id) : Option ChanId :=
  match alookup id m.requests with
  | some (.pendingUnsub _ c) => some c
  | _ => none

def Core.ackAt (st : Core) (c : Option ChanId) : Core :=
  match c with
  | some c => st.modChan c (fun ch => { ch with acked := true })
  | none => st

def dropSender (ch : Chan) : Chan := { ch with senderAlive := false }
def dropReceiver (ch : Chan) : Chan := { ch with receiverAlive := false, buf := [] }

/-! ### helpers.rs -/

def tSubLB : Text := [91]
def tSubRB : Text := [93]

/-- the unsubscribe request text of `build_unsubscribe_message` (helpers.rs:256-267) -/
def unsubRaw (uid : Id) (um : Text) (s : SubId) : Text :=
  encodeRequest { id := uid, method := um, params := some (tSubLB ++ encodeSubId s ++ tSubRB) }

/-- helpers.rs:249-269: `RequestManager::unsubscribe`, the sink is dropped, the message is built -/
def buildUnsubscribeMessage (st : Core) (rid : Id) (s : SubId) : Option (Core × FrontMsg) :=
  match st.mgr.unsubscribe rid s with
  | none => none
  | some (m', uid, c, um) =>
    some (({ st with mgr := m' }).modChan c (fun ch => { dropSender ch with unsubscribed := true }),
          .request uid none (unsubRaw uid um s))

/-- helpers.rs:94-121 -/
def processSubscriptionResponse (st : Core) (s : SubId) (payload : Text) : Core × List Effect :=
  match st.mgr.getRequestIdBySubscriptionId s with
  | none => (st, [])
  | some rid =>
    match st.mgr.asSubscription rid with
    | none => (st, [])
    | some c =>
      match st.chans[c]? with
      | none => (st, [])
      | some ch =>
        (st.modChan c (fun x => x.afterSend payload),
         match ch.sendRes with
         | .ok => [.push c payload]
         | .closed => [.toFront (.subscriptionClosed s)]
         | .full => [.toFront (.subscriptionClosed s)])

/-- helpers.rs:129-142 -/
def processSubscriptionClose (st : Core) (s : SubId) : Core :=
  match st.mgr.getRequestIdBySubscriptionId s with
  | none => st
  | some rid =>
    match st.mgr.removeSubscription rid s with
    | none => st          -- the real code has `expect` here; unreachable under the table invariant
    | some (m', _, c, _) =>
      ({ st with mgr := m' }).modChan c (fun ch => { dropSender ch with closedByServer := true })

/-- helpers.rs:150-167; absent params are delivered as the text `null` -/
def processNotification (st : Core) (meth : Text) (params : Option Text) : Core × List Effect :=
  match st.mgr.asNotificationHandler meth with
  | none => (st, [])
  | some c =>
    match st.chans[c]? with
    | none => (st, [])
    | some ch =>
      match ch.sendRes with
      | .ok => (st.modChan c (fun x => x.afterSend (params.getD tNull)), [.push c (params.getD tNull)])
      | .closed =>
        (({ st with mgr := (st.mgr.removeNotificationHandler meth).1 }).modChan c
            (fun x => dropSender (x.afterSend (params.getD tNull))), [])
      | .full =>
        (({ st with mgr := (st.mgr.removeNotificationHandler meth).1 }).modChan c
            (fun x => dropSender (x.afterSend (params.getD tNull))), [])

/-- the new subscription is in the tables but nobody waits for it any more (helpers.rs): the
receiver half travelled inside the failed `send` and is dropped with it; the read task queues
`SubscriptionClosed(sub_id)` so that the send task builds and sends the unsubscribe call -/
def abandonedSubscribe (st : Core) (c : ChanId) (s : SubId) (t : Ticket) : Core × List Effect :=
  (st.modChan c (fun ch => { dropReceiver ch with hasKind := false }),
   [.dropped t (.subscribed c s), .toFront (.subscriptionClosed s)])

/-- the `PendingSubscription` arm of `process_single_response` (the entry has already been removed);
every path that establishes no subscription releases the reserved unsubscribe slot -/
def completeSubscribe (st : Core) (r : Response) (uid : Id) (t : Ticket) (um : Text) : Core × List Effect :=
  match r.payload with
  | .error e => ({ st with mgr := st.mgr.releaseReservedSlot uid }, st.completeIfAlive t (.callErr e))
  | .result raw =>
    match decodeSubId raw with
    | none => ({ st with mgr := st.mgr.releaseReservedSlot uid }, st.completeIfAlive t .badSubId)
    | some s =>
      match st.mgr.insertSubscription r.id uid s st.chans.length um with
      | none => ({ st with mgr := st.mgr.releaseReservedSlot uid }, st.completeIfAlive t .invalidSubId)
      | some m' =>
        if st.alive t then
          ((({ st with mgr := m' }).newChan (.sub s) t.op uid r.id).1, [.complete t (.subscribed st.chans.length s)])
        else
          abandonedSubscribe (({ st with mgr := m' }).newChan (.sub s) t.op uid r.id).1 st.chans.length s t

/-- helpers.rs:174-234 -/
def processSingleResponse (st : Core) (r : Response) : Except Fatal (Core × List Effect) :=
  match st.mgr.requestStatus r.id with
  | .pendingCall =>
    match st.mgr.completePendingCall r.id with
    | some (m', some t) => .ok ({ st with mgr := m' }, st.completeIfAlive t (.response r))
    | some (m', none) => .ok (({ st with mgr := m' }).ackAt (st.mgr.ackTarget r.id), [])
    | none => .error (.notPending r.id)
  | .pendingSub =>
    match st.mgr.completePendingSubscription r.id with
    | some (m', uid, t, um) => .ok (completeSubscribe { st with mgr := m' } r uid t um)
    | none => .error (.notPending r.id)
  | .sub => .error (.notPending r.id)
  | .invalid => .error (.notPending r.id)

/-- helpers.rs:52-88; the batch entry is removed before the fill loop can fail -/
def processBatchResponse (st : Core) (rps : List Response) (lo hi : Nat) : Core × List Effect × Option Fatal :=
  match st.mgr.completePendingBatch (lo, hi) with
  | none => (st, [], some (.batch (.notPendingRange lo hi)))
  | some (m', t) =>
    match fillSlots lo (List.replicate (hi - lo) placeholder) rps with
    | .err e => ({ st with mgr := m' }, [], some (.batch e))
    | .ok slots => ({ st with mgr := m' }, st.completeIfAlive t (.batch slots), none)

/-! ### incoming texts (mod.rs:681-780) -/

/-- `Notification<SubscriptionPayload{,Error}>`: `jsonrpc`, `method`, `params = {subscription, <key>}` -/
def decodeSubMsg (key : Text) (raw : Text) : Option (SubId × Text) :=
  match structFields notifKnown notifDeny raw with
  | some [some j, some m, some p] =>
    if !isTwoPointZero j then none else
    match decodeString m with
    | none => none
    | some _ =>
      match structFields [kSubscription, key] false p with
      | some [some s, some v] =>
        (match decodeSubId s with
         | some sid => some (sid, v)
         | none => none)
      | _ => none
  | _ => none

inductive Incoming where
  | response (r : Response)
  | subNotif (s : SubId) (payload : Text)
  | subClose (s : SubId)
  | notif (meth : Text) (params : Option Text)
  | garbage
  deriving DecidableEq, Repr

/-- the `if let Ok(..) … else if let Ok(..)` chain shared by the single and the array path:
Response, SubscriptionResponse, SubscriptionError, Notification — in this order -/
def classifyIncoming (raw : Text) : Incoming :=
  match decodeResponse raw with
  | some r => .response r
  | none =>
    match decodeSubMsg kResult raw with
    | some (s, v) => .subNotif s v
    | none =>
      match decodeSubMsg kError raw with
      | some (s, _) => .subClose s
      | none =>
        match decodeNotif raw with
        | some n => .notif n.method n.params
        | none => .garbage

/-- `raw.iter().find(|b| !b.is_ascii_whitespace())` -/
def firstNonWs : Text → Option Nat
  | [] => none
  | c :: r => if isAsciiWs c then firstNonWs r else some c

/-- result of one `handle_recv_message`: the state changes always persist; the queued messages are
returned only on `Ok` -/
structure BackOut where
  st : Core
  effs : List Effect := []
  fatal : Option Fatal := none
  deriving Repr

/-- accumulator of the array loop (mod.rs:725-758) -/
structure ArrAcc where
  st : Core
  effs : List Effect := []
  batch : List Response := []        -- in arrival order
  range : Option (Nat × Nat) := none
  gotNotif : Bool := false

/-- the `for r in raw_responses` loop; `some f` = early `return Err(..)` (state changes kept) -/
def arrayLoop : ArrAcc → List Text → ArrAcc × Option Fatal
  | acc, [] => (acc, none)
  | acc, e :: rest =>
    match classifyIncoming e with
    | .response r =>
      (match idNum r.id with
       | none => (acc, some (.batch (.invalidId r.id)))
       | some id => arrayLoop { acc with batch := acc.batch ++ [r], range := some (widen acc.range id) } rest)
    | .garbage => (acc, some .unparseable)
    | .subNotif s p =>
      arrayLoop { acc with st := (processSubscriptionResponse acc.st s p).1,
                           effs := acc.effs ++ (processSubscriptionResponse acc.st s p).2, gotNotif := true } rest
    | .subClose s => arrayLoop { acc with st := processSubscriptionClose acc.st s, gotNotif := true } rest
    | .notif m p =>
      arrayLoop { acc with st := (processNotification acc.st m p).1,
                           effs := acc.effs ++ (processNotification acc.st m p).2, gotNotif := true } rest

def notToFront : Effect → Bool
  | .toFront _ => false
  | _ => true

/-- on an error return the `messages` vector is lost; completions and pushes already happened -/
def dropQueued (effs : List Effect) : List Effect := effs.filter notToFront

/-- after the loop (mod.rs:760-769) -/
def arrayFinish (acc : ArrAcc) : BackOut :=
  match acc.range with
  | some (lo, hi) =>
    (match rangeEnd hi with
     | .err e => { st := acc.st, effs := dropQueued acc.effs, fatal := some (.batch e) }
     | .ok hi1 =>
       match (processBatchResponse acc.st acc.batch lo hi1).2.2 with
       | some f => { st := (processBatchResponse acc.st acc.batch lo hi1).1, effs := dropQueued acc.effs, fatal := some f }
       | none => { st := (processBatchResponse acc.st acc.batch lo hi1).1,
                   effs := acc.effs ++ (processBatchResponse acc.st acc.batch lo hi1).2.1 })
  | none =>
    if acc.gotNotif then { st := acc.st, effs := acc.effs }
    else { st := acc.st, effs := dropQueued acc.effs, fatal := some (.batch .empty) }

def handleArray (st : Core) (es : List Text) : BackOut :=
  match arrayLoop { st := st } es with
  | (acc, some f) => { st := acc.st, effs := dropQueued acc.effs, fatal := some f }
  | (acc, none) => arrayFinish acc

def handleSingle (st : Core) (raw : Text) : BackOut :=
  match classifyIncoming raw with
  | .response r =>
    (match processSingleResponse st r with
     | .ok (st', effs) => { st := st', effs := effs }
     | .error f => { st := st, fatal := some f })
  | .garbage => { st := st, fatal := some .unparseable }
  | .subNotif s p => { st := (processSubscriptionResponse st s p).1, effs := (processSubscriptionResponse st s p).2 }
  | .subClose s => { st := processSubscriptionClose st s }
  | .notif m p => { st := (processNotification st m p).1, effs := (processNotification st m p).2 }

/-- `handle_recv_message` (mod.rs:681-780) -/
def handleBack (st : Core) (raw : Text) : BackOut :=
  match firstNonWs raw with
  | none => { st := st, fatal := some .unparseable }
  | some c =>
    if c == 123 then handleSingle st raw
    else if c == 91 then
      (match elements raw with
       | some es => handleArray st es
       | none => { st := st, fatal := some .unparseable })
    else { st := st, fatal := some .unparseable }

/-! ### front-end messages (mod.rs:799-886) -/

def handleFront (st : Core) (msg : FrontMsg) : Core × List Effect :=
  match msg with
  | .batch lo hi t raw =>
    (match st.mgr.insertPendingBatch (lo, hi) t with
     | none => (st, st.completeIfAlive t .occupied)
     | some m' => ({ st with mgr := m' }, [.wire raw]))
  | .notification raw => (st, [.wire raw])
  | .request id t raw =>
    (match st.mgr.insertPendingCall id t with
     | none =>
       (match t with
        | some tk => (st, st.completeIfAlive tk .occupied)
        | none => (st, []))
     | some m' => ({ st with mgr := m' }, [.wire raw]))
  | .subscribe sid uid t um raw =>
    (match st.mgr.insertPendingSubscription sid uid t um with
     | none => (st, st.completeIfAlive t .occupied)
     | some m' => ({ st with mgr := m' }, [.wire raw]))
  | .subscriptionClosed s =>
    (match st.mgr.getRequestIdBySubscriptionId s with
     | none => (st, [])
     | some rid =>
       match st.mgr.asSubscription rid, buildUnsubscribeMessage st rid s with
       | some c, some (st', .request _ _ raw) =>
         (st'.modChan c (fun ch => { ch with unsubWires := ch.unsubWires + 1 }), [.wire raw])
       | _, _ => (st, []))
  | .registerNotif meth t =>
    (match st.mgr.insertNotificationHandler meth st.chans.length with
     | some m' =>
       if st.alive t then
         ((({ st with mgr := m' }).newChan (.method meth) t.op).1, [.complete t (.registered st.chans.length)])
       else
         -- the receiver is dropped with the failed `send`; the handler entry stays until a
         -- notification for the method finds the channel closed
         ((({ st with mgr := m' }).newChan (.method meth) t.op).1.modChan st.chans.length
            (fun ch => { dropReceiver ch with hasKind := false }), [.dropped t (.registered st.chans.length)])
     | none => (st, st.completeIfAlive t .alreadyRegistered))
  | .unregisterNotif meth =>
    (match (st.mgr.removeNotificationHandler meth).2 with
     | some c => (({ st with mgr := (st.mgr.removeNotificationHandler meth).1 }).modChan c dropSender, [])
     | none => (st, []))

/-! ### the whole client as a step machine -/

/-- `IdKind::into_id` -/
def mkId (strIds : Bool) (n : Nat) : Id := if strIds then .str (encodeNat n) else .num n

def tM : Text := [109]                                   -- "m"

structure St where
  core : Core
  pool : List FrontMsg := []       -- front-to-back messages not yet taken by the send task
  nextId : Nat := 0                -- `CurrentId`
  nextOp : Nat := 0                -- ghost: numbering of front-end operations
  strIds : Bool := false           -- `IdKind::String`
  deriving Repr

def St.init (cap : Nat) (strIds : Bool) : St := { core := { cap := cap }, strIds := strIds }

/-- the request texts of a batch (`BatchRequestBuilder` entries get consecutive ids) -/
def batchReqs (strIds : Bool) (meth : Text) : Nat → Nat → List Text
  | _, 0 => []
  | start, n + 1 => encodeRequest { id := mkId strIds start, method := meth, params := none } :: batchReqs strIds meth (start + 1) n

def joinComma : List Text → Text
  | [] => []
  | [a] => a
  | a :: b :: r => a ++ [44] ++ joinComma (b :: r)

def batchRaw (strIds : Bool) (meth : Text) (start n : Nat) : Text :=
  [91] ++ joinComma (batchReqs strIds meth start n) ++ [93]

inductive Step where
  -- front end: allocate ids, build the message, queue it for the send task
  | newCall (meth : Text) (params : Option Text)
  | newSubscribe (subMeth unsubMeth : Text)
  | newBatch (meth : Text) (n : Nat)
  | newRegister (meth : Text)
  | newNotification (raw : Text)
  | abandon (op : Nat)                      -- a front-end future is dropped before it resolved
  -- background tasks
  | sendTask (i : Nat)                      -- the send task takes `pool[i]` (really: i = 0)
  | recv (raw : Text)                       -- the read task handles one incoming text
  -- consumer of a subscription stream
  | next (c : ChanId)
  | dropStream (c : ChanId) (room : Bool)   -- `Drop`: `try_send` succeeds iff the front channel has room
  | unsubscribeStream (c : ChanId)          -- `Subscription::unsubscribe`: queued with back-pressure
  deriving DecidableEq, Repr

inductive StepOut where
  | none
  | item (p : Text)          -- `next` returned an item
  | pending                  -- `next` would wait
  | ended (lagged : Bool)    -- `next` returned `None`; `close_reason`
  deriving DecidableEq, Repr

structure StepRes where
  st : St
  effs : List Effect := []
  fatal : Option Fatal := none
  out : StepOut := .none

def removeAt : List α → Nat → List α
  | [], _ => []
  | _ :: xs, 0 => xs
  | x :: xs, i + 1 => x :: removeAt xs i

def closeMsg (o : Owner) : FrontMsg :=
  match o with
  | .sub s => .subscriptionClosed s
  | .method m => .unregisterNotif m

def queuedMsgs : List Effect → List FrontMsg
  | [] => []
  | .toFront m :: r => m :: queuedMsgs r
  | _ :: r => queuedMsgs r

def step (st : St) (s : Step) : StepRes :=
  match s with
  | .newCall meth params =>
    { st := { st with
        pool := st.pool ++ [.request (mkId st.strIds st.nextId) (some { op := st.nextOp, wire := mkId st.strIds st.nextId })
                              (encodeRequest { id := mkId st.strIds st.nextId, method := meth, params := params })],
        nextId := st.nextId + 1, nextOp := st.nextOp + 1 } }
  | .newSubscribe sm um =>
    { st := { st with
        pool := st.pool ++ [.subscribe (mkId st.strIds st.nextId) (mkId st.strIds (st.nextId + 1))
                              { op := st.nextOp, wire := mkId st.strIds st.nextId } um
                              (encodeRequest { id := mkId st.strIds st.nextId, method := sm, params := none })],
        nextId := st.nextId + 2, nextOp := st.nextOp + 1 } }
  | .newBatch meth n =>
    -- `next_batch_request_id(len)` reserves the whole range `[id, id+n)` of `generate_batch_id_range`: the
    -- allocator advances by the number of entries (pre-fix it advanced by one, see `stepOldAlloc`)
    { st := { st with
        pool := st.pool ++ [.batch st.nextId (st.nextId + n) { op := st.nextOp, wire := mkId st.strIds st.nextId }
                              (batchRaw st.strIds meth st.nextId n)],
        nextId := st.nextId + n, nextOp := st.nextOp + 1 } }
  | .newRegister meth =>
    { st := { st with
        pool := st.pool ++ [.registerNotif meth { op := st.nextOp, wire := .null }],
        nextOp := st.nextOp + 1 } }
  | .newNotification raw =>
    { st := { st with pool := st.pool ++ [.notification raw], nextId := st.nextId + 1 } }
  | .abandon op => { st := { st with core := { st.core with dead := op :: st.core.dead } } }
  | .sendTask i =>
    (match st.pool[i]? with
     | none => { st := st }
     | some msg =>
       { st := { st with core := (handleFront st.core msg).1, pool := removeAt st.pool i },
         effs := (handleFront st.core msg).2 })
  | .recv raw =>
    { st := { st with core := (handleBack st.core raw).st,
                      pool := st.pool ++ queuedMsgs (handleBack st.core raw).effs },
      effs := (handleBack st.core raw).effs, fatal := (handleBack st.core raw).fatal }
  | .next c =>
    (match st.core.chans[c]? with
     | none => { st := st }
     | some ch =>
       if !ch.receiverAlive then { st := st } else
       match ch.buf with
       | p :: rest =>
         { st := { st with core := st.core.modChan c (fun x => { x with buf := rest, yielded := x.yielded ++ [p] }) },
           out := .item p }
       | [] => if ch.senderAlive then { st := st, out := .pending } else { st := st, out := .ended ch.lagged })
  | .dropStream c room =>
    (match st.core.chans[c]? with
     | none => { st := st }
     | some ch =>
       if !ch.receiverAlive then { st := st } else
       { st := { st with core := st.core.modChan c (fun x => { dropReceiver x with hasKind := false }),
                         pool := if ch.hasKind && room then st.pool ++ [closeMsg ch.owner] else st.pool } })
  | .unsubscribeStream c =>
    (match st.core.chans[c]? with
     | none => { st := st }
     | some ch =>
       if !ch.receiverAlive || !ch.hasKind then { st := st } else
       { st := { st with core := st.core.modChan c (fun x => { x with hasKind := false }),
                         pool := st.pool ++ [closeMsg ch.owner] } })

/-- the id allocation of `batch_request` before the fix: one id taken from the allocator although the batch uses
`[id, id+n)` — the ids of the later entries are handed out again to the next call or batch -/
def stepOldAlloc (st : St) (s : Step) : StepRes :=
  match s with
  | .newBatch _ _ => { step st s with st := { (step st s).st with nextId := st.nextId + 1 } }
  | _ => step st s

def runOldAlloc : St → List Step → St × List Effect
  | st, [] => (st, [])
  | st, s :: rest => ((runOldAlloc (stepOldAlloc st s).st rest).1, (stepOldAlloc st s).effs ++ (runOldAlloc (stepOldAlloc st s).st rest).2)

/-- run a list of steps; the effect trace and the fatal errors are accumulated in order -/
def run : St → List Step → St × List Effect
  | st, [] => (st, [])
  | st, s :: rest => ((run (step st s).st rest).1, (step st s).effs ++ (run (step st s).st rest).2)

end Jrpc.Client
