/-
  F5 / Layer B — the async client's background tasks as a protocol machine (C09).

  Mirrors (current /repo tree, core/src/client/async_client/mod.rs):
    send_task            loop `select!{ close_tx.closed() | from_frontend.recv() | ping }`, the exit
                         sequence `close_tx.send(res).await; close_tx.closed().await;
                         from_frontend.close(); sender.close().await`
    read_task            loop `select!{ close_tx.closed() | … | backend_event.next() | inactivity }`,
                         exit `close_tx.send(res).await`
    wait_for_shutdown    first message of the capacity-1 channel wins, `Err` ⇒ written to the slot
    ErrorFromBack::read_error / Client::run_future_until_timeout / Client::on_disconnect
                         `conn.closed().await`, then the slot: `Some` ⇒ RestartNeeded(cause),
                         `None` ⇒ Custom("Error reason could not be found. …")  (the placeholder)
    rpc_service.rs       `tx.send(msg).await?` / `send_back_rx.await??` ⇒ `Error::ServiceDisconnect`

  Granularity: one `Op` = the code of one actor between two `.await` points (or one critical
  section).  A step that is not enabled in a state leaves the state unchanged, so *every* list of
  ops is a schedule and the theorems quantify over all of them.

  The `Client` value is assumed alive (nobody can observe a dropped client), hence the
  `client_dropped` arm of the watcher and `from_frontend.recv() == None` are not steps.

  `ExitOrder` is the single switch between the exit sequence of the send task as it is in /repo
  now (`causeFirst`, fix b02fc5a = proposed_fixes/C09-cause-before-front-close.diff) and as it was
  before (`frontFirst`: `from_frontend.close(); sender.close().await; close_tx.send(res).await`,
  kept so that the old defect stays stated and refuted); `repoExitOrder` is the one the driver and
  the property theorems use.
-/
import JrpcVerif.Model.ClientMgr
namespace Jrpc.ClientTasks
open Jrpc Jrpc.Client

/-- why a background task ended with `Err` -/
inductive Cause where
  | sendFailed (tag : Nat)      -- `Error::Transport(e)`: `sender.send` / `send_ping` failed
  | recvFailed (tag : Nat)      -- `Error::Transport(e)`: `receiver.receive` failed
  | peerClosed                  -- `receiver.receive` failed because the peer went away
  | inactive                    -- `Error::Transport("WebSocket ping/pong inactive")`
  | fatal (f : Fatal)           -- the client abandons the connection because of what the server sent
  deriving DecidableEq, Repr

/-- `Result<(), Error>` of a background task: `none` = `Ok(())` -/
abbrev Res := Option Cause

/-- order of the send task's exit sequence -/
inductive ExitOrder where
  | frontFirst    -- from_frontend.close(); sender.close().await; close_tx.send(res).await
  | causeFirst    -- close_tx.send(res).await; close_tx.closed().await; from_frontend.close(); sender.close().await
  deriving DecidableEq, Repr

/-- **the switch**: the exit sequence of `send_task` in /repo as it is now -/
def repoExitOrder : ExitOrder := .causeFirst

inductive SendPhase where
  | idle                          -- in the `select!`
  | sending                       -- inside `handle_frontend_messages`, at `sender.send(..).await`
  | closingTransport (r : Res)    -- at `sender.close().await`
  | reporting (r : Res)           -- at `close_tx.send(res).await`
  | awaitWatcher                  -- (causeFirst only) at `close_tx.closed().await`
  | done                          -- returned: manager clone, front receiver and `close_tx` clone dropped
  deriving DecidableEq, Repr

inductive ReadPhase where
  | idle
  | reporting (r : Res)           -- at `close_tx.send(res).await`
  | done
  deriving DecidableEq, Repr

/-- what a front-end future resolved with -/
inductive FRes where
  | ok                            -- answered (call/batch/subscribe) or queued (notification)
  | restart (c : Cause)           -- `Error::RestartNeeded(cause)`
  | placeholder                   -- `Error::Custom("Error reason could not be found. …")`
  | timeout                       -- `Error::RequestTimeout`
  deriving DecidableEq, Repr

/-- where a front-end operation is -/
inductive FPhase where
  | blocked (reply : Bool)        -- at `tx.send(msg).await`, the front channel is full
  | queued                        -- message in the front channel, waiting on the oneshot
  | inManager                     -- the send task took the message: the oneshot sits in the manager
  | disconnected                  -- got `ServiceDisconnect`; in `read_error` at `conn.closed().await`
  | watching                      -- the application awaits `Client::on_disconnect()` itself (same wait, by choice)
  | resolved (r : FRes)
  deriving DecidableEq, Repr

structure State where
  fcap : Nat := 256                       -- max_concurrent_requests (capacity of the front channel)
  frontClosed : Bool := false             -- `from_frontend.close()` happened (`to_back.is_closed()`)
  queue : List (Option Nat) := []         -- front channel: ticket of the operation, `none` = internal message
  closeBuf : Option Res := none           -- the capacity-1 channel `close_tx → close_rx`
  watcherDone : Bool := false             -- `wait_for_shutdown` returned (its receiver is dropped)
  cause : Option Cause := none            -- `disconnect_reason`
  causeWrites : Nat := 0                  -- ghost: number of writes to the slot
  sendP : SendPhase := .idle
  readP : ReadPhase := .idle
  transportClosed : Bool := false         -- `sender.close()` returned
  fronts : List FPhase := []              -- front-end operations by ticket
  failures : List Cause := []             -- ghost: every `Err` a background task broke its loop with
  deriving Repr

def State.setPhase (s : State) (i : Nat) (p : FPhase) : State := { s with fronts := s.fronts.set i p }

/-! ### observers -/

/-- `Client::is_connected` -/
def isConnected (s : State) : Bool := !s.frontClosed

/-- what reading the slot gives (`ErrorFromBack::read_error` after `conn.closed()`) -/
def slotResult (s : State) : FRes :=
  match s.cause with
  | some c => .restart c
  | none => .placeholder

/-- `Client::on_disconnect().now_or_never()`: pending while the front channel is open -/
def onDisconnect (s : State) : Option FRes := if s.frontClosed then some (slotResult s) else none

/-! ### front end -/

def admitted (reply : Bool) : FPhase := if reply then .queued else .resolved .ok

/-- a caller starts: `tx.send(msg).await` (rpc_service.rs) -/
def frontNew (s : State) (reply : Bool) : State :=
  if s.frontClosed then { s with fronts := s.fronts ++ [.disconnected] }
  else if s.queue.length < s.fcap then
    { s with queue := s.queue ++ [some s.fronts.length], fronts := s.fronts ++ [admitted reply] }
  else { s with fronts := s.fronts ++ [.blocked reply] }

/-- a sender blocked on the full channel is woken (room, or the channel was closed) -/
def frontRetry (s : State) (i : Nat) : State :=
  match s.fronts[i]? with
  | some (.blocked reply) =>
    if s.frontClosed then s.setPhase i .disconnected
    else if s.queue.length < s.fcap then
      { s with queue := s.queue ++ [some i], fronts := s.fronts.set i (admitted reply) }
    else s
  | _ => s

/-- the oneshot sender of operation `i` no longer exists: its message was dropped with the front
receiver (send task returned), or the manager was dropped (both tasks returned) -/
def senderDropped (s : State) (i : Nat) : Bool :=
  match s.fronts[i]? with
  | some .queued => s.sendP == .done
  | some .inManager => s.sendP == .done && s.readP == .done
  | _ => false

/-- `send_back_rx.await` yields `RecvError` ⇒ `ServiceDisconnect` -/
def frontDrop (s : State) (i : Nat) : State :=
  if senderDropped s i then s.setPhase i .disconnected else s

/-- `read_error`: `conn.closed()` has completed, read the slot -/
def frontReadError (s : State) (i : Nat) : State :=
  match s.fronts[i]? with
  | some .disconnected => if s.frontClosed then s.setPhase i (.resolved (slotResult s)) else s
  | some .watching => if s.frontClosed then s.setPhase i (.resolved (slotResult s)) else s
  | _ => s

/-- the application starts to await `Client::on_disconnect()` -/
def frontWatch (s : State) : State := { s with fronts := s.fronts ++ [.watching] }

/-- `futures_timer::Delay` wins the `select` of `run_future_until_timeout` -/
def frontTimer (s : State) (i : Nat) : State :=
  match s.fronts[i]? with
  | some (.blocked _) => s.setPhase i (.resolved .timeout)
  | some .queued => s.setPhase i (.resolved .timeout)
  | some .inManager => s.setPhase i (.resolved .timeout)
  | _ => s

/-- a consumer of a subscription stream (`Drop` / `Subscription::unsubscribe`) queues
`SubscriptionClosed` / `UnregisterNotification` for the send task: it gets in only while the front
channel is open and has room (`try_send`; the awaited `send` of `unsubscribe` behaves the same as
long as the channel is not full) -/
def consumerMsg (s : State) : State :=
  if s.frontClosed then s
  else if s.queue.length < s.fcap then { s with queue := s.queue ++ [none] }
  else s

/-! ### send task -/

/-- `from_frontend.recv()` yields a message (the `closed` arm of the biased select is not ready);
the message's oneshot goes into the manager, then `sender.send(..).await` -/
def sendTake (s : State) : State :=
  if s.sendP = .idle ∧ s.watcherDone = false then
    match s.queue with
    | [] => s
    | some i :: rest =>
      if s.fronts[i]? = some .queued then
        { s with queue := rest, sendP := .sending, fronts := s.fronts.set i .inManager }
      else { s with queue := rest, sendP := .sending }
    | none :: rest => { s with queue := rest, sendP := .sending }
  else s

/-- the code after `break res` up to the next await -/
def exitLoop (o : ExitOrder) (s : State) (r : Res) : State :=
  match o with
  | .frontFirst => { s with frontClosed := true, sendP := .closingTransport r }
  | .causeFirst => { s with sendP := .reporting r }

def sendOk (s : State) : State := if s.sendP = .sending then { s with sendP := .idle } else s

/-- `sender.send` returned `Err` -/
def sendErr (o : ExitOrder) (s : State) (tag : Nat) : State :=
  if s.sendP = .sending then
    exitLoop o { s with failures := s.failures ++ [.sendFailed tag] } (some (.sendFailed tag))
  else s

/-- `sender.send_ping` returned `Err` (ping arm of the select) -/
def pingErr (o : ExitOrder) (s : State) (tag : Nat) : State :=
  if s.sendP = .idle ∧ s.watcherDone = false then
    exitLoop o { s with failures := s.failures ++ [.sendFailed tag] } (some (.sendFailed tag))
  else s

/-- `close_tx.closed()` arm: the watcher has gone -/
def sendSeesClosed (o : ExitOrder) (s : State) : State :=
  if s.sendP = .idle ∧ s.watcherDone = true then exitLoop o s none else s

def afterTransportClose (o : ExitOrder) (r : Res) : SendPhase :=
  match o with
  | .frontFirst => .reporting r
  | .causeFirst => .done

def sendTransportClosed (o : ExitOrder) (s : State) : State :=
  match s.sendP with
  | .closingTransport r => { s with transportClosed := true, sendP := afterTransportClose o r }
  | _ => s

def afterReport (o : ExitOrder) : SendPhase :=
  match o with
  | .frontFirst => .done
  | .causeFirst => .awaitWatcher

/-- `close_tx.send(res).await`: receiver gone ⇒ `Err` (value lost); room ⇒ buffered; full ⇒ keeps waiting -/
def sendReport (o : ExitOrder) (s : State) : State :=
  match s.sendP with
  | .reporting r =>
    if s.watcherDone then { s with sendP := afterReport o }
    else if s.closeBuf.isNone then { s with closeBuf := some r, sendP := afterReport o }
    else s
  | _ => s

/-- (causeFirst) `close_tx.closed().await` completed -/
def sendWatcherGone (s : State) : State :=
  if s.sendP = .awaitWatcher ∧ s.watcherDone = true then
    { s with frontClosed := true, sendP := .closingTransport none }
  else s

/-! ### read task -/

def completeOne (s : State) (i : Nat) : State :=
  if s.fronts[i]? = some .inManager then s.setPhase i (.resolved .ok) else s

/-- a background task sends on the oneshot of a waiting operation (the read task answering a call,
the send task answering `subscribe_to_method` or refusing a duplicate id) -/
def taskAnswers (s : State) (i : Nat) : State := completeOne s i

/-- one incoming message handled without error: at most one waiting operation is answered,
`internal` messages (unsubscribe / subscription-closed) are queued for the send task -/
def readOk (s : State) (answered : Option Nat) (internal : Nat) : State :=
  if s.readP = .idle ∧ s.watcherDone = false then
    let s1 := match answered with
      | some i => completeOne s i
      | none => s
    if s1.frontClosed then s1 else { s1 with queue := s1.queue ++ List.replicate internal none }
  else s

/-- the loop breaks with `Err(c)`: transport error, peer close, inactivity, or `handle_backend_messages` failed -/
def readErr (s : State) (c : Cause) : State :=
  if s.readP = .idle ∧ s.watcherDone = false then
    { s with readP := .reporting (some c), failures := s.failures ++ [c] }
  else s

def readSeesClosed (s : State) : State :=
  if s.readP = .idle ∧ s.watcherDone = true then { s with readP := .reporting none } else s

def readReport (s : State) : State :=
  match s.readP with
  | .reporting r =>
    if s.watcherDone then { s with readP := .done }
    else if s.closeBuf.isNone then { s with closeBuf := some r, readP := .done }
    else s
  | _ => s

/-! ### shutdown watcher -/

/-- `close_rx.recv()` yields the first message; `Err` ⇒ the slot is written; the function returns -/
def watch (s : State) : State :=
  if s.watcherDone then s else
  match s.closeBuf with
  | none => s
  | some none => { s with closeBuf := none, watcherDone := true }
  | some (some c) => { s with closeBuf := none, watcherDone := true, cause := some c, causeWrites := s.causeWrites + 1 }

/-! ### the machine -/

inductive Op where
  | frontNew (reply : Bool)
  | frontRetry (i : Nat)
  | frontDrop (i : Nat)
  | frontReadError (i : Nat)
  | frontTimer (i : Nat)
  | frontWatch
  | taskAnswers (i : Nat)
  | consumerMsg
  | sendTake
  | sendOk
  | sendErr (tag : Nat)
  | pingErr (tag : Nat)
  | sendSeesClosed
  | sendTransportClosed
  | sendReport
  | sendWatcherGone
  | readOk (answered : Option Nat) (internal : Nat)
  | readErr (c : Cause)
  | readSeesClosed
  | readReport
  | watch
  deriving DecidableEq, Repr

def step (o : ExitOrder) (s : State) : Op → State
  | .frontNew reply => frontNew s reply
  | .frontRetry i => frontRetry s i
  | .frontDrop i => frontDrop s i
  | .frontReadError i => frontReadError s i
  | .frontTimer i => frontTimer s i
  | .consumerMsg => consumerMsg s
  | .frontWatch => frontWatch s
  | .taskAnswers i => taskAnswers s i
  | .sendTake => sendTake s
  | .sendOk => sendOk s
  | .sendErr tag => sendErr o s tag
  | .pingErr tag => pingErr o s tag
  | .sendSeesClosed => sendSeesClosed o s
  | .sendTransportClosed => sendTransportClosed o s
  | .sendReport => sendReport o s
  | .sendWatcherGone => sendWatcherGone s
  | .readOk a n => readOk s a n
  | .readErr c => readErr s c
  | .readSeesClosed => readSeesClosed s
  | .readReport => readReport s
  | .watch => watch s

def run (o : ExitOrder) : State → List Op → State
  | s, [] => s
  | s, op :: rest => run o (step o s op) rest

def init (fcap : Nat) : State := { fcap := fcap }

/-- a transport *send-side* failure (the only steps after which `frontFirst` closes the front
channel before the cause is recorded) -/
def isSendFailure : Op → Bool
  | .sendErr _ => true
  | .pingErr _ => true
  | _ => false

def noSendFailure : List Op → Bool
  | [] => true
  | op :: rest => !isSendFailure op && noSendFailure rest

/-- an operation that observes the disconnect runs to completion: woken if blocked, sees the
dropped oneshot, reads the slot -/
def settleFront (s : State) (i : Nat) : State := frontReadError (frontDrop (frontRetry s i) i) i

/-! ### Layer A: the panic sites of `handle_backend_messages` and the dropped manager -/

/-- helpers.rs:136 `manager.remove_subscription(request_id, sub_id).expect("Both request ID and sub ID
in RequestManager; qed")` would fire -/
def closeExpectFails (st : Core) (s : SubId) : Bool :=
  match st.mgr.getRequestIdBySubscriptionId s with
  | none => false
  | some rid => (st.mgr.removeSubscription rid s).isNone

/-- the array loop (mod.rs:730-758) reaches a failing `expect`; the state evolves as in `arrayLoop` -/
def arrayPanics : Core → List Text → Bool
  | _, [] => false
  | st, e :: rest =>
    match classifyIncoming e with
    | .response r =>
      (match idNum r.id with
       | none => false
       | some _ => arrayPanics st rest)
    | .garbage => false
    | .subNotif s p => arrayPanics (processSubscriptionResponse st s p).1 rest
    | .subClose s => closeExpectFails st s || arrayPanics (processSubscriptionClose st s) rest
    | .notif m p => arrayPanics (processNotification st m p).1 rest

/-- `handle_recv_message` would panic on this text in this state.  The arithmetic on peer-controlled
ids is `checked_add` / `checked_sub` / `get_mut` (mod.rs:762-765, helpers.rs:75-83): it cannot panic,
its failure is the `Fatal` value `batch (invalidNum _)` / `batch (notPendingId _)` of `handleBack` -/
def backPanics (st : Core) (raw : Text) : Bool :=
  match firstNonWs raw with
  | none => false
  | some c =>
    if c == 123 then
      (match classifyIncoming raw with
       | .subClose s => closeExpectFails st s
       | _ => false)
    else if c == 91 then
      (match elements raw with
       | some es => arrayPanics st es
       | none => false)
    else false

/-- table invariant of the manager the `expect` relies on: every entry of the reverse index points
to a subscription entry, and no two subscription ids share one -/
def SubsOK (m : Mgr) : Prop :=
  ∀ s rid, alookup s m.subs = some rid →
    (∃ uid c um, alookup rid m.requests = some (.sub uid c um)) ∧
    ∀ s', alookup s' m.subs = some rid → s' = s

/-- both background tasks returned: the last clone of the manager is dropped, with it every
oneshot sender and every subscription / notification sink -/
def dropManager (st : Core) : Core :=
  { st with mgr := {}, chans := st.chans.map dropSender }

/-- every id a reply can carry fits in 64 bits (`Id::Number(u64)`) -/
def idFits : Id → Prop
  | .num n => n ≤ u64Max
  | _ => True

end Jrpc.ClientTasks
