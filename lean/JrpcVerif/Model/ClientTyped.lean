/-
  The typed view of a subscription stream: `impl Stream for Subscription<Notif>` (core/src/client/mod.rs).

  The channel of a subscription carries raw JSON payloads (`Model/ClientMgr.lean`: `Chan.buf`, step `.next`).  The
  front end decodes **each** payload it takes out of the channel into `Notif` and yields the outcome of that decode,
  `Some(Ok(v))` or `Some(Err(_))`: one stream item per payload, in the order of the channel; a payload that is no
  `Notif` is an `Err` item, it is not skipped.  `δ` is the decoder of `Notif` (as for the typed batches of C12).
-/
import JrpcVerif.Model.ClientMgr
namespace Jrpc.Client
open Jrpc

/-- what `poll_next` yields for the payload `p` taken from the channel: `some v` = `Some(Ok(v))`, `none` = `Some(Err(_))` -/
def typedItem {ρ : Type} (δ : Text → Option ρ) (p : Text) : Option ρ := δ p

/-- the items a typed stream has yielded when the raw stream has yielded `ps` -/
def typedItems {ρ : Type} (δ : Text → Option ρ) (ps : List Text) : List (Option ρ) := ps.map (typedItem δ)

end Jrpc.Client
