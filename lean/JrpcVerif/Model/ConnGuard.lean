/-
  C11 — the connection guard of the server, exactly as `/repo/server/src` holds and releases the
  permit.

  future.rs:98-129      `ConnectionGuard { inner: Arc<Semaphore::new(limit)>, max: limit }`,
                        `try_acquire` = `try_acquire_owned` (never waits), `available_connections`.
  server.rs:1018-1149   `TowerServiceNoHttp::call`, the ONLY place a permit is taken
                        (both `Server::start` and the tower-service assembly run this code):
      1028  `let Some(conn_permit) = conn_guard.try_acquire() else { return 429 }`
            (before anything else is looked at: a full server answers 429 to every request,
            also to upgrade requests and to requests the configuration would deny)
      1032  the permit moves into `ConnectionState { _conn_permit: Arc<permit> }` = `conn`
      1044  upgrade request and WS enabled:
              1049 soketto `receive_request` Err  -> plain response, `conn` dropped when `call`
                                                    returns                      (`rejected`)
              1077 Ok -> `conn` moved into the spawned task, which first awaits
                   `hyper::upgrade::on(request)`:  Err -> task returns, `conn` dropped
                                                                                (`wsUpgradeFail`)
                   Ok -> `ws::background_task(params)` owns `conn` for the whole session and
                   drops it at ws.rs:194, after `graceful_shutdown` joined the send task
                                                                 (`wsUpgradeDone` … `wsClose`)
      1123  plain request and HTTP enabled: the returned future owns `conn`, awaits
            `http::call_with_service` (the handler runs inside this future) and executes
            `drop(conn)` before yielding the response (1137-1143)                 (`httpDone`);
            hyper drops the future when the peer goes away mid-call               (`httpAbort`)
      1144  otherwise 403; `conn` is dropped when `call` returns                    (`denied`)

  One `Conn` = one permit holder: an HTTP *request* while it is processed (an idle keep-alive
  connection holds nothing) or a WebSocket connection from its upgrade request to the end of its
  background task.  Connection tags are chosen by the environment; re-using a tag that currently
  holds a permit is not a new arrival (`noop`).
-/
namespace Jrpc.ConnGuard

inductive Phase where
  | http        -- request future running (handler inside)
  | upgrading   -- handshake accepted, spawned task waits for `hyper::upgrade::on`
  | ws          -- `background_task` running
  deriving DecidableEq, Repr

structure Conn where
  id : Nat
  phase : Phase
  deriving DecidableEq, Repr

structure Cfg where
  max : Nat
  enableHttp : Bool := true
  enableWs : Bool := true
  deriving DecidableEq, Repr

structure State where
  cfg : Cfg
  /-- `Semaphore::available_permits` -/
  avail : Nat
  /-- current permit holders (most recent first) -/
  conns : List Conn
  /-- ghost: tags for which a request future with a handler / a WS task was ever started -/
  log : List Nat
  deriving DecidableEq, Repr

def init (cfg : Cfg) : State := { cfg := cfg, avail := cfg.max, conns := [], log := [] }

/-- why a WebSocket session ended; every one of them ends `background_task` (ws.rs:114-199) -/
inductive CloseHow where
  | peerClose     -- close frame / clean EOF           (`Receive::ConnectionClosed`)
  | peerReset     -- transport error, also mid-call    (`SokettoError::Closed` / io error)
  | serverClose   -- server side: protocol error (`break Err(err)`), ping inactivity (ws.rs:311-323,
                  -- `Receive::ConnectionClosed`); like every non-`Stopped` end it does NOT wait for
                  -- calls still executing on the session (`graceful_shutdown` only waits after stop)
  | stopped       -- server stop: `Shutdown::Stopped`, pending calls awaited first
  deriving DecidableEq, Repr

inductive Op where
  | httpArrive (c : Nat)
  | httpDone (c : Nat)
  | httpAbort (c : Nat)
  | wsUpgradeStart (c : Nat) (handshakeOk : Bool)
  | wsUpgradeDone (c : Nat)
  | wsUpgradeFail (c : Nat)
  | wsClose (c : Nat) (how : CloseHow)
  deriving DecidableEq, Repr

/-- observable answer of one step; the number is `available_connections()` right after it -/
inductive Out where
  | started (avail : Nat)    -- permit taken; handler / upgrade task now runs
  | refused (avail : Nat)    -- HTTP 429, nothing else happened
  | denied (avail : Nat)     -- HTTP 403 (transport disabled); permit taken and returned inside `call`
  | rejected (avail : Nat)   -- handshake refused by soketto; permit taken and returned inside `call`
  | upgraded (avail : Nat)   -- upgrade completed; session running, permit kept
  | released (avail : Nat)   -- the holder finished and its permit went back
  | noop                     -- op does not apply (unknown tag / wrong phase / tag in use)
  deriving DecidableEq, Repr

def holds (cs : List Conn) (c : Nat) : Bool :=
  match cs with
  | [] => false
  | x :: r => if x.id == c then true else holds r c

def phaseOf (cs : List Conn) (c : Nat) : Option Phase :=
  match cs with
  | [] => none
  | x :: r => if x.id == c then some x.phase else phaseOf r c

/-- remove the (first) holder tagged `c` -/
def removeConn (cs : List Conn) (c : Nat) : List Conn :=
  match cs with
  | [] => []
  | x :: r => if x.id == c then r else x :: removeConn r c

def setPhase (cs : List Conn) (c : Nat) (p : Phase) : List Conn :=
  match cs with
  | [] => []
  | x :: r => if x.id == c then { x with phase := p } :: r else x :: setPhase r c p

/-- `try_acquire` succeeded and the permit stays with a new holder -/
def grant (s : State) (c : Nat) (p : Phase) : State × Out :=
  ({ s with avail := s.avail - 1, conns := { id := c, phase := p } :: s.conns, log := c :: s.log },
   .started (s.avail - 1))

/-- a request reaches `TowerServiceNoHttp::call`; `wanted` = this kind of request is enabled and
(for upgrades) the handshake is acceptable; `off` = what is answered otherwise -/
def arrive (s : State) (c : Nat) (p : Phase) (enabled : Bool) (handshakeOk : Bool) : State × Out :=
  if holds s.conns c then (s, .noop)
  else if s.avail == 0 then (s, .refused 0)
  else if !enabled then (s, .denied s.avail)
  else if !handshakeOk then (s, .rejected s.avail)
  else grant s c p

/-- the holder tagged `c`, if it is in phase `p`, finishes: its permit is dropped -/
def release (s : State) (c : Nat) (p : Phase) : State × Out :=
  if phaseOf s.conns c == some p then
    ({ s with avail := s.avail + 1, conns := removeConn s.conns c }, .released (s.avail + 1))
  else (s, .noop)

def step (s : State) (op : Op) : State × Out :=
  match op with
  | .httpArrive c => arrive s c .http s.cfg.enableHttp true
  | .httpDone c => release s c .http
  | .httpAbort c => release s c .http
  | .wsUpgradeStart c ok => arrive s c .upgrading s.cfg.enableWs ok
  | .wsUpgradeDone c =>
    if phaseOf s.conns c == some .upgrading then
      ({ s with conns := setPhase s.conns c .ws }, .upgraded s.avail)
    else (s, .noop)
  | .wsUpgradeFail c => release s c .upgrading
  | .wsClose c _ => release s c .ws

def run (s : State) (ops : List Op) : State :=
  match ops with
  | [] => s
  | op :: r => run (step s op).1 r

def outs (s : State) (ops : List Op) : List Out :=
  match ops with
  | [] => []
  | op :: r => (step s op).2 :: outs (step s op).1 r

/-- number of connections being served -/
def active (s : State) : Nat := s.conns.length

/-- an exit that is enabled for a holder in the given phase; `k` selects among the alternatives
the code offers (every one of them frees the slot) -/
def exitOp (x : Conn) (k : Nat) : Op :=
  match x.phase with
  | .http => if k % 2 == 0 then .httpDone x.id else .httpAbort x.id
  | .upgrading => .wsUpgradeFail x.id
  | .ws =>
    .wsClose x.id (if k % 4 == 0 then .peerClose else if k % 4 == 1 then .peerReset
      else if k % 4 == 2 then .serverClose else .stopped)

/-- one exit for every current holder, chosen by `pick` -/
def drainOps (cs : List Conn) (pick : Nat → Nat) : List Op :=
  match cs with
  | [] => []
  | x :: r => exitOp x (pick x.id) :: drainOps r pick

/-- `n` plain-request arrivals tagged `base, base+1, …` -/
def fillOps (base n : Nat) : List Op :=
  match n with
  | 0 => []
  | k + 1 => .httpArrive base :: fillOps (base + 1) k

end Jrpc.ConnGuard
