/-
  C14 — host filter (server/src/middleware/http/host_filter.rs) and the `route_recognizer 0.3.1`
  router it is built on.

  Router (external crate, modelled from its source `lib.rs` / `nfa.rs`):
    * `segments` + `Router::add`: a route is cut at `.` and `/`; every separator and every character
      of a static segment becomes one NFA state (`Tok.chr`), a segment that BEGINS with `:` becomes
      one self-looping "not '/'" state (`Tok.dyn`), a segment that BEGINS with `*` one self-looping
      "any char" state (`Tok.star`); the rest of such a segment is only a capture name.
      `NFA::put` re-uses an existing child with the same character class, so the automaton is a
      trie over `Tok`; routes with the same token list end in the SAME state and the later `add`
      overwrites metadata and handler.
    * `NFA::process`: a thread list, advanced per input character; for every thread the successor
      states are visited in `next_states` order (self loop first — `put_state` runs right after
      the state is created — then the children in order of first insertion).  At the end the
      accepting threads are folded left to right keeping the current best unless the next one has
      strictly greater metadata `(statics, dynamics, wildcards)` (lexicographic).
    A trie state is represented here by what can still happen from it: the routes passing through
    it (in insertion order) with their REMAINING tokens (`Thread.live`), plus the token of the
    state itself (`Thread.cur`, needed for the self loop).  Captures are not modelled (they do not
    influence which handler is returned).

  Host filter (transcribed): `WhitelistedHosts::from` (138-164: `BTreeMap<String, Vec<Port>>`
  grouping, routes added in key order), `WhitelistedHosts::recognize` (166-181), the gate in
  `HostFilter::call` (120-131) and `HostFilterLayer::new` / `disable`.
-/
import JrpcVerif.Model.Authority
namespace Jrpc

/-! ### route_recognizer -/

/-- one NFA state class -/
inductive Tok where
  /-- `CharacterClass::valid_char(c)` -/
  | chr (c : Nat)
  /-- `CharacterClass::invalid_char('/')` with a self loop (`:name` segment) -/
  | dyn
  /-- `CharacterClass::any()` with a self loop (`*name` segment) -/
  | star
  deriving DecidableEq, Repr

/-- the `segments` predicate: `.` or `/` -/
def isSep (c : Nat) : Bool := c == 46 || c == 47

/-- `CharacterClass::matches` -/
def tokAccepts : Tok → Nat → Bool
  | .chr c, x => x == c
  | .dyn, x => x != 47
  | .star, _ => true

/-- states created by `process_dynamic_segment` / `process_star_state` loop on themselves -/
def isLoop : Tok → Bool
  | .chr _ => false
  | .dyn => true
  | .star => true

/-- `struct Metadata` without the parameter names -/
structure Meta where
  statics : Nat
  dynamics : Nat
  wildcards : Nat
  deriving DecidableEq, Repr

/-- `a < b` for `impl Ord for Metadata` -/
def metaLt (a b : Meta) : Bool :=
  if a.statics > b.statics then false
  else if a.statics < b.statics then true
  else if a.dynamics > b.dynamics then false
  else if a.dynamics < b.dynamics then true
  else if a.wildcards > b.wildcards then false
  else if a.wildcards < b.wildcards then true
  else false

/-- `segments(route)`: the text before the first separator, then (separator, segment) pairs.
(The crate emits no leading segment when the route is empty or starts with a separator; an empty
first component stands for that.) -/
def pieces : Text → Text × List (Nat × Text)
  | [] => ([], [])
  | c :: r =>
    let p := pieces r
    if isSep c then ([], (c, p.1) :: p.2) else (c :: p.1, p.2)

/-- states added for one segment by `Router::add` -/
def segToks (seg : Text) : List Tok :=
  match seg with
  | [] => []
  | c :: _ => if c == 58 then [.dyn] else if c == 42 then [.star] else seg.map .chr

/-- metadata update for one segment by `Router::add` -/
def bumpMeta (m : Meta) (seg : Text) : Meta :=
  match seg with
  | [] => { m with statics := m.statics + 1 }
  | c :: _ =>
    if c == 58 then { m with dynamics := m.dynamics + 1 }
    else if c == 42 then { m with wildcards := m.wildcards + 1 }
    else { m with statics := m.statics + 1 }

def sepSegToks (s : Nat × Text) : List Tok := .chr s.1 :: segToks s.2

/-- the state path `Router::add` creates for a route (leading `/` already removed) -/
def routeToks (route : Text) : List Tok :=
  segToks (pieces route).1 ++ (pieces route).2.flatMap sepSegToks

def metaZero : Meta := { statics := 0, dynamics := 0, wildcards := 0 }

/-- the metadata `Router::add` stores for a route (leading `/` already removed) -/
def routeMeta (route : Text) : Meta :=
  (pieces route).2.foldl (fun m s => bumpMeta m s.2)
    (if (pieces route).1.isEmpty then metaZero else bumpMeta metaZero (pieces route).1)

/-- `if !route.is_empty() && route.as_bytes()[0] == b'/' { route = &route[1..] }` -/
def stripSlash (t : Text) : Text :=
  match t with
  | [] => []
  | c :: r => if c == 47 then r else c :: r

/-- one added route; inside a thread `toks` are the tokens still to be matched -/
structure Route (α : Type) where
  toks : List Tok
  md : Meta
  handler : α

/-- a router = its routes in order of `add` -/
abbrev Router (α : Type) := List (Route α)

def mkRoute {α : Type} (route : Text) (h : α) : Route α :=
  { toks := routeToks (stripSlash route), md := routeMeta (stripSlash route), handler := h }

/-- `Router::add` -/
def Router.add {α : Type} (rt : Router α) (route : Text) (h : α) : Router α := rt ++ [mkRoute route h]

/-- one NFA thread: the state it is in -/
structure Thread (α : Type) where
  /-- token (character class) of the current state; `none` = root -/
  cur : Option Tok
  /-- routes through the current state, remaining tokens, insertion order -/
  live : List (Route α)

/-- follow the child edge labelled `t` -/
def advance {α : Type} (t : Tok) (r : Route α) : Option (Route α) :=
  match r.toks with
  | [] => none
  | t' :: rest => if t' = t then some { r with toks := rest } else none

/-- keep the first occurrence of every token, in order (children in order of first insertion) -/
def dedupToks : List Tok → List Tok
  | [] => []
  | t :: r => t :: (dedupToks r).filter (fun x => x != t)

/-- labels of the child states in `next_states` order -/
def childLabels {α : Type} (live : List (Route α)) : List Tok :=
  dedupToks (live.filterMap (fun r => r.toks.head?))

def selfLoop {α : Type} (c : Nat) (th : Thread α) : List (Thread α) :=
  match th.cur with
  | some t => if isLoop t && tokAccepts t c then [th] else []
  | none => []

def childThread {α : Type} (th : Thread α) (t : Tok) : Thread α :=
  { cur := some t, live := th.live.filterMap (advance t) }

def childThreads {α : Type} (c : Nat) (th : Thread α) : List (Thread α) :=
  ((childLabels th.live).filter (fun t => tokAccepts t c)).map (childThread th)

/-- `NFA::process_char` for one thread -/
def stepThread {α : Type} (c : Nat) (th : Thread α) : List (Thread α) :=
  selfLoop c th ++ childThreads c th

/-- `NFA::process_char` -/
def stepThreads {α : Type} (c : Nat) (ths : List (Thread α)) : List (Thread α) :=
  ths.flatMap (stepThread c)

/-- the character loop of `NFA::process` (an empty thread list stays empty = the early `Err`) -/
def runThreads {α : Type} : List (Thread α) → Text → List (Thread α)
  | ths, [] => ths
  | ths, c :: s => runThreads (stepThreads c ths) s

/-- acceptance, metadata and handler of the state a thread is in (the LAST route added with
exactly this token path owns the state) -/
def accInfo {α : Type} (th : Thread α) : Option (Meta × α) :=
  match (th.live.filter (fun r => r.toks.isEmpty)).getLast? with
  | some r => some (r.md, r.handler)
  | none => none

/-- the fold in `NFA::process`: replace only on strictly greater metadata -/
def pickBest {α : Type} : Option (Meta × α) → Meta × α → Option (Meta × α)
  | none, y => some y
  | some x, y => if metaLt x.1 y.1 then some y else some x

def rootThread {α : Type} (rt : Router α) : Thread α := { cur := none, live := rt }

/-- `Router::recognize(path).ok().map(|m| m.handler())` -/
def Router.recognize {α : Type} (rt : Router α) (path : Text) : Option α :=
  match ((runThreads [rootThread rt] (stripSlash path)).filterMap accInfo).foldl pickBest none with
  | some x => some x.2
  | none => none

/-! ### specification-level matcher (what a pattern means) -/

/-- glob on tokens: a literal token matches exactly its character, `star` one or more arbitrary
characters, `dyn` one or more characters other than `/` -/
def tokMatch : List Tok → Text → Bool
  | [], [] => true
  | [], _ :: _ => false
  | _ :: _, [] => false
  | t :: ts, c :: s => tokAccepts t c && (tokMatch ts s || (isLoop t && tokMatch (t :: ts) s))

/-- `host` matches the allow-list pattern `pat` -/
def patMatch (pat host : Text) : Bool :=
  tokMatch (routeToks (stripSlash pat)) (stripSlash host)

/-! ### host filter -/

/-- `String`'s `Ord` (lexicographic on bytes = on code points) -/
def textLt : Text → Text → Bool
  | _, [] => false
  | [], _ :: _ => true
  | a :: as, b :: bs => a < b || (a == b && textLt as bs)

/-- `uniq_hosts.entry(host).and_modify(push).or_insert(vec![port])` on a key-sorted association list -/
def insertGroup : List (Text × List Port) → Authority → List (Text × List Port)
  | [], a => [(a.host, [a.port])]
  | g :: rest, a =>
    if a.host == g.1 then (g.1, g.2 ++ [a.port]) :: rest
    else if textLt a.host g.1 then (a.host, [a.port]) :: g :: rest
    else g :: insertGroup rest a

/-- the `BTreeMap<String, Ports>` built by `WhitelistedHosts::from`, in iteration order -/
def groupHosts (allow : List Authority) : List (Text × List Port) :=
  allow.foldl insertGroup []

def addGroups (rt : Router (List Port)) (gs : List (Text × List Port)) : Router (List Port) :=
  gs.foldl (fun r g => r.add g.1 g.2) rt

/-- `WhitelistedHosts::from` -/
def whitelist (allow : List Authority) : Router (List Port) :=
  addGroups [] (groupHosts allow)

/-- the port rule of `WhitelistedHosts::recognize` (entry port, request port) -/
def portOk : Port → Port → Bool
  | .any, _ => true
  | .default, .default => true
  | .fixed p1, .fixed p2 => p1 == p2
  | _, _ => false

/-- `WhitelistedHosts::recognize` -/
def recognizeAuthority (allow : List Authority) (a : Authority) : Bool :=
  match (whitelist allow).recognize a.host with
  | some ports => ports.any (fun p => portOk p a.port)
  | none => false

/-- what `HostFilter::call` does with a request -/
inductive Outcome where
  /-- `self.inner.call(request)` -/
  | forward
  /-- `http::response::host_not_allowed()` — 403 -/
  | forbidden
  /-- `http::response::malformed()` — 400 -/
  | malformed
  deriving DecidableEq, Repr

/-- `HostFilter::call`; `filter = none` is `HostFilterLayer::disable()` -/
def gate (filter : Option (List Authority)) (req : HttpReq) : Outcome :=
  match fromHttpRequest req with
  | none => .malformed
  | some a =>
    match filter with
    | none => .forward
    | some allow => if recognizeAuthority allow a then .forward else .forbidden

/-- observable behaviour of the layered service: HTTP status produced by the filter itself
(`none` = the inner service's response is passed through) and how often the inner service ran -/
def serve (filter : Option (List Authority)) (req : HttpReq) : Option Nat × Nat :=
  match gate filter req with
  | .forward => (none, 1)
  | .forbidden => (some 403, 0)
  | .malformed => (some 400, 0)

/-- `allow_only.into_iter().map(|a| a.try_into()).collect::<Result<Vec<_>, _>>()` -/
def layerNew : List UriParse → Option (List Authority)
  | [] => some []
  | u :: r =>
    match authorityOf u with
    | none => none
    | some a =>
      match layerNew r with
      | none => none
      | some as => some (a :: as)

end Jrpc
