/-
  F1 — JSON text layer, part 2: splitting one JSON value off the front of a text, arrays and
  objects as lists of raw slices, string and integer codecs.

  Mirrors serde_json's `ignore_value` (what `RawValue` capture, `IgnoredAny` and
  `StreamDeserializer` use: no recursion limit, no surrogate validation) — see Text.lean.
-/
import JrpcVerif.Model.Text
namespace Jrpc

/-- After an array element / object member: whitespace, then `,` (more follow: returns `true` and
the text at the next item, whitespace skipped) or the closing bracket `close` (returns `false`). -/
def afterItem (close : Nat) (t : Text) : Option (Bool × Text) :=
  match skipWs t with
  | [] => none
  | d :: r =>
    if d == 44 then some (true, skipWs r)
    else if d == close then some (false, r)
    else none

/-- `"key" ws : ws` at the head; returns the key body (between the quotes, undecoded) and the text
at the member's value. -/
def splitKey (t : Text) : Option (Text × Text) :=
  match t with
  | [] => none
  | q :: t1 =>
    if q != 34 then none else
    match skipStr t1 with
    | none => none
    | some r0 =>
      match skipWs r0 with
      | [] => none
      | col :: r1 => if col != 58 then none else some ((t1.take (t1.length - r0.length)).dropLast, skipWs r1)

mutual
/-- Skip exactly one JSON value at the head of the text (no leading whitespace allowed here).
Returns the remaining text.  `fuel` bounds the nesting + element count; `t.length + 1` is enough. -/
def skipValue : Nat → Text → Option Text
  | 0, _ => none
  | _ + 1, [] => none
  | f + 1, c :: r =>
    if c == 34 then skipStr r
    else if c == 91 then
      match skipWs r with
      | [] => none
      | d :: r1 => if d == 93 then some r1 else skipElems f (d :: r1)
    else if c == 123 then
      match skipWs r with
      | [] => none
      | d :: r1 => if d == 125 then some r1 else skipMembers f (d :: r1)
    else if c == 116 then matchLit [114, 117, 101] r
    else if c == 102 then matchLit [97, 108, 115, 101] r
    else if c == 110 then matchLit [117, 108, 108] r
    else if c == 45 || isDigit c then skipNumber (c :: r)
    else none
/-- At the start of an array element (whitespace already skipped): element, then `,` or `]`. -/
def skipElems : Nat → Text → Option Text
  | 0, _ => none
  | f + 1, t =>
    match skipValue f t with
    | none => none
    | some r =>
      match afterItem 93 r with
      | none => none
      | some (true, r1) => skipElems f r1
      | some (false, r1) => some r1
/-- At the start of an object member (whitespace already skipped): `"key" : value`, then `,`/`}`. -/
def skipMembers : Nat → Text → Option Text
  | 0, _ => none
  | f + 1, t =>
    match splitKey t with
    | none => none
    | some (_, tv) =>
      match skipValue f tv with
      | none => none
      | some r =>
        match afterItem 125 r with
        | none => none
        | some (true, r1) => skipMembers f r1
        | some (false, r1) => some r1
end

/-- default fuel for a text -/
def fuelFor (t : Text) : Nat := t.length + 1

/-- the slice of `t` that was consumed when `rest` is what remains -/
def consumed (t rest : Text) : Text := t.take (t.length - rest.length)

/-- Split one value off the head: `(raw slice, rest)`. -/
def splitValue (f : Nat) (t : Text) : Option (Text × Text) :=
  match skipValue f t with
  | none => none
  | some r => some (consumed t r, r)

/-- whole-document validity: optional whitespace, one value, optional whitespace -/
def validJsonB (t : Text) : Bool :=
  match skipValue (fuelFor t) (skipWs t) with
  | none => false
  | some r => (skipWs r).isEmpty

/-- The value slice of a whole document: surrounding JSON whitespace removed; `none` if `t` is not
exactly one JSON value. -/
def docValue (t : Text) : Option Text :=
  let t1 := skipWs t
  match skipValue (fuelFor t) t1 with
  | none => none
  | some r => if (skipWs r).isEmpty then some (consumed t1 r) else none

/-- Elements of an array text as raw slices, in order.  `t` may carry leading/trailing JSON
whitespace.  `none` when `t` is not exactly one JSON array. -/
def elemsLoop : Nat → Nat → Text → Option (List Text × Text)
  | 0, _, _ => none
  | n + 1, f, t =>
    match splitValue f t with
    | none => none
    | some (e, r) =>
      match afterItem 93 r with
      | none => none
      | some (true, r1) =>
        (match elemsLoop n f r1 with
         | none => none
         | some (es, rest) => some (e :: es, rest))
      | some (false, r1) => some ([e], r1)

def elementsF (f : Nat) (t : Text) : Option (List Text) :=
  match skipWs t with
  | [] => none
  | c :: r =>
    if c != 91 then none else
    match skipWs r with
    | [] => none
    | d :: r1 =>
      if d == 93 then (if (skipWs r1).isEmpty then some [] else none)
      else
        match elemsLoop f f (d :: r1) with
        | none => none
        | some (es, rest) => if (skipWs rest).isEmpty then some es else none

def elements (t : Text) : Option (List Text) := elementsF (fuelFor t) t

/-- Members of an object text: `(raw key slice *without* quotes, raw value slice)` in order,
duplicates kept. -/
def membersLoop : Nat → Nat → Text → Option (List (Text × Text) × Text)
  | 0, _, _ => none
  | n + 1, f, t =>
    match splitKey t with
    | none => none
    | some (key, tv) =>
      match splitValue f tv with
      | none => none
      | some (v, r) =>
        match afterItem 125 r with
        | none => none
        | some (true, r1) =>
          (match membersLoop n f r1 with
           | none => none
           | some (ms, rest) => some ((key, v) :: ms, rest))
        | some (false, r1) => some ([(key, v)], r1)

def membersF (f : Nat) (t : Text) : Option (List (Text × Text)) :=
  match skipWs t with
  | [] => none
  | c :: r =>
    if c != 123 then none else
    match skipWs r with
    | [] => none
    | d :: r1 =>
      if d == 125 then (if (skipWs r1).isEmpty then some [] else none)
      else
        match membersLoop f f (d :: r1) with
        | none => none
        | some (ms, rest) => if (skipWs rest).isEmpty then some ms else none

def members (t : Text) : Option (List (Text × Text)) := membersF (fuelFor t) t

/-! ### string codec -/

def hexVal (c : Nat) : Nat :=
  if isDigit c then c - 48 else if 65 ≤ c && c ≤ 70 then c - 55 else c - 87

def hex4 (a b c d : Nat) : Nat := hexVal a * 4096 + hexVal b * 256 + hexVal c * 16 + hexVal d

def simpleEscVal (e : Nat) : Nat :=
  if e == 98 then 8 else if e == 102 then 12 else if e == 110 then 10
  else if e == 114 then 13 else if e == 116 then 9 else e

/-- Strict string decoding (serde_json `parse_str`): input is the body *between* the quotes.
`\uXXXX`: high surrogate must be followed by `\u` low surrogate; lone surrogates are errors. -/
def decodeStrBody : Text → Option Text
  | [] => some []
  | c :: r =>
    if c == 34 then none
    else if c == 92 then
      match r with
      | [] => none
      | e :: r1 =>
        if e == 117 then
          match r1 with
          | a :: b :: c4 :: d :: r2 =>
            if !(isHex a && isHex b && isHex c4 && isHex d) then none else
            let n := hex4 a b c4 d
            if 0xDC00 ≤ n && n ≤ 0xDFFF then none
            else if 0xD800 ≤ n && n ≤ 0xDBFF then
              match r2 with
              | b1 :: u1 :: a2 :: b2 :: c2 :: d2 :: r3 =>
                if b1 == 92 && u1 == 117 && isHex a2 && isHex b2 && isHex c2 && isHex d2 then
                  let n2 := hex4 a2 b2 c2 d2
                  if 0xDC00 ≤ n2 && n2 ≤ 0xDFFF then
                    (decodeStrBody r3).map (fun s => (0x10000 + (n - 0xD800) * 1024 + (n2 - 0xDC00)) :: s)
                  else none
                else none
              | _ => none
            else (decodeStrBody r2).map (fun s => n :: s)
          | _ => none
        else if isSimpleEsc e then (decodeStrBody r1).map (fun s => simpleEscVal e :: s)
        else none
    else if c < 32 then none
    else (decodeStrBody r).map (fun s => c :: s)

/-- Decode a raw slice that must be exactly one JSON string `"…"`. -/
def decodeString (raw : Text) : Option Text :=
  match raw with
  | q :: body =>
    if q != 34 then none else
    match body.reverse with
    | q2 :: rb => if q2 != 34 then none else
      -- the closing quote must be the *first* unescaped quote: checked by skipStr
      match skipStr body with
      | some [] => decodeStrBody rb.reverse
      | _ => none
    | [] => none
  | [] => none

def hexDigit (n : Nat) : Nat := if n < 10 then 48 + n else 87 + n

/-- serde_json escaping of one code point -/
def encodeChar (c : Nat) : Text :=
  if c == 34 then [92, 34]
  else if c == 92 then [92, 92]
  else if c == 8 then [92, 98]
  else if c == 12 then [92, 102]
  else if c == 10 then [92, 110]
  else if c == 13 then [92, 114]
  else if c == 9 then [92, 116]
  else if c < 32 then [92, 117, 48, 48, hexDigit (c / 16), hexDigit (c % 16)]
  else [c]

def encodeStrBody : Text → Text
  | [] => []
  | c :: r => encodeChar c ++ encodeStrBody r

/-- `serde_json::to_string(&str)` -/
def encodeString (s : Text) : Text := 34 :: (encodeStrBody s ++ [34])

/-! ### builders dual to the splitters -/

/-- `v1,v2,…,vn` -/
def joinElems : List Text → Text
  | [] => []
  | [v] => v
  | v :: v2 :: vs => v ++ 44 :: joinElems (v2 :: vs)

/-- one member `"k":v` (key escaped as serde_json does) -/
def memberText (kv : Text × Text) : Text := encodeString kv.1 ++ 58 :: kv.2

/-- `"k1":v1,"k2":v2,…` -/
def joinMembers : List (Text × Text) → Text
  | [] => []
  | [kv] => memberText kv
  | kv :: kv2 :: kvs => memberText kv ++ 44 :: joinMembers (kv2 :: kvs)

/-! ### integer codec -/

def natDigits : Nat → Nat → Text → Text
  | 0, _, acc => acc
  | fuel + 1, n, acc =>
    if n < 10 then (48 + n) :: acc else natDigits fuel (n / 10) ((48 + n % 10) :: acc)

/-- decimal rendering (itoa) -/
def encodeNat (n : Nat) : Text := natDigits (n + 1) n []

def digitsVal : Text → Nat → Option Nat
  | [], acc => some acc
  | c :: r, acc => if isDigit c then digitsVal r (acc * 10 + (c - 48)) else none

/-- canonical unsigned decimal: no sign, no leading zero (except `0`), no fraction/exponent -/
def decodeNat (t : Text) : Option Nat :=
  match t with
  | [] => none
  | [c] => if isDigit c then some (c - 48) else none
  | c :: r => if c == 48 then none else digitsVal (c :: r) 0

def decodeU64 (t : Text) : Option Nat :=
  match decodeNat t with
  | some n => if n < 18446744073709551616 then some n else none
  | none => none

def encodeInt (i : Int) : Text :=
  match i with
  | .ofNat n => encodeNat n
  | .negSucc n => 45 :: encodeNat (n + 1)

/-- i32 as serde_json reads it from an integer literal (`-0` is a float ⇒ rejected) -/
def decodeI32 (t : Text) : Option Int :=
  match t with
  | c :: r =>
    if c == 45 then
      match decodeNat r with
      | some n => if n == 0 then none else if n ≤ 2147483648 then some (- (n : Int)) else none
      | none => none
    else
      match decodeNat t with
      | some n => if n < 2147483648 then some (n : Int) else none
      | none => none
  | [] => none

/-! ### bytes -/

/-- UTF-8 width of one code point -/
def utf8Width (c : Nat) : Nat := if c < 0x80 then 1 else if c < 0x800 then 2 else if c < 0x10000 then 3 else 4

def byteLen : Text → Nat
  | [] => 0
  | c :: r => utf8Width c + byteLen r

end Jrpc
