/-
  C17 — what the `#[rpc]` macro generates, as data:
    client stub  → `clientEncode`  (proc-macros/src/render_client.rs:208-270: ArrayParams /
                                    ObjectParams inserts in declaration order, `None` ⇒ `null`)
    server glue  → `serverDecode`  (proc-macros/src/render_server.rs:346-458: object ⇒ by-name struct
                                    with rename + snake/camel aliases, else sequential
                                    `next` / `optional_next`)
  Argument values are raw JSON texts (what serde writes for the Rust value); `none` = `Option::None`.
-/
import JrpcVerif.Model.ParamsBuild
import JrpcVerif.Model.ParamsSeq
namespace Jrpc.Macro
open Jrpc

structure ParamDesc where
  name : Text        -- the (possibly renamed) argument name used on the wire
  snake : Text       -- heck::ToSnakeCase of it       (external: supplied by the harness)
  camel : Text       -- heck::ToLowerCamelCase of it
  optional : Bool    -- the Rust type is syntactically `Option<_>`
  ty : Nat := 0      -- type tag of the (inner) Rust type: which raw texts its `Deserialize` accepts
  deriving DecidableEq, Repr

/-- acceptance by the parameter type's `Deserialize` impl (external serde behaviour, by tag):
0 any value, 1 u64, 2 string, 3 bool, 4 array, 5 i64 (as i32-range-free integer), 6 object, 7 i32,
8 u128, 9 i128 -/
def accepts (ty : Nat) (raw : Text) : Bool :=
  if ty == 1 then (decodeU64 raw).isSome
  else if ty == 2 then (decodeString raw).isSome
  else if ty == 3 then (decBool raw).isSome
  else if ty == 4 then (elements raw).isSome
  else if ty == 5 then
    (match raw with
     | 45 :: r => (match decodeNat r with | some n => n != 0 && n ≤ 9223372036854775808 | none => false)
     | _ => (match decodeNat raw with | some n => n < 9223372036854775808 | none => false))
  else if ty == 6 then (members raw).isSome
  else if ty == 7 then (decodeI32 raw).isSome
  else if ty == 8 then    -- u128
    (match decodeNat raw with | some n => n < 340282366920938463463374607431768211456 | none => false)
  else if ty == 9 then    -- i128
    (match raw with
     | 45 :: r => (match decodeNat r with | some n => n != 0 && n ≤ 170141183460469231731687303715884105728 | none => false)
     | _ => (match decodeNat raw with | some n => n < 170141183460469231731687303715884105728 | none => false))
  else true

/-- typed decoder of a parameter: the raw text if its type accepts it -/
def decParam (p : ParamDesc) (raw : Text) : Option Text := if accepts p.ty raw then some raw else none

inductive Kind where
  | array
  | map
  deriving DecidableEq, Repr

structure MethodDesc where
  params : List ParamDesc
  kind : Kind
  deriving DecidableEq, Repr

def argText (a : Option Text) : Text :=
  match a with
  | some t => t
  | none => tNull

/-- the params the generated client method hands to `request` / `subscribe` -/
def clientEncode (d : MethodDesc) (args : List (Option Text)) : Option Text :=
  if d.params.isEmpty then Builder.positional.build      -- `ArrayParams::new()`: no params
  else match d.kind with
    | .array => (Builder.positional.insertAll (args.map (fun a => Ser.ok (argText a)))).build
    | .map => (Builder.named.insertAllNamed
                ((d.params.zip args).map (fun pa => (pa.1.name, Ser.ok (argText pa.2))))).build

/-- sequential decoding: `optional_next` for `Option` parameters, `next` otherwise -/
def decodeSeq : List ParamDesc → Text → Option (List (Option Text))
  | [], _ => some []
  | p :: ps, s =>
    if p.optional then
      match seqOptNext (decParam p) s with
      | (.val v, s') => (decodeSeq ps s').map (fun r => some v :: r)
      | (.absent, s') => (decodeSeq ps s').map (fun r => none :: r)
      | (.invalidParams, _) => none
    else
      match seqNext (decParam p) s with
      | (.val v, s') => (decodeSeq ps s').map (fun r => some v :: r)
      | _ => none

def spellings (p : ParamDesc) : List Text := [p.name, p.snake, p.camel]

/-- how many members of the object are spelled as one of the accepted names of `p` -/
def countFor (p : ParamDesc) (ms : List (Text × Text)) : Nat :=
  (ms.filter (fun kv => (spellings p).contains kv.1)).length

def valueFor (p : ParamDesc) : List (Text × Text) → Option Text
  | [] => none
  | (k, v) :: r => if (spellings p).contains k then some v else valueFor p r

/-- by-name decoding through the derived `ParamsObject` struct: a duplicate (same field given
twice, also via two different spellings) is an error; unknown members are ignored; a missing
required field is an error; a missing or `null` optional field is `None` -/
def decodeByName : List ParamDesc → List (Text × Text) → Option (List (Option Text))
  | [], _ => some []
  | p :: ps, ms =>
    if countFor p ms > 1 then none
    else
      match valueFor p ms with
      | some v =>
        if p.optional && v == tNull then (decodeByName ps ms).map (fun r => none :: r)
        else if accepts p.ty v then (decodeByName ps ms).map (fun r => some v :: r)
        else none
      | none =>
        if p.optional then (decodeByName ps ms).map (fun r => none :: r) else none

/-- the arguments the server trait method is called with; `none` = invalid params (-32602) -/
def serverDecode (d : MethodDesc) (params : Option Text) : Option (List (Option Text)) :=
  if d.params.isEmpty then some []
  else
    let p := Params.new params
    if p.isObject then
      match p.raw with
      | some t => (match (members t).bind decodeKeys with
        | some ms => decodeByName d.params ms
        | none => none)
      | none => none
    else decodeSeq d.params p.sequence

/-- registered name of a method: `namespace ++ separator ++ name`; aliases are taken verbatim -/
def rpcName (ns : Option (Text × Text)) (name : Text) : Text :=
  match ns with
  | some (n, sep) => n ++ sep ++ name
  | none => name

end Jrpc.Macro
