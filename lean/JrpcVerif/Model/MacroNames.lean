/-
  C17 — which wire names `into_rpc` registers for one declared item and what each resolves to
  (proc-macros/src/render_server.rs:127-340):
    * a method: its namespaced name and every alias (verbatim) → the method's handler;
    * a subscription: its namespaced name and every alias → the subscribe handler,
      its namespaced unsubscribe name and every unsubscribe alias → the unsubscribe handler.
  Aliases are registered with `register_alias(alias, <existing name>)`, i.e. they resolve to
  whatever the existing name resolves to.
-/
import JrpcVerif.Model.MacroApi
namespace Jrpc.Macro
open Jrpc

inductive Target where
  | method
  | subscribe
  | unsubscribe
  deriving DecidableEq, Repr

structure ItemDesc where
  isSub : Bool
  name : Text
  aliases : List Text
  unsub : Text               -- meaningful for subscriptions only
  unsubAliases : List Text
  deriving Repr

/-- the registrations one item contributes, in the order the generated `into_rpc` performs them -/
def registrations (ns : Option (Text × Text)) (d : ItemDesc) : List (Text × Target) :=
  if d.isSub then
    (rpcName ns d.name, .subscribe) :: (rpcName ns d.unsub, .unsubscribe) ::
      (d.aliases.map (fun a => (a, Target.subscribe)) ++ d.unsubAliases.map (fun a => (a, Target.unsubscribe)))
  else
    (rpcName ns d.name, .method) :: d.aliases.map (fun a => (a, Target.method))

/-- the wire names of an item, in registration order: main name, (unsubscribe name,) aliases,
(unsubscribe aliases) — the order the harness enumerates them in -/
def wireNames (ns : Option (Text × Text)) (d : ItemDesc) : List Text := (registrations ns d).map Prod.fst

/-- what a request naming `n` reaches -/
def resolve (ns : Option (Text × Text)) (d : ItemDesc) (n : Text) : Option Target :=
  (registrations ns d).lookup n

end Jrpc.Macro
