/-
  C20 — `ParamsBuilder` (core/src/params.rs:50-140), `ArrayParams`, `ObjectParams`,
  `BatchRequestBuilder`, transcribed.  The inserted value is abstracted as what its `Serialize`
  impl does to the byte buffer: it writes a complete JSON text, or writes some prefix and fails.
-/
import JrpcVerif.Model.Wire
namespace Jrpc

/-- outcome of `serde_json::to_writer(&mut bytes, &value)` -/
inductive Ser where
  | ok (t : Text)            -- wrote the complete JSON text `t`
  | fails (emitted : Text)   -- wrote `emitted`, then returned an error
  deriving DecidableEq, Repr

structure Builder where
  bytes : Text
  start : Nat
  stop : Nat
  deriving DecidableEq, Repr

def Builder.positional : Builder := ⟨[], 91, 93⟩
def Builder.named : Builder := ⟨[], 123, 125⟩

/-- `maybe_initialize` -/
def Builder.init (b : Builder) : Builder :=
  if b.bytes.isEmpty then { b with bytes := [b.start] } else b

/-- `insert`: returns the new builder and whether the insert succeeded.  A failed serialisation
truncates the buffer back to its length before the insert (after `maybe_initialize`). -/
def Builder.insert (b : Builder) (v : Ser) : Builder × Bool :=
  let b1 := b.init
  match v with
  | .ok t => ({ b1 with bytes := b1.bytes ++ t ++ [44] }, true)
  | .fails e => ({ b1 with bytes := (b1.bytes ++ e).take b1.bytes.length }, false)

/-- `insert_named` (the name is a `&str`, its serialisation cannot fail) -/
def Builder.insertNamed (b : Builder) (name : Text) (v : Ser) : Builder × Bool :=
  let b1 := b.init
  match v with
  | .ok t => ({ b1 with bytes := b1.bytes ++ encodeString name ++ [58] ++ t ++ [44] }, true)
  | .fails e => ({ b1 with bytes := (b1.bytes ++ encodeString name ++ [58] ++ e).take b1.bytes.length }, false)

/-- `build`: `None` for an untouched builder, else the closed text -/
def Builder.build (b : Builder) : Option Text :=
  match b.bytes.reverse with
  | [] => none
  | last :: revInit =>
    if last == 44 then some (revInit.reverse ++ [b.stop]) else some (b.bytes ++ [b.stop])

/-- run a list of positional inserts -/
def Builder.insertAll (b : Builder) : List Ser → Builder
  | [] => b
  | v :: vs => (b.insert v).1.insertAll vs

def Builder.insertAllNamed (b : Builder) : List (Text × Ser) → Builder
  | [] => b
  | (k, v) :: vs => (b.insertNamed k v).1.insertAllNamed vs

/-- the texts of the successful inserts, in order -/
def okTexts : List Ser → List Text
  | [] => []
  | .ok t :: vs => t :: okTexts vs
  | .fails _ :: vs => okTexts vs

def okPairs : List (Text × Ser) → List (Text × Text)
  | [] => []
  | (k, .ok t) :: vs => (k, t) :: okPairs vs
  | (_, .fails _) :: vs => okPairs vs

/-- `BatchRequestBuilder`: entries (method, params) in insertion order; `build` fails when empty -/
def batchBuild (entries : List (Text × Option Text)) : Option (List (Text × Option Text)) :=
  if entries.isEmpty then none else some entries

end Jrpc
