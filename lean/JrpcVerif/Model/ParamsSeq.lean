/-
  C16 — `Params` / `ParamsSequence` (types/src/params.rs:86-263), transcribed.
  Typed reads are parameterised by a decoder `δ : raw slice → Option α` ("mismatching type" = δ fails).
-/
import JrpcVerif.Model.Wire
namespace Jrpc

/-- `Params(Option<Cow<str>>)`; `Params::new` trims (Rust `str::trim`) -/
structure Params where
  raw : Option Text
  deriving DecidableEq, Repr

def Params.new (r : Option Text) : Params := ⟨r.map trim⟩

/-- `is_object`: starts with `{` -/
def Params.isObject (p : Params) : Bool :=
  match p.raw with
  | some (c :: _) => c == 123
  | _ => false

/-- `sequence()`: the text handed to `ParamsSequence`; `[]` and absent params give the empty text -/
def Params.sequence (p : Params) : Text :=
  match p.raw with
  | some j => if j == [91, 93] then [] else j
  | none => []

/-- result of `next_inner`: `None`, `Some(Ok v)`, `Some(Err _)` (every error is -32602) -/
inductive Read (α : Type) where
  | none
  | ok (v : α)
  | err
  deriving DecidableEq, Repr

/-- serde_json `StreamDeserializer::peek_end_of_value`: required after values that are not
self-delineating (numbers, literals) -/
def endOfValueOk (first : Nat) (rest : Text) : Bool :=
  if first == 91 || first == 34 || first == 123 then true
  else match rest with
    | [] => true
    | c :: _ => c == 32 || c == 10 || c == 9 || c == 13 || c == 34 || c == 91 || c == 93 ||
                c == 123 || c == 125 || c == 44 || c == 58

/-- `serde_json::Deserializer::from_str(json).into_iter::<T>().next()` + the state update.
`s` is the reader state before the call (kept when the stream is at end of input). -/
def parseAt {α : Type} (δ : Text → Option α) (s json : Text) : Read α × Text :=
  match skipWs json with
  | [] => (.none, s)
  | d :: j1 =>
    match skipValue (fuelFor json) (d :: j1) with
    | none => (.err, [])
    | some rest =>
      if !endOfValueOk d rest then (.err, [])
      else match δ (consumed (d :: j1) rest) with
        | none => (.err, [])
        | some v => (.ok v, trimStart rest)

/-- `ParamsSequence::next_inner` (params.rs:172-203, with the `[ ]` fix) -/
def nextInner {α : Type} (δ : Text → Option α) (s : Text) : Read α × Text :=
  match s with
  | [] => (.none, s)
  | c :: r =>
    if c == 93 then (.none, [])
    else if c == 91 then
      (match trimStart r with
       | d :: _ => if d == 93 then (.none, []) else parseAt δ s r
       | [] => parseAt δ s r)
    else if c == 44 then parseAt δ s r
    else (.err, s)

/-- result of the public readers: a value, absent (`Ok(None)`), or an invalid-params error -/
inductive Got (α : Type) where
  | val (v : α)
  | absent
  | invalidParams
  deriving DecidableEq, Repr

/-- `next::<T>()` -/
def seqNext {α : Type} (δ : Text → Option α) (s : Text) : Got α × Text :=
  match nextInner δ s with
  | (.ok v, s') => (.val v, s')
  | (.none, s') => (.invalidParams, s')     -- "No more params"
  | (.err, s') => (.invalidParams, s')

/-- `Option<T>` decoder: `null` ⇒ `None` -/
def optDec {α : Type} (δ : Text → Option α) (raw : Text) : Option (Option α) :=
  if raw == tNull then some none else (δ raw).map some

/-- `optional_next::<T>()` -/
def seqOptNext {α : Type} (δ : Text → Option α) (s : Text) : Got α × Text :=
  match nextInner (optDec δ) s with
  | (.ok (some v), s') => (.val v, s')
  | (.ok none, s') => (.absent, s')
  | (.none, s') => (.absent, s')
  | (.err, s') => (.invalidParams, s')

/-- `parse::<T>()`: whole-document parse of the params text, absent ⇒ `null` -/
def Params.parse {α : Type} (δ : Text → Option α) (p : Params) : Got α :=
  let t := match p.raw with | some t => t | none => tNull
  match docValue t with
  | none => .invalidParams
  | some v => match δ v with
    | some a => .val a
    | none => .invalidParams

/-- `one::<T>()` = `parse::<[T; 1]>()` -/
def Params.one {α : Type} (δ : Text → Option α) (p : Params) : Got α :=
  let t := match p.raw with | some t => t | none => tNull
  match elements t with
  | some [e] => (match δ e with
    | some a => .val a
    | none => .invalidParams)
  | _ => .invalidParams

/-! decoders used by the harness scripts -/

def decAny (raw : Text) : Option Text := some raw
def decBool (raw : Text) : Option Bool :=
  if raw == tTrue then some true else if raw == tFalse then some false else none
def decVec (raw : Text) : Option (List Text) := elements raw

/-- read `n` raw elements in a row -/
def readRaw : Nat → Text → List (Got Text) × Text
  | 0, s => ([], s)
  | n + 1, s =>
    let (g, s') := seqNext decAny s
    let (gs, s'') := readRaw n s'
    (g :: gs, s'')

end Jrpc
