/-
  `read_body` and `call_with_service` at the byte level (core/src/http_helpers.rs:127-200,
  server/src/transport/http.rs:72-113): the body arrives as a sequence of data frames of *bytes*;
  frame boundaries may fall anywhere, also inside a multi-byte UTF-8 character.  Size accounting,
  the 128-byte whitespace look-ahead and the concatenation all work on bytes; only the complete
  body is handed to the JSON layer.  (The JSON layer of this model works on text: a body that is
  not valid UTF-8 as a whole is outside it — `httpCallB` answers `none` there.)
-/
import JrpcVerif.Model.ServerMsg
import JrpcVerif.Model.Utf8
namespace Jrpc.Srv
open Jrpc Jrpc.Gen.E

/-- outcome of `read_body`, bytes -/
inductive BodyB where
  | ok (data : Bytes) (single : Bool)
  | tooLarge
  | malformed
  deriving DecidableEq, Repr

/-- `read_body` over the data frames; sizes are byte counts.  `sniffChunk` is the same look-ahead
(ASCII whitespace, `{`, `[` are single bytes). -/
def readChunksB (max : Nat) : List Bytes → Nat → Nat → Bytes → Option Bool → BodyB
  | [], _, _, received, single =>
    (match single with
     | some s => if received.isEmpty then .malformed else .ok received s
     | none => .malformed)
  | ch :: rest, seen, skipped, received, single =>
    if seen + ch.length > max then .tooLarge
    else match single with
      | some _ => readChunksB max rest (seen + ch.length) skipped (received ++ ch) single
      | none =>
        (match sniffChunk (128 - skipped) ch with
         | .found idx s => readChunksB max rest (seen + ch.length) skipped (ch.drop idx) (some s)
         | .more => if ch.length < 128 - skipped then readChunksB max rest (seen + ch.length) (skipped + ch.length) received none
                    else .malformed
         | .bad => .malformed)

def readBodyB (contentLength : Option Nat) (chunks : List Bytes) (max : Nat) : BodyB :=
  match contentLength with
  | some n => if n > max then .tooLarge else readChunksB max chunks 0 0 [] none
  | none => readChunksB max chunks 0 0 [] none

/-- `call_with_service` on byte frames; `none` = the complete body is not valid UTF-8 (outside the
text model of the JSON layer) -/
def httpCallB (cfg : Cfg) (method : Text) (ct : Option Text) (contentLength : Option Nat) (chunks : List Bytes) : Option HttpOut :=
  if method != tPOST then some ⟨405, lit "Used HTTP Method is not allowed. POST is required\n", []⟩
  else if !isJsonContentType ct then
    some ⟨415, lit "Supplied content type is not allowed. Content-Type: application/json is required\n", []⟩
  else
    match readBodyB contentLength chunks cfg.maxReq with
    | .tooLarge => some ⟨413, errorResponse .null (rejectErr reject_too_big_request cfg.maxReq), []⟩
    | .malformed => some ⟨400, parseErrorResp, []⟩
    | .ok bytes single =>
      match utf8Decode bytes with
      | none => none
      | some data =>
        let o := if single then handleSingle cfg .http 0 data else handleBatch cfg .http 0 data
        some ⟨200, (match o.reply with | some r => r | none => tNull), o.invoked⟩

end Jrpc.Srv
