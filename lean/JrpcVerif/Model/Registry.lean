/-
  C13 — method registry (core/src/server/rpc_module.rs).

  Two layers.

  * **Implementation layer** (`State`, `step`): what the code does.  `Methods.callbacks` is an
    `Arc<FxHashMap<&'static str, MethodCallback>>`; the model keeps a *heap* of table cells with an
    explicit strong count, a module / `Methods` value is a *handle* (index into `handles`) that
    points at a cell.  `mut_callbacks` = `Arc::make_mut` = `makeMut`: mutate in place when the
    count is 1, otherwise copy the table into a fresh cell, decrement the old one and repoint the
    handle.  Every registration function is transcribed in the code's order of checks:

      verify_and_insert        rpc_module.rs:235-244   `verifyAndInsert`  (make_mut *before* the entry test)
      verify_method_name       rpc_module.rs:225-231   `Tbl.has` on the shared table (no make_mut)
      merge                    rpc_module.rs:253-267   `mergeOp`  (verify every name of `other`, then drain into self;
                                                                   `other` is taken by value: dropped on both exits)
      register_{,async_,blocking_}method  575-685      `Op.reg`   (all three are one verify_and_insert)
      remove_method            rpc_module.rs:599-601   `removeOp`
      register_subscription    rpc_module.rs:781-877 + verify_and_register_unsubscribe 980-1034  `regSub`
      register_alias           rpc_module.rs:1037-1052 `aliasOp`
      Clone / Drop of the Arc                          `Op.clone` / `Op.drop`
      Methods::inner_call      rpc_module.rs:380-400   `Op.call`  (lookup ⇒ callback or MethodNotFound)
      method_names             rpc_module.rs:472-474   `Op.names`

    A callback is identified by `Cb = (kind, tag)`: `kind` is the `MethodCallback` variant that the
    registration function builds, `tag` the serial number the caller supplies (so "which handler is
    bound" is observable).  `register_subscription … tag` binds `(unsub, tag)` to the unsubscribe
    name and `(sub, tag)` to the subscribe name.

  * **Specification layer** (`VState`, `vstep`): every handle owns its *own* association list
    (value semantics, no sharing, no reference counts): `clone` is a deep copy.  The map a handle
    denotes is `fun n => Tbl.find t n : Name → Option Cb`.

  Import-free (the driver links this file).
-/
namespace Jrpc.Registry

abbrev Name := Nat

/-- variant of `MethodCallback` (rpc_module.rs:146-155) -/
inductive CbKind where
  | sync | async | sub | unsub
  deriving DecidableEq, Repr, Inhabited

structure Cb where
  kind : CbKind
  tag : Nat
  deriving DecidableEq, Repr, Inhabited

/-- `FxHashMap<&'static str, MethodCallback>` as an association list (key uniqueness is a theorem) -/
abbrev Tbl := List (Name × Cb)

namespace Tbl

def find : Tbl → Name → Option Cb
  | [], _ => none
  | (k, c) :: r, n => if k = n then some c else find r n

/-- `contains_key` -/
def has (t : Tbl) (n : Name) : Bool := (find t n).isSome

/-- `HashMap::insert`: replace the value of an existing key, else add -/
def insert : Tbl → Name → Cb → Tbl
  | [], n, c => [(n, c)]
  | (k, v) :: r, n, c => if k = n then (k, c) :: r else (k, v) :: insert r n c

/-- `HashMap::remove` -/
def erase : Tbl → Name → Tbl
  | [], _ => []
  | (k, v) :: r, n => if k = n then erase r n else (k, v) :: erase r n

/-- `keys()` -/
def names (t : Tbl) : List Name := t.map Prod.fst

/-- the verify loop of `merge`: first of `keys` (the other module's names, in its iteration order)
that `self` already contains -/
def firstTaken (self : Tbl) : List Name → Option Name
  | [] => none
  | k :: r => if has self k then some k else firstTaken self r

/-- `for (name, callback) in other.drain() { callbacks.insert(name, callback) }` -/
def insertAll (self : Tbl) : Tbl → Tbl
  | [] => self
  | (k, v) :: r => insertAll (insert self k v) r

end Tbl

/-! ### errors and outputs -/

/-- `RegisterMethodError` -/
inductive Err where
  | already (n : Name)        -- AlreadyRegistered
  | subConflict (n : Name)    -- SubscriptionNameConflict
  | notFound (n : Name)       -- MethodNotFound (alias of a missing method)
  deriving DecidableEq, Repr

inductive Out where
  | ok
  | err (e : Err)
  | handle (i : Nat)              -- new / clone: index of the new handle
  | called (cb : Cb)              -- call: the bound callback ran
  | methodNotFound                -- call: -32601
  | removed (cb : Option Cb)      -- remove_method's return value
  | names (ns : List Name)        -- method_names (hash order in the code; compare as a set)
  | dead                          -- the op names a handle that was dropped / moved / never existed
  | unsupported                   -- `Methods` has no such function (only `RpcModule` has)
  | selfMerge                     -- `m.merge(m)`: not expressible in Rust (moved while borrowed)
  deriving DecidableEq, Repr

/-- which registration function -/
inductive RegKind where
  | sync | async | blocking
  deriving DecidableEq, Repr

/-- `register_method` builds `MethodCallback::Sync`, `register_async_method` and
`register_blocking_method` both build `MethodCallback::Async` -/
def RegKind.cbKind : RegKind → CbKind
  | .sync => .sync
  | .async => .async
  | .blocking => .async

inductive Op where
  | new (isModule : Bool)                         -- RpcModule::new(()) / Methods::new()
  | reg (k : RegKind) (h : Nat) (n : Name) (tag : Nat)
  | regsub (h : Nat) (sub unsub : Name) (tag : Nat)
  | alias (h : Nat) (al ex : Name)
  | merge (dst src : Nat)                         -- dst.merge(src): src is moved in
  | remove (h : Nat) (n : Name)
  | clone (h : Nat) (freeze : Bool)               -- h.clone()  /  Methods::from(h.clone())
  | drop (h : Nat)
  | call (h : Nat) (n : Name)
  | names (h : Nat)
  deriving DecidableEq, Repr

/-! ### implementation layer: heap of reference-counted tables -/

structure Cell where
  rc : Nat
  tbl : Tbl
  deriving Repr

structure Handle where
  cell : Nat
  /-- `RpcModule<()>` (true) or bare `Methods` (false) -/
  isModule : Bool
  deriving DecidableEq, Repr

structure State where
  heap : List Cell := []
  handles : List (Option Handle) := []
  deriving Repr

def State.init : State := {}

def handleAt (s : State) (i : Nat) : Option Handle := (s.handles[i]?).getD none

def tblAt (s : State) (c : Nat) : Tbl :=
  match s.heap[c]? with
  | some x => x.tbl
  | none => []

def rcAt (s : State) (c : Nat) : Nat :=
  match s.heap[c]? with
  | some x => x.rc
  | none => 0

def setRc (s : State) (c : Nat) (r : Nat) : State :=
  match s.heap[c]? with
  | some x => { s with heap := s.heap.set c { x with rc := r } }
  | none => s

def setTbl (s : State) (c : Nat) (t : Tbl) : State :=
  match s.heap[c]? with
  | some x => { s with heap := s.heap.set c { x with tbl := t } }
  | none => s

def setHandle (s : State) (i : Nat) (oh : Option Handle) : State :=
  { s with handles := s.handles.set i oh }

def pushHandle (s : State) (h : Handle) : State :=
  { s with handles := s.handles ++ [some h] }

def allocCell (s : State) (c : Cell) : State :=
  { s with heap := s.heap ++ [c] }

/-- the cell handle `h` points at after `Arc::make_mut` -/
def mutCell (s : State) (h : Handle) : Nat :=
  if rcAt s h.cell = 1 then h.cell else s.heap.length

/-- `Arc::make_mut(&mut self.callbacks)` for handle `i` (currently `h`): unique ⇒ nothing happens;
shared ⇒ clone the table into a fresh `Arc`, release the old one -/
def makeMut (s : State) (i : Nat) (h : Handle) : State :=
  if rcAt s h.cell = 1 then s
  else
    setHandle (allocCell (setRc s h.cell (rcAt s h.cell - 1)) ⟨1, tblAt s h.cell⟩) i
      (some { h with cell := s.heap.length })

/-- `self.mut_callbacks().insert(name, cb)` -/
def insertRaw (s : State) (i : Nat) (h : Handle) (n : Name) (cb : Cb) : State :=
  setTbl (makeMut s i h) (mutCell s h) (Tbl.insert (tblAt (makeMut s i h) (mutCell s h)) n cb)

/-- `Methods::verify_and_insert`: `match self.mut_callbacks().entry(name)` -/
def verifyAndInsert (s : State) (i : Nat) (h : Handle) (n : Name) (cb : Cb) : State × Out :=
  if Tbl.has (tblAt (makeMut s i h) (mutCell s h)) n then (makeMut s i h, .err (.already n))
  else (insertRaw s i h n cb, .ok)

/-- `register_subscription`: `verify_and_register_unsubscribe` (names differ, both free, insert the
unsubscribe callback) and then `verify_and_insert` of the subscribe callback -/
def regSub (s : State) (i : Nat) (h : Handle) (sub unsub : Name) (tag : Nat) : State × Out :=
  if sub = unsub then (s, .err (.subConflict sub))
  else if Tbl.has (tblAt s h.cell) sub then (s, .err (.already sub))
  else if Tbl.has (tblAt s h.cell) unsub then (s, .err (.already unsub))
  else
    verifyAndInsert (insertRaw s i h unsub ⟨.unsub, tag⟩) i { h with cell := mutCell s h } sub ⟨.sub, tag⟩

/-- `register_alias` -/
def aliasOp (s : State) (i : Nat) (h : Handle) (al ex : Name) : State × Out :=
  if Tbl.has (tblAt s h.cell) al then (s, .err (.already al))
  else
    match Tbl.find (tblAt s h.cell) ex with
    | none => (s, .err (.notFound ex))
    | some cb => (insertRaw s i h al cb, .ok)

/-- `remove_method`: `self.methods.mut_callbacks().remove(name)` -/
def removeOp (s : State) (i : Nat) (h : Handle) (n : Name) : State × Out :=
  (setTbl (makeMut s i h) (mutCell s h) (Tbl.erase (tblAt (makeMut s i h) (mutCell s h)) n),
   .removed (Tbl.find (tblAt (makeMut s i h) (mutCell s h)) n))

/-- drop of a module / `Methods` value: release its `Arc` -/
def dropHandle (s : State) (i : Nat) (h : Handle) : State :=
  setHandle (setRc s h.cell (rcAt s h.cell - 1)) i none

/-- the moving part of `merge` after all names verified: `self.mut_callbacks()`, then
`other.mut_callbacks().drain()` inserted one by one, then `other` goes out of scope -/
def mergeMove (s : State) (d : Nat) (hd : Handle) (src : Nat) (hs : Handle) : State :=
  let s1 := makeMut s d hd
  let cd := mutCell s hd
  let s2 := makeMut s1 src hs
  let cs := mutCell s1 hs
  let s3 := setTbl s2 cs []
  let s4 := setTbl s3 cd (Tbl.insertAll (tblAt s3 cd) (tblAt s2 cs))
  dropHandle s4 src { hs with cell := cs }

/-- `Methods::merge` -/
def mergeOp (s : State) (d : Nat) (hd : Handle) (src : Nat) (hs : Handle) : State × Out :=
  match Tbl.firstTaken (tblAt s hd.cell) (Tbl.names (tblAt s hs.cell)) with
  | some k => (dropHandle s src hs, .err (.already k))
  | none => (mergeMove s d hd src hs, .ok)

def callOut (t : Tbl) (n : Name) : Out :=
  match Tbl.find t n with
  | some cb => .called cb
  | none => .methodNotFound

def step (s : State) : Op → State × Out
  | .new im => (pushHandle (allocCell s ⟨1, []⟩) ⟨s.heap.length, im⟩, .handle s.handles.length)
  | .reg k i n tag =>
    match handleAt s i with
    | none => (s, .dead)
    | some h =>
      if k ≠ .sync ∧ h.isModule = false then (s, .unsupported)
      else verifyAndInsert s i h n ⟨k.cbKind, tag⟩
  | .regsub i sub unsub tag =>
    match handleAt s i with
    | none => (s, .dead)
    | some h => if h.isModule = false then (s, .unsupported) else regSub s i h sub unsub tag
  | .alias i al ex =>
    match handleAt s i with
    | none => (s, .dead)
    | some h => if h.isModule = false then (s, .unsupported) else aliasOp s i h al ex
  | .merge d src =>
    match handleAt s d, handleAt s src with
    | some hd, some hs => if d = src then (s, .selfMerge) else mergeOp s d hd src hs
    | _, _ => (s, .dead)
  | .remove i n =>
    match handleAt s i with
    | none => (s, .dead)
    | some h => if h.isModule = false then (s, .unsupported) else removeOp s i h n
  | .clone i freeze =>
    match handleAt s i with
    | none => (s, .dead)
    | some h =>
      (pushHandle (setRc s h.cell (rcAt s h.cell + 1)) ⟨h.cell, h.isModule && !freeze⟩,
       .handle s.handles.length)
  | .drop i =>
    match handleAt s i with
    | none => (s, .dead)
    | some h => (dropHandle s i h, .ok)
  | .call i n =>
    match handleAt s i with
    | none => (s, .dead)
    | some h => (s, callOut (tblAt s h.cell) n)
  | .names i =>
    match handleAt s i with
    | none => (s, .dead)
    | some h => (s, .names (Tbl.names (tblAt s h.cell)))

/-- run a whole history, collecting the outputs -/
def run (s : State) : List Op → State × List Out
  | [] => (s, [])
  | op :: r => ((run (step s op).1 r).1, (step s op).2 :: (run (step s op).1 r).2)

/-- what a handle denotes: `none` if dead, else (is it an `RpcModule`, its table) -/
def viewAt (s : State) (i : Nat) : Option (Bool × Tbl) :=
  (handleAt s i).map (fun h => (h.isModule, tblAt s h.cell))

/-! ### specification layer: every handle owns its own association list -/

abbrev VState := List (Option (Bool × Tbl))

def vAt (v : VState) (i : Nat) : Option (Bool × Tbl) := (v[i]?).getD none

/-- abstraction function -/
def vview (s : State) : VState :=
  s.handles.map (fun oh => oh.map (fun h => (h.isModule, tblAt s h.cell)))

def vRegSub (v : VState) (i : Nat) (im : Bool) (t : Tbl) (sub unsub : Name) (tag : Nat) : VState × Out :=
  if sub = unsub then (v, .err (.subConflict sub))
  else if Tbl.has t sub then (v, .err (.already sub))
  else if Tbl.has t unsub then (v, .err (.already unsub))
  else (v.set i (some (im, Tbl.insert (Tbl.insert t unsub ⟨.unsub, tag⟩) sub ⟨.sub, tag⟩)), .ok)

def vAlias (v : VState) (i : Nat) (im : Bool) (t : Tbl) (al ex : Name) : VState × Out :=
  if Tbl.has t al then (v, .err (.already al))
  else
    match Tbl.find t ex with
    | none => (v, .err (.notFound ex))
    | some cb => (v.set i (some (im, Tbl.insert t al cb)), .ok)

def vMerge (v : VState) (d : Nat) (im : Bool) (t : Tbl) (src : Nat) (o : Tbl) : VState × Out :=
  match Tbl.firstTaken t (Tbl.names o) with
  | some k => (v.set src none, .err (.already k))
  | none => ((v.set d (some (im, Tbl.insertAll t o))).set src none, .ok)

def vstep (v : VState) : Op → VState × Out
  | .new im => (v ++ [some (im, [])], .handle v.length)
  | .reg k i n tag =>
    match vAt v i with
    | none => (v, .dead)
    | some (im, t) =>
      if k ≠ .sync ∧ im = false then (v, .unsupported)
      else if Tbl.has t n then (v, .err (.already n))
      else (v.set i (some (im, Tbl.insert t n ⟨k.cbKind, tag⟩)), .ok)
  | .regsub i sub unsub tag =>
    match vAt v i with
    | none => (v, .dead)
    | some (im, t) => if im = false then (v, .unsupported) else vRegSub v i im t sub unsub tag
  | .alias i al ex =>
    match vAt v i with
    | none => (v, .dead)
    | some (im, t) => if im = false then (v, .unsupported) else vAlias v i im t al ex
  | .merge d src =>
    match vAt v d, vAt v src with
    | some (im, t), some (_, o) => if d = src then (v, .selfMerge) else vMerge v d im t src o
    | _, _ => (v, .dead)
  | .remove i n =>
    match vAt v i with
    | none => (v, .dead)
    | some (im, t) =>
      if im = false then (v, .unsupported)
      else (v.set i (some (im, Tbl.erase t n)), .removed (Tbl.find t n))
  | .clone i freeze =>
    match vAt v i with
    | none => (v, .dead)
    | some (im, t) => (v ++ [some (im && !freeze, t)], .handle v.length)
  | .drop i =>
    match vAt v i with
    | none => (v, .dead)
    | some _ => (v.set i none, .ok)
  | .call i n =>
    match vAt v i with
    | none => (v, .dead)
    | some (_, t) => (v, callOut t n)
  | .names i =>
    match vAt v i with
    | none => (v, .dead)
    | some (_, t) => (v, .names (Tbl.names t))

def vrun (v : VState) : List Op → VState × List Out
  | [] => (v, [])
  | op :: r => ((vrun (vstep v op).1 r).1, (vstep v op).2 :: (vrun (vstep v op).1 r).2)

/-- the map a table denotes -/
def Tbl.toSpec (t : Tbl) : Name → Option Cb := fun n => Tbl.find t n

/-- handles an operation names -/
def Op.touched : Op → List Nat
  | .new _ => []
  | .reg _ h _ _ => [h]
  | .regsub h _ _ _ => [h]
  | .alias h _ _ => [h]
  | .merge d s => [d, s]
  | .remove h _ => [h]
  | .clone _ _ => []      -- reads `h`, never changes it
  | .drop h => [h]
  | .call _ _ => []
  | .names _ => []

/-- the handle an operation moves out of (gone afterwards whether the op succeeds or not) -/
def Op.consumed : Op → Option Nat
  | .merge _ s => some s
  | _ => none

/-- the module a registration-like operation registers into -/
def Op.target : Op → Option Nat
  | .reg _ h _ _ => some h
  | .regsub h _ _ _ => some h
  | .alias h _ _ => some h
  | .merge d _ => some d
  | _ => none

/-- "the named entries": what a successful registration-like operation is to add to its target,
read off the operation and the state before it (`look h` = what handle `h` denotes) -/
def Op.added (look : Nat → Option (Bool × Tbl)) : Op → Tbl
  | .reg k _ n tag => [(n, ⟨k.cbKind, tag⟩)]
  | .regsub _ sub unsub tag => [(unsub, ⟨.unsub, tag⟩), (sub, ⟨.sub, tag⟩)]
  | .alias h al ex =>
    match look h with
    | some (_, t) =>
      match Tbl.find t ex with
      | some cb => [(al, cb)]
      | none => []
    | none => []
  | .merge _ src =>
    match look src with
    | some (_, o) => o
    | none => []
  | _ => []

/-- the precondition the statement names for a failure, on the maps before the operation:
a taken name / equal subscription names / a missing alias target / a shared name -/
def Op.conflict (look : Nat → Option (Bool × Tbl)) : Op → Prop
  | .reg _ h n _ => ∃ im t, look h = some (im, t) ∧ Tbl.find t n ≠ none
  | .regsub h sub unsub _ =>
    ∃ im t, look h = some (im, t) ∧ (sub = unsub ∨ Tbl.find t sub ≠ none ∨ Tbl.find t unsub ≠ none)
  | .alias h al ex => ∃ im t, look h = some (im, t) ∧ (Tbl.find t al ≠ none ∨ Tbl.find t ex = none)
  | .merge d src =>
    ∃ im t im' o, look d = some (im, t) ∧ look src = some (im', o) ∧
      ∃ k, Tbl.find t k ≠ none ∧ Tbl.find o k ≠ none
  | _ => False

/-- the operation is applicable: its handles are live (distinct for merge) and the function exists
on that kind of value -/
def Op.applicable (look : Nat → Option (Bool × Tbl)) : Op → Prop
  | .reg k h _ _ => ∃ im t, look h = some (im, t) ∧ (k = .sync ∨ im = true)
  | .regsub h _ _ _ => ∃ t, look h = some (true, t)
  | .alias h _ _ => ∃ t, look h = some (true, t)
  | .merge d src => d ≠ src ∧ (∃ x, look d = some x) ∧ (∃ y, look src = some y)
  | .remove h _ => ∃ t, look h = some (true, t)
  | _ => True

/-- keys are pairwise distinct -/
def Tbl.Uniq : Tbl → Prop
  | [] => True
  | (k, _) :: r => Tbl.find r k = none ∧ Tbl.Uniq r

/-- the reading of "success adds exactly the named entries" on one table -/
structure AddsExactly (t added t' : Tbl) : Prop where
  /-- afterwards a name is bound to the added entry if it is one of the named ones, else as before -/
  find : ∀ k, Tbl.find t' k = (match Tbl.find added k with | some c => some c | none => Tbl.find t k)
  /-- nothing was overwritten: the named entries were all unbound before -/
  fresh : ∀ k, k ∈ Tbl.names added → Tbl.find t k = none
  /-- keys stay pairwise distinct -/
  uniq : Tbl.Uniq t'

end Jrpc.Registry
