/-
  F2 — the server's message pipeline, transcribed:
    * `MethodResponse::response/error` + `BoundedWriter`      (core/src/server/method_response.rs:176-259, 520-545)
    * `BatchResponseBuilder::append/finish`                    (method_response.rs:343-376)
    * `handle_rpc_call` single + batch                         (server/src/server.rs:1264-1330)
    * `RpcService::call/batch/notification`                    (server/src/middleware/rpc.rs:82-196)
    * `prepare_error`                                          (core/src/server/helpers.rs:123)
    * WS per-message task: 128-byte sniff, which kinds are sent (server/src/transport/ws.rs:154-185)
    * HTTP: method/content-type gate, `read_body`, statuses     (server/src/transport/http.rs:72-113,
                                                                core/src/http_helpers.rs:127-190)
  Handlers are the harness's fixed registry (harness/src/rpc_env.rs), mirrored in `handlerOutcome`.
-/
import JrpcVerif.Model.ParamsSeq
import JrpcVerif.Gen.ErrorConsts
import JrpcVerif.Gen.ContentTypes
namespace Jrpc.Srv
open Jrpc Jrpc.Gen.E

inductive BatchCfg where
  | disabled
  | limit (n : Nat)
  | unlimited
  deriving DecidableEq, Repr

structure Cfg where
  maxReq : Nat
  maxResp : Nat
  batch : BatchCfg
  deriving DecidableEq, Repr

inductive Transport where
  | http
  | ws
  deriving DecidableEq, Repr

/-! ### response construction -/

def errNoData (code : Int) (msg : String) : ErrObj := ⟨code, lit msg, none⟩

/-- `reject_*(limit)` helpers: data = `"Exceeded max limit of <limit>"` -/
def rejectErr (r : Int × String × String) (limit : Nat) : ErrObj :=
  ⟨r.1, lit r.2.1, some (encodeString (lit r.2.2 ++ encodeNat limit))⟩

def respText (id : Id) (p : Payload) : Text := encodeResponse ⟨true, id, p⟩

/-- the fixed "response is too big" error carrying the call's id (method_response.rs:206-226) -/
def tooBigResponse (id : Id) (max : Nat) : Text :=
  respText id (.error ⟨OVERSIZED_RESPONSE_CODE, lit OVERSIZED_RESPONSE_MSG,
    some (encodeString (lit "Exceeded max limit of " ++ encodeNat max))⟩)

/-- `MethodResponse::response`: serialise through the bounded writer; the writer accepts a write
iff the cumulative length stays ≤ max, so the serialisation succeeds iff the full text fits. -/
def methodResponse (id : Id) (p : Payload) (max : Nat) : Text :=
  let full := respText id p
  if byteLen full ≤ max then full else tooBigResponse id max

/-- `MethodResponse::error` (unbounded) -/
def errorResponse (id : Id) (e : ErrObj) : Text := respText id (.error e)

/-! ### the harness's handlers -/

inductive Outcome where
  | result (raw : Text)
  | error (e : ErrObj)
  | panic
  deriving DecidableEq, Repr

inductive MKind where
  | sync | async | blocking | subscribe | unsubscribe
  deriving DecidableEq, Repr

def paramsText (p : Option Text) : Text :=
  match (Params.new p).raw with
  | some t => t
  | none => tNull

def invalidParams : ErrObj := errNoData INVALID_PARAMS_CODE INVALID_PARAMS_MSG

/-- result of the `sum` handler: two u64 read with `sequence().next()`, checked addition -/
def sumOutcome (p : Option Text) : Outcome :=
  let s0 := (Params.new p).sequence
  match seqNext decodeU64 s0 with
  | (.val a, s1) =>
    (match seqNext decodeU64 s1 with
     | (.val b, _) =>
       if a + b < 18446744073709551616 then .result (encodeNat (a + b))
       else .error ⟨CALL_EXECUTION_FAILED_CODE, [111, 118, 101, 114, 102, 108, 111, 119], none⟩   -- "overflow"
     | _ => .error invalidParams)
  | _ => .error invalidParams

def replicateA : Nat → Text
  | 0 => []
  | n + 1 => 97 :: replicateA n

/-- `str`: `params.one::<u64>()` → a string of that many `a` (at most 100000, else invalid params) -/
def strOutcome (p : Option Text) : Outcome :=
  match Params.one decodeU64 (Params.new p) with
  | .val n => if n ≤ 100000 then .result (encodeString (replicateA n)) else .error invalidParams
  | _ => .error invalidParams

/-- the fixed string the `esc` handler returns: `"\` LF U+0001 é 😀 -/
def escString : Text := [34, 92, 10, 1, 233, 128512]

def nEcho : Text := [101, 99, 104, 111]   -- `echo`
def nAEcho : Text := [97, 95, 101, 99, 104, 111]   -- `a_echo`
def nBlkEcho : Text := [98, 108, 107, 95, 101, 99, 104, 111]   -- `blk_echo`
def nSum : Text := [115, 117, 109]   -- `sum`
def nASum : Text := [97, 95, 115, 117, 109]   -- `a_sum`
def nFail : Text := [102, 97, 105, 108]   -- `fail`
def nStr : Text := [115, 116, 114]   -- `str`
def nEsc : Text := [101, 115, 99]   -- `esc`
def nBlkBoom : Text := [98, 108, 107, 95, 98, 111, 111, 109]   -- `blk_boom`
def nSub : Text := [115, 117, 98]   -- `sub`
def nUnsub : Text := [117, 110, 115, 117, 98]   -- `unsub`
def nBadSer : Text := [98, 97, 100, 115, 101, 114]   -- `badser` (its result cannot be serialised: the library answers Internal error)
def nRpcE : Text := [114, 112, 99, 46, 101]   -- `rpc.e` (a registered method whose name starts with the reserved-looking prefix)

/-- the harness registry: method name → kind -/
def kindOfMethod (m : Text) : Option MKind :=
  if m == nSub then some .subscribe
  else if m == nUnsub then some .unsubscribe
  else if m == nEcho || m == nSum || m == nFail || m == nStr || m == nEsc || m == nRpcE || m == nBadSer then some .sync
  else if m == nAEcho || m == nASum then some .async
  else if m == nBlkEcho || m == nBlkBoom then some .blocking
  else none

/-- what the registered handler of `m` produces for given params -/
def outcomeOf (m : Text) (p : Option Text) : Outcome :=
  if m == nEcho || m == nAEcho || m == nBlkEcho || m == nRpcE then .result (paramsText p)
  else if m == nSum || m == nASum then sumOutcome p
  else if m == nFail then .error ⟨7, [99, 117, 115, 116, 111, 109], (Params.new p).raw⟩   -- "custom"
  else if m == nStr then strOutcome p
  else if m == nEsc then .result (encodeString escString)
  else if m == nBlkBoom then .panic
  else if m == nUnsub then .result tFalse
  else if m == nBadSer then .error (errNoData INTERNAL_ERROR_CODE INTERNAL_ERROR_MSG)
  else .result []

/-- kind and outcome of a registered method for given params; `none` = not registered -/
def handlerOutcome (method : Text) (p : Option Text) : Option (MKind × Outcome) :=
  match kindOfMethod method with
  | some k => some (k, outcomeOf method p)
  | none => none

def internalError : ErrObj := errNoData INTERNAL_ERROR_CODE INTERNAL_ERROR_MSG

/-- one executed handler: (method, params text as the handler saw it) -/
abbrev Invocation := Text × Text

/-- what `RpcService::call` produced -/
structure CallOut where
  resp : Text                    -- the MethodResponse json
  isSubscription : Bool          -- `ResponseKind::Subscription`: the WS loop does not send it itself
  direct : List Text             -- frames the callback wrote to the connection sink directly (accept)
  invoked : List Invocation
  nextSub : Nat                  -- id provider state afterwards

/-- `RpcService::call` (rpc.rs:82-149) for the harness registry.  `subCounter` = next id of the
deterministic id provider. -/
def callMethod (cfg : Cfg) (tr : Transport) (subCounter : Nat) (req : Request) : CallOut :=
  match handlerOutcome req.method req.params with
  | none => ⟨errorResponse req.id (errNoData METHOD_NOT_FOUND_CODE METHOD_NOT_FOUND_MSG), false, [], [], subCounter⟩
  | some (kind, out) =>
    let inv : List Invocation := [(req.method, paramsText req.params)]
    match kind with
    | .subscribe =>
      (match tr with
       | .http => ⟨errorResponse req.id internalError, false, [], [], subCounter⟩
       | .ws =>
         -- the handler accepts at once: the accept response goes to the sink directly
         let r := methodResponse req.id (.result (encodeNat subCounter)) cfg.maxResp
         ⟨r, true, [r], inv, subCounter + 1⟩)
    | .unsubscribe =>
      (match tr with
       | .http => ⟨errorResponse req.id internalError, false, [], [], subCounter⟩
       | .ws => ⟨methodResponse req.id (.result tFalse) cfg.maxResp, false, [], [], subCounter⟩)
    | _ =>
      match out with
      | .result raw => ⟨methodResponse req.id (.result raw) cfg.maxResp, false, [], inv, subCounter⟩
      | .error e => ⟨methodResponse req.id (.error e) cfg.maxResp, false, [], inv, subCounter⟩
      | .panic => ⟨errorResponse req.id internalError, false, [], inv, subCounter⟩

/-! ### single messages -/

inductive Classified where
  | call (r : Request)
  | notif (n : Notif)
  | invalid (id : Id)       -- `InvalidRequest` parses: id recoverable
  | garbage                 -- nothing parses
  deriving DecidableEq, Repr

/-- the visitors in the code's order (server.rs:1279-1288, helpers.rs:123) -/
def classify (t : Text) : Classified :=
  match decodeRequest t with
  | some r => .call r
  | none =>
    match decodeNotif t with
    | some n => .notif n
    | none =>
      match decodeInvalidRequest t with
      | some id => .invalid id
      | none => .garbage

/-- what the connection produced for one message -/
structure MsgOut where
  reply : Option Text            -- HTTP body / the frame sent by the per-message task (`none`: nothing)
  direct : List Text             -- frames written to the sink directly by subscription callbacks
  invoked : List Invocation
  nextSub : Nat

def parseErrorResp : Text := errorResponse .null (errNoData PARSE_ERROR_CODE PARSE_ERROR_MSG)

/-- `handle_rpc_call` with `is_single = true` -/
def handleSingle (cfg : Cfg) (tr : Transport) (sub : Nat) (t : Text) : MsgOut :=
  match classify t with
  | .call r =>
    let c := callMethod cfg tr sub r
    ⟨if c.isSubscription then none else some c.resp, c.direct, c.invoked, c.nextSub⟩
  | .notif _ => ⟨none, [], [], sub⟩
  | .invalid id => ⟨some (errorResponse id (errNoData INVALID_REQUEST_CODE INVALID_REQUEST_MSG)), [], [], sub⟩
  | .garbage => ⟨some parseErrorResp, [], [], sub⟩

/-! ### batches -/

/-- `BatchResponseBuilder` -/
structure BatchB where
  result : Text       -- starts as "["
  deriving DecidableEq, Repr

def BatchB.new : BatchB := ⟨[91]⟩

/-- `append`: `Err` (the -32011 object, id null) when `|resp| + |result| + 1 > max` -/
def BatchB.append (b : BatchB) (resp : Text) (max : Nat) : Except Text BatchB :=
  if byteLen resp + byteLen b.result + 1 > max then
    .error (errorResponse .null (rejectErr reject_too_big_batch_response max))
  else .ok ⟨b.result ++ resp ++ [44]⟩

def BatchB.isEmpty (b : BatchB) : Bool := b.result.length ≤ 1

/-- `finish` -/
def BatchB.finish (b : BatchB) : Text :=
  if b.result.length == 1 then errorResponse .null (errNoData INVALID_REQUEST_CODE INVALID_REQUEST_MSG)
  else b.result.dropLast ++ [93]

inductive Entry where
  | call (r : Request)
  | notif
  | invalid (id : Id)
  deriving DecidableEq, Repr

/-- entry classification inside a batch (server.rs:1308-1330): only JSON objects can be calls or
notifications; unrecoverable id ⇒ null -/
def classifyEntry (e : Text) : Entry :=
  if e.head? != some 123 then .invalid .null else
  match classify e with
  | .call r => .call r
  | .notif _ => .notif
  | .invalid id => .invalid id
  | .garbage => .invalid .null

structure BatchState where
  b : BatchB
  gotNotif : Bool
  direct : List Text
  invoked : List Invocation
  sub : Nat

/-- `RpcService::batch` loop (rpc.rs:151-188): sequential; a failed append returns at once -/
def runBatch (cfg : Cfg) (tr : Transport) : List Entry → BatchState → Except (Text × BatchState) BatchState
  | [], st => .ok st
  | e :: es, st =>
    match e with
    | .call r =>
      let c := callMethod cfg tr st.sub r
      let st1 : BatchState := { st with direct := st.direct ++ c.direct, invoked := st.invoked ++ c.invoked, sub := c.nextSub }
      (match st1.b.append c.resp cfg.maxResp with
       | .error err => .error (err, st1)
       | .ok b' => runBatch cfg tr es { st1 with b := b' })
    | .notif => runBatch cfg tr es { st with gotNotif := true }
    | .invalid id =>
      (match st.b.append (errorResponse id (errNoData INVALID_REQUEST_CODE INVALID_REQUEST_MSG)) cfg.maxResp with
       | .error err => .error (err, st)
       | .ok b' => runBatch cfg tr es { st with b := b' })

/-- `handle_rpc_call` with `is_single = false` -/
def handleBatch (cfg : Cfg) (tr : Transport) (sub : Nat) (t : Text) : MsgOut :=
  match cfg.batch with
  | .disabled =>
    ⟨some (errorResponse .null (errNoData BATCHES_NOT_SUPPORTED_CODE BATCHES_NOT_SUPPORTED_MSG)), [], [], sub⟩
  | bc =>
    match elements t with
    | none => ⟨some parseErrorResp, [], [], sub⟩
    | some es =>
      let over : Bool := match bc with
        | .limit n => decide (es.length > n)
        | _ => false
      let lim : Nat := match bc with
        | .limit n => n
        | _ => 18446744073709551615
      if over then ⟨some (errorResponse .null (rejectErr reject_too_big_batch_request lim)), [], [], sub⟩
      else
        match runBatch cfg tr (es.map classifyEntry) ⟨BatchB.new, false, [], [], sub⟩ with
        | .error (err, st) => ⟨some err, st.direct, st.invoked, st.sub⟩
        | .ok st =>
          if st.b.isEmpty && st.gotNotif then ⟨none, st.direct, st.invoked, st.sub⟩
          else ⟨some st.b.finish, st.direct, st.invoked, st.sub⟩

/-! ### transports -/

/-- position and kind found by the 128-byte sniff: first non-ASCII-whitespace among the first 128
code units; `some (idx, isSingle)` for `{` / `[` -/
def sniff : Nat → Nat → Text → Option (Nat × Bool)
  | 0, _, _ => none
  | _ + 1, _, [] => none
  | w + 1, i, c :: r =>
    if isAsciiWs c then sniff w (i + 1) r
    else if c == 123 then some (i, true)
    else if c == 91 then some (i, false)
    else none

/-- one WebSocket message (text that is valid UTF-8; ws.rs:154-185).  `frames` = everything put on
the connection queue because of this message, in order. -/
structure WsOut where
  frames : List Text
  invoked : List Invocation
  nextSub : Nat

def wsMessage (cfg : Cfg) (sub : Nat) (t : Text) : WsOut :=
  if byteLen t > cfg.maxReq then
    ⟨[errorResponse .null (rejectErr reject_too_big_request cfg.maxReq)], [], sub⟩
  else
    match sniff 128 0 t with
    | none => ⟨[parseErrorResp], [], sub⟩
    | some (idx, single) =>
      let body := t.drop idx
      let o := if single then handleSingle cfg .ws sub body else handleBatch cfg .ws sub body
      ⟨o.direct ++ (match o.reply with | some r => [r] | none => []), o.invoked, o.nextSub⟩

/-- outcome of `read_body` -/
inductive Body where
  | ok (data : Text) (single : Bool)
  | tooLarge
  | malformed
  deriving DecidableEq, Repr

/-- the whitespace look-ahead on one chunk with `w` window positions left: `found idx single`,
`more` (the whole chunk is whitespace and the window is not used up) or `bad` -/
inductive Sniff where
  | found (idx : Nat) (single : Bool)
  | more
  | bad
  deriving DecidableEq, Repr

/-- shift a found index by one skipped whitespace character -/
def Sniff.succ : Sniff → Sniff
  | .found i s => .found (i + 1) s
  | x => x

def sniffChunk : Nat → Text → Sniff
  | _, [] => .more                      -- chunk exhausted inside the window
  | 0, _ :: _ => .bad                   -- window used up
  | w + 1, c :: r =>
    if isAsciiWs c then (sniffChunk w r).succ
    else if c == 123 then .found 0 true
    else if c == 91 then .found 0 false
    else .bad

/-- `read_body` over the list of data chunks of the body (http_helpers.rs:127-200).
`Limited` fails (⇒ too large) as soon as the cumulative size exceeds the limit; until the first
non-whitespace byte the look-ahead window (128) is counted across chunks. -/
def readChunks (max : Nat) : List Text → Nat → Nat → Text → Option Bool → Body
  | [], _, _, received, single =>
    (match single with
     | some s => if received.isEmpty then .malformed else .ok received s
     | none => .malformed)
  | ch :: rest, seen, skipped, received, single =>
    if seen + byteLen ch > max then .tooLarge
    else match single with
      | some _ => readChunks max rest (seen + byteLen ch) skipped (received ++ ch) single
      | none =>
        (match sniffChunk (128 - skipped) ch with
         | .found idx s => readChunks max rest (seen + byteLen ch) skipped (ch.drop idx) (some s)
         | .more => if ch.length < 128 - skipped then readChunks max rest (seen + byteLen ch) (skipped + ch.length) received none
                    else .malformed
         | .bad => .malformed)

def readBody (contentLength : Option Nat) (chunks : List Text) (max : Nat) : Body :=
  match contentLength with
  | some n => if n > max then .tooLarge else readChunks max chunks 0 0 [] none
  | none => readChunks max chunks 0 0 [] none

def lowerAscii (c : Nat) : Nat := if 65 ≤ c && c ≤ 90 then c + 32 else c

/-- `is_json`: the first content-type header value, compared ASCII-case-insensitively with the
generated list -/
def isJsonContentType (ct : Option Text) : Bool :=
  match ct with
  | none => false
  | some v => Jrpc.Gen.jsonContentTypes.any (fun s => (lit s).map lowerAscii == v.map lowerAscii)

structure HttpOut where
  status : Nat
  body : Text
  invoked : List Invocation

def tPOST : Text := lit "POST"

/-- `call_with_service` (http.rs:72-113) -/
def httpCall (cfg : Cfg) (method : Text) (ct : Option Text) (contentLength : Option Nat) (chunks : List Text) : HttpOut :=
  if method != tPOST then ⟨405, lit "Used HTTP Method is not allowed. POST is required\n", []⟩
  else if !isJsonContentType ct then
    ⟨415, lit "Supplied content type is not allowed. Content-Type: application/json is required\n", []⟩
  else
    match readBody contentLength chunks cfg.maxReq with
    | .tooLarge => ⟨413, errorResponse .null (rejectErr reject_too_big_request cfg.maxReq), []⟩
    | .malformed => ⟨400, parseErrorResp, []⟩
    | .ok data single =>
      let o := if single then handleSingle cfg .http 0 data else handleBatch cfg .http 0 data
      ⟨200, (match o.reply with | some r => r | none => tNull), o.invoked⟩

end Jrpc.Srv
