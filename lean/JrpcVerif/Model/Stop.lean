/-
  C10 — graceful stop of the server as a state machine over connection tasks and calls.

  What is transcribed (one op = the code between two awaits of one task):

  server.rs:111-169    `start`/`start_inner`: accept loop `select(accept, stopped)`; on stop it
                       breaks (`acceptExit`), drops its completion sender and waits until every
                       connection task dropped its clone; only then its own `StopHandle` dies.
  server.rs:1211-1239  per TCP connection task: `select(conn, stopped)`; on stop (`observeStop`)
                       hyper `graceful_shutdown()` and the connection is polled to completion
                       (`httpClose`): the request in flight is finished, no new request is read
                       (hyper's behaviour, a parameter).  Same code in utils.rs:110-142 for the
                       tower-service assembly.
  ws.rs:64-199         `background_task`: read loop (`wsRead` spawns one task per message that owns
                       a pending-call token), `Receive::Stopped` breaks it (`observeStop`),
  ws.rs:345-375        `graceful_shutdown`: when stopped, wait for all pending-call tokens OR the
                       peer going away OR the writer dying, then signal the writer (`wsDrained`)
                       and join it (`writerExit`); when the loop ended for another reason the
                       writer is signalled at once (`wsDrained` from `open` with `peerGone`).
                       `writerExit` stands for BOTH "the send task has ended" and "graceful_shutdown
                       joined it" (ws.rs:374 `send_task_handle.await`): the connection task reaches
                       `closed` — and drops its `StopHandle` — only through it.  An answer is `onWire`
                       only once `writerStep` has WRITTEN it (`send_message` returned), never by
                       merely being queued; `writerExit` needs an empty queue.
  ws.rs:202-266        `send_task`: `select(rx_item, (ping, stop))` polls the queue FIRST, so the
                       stop signal is only honoured on an empty queue (`writerExit` needs
                       `noQueued`); a failing send ends it (peer gone).          [atomic here]
                       (reads do not look at `peerGone`: what the client wrote before it went
                       away may still be taken off the socket buffer)
  ws.rs:154-185        call task: handler (`callStart` … `handlerReturn`), then `sink.send(json)`
                       into the bounded queue (`enqueue`, waits for room: disabled while
                       `queuedCount = cap`), fails when the writer is gone.  The task's clone of the
                       service — which owns the pending-call token — lives until the task ends, i.e.
                       until AFTER the answer is queued: `answered` still counts as pending
                       (`isPending`), so `wsDrained` cannot overtake an answer waiting for room.
  future.rs:83-95      `stop()` = `watch::Sender::send` (Err iff no receiver is left);
                       `stopped()` = `Sender::closed()`: resolves when NO `StopHandle` exists any
                       more, i.e. accept task finished and every connection task finished.

  Connections and calls are association lists keyed by environment-chosen ids; every guard and
  every update ranges over ALL entries carrying the id, so no theorem depends on ids being unique
  (they are: `connOpen` / `callSend` require a fresh id).
-/
namespace Jrpc.Stop

inductive Tr where
  | http | ws
  deriving DecidableEq, Repr

/-- life of one call -/
inductive CPhase where
  | sent       -- written by the client, not yet read by the server
  | received   -- WS: read loop spawned the call task (pending-call token held), handler not yet polled
  | started    -- handler running
  | answered   -- handler returned, response produced, not yet queued (WS) / written (HTTP)
  | queued     -- WS: in the writer's bounded queue
  | onWire     -- handed to the transport
  | dropped    -- response discarded: peer gone / request future dropped / writer gone
  deriving DecidableEq, Repr

/-- life of one connection task -/
inductive KPhase where
  | open        -- HTTP: hyper serving; WS: read loop running
  | graceful    -- HTTP: `graceful_shutdown()` called
  | draining    -- WS: stop seen, waiting for the pending-call tokens
  | writerStop  -- WS: writer signalled, it drains its queue
  | closed      -- task finished: its `StopHandle` (and completion token / permit) is dropped
  deriving DecidableEq, Repr

structure Call where
  id : Nat
  conn : Nat
  phase : CPhase
  /-- ghost: written by the client after `stopped()` had resolved -/
  sentLate : Bool
  /-- ghost: the handler started after `stopped()` had resolved -/
  startLate : Bool
  deriving DecidableEq, Repr

structure Conn where
  id : Nat
  tr : Tr
  phase : KPhase
  /-- the client went away (close, reset, protocol violation) -/
  peerGone : Bool
  deriving DecidableEq, Repr

structure State where
  /-- `message_buffer_capacity` of the WS writer queue -/
  cap : Nat
  stopFlag : Bool
  /-- accept loop still running -/
  accepting : Bool
  /-- `stopped()` has resolved -/
  resolved : Bool
  conns : List Conn
  calls : List Call
  deriving DecidableEq, Repr

def init (cap : Nat) : State :=
  { cap := cap, stopFlag := false, accepting := true, resolved := false, conns := [], calls := [] }

inductive Op where
  | connOpen (c : Nat) (tr : Tr)
  | callSend (c k : Nat)
  | wsRead (k : Nat)
  | callStart (k : Nat)
  | httpRead (k : Nat)
  | handlerReturn (k : Nat)
  | enqueue (k : Nat)
  | writerStep (k : Nat)
  | httpWrite (k : Nat)
  | stop
  | dropHandles
  | acceptExit
  | observeStop (c : Nat)
  | wsDrained (c : Nat)
  | writerExit (c : Nat)
  | httpClose (c : Nat)
  | peerGone (c : Nat)
  | resolve
  deriving DecidableEq, Repr

inductive Out where
  | ok
  | disabled         -- the op's guard does not hold: nothing happens
  | alreadyStopped   -- `stop()` returned `Err(AlreadyStoppedError)` (no receiver left)
  deriving DecidableEq, Repr

/-! ### lookups and updates (over all entries with the id) -/

def hasConn (s : State) (c : Nat) : Bool := s.conns.any (fun x => x.id == c)
def hasCall (s : State) (k : Nat) : Bool := s.calls.any (fun y => y.id == k)

/-- a connection `c` exists and every entry with that id satisfies `p` -/
def connSat (s : State) (c : Nat) (p : Conn → Bool) : Bool :=
  hasConn s c && s.conns.all (fun x => x.id != c || p x)

/-- a call `k` exists and every entry with that id satisfies `p` -/
def callSat (s : State) (k : Nat) (p : Call → Bool) : Bool :=
  hasCall s k && s.calls.all (fun y => y.id != k || p y)

def updConn (cs : List Conn) (c : Nat) (f : Conn → Conn) : List Conn :=
  cs.map (fun x => if x.id == c then f x else x)

def updCall (ks : List Call) (k : Nat) (f : Call → Call) : List Call :=
  ks.map (fun y => if y.id == k then f y else y)

def isPending (p : CPhase) : Bool := p == .received || p == .started || p == .answered
def isInflight (p : CPhase) : Bool := p == .started || p == .answered

/-- no live pending-call token of connection `c` (the `mpsc` sender count is zero) -/
def noPending (s : State) (c : Nat) : Bool := s.calls.all (fun y => y.conn != c || !isPending y.phase)
def noQueued (s : State) (c : Nat) : Bool := s.calls.all (fun y => y.conn != c || y.phase != .queued)
def noInflight (s : State) (c : Nat) : Bool := s.calls.all (fun y => y.conn != c || !isInflight y.phase)
def queuedCount (s : State) (c : Nat) : Nat := (s.calls.filter (fun y => y.conn == c && y.phase == .queued)).length
def allClosed (s : State) : Bool := s.conns.all (fun x => x.phase == .closed)

/-- no `StopHandle` is left -/
def noReceivers (s : State) : Bool := !s.accepting && allClosed s

/-! ### guards -/

def enabled (s : State) (op : Op) : Bool :=
  match op with
  | .connOpen c _ => s.accepting && !hasConn s c
  | .callSend c k => connSat s c (fun x => !x.peerGone) && !hasCall s k
  | .wsRead k =>
    callSat s k (fun y => y.phase == .sent &&
      connSat s y.conn (fun x => x.tr == .ws && x.phase == .open))
  | .callStart k => callSat s k (fun y => y.phase == .received)
  | .httpRead k =>
    callSat s k (fun y => y.phase == .sent &&
      connSat s y.conn (fun x => x.tr == .http && x.phase == .open) && noInflight s y.conn)
  | .handlerReturn k => callSat s k (fun y => y.phase == .started)
  | .enqueue k =>
    callSat s k (fun y => y.phase == .answered &&
      connSat s y.conn (fun x => x.tr == .ws && (x.phase == .closed || queuedCount s y.conn < s.cap)))
  | .writerStep k =>
    callSat s k (fun y => y.phase == .queued && connSat s y.conn (fun x => x.tr == .ws && x.phase != .closed))
  | .httpWrite k =>
    callSat s k (fun y => y.phase == .answered && connSat s y.conn (fun x => x.tr == .http && x.phase != .closed))
  | .stop => true
  | .dropHandles => true
  | .acceptExit => s.stopFlag && s.accepting
  | .observeStop c => s.stopFlag && connSat s c (fun x => x.phase == .open)
  | .wsDrained c =>
    connSat s c (fun x => x.tr == .ws &&
      ((x.phase == .draining && (noPending s c || x.peerGone)) || (x.phase == .open && x.peerGone)))
  | .writerExit c =>
    connSat s c (fun x => x.tr == .ws && x.phase == .writerStop && (noQueued s c || x.peerGone))
  | .httpClose c =>
    -- hyper finishes an HTTP connection that has no request in flight whenever it sees fit: after
    -- `graceful_shutdown()`, but also without any stop when the client asked for `Connection: close`
    -- (HTTP/1.0 style) or the keep-alive ran out; with a request in flight only when the peer is gone
    connSat s c (fun x => x.tr == .http && x.phase != .closed && (noInflight s c || x.peerGone))
  | .peerGone c => hasConn s c
  | .resolve => noReceivers s

/-! ### effects -/

def setCallPhase (s : State) (k : Nat) (p : CPhase) : State :=
  { s with calls := updCall s.calls k (fun y => { y with phase := p }) }

def setConnPhase (s : State) (c : Nat) (p : KPhase) : State :=
  { s with conns := updConn s.conns c (fun x => { x with phase := p }) }

/-- is connection `c` one whose peer went away -/
def gone (s : State) (c : Nat) : Bool := s.conns.any (fun x => x.id == c && x.peerGone)
def connClosed (s : State) (c : Nat) : Bool := s.conns.any (fun x => x.id == c && x.phase == .closed)

def apply (s : State) (op : Op) : State :=
  match op with
  | .connOpen c tr => { s with conns := { id := c, tr := tr, phase := .open, peerGone := false } :: s.conns }
  | .callSend c k =>
    { s with calls := { id := k, conn := c, phase := .sent, sentLate := s.resolved, startLate := false } :: s.calls }
  | .wsRead k => setCallPhase s k .received
  | .callStart k =>
    { s with calls := updCall s.calls k (fun y => { y with phase := .started, startLate := s.resolved }) }
  | .httpRead k =>
    { s with calls := updCall s.calls k (fun y => { y with phase := .started, startLate := s.resolved }) }
  | .handlerReturn k => setCallPhase s k .answered
  | .enqueue k =>
    { s with calls := updCall s.calls k (fun y =>
        { y with phase := if connClosed s y.conn then .dropped else .queued }) }
  | .writerStep k =>
    { s with calls := updCall s.calls k (fun y => { y with phase := if gone s y.conn then .dropped else .onWire }) }
  | .httpWrite k =>
    { s with calls := updCall s.calls k (fun y => { y with phase := if gone s y.conn then .dropped else .onWire }) }
  | .stop => { s with stopFlag := true }
  | .dropHandles => { s with stopFlag := true }
  | .acceptExit => { s with accepting := false }
  | .observeStop c =>
    { s with conns := updConn s.conns c (fun x => { x with phase := if x.tr == .http then .graceful else .draining }) }
  | .wsDrained c => setConnPhase s c .writerStop
  | .writerExit c => setConnPhase s c .closed
  | .httpClose c =>
    -- the request future still in flight (only possible when the peer is gone) is dropped with it
    { s with conns := updConn s.conns c (fun x => { x with phase := .closed }),
             calls := s.calls.map (fun y => if y.conn == c && isInflight y.phase then { y with phase := .dropped } else y) }
  | .peerGone c => { s with conns := updConn s.conns c (fun x => { x with peerGone := true }) }
  | .resolve => { s with resolved := true }

def step (s : State) (op : Op) : State × Out :=
  if enabled s op then
    (apply s op, if op == .stop && noReceivers s then .alreadyStopped else .ok)
  else (s, .disabled)

def run (s : State) (ops : List Op) : State :=
  match ops with
  | [] => s
  | op :: r => run (step s op).1 r

/-! ### derived op sequences used by the trace checker (Driver/ConnFamily.lean)

The harness sees only some steps (handler start/return, answers, EOF, `stopped()`); the others
are filled in by these fixed sequences.  They are plain `run`s of `step`, so every theorem about
all op sequences covers whatever the checker executes. -/

/-- what can happen to an answer once its handler returned, without anybody else's help -/
def flushOps (k : Nat) : List Op := [.enqueue k, .writerStep k, .httpWrite k]

/-- the invisible steps by which the task of connection `c` winds down (disabled ones are skipped) -/
def windDownOps (c : Nat) : List Op := [.observeStop c, .wsDrained c, .writerExit c, .httpClose c]

def windDownAllOps (s : State) : List Op := .acceptExit :: s.conns.flatMap (fun x => windDownOps x.id)

/-- steps the server (and its handlers) take by themselves; everything else is the environment:
clients connecting / sending / going away and the owner calling `stop` or dropping the handle -/
def internal (op : Op) : Bool :=
  match op with
  | .connOpen _ _ | .callSend _ _ | .stop | .dropHandles | .peerGone _ => false
  | _ => true

end Jrpc.Stop
