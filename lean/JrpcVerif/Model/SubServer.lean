/-
  Server-side subscription bookkeeping (C04, C06) — a transcription of the atomic steps of

    core/src/server/subscription.rs   PendingSubscriptionSink::{accept,reject}, Drop; SubscriptionSink::{send,
                                      is_closed,clone}, `impl Drop for SubscriptionGuard`; BoundedSubscriptions
    core/src/server/rpc_module.rs     register_subscription: subscribe callback (781-877: handler task joined with
                                      the `accepted` signal, close notification), unsubscribe callback (980-1034)
    core/src/server/helpers.rs        MethodSink = bounded mpsc sender (the per-connection queue)
    server/src/middleware/rpc.rs      permit acquisition / -32006 (107-132), unsubscribe bypasses limits (134-146)
    server/src/transport/ws.rs        per-message task (154-185), writer task (202-266), graceful shutdown (345-375)
    server/src/server.rs              one BoundedSubscriptions + one queue per connection (1051-1066)

  One `Op` = code between two awaits / under one lock.  Operations that would have to wait for room in
  the connection queue are *not enabled* while the queue is full (`Out.blocked`, state unchanged): the
  real task is parked inside `tx.send(..).await` and the step happens when it is resumed.

  Deliberately unspecified (neither C04 nor C06 decides it, and in the code it is a scheduling race
  between the subscription task and the connection's shutdown): whether a closing notification that
  becomes due while a STOPPING server is finishing the connection still reaches the peer.  The
  machine sends it (`taskStep` before `connFinish`); the correspondence does not compare closing
  frames that were queued in the very settling in which a stopping connection finished (driver
  `settle`, harness `frames_part`) — the oracle still checks any such frame that does arrive.

  The subscriber table (`Subscribers`, one per subscription method, keyed by (connection id,
  subscription id)) is the field `inTable` of the subscription records; the permit is accounted in
  `Conn.permitsFree`; `pendingHeld` (the PendingSubscriptionSink is alive) is `phase = pending`.
  Ghost fields: `unsubscribed`, `orphaned`, `produced`, `closeSent`.
-/
import JrpcVerif.Model.Wire
namespace Jrpc.SubServer

inductive Phase where
  | pending        -- PendingSubscriptionSink alive (holds the permit), subscribe call unanswered
  | accepted       -- accept() succeeded
  | rejected       -- reject() called
  | dropped        -- PendingSubscriptionSink dropped without accept/reject
  | acceptFailed   -- accept() found the connection closed
  deriving DecidableEq, Repr

/-- what the handler future returned (`IntoSubscriptionCloseResponse`) -/
inductive Ret where
  | none
  | notif (p : Nat)
  | err (e : Nat)
  deriving DecidableEq, Repr

inductive Frame where
  | resp (rid sid : Nat)            -- response accepting the subscribe call: result = subscription id
  | respDead (rid sid : Nat)        -- the same text, written by an accept() that then FAILS because the
                                    -- subscribe call had been cancelled (nobody takes the response any
                                    -- more): it reaches the wire, but no subscription comes into being
  | err (rid : Nat) (code : Int)    -- error response to a subscribe call (-32006, reject code, -32603)
  | unsub (rid : Nat) (b : Bool)    -- response to an unsubscribe call
  | data (meth sid p : Nat)         -- notification produced by `SubscriptionSink::send`
  | closeOk (meth sid p : Nat)      -- closing notification `SubscriptionCloseResponse::Notif`
  | closeErr (meth sid e : Nat)     -- closing notification `SubscriptionCloseResponse::NotifErr`
  deriving DecidableEq, Repr

structure Sub where
  conn : Nat
  meth : Nat                 -- which subscription method (own table, own notification name)
  subId : Nat
  reqId : Nat
  phase : Phase := .pending
  clones : Nat := 0          -- live SubscriptionSink handles (share the Arc'd permit)
  inTable : Bool := false    -- entry under (conn, subId) in the method's `Subscribers`
  unsubscribed : Bool := false  -- ghost: the entry was removed by an unsubscribe call
  orphaned : Bool := false      -- ghost: the entry was removed by the drop of a clone that was not the last one
                                --        (never set with the current drop rule: `noOrphan_of_fixed`)
  displaced : Bool := false     -- ghost: the entry was overwritten by the accept of another subscription that
                                --        was given the same id while this one was still registered (only an id
                                --        provider that hands out ids still in use does that)
  handlerDone : Bool := false   -- the handler future has returned
  ret : Ret := .none
  taskDone : Bool := false      -- the task spawned by the subscribe callback has finished
  closeSent : Bool := false     -- ghost: a closing notification was enqueued
  produced : List Nat := []     -- ghost: payloads of the successful sends, in order
  callDead : Bool := false      -- the future of the subscribe call was dropped (cancelled / timed out by a
                                -- middleware) while the pending sink lives on: its per-message task is gone
  deriving DecidableEq, Repr

structure Conn where
  isOpen : Bool := true      -- the queue's receiver is open (writer task alive)
  stopping : Bool := false   -- server stop seen: reader no longer dispatches, waits for pending calls
  cap : Nat                  -- max_subscriptions_per_connection
  permitsFree : Nat
  qcap : Nat                 -- message_buffer_capacity
  queue : List Frame := []
  wire : List Frame := []    -- frames the writer task has taken from the queue, in order
  deriving DecidableEq, Repr

structure State where
  conns : List Conn
  subs : List Sub := []      -- one record per subscribe call that got a permit; the index is the
                             -- identity ("generation") of the subscription, `subId` is only its wire id
  deriving DecidableEq, Repr

inductive Op where
  | subscribe (c m rid sid : Nat)   -- `sid` = what the id provider hands out for this call (external)
  | cancelCall (k : Nat)            -- the subscribe call's future is dropped while the sink is still pending
  | accept (k : Nat)
  | reject (k : Nat) (code : Int)
  | dropPending (k : Nat)
  | send (k p : Nat)
  | sendResume (k p : Nat)          -- a send parked on a full queue is resumed (room appeared / queue closed)
  | cloneSink (k : Nat)
  | dropSink (k : Nat)
  | isClosed (k : Nat)
  | handlerReturn (k : Nat) (r : Ret)
  | taskStep (k : Nat)
  | unsubscribe (c m x rid : Nat)
  | unsubscribeBad (c rid : Nat)    -- the parameter is not a subscription id
  | connClose (c : Nat)
  | stop
  | connFinish (c : Nat)
  | writerStep (c : Nat)
  deriving DecidableEq, Repr

inductive Out where
  | bad | ignored | blocked | refused
  | pending (sid : Nat)
  | ok | err | nosink | done | gone | idle | empty
  | bool (b : Bool)
  | frame (f : Frame)
  deriving DecidableEq, Repr

/-! ### typed subscription ids

`SubscriptionId` is `Num(u64) | Str(String)` and the subscriber table is keyed by the TYPED id
(`SubscriptionKey` derives `Hash`/`Eq`): `Num 5` and `Str "5"` are different keys.  The machine
below works with an opaque key (`Sub.subId : Nat`); typed ids enter through the injective
embedding `idKey` (`idKey_injective` in Proofs/SubServerLemmas.lean), so every statement about
"the subscription with exactly this id" is a statement about the typed id. -/

/-- an injective code of a text (list of code points): 2^c · (2·code(rest) + 1) -/
def codeText : Text → Nat
  | [] => 0
  | c :: r => 2 ^ c * (2 * codeText r + 1)

def idKey : SubId → Nat
  | .num n => 2 * n
  | .str s => 2 * codeText s + 1

def tooManyCode : Int := -32006
def internalCode : Int := -32603

/-- The drop rule of the sink handles (`SubscriptionGuard`, subscription.rs: shared by all clones of a
`SubscriptionSink` in an `Arc`): does dropping one of `clones` live handles remove the table entry?
Only the last one does.  (Before fix 2bde692 — finding F-13 — `impl Drop for SubscriptionSink` had no
last-clone check, i.e. this was `true` for every count; that history is kept in corpus/C06/.) -/
def dropSinkRemovesEntry (clones : Nat) : Bool := clones == 1

def Conn.hasRoom (cn : Conn) : Bool := cn.queue.length < cn.qcap
def Conn.push (cn : Conn) (f : Frame) : Conn := { cn with queue := cn.queue ++ [f] }
def Conn.release (cn : Conn) : Conn := { cn with permitsFree := cn.permitsFree + 1 }
/-- everything ever enqueued on the connection, in order -/
def Conn.hist (cn : Conn) : List Frame := cn.wire ++ cn.queue

def mkConn (cap qcap : Nat) : Conn := { cap := cap, permitsFree := cap, qcap := qcap }

def init (cfg : List (Nat × Nat)) : State := { conns := cfg.map (fun p => mkConn p.1 p.2) }

def lookup (st : State) (k : Nat) : Option (Sub × Conn) :=
  match st.subs[k]? with
  | none => none
  | some s =>
    match st.conns[s.conn]? with
    | none => none
    | some cn => some (s, cn)

/-- write back subscription `k` and its connection -/
def put (st : State) (k : Nat) (s : Sub) (cn : Conn) : State :=
  { st with subs := st.subs.set k s, conns := st.conns.set s.conn cn }

def putConn (st : State) (c : Nat) (cn : Conn) : State :=
  { st with conns := st.conns.set c cn }

/-- does the subscription hold a permit of its connection? -/
def Sub.holds (s : Sub) : Bool := s.phase == .pending || s.clones > 0

/-- Methods registered with `register_subscription_raw` (rpc_module.rs:924-976; harness: method
index ≥ 2): the callback is called synchronously, there is no handler future and no task that would
send a closing notification — the return value is discarded.  Modelled as "handler and task already
finished" from the start. -/
def rawMeth (m : Nat) : Bool := m ≥ 2

def doSubscribe (st : State) (c m rid sid : Nat) : State × Out :=
  match st.conns[c]? with
  | none => (st, .bad)
  | some cn =>
    if !cn.isOpen || cn.stopping then (st, .ignored)
    else if cn.permitsFree == 0 then
      if cn.hasRoom then (putConn st c (cn.push (.err rid tooManyCode)), .refused) else (st, .blocked)
    else
      ({ conns := st.conns.set c { cn with permitsFree := cn.permitsFree - 1 },
         subs := st.subs ++ [{ conn := c, meth := m, subId := sid, reqId := rid,
                               handlerDone := rawMeth m, taskDone := rawMeth m }] }, .pending sid)

/-- the key of the method's `Subscribers` table: (connection id, subscription id) -/
def sameKey (c m x : Nat) (s : Sub) : Bool := s.conn == c && s.meth == m && s.subId == x

/-- `HashMap::insert` under an occupied key drops the previous value — the previous owner's liveness
receiver — so the previous owner sees itself unsubscribed (subscription.rs `accept`: `insert`) -/
def displace (c m x : Nat) (s : Sub) : Sub :=
  if sameKey c m x s && s.inTable then { s with inTable := false, displaced := true } else s

def doAccept (st : State) (k : Nat) : State × Out :=
  match lookup st k with
  | none => (st, .bad)
  | some (s, cn) =>
    if s.phase != .pending then (st, .bad)
    else if !cn.isOpen then
      (put st k { s with phase := .acceptFailed, taskDone := true } cn.release, .err)
    else if !cn.hasRoom then (st, .blocked)
    else if s.callDead then
      -- subscription.rs accept(): the response is queued (`inner.send` succeeds), handing it to the
      -- cancelled call fails (`subscribe.send` → Err): accept returns Err, the pending sink is dropped,
      -- its permit released — no table entry, no sink
      (put st k { s with phase := .acceptFailed, taskDone := true }
        (cn.push (.respDead s.reqId s.subId)).release, .err)
    else
      (put { st with subs := st.subs.map (displace s.conn s.meth s.subId) } k
        { s with phase := .accepted, clones := 1, inTable := true } (cn.push (.resp s.reqId s.subId)), .ok)

/-- does refusing a pending subscription put an error response on the queue?  `reject` writes it
itself; for a sink dropped without decision the per-message task of the call does — unless the call
was cancelled -/
def refuseWrites (s : Sub) (cn : Conn) (ph : Phase) : Bool :=
  cn.isOpen && !(ph == .dropped && s.callDead)

/-- The future of the subscribe call is dropped (per-call timeout of a middleware, cancelled
in-process call) while the pending sink is still alive somewhere (`register_subscription_raw`
handlers that spawned their own task; sinks handed to other tasks). -/
def doCancelCall (st : State) (k : Nat) : State × Out :=
  match lookup st k with
  | none => (st, .bad)
  | some (s, cn) =>
    if s.phase != .pending || s.callDead then (st, .bad)
    -- with the call gone the `accepted` signal can never arrive: the task spawned by the subscribe
    -- callback ends and cancels the handler future with it (rpc_module.rs:836-840)
    else (put st k { s with callDead := true, taskDone := true } cn, .done)

/-- `reject` and "dropped without accept/reject" differ only in the error code and final phase -/
def doRefuse (st : State) (k : Nat) (code : Int) (ph : Phase) : State × Out :=
  match lookup st k with
  | none => (st, .bad)
  | some (s, cn) =>
    if s.phase != .pending then (st, .bad)
    else if refuseWrites s cn ph && !cn.hasRoom then (st, .blocked)
    else
      (put st k { s with phase := ph, taskDone := true }
        (if refuseWrites s cn ph then (cn.push (.err s.reqId code)).release else cn.release), .done)

def doSend (st : State) (k p : Nat) : State × Out :=
  match lookup st k with
  | none => (st, .bad)
  | some (s, cn) =>
    if s.clones == 0 then (st, .nosink)
    else if !cn.isOpen || !s.inTable then (st, .err)
    else if !cn.hasRoom then (st, .blocked)
    else (put st k { s with produced := s.produced ++ [p] } (cn.push (.data s.meth s.subId p)), .ok)

/-- The completion of a send that was parked on a full queue (`tx.send(..).await` inside
`SubscriptionSink::send` after the closed check had passed): the frame is enqueued when room
appears — whatever happened to the table entry meanwhile, the send *started before* — or the send
fails because the connection's queue was closed while it waited. -/
def doSendResume (st : State) (k p : Nat) : State × Out :=
  match lookup st k with
  | none => (st, .bad)
  | some (s, cn) =>
    if s.clones == 0 then (st, .nosink)
    else if !cn.isOpen then (st, .err)
    else if !cn.hasRoom then (st, .blocked)
    else (put st k { s with produced := s.produced ++ [p] } (cn.push (.data s.meth s.subId p)), .ok)

def doClone (st : State) (k : Nat) : State × Out :=
  match lookup st k with
  | none => (st, .bad)
  | some (s, cn) =>
    if s.clones == 0 then (st, .nosink)
    else (put st k { s with clones := s.clones + 1 } cn, .ok)

/-- Drop of one sink handle.  The guard shared by the handles consults ITS OWN liveness flag
(`!self.unsubscribe.is_unsubscribed()` ⇔ this record's `inTable`): it removes the entry under its key
only while that entry is still its own.  Only record `k` changes — an entry under the same
(connection, id) key that belongs to a newer subscription (id re-used after an unsubscribe) is
never touched, however late the old handler lets go of its sink. -/
def doDropSink (st : State) (k : Nat) : State × Out :=
  match lookup st k with
  | none => (st, .bad)
  | some (s, cn) =>
    if s.clones == 0 then (st, .nosink)
    else
      let removes := s.inTable && dropSinkRemovesEntry s.clones
      (put st k { s with clones := s.clones - 1,
                         inTable := s.inTable && !removes,
                         orphaned := s.orphaned || (removes && decide (s.clones > 1)) }
        (if s.clones == 1 then cn.release else cn), .ok)

def doIsClosed (st : State) (k : Nat) : State × Out :=
  match lookup st k with
  | none => (st, .bad)
  | some (s, cn) =>
    if s.clones == 0 then (st, .nosink)
    else (st, .bool (!cn.isOpen || !s.inTable))

def doReturn (st : State) (k : Nat) (r : Ret) : State × Out :=
  match lookup st k with
  | none => (st, .bad)
  | some (s, cn) =>
    if s.handlerDone || s.taskDone then (st, .gone)
    else (put st k { s with handlerDone := true, ret := r } cn, .done)

def closeFrame (s : Sub) : Option Frame :=
  match s.ret with
  | .none => none
  | .notif p => some (.closeOk s.meth s.subId p)
  | .err e => some (.closeErr s.meth s.subId e)

/-- the task spawned by the subscribe callback, once both the handler has returned and the
subscription was accepted (rpc_module.rs:834-853) -/
def doTask (st : State) (k : Nat) : State × Out :=
  match lookup st k with
  | none => (st, .bad)
  | some (s, cn) =>
    if s.phase != .accepted || !s.handlerDone || s.taskDone then (st, .idle)
    else
      match closeFrame s with
      | none => (put st k { s with taskDone := true } cn, .done)
      | some f =>
        if !cn.isOpen then (put st k { s with taskDone := true } cn, .done)
        else if !cn.hasRoom then (st, .blocked)
        else (put st k { s with taskDone := true, closeSent := true } (cn.push f), .done)

def findIdx (p : Sub → Bool) : List Sub → Option Nat
  | [] => none
  | s :: r => if p s then some 0 else (findIdx p r).map (· + 1)

def tableKey (c m x : Nat) (s : Sub) : Bool := sameKey c m x s && s.inTable

def doUnsubscribe (st : State) (c m x rid : Nat) : State × Out :=
  match st.conns[c]? with
  | none => (st, .bad)
  | some cn =>
    if !cn.isOpen || cn.stopping then (st, .ignored)
    else if !cn.hasRoom then (st, .blocked)
    else
      match findIdx (tableKey c m x) st.subs with
      | none => (putConn st c (cn.push (.unsub rid false)), .bool false)
      | some k =>
        match st.subs[k]? with
        | none => (st, .bad)
        | some s =>
          -- `s.conn = c` by the key, so `put` writes the entry and connection `c`
          (put st k { s with inTable := false, unsubscribed := true } (cn.push (.unsub rid true)), .bool true)

/-- An unsubscribe call whose parameter is not a subscription id — not exactly one element, or an
object / array / bool / null / float / negative number / number ≥ 2^64
(`params.one::<SubscriptionId>()` fails, rpc_module.rs:1000-1014): answered `false` without any
lookup. -/
def doUnsubscribeBad (st : State) (c rid : Nat) : State × Out :=
  match st.conns[c]? with
  | none => (st, .bad)
  | some cn =>
    if !cn.isOpen || cn.stopping then (st, .ignored)
    else if !cn.hasRoom then (st, .blocked)
    else (putConn st c (cn.push (.unsub rid false)), .bool false)

def doConnClose (st : State) (c : Nat) : State × Out :=
  match st.conns[c]? with
  | none => (st, .bad)
  | some cn => (putConn st c { cn with isOpen := false }, .done)

def doStop (st : State) : State × Out :=
  ({ st with conns := st.conns.map (fun cn => { cn with stopping := true }) }, .done)

def hasPendingCall (st : State) (c : Nat) : Bool :=
  st.subs.any (fun s => s.conn == c && s.phase == .pending && !s.callDead)

def doConnFinish (st : State) (c : Nat) : State × Out :=
  match st.conns[c]? with
  | none => (st, .bad)
  | some cn =>
    if cn.isOpen && cn.stopping && !hasPendingCall st c then (putConn st c { cn with isOpen := false }, .done)
    else (st, .idle)

def doWriter (st : State) (c : Nat) : State × Out :=
  match st.conns[c]? with
  | none => (st, .bad)
  | some cn =>
    if !cn.isOpen then (st, .empty)
    else
      match cn.queue with
      | [] => (st, .empty)
      | f :: q => (putConn st c { cn with queue := q, wire := cn.wire ++ [f] }, .frame f)

def step (st : State) : Op → State × Out
  | .subscribe c m rid sid => doSubscribe st c m rid sid
  | .cancelCall k => doCancelCall st k
  | .accept k => doAccept st k
  | .reject k code => doRefuse st k code .rejected
  | .dropPending k => doRefuse st k internalCode .dropped
  | .send k p => doSend st k p
  | .sendResume k p => doSendResume st k p
  | .cloneSink k => doClone st k
  | .dropSink k => doDropSink st k
  | .isClosed k => doIsClosed st k
  | .handlerReturn k r => doReturn st k r
  | .taskStep k => doTask st k
  | .unsubscribe c m x rid => doUnsubscribe st c m x rid
  | .unsubscribeBad c rid => doUnsubscribeBad st c rid
  | .connClose c => doConnClose st c
  | .stop => doStop st
  | .connFinish c => doConnFinish st c
  | .writerStep c => doWriter st c

def run (st : State) : List Op → State
  | [] => st
  | op :: r => run (step st op).1 r

/-- outputs of a run, in order -/
def outs (st : State) : List Op → List Out
  | [] => []
  | op :: r => (step st op).2 :: outs (step st op).1 r

end Jrpc.SubServer
