/-
  F1 — JSON text layer, part 1: characters, whitespace, strings, numbers, literals.

  Text is a list of Unicode code points as `Nat` (see DESIGN.md §4).  Everything here is total,
  computable and import-free so that the driver links as a `lean_exe`.

  What is mirrored (serde_json 1.0.x, `StrRead`/`SliceRead`):
    * `ignore_str`      (raw capture / `IgnoredAny`)           -> `skipStr`
    * `ignore_integer`, `ignore_decimal`, `ignore_exponent`     -> `skipNumber`
    * `parse_ident`                                            -> `matchLit`
    * `parse_whitespace`                                       -> `skipWs`
-/
namespace Jrpc

abbrev Text := List Nat

/-- RFC 8259 whitespace: space, tab, LF, CR (what serde_json skips). -/
def isJsonWs (c : Nat) : Bool := c == 32 || c == 9 || c == 10 || c == 13

/-- Rust `u8::is_ascii_whitespace`: JSON whitespace + form feed. -/
def isAsciiWs (c : Nat) : Bool := isJsonWs c || c == 12

/-- Rust `char::is_whitespace` (Unicode `White_Space`), used by `str::trim*`. -/
def isRustWs (c : Nat) : Bool :=
  (9 ≤ c && c ≤ 13) || c == 32 || c == 133 || c == 160 || c == 5760 ||
  (8192 ≤ c && c ≤ 8202) || c == 8232 || c == 8233 || c == 8239 || c == 8287 || c == 12288

def skipWs : Text → Text
  | [] => []
  | c :: t => if isJsonWs c then skipWs t else c :: t

/-- `str::trim_start`. -/
def trimStart : Text → Text
  | [] => []
  | c :: t => if isRustWs c then trimStart t else c :: t

/-- `str::trim_end`. -/
def trimEnd (t : Text) : Text := (trimStart t.reverse).reverse

/-- `str::trim`. -/
def trim (t : Text) : Text := trimEnd (trimStart t)

def isDigit (c : Nat) : Bool := 48 ≤ c && c ≤ 57
def isHex (c : Nat) : Bool := isDigit c || (65 ≤ c && c ≤ 70) || (97 ≤ c && c ≤ 102)

/-- one-character escapes after a backslash: `" \ / b f n r t` -/
def isSimpleEsc (c : Nat) : Bool :=
  c == 34 || c == 92 || c == 47 || c == 98 || c == 102 || c == 110 || c == 114 || c == 116

/-- Skip a string body; the opening quote has been consumed.  Returns the text after the closing
quote.  Rejects raw control characters and malformed escapes; `\uXXXX` only needs four hex digits
(surrogates are *not* validated in skip mode — serde_json `ignore_escape`). -/
def skipStr : Text → Option Text
  | [] => none
  | c :: r =>
    if c == 34 then some r
    else if c == 92 then
      match r with
      | [] => none
      | e :: r1 =>
        if e == 117 then
          match r1 with
          | a :: b :: c4 :: d :: r2 =>
            if isHex a && isHex b && isHex c4 && isHex d then skipStr r2 else none
          | _ => none
        else if isSimpleEsc e then skipStr r1 else none
    else if c < 32 then none
    else skipStr r

def skipDigits : Text → Text
  | [] => []
  | c :: t => if isDigit c then skipDigits t else c :: t

/-- optional `+`/`-` -/
def skipSign : Text → Text
  | [] => []
  | c :: r => if c == 43 || c == 45 then r else c :: r

/-- one or more digits -/
def skipDigits1 : Text → Option Text
  | [] => none
  | c :: r => if isDigit c then some (skipDigits r) else none

/-- exponent part; the `e`/`E` has been consumed -/
def skipExponent (t : Text) : Option Text := skipDigits1 (skipSign t)

/-- optional exponent -/
def skipExpOpt : Text → Option Text
  | [] => some []
  | c :: r => if c == 101 || c == 69 then skipExponent r else some (c :: r)

/-- after the integer part: optional fraction, optional exponent -/
def skipFracExp : Text → Option Text
  | [] => some []
  | c :: r =>
    if c == 46 then
      match skipDigits1 r with
      | none => none
      | some r1 => skipExpOpt r1
    else skipExpOpt (c :: r)

/-- integer part without sign -/
def skipInteger (t : Text) : Option Text :=
  match t with
  | c :: r =>
    if c == 48 then
      match r with
      | d :: _ => if isDigit d then none else skipFracExp r
      | [] => some []
    else if isDigit c then skipFracExp (skipDigits r)
    else none
  | [] => none

/-- a JSON number starting at the head of the text -/
def skipNumber (t : Text) : Option Text :=
  match t with
  | c :: r => if c == 45 then skipInteger r else skipInteger t
  | [] => none

/-- match an exact continuation (the rest of `true`/`false`/`null`) -/
def matchLit : Text → Text → Option Text
  | [], t => some t
  | _ :: _, [] => none
  | a :: as, c :: t => if a == c then matchLit as t else none

end Jrpc
