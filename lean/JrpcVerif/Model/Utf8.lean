/-
  UTF-8 at the byte level: text (code points) <-> bytes.  Used by the line protocol of the driver
  and by the byte-level model of `read_body` (Model/ReadBodyBytes.lean).
-/
import JrpcVerif.Model.JsonText
namespace Jrpc

abbrev Bytes := List Nat

def utf8EncodeChar (c : Nat) : Bytes :=
  if c < 0x80 then [c]
  else if c < 0x800 then [0xC0 + c / 64, 0x80 + c % 64]
  else if c < 0x10000 then [0xE0 + c / 4096, 0x80 + (c / 64) % 64, 0x80 + c % 64]
  else [0xF0 + c / 262144, 0x80 + (c / 4096) % 64, 0x80 + (c / 64) % 64, 0x80 + c % 64]

def utf8Encode : Text → Bytes
  | [] => []
  | c :: r => utf8EncodeChar c ++ utf8Encode r

/-- UTF-8 decoding of a byte list into code points (overlong forms / surrogates are not
re-validated here: the harness only sends text that Rust already accepted as `str`) -/
def utf8Decode : Bytes → Option Text
  | [] => some []
  | b :: r =>
    if b < 0x80 then (utf8Decode r).map (b :: ·)
    else if b < 0xC0 then none
    else if b < 0xE0 then
      match r with
      | b1 :: r1 => (utf8Decode r1).map (((b - 0xC0) * 64 + (b1 - 0x80)) :: ·)
      | _ => none
    else if b < 0xF0 then
      match r with
      | b1 :: b2 :: r2 => (utf8Decode r2).map (((b - 0xE0) * 4096 + (b1 - 0x80) * 64 + (b2 - 0x80)) :: ·)
      | _ => none
    else
      match r with
      | b1 :: b2 :: b3 :: r3 =>
        (utf8Decode r3).map (((b - 0xF0) * 262144 + (b1 - 0x80) * 4096 + (b2 - 0x80) * 64 + (b3 - 0x80)) :: ·)
      | _ => none

end Jrpc
