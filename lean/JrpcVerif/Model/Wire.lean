/-
  Wire types (jsonrpsee-types): Id, SubscriptionId, Request, Notification, InvalidRequest,
  ErrorObject, Response — encoders exactly as serde emits them, decoders by the
  *derive-visitor rule* (DESIGN §5/F1) and the transcribed hand-written `Response` visitor
  (types/src/response.rs:206-350).
-/
import JrpcVerif.Model.JsonText
namespace Jrpc

inductive Id where
  | null
  | num (n : Nat)
  | str (s : Text)
  deriving DecidableEq, Repr, BEq

inductive SubId where
  | num (n : Nat)
  | str (s : Text)
  deriving DecidableEq, Repr, BEq

def tNull : Text := [110, 117, 108, 108]
def tTrue : Text := [116, 114, 117, 101]
def tFalse : Text := [102, 97, 108, 115, 101]

/-! ### ids -/

/-- untagged `Id`: first of Null / u64 / string that fits (types/src/params.rs:340-352) -/
def decodeId (raw : Text) : Option Id :=
  if raw == tNull then some .null
  else match decodeU64 raw with
    | some n => some (.num n)
    | none => match decodeString raw with
      | some s => some (.str s)
      | none => none

def encodeId : Id → Text
  | .null => tNull
  | .num n => encodeNat n
  | .str s => encodeString s

def decodeSubId (raw : Text) : Option SubId :=
  match decodeU64 raw with
  | some n => some (.num n)
  | none => match decodeString raw with
    | some s => some (.str s)
    | none => none

def encodeSubId : SubId → Text
  | .num n => encodeNat n
  | .str s => encodeString s

/-! ### the derive-visitor rule -/

def lookupField (k : Text) : List (Text × Text) → Option Text
  | [] => none
  | (k', v) :: r => if k == k' then some v else lookupField k r

def countField (k : Text) : List (Text × Text) → Nat
  | [] => 0
  | (k', _) :: r => (if k == k' then 1 else 0) + countField k r

/-- decode every key (serde always runs `parse_str` on keys, so a bad escape in *any* key rejects) -/
def decodeKeys : List (Text × Text) → Option (List (Text × Text))
  | [] => some []
  | (k, v) :: r =>
    match decodeStrBody k with
    | none => none
    | some k' => match decodeKeys r with
      | none => none
      | some r' => some ((k', v) :: r')

/-- The raw slices of the `known` fields of a struct given either as a JSON object (by name:
duplicate known key ⇒ reject, unknown key ⇒ reject iff `deny`) or as a JSON array (positional,
exactly `known.length` elements).  `none` = reject. -/
def structFields (known : List Text) (deny : Bool) (raw : Text) : Option (List (Option Text)) :=
  match members raw with
  | some ms =>
    match decodeKeys ms with
    | none => none
    | some dms =>
      if known.any (fun k => countField k dms > 1) then none
      else if deny && dms.any (fun kv => !(known.contains kv.1)) then none
      else some (known.map (fun k => lookupField k dms))
  | none =>
    match elements raw with
    | some es => if es.length == known.length then some (es.map some) else none
    | none => none

def kJsonrpc : Text := [106, 115, 111, 110, 114, 112, 99]
def kId : Text := [105, 100]
def kMethod : Text := [109, 101, 116, 104, 111, 100]
def kParams : Text := [112, 97, 114, 97, 109, 115]
def kResult : Text := [114, 101, 115, 117, 108, 116]
def kError : Text := [101, 114, 114, 111, 114]
def kCode : Text := [99, 111, 100, 101]
def kMessage : Text := [109, 101, 115, 115, 97, 103, 101]
def kData : Text := [100, 97, 116, 97]
def kSubscription : Text := [115, 117, 98, 115, 99, 114, 105, 112, 116, 105, 111, 110]
def tTwoZero : Text := [50, 46, 48]

/-- `TwoPointZero`: a JSON string whose decoded value is `2.0` -/
def isTwoPointZero (raw : Text) : Bool :=
  match decodeString raw with
  | some s => s == tTwoZero
  | none => false

/-- `Option<RawValue>`-typed field: absent or `null` ⇒ none -/
def optRaw (f : Option Text) : Option Text :=
  match f with
  | none => none
  | some r => if r == tNull then none else some r

/-! The member-name lists of the derived serde structs.  `abbrev`s: they are tied to the source by
Theorems/WireFieldsTie.lean (= the tables the translator regenerates in Gen/WireFields.lean). -/
abbrev requestKnown : List Text := [kJsonrpc, kId, kMethod, kParams]
abbrev notifKnown : List Text := [kJsonrpc, kMethod, kParams]
abbrev invalidRequestKnown : List Text := [kId]
abbrev errObjKnown : List Text := [kCode, kMessage, kData]
/-- `deny_unknown_fields`: only on `ErrorObject` -/
abbrev requestDeny : Bool := false
abbrev notifDeny : Bool := false
abbrev invalidRequestDeny : Bool := false
abbrev errObjDeny : Bool := true
/-- the names the hand-written `Response` field visitor recognises -/
abbrev responseKnown : List Text := [kJsonrpc, kResult, kError, kId]

structure Request where
  id : Id
  method : Text
  params : Option Text
  deriving DecidableEq, Repr

/-- `serde_json::from_str::<Request>` (types/src/request.rs:41-59) -/
def decodeRequest (raw : Text) : Option Request :=
  match structFields requestKnown requestDeny raw with
  | some [some j, some i, some m, p] =>
    if !isTwoPointZero j then none else
    match decodeId i, decodeString m with
    | some id, some meth => some { id := id, method := meth, params := optRaw p }
    | _, _ => none
  | _ => none

structure Notif where
  method : Text
  params : Option Text
  deriving DecidableEq, Repr

/-- `Notification<'a, Option<&RawValue>>` (types/src/request.rs:121-133) -/
def decodeNotif (raw : Text) : Option Notif :=
  match structFields notifKnown notifDeny raw with
  | some [some j, some m, p] =>
    if !isTwoPointZero j then none else
    match decodeString m with
    | some meth => some { method := meth, params := optRaw p }
    | none => none
  | _ => none

/-- `InvalidRequest` (types/src/request.rs:112-117): only the id -/
def decodeInvalidRequest (raw : Text) : Option Id :=
  match structFields invalidRequestKnown invalidRequestDeny raw with
  | some [some i] => decodeId i
  | _ => none

structure ErrObj where
  code : Int
  message : Text
  data : Option Text
  deriving DecidableEq, Repr

/-- `ErrorObject` (types/src/error.rs:41-51), `deny_unknown_fields` -/
def decodeErrObj (raw : Text) : Option ErrObj :=
  match structFields errObjKnown errObjDeny raw with
  | some [some c, some m, d] =>
    match decodeI32 c, decodeString m with
    | some code, some msg => some { code := code, message := msg, data := optRaw d }
    | _, _ => none
  | _ => none

inductive Payload where
  | result (raw : Text)
  | error (e : ErrObj)
  deriving DecidableEq, Repr

structure Response where
  jsonrpc : Bool          -- `Some(TwoPointZero)` present
  id : Id
  payload : Payload
  deriving DecidableEq, Repr

/-- the decision of the hand-written `Response` visitor (types/src/response.rs:206-350) as a function
of what it has seen: how often each of the four known names occurred and the first value of each -/
def respCore (cj cr ce ci : Nat) (j r e i : Option Text) : Option Response :=
  if cj > 1 || cr > 1 || ce > 1 || ci > 1 then none else
  -- jsonrpc : Option<TwoPointZero>
  let jOk : Option Bool := match j with
    | none => some false
    | some jr => if jr == tNull then some false else if isTwoPointZero jr then some true else none
  match jOk, i with
  | some jv, some ir =>
    match decodeId ir with
    | none => none
    | some id =>
      match r, e with
      | some _, some _ => none
      | some rr, none => some { jsonrpc := jv, id := id, payload := .result rr }
      | none, some er =>
        match decodeErrObj er with
        | some eo => some { jsonrpc := jv, id := id, payload := .error eo }
        | none => none
      | none, none => none
  | _, _ => none

/-- the visitor on the member list (keys decoded, duplicates kept, in order) -/
def respOfMembers (dms : List (Text × Text)) : Option Response :=
  respCore (countField kJsonrpc dms) (countField kResult dms) (countField kError dms) (countField kId dms)
    (lookupField kJsonrpc dms) (lookupField kResult dms) (lookupField kError dms) (lookupField kId dms)

/-- `serde_json::from_str::<Response<&RawValue>>`; a JSON array is accepted positionally only by
*derived* visitors, not by this hand-written one -/
def decodeResponse (raw : Text) : Option Response :=
  match members raw with
  | none => none
  | some ms =>
    match decodeKeys ms with
    | none => none
    | some dms => respOfMembers dms

/-! ### encoders (serde field order), built with `joinMembers` (the dual of `members`) -/

def lit (s : String) : Text := s.toList.map Char.toNat

/-- `{ "k1":v1, … }` without any whitespace, keys escaped as serde_json does -/
def objectText (kvs : List (Text × Text)) : Text := 123 :: (joinMembers kvs ++ [125])

def errObjMembers (e : ErrObj) : List (Text × Text) :=
  [(kCode, encodeInt e.code), (kMessage, encodeString e.message)] ++
    (match e.data with
     | some d => [(kData, d)]
     | none => [])

def encodeErrObj (e : ErrObj) : Text := objectText (errObjMembers e)

def responseMembers (r : Response) : List (Text × Text) :=
  (if r.jsonrpc then [(kJsonrpc, encodeString tTwoZero)] else []) ++
    [(kId, encodeId r.id),
     (match r.payload with
      | .result v => (kResult, v)
      | .error e => (kError, encodeErrObj e))]

def encodeResponse (r : Response) : Text := objectText (responseMembers r)

def requestMembers (r : Request) : List (Text × Text) :=
  [(kJsonrpc, encodeString tTwoZero), (kId, encodeId r.id), (kMethod, encodeString r.method)] ++
    (match r.params with
     | some p => [(kParams, p)]
     | none => [])

def encodeRequest (r : Request) : Text := objectText (requestMembers r)

/-- `Notification<Option<RawValue>>` serialises `params: null` when absent (no skip attribute) -/
def encodeNotif (n : Notif) : Text :=
  objectText [(kJsonrpc, encodeString tTwoZero), (kMethod, encodeString n.method),
    (kParams, match n.params with | some p => p | none => tNull)]

end Jrpc
