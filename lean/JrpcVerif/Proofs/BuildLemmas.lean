/-
  Lemmas for C20 (params builders): buffer contents after any insert sequence, `build`, and that the
  declarative splitters recover exactly the inserted texts.
-/
import JrpcVerif.Model.ParamsBuild
import JrpcVerif.Proofs.StableLemmas
namespace Jrpc

/-- `v1,v2,…,vn,` — what the builder's buffer holds after its start character -/
def commaCat : List Text → Text
  | [] => []
  | v :: vs => v ++ 44 :: commaCat vs

theorem commaCat_eq_join (vs : List Text) (h : vs ≠ []) : commaCat vs = joinElems vs ++ [44] := by
  induction vs with
  | nil => exact absurd rfl h
  | cons v vs ih =>
    cases vs with
    | nil => simp [commaCat, joinElems]
    | cons v2 vs' =>
      have := ih (by simp)
      simp [commaCat, joinElems] at this ⊢
      exact this

theorem init_bytes_ne (b : Builder) : b.init.bytes ≠ [] := by
  unfold Builder.init
  split <;> simp_all

theorem init_of_ne (b : Builder) (h : b.bytes ≠ []) : b.init = b := by
  unfold Builder.init
  cases hb : b.bytes with
  | nil => exact absurd hb h
  | cons c r => simp

/-- **C20.2** — an insert whose serialisation fails leaves the buffer exactly as it was after
`maybe_initialize` and reports the failure -/
theorem insert_fails (b : Builder) (e : Text) : b.insert (.fails e) = (b.init, false) := by
  simp [Builder.insert]

theorem insertNamed_fails (b : Builder) (k e : Text) : b.insertNamed k (.fails e) = (b.init, false) := by
  simp only [Builder.insertNamed]
  have : (b.init.bytes ++ encodeString k ++ [58] ++ e) = b.init.bytes ++ (encodeString k ++ [58] ++ e) := by simp
  rw [this, List.take_left']
  rfl

/-- buffer contents after any sequence of positional inserts into an initialised builder -/
theorem insertAll_bytes (ops : List Ser) : ∀ (b : Builder), b.bytes ≠ [] →
    (b.insertAll ops).bytes = b.bytes ++ commaCat (okTexts ops) ∧
    (b.insertAll ops).start = b.start ∧ (b.insertAll ops).stop = b.stop := by
  induction ops with
  | nil => intro b _; simp [Builder.insertAll, okTexts, commaCat]
  | cons v vs ih =>
    intro b hb
    cases v with
    | ok t =>
      have h1 : (b.insert (.ok t)).1 = { b with bytes := b.bytes ++ t ++ [44] } := by
        simp [Builder.insert, init_of_ne b hb]
      have := ih { b with bytes := b.bytes ++ t ++ [44] } (by simp)
      simp only [Builder.insertAll, h1, okTexts, commaCat]
      refine ⟨?_, this.2.1, this.2.2⟩
      rw [this.1]; simp
    | fails e =>
      have h1 : (b.insert (.fails e)).1 = b := by simp [insert_fails, init_of_ne b hb]
      simp only [Builder.insertAll, h1, okTexts]
      exact ih b hb

theorem insertAll_positional (ops : List Ser) (h : ops ≠ []) :
    (Builder.positional.insertAll ops).bytes = 91 :: commaCat (okTexts ops) ∧
    (Builder.positional.insertAll ops).stop = 93 := by
  cases ops with
  | nil => exact absurd rfl h
  | cons v vs =>
    have hi : Builder.positional.init = ⟨[91], 91, 93⟩ := by decide
    cases v with
    | ok t =>
      have h1 : (Builder.positional.insert (.ok t)).1 = ⟨[91] ++ t ++ [44], 91, 93⟩ := by
        simp [Builder.insert, hi]
      have := insertAll_bytes vs ⟨[91] ++ t ++ [44], 91, 93⟩ (by simp)
      simp only [Builder.insertAll, h1, okTexts, commaCat]
      exact ⟨by rw [this.1]; simp, this.2.2⟩
    | fails e =>
      have h1 : (Builder.positional.insert (.fails e)).1 = ⟨[91], 91, 93⟩ := by
        simp [insert_fails, hi]
      have := insertAll_bytes vs ⟨[91], 91, 93⟩ (by simp)
      simp only [Builder.insertAll, h1, okTexts]
      exact ⟨by rw [this.1]; simp, this.2.2⟩

/-- what `build` returns for a buffer `[v1,v2,…,` / `[` -/
theorem build_of_bytes (b : Builder) (c : Nat) (vs : List Text) (hb : b.bytes = c :: commaCat vs) (hc : c ≠ 44) :
    b.build = some (c :: joinElems vs ++ [b.stop]) := by
  cases vs with
  | nil =>
    simp [commaCat] at hb
    simp [Builder.build, hb, joinElems, hc]
  | cons v vs' =>
    rw [commaCat_eq_join _ (by simp)] at hb
    have : b.bytes.reverse = 44 :: (c :: joinElems (v :: vs')).reverse := by
      rw [hb]; simp
    simp [Builder.build, this]

theorem elements_join (vs : List Text) (hst : ∀ v ∈ vs, Stable v) :
    elements (91 :: joinElems vs ++ [93]) = some vs := by
  unfold elements elementsF
  have h91 : skipWs (91 :: joinElems vs ++ [93]) = 91 :: joinElems vs ++ [93] := by
    simp [skipWs, isJsonWs]
  rw [h91]
  simp only [List.cons_append, bne_self_eq_false, Bool.false_eq_true, ↓reduceIte]
  cases vs with
  | nil => simp [joinElems, skipWs, isJsonWs]
  | cons v vs' =>
    have hv := hst v (by simp)
    obtain ⟨d, v', hvd, hrw, hjw⟩ := stable_head hv
    have hj : ∃ rest2, joinElems (v :: vs') = v ++ rest2 := by
      cases vs' with
      | nil => exact ⟨[], by simp [joinElems]⟩
      | cons v3 vs'' => exact ⟨44 :: joinElems (v3 :: vs''), by simp [joinElems]⟩
    obtain ⟨rest2, hj⟩ := hj
    have hws : skipWs (joinElems (v :: vs') ++ [93]) = joinElems (v :: vs') ++ [93] := by
      rw [hj, List.append_assoc]; exact skipWs_stable hv _
    rw [hws]
    have hd93 : d ≠ 93 := by
      obtain ⟨f, hf⟩ := hv
      have := hf [] trivial
      rw [hvd] at this; simp at this
      exact (valueStart_not_rustWs d (skipValue_head _ _ _ _ this)).2.1
    have hshape : joinElems (v :: vs') ++ [93] = d :: (v' ++ rest2 ++ [93]) := by
      rw [hj, hvd]; simp
    rw [hshape]
    simp only [beq_iff_eq, hd93, ↓reduceIte]
    rw [← hshape]
    have := elemsLoop_join (v :: vs') (by simp) hst (fuelFor (91 :: (joinElems (v :: vs') ++ [93])))
      (fuelFor (91 :: (joinElems (v :: vs') ++ [93]))) [] ?_ ?_
    · simp [this, skipWs]
    · -- number of elements ≤ fuel
      simp only [fuelFor, List.length_cons, List.length_append, List.length_nil]
      have hl : ∀ (ws : List Text), (∀ w ∈ ws, Stable w) → ws.length ≤ (joinElems ws).length + 1 := by
        intro ws
        induction ws with
        | nil => intro _; simp
        | cons w ws ih =>
          intro hws
          cases ws with
          | nil => simp [joinElems]
          | cons w2 ws' =>
            have := ih (fun x hx => hws x (by simp at hx ⊢; right; exact hx))
            have hne := stable_nonempty (hws w (by simp))
            have : 0 < w.length := List.length_pos_iff.mpr hne
            simp [joinElems] at *; omega
      have := hl (v :: vs') hst
      simp at this ⊢; omega
    · simp [fuelFor]; omega



theorem splitKey_member (k v rest : Text) (hv : Stable v) :
    splitKey (memberText (k, v) ++ rest) = some (encodeStrBody k, v ++ rest) := by
  have hshape : memberText (k, v) ++ rest = 34 :: (encodeStrBody k ++ 34 :: 58 :: (v ++ rest)) := by
    simp [memberText, encodeString]
  rw [hshape]
  unfold splitKey
  simp only [bne_self_eq_false, Bool.false_eq_true, ↓reduceIte]
  rw [skipStr_encodeStrBody k (58 :: (v ++ rest))]
  have hws : skipWs (58 :: (v ++ rest)) = 58 :: (v ++ rest) := by simp [skipWs, isJsonWs]
  simp only [hws, bne_self_eq_false, Bool.false_eq_true, ↓reduceIte]
  have htake : List.take ((encodeStrBody k ++ 34 :: 58 :: (v ++ rest)).length - (58 :: (v ++ rest)).length)
      (encodeStrBody k ++ 34 :: 58 :: (v ++ rest)) = encodeStrBody k ++ [34] := by
    have h1 : (encodeStrBody k ++ 34 :: 58 :: (v ++ rest)) = (encodeStrBody k ++ [34]) ++ (58 :: (v ++ rest)) := by simp
    have h2 : (encodeStrBody k ++ 34 :: 58 :: (v ++ rest)).length - (58 :: (v ++ rest)).length = (encodeStrBody k ++ [34]).length := by
      simp; omega
    rw [h2, h1, List.take_left']
    rfl
  rw [htake, skipWs_stable hv]
  simp


def rawKeys (kvs : List (Text × Text)) : List (Text × Text) := kvs.map (fun kv => (encodeStrBody kv.1, kv.2))

theorem memberText_length (kv : Text × Text) : kv.2.length + 3 ≤ (memberText kv).length := by
  simp [memberText, encodeString]

theorem membersLoop_join : ∀ (kvs : List (Text × Text)), kvs ≠ [] → (∀ kv ∈ kvs, Stable kv.2) →
    ∀ (n f : Nat) (rest : Text), kvs.length ≤ n → (joinMembers kvs).length ≤ f →
    membersLoop n f (joinMembers kvs ++ 125 :: rest) = some (rawKeys kvs, rest) := by
  intro kvs
  induction kvs with
  | nil => intro h; exact absurd rfl h
  | cons kv kvs ih =>
    intro _ hst n f rest hn hf
    obtain ⟨k, v⟩ := kv
    have hv : Stable v := hst (k, v) (by simp)
    cases n with
    | zero => simp at hn
    | succ n =>
    cases kvs with
    | nil =>
      simp only [joinMembers] at hf ⊢
      rw [membersLoop, splitKey_member k v _ hv]
      have hl := memberText_length (k, v)
      have h1 := stable_fuel hv f (by simp at hl; omega) (125 :: rest) (by simp [Delim])
      simp [splitValue, h1, consumed_append, afterItem_close 125 rest (by decide) (by decide), rawKeys]
    | cons kv2 kvs' =>
      simp only [joinMembers] at hf ⊢
      have happ : memberText (k, v) ++ 44 :: joinMembers (kv2 :: kvs') ++ 125 :: rest
          = memberText (k, v) ++ (44 :: (joinMembers (kv2 :: kvs') ++ 125 :: rest)) := by simp
      rw [happ, membersLoop, splitKey_member k v _ hv]
      have hl := memberText_length (k, v)
      have hlen : v.length ≤ f := by simp at hf hl; omega
      have h1 := stable_fuel hv f hlen (44 :: (joinMembers (kv2 :: kvs') ++ 125 :: rest)) (by simp [Delim])
      simp only [splitValue, h1, consumed_append, afterItem_comma]
      have hst' : ∀ kv ∈ kv2 :: kvs', Stable kv.2 := fun x hx => hst x (by simp at hx ⊢; right; exact hx)
      have hws : skipWs (joinMembers (kv2 :: kvs') ++ 125 :: rest) = joinMembers (kv2 :: kvs') ++ 125 :: rest := by
        have : ∃ r2, joinMembers (kv2 :: kvs') = 34 :: r2 := by
          cases kvs' with
          | nil => exact ⟨_, by simp [joinMembers, memberText, encodeString]; rfl⟩
          | cons kv3 kvs'' => exact ⟨_, by simp [joinMembers, memberText, encodeString]; rfl⟩
        obtain ⟨r2, hr2⟩ := this
        rw [hr2]; simp [skipWs, isJsonWs]
      rw [hws]
      have := ih (by simp) hst' n f rest (by simp at hn ⊢; omega) (by simp at hf; omega)
      simp [this, rawKeys]

theorem decodeKeys_rawKeys (kvs : List (Text × Text)) : decodeKeys (rawKeys kvs) = some kvs := by
  induction kvs with
  | nil => simp [rawKeys, decodeKeys]
  | cons kv kvs ih =>
    simp [rawKeys] at ih ⊢
    simp [decodeKeys, decodeStrBody_encodeStrBody, ih]



theorem joinElems_memberText (kvs : List (Text × Text)) : joinElems (kvs.map memberText) = joinMembers kvs := by
  induction kvs with
  | nil => rfl
  | cons kv kvs ih =>
    cases kvs with
    | nil => simp [joinElems, joinMembers]
    | cons kv2 kvs' => simp [joinElems, joinMembers] at ih ⊢; exact ih

theorem insertAllNamed_bytes (ops : List (Text × Ser)) : ∀ (b : Builder), b.bytes ≠ [] →
    (b.insertAllNamed ops).bytes = b.bytes ++ commaCat ((okPairs ops).map memberText) ∧
    (b.insertAllNamed ops).stop = b.stop := by
  induction ops with
  | nil => intro b _; simp [Builder.insertAllNamed, okPairs, commaCat]
  | cons kv vs ih =>
    intro b hb
    obtain ⟨k, v⟩ := kv
    cases v with
    | ok t =>
      have h1 : (b.insertNamed k (.ok t)).1 = { b with bytes := b.bytes ++ encodeString k ++ [58] ++ t ++ [44] } := by
        simp [Builder.insertNamed, init_of_ne b hb]
      have := ih { b with bytes := b.bytes ++ encodeString k ++ [58] ++ t ++ [44] } (by simp)
      simp only [Builder.insertAllNamed, h1, okPairs, commaCat, List.map_cons]
      refine ⟨?_, this.2⟩
      rw [this.1]; simp [memberText]
    | fails e =>
      have h1 : (b.insertNamed k (.fails e)).1 = b := by simp [insertNamed_fails, init_of_ne b hb]
      simp only [Builder.insertAllNamed, h1, okPairs]
      exact ih b hb

theorem insertAllNamed_named (ops : List (Text × Ser)) (h : ops ≠ []) :
    (Builder.named.insertAllNamed ops).bytes = 123 :: commaCat ((okPairs ops).map memberText) ∧
    (Builder.named.insertAllNamed ops).stop = 125 := by
  cases ops with
  | nil => exact absurd rfl h
  | cons kv vs =>
    obtain ⟨k, v⟩ := kv
    have hi : Builder.named.init = ⟨[123], 123, 125⟩ := by decide
    cases v with
    | ok t =>
      have h1 : (Builder.named.insertNamed k (.ok t)).1 = ⟨[123] ++ encodeString k ++ [58] ++ t ++ [44], 123, 125⟩ := by
        simp [Builder.insertNamed, hi]
      have := insertAllNamed_bytes vs ⟨[123] ++ encodeString k ++ [58] ++ t ++ [44], 123, 125⟩ (by simp)
      simp only [Builder.insertAllNamed, h1, okPairs, commaCat, List.map_cons]
      exact ⟨by rw [this.1]; simp [memberText], this.2⟩
    | fails e =>
      have h1 : (Builder.named.insertNamed k (.fails e)).1 = ⟨[123], 123, 125⟩ := by
        simp [insertNamed_fails, hi]
      have := insertAllNamed_bytes vs ⟨[123], 123, 125⟩ (by simp)
      simp only [Builder.insertAllNamed, h1, okPairs]
      exact ⟨by rw [this.1]; simp, this.2⟩

theorem members_join (kvs : List (Text × Text)) (hst : ∀ kv ∈ kvs, Stable kv.2) :
    members (123 :: joinMembers kvs ++ [125]) = some (rawKeys kvs) := by
  unfold members membersF
  have h123 : skipWs (123 :: joinMembers kvs ++ [125]) = 123 :: joinMembers kvs ++ [125] := by
    simp [skipWs, isJsonWs]
  rw [h123]
  simp only [List.cons_append, bne_self_eq_false, Bool.false_eq_true, ↓reduceIte]
  cases kvs with
  | nil => simp [joinMembers, skipWs, isJsonWs, rawKeys]
  | cons kv kvs' =>
    have hq : ∃ r2, joinMembers (kv :: kvs') = 34 :: r2 := by
      cases kvs' with
      | nil => exact ⟨_, by simp [joinMembers, memberText, encodeString]; rfl⟩
      | cons kv3 kvs'' => exact ⟨_, by simp [joinMembers, memberText, encodeString]; rfl⟩
    obtain ⟨r2, hr2⟩ := hq
    have hws : skipWs (joinMembers (kv :: kvs') ++ [125]) = joinMembers (kv :: kvs') ++ [125] := by
      rw [hr2]; simp [skipWs, isJsonWs]
    rw [hws]
    have hshape : joinMembers (kv :: kvs') ++ [125] = 34 :: (r2 ++ [125]) := by rw [hr2]; simp
    rw [hshape]
    have h34 : ¬ ((34 : Nat) = 125) := by decide
    simp only [beq_iff_eq, h34, ↓reduceIte]
    rw [← hshape]
    have := membersLoop_join (kv :: kvs') (by simp) hst (fuelFor (123 :: (joinMembers (kv :: kvs') ++ [125])))
      (fuelFor (123 :: (joinMembers (kv :: kvs') ++ [125]))) [] ?_ ?_
    · simp [this, skipWs]
    · simp only [fuelFor, List.length_cons, List.length_append, List.length_nil]
      have hl : ∀ (ws : List (Text × Text)), ws.length ≤ (joinMembers ws).length + 1 := by
        intro ws
        induction ws with
        | nil => simp
        | cons w ws ih =>
          cases ws with
          | nil => simp [joinMembers]
          | cons w2 ws' =>
            have h3 := memberText_length w
            simp [joinMembers] at *; omega
      have := hl (kv :: kvs')
      simp at this ⊢; omega
    · simp [fuelFor]; omega



theorem skipMembers_join : ∀ (kvs : List (Text × Text)), kvs ≠ [] → (∀ kv ∈ kvs, Stable kv.2) →
    ∀ (f : Nat) (rest : Text), (joinMembers kvs).length ≤ f →
    skipMembers f (joinMembers kvs ++ 125 :: rest) = some rest := by
  intro kvs
  induction kvs with
  | nil => intro h; exact absurd rfl h
  | cons kv kvs ih =>
    intro _ hst f rest hf
    obtain ⟨k, v⟩ := kv
    have hv : Stable v := hst (k, v) (by simp)
    have hl := memberText_length (k, v)
    cases f with
    | zero =>
      exfalso
      cases kvs with
      | nil => simp only [joinMembers] at hf; omega
      | cons kv2 kvs' => simp only [joinMembers, List.length_append, List.length_cons] at hf; omega
    | succ f =>
    cases kvs with
    | nil =>
      simp only [joinMembers] at hf ⊢
      rw [skipMembers, splitKey_member k v _ hv]
      have h1 := stable_fuel hv f (by simp at hl; omega) (125 :: rest) (by simp [Delim])
      simp [h1, afterItem_close 125 rest (by decide) (by decide)]
    | cons kv2 kvs' =>
      simp only [joinMembers] at hf ⊢
      have happ : memberText (k, v) ++ 44 :: joinMembers (kv2 :: kvs') ++ 125 :: rest
          = memberText (k, v) ++ (44 :: (joinMembers (kv2 :: kvs') ++ 125 :: rest)) := by simp
      rw [happ, skipMembers, splitKey_member k v _ hv]
      have hlen : v.length ≤ f := by simp at hf hl; omega
      have h1 := stable_fuel hv f hlen (44 :: (joinMembers (kv2 :: kvs') ++ 125 :: rest)) (by simp [Delim])
      simp only [h1, afterItem_comma]
      have hst' : ∀ kv ∈ kv2 :: kvs', Stable kv.2 := fun x hx => hst x (by simp at hx ⊢; right; exact hx)
      have hws : skipWs (joinMembers (kv2 :: kvs') ++ 125 :: rest) = joinMembers (kv2 :: kvs') ++ 125 :: rest := by
        have : ∃ r2, joinMembers (kv2 :: kvs') = 34 :: r2 := by
          cases kvs' with
          | nil => exact ⟨_, by simp [joinMembers, memberText, encodeString]; rfl⟩
          | cons kv3 kvs'' => exact ⟨_, by simp [joinMembers, memberText, encodeString]; rfl⟩
        obtain ⟨r2, hr2⟩ := this
        rw [hr2]; simp [skipWs, isJsonWs]
      rw [hws]
      exact ih (by simp) hst' f rest (by simp at hf; omega)

/-- an object text built from stable values is itself a stable value -/
theorem stable_object (kvs : List (Text × Text)) (hst : ∀ kv ∈ kvs, Stable kv.2) :
    Stable (123 :: (joinMembers kvs ++ [125])) := by
  refine ⟨(joinMembers kvs).length + 1, ?_⟩
  intro r _
  have happ : (123 :: (joinMembers kvs ++ [125])) ++ r = 123 :: (joinMembers kvs ++ 125 :: r) := by simp
  rw [happ, skipValue]
  simp only [show ((123 : Nat) == 34) = false by decide, show ((123 : Nat) == 91) = false by decide,
    beq_self_eq_true, Bool.false_eq_true, ↓reduceIte]
  cases kvs with
  | nil => simp [joinMembers, skipWs, isJsonWs]
  | cons kv kvs' =>
    have hq : ∃ r2, joinMembers (kv :: kvs') = 34 :: r2 := by
      cases kvs' with
      | nil => exact ⟨_, by simp [joinMembers, memberText, encodeString]; rfl⟩
      | cons kv3 kvs'' => exact ⟨_, by simp [joinMembers, memberText, encodeString]; rfl⟩
    obtain ⟨r2, hr2⟩ := hq
    have hws : skipWs (joinMembers (kv :: kvs') ++ 125 :: r) = 34 :: (r2 ++ 125 :: r) := by
      rw [hr2]; simp [skipWs, isJsonWs]
    rw [hws]
    simp only [show ((34 : Nat) == 125) = false by decide, Bool.false_eq_true, ↓reduceIte]
    have : 34 :: (r2 ++ 125 :: r) = joinMembers (kv :: kvs') ++ 125 :: r := by rw [hr2]; simp
    rw [this]
    exact skipMembers_join (kv :: kvs') (by simp) hst _ r (by omega)


end Jrpc
