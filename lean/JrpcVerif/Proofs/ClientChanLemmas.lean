/-
  Channel-level lemmas of the client machine (C05): per-channel ghost invariants and their
  preservation by every handler and every consumer step.
-/
import JrpcVerif.Proofs.ClientStepLemmas
namespace Jrpc.Client
open Jrpc

/-! ### the invariant of one channel -/

structure ChanInv (ch : Chan) : Prop where
  fifo : ch.receiverAlive = true → ch.accepted = ch.yielded ++ ch.buf
  yieldedPrefix : ch.yielded <+: ch.accepted
  noLoss : ch.lagged = false → ch.receiverAlive = true → ch.accepted = ch.sent
  prefixSent : ch.accepted <+: ch.sent
  noGap : ch.gapped = false
  laggedIff : ch.lagged = true ↔ 0 < ch.fullSeen
  subEnd : ∀ s, ch.owner = .sub s → ch.senderAlive = false → ch.closedByServer = true ∨ ch.unsubscribed = true

theorem chanInv_fresh (cap : Nat) (o : Owner) (op : Nat) (uid : Id := .null) (rid : Id := .null) :
    ChanInv { cap := cap, owner := o, op := op, uid := uid, rid := rid } where
  fifo := by intro _; rfl
  yieldedPrefix := by simp
  noLoss := by intro _ _; rfl
  prefixSent := by simp
  noGap := rfl
  laggedIff := by simp
  subEnd := by intro s _ h; simp at h

theorem prefix_append_right {α} {a b : List α} (c : List α) (h : a <+: b) : a <+: b ++ c := by
  obtain ⟨t, ht⟩ := h
  exact ⟨t ++ c, by rw [← ht, List.append_assoc]⟩

theorem sendRes_ok (ch : Chan) (h : ch.sendRes = .ok) : ch.lagged = false ∧ ch.receiverAlive = true := by
  unfold Chan.sendRes at h
  cases hl : ch.lagged with
  | true => simp [hl] at h
  | false =>
    cases hr : ch.receiverAlive with
    | false => simp [hl, hr] at h
    | true => exact ⟨rfl, rfl⟩

theorem sendRes_closed (ch : Chan) (h : ch.sendRes = .closed) : ch.receiverAlive = false := by
  unfold Chan.sendRes at h
  cases hl : ch.lagged with
  | true => simp [hl] at h
  | false =>
    cases hr : ch.receiverAlive with
    | false => rfl
    | true => simp [hl, hr] at h; split at h <;> simp at h

theorem chanInv_afterSend (ch : Chan) (p : Text) (h : ChanInv ch) : ChanInv (ch.afterSend p) := by
  unfold Chan.afterSend
  cases hr : ch.sendRes with
  | closed =>
    have hra := sendRes_closed ch hr
    exact {
      fifo := by intro h1; simp [hra] at h1
      yieldedPrefix := h.yieldedPrefix
      noLoss := by intro _ h1; simp [hra] at h1
      prefixSent := prefix_append_right _ h.prefixSent
      noGap := h.noGap
      laggedIff := h.laggedIff
      subEnd := h.subEnd }
  | ok =>
    obtain ⟨hl, hra⟩ := sendRes_ok ch hr
    exact {
      fifo := by
        intro _
        show ch.accepted ++ [p] = ch.yielded ++ (ch.buf ++ [p])
        rw [h.fifo hra, List.append_assoc]
      yieldedPrefix := prefix_append_right _ h.yieldedPrefix
      noLoss := by
        intro _ _
        show ch.accepted ++ [p] = ch.sent ++ [p]
        rw [h.noLoss hl hra]
      prefixSent := by
        show ch.accepted ++ [p] <+: ch.sent ++ [p]
        rw [h.noLoss hl hra]
        exact List.prefix_refl _
      noGap := by
        show (ch.gapped || ch.lagged) = false
        rw [h.noGap, hl]; rfl
      laggedIff := h.laggedIff
      subEnd := h.subEnd }
  | full =>
    exact {
      fifo := h.fifo
      yieldedPrefix := h.yieldedPrefix
      noLoss := by intro hl; simp at hl
      prefixSent := prefix_append_right _ h.prefixSent
      noGap := h.noGap
      laggedIff := by simp
      subEnd := h.subEnd }

theorem chanInv_dropSender_closed (ch : Chan) (h : ChanInv ch) : ChanInv { dropSender ch with closedByServer := true } where
  fifo := h.fifo
  yieldedPrefix := h.yieldedPrefix
  noLoss := h.noLoss
  prefixSent := h.prefixSent
  noGap := h.noGap
  laggedIff := h.laggedIff
  subEnd := by intro _ _ _; exact Or.inl rfl

theorem chanInv_dropSender_unsub (ch : Chan) (h : ChanInv ch) : ChanInv { dropSender ch with unsubscribed := true } where
  fifo := h.fifo
  yieldedPrefix := h.yieldedPrefix
  noLoss := h.noLoss
  prefixSent := h.prefixSent
  noGap := h.noGap
  laggedIff := h.laggedIff
  subEnd := by intro _ _ _; exact Or.inr rfl

/-- dropping the sender of a *method* channel (handler removed) -/
theorem chanInv_dropSender_method (ch : Chan) (m : Text) (ho : ch.owner = .method m) (h : ChanInv ch) : ChanInv (dropSender ch) where
  fifo := h.fifo
  yieldedPrefix := h.yieldedPrefix
  noLoss := h.noLoss
  prefixSent := h.prefixSent
  noGap := h.noGap
  laggedIff := h.laggedIff
  subEnd := by intro s hs _; simp [dropSender, ho] at hs

theorem chanInv_dropReceiver (ch : Chan) (h : ChanInv ch) : ChanInv { dropReceiver ch with hasKind := false } where
  fifo := by intro h1; simp [dropReceiver] at h1
  yieldedPrefix := h.yieldedPrefix
  noLoss := by intro _ h1; simp [dropReceiver] at h1
  prefixSent := h.prefixSent
  noGap := h.noGap
  laggedIff := h.laggedIff
  subEnd := h.subEnd

theorem chanInv_hasKind (ch : Chan) (b : Bool) (h : ChanInv ch) : ChanInv { ch with hasKind := b } where
  fifo := h.fifo
  yieldedPrefix := h.yieldedPrefix
  noLoss := h.noLoss
  prefixSent := h.prefixSent
  noGap := h.noGap
  laggedIff := h.laggedIff
  subEnd := h.subEnd

theorem chanInv_unsubWires (ch : Chan) (n : Nat) (h : ChanInv ch) : ChanInv { ch with unsubWires := n } where
  fifo := h.fifo
  yieldedPrefix := h.yieldedPrefix
  noLoss := h.noLoss
  prefixSent := h.prefixSent
  noGap := h.noGap
  laggedIff := h.laggedIff
  subEnd := h.subEnd

theorem chanInv_pop (ch : Chan) (p : Text) (rest : List Text) (hb : ch.buf = p :: rest) (hra : ch.receiverAlive = true)
    (h : ChanInv ch) : ChanInv { ch with buf := rest, yielded := ch.yielded ++ [p] } where
  fifo := by
    intro _
    show ch.accepted = (ch.yielded ++ [p]) ++ rest
    rw [h.fifo hra, hb, List.append_assoc]; rfl
  yieldedPrefix := by
    show ch.yielded ++ [p] <+: ch.accepted
    rw [h.fifo hra, hb]
    exact ⟨rest, by simp⟩
  noLoss := h.noLoss
  prefixSent := h.prefixSent
  noGap := h.noGap
  laggedIff := h.laggedIff
  subEnd := h.subEnd

theorem chanInv_acked (ch : Chan) (b : Bool) (h : ChanInv ch) : ChanInv { ch with acked := b } where
  fifo := h.fifo
  yieldedPrefix := h.yieldedPrefix
  noLoss := h.noLoss
  prefixSent := h.prefixSent
  noGap := h.noGap
  laggedIff := h.laggedIff
  subEnd := h.subEnd

/-! ### lists of channels -/

def AllChans (P : Chan → Prop) (c : Core) : Prop := ∀ ch ∈ c.chans, P ch

theorem mem_modifyAt {α} (f : α → α) (l : List α) (i : Nat) (a : α) (h : a ∈ modifyAt f l i) :
    a ∈ l ∨ ∃ b, l[i]? = some b ∧ a = f b := by
  induction l generalizing i with
  | nil => simp [modifyAt] at h
  | cons x xs ih =>
    cases i with
    | zero =>
      simp only [modifyAt, List.mem_cons] at h
      rcases h with h | h
      · exact Or.inr ⟨x, by simp, h⟩
      · exact Or.inl (List.mem_cons_of_mem _ h)
    | succ i =>
      simp only [modifyAt, List.mem_cons] at h
      rcases h with h | h
      · subst h; exact Or.inl List.mem_cons_self
      · rcases ih i h with h | ⟨b, hb, e⟩
        · exact Or.inl (List.mem_cons_of_mem _ h)
        · exact Or.inr ⟨b, by simpa using hb, e⟩

theorem modifyAt_length {α} (f : α → α) (l : List α) (i : Nat) : (modifyAt f l i).length = l.length := by
  induction l generalizing i with
  | nil => rfl
  | cons x xs ih => cases i <;> simp [modifyAt, ih]

theorem modifyAt_get {α} (f : α → α) (l : List α) (i j : Nat) :
    (modifyAt f l i)[j]? = if j = i then (l[j]?).map f else l[j]? := by
  induction l generalizing i j with
  | nil => simp [modifyAt]
  | cons x xs ih =>
    cases i with
    | zero => cases j <;> simp [modifyAt]
    | succ i =>
      cases j with
      | zero => simp [modifyAt]
      | succ j => simp [modifyAt, ih]

/-- updating one channel with a function that preserves `P` on that channel -/
theorem allChans_modChan (P : Chan → Prop) (st : Core) (c : ChanId) (f : Chan → Chan)
    (h : AllChans P st) (hf : ∀ ch, st.chans[c]? = some ch → P ch → P (f ch)) : AllChans P (st.modChan c f) := by
  intro a ha
  rcases mem_modifyAt f st.chans c a ha with h1 | ⟨b, hb, e⟩
  · exact h a h1
  · subst e; exact hf b hb (h b (List.mem_of_getElem? hb))

theorem allChans_newChan (P : Chan → Prop) (st : Core) (o : Owner) (op : Nat) (uid : Id := .null) (rid : Id := .null)
    (h : AllChans P st) (hn : P { cap := st.cap, owner := o, op := op, uid := uid, rid := rid }) : AllChans P (st.newChan o op uid rid).1 := by
  intro a ha
  simp only [Core.newChan, List.mem_append, List.mem_singleton] at ha
  rcases ha with ha | ha
  · exact h a ha
  · subst ha; exact hn

theorem allChans_of_chans_eq (P : Chan → Prop) {a b : Core} (h : b.chans = a.chans) (ha : AllChans P a) : AllChans P b := by
  intro ch hc; rw [h] at hc; exact ha ch hc

/-! ### routing invariant: every table entry points at a channel owned by that subscription / method -/

structure Routes (c : Core) : Prop where
  subs : ∀ s rid, alookup s c.mgr.subs = some rid →
    ∃ uid ch um, alookup rid c.mgr.requests = some (.sub uid ch um) ∧ (c.chans[ch]?).map (·.owner) = some (.sub s)
  handlers : ∀ m ch, alookup m c.mgr.handlers = some ch → (c.chans[ch]?).map (·.owner) = some (.method m)

theorem routes_init (cap : Nat) : Routes { cap := cap } where
  subs := by intro s rid h; simp [alookup] at h
  handlers := by intro m ch h; simp [alookup] at h

/-- changing channel contents without changing owners keeps the routes -/
theorem routes_modChan (st : Core) (c : ChanId) (f : Chan → Chan) (hf : ∀ ch, (f ch).owner = ch.owner)
    (h : Routes st) : Routes (st.modChan c f) where
  subs := by
    intro s rid hs
    obtain ⟨uid, ch, um, h1, h2⟩ := h.subs s rid hs
    refine ⟨uid, ch, um, h1, ?_⟩
    simp only [Core.modChan, modifyAt_get]
    split
    · rename_i e; subst e
      cases hg : st.chans[ch]? with
      | none => simp [hg] at h2
      | some x => simp [hg] at h2 ⊢; rw [hf]; exact h2
    · exact h2
  handlers := by
    intro m ch hm
    have h2 := h.handlers m ch hm
    simp only [Core.modChan, modifyAt_get]
    split
    · rename_i e; subst e
      cases hg : st.chans[ch]? with
      | none => simp [hg] at h2
      | some x => simp [hg] at h2 ⊢; rw [hf]; exact h2
    · exact h2

theorem getElem?_append_of_some {α} (l : List α) (x : α) (i : Nat) (a : α) (h : l[i]? = some a) : (l ++ [x])[i]? = some a := by
  have : i < l.length := by
    rcases Nat.lt_or_ge i l.length with h1 | h1
    · exact h1
    · rw [List.getElem?_eq_none h1] at h; simp at h
  rw [List.getElem?_append_left this]; exact h

theorem routes_newChan (st : Core) (o : Owner) (op : Nat) (h : Routes st) (uid : Id := .null) (rid : Id := .null) : Routes (st.newChan o op uid rid).1 where
  subs := by
    intro s rid hs
    obtain ⟨uid, ch, um, h1, h2⟩ := h.subs s rid hs
    refine ⟨uid, ch, um, h1, ?_⟩
    simp only [Core.newChan]
    cases hg : st.chans[ch]? with
    | none => simp [hg] at h2
    | some x => rw [getElem?_append_of_some _ _ _ _ hg]; simpa [hg] using h2
  handlers := by
    intro m ch hm
    have h2 := h.handlers m ch hm
    simp only [Core.newChan]
    cases hg : st.chans[ch]? with
    | none => simp [hg] at h2
    | some x => rw [getElem?_append_of_some _ _ _ _ hg]; simpa [hg] using h2

/-- a manager change that keeps every reverse-index entry and the subscription entry it points at,
and adds no handler -/
theorem routes_mgr_frame (st : Core) (m' : Mgr) (h : Routes st)
    (hs : ∀ s rid, alookup s m'.subs = some rid → alookup s st.mgr.subs = some rid)
    (hh : ∀ m c, alookup m m'.handlers = some c → alookup m st.mgr.handlers = some c)
    (hr : ∀ s rid u c um, alookup s m'.subs = some rid → alookup rid st.mgr.requests = some (.sub u c um) →
      alookup rid m'.requests = some (.sub u c um)) :
    Routes { st with mgr := m' } where
  subs := by
    intro s rid hs'
    obtain ⟨uid, ch, um, h1, h2⟩ := h.subs s rid (hs s rid hs')
    exact ⟨uid, ch, um, hr s rid uid ch um hs' h1, h2⟩
  handlers := fun m ch hm => h.handlers m ch (hh m ch hm)

/-- erasing a request entry that is **not** an active subscription -/
theorem routes_erase_nonsub (st : Core) (id : Id) (h : Routes st)
    (hn : ∀ uid ch um, alookup id st.mgr.requests ≠ some (.sub uid ch um)) :
    Routes { st with mgr := { st.mgr with requests := aerase id st.mgr.requests } } := by
  apply routes_mgr_frame st { st.mgr with requests := aerase id st.mgr.requests } h (fun _ _ h => h) (fun _ _ h => h)
  intro s rid u c um _ h1
  have : rid ≠ id := by intro e; subst e; exact hn u c um h1
  simp only
  rw [alookup_aerase_ne rid id _ this]; exact h1

/-- releasing a reserved slot -/
theorem routes_release (st : Core) (uid : Id) (h : Routes st) :
    Routes { st with mgr := st.mgr.releaseReservedSlot uid } := by
  obtain ⟨a, _, c⟩ := releaseReservedSlot_others st.mgr uid
  apply routes_mgr_frame st (st.mgr.releaseReservedSlot uid) h (fun _ _ h => by rw [a] at h; exact h) (fun _ _ h => by rw [c] at h; exact h)
  intro s rid u ch um _ h1
  exact (alookup_releaseReservedSlot st.mgr uid rid _ (by simp)).2 h1

/-- inserting under a vacant key -/
theorem routes_insert_vacant (st : Core) (id : Id) (v : Kind) (h : Routes st) (hv : alookup id st.mgr.requests = none) :
    Routes { st with mgr := { st.mgr with requests := (id, v) :: st.mgr.requests } } := by
  apply routes_mgr_frame st { st.mgr with requests := (id, v) :: st.mgr.requests } h (fun _ _ h => h) (fun _ _ h => h)
  intro s rid u c um _ h1
  have : rid ≠ id := by intro e; subst e; rw [hv] at h1; simp at h1
  simp only
  rw [alookup_cons_ne rid id v _ this]; exact h1

/-- removing a subscription: the reverse index loses `s`; every *other* subscription entry stays -/
theorem routes_remove_sub (st : Core) (rid : Id) (s : SubId) (m' : Mgr) (h : Routes st)
    (hs : alookup s st.mgr.subs = some rid)
    (hsubs : m'.subs = aerase s st.mgr.subs) (hh : m'.handlers = st.mgr.handlers)
    (hr : ∀ k u c um, k ≠ rid → alookup k st.mgr.requests = some (.sub u c um) → alookup k m'.requests = some (.sub u c um)) :
    Routes { st with mgr := m' } := by
  apply routes_mgr_frame st m' h
  · intro s' rid' hs'
    rw [hsubs] at hs'
    exact (alookup_aerase_some s' s _ _ hs').1
  · intro m c hm; rw [hh] at hm; exact hm
  · intro s' rid' u c um hs' h1
    rw [hsubs] at hs'
    obtain ⟨hs2, hne⟩ := alookup_aerase_some s' s _ _ hs'
    have : rid' ≠ rid := by
      intro e; subst e
      obtain ⟨uid0, ch0, um0, g1, g2⟩ := h.subs s rid' hs
      obtain ⟨uid1, ch1, um1, g3, g4⟩ := h.subs s' rid' hs2
      rw [g1] at g3; simp at g3
      obtain ⟨_, e2, _⟩ := g3
      subst e2
      rw [g2] at g4; simp at g4
      exact hne g4.symm
    exact hr rid' u c um this h1

/-! ### the combined channel invariant and its preservation by the handlers -/

structure CInv (c : Core) : Prop where
  chans : AllChans ChanInv c
  routes : Routes c

theorem afterSend_owner (ch : Chan) (p : Text) : (ch.afterSend p).owner = ch.owner := by
  unfold Chan.afterSend; split <;> rfl

theorem routes_of_mgr_chans_eq {a b : Core} (hm : b.mgr = a.mgr) (hc : b.chans = a.chans) (h : Routes a) : Routes b where
  subs := by rw [hm, hc]; exact h.subs
  handlers := by rw [hm, hc]; exact h.handlers

theorem cinv_processSubscriptionResponse (st : Core) (s : SubId) (p : Text) (h : CInv st) :
    CInv (processSubscriptionResponse st s p).1 := by
  unfold processSubscriptionResponse
  split
  · exact h
  · split
    · exact h
    · split
      · exact h
      · exact ⟨allChans_modChan ChanInv st _ _ h.chans (fun ch _ hc => chanInv_afterSend ch p hc),
               routes_modChan st _ _ (fun ch => afterSend_owner ch p) h.routes⟩

theorem cinv_processSubscriptionClose (st : Core) (s : SubId) (h : CInv st) : CInv (processSubscriptionClose st s) := by
  unfold processSubscriptionClose
  cases h1 : st.mgr.getRequestIdBySubscriptionId s with
  | none => exact h
  | some rid =>
    simp only
    cases h2 : st.mgr.removeSubscription rid s with
    | none => exact h
    | some x =>
      obtain ⟨m', uid, c, um⟩ := x
      obtain ⟨_, _, e⟩ := removeSubscription_spec _ _ _ _ _ _ _ h2
      have e' : m' = removedMgr st.mgr rid uid s := e
      subst e'
      simp only
      obtain ⟨o1, _, o3⟩ := removedMgr_others st.mgr rid uid s
      have hr := routes_remove_sub st rid s (removedMgr st.mgr rid uid s) h.routes h1 o1 o3
        (fun k u c' um' hk hl => (removedMgr_alookup st.mgr rid uid s k _ (by simp) hk).2 hl)
      exact ⟨allChans_modChan ChanInv _ _ _ (fun ch hc => h.chans ch hc) (fun ch _ hc => chanInv_dropSender_closed ch hc),
             routes_modChan _ c _ (fun ch => rfl) hr⟩

theorem cinv_processNotification (st : Core) (m : Text) (p : Option Text) (h : CInv st) :
    CInv (processNotification st m p).1 := by
  unfold processNotification
  cases h1 : st.mgr.asNotificationHandler m with
  | none => exact h
  | some c =>
    simp only
    cases h2 : st.chans[c]? with
    | none => exact h
    | some ch =>
      simp only
      have hown : ch.owner = .method m := by
        have := h.routes.handlers m c h1
        simpa [h2] using this
      have hrem : Routes { st with mgr := (st.mgr.removeNotificationHandler m).1 } := {
        subs := h.routes.subs
        handlers := by
          intro m' ch' hm'
          simp only [Mgr.removeNotificationHandler] at hm'
          have hne : m' ≠ m := by intro e; subst e; rw [alookup_aerase_self] at hm'; simp at hm'
          rw [alookup_aerase_ne m' m _ hne] at hm'
          exact h.routes.handlers m' ch' hm' }
      have hdrop : CInv (({ st with mgr := (st.mgr.removeNotificationHandler m).1 }).modChan c
            (fun x => dropSender (x.afterSend (p.getD tNull)))) := by
        refine ⟨allChans_modChan ChanInv _ _ _ (fun x hx => h.chans x hx) ?_, routes_modChan _ _ _ (fun x => by simp [dropSender, afterSend_owner]) hrem⟩
        intro x hx hc
        have hx' : x = ch := by
          have : st.chans[c]? = some x := hx
          rw [h2] at this; exact (Option.some.inj this).symm
        subst hx'
        exact chanInv_dropSender_method _ m (by rw [afterSend_owner]; exact hown) (chanInv_afterSend _ _ hc)
      cases h3 : ch.sendRes with
      | ok =>
        exact ⟨allChans_modChan ChanInv st _ _ h.chans (fun x _ hc => chanInv_afterSend x _ hc),
               routes_modChan st _ _ (fun x => afterSend_owner x _) h.routes⟩
      | closed => exact hdrop
      | full => exact hdrop

theorem cinv_buildUnsub (st : Core) (rid : Id) (s : SubId) (st' : Core) (msg : FrontMsg)
    (hb : buildUnsubscribeMessage st rid s = some (st', msg)) (hs : alookup s st.mgr.subs = some rid) (h : CInv st) : CInv st' := by
  unfold buildUnsubscribeMessage at hb
  cases hu : st.mgr.unsubscribe rid s with
  | none => simp [hu] at hb
  | some x =>
    obtain ⟨m', uid, c, um⟩ := x
    simp [hu] at hb
    obtain ⟨e1, _⟩ := hb
    subst e1
    obtain ⟨_, _, e⟩ := unsubscribe_spec _ _ _ _ _ _ _ hu
    have e' : m' = unsubMgr st.mgr rid uid s c := e
    subst e'
    obtain ⟨o1, _, o3⟩ := unsubMgr_others st.mgr rid uid s c
    have hr := routes_remove_sub st rid s (unsubMgr st.mgr rid uid s c) h.routes hs o1 o3
      (fun k u c' um' hk hl => (unsubMgr_alookup st.mgr rid uid s c k _ (by simp) (by simp) hk).2 hl)
    exact ⟨allChans_modChan ChanInv _ _ _ (fun ch hc => h.chans ch hc) (fun ch _ hc => chanInv_dropSender_unsub ch hc),
           routes_modChan _ c _ (fun ch => rfl) hr⟩

/-- the tables after `insert_subscription` -/
def withSub (st : Core) (sid uid : Id) (s : SubId) (um : Text) : Core :=
  { st with mgr := { st.mgr with requests := (sid, .sub uid st.chans.length um) :: st.mgr.requests,
                                 subs := (s, sid) :: st.mgr.subs } }

theorem routes_insert_sub (st : Core) (sid uid : Id) (s : SubId) (um : Text) (op : Nat) (h : Routes st)
    (hv : alookup sid st.mgr.requests = none) (hsv : alookup s st.mgr.subs = none) :
    Routes ((withSub st sid uid s um).newChan (.sub s) op uid sid).1 where
  subs := by
    intro s' rid hs'
    simp only [Core.newChan, withSub] at hs' ⊢
    by_cases e : s' = s
    · subst e
      rw [alookup_cons_self] at hs'
      simp at hs'; subst hs'
      exact ⟨uid, st.chans.length, um, by rw [alookup_cons_self], by simp⟩
    · rw [alookup_cons_ne s' s _ _ e] at hs'
      obtain ⟨uid', ch, um', h1, h2⟩ := h.subs s' rid hs'
      have : rid ≠ sid := by intro e2; subst e2; rw [hv] at h1; simp at h1
      refine ⟨uid', ch, um', by rw [alookup_cons_ne rid sid _ _ this]; exact h1, ?_⟩
      cases hg : st.chans[ch]? with
      | none => simp [hg] at h2
      | some x => rw [getElem?_append_of_some _ _ _ _ hg]; simpa [hg] using h2
  handlers := by
    intro m ch hm
    have h2 := h.handlers m ch hm
    simp only [Core.newChan, withSub]
    cases hg : st.chans[ch]? with
    | none => simp [hg] at h2
    | some x => rw [getElem?_append_of_some _ _ _ _ hg]; simpa [hg] using h2

theorem cinv_release (st : Core) (uid : Id) (h : CInv st) : CInv { st with mgr := st.mgr.releaseReservedSlot uid } :=
  ⟨fun ch hc => h.chans ch hc, routes_release st uid h.routes⟩

theorem cinv_completeSubscribe (st : Core) (r : Response) (uid : Id) (t : Ticket) (um : Text) (h : CInv st) :
    CInv (completeSubscribe st r uid t um).1 := by
  unfold completeSubscribe
  cases hp : r.payload with
  | error e => exact cinv_release st uid h
  | result raw =>
    simp only
    cases hd : decodeSubId raw with
    | none => exact cinv_release st uid h
    | some s =>
      simp only
      cases hins : st.mgr.insertSubscription r.id uid s st.chans.length um with
      | none => exact cinv_release st uid h
      | some m' =>
        obtain ⟨hv, hsv, e⟩ := insertSubscription_spec _ _ _ _ _ _ _ hins
        have hm : ({ st with mgr := m' } : Core) = withSub st r.id uid s um := by rw [e]; rfl
        have h0 : CInv ((withSub st r.id uid s um).newChan (.sub s) t.op uid r.id).1 :=
          ⟨allChans_newChan ChanInv _ _ _ uid r.id (fun ch hc => h.chans ch hc) (chanInv_fresh _ _ _ uid r.id),
           routes_insert_sub st r.id uid s um t.op h.routes hv hsv⟩
        simp only [hm]
        cases hal : st.alive t with
        | true => simp only [if_true]; exact h0
        | false =>
          simp only [Bool.false_eq_true, if_false]
          unfold abandonedSubscribe
          exact ⟨allChans_modChan ChanInv _ _ _ h0.chans (fun ch _ hc => chanInv_dropReceiver ch hc),
                 routes_modChan _ _ _ (fun ch => rfl) h0.routes⟩

theorem cinv_processSingleResponse (st st' : Core) (r : Response) (effs : List Effect)
    (hp : processSingleResponse st r = .ok (st', effs)) (h : CInv st) : CInv st' := by
  unfold processSingleResponse at hp
  cases hs : st.mgr.requestStatus r.id with
  | pendingCall =>
    simp only [hs] at hp
    cases hcp : st.mgr.completePendingCall r.id with
    | none => simp [hcp] at hp
    | some x =>
      obtain ⟨m', t0⟩ := x
      obtain ⟨f1, _, f3, _, _, f6, _⟩ := completePendingCall_frame _ _ _ _ hcp
      have hnsub : ∀ u c um, alookup r.id st.mgr.requests ≠ some (.sub u c um) := by
        intro u c um hc
        rcases completePendingCall_spec _ _ _ _ hcp with ⟨hl, _⟩ | ⟨_, _, hl, _, _⟩ <;> rw [hl] at hc <;> simp at hc
      have h1 : CInv { st with mgr := m' } := by
        refine ⟨fun ch hc => h.chans ch hc, routes_mgr_frame st m' h.routes (fun _ _ hh => by rw [f1] at hh; exact hh)
          (fun _ _ hh => by rw [f3] at hh; exact hh) ?_⟩
        intro s rid u c um _ hl
        have hne : rid ≠ r.id := by intro e; subst e; exact hnsub u c um hl
        exact (f6 rid _ (by simp) hne).2 hl
      cases t0 with
      | none =>
        simp [hcp] at hp
        rw [← hp.1]
        cases hat : st.mgr.ackTarget r.id with
        | none => exact h1
        | some c =>
          exact ⟨allChans_modChan ChanInv _ _ _ h1.chans (fun ch _ hc => chanInv_acked ch true hc),
                 routes_modChan _ _ _ (fun ch => rfl) h1.routes⟩
      | some t1 =>
        simp [hcp] at hp
        rw [← hp.1]
        exact h1
  | pendingSub =>
    simp only [hs] at hp
    cases hcp : st.mgr.completePendingSubscription r.id with
    | none => simp [hcp] at hp
    | some x =>
      obtain ⟨m', uid, t0, um⟩ := x
      obtain ⟨hl, e⟩ := completePendingSubscription_spec _ _ _ _ _ _ hcp
      simp [hcp] at hp
      subst e
      have h1 : CInv { st with mgr := { st.mgr with requests := aerase r.id st.mgr.requests } } :=
        ⟨fun ch hc => h.chans ch hc, routes_erase_nonsub st r.id h.routes (fun _ _ _ c => by rw [hl] at c; simp at c)⟩
      have h2 := cinv_completeSubscribe _ r uid t0 um h1
      rw [hp] at h2
      exact h2
  | sub => simp [hs] at hp
  | invalid => simp [hs] at hp

theorem cinv_processBatchResponse (st : Core) (rps : List Response) (lo hi : Nat) (h : CInv st) :
    CInv (processBatchResponse st rps lo hi).1 := by
  obtain ⟨h1, h2, h3, h4⟩ := processBatchResponse_requests st rps lo hi
  exact ⟨allChans_of_chans_eq ChanInv h4 h.chans,
    { subs := by rw [h1, h2, h4]; exact h.routes.subs
      handlers := by rw [h3, h4]; exact h.routes.handlers }⟩

theorem cinv_handleBack (st : Core) (raw : Text) (h : CInv st) : CInv (handleBack st raw).st := by
  have := handleBack_rel (fun a b => CInv a → CInv b) (fun _ h => h) (fun _ _ _ h1 h2 h => h2 (h1 h))
    (fun c s p h => cinv_processSubscriptionResponse c s p h)
    (fun c s h => cinv_processSubscriptionClose c s h)
    (fun c m p h => cinv_processNotification c m p h)
    (fun c rps lo hi h => cinv_processBatchResponse c rps lo hi h)
    st raw
    (fun r c' effs _ hp h => cinv_processSingleResponse st c' r effs hp h)
  exact this h

theorem cinv_handleFront (st : Core) (msg : FrontMsg) (h : CInv st) : CInv (handleFront st msg).1 := by
  unfold handleFront
  cases msg with
  | batch lo hi t0 raw =>
    simp only
    cases h1 : st.mgr.insertPendingBatch (lo, hi) t0 with
    | none => exact h
    | some m' =>
      unfold Mgr.insertPendingBatch at h1
      split at h1
      · simp at h1
      · simp at h1; subst h1
        exact ⟨fun ch hc => h.chans ch hc, ⟨h.routes.subs, h.routes.handlers⟩⟩
  | notification raw => exact h
  | request k t0 raw =>
    simp only
    cases h1 : st.mgr.insertPendingCall k t0 with
    | none => cases t0 <;> exact h
    | some m' =>
      unfold Mgr.insertPendingCall at h1
      split at h1
      · simp at h1
      · rename_i hv
        simp at h1; subst h1
        exact ⟨fun ch hc => h.chans ch hc, routes_insert_vacant st k _ h.routes hv⟩
  | subscribe sid uid t0 um raw =>
    simp only
    cases h1 : st.mgr.insertPendingSubscription sid uid t0 um with
    | none => exact h
    | some m' =>
      unfold Mgr.insertPendingSubscription at h1
      split at h1
      · rename_i hv
        simp at h1; subst h1
        obtain ⟨v1, v2, v3⟩ := hv
        have r1 := routes_insert_vacant st sid (.pendingSub uid t0 um) h.routes (by simpa using v1)
        have hu : alookup uid ((sid, Kind.pendingSub uid t0 um) :: st.mgr.requests) = none := by
          rw [alookup_cons_ne uid sid _ _ (fun e => v3 e.symm)]; simpa using v2
        have r2 := routes_insert_vacant _ uid (.pendingCall none) r1 hu
        exact ⟨fun ch hc => h.chans ch hc, r2⟩
      · simp at h1
  | subscriptionClosed s =>
    simp only
    cases h1 : st.mgr.getRequestIdBySubscriptionId s with
    | none => exact h
    | some rid =>
      simp only
      cases h2 : st.mgr.asSubscription rid with
      | none => exact h
      | some c =>
        cases hb : buildUnsubscribeMessage st rid s with
        | none => exact h
        | some x =>
          obtain ⟨st', msg⟩ := x
          obtain ⟨_, _, _, _, _, _, _, _, _, hmsg⟩ := buildUnsub_spec _ _ _ _ _ hb
          subst hmsg
          have h3 := cinv_buildUnsub st rid s st' _ hb h1 h
          exact ⟨allChans_modChan ChanInv _ _ _ h3.chans (fun ch _ hc => chanInv_unsubWires ch _ hc),
                 routes_modChan st' c _ (fun ch => rfl) h3.routes⟩
  | registerNotif meth t0 =>
    simp only
    cases h1 : st.mgr.insertNotificationHandler meth st.chans.length with
    | some m' =>
      unfold Mgr.insertNotificationHandler at h1
      split at h1
      · simp at h1
      · rename_i hv
        simp at h1; subst h1
        have h0 : CInv ({ st with mgr := { st.mgr with handlers := (meth, st.chans.length) :: st.mgr.handlers } }.newChan (.method meth) t0.op).1 := by
          refine ⟨allChans_newChan ChanInv _ _ _ .null .null (fun ch hc => h.chans ch hc) (chanInv_fresh _ _ _), ?_⟩
          have hr := routes_newChan { st with mgr := { st.mgr with handlers := (meth, st.chans.length) :: st.mgr.handlers } } (.method meth) t0.op
          refine ⟨?_, ?_⟩
          · intro s rid hs
            obtain ⟨uid, ch, um, a, b⟩ := h.routes.subs s rid hs
            refine ⟨uid, ch, um, a, ?_⟩
            simp only [Core.newChan]
            cases hg : st.chans[ch]? with
            | none => simp [hg] at b
            | some x => rw [getElem?_append_of_some _ _ _ _ hg]; simpa [hg] using b
          · intro m ch hm
            simp only [Core.newChan] at hm ⊢
            by_cases e : m = meth
            · subst e
              rw [alookup_cons_self] at hm
              simp at hm; subst hm
              simp
            · rw [alookup_cons_ne m meth _ _ e] at hm
              have b := h.routes.handlers m ch hm
              cases hg : st.chans[ch]? with
              | none => simp [hg] at b
              | some x => rw [getElem?_append_of_some _ _ _ _ hg]; simpa [hg] using b
        simp only
        split
        · exact h0
        · exact ⟨allChans_modChan ChanInv _ _ _ h0.chans (fun ch _ hc => chanInv_dropReceiver ch hc),
                 routes_modChan _ _ _ (fun ch => rfl) h0.routes⟩
    | none => exact h
  | unregisterNotif meth =>
    simp only
    cases h1 : (st.mgr.removeNotificationHandler meth).2 with
    | none => exact h
    | some c =>
      simp only
      have hl : alookup meth st.mgr.handlers = some c := by simpa [Mgr.removeNotificationHandler] using h1
      have hown := h.routes.handlers meth c hl
      refine ⟨allChans_modChan ChanInv _ _ _ (fun ch hc => h.chans ch hc) ?_, routes_modChan _ _ _ (fun ch => rfl) ?_⟩
      · intro ch hch hc
        have : st.chans[c]? = some ch := hch
        rw [this] at hown
        exact chanInv_dropSender_method ch meth (by simpa using hown) hc
      · exact {
          subs := h.routes.subs
          handlers := by
            intro m' ch' hm'
            simp only [Mgr.removeNotificationHandler] at hm'
            have hne : m' ≠ meth := by intro e; subst e; rw [alookup_aerase_self] at hm'; simp at hm'
            rw [alookup_aerase_ne m' meth _ hne] at hm'
            exact h.routes.handlers m' ch' hm' }

/-- state-level invariant -/
def SInv (st : St) : Prop := CInv st.core

theorem sinv_init (cap : Nat) (sI : Bool) : SInv (St.init cap sI) :=
  ⟨by intro ch hc; simp [St.init] at hc, routes_init cap⟩

theorem sinv_step (st : St) (s : Step) (h : SInv st) : SInv (step st s).st := by
  cases s with
  | newCall meth params => exact h
  | newSubscribe sm um => exact h
  | newBatch meth n => exact h
  | newRegister meth => exact h
  | newNotification raw => exact h
  | abandon op => exact ⟨fun ch hc => h.chans ch hc, ⟨h.routes.subs, h.routes.handlers⟩⟩
  | sendTask i =>
    cases hp : st.pool[i]? with
    | none =>
      have e : step st (.sendTask i) = { st := st } := by simp only [step, hp]
      rw [e]; exact h
    | some msg =>
      have e : step st (.sendTask i) =
          { st := { st with core := (handleFront st.core msg).1, pool := removeAt st.pool i },
            effs := (handleFront st.core msg).2 } := by simp only [step, hp]
      rw [e]; exact cinv_handleFront st.core msg h
  | recv raw => exact cinv_handleBack st.core raw h
  | next c =>
    unfold SInv
    simp only [step]
    split
    · exact h
    · rename_i ch hch
      split
      · exact h
      · rename_i hra
        split
        · rename_i p rest hb
          refine ⟨allChans_modChan ChanInv _ _ _ h.chans ?_, routes_modChan _ _ _ (fun x => rfl) h.routes⟩
          intro x hx hc
          have : x = ch := by rw [hch] at hx; exact (Option.some.inj hx).symm
          subst this
          exact chanInv_pop x p rest hb (by simpa using hra) hc
        · split <;> exact h
  | dropStream c room =>
    unfold SInv
    simp only [step]
    split
    · exact h
    · split
      · exact h
      · exact ⟨allChans_modChan ChanInv _ _ _ h.chans (fun x _ hc => chanInv_dropReceiver x hc),
               routes_modChan _ _ _ (fun x => rfl) h.routes⟩
  | unsubscribeStream c =>
    unfold SInv
    simp only [step]
    split
    · exact h
    · split
      · exact h
      · exact ⟨allChans_modChan ChanInv _ _ _ h.chans (fun x _ hc => chanInv_hasKind x _ hc),
               routes_modChan _ _ _ (fun x => rfl) h.routes⟩

theorem sinv_reachable (st : St) (h : Reachable st) : SInv st := reachable_inv SInv sinv_init sinv_step st h

end Jrpc.Client
