/-
  C18 support: the notification-handler table (`subscribe_to_method`).

  `HRel a b`: channels keep their index, a receiver that was dropped stays dropped, and the handlers
  table only loses entries or gains entries for brand-new channels.  Every handler of the client
  relates its input to its output this way; this gives, for a fixed channel `c` whose receiver the
  application has dropped:
    * `Lingering c m` (the only handler entry that may still point to `c` is the one for `m`) is kept
      by every step,
    * one notification for `m`, or the `UnregisterNotification(m)` message, turns it into `Gone c`,
    * `Gone c` (no handler entry points to `c`) is kept by every step: the channel never captures a
      notification again.
-/
import JrpcVerif.Proofs.ClientQuiesceLemmas
namespace Jrpc.Client
open Jrpc

/-! ### channel lists -/

/-- `b` is `a` with some channels updated (never reviving a receiver) and new ones appended -/
def ChanMono (a b : List Chan) : Prop :=
  a.length ≤ b.length ∧
  ∀ (c : Nat) (ch : Chan), a[c]? = some ch → ch.receiverAlive = false → ∃ ch' : Chan, b[c]? = some ch' ∧ ch'.receiverAlive = false

theorem chanMono_refl (a : List Chan) : ChanMono a a := ⟨Nat.le_refl _, fun _ ch h hd => ⟨ch, h, hd⟩⟩

theorem chanMono_trans {a b c : List Chan} (h1 : ChanMono a b) (h2 : ChanMono b c) : ChanMono a c := by
  refine ⟨Nat.le_trans h1.1 h2.1, ?_⟩
  intro i ch hi hd
  obtain ⟨ch', hi', hd'⟩ := h1.2 i ch hi hd
  exact h2.2 i ch' hi' hd'

/-- an update that never revives a dropped receiver -/
def KeepsDead (f : Chan → Chan) : Prop := ∀ ch, ch.receiverAlive = false → (f ch).receiverAlive = false

theorem chanMono_modifyAt (f : Chan → Chan) (hf : KeepsDead f) (l : List Chan) (c : Nat) : ChanMono l (modifyAt f l c) := by
  refine ⟨by rw [modifyAt_length]; exact Nat.le_refl _, ?_⟩
  intro i ch hi hd
  rw [modifyAt_get]
  by_cases e : i = c
  · simp only [e, if_true]
    rw [e] at hi
    exact ⟨f ch, by simp [hi], hf ch hd⟩
  · simp only [e, if_false]
    exact ⟨ch, hi, hd⟩

theorem chanMono_append (l : List Chan) (x : List Chan) : ChanMono l (l ++ x) := by
  refine ⟨by simp, ?_⟩
  intro i ch hi hd
  refine ⟨ch, ?_, hd⟩
  have hlt : i < l.length := by
    cases Nat.lt_or_ge i l.length with
    | inl h => exact h
    | inr h => rw [List.getElem?_eq_none h] at hi; simp at hi
  rw [List.getElem?_append_left hlt]
  exact hi

theorem keepsDead_afterSend (p : Text) : KeepsDead (fun x => x.afterSend p) := by
  intro ch h
  show (ch.afterSend p).receiverAlive = false
  unfold Chan.afterSend
  split <;> exact h

theorem keepsDead_dropSender_afterSend (p : Text) : KeepsDead (fun x => dropSender (x.afterSend p)) := by
  intro ch h
  exact keepsDead_afterSend p ch h

theorem keepsDead_dropReceiver : KeepsDead (fun ch => { dropReceiver ch with hasKind := false }) := fun _ _ => rfl

/-! ### the relation -/

structure HRel (a b : Core) : Prop where
  chans : ChanMono a.chans b.chans
  old : ∀ m c, alookup m b.mgr.handlers = some c → alookup m a.mgr.handlers = some c ∨ a.chans.length ≤ c

theorem hrel_refl (a : Core) : HRel a a := ⟨chanMono_refl _, fun _ _ h => Or.inl h⟩

theorem hrel_trans (a b c : Core) (h1 : HRel a b) (h2 : HRel b c) : HRel a c := by
  refine ⟨chanMono_trans h1.chans h2.chans, ?_⟩
  intro m x hx
  rcases h2.old m x hx with h | h
  · exact h1.old m x h
  · exact Or.inr (Nat.le_trans h1.chans.1 h)

/-- handlers only lose entries, the channels change by `ChanMono` -/
theorem hrel_of {a b : Core} (hc : ChanMono a.chans b.chans)
    (hh : ∀ m c, alookup m b.mgr.handlers = some c → alookup m a.mgr.handlers = some c) : HRel a b :=
  ⟨hc, fun m c h => Or.inl (hh m c h)⟩

theorem hrel_modChan (st : Core) (c : ChanId) (f : Chan → Chan) (hf : KeepsDead f) : HRel st (st.modChan c f) :=
  hrel_of (chanMono_modifyAt f hf st.chans c) (fun _ _ h => h)

theorem hrel_mgr (st : Core) (m' : Mgr) (hh : m'.handlers = st.mgr.handlers) : HRel st { st with mgr := m' } :=
  hrel_of (chanMono_refl _) (fun m c h => by simpa [hh] using h)

theorem hrel_mgr_modChan (st : Core) (m' : Mgr) (c : ChanId) (f : Chan → Chan) (hf : KeepsDead f)
    (hh : ∀ m x, alookup m m'.handlers = some x → alookup m st.mgr.handlers = some x) :
    HRel st (({ st with mgr := m' }).modChan c f) :=
  hrel_of (chanMono_modifyAt f hf st.chans c) hh

theorem hrel_processSubscriptionResponse (st : Core) (s : SubId) (p : Text) :
    HRel st (processSubscriptionResponse st s p).1 := by
  unfold processSubscriptionResponse
  split
  · exact hrel_refl _
  · split
    · exact hrel_refl _
    · split
      · exact hrel_refl _
      · exact hrel_modChan st _ _ (keepsDead_afterSend p)

theorem hrel_processSubscriptionClose (st : Core) (s : SubId) : HRel st (processSubscriptionClose st s) := by
  unfold processSubscriptionClose
  cases h1 : st.mgr.getRequestIdBySubscriptionId s with
  | none => exact hrel_refl _
  | some rid =>
    simp only
    cases h2 : st.mgr.removeSubscription rid s with
    | none => exact hrel_refl _
    | some x =>
      obtain ⟨m', uid, c, um⟩ := x
      obtain ⟨_, _, e⟩ := removeSubscription_spec _ _ _ _ _ _ _ h2
      have hh : m'.handlers = st.mgr.handlers := by rw [e]; exact (removedMgr_others st.mgr rid uid s).2.2
      simp only
      exact hrel_mgr_modChan st m' c _ (fun ch h => h) (fun m x h => by simpa [hh] using h)

theorem hrel_processNotification (st : Core) (m : Text) (p : Option Text) : HRel st (processNotification st m p).1 := by
  unfold processNotification
  cases h1 : st.mgr.asNotificationHandler m with
  | none => exact hrel_refl _
  | some c =>
    simp only
    cases h2 : st.chans[c]? with
    | none => exact hrel_refl _
    | some ch =>
      simp only
      cases h3 : ch.sendRes with
      | ok => exact hrel_modChan st _ _ (keepsDead_afterSend _)
      | closed =>
        exact hrel_mgr_modChan st _ c _ (keepsDead_dropSender_afterSend _)
          (fun m' x h => (alookup_aerase_some m' m x st.mgr.handlers h).1)
      | full =>
        exact hrel_mgr_modChan st _ c _ (keepsDead_dropSender_afterSend _)
          (fun m' x h => (alookup_aerase_some m' m x st.mgr.handlers h).1)

theorem hrel_processBatchResponse (st : Core) (rps : List Response) (lo hi : Nat) :
    HRel st (processBatchResponse st rps lo hi).1 := by
  obtain ⟨_, _, h3, h4⟩ := processBatchResponse_requests st rps lo hi
  exact hrel_of (by rw [h4]; exact chanMono_refl _) (fun m c h => by rw [h3] at h; exact h)

theorem hrel_completeSubscribe (st : Core) (r : Response) (uid : Id) (t : Ticket) (um : Text) :
    HRel st (completeSubscribe st r uid t um).1 := by
  have hrel : HRel st { st with mgr := st.mgr.releaseReservedSlot uid } :=
    hrel_mgr st _ (releaseReservedSlot_others st.mgr uid).2.2
  unfold completeSubscribe
  cases hp : r.payload with
  | error e => exact hrel
  | result raw =>
    simp only
    cases hd : decodeSubId raw with
    | none => exact hrel
    | some s =>
      simp only
      cases hins : st.mgr.insertSubscription r.id uid s st.chans.length um with
      | none => exact hrel
      | some m' =>
        obtain ⟨_, _, e⟩ := insertSubscription_spec _ _ _ _ _ _ _ hins
        have hh : m'.handlers = st.mgr.handlers := by rw [e]
        have h0 : HRel st ({ st with mgr := m' }.newChan (.sub s) t.op uid r.id).1 :=
          hrel_of (chanMono_append st.chans _) (fun m c h => by
            have : alookup m m'.handlers = some c := h
            rw [hh] at this; exact this)
        simp only
        cases hal : st.alive t with
        | true => simp only [if_true]; exact h0
        | false =>
          simp only [Bool.false_eq_true, if_false]
          unfold abandonedSubscribe
          exact hrel_trans _ _ _ h0 (hrel_modChan _ _ _ keepsDead_dropReceiver)

theorem hrel_processSingleResponse (st st' : Core) (r : Response) (effs : List Effect)
    (hp : processSingleResponse st r = .ok (st', effs)) : HRel st st' := by
  unfold processSingleResponse at hp
  cases hs : st.mgr.requestStatus r.id with
  | pendingCall =>
    simp only [hs] at hp
    cases hcp : st.mgr.completePendingCall r.id with
    | none => simp [hcp] at hp
    | some x =>
      obtain ⟨m', t0⟩ := x
      obtain ⟨_, _, hh, _⟩ := completePendingCall_frame _ _ _ _ hcp
      have h1 : HRel st { st with mgr := m' } := hrel_mgr st m' hh
      cases t0 with
      | some t =>
        simp [hcp] at hp
        rw [← hp.1]; exact h1
      | none =>
        simp [hcp] at hp
        rw [← hp.1]
        refine hrel_trans _ _ _ h1 ?_
        unfold Core.ackAt
        split
        · exact hrel_modChan _ _ _ (fun ch h => h)
        · exact hrel_refl _
  | pendingSub =>
    simp only [hs] at hp
    cases hcp : st.mgr.completePendingSubscription r.id with
    | none => simp [hcp] at hp
    | some x =>
      obtain ⟨m', uid, t0, um⟩ := x
      obtain ⟨_, e⟩ := completePendingSubscription_spec _ _ _ _ _ _ hcp
      simp [hcp] at hp
      have hh : m'.handlers = st.mgr.handlers := by rw [e]
      have h1 : HRel st { st with mgr := m' } := hrel_mgr st m' hh
      have h2 := hrel_completeSubscribe { st with mgr := m' } r uid t0 um
      rw [hp] at h2
      exact hrel_trans _ _ _ h1 h2
  | sub => simp [hs] at hp
  | invalid => simp [hs] at hp

theorem hrel_handleBack (st : Core) (raw : Text) : HRel st (handleBack st raw).st :=
  handleBack_rel HRel hrel_refl hrel_trans
    hrel_processSubscriptionResponse hrel_processSubscriptionClose hrel_processNotification hrel_processBatchResponse
    st raw (fun r c' effs _ hp => hrel_processSingleResponse st c' r effs hp)

theorem hrel_handleFront (st : Core) (msg : FrontMsg) : HRel st (handleFront st msg).1 := by
  unfold handleFront
  cases msg with
  | batch lo hi t0 raw =>
    simp only
    cases h1 : st.mgr.insertPendingBatch (lo, hi) t0 with
    | none => exact hrel_refl _
    | some m' =>
      unfold Mgr.insertPendingBatch at h1
      split at h1
      · simp at h1
      · simp at h1; subst h1; exact hrel_mgr st _ rfl
  | notification raw => exact hrel_refl _
  | request k t0 raw =>
    simp only
    cases h1 : st.mgr.insertPendingCall k t0 with
    | none => cases t0 <;> exact hrel_refl _
    | some m' =>
      unfold Mgr.insertPendingCall at h1
      split at h1
      · simp at h1
      · simp at h1; subst h1; exact hrel_mgr st _ rfl
  | subscribe sid uid t0 um raw =>
    simp only
    cases h1 : st.mgr.insertPendingSubscription sid uid t0 um with
    | none => exact hrel_refl _
    | some m' =>
      unfold Mgr.insertPendingSubscription at h1
      split at h1
      · simp at h1; subst h1; exact hrel_mgr st _ rfl
      · simp at h1
  | subscriptionClosed s =>
    simp only
    cases h1 : st.mgr.getRequestIdBySubscriptionId s with
    | none => exact hrel_refl _
    | some rid =>
      simp only
      cases h2 : st.mgr.asSubscription rid with
      | none => exact hrel_refl _
      | some c =>
        cases hb : buildUnsubscribeMessage st rid s with
        | none => exact hrel_refl _
        | some x =>
          obtain ⟨st', msg⟩ := x
          obtain ⟨uid, c0, um, _, _, hm, _, _, hch, hmsg⟩ := buildUnsub_spec _ _ _ _ _ hb
          subst hmsg
          have h3 : HRel st st' :=
            hrel_of (by rw [hch]; exact chanMono_modifyAt (fun ch => { dropSender ch with unsubscribed := true }) (fun ch h => h) st.chans c0)
              (fun m x h => by rw [hm, (unsubMgr_others st.mgr rid uid s c0).2.2] at h; exact h)
          exact hrel_trans _ _ _ h3 (hrel_modChan st' c _ (fun ch h => h))
  | registerNotif meth t0 =>
    simp only
    cases h1 : st.mgr.insertNotificationHandler meth st.chans.length with
    | some m' =>
      unfold Mgr.insertNotificationHandler at h1
      split at h1
      · simp at h1
      · simp at h1; subst h1
        have h0 : HRel st ({ st with mgr := { st.mgr with handlers := (meth, st.chans.length) :: st.mgr.handlers } }.newChan (.method meth) t0.op).1 := by
          refine ⟨chanMono_append st.chans _, ?_⟩
          intro m c h
          have h' : alookup m ((meth, st.chans.length) :: st.mgr.handlers) = some c := h
          by_cases e : m = meth
          · subst e
            rw [alookup_cons_self] at h'
            simp at h'
            exact Or.inr (by omega)
          · rw [alookup_cons_ne m meth _ _ e] at h'
            exact Or.inl h'
        simp only
        split
        · exact h0
        · exact hrel_trans _ _ _ h0 (hrel_modChan _ _ _ keepsDead_dropReceiver)
    | none => exact hrel_refl _
  | unregisterNotif meth =>
    simp only
    cases h1 : (st.mgr.removeNotificationHandler meth).2 with
    | none => exact hrel_refl _
    | some c =>
      exact hrel_mgr_modChan st _ c _ (fun ch h => h)
        (fun m' x h => (alookup_aerase_some m' meth x st.mgr.handlers h).1)

/-- every step of the client relates the cores by `HRel` -/
theorem hrel_step (st : St) (s : Step) : HRel st.core (step st s).st.core := by
  cases s with
  | newCall meth params => exact hrel_refl _
  | newSubscribe sm um => exact hrel_refl _
  | newBatch meth n => exact hrel_refl _
  | newRegister meth => exact hrel_refl _
  | newNotification raw => exact hrel_refl _
  | abandon op => exact hrel_of (chanMono_refl _) (fun _ _ h => h)
  | sendTask i =>
    cases hp : st.pool[i]? with
    | none =>
      have e : step st (.sendTask i) = { st := st } := by simp only [step, hp]
      rw [e]; exact hrel_refl _
    | some msg =>
      have e : step st (.sendTask i) =
          { st := { st with core := (handleFront st.core msg).1, pool := removeAt st.pool i },
            effs := (handleFront st.core msg).2 } := by simp only [step, hp]
      rw [e]; exact hrel_handleFront st.core msg
  | recv raw => exact hrel_handleBack st.core raw
  | next c =>
    simp only [step]
    split
    · exact hrel_refl _
    · split
      · exact hrel_refl _
      · split
        · exact hrel_modChan _ _ _ (fun ch h => h)
        · split <;> exact hrel_refl _
  | dropStream c room =>
    simp only [step]
    split
    · exact hrel_refl _
    · split
      · exact hrel_refl _
      · exact hrel_modChan _ _ _ keepsDead_dropReceiver
  | unsubscribeStream c =>
    simp only [step]
    split
    · exact hrel_refl _
    · split
      · exact hrel_refl _
      · exact hrel_modChan _ _ _ (fun ch h => h)

theorem hrel_run (steps : List Step) : ∀ st : St, HRel st.core (run st steps).1.core := by
  induction steps with
  | nil => intro st; exact hrel_refl _
  | cons s rest ih => intro st; rw [run_cons]; exact hrel_trans _ _ _ (hrel_step st s) (ih _)

/-! ### a channel whose receiver the application has dropped -/

/-- the receiver of channel `c` has been dropped -/
def Dead (c : ChanId) (st : Core) : Prop := ∃ ch, st.chans[c]? = some ch ∧ ch.receiverAlive = false

/-- no handler entry points to channel `c` (and `c` exists): nothing is routed to it any more -/
def Gone (c : ChanId) (st : Core) : Prop := c < st.chans.length ∧ ∀ m, alookup m st.mgr.handlers ≠ some c

/-- the receiver of `c` is gone and the only handler entry that may still point to it is `m`'s -/
def Lingering (c : ChanId) (m : Text) (st : Core) : Prop :=
  Dead c st ∧ ∀ m', alookup m' st.mgr.handlers = some c → m' = m

theorem dead_lt {c : ChanId} {st : Core} (h : Dead c st) : c < st.chans.length := by
  obtain ⟨ch, hc, _⟩ := h
  cases Nat.lt_or_ge c st.chans.length with
  | inl h => exact h
  | inr h => rw [List.getElem?_eq_none h] at hc; simp at hc

theorem dead_hrel {a b : Core} (h : HRel a b) {c : ChanId} (hd : Dead c a) : Dead c b := by
  obtain ⟨ch, hc, hr⟩ := hd
  exact h.chans.2 c ch hc hr

theorem gone_hrel {a b : Core} (h : HRel a b) {c : ChanId} (hg : Gone c a) : Gone c b := by
  refine ⟨Nat.lt_of_lt_of_le hg.1 h.chans.1, ?_⟩
  intro m hm
  rcases h.old m c hm with h1 | h1
  · exact hg.2 m h1
  · exact absurd hg.1 (Nat.not_lt.2 h1)

theorem lingering_hrel {a b : Core} (h : HRel a b) {c : ChanId} {m : Text} (hl : Lingering c m a) : Lingering c m b := by
  refine ⟨dead_hrel h hl.1, ?_⟩
  intro m' hm
  rcases h.old m' c hm with h1 | h1
  · exact hl.2 m' h1
  · exact absurd (dead_lt hl.1) (Nat.not_lt.2 h1)

/-- the Closed fallback of `process_notification`: a notification for `m` that finds the receiver
gone removes the entry, delivers nothing, and leaves no entry pointing to the channel -/
theorem lingering_notification (st : Core) (c : ChanId) (m : Text) (p : Option Text) (hl : Lingering c m st) :
    Gone c (processNotification st m p).1 ∧ alookup m (processNotification st m p).1.mgr.handlers ≠ some c ∧
    (alookup m st.mgr.handlers = some c →
       alookup m (processNotification st m p).1.mgr.handlers = none ∧ (processNotification st m p).2 = []) := by
  have hlt := dead_lt hl.1
  have hrel := hrel_processNotification st m p
  have hkey : alookup m st.mgr.handlers = some c →
      alookup m (processNotification st m p).1.mgr.handlers = none ∧ (processNotification st m p).2 = [] := by
    intro hm
    obtain ⟨ch, hc, hr⟩ := hl.1
    have hs : ch.sendRes = .closed ∨ ch.sendRes = .full := by
      unfold Chan.sendRes
      cases ch.lagged <;> simp [hr]
    unfold processNotification
    have h1 : st.mgr.asNotificationHandler m = some c := hm
    simp only [h1, hc]
    rcases hs with hs | hs
    · simp only [hs]
      exact ⟨alookup_aerase_self m st.mgr.handlers, by first | rfl | trivial⟩
    · simp only [hs]
      exact ⟨alookup_aerase_self m st.mgr.handlers, by first | rfl | trivial⟩
  have hne : alookup m (processNotification st m p).1.mgr.handlers ≠ some c := by
    intro hm
    rcases hrel.old m c hm with h1 | h1
    · rw [(hkey h1).1] at hm; simp at hm
    · exact absurd hlt (Nat.not_lt.2 h1)
  refine ⟨⟨Nat.lt_of_lt_of_le hlt hrel.chans.1, ?_⟩, hne, hkey⟩
  intro m' hm'
  rcases hrel.old m' c hm' with h1 | h1
  · have e := hl.2 m' h1
    subst e
    exact hne hm'
  · exact absurd hlt (Nat.not_lt.2 h1)

/-- the `UnregisterNotification(m)` message does the same -/
theorem lingering_unregister (st : Core) (c : ChanId) (m : Text) (hl : Lingering c m st) :
    Gone c (handleFront st (.unregisterNotif m)).1 ∧
    alookup m (handleFront st (.unregisterNotif m)).1.mgr.handlers = none := by
  have hlt := dead_lt hl.1
  have hrel := hrel_handleFront st (.unregisterNotif m)
  have hnone : alookup m (handleFront st (.unregisterNotif m)).1.mgr.handlers = none := by
    unfold handleFront
    simp only
    cases h1 : (st.mgr.removeNotificationHandler m).2 with
    | none =>
      simp only
      exact h1
    | some c' =>
      simp only
      exact alookup_aerase_self m st.mgr.handlers
  refine ⟨⟨Nat.lt_of_lt_of_le hlt hrel.chans.1, ?_⟩, hnone⟩
  intro m' hm'
  rcases hrel.old m' c hm' with h1 | h1
  · have e := hl.2 m' h1
    subst e
    rw [hnone] at hm'; simp at hm'
  · exact absurd hlt (Nat.not_lt.2 h1)

end Jrpc.Client
