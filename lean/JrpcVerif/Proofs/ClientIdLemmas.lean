/-
  C12 / C03 support: request ids of batches in flight.

  `cov k st` = how many batches in flight (queued for the send task, or pending in the manager) use
  the id number `k`.  With the allocator advancing by the batch length (`step`, `.newBatch`) it never
  exceeds 1 and is 0 from `nextId` on: the id ranges of batches in flight are pairwise disjoint and
  every id handed out later lies above them.  With the former allocation (`stepOldAlloc`) it does not
  hold (Theorems/C12.lean, `c12_old_allocation_refuted`).
-/
import JrpcVerif.Proofs.ClientQuiesceLemmas
namespace Jrpc.Client
open Jrpc

def inIv (k : Nat) (iv : Nat × Nat) : Bool := decide (iv.1 ≤ k) && decide (k < iv.2)

/-- pending batches (manager table) whose id range contains `k` -/
def ivCount (k : Nat) : List ((Nat × Nat) × Ticket) → Nat
  | [] => 0
  | (iv, _) :: r => (if inIv k iv then 1 else 0) + ivCount k r

def msgIv (k : Nat) : FrontMsg → Nat
  | .batch lo hi _ _ => if inIv k (lo, hi) then 1 else 0
  | _ => 0

/-- batches still queued for the send task whose id range contains `k` -/
def poolIv (k : Nat) : List FrontMsg → Nat
  | [] => 0
  | m :: r => msgIv k m + poolIv k r

def cov (k : Nat) (st : St) : Nat := poolIv k st.pool + ivCount k st.core.mgr.batches

theorem poolIv_append (k : Nat) (a b : List FrontMsg) : poolIv k (a ++ b) = poolIv k a + poolIv k b := by
  induction a with
  | nil => simp [poolIv]
  | cons x xs ih => simp [poolIv, ih]; omega

theorem poolIv_removeAt (k : Nat) (l : List FrontMsg) (i : Nat) (m : FrontMsg) (h : l[i]? = some m) :
    poolIv k (removeAt l i) + msgIv k m = poolIv k l := by
  induction l generalizing i with
  | nil => simp at h
  | cons x xs ih =>
    cases i with
    | zero => simp at h; subst h; simp [removeAt, poolIv]; omega
    | succ j =>
      simp at h
      have := ih j h
      simp only [removeAt, poolIv]
      omega

theorem msgIv_of_noTicket (k : Nat) (m : FrontMsg) (h : msgOp m = none) : msgIv k m = 0 := by
  cases m <;> simp [msgOp] at h <;> rfl

theorem poolIv_of_noTicket (k : Nat) (l : List FrontMsg) (h : ∀ m ∈ l, msgOp m = none) : poolIv k l = 0 := by
  induction l with
  | nil => rfl
  | cons x xs ih =>
    simp only [poolIv]
    rw [msgIv_of_noTicket k x (h x (by simp)), ih (fun m hm => h m (by simp [hm]))]

theorem ivCount_aerase_le (k : Nat) (key : Nat × Nat) (l : List ((Nat × Nat) × Ticket)) :
    ivCount k (aerase key l) ≤ ivCount k l := by
  induction l with
  | nil => simp [aerase]
  | cons p r ih =>
    obtain ⟨iv, t⟩ := p
    simp only [aerase]
    split <;> simp only [ivCount] <;> omega

/-- the batches table only shrinks -/
def BatShrink (a b : Core) : Prop := ∀ k, ivCount k b.mgr.batches ≤ ivCount k a.mgr.batches

theorem batShrink_refl (a : Core) : BatShrink a a := fun _ => Nat.le_refl _
theorem batShrink_trans (a b c : Core) (h1 : BatShrink a b) (h2 : BatShrink b c) : BatShrink a c :=
  fun k => Nat.le_trans (h2 k) (h1 k)

theorem batShrink_of_eq {a b : Core} (h : b.mgr.batches = a.mgr.batches) : BatShrink a b := by
  intro k; rw [h]; exact Nat.le_refl _

theorem modChan_batches (st : Core) (c : ChanId) (f : Chan → Chan) : (st.modChan c f).mgr.batches = st.mgr.batches := rfl

theorem batShrink_processSubscriptionResponse (st : Core) (s : SubId) (p : Text) :
    BatShrink st (processSubscriptionResponse st s p).1 :=
  batShrink_of_eq (by rw [(processSubscriptionResponse_frame st s p).1])

theorem batShrink_processSubscriptionClose (st : Core) (s : SubId) : BatShrink st (processSubscriptionClose st s) := by
  unfold processSubscriptionClose
  cases h1 : st.mgr.getRequestIdBySubscriptionId s with
  | none => exact batShrink_refl _
  | some rid =>
    simp only
    cases h2 : st.mgr.removeSubscription rid s with
    | none => exact batShrink_refl _
    | some x =>
      obtain ⟨m', uid, c, um⟩ := x
      obtain ⟨_, _, e⟩ := removeSubscription_spec _ _ _ _ _ _ _ h2
      simp only
      apply batShrink_of_eq
      rw [modChan_batches]
      show m'.batches = st.mgr.batches
      rw [e]; exact (removedMgr_others st.mgr rid uid s).2.1

theorem batShrink_processNotification (st : Core) (m : Text) (p : Option Text) :
    BatShrink st (processNotification st m p).1 := by
  unfold processNotification
  split
  · exact batShrink_refl _
  · split
    · exact batShrink_refl _
    · split <;> exact batShrink_of_eq rfl

theorem batShrink_processBatchResponse (st : Core) (rps : List Response) (lo hi : Nat) :
    BatShrink st (processBatchResponse st rps lo hi).1 := by
  unfold processBatchResponse
  cases hc : st.mgr.completePendingBatch (lo, hi) with
  | none => exact batShrink_refl _
  | some x =>
    obtain ⟨m', t⟩ := x
    obtain ⟨_, e⟩ := completePendingBatch_spec _ _ _ _ hc
    subst e
    simp only
    split <;> exact fun k => ivCount_aerase_le k (lo, hi) st.mgr.batches

theorem batShrink_completeSubscribe (st : Core) (r : Response) (uid : Id) (t : Ticket) (um : Text) :
    BatShrink st (completeSubscribe st r uid t um).1 := by
  have hrel : BatShrink st { st with mgr := st.mgr.releaseReservedSlot uid } :=
    batShrink_of_eq (releaseReservedSlot_others st.mgr uid).2.1
  unfold completeSubscribe
  cases hp : r.payload with
  | error e => exact hrel
  | result raw =>
    simp only
    cases hd : decodeSubId raw with
    | none => exact hrel
    | some s =>
      simp only
      cases hins : st.mgr.insertSubscription r.id uid s st.chans.length um with
      | none => exact hrel
      | some m' =>
        obtain ⟨_, _, e⟩ := insertSubscription_spec _ _ _ _ _ _ _ hins
        have hb : m'.batches = st.mgr.batches := by rw [e]
        simp only
        cases hal : st.alive t with
        | true => simp only [if_true]; exact batShrink_of_eq hb
        | false =>
          simp only [Bool.false_eq_true, if_false]
          unfold abandonedSubscribe
          exact batShrink_of_eq hb

theorem batShrink_processSingleResponse (st st' : Core) (r : Response) (effs : List Effect)
    (hp : processSingleResponse st r = .ok (st', effs)) : BatShrink st st' := by
  unfold processSingleResponse at hp
  cases hs : st.mgr.requestStatus r.id with
  | pendingCall =>
    simp only [hs] at hp
    cases hcp : st.mgr.completePendingCall r.id with
    | none => simp [hcp] at hp
    | some x =>
      obtain ⟨m', t0⟩ := x
      obtain ⟨_, hb, _⟩ := completePendingCall_frame _ _ _ _ hcp
      cases t0 with
      | some t =>
        simp [hcp] at hp
        rw [← hp.1]; exact batShrink_of_eq hb
      | none =>
        simp [hcp] at hp
        rw [← hp.1]
        apply batShrink_of_eq
        rw [ackAt_mgr]; exact hb
  | pendingSub =>
    simp only [hs] at hp
    cases hcp : st.mgr.completePendingSubscription r.id with
    | none => simp [hcp] at hp
    | some x =>
      obtain ⟨m', uid, t0, um⟩ := x
      obtain ⟨_, e⟩ := completePendingSubscription_spec _ _ _ _ _ _ hcp
      simp [hcp] at hp
      have hb : m'.batches = st.mgr.batches := by rw [e]
      have h2 := batShrink_completeSubscribe { st with mgr := m' } r uid t0 um
      rw [hp] at h2
      exact batShrink_trans _ _ _ (batShrink_of_eq (a := st) (b := { st with mgr := m' }) hb) h2
  | sub => simp [hs] at hp
  | invalid => simp [hs] at hp

theorem batShrink_handleBack (st : Core) (raw : Text) : BatShrink st (handleBack st raw).st :=
  handleBack_rel BatShrink batShrink_refl batShrink_trans
    batShrink_processSubscriptionResponse batShrink_processSubscriptionClose batShrink_processNotification
    batShrink_processBatchResponse st raw (fun r c' effs _ hp => batShrink_processSingleResponse st c' r effs hp)

/-- the send task: a queued batch moves into the table (or is refused), nothing else touches it -/
theorem ivCount_handleFront (k : Nat) (st : Core) (msg : FrontMsg) :
    ivCount k (handleFront st msg).1.mgr.batches ≤ ivCount k st.mgr.batches + msgIv k msg := by
  unfold handleFront
  cases msg with
  | batch lo hi t0 raw =>
    simp only
    cases h1 : st.mgr.insertPendingBatch (lo, hi) t0 with
    | none => simp only; omega
    | some m' =>
      unfold Mgr.insertPendingBatch at h1
      split at h1
      · simp at h1
      · simp at h1; subst h1
        simp only [ivCount, msgIv]
        omega
  | notification raw => simp only [msgIv]; omega
  | request id t0 raw =>
    simp only [msgIv]
    cases h1 : st.mgr.insertPendingCall id t0 with
    | none => cases t0 <;> simp only <;> omega
    | some m' =>
      unfold Mgr.insertPendingCall at h1
      split at h1
      · simp at h1
      · simp at h1; subst h1; simp only; omega
  | subscribe sid uid t0 um raw =>
    simp only [msgIv]
    cases h1 : st.mgr.insertPendingSubscription sid uid t0 um with
    | none => simp only; omega
    | some m' =>
      unfold Mgr.insertPendingSubscription at h1
      split at h1
      · simp at h1; subst h1; simp only; omega
      · simp at h1
  | subscriptionClosed s =>
    simp only [msgIv]
    cases h1 : st.mgr.getRequestIdBySubscriptionId s with
    | none => simp only; omega
    | some rid =>
      simp only
      cases h2 : st.mgr.asSubscription rid with
      | none => simp only; omega
      | some c =>
        cases hb : buildUnsubscribeMessage st rid s with
        | none => simp only; omega
        | some x =>
          obtain ⟨st', msg⟩ := x
          obtain ⟨uid, c0, um, _, _, hm, _, _, _, hmsg⟩ := buildUnsub_spec _ _ _ _ _ hb
          subst hmsg
          simp only [modChan_batches]
          rw [hm, (unsubMgr_others st.mgr rid uid s c0).2.1]
          omega
  | registerNotif meth t0 =>
    simp only [msgIv]
    cases h1 : st.mgr.insertNotificationHandler meth st.chans.length with
    | some m' =>
      unfold Mgr.insertNotificationHandler at h1
      split at h1
      · simp at h1
      · simp at h1; subst h1
        simp only
        split <;> (simp only [modChan_batches]; exact Nat.le_add_right _ _)
    | none => simp only; omega
  | unregisterNotif meth =>
    simp only [msgIv]
    cases h1 : (st.mgr.removeNotificationHandler meth).2 with
    | none => simp only; omega
    | some c => simp only [modChan_batches]; exact Nat.le_add_right _ _

/-- **ids of batches in flight**: no id number is used by two of them, and none at or above the
allocator's next id is used at all -/
def BatchIds (st : St) : Prop := (∀ k, cov k st ≤ 1) ∧ (∀ k, st.nextId ≤ k → cov k st = 0)

theorem batchIds_init (cap : Nat) (sI : Bool) : BatchIds (St.init cap sI) := by
  constructor <;> intro k <;> simp [cov, St.init, poolIv, ivCount]

theorem closeMsg_iv (k : Nat) (o : Owner) : msgIv k (closeMsg o) = 0 := by cases o <;> rfl

/-- steps that queue a message without a batch range and may raise the allocator -/
theorem batchIds_push (st : St) (m : FrontMsg) (d : Nat) (hm : ∀ k, msgIv k m = 0) (h : BatchIds st) :
    BatchIds { st with pool := st.pool ++ [m], nextId := st.nextId + d } := by
  have e : ∀ k, cov k { st with pool := st.pool ++ [m], nextId := st.nextId + d } = cov k st := by
    intro k
    simp only [cov, poolIv_append, poolIv, hm k]
    omega
  constructor
  · intro k; rw [e]; exact h.1 k
  · intro k hk; rw [e]; exact h.2 k (by simp only at hk; omega)

theorem batchIds_of_cov_le (st st' : St) (hc : ∀ k, cov k st' ≤ cov k st) (hn : st.nextId ≤ st'.nextId) (h : BatchIds st) :
    BatchIds st' := by
  constructor
  · intro k; exact Nat.le_trans (hc k) (h.1 k)
  · intro k hk
    have := h.2 k (Nat.le_trans hn hk)
    have := hc k
    omega

theorem batchIds_step (st : St) (s : Step) (h : BatchIds st) : BatchIds (step st s).st := by
  cases s with
  | newCall meth params =>
    have := batchIds_push st (.request (mkId st.strIds st.nextId) (some { op := st.nextOp, wire := mkId st.strIds st.nextId })
      (encodeRequest { id := mkId st.strIds st.nextId, method := meth, params := params })) 1 (fun _ => rfl) h
    exact ⟨this.1, this.2⟩
  | newSubscribe sm um =>
    have := batchIds_push st (.subscribe (mkId st.strIds st.nextId) (mkId st.strIds (st.nextId + 1))
      { op := st.nextOp, wire := mkId st.strIds st.nextId } um
      (encodeRequest { id := mkId st.strIds st.nextId, method := sm, params := none })) 2 (fun _ => rfl) h
    exact ⟨this.1, this.2⟩
  | newRegister meth =>
    have := batchIds_push st (.registerNotif meth { op := st.nextOp, wire := .null }) 0 (fun _ => rfl) h
    exact ⟨this.1, this.2⟩
  | newNotification raw =>
    have := batchIds_push st (.notification raw) 1 (fun _ => rfl) h
    exact ⟨this.1, this.2⟩
  | newBatch meth n =>
    -- the new range `[nextId, nextId+n)` starts where nothing in flight reaches, and the allocator moves past it
    have e : ∀ k, cov k (step st (.newBatch meth n)).st = cov k st + (if inIv k (st.nextId, st.nextId + n) then 1 else 0) := by
      intro k
      simp only [step, cov, poolIv_append, poolIv, msgIv]
      omega
    constructor
    · intro k
      rw [e]
      by_cases hk : st.nextId ≤ k
      · rw [h.2 k hk]; split <;> omega
      · have : inIv k (st.nextId, st.nextId + n) = false := by simp [inIv, hk]
        rw [this]; simp only [Bool.false_eq_true, if_false, Nat.add_zero]; exact h.1 k
    · intro k hk
      have hk' : st.nextId + n ≤ k := hk
      rw [e, h.2 k (by omega)]
      have : inIv k (st.nextId, st.nextId + n) = false := by
        simp only [inIv, Bool.and_eq_false_imp, decide_eq_true_eq, decide_eq_false_iff_not]
        intro _; omega
      rw [this]; rfl
  | abandon op => exact ⟨h.1, h.2⟩
  | sendTask i =>
    cases hp : st.pool[i]? with
    | none =>
      have e : step st (.sendTask i) = { st := st } := by simp only [step, hp]
      rw [e]; exact h
    | some msg =>
      have e : step st (.sendTask i) =
          { st := { st with core := (handleFront st.core msg).1, pool := removeAt st.pool i },
            effs := (handleFront st.core msg).2 } := by simp only [step, hp]
      rw [e]
      refine batchIds_of_cov_le st _ (fun k => ?_) (Nat.le_refl _) h
      have h1 := poolIv_removeAt k st.pool i msg hp
      have h2 := ivCount_handleFront k st.core msg
      simp only [cov]
      omega
  | recv raw =>
    refine batchIds_of_cov_le st _ (fun k => ?_) (Nat.le_refl _) h
    have h1 := batShrink_handleBack st.core raw k
    have h2 : poolIv k (queuedMsgs (handleBack st.core raw).effs) = 0 :=
      poolIv_of_noTicket k _ (handleBack_count 0 st.core raw).2
    simp only [step, cov, poolIv_append, h2]
    omega
  | next c =>
    refine batchIds_of_cov_le st _ (fun k => ?_) ?_ h
    · simp only [step]
      split
      · exact Nat.le_refl _
      · split
        · exact Nat.le_refl _
        · split
          · exact Nat.le_refl _
          · split <;> exact Nat.le_refl _
    · simp only [step]
      split
      · exact Nat.le_refl _
      · split
        · exact Nat.le_refl _
        · split
          · exact Nat.le_refl _
          · split <;> exact Nat.le_refl _
  | dropStream c room =>
    refine batchIds_of_cov_le st _ (fun k => ?_) ?_ h
    · simp only [step]
      split
      · exact Nat.le_refl _
      · split
        · exact Nat.le_refl _
        · simp only [cov, modChan_batches]
          split
          · rw [poolIv_append]; simp only [poolIv, closeMsg_iv]; omega
          · exact Nat.le_refl _
    · simp only [step]
      split
      · exact Nat.le_refl _
      · split <;> exact Nat.le_refl _
  | unsubscribeStream c =>
    refine batchIds_of_cov_le st _ (fun k => ?_) ?_ h
    · simp only [step]
      split
      · exact Nat.le_refl _
      · split
        · exact Nat.le_refl _
        · simp only [cov, modChan_batches]
          rw [poolIv_append]; simp only [poolIv, closeMsg_iv]; omega
    · simp only [step]
      split
      · exact Nat.le_refl _
      · split <;> exact Nat.le_refl _

theorem batchIds_reachable (st : St) (h : Reachable st) : BatchIds st :=
  reachable_inv BatchIds batchIds_init batchIds_step st h

/-- two table entries under different keys whose ranges both contain `k` count twice -/
theorem ivCount_two (k : Nat) (l : List ((Nat × Nat) × Ticket)) (a b : Nat × Nat) (hne : a ≠ b)
    (ha : a ∈ akeys l) (hb : b ∈ akeys l) (ka : inIv k a = true) (kb : inIv k b = true) : 2 ≤ ivCount k l := by
  induction l with
  | nil => simp [akeys] at ha
  | cons p r ih =>
    obtain ⟨iv, t⟩ := p
    simp only [akeys, List.mem_cons] at ha hb
    simp only [ivCount]
    have one : ∀ c : Nat × Nat, c ∈ akeys r → inIv k c = true → 1 ≤ ivCount k r := by
      intro c hc kc
      clear ih ha hb
      induction r with
      | nil => simp [akeys] at hc
      | cons q s ih2 =>
        obtain ⟨iv2, t2⟩ := q
        simp only [akeys, List.mem_cons] at hc
        simp only [ivCount]
        rcases hc with e | e
        · subst e; simp [kc]
        · have := ih2 e; omega
    rcases ha with e1 | e1 <;> rcases hb with e2 | e2
    · exact absurd (e1.trans e2.symm) hne
    · subst e1; have := one b e2 kb; simp [ka]; omega
    · subst e2; have := one a e1 ka; simp [kb]; omega
    · have := ih e1 e2; omega

end Jrpc.Client
