/-
  Helper lemmas for the async-client family (C12 C03 C18 C05): slot filling, id ranges,
  association lists, the manager tables and the step machine.
-/
import JrpcVerif.Model.ClientMgr
namespace Jrpc.Client
open Jrpc

/-! ### `setAt` -/

theorem setAt_length {α} (l : List α) (i : Nat) (a : α) (l' : List α) (h : setAt l i a = some l') :
    l'.length = l.length := by
  induction l generalizing i l' with
  | nil => simp [setAt] at h
  | cons x xs ih =>
    cases i with
    | zero => simp [setAt] at h; subst h; simp
    | succ i =>
      simp only [setAt] at h
      split at h
      · rename_i r hr; simp at h; subst h; simp [ih i r hr]
      · simp at h

theorem setAt_isSome {α} (l : List α) (i : Nat) (a : α) : (setAt l i a).isSome = decide (i < l.length) := by
  induction l generalizing i with
  | nil => simp [setAt]
  | cons x xs ih =>
    cases i with
    | zero => simp [setAt]
    | succ i =>
      simp only [setAt]
      have := ih i
      split <;> simp_all

theorem setAt_get {α} (l : List α) (i : Nat) (a : α) (l' : List α) (h : setAt l i a = some l') (j : Nat) :
    l'[j]? = if j = i then some a else l[j]? := by
  induction l generalizing i l' j with
  | nil => simp [setAt] at h
  | cons x xs ih =>
    cases i with
    | zero =>
      simp [setAt] at h; subst h
      cases j <;> simp
    | succ i =>
      simp only [setAt] at h
      split at h
      · rename_i r hr
        simp at h; subst h
        cases j with
        | zero => simp
        | succ j => simp [ih i r hr j]
      · simp at h

theorem setAt_none_iff {α} (l : List α) (i : Nat) (a : α) : setAt l i a = none ↔ l.length ≤ i := by
  have := setAt_isSome l i a
  cases h : setAt l i a <;> simp_all

/-! ### `lastWith` -/

theorem lastWith_append (k : Nat) (a b : List Response) :
    lastWith k (a ++ b) = match lastWith k b with
      | some r => some r
      | none => lastWith k a := by
  induction a with
  | nil => simp [lastWith]; cases lastWith k b <;> rfl
  | cons x xs ih =>
    simp only [List.cons_append, lastWith, ih]
    cases lastWith k b <;> simp

theorem lastWith_some_mem (k : Nat) (l : List Response) (r : Response) (h : lastWith k l = some r) :
    r ∈ l ∧ idNum r.id = some k := by
  induction l with
  | nil => simp [lastWith] at h
  | cons x xs ih =>
    simp only [lastWith] at h
    cases hx : lastWith k xs with
    | some r' =>
      simp [hx] at h; subst h
      exact ⟨List.mem_cons_of_mem _ (ih hx).1, (ih hx).2⟩
    | none =>
      simp [hx] at h
      obtain ⟨h1, h2⟩ := h
      subst h2
      exact ⟨List.mem_cons_self, h1⟩

theorem lastWith_none_iff (k : Nat) (l : List Response) :
    lastWith k l = none ↔ ∀ r ∈ l, idNum r.id ≠ some k := by
  induction l with
  | nil => simp [lastWith]
  | cons x xs ih =>
    simp only [lastWith]
    cases hx : lastWith k xs with
    | some r' =>
      simp
      have := lastWith_some_mem k xs r' hx
      exact fun _ => ⟨r', this.1, this.2⟩
    | none =>
      rw [hx] at ih
      simp at ih
      by_cases hxk : idNum x.id = some k <;> simp [hxk]
      exact ih

/-! ### the fill loops -/

/-- value in slot `i` after the loop: the last reply for id `start+i`, else what was there -/
theorem fillSlots_spec (start : Nat) (rs : List Response) :
    ∀ (slots out : List Response), fillSlots start slots rs = .ok out →
      out.length = slots.length ∧
      (∀ i, out[i]? = match lastWith (start + i) rs with
                      | some r => if i < slots.length then some r else none
                      | none => slots[i]?) ∧
      (∀ r ∈ rs, ∃ k, idNum r.id = some k ∧ start ≤ k ∧ k < start + slots.length) := by
  induction rs with
  | nil =>
    intro slots out h
    simp [fillSlots] at h; subst h
    simp [lastWith]
  | cons rp rest ih =>
    intro slots out h
    simp only [fillSlots] at h
    cases hid : idNum rp.id with
    | none => simp [hid] at h
    | some id =>
      simp only [hid] at h
      by_cases hlt : id < start
      · simp [hlt] at h
      · simp only [hlt, if_false] at h
        cases hs : setAt slots (id - start) rp with
        | none => simp [hs] at h
        | some slots' =>
          simp only [hs] at h
          obtain ⟨h1, h2, h3⟩ := ih slots' out h
          have hlen := setAt_length _ _ _ _ hs
          have hin : id - start < slots.length := by
            have := setAt_isSome slots (id - start) rp
            simp [hs] at this; exact this
          refine ⟨by omega, ?_, ?_⟩
          · intro i
            rw [h2 i]
            simp only [lastWith]
            cases hl : lastWith (start + i) rest with
            | some r => simp [hlen]
            | none =>
              simp only [hid]
              rw [setAt_get _ _ _ _ hs i]
              by_cases hi : i = id - start
              · subst hi
                have : start + (id - start) = id := by omega
                simp [this, hin]
              · have : ¬ (id = start + i) := by omega
                simp [hi, this]
          · intro r hr
            cases hr with
            | head => exact ⟨id, hid, by omega, by omega⟩
            | tail _ hr' =>
              obtain ⟨k, hk1, hk2, hk3⟩ := h3 r hr'
              exact ⟨k, hk1, hk2, by omega⟩

/-- the loop succeeds exactly when every id reads as a number inside the slot range -/
theorem fillSlots_ok_of_inRange (start : Nat) (rs : List Response) :
    ∀ (slots : List Response),
      (∀ r ∈ rs, ∃ k, idNum r.id = some k ∧ start ≤ k ∧ k < start + slots.length) →
      ∃ out, fillSlots start slots rs = .ok out := by
  induction rs with
  | nil => intro slots _; exact ⟨slots, rfl⟩
  | cons rp rest ih =>
    intro slots h
    obtain ⟨k, hk, hk1, hk2⟩ := h rp List.mem_cons_self
    simp only [fillSlots, hk]
    have hlt : ¬ k < start := by omega
    simp only [hlt, if_false]
    cases hs : setAt slots (k - start) rp with
    | none =>
      have := (setAt_none_iff slots (k - start) rp).1 hs
      omega
    | some slots' =>
      have hlen := setAt_length _ _ _ _ hs
      apply ih slots'
      intro r hr
      obtain ⟨k', a, b, c⟩ := h r (List.mem_cons_of_mem _ hr)
      exact ⟨k', a, b, by omega⟩

theorem httpFill_spec (start : Nat) (rs : List Response) :
    ∀ (slots out : List Payload), httpFill start slots rs = .ok out →
      out.length = slots.length ∧
      (∀ i, out[i]? = match lastWith (start + i) rs with
                      | some r => if i < slots.length then some r.payload else none
                      | none => slots[i]?) ∧
      (∀ r ∈ rs, ∃ k, idNum r.id = some k ∧ start ≤ k ∧ k < start + slots.length) := by
  induction rs with
  | nil =>
    intro slots out h
    simp [httpFill] at h; subst h
    simp [lastWith]
  | cons rp rest ih =>
    intro slots out h
    simp only [httpFill] at h
    cases hid : idNum rp.id with
    | none => simp [hid] at h
    | some id =>
      simp only [hid] at h
      by_cases hlt : id < start
      · simp [hlt] at h
      · simp only [hlt, if_false] at h
        cases hs : setAt slots (id - start) rp.payload with
        | none => simp [hs] at h
        | some slots' =>
          simp only [hs] at h
          obtain ⟨h1, h2, h3⟩ := ih slots' out h
          have hlen := setAt_length _ _ _ _ hs
          have hin : id - start < slots.length := by
            have := setAt_isSome slots (id - start) rp.payload
            simp [hs] at this; exact this
          refine ⟨by omega, ?_, ?_⟩
          · intro i
            rw [h2 i]
            simp only [lastWith]
            cases hl : lastWith (start + i) rest with
            | some r => simp [hlen]
            | none =>
              simp only [hid]
              rw [setAt_get _ _ _ _ hs i]
              by_cases hi : i = id - start
              · subst hi
                have : start + (id - start) = id := by omega
                simp [this, hin]
              · have : ¬ (id = start + i) := by omega
                simp [hi, this]
          · intro r hr
            cases hr with
            | head => exact ⟨id, hid, by omega, by omega⟩
            | tail _ hr' =>
              obtain ⟨k, hk1, hk2, hk3⟩ := h3 r hr'
              exact ⟨k, hk1, hk2, by omega⟩

theorem httpFill_ok_of_inRange (start : Nat) (rs : List Response) :
    ∀ (slots : List Payload),
      (∀ r ∈ rs, ∃ k, idNum r.id = some k ∧ start ≤ k ∧ k < start + slots.length) →
      ∃ out, httpFill start slots rs = .ok out := by
  induction rs with
  | nil => intro slots _; exact ⟨slots, rfl⟩
  | cons rp rest ih =>
    intro slots h
    obtain ⟨k, hk, hk1, hk2⟩ := h rp List.mem_cons_self
    simp only [httpFill, hk]
    have hlt : ¬ k < start := by omega
    simp only [hlt, if_false]
    cases hs : setAt slots (k - start) rp.payload with
    | none =>
      have := (setAt_none_iff slots (k - start) rp.payload).1 hs
      omega
    | some slots' =>
      have hlen := setAt_length _ _ _ _ hs
      apply ih slots'
      intro r hr
      obtain ⟨k', a, b, c⟩ := h r (List.mem_cons_of_mem _ hr)
      exact ⟨k', a, b, by omega⟩

/-! ### id range of a reply array -/

theorem replyRange_some (rs : List Response) :
    ∀ (lo hi : Nat) (res : Option (Nat × Nat)), replyRange (some (lo, hi)) rs = .ok res →
      ∃ lo' hi', res = some (lo', hi') ∧ lo' ≤ lo ∧ hi ≤ hi' ∧
        (∀ r ∈ rs, ∃ k, idNum r.id = some k ∧ lo' ≤ k ∧ k ≤ hi') ∧
        (lo' = lo ∨ ∃ r ∈ rs, idNum r.id = some lo') ∧
        (hi' = hi ∨ ∃ r ∈ rs, idNum r.id = some hi') := by
  induction rs with
  | nil =>
    intro lo hi res h
    simp [replyRange] at h; subst h
    exact ⟨lo, hi, rfl, Nat.le_refl _, Nat.le_refl _, by simp, Or.inl rfl, Or.inl rfl⟩
  | cons rp rest ih =>
    intro lo hi res h
    simp only [replyRange] at h
    cases hid : idNum rp.id with
    | none => simp [hid] at h
    | some id =>
      simp only [hid, widen] at h
      obtain ⟨lo', hi', e, h1, h2, h3, h4, h5⟩ := ih _ _ res h
      refine ⟨lo', hi', e, ?_, ?_, ?_, ?_, ?_⟩
      · split at h1 <;> omega
      · split at h2 <;> omega
      · intro r hr
        cases hr with
        | head => exact ⟨id, hid, by split at h1 <;> omega, by split at h2 <;> omega⟩
        | tail _ hr' => exact h3 r hr'
      · rcases h4 with h4 | ⟨r, hr, hk⟩
        · by_cases c : id < lo
          · simp [c] at h4; exact Or.inr ⟨rp, List.mem_cons_self, by rw [hid, h4]⟩
          · simp [c] at h4; exact Or.inl h4
        · exact Or.inr ⟨r, List.mem_cons_of_mem _ hr, hk⟩
      · rcases h5 with h5 | ⟨r, hr, hk⟩
        · by_cases c : id > hi
          · simp [c] at h5; exact Or.inr ⟨rp, List.mem_cons_self, by rw [hid, h5]⟩
          · simp [c] at h5; exact Or.inl h5
        · exact Or.inr ⟨r, List.mem_cons_of_mem _ hr, hk⟩

/-- from the empty accumulator: `none` iff there is no reply; otherwise the attained min and max -/
theorem replyRange_none (rs : List Response) (res : Option (Nat × Nat)) (h : replyRange none rs = .ok res) :
    (rs = [] ∧ res = none) ∨
    ∃ lo hi, res = some (lo, hi) ∧
      (∀ r ∈ rs, ∃ k, idNum r.id = some k ∧ lo ≤ k ∧ k ≤ hi) ∧
      (∃ r ∈ rs, idNum r.id = some lo) ∧ (∃ r ∈ rs, idNum r.id = some hi) := by
  cases rs with
  | nil => simp [replyRange] at h; exact Or.inl ⟨rfl, h.symm⟩
  | cons rp rest =>
    right
    simp only [replyRange] at h
    cases hid : idNum rp.id with
    | none => simp [hid] at h
    | some id =>
      simp only [hid, widen] at h
      obtain ⟨lo', hi', e, h1, h2, h3, h4, h5⟩ := replyRange_some rest id id res h
      refine ⟨lo', hi', e, ?_, ?_, ?_⟩
      · intro r hr
        cases hr with
        | head => exact ⟨id, hid, h1, h2⟩
        | tail _ hr' => exact h3 r hr'
      · rcases h4 with h4 | ⟨r, hr, hk⟩
        · exact ⟨rp, List.mem_cons_self, by rw [hid, h4]⟩
        · exact ⟨r, List.mem_cons_of_mem _ hr, hk⟩
      · rcases h5 with h5 | ⟨r, hr, hk⟩
        · exact ⟨rp, List.mem_cons_self, by rw [hid, h5]⟩
        · exact ⟨r, List.mem_cons_of_mem _ hr, hk⟩

theorem replyRange_ok_of_parse (rs : List Response) (h : ∀ r ∈ rs, ∃ k, idNum r.id = some k) :
    ∀ acc, ∃ res, replyRange acc rs = .ok res := by
  induction rs with
  | nil => intro acc; exact ⟨acc, rfl⟩
  | cons rp rest ih =>
    intro acc
    obtain ⟨k, hk⟩ := h rp List.mem_cons_self
    simp only [replyRange, hk]
    exact ih (fun r hr => h r (List.mem_cons_of_mem _ hr)) _

theorem replyRange_err (rs : List Response) : ∀ acc e, replyRange acc rs = .err e →
    ∃ r ∈ rs, idNum r.id = none ∧ e = .invalidId r.id := by
  induction rs with
  | nil => intro acc e h; simp [replyRange] at h
  | cons rp rest ih =>
    intro acc e h
    simp only [replyRange] at h
    cases hid : idNum rp.id with
    | none => simp [hid] at h; exact ⟨rp, List.mem_cons_self, hid, h.symm⟩
    | some id =>
      simp only [hid] at h
      obtain ⟨r, hr, a, b⟩ := ih _ _ h
      exact ⟨r, List.mem_cons_of_mem _ hr, a, b⟩

/-- min and max of a reply are determined by the set of ids: unique characterisation -/
theorem range_unique (rs : List Response) (lo hi lo' hi' : Nat)
    (h1 : ∀ r ∈ rs, ∃ k, idNum r.id = some k ∧ lo ≤ k ∧ k ≤ hi)
    (h2 : ∃ r ∈ rs, idNum r.id = some lo) (h3 : ∃ r ∈ rs, idNum r.id = some hi)
    (g1 : ∀ r ∈ rs, ∃ k, idNum r.id = some k ∧ lo' ≤ k ∧ k ≤ hi')
    (g2 : ∃ r ∈ rs, idNum r.id = some lo') (g3 : ∃ r ∈ rs, idNum r.id = some hi') :
    lo = lo' ∧ hi = hi' := by
  obtain ⟨a, ha, hak⟩ := h2
  obtain ⟨b, hb, hbk⟩ := h3
  obtain ⟨c, hc, hck⟩ := g2
  obtain ⟨d, hd, hdk⟩ := g3
  obtain ⟨k1, e1, _, _⟩ := g1 a ha
  obtain ⟨k2, e2, _, _⟩ := g1 b hb
  obtain ⟨k3, e3, _, _⟩ := h1 c hc
  obtain ⟨k4, e4, _, _⟩ := h1 d hd
  rw [hak] at e1; rw [hbk] at e2; rw [hck] at e3; rw [hdk] at e4
  simp at e1 e2 e3 e4
  omega

/-! ### the array loop of `handle_recv_message` -/

/-- the response entries of an array, in order -/
def responsesOf : List Text → List Response
  | [] => []
  | e :: r =>
    match classifyIncoming e with
    | .response x => x :: responsesOf r
    | _ => responsesOf r

/-- `complete` effects of an effect list -/
def completions : List Effect → List (Ticket × Outcome)
  | [] => []
  | .complete t o :: r => (t, o) :: completions r
  | _ :: r => completions r

theorem completions_append (a b : List Effect) : completions (a ++ b) = completions a ++ completions b := by
  induction a with
  | nil => rfl
  | cons x xs ih => cases x <;> simp [completions, ih]

theorem mem_completions (t : Ticket) (o : Outcome) (l : List Effect) :
    Effect.complete t o ∈ l ↔ (t, o) ∈ completions l := by
  induction l with
  | nil => simp [completions]
  | cons x xs ih => cases x <;> simp [completions, ih]

theorem completions_dropQueued (l : List Effect) : completions (dropQueued l) = completions l := by
  induction l with
  | nil => rfl
  | cons x xs ih =>
    cases x <;> simp [dropQueued, List.filter, notToFront, completions] <;> simpa [dropQueued] using ih

theorem modChan_mgr (st : Core) (c : ChanId) (f : Chan → Chan) : (st.modChan c f).mgr = st.mgr := rfl
theorem modChan_dead (st : Core) (c : ChanId) (f : Chan → Chan) : (st.modChan c f).dead = st.dead := rfl

theorem processSubscriptionResponse_frame (st : Core) (s : SubId) (p : Text) :
    (processSubscriptionResponse st s p).1.mgr = st.mgr ∧ (processSubscriptionResponse st s p).1.dead = st.dead ∧
    completions (processSubscriptionResponse st s p).2 = [] := by
  unfold processSubscriptionResponse
  split
  · simp [completions]
  · split
    · simp [completions]
    · split
      · simp [completions]
      · refine ⟨rfl, rfl, ?_⟩
        split <;> simp [completions]

theorem processNotification_frame (st : Core) (m : Text) (p : Option Text) :
    (processNotification st m p).1.mgr.batches = st.mgr.batches ∧ (processNotification st m p).1.dead = st.dead ∧
    completions (processNotification st m p).2 = [] := by
  unfold processNotification
  split
  · simp [completions]
  · split
    · simp [completions]
    · split <;> simp [completions, Core.modChan, Mgr.removeNotificationHandler]

theorem releaseReservedSlot_batches (m : Mgr) (id : Id) : (m.releaseReservedSlot id).batches = m.batches := by
  unfold Mgr.releaseReservedSlot; split <;> rfl

theorem processSubscriptionClose_frame (st : Core) (s : SubId) :
    (processSubscriptionClose st s).mgr.batches = st.mgr.batches ∧ (processSubscriptionClose st s).dead = st.dead := by
  unfold processSubscriptionClose
  split
  · simp
  · split
    · simp
    · rename_i h
      unfold Mgr.removeSubscription at h
      split at h
      · simp at h
        obtain ⟨h1, _⟩ := h
        subst h1
        simp [Core.modChan, releaseReservedSlot_batches]
      · simp at h

/-- what the loop leaves behind when it runs to the end -/
theorem arrayLoop_spec (es : List Text) : ∀ (acc acc' : ArrAcc), arrayLoop acc es = (acc', none) →
    acc'.batch = acc.batch ++ responsesOf es ∧
    replyRange acc.range (responsesOf es) = .ok acc'.range ∧
    acc'.st.mgr.batches = acc.st.mgr.batches ∧ acc'.st.dead = acc.st.dead ∧
    completions acc'.effs = completions acc.effs := by
  induction es with
  | nil =>
    intro acc acc' h
    simp [arrayLoop] at h; subst h
    simp [responsesOf, replyRange]
  | cons e rest ih =>
    intro acc acc' h
    rw [arrayLoop] at h
    cases hc : classifyIncoming e with
    | response r =>
      simp only [hc] at h
      cases hid : idNum r.id with
      | none => simp [hid] at h
      | some id =>
        simp only [hid] at h
        obtain ⟨h1, h2, h3, h4, h5⟩ := ih _ _ h
        simp only [responsesOf, hc, replyRange, hid]
        exact ⟨by simp [h1], h2, h3, h4, h5⟩
    | garbage => simp [hc] at h
    | subNotif s p =>
      simp only [hc] at h
      obtain ⟨h1, h2, h3, h4, h5⟩ := ih _ _ h
      obtain ⟨f1, f2, f3⟩ := processSubscriptionResponse_frame acc.st s p
      simp only [responsesOf, hc]
      refine ⟨h1, h2, by rw [h3]; simp [f1], by rw [h4]; simp [f2], by rw [h5]; simp [completions_append, f3]⟩
    | subClose s =>
      simp only [hc] at h
      obtain ⟨h1, h2, h3, h4, h5⟩ := ih _ _ h
      obtain ⟨f1, f2⟩ := processSubscriptionClose_frame acc.st s
      simp only [responsesOf, hc]
      exact ⟨h1, h2, by rw [h3]; simp [f1], by rw [h4]; simp [f2], h5⟩
    | notif m p =>
      simp only [hc] at h
      obtain ⟨h1, h2, h3, h4, h5⟩ := ih _ _ h
      obtain ⟨f1, f2, f3⟩ := processNotification_frame acc.st m p
      simp only [responsesOf, hc]
      refine ⟨h1, h2, by rw [h3]; simp [f1], by rw [h4]; simp [f2], by rw [h5]; simp [completions_append, f3]⟩

/-- when the loop stops early nothing has been completed -/
theorem arrayLoop_completions (es : List Text) : ∀ (acc acc' : ArrAcc) (f : Option Fatal), arrayLoop acc es = (acc', f) →
    completions acc'.effs = completions acc.effs := by
  induction es with
  | nil => intro acc acc' f h; simp [arrayLoop] at h; rw [h.1]
  | cons e rest ih =>
    intro acc acc' f h
    rw [arrayLoop] at h
    cases hc : classifyIncoming e with
    | response r =>
      simp only [hc] at h
      cases hid : idNum r.id with
      | none => simp [hid] at h; rw [h.1]
      | some id => simp only [hid] at h; have := ih _ _ _ h; exact this
    | garbage => simp [hc] at h; rw [h.1]
    | subNotif s p =>
      simp only [hc] at h
      rw [ih _ _ _ h]
      simp [completions_append, (processSubscriptionResponse_frame acc.st s p).2.2]
    | subClose s => simp only [hc] at h; have := ih _ _ _ h; exact this
    | notif m p =>
      simp only [hc] at h
      rw [ih _ _ _ h]
      simp [completions_append, (processNotification_frame acc.st m p).2.2]

/-- the loop runs to the end when nothing is garbage and every response id reads as a number -/
theorem arrayLoop_ok (es : List Text) (hg : ∀ e ∈ es, classifyIncoming e ≠ .garbage)
    (hp : ∀ r ∈ responsesOf es, ∃ k, idNum r.id = some k) : ∀ acc, ∃ acc', arrayLoop acc es = (acc', none) := by
  induction es with
  | nil => intro acc; exact ⟨acc, rfl⟩
  | cons e rest ih =>
    intro acc
    have hg' : ∀ e ∈ rest, classifyIncoming e ≠ .garbage := fun x hx => hg x (List.mem_cons_of_mem _ hx)
    rw [arrayLoop]
    cases hc : classifyIncoming e with
    | response r =>
      have hp' : ∀ r ∈ responsesOf rest, ∃ k, idNum r.id = some k := fun x hx => hp x (by simp [responsesOf, hc, hx])
      obtain ⟨k, hk⟩ := hp r (by simp [responsesOf, hc])
      simp only [hk]
      exact ih hg' hp' _
    | garbage => exact absurd hc (hg e List.mem_cons_self)
    | subNotif s p => exact ih hg' (fun x hx => hp x (by simpa [responsesOf, hc] using hx)) _
    | subClose s => exact ih hg' (fun x hx => hp x (by simpa [responsesOf, hc] using hx)) _
    | notif m p => exact ih hg' (fun x hx => hp x (by simpa [responsesOf, hc] using hx)) _

/-! ### association lists -/

section AList
variable {κ ν : Type} [DecidableEq κ]

theorem alookup_mem (k : κ) (v : ν) (l : List (κ × ν)) (h : alookup k l = some v) : (k, v) ∈ l := by
  induction l with
  | nil => simp [alookup] at h
  | cons p r ih =>
    obtain ⟨k', v'⟩ := p
    simp only [alookup] at h
    split at h
    · rename_i e; simp at h; subst e h; exact List.mem_cons_self
    · exact List.mem_cons_of_mem _ (ih h)

theorem alookup_none_iff (k : κ) (l : List (κ × ν)) : alookup k l = none ↔ k ∉ akeys l := by
  induction l with
  | nil => simp [alookup, akeys]
  | cons p r ih =>
    obtain ⟨k', v'⟩ := p
    simp only [alookup, akeys, List.mem_cons, not_or]
    by_cases e : k = k' <;> simp [e, ih]

theorem alookup_cons_self (k : κ) (v : ν) (l : List (κ × ν)) : alookup k ((k, v) :: l) = some v := by
  simp [alookup]

theorem alookup_cons_ne (k k' : κ) (v : ν) (l : List (κ × ν)) (h : k ≠ k') : alookup k ((k', v) :: l) = alookup k l := by
  simp [alookup, h]

theorem alookup_aerase_self (k : κ) (l : List (κ × ν)) : alookup k (aerase k l) = none := by
  induction l with
  | nil => rfl
  | cons p r ih =>
    obtain ⟨k', v'⟩ := p
    simp only [aerase]
    split
    · exact ih
    · rename_i e; simp [alookup, e, ih]

theorem alookup_aerase_ne (k k' : κ) (l : List (κ × ν)) (h : k ≠ k') : alookup k (aerase k' l) = alookup k l := by
  induction l with
  | nil => rfl
  | cons p r ih =>
    obtain ⟨k'', v'⟩ := p
    simp only [aerase]
    split
    · rename_i e; subst e; simp [alookup, h, ih]
    · simp only [alookup]; split <;> simp_all

theorem alookup_areplace_self (k : κ) (v : ν) (l : List (κ × ν)) (h : (alookup k l).isSome) :
    alookup k (areplace k v l) = some v := by
  induction l with
  | nil => simp [alookup] at h
  | cons p r ih =>
    obtain ⟨k', v'⟩ := p
    simp only [areplace]
    split
    · rename_i e; subst e; simp [alookup]
    · rename_i e; simp only [alookup, e, if_false] at h ⊢; exact ih h

theorem alookup_areplace_ne (k k' : κ) (v : ν) (l : List (κ × ν)) (h : k ≠ k') :
    alookup k (areplace k' v l) = alookup k l := by
  induction l with
  | nil => rfl
  | cons p r ih =>
    obtain ⟨k'', v'⟩ := p
    simp only [areplace]
    split
    · rename_i e; subst e; simp [alookup, h, ih]
    · simp only [alookup]; split <;> simp_all

theorem akeys_aerase_sublist (k : κ) (l : List (κ × ν)) : (akeys (aerase k l)).Sublist (akeys l) := by
  induction l with
  | nil => simp [aerase, akeys]
  | cons p r ih =>
    obtain ⟨k', v'⟩ := p
    simp only [aerase]
    split
    · simp only [akeys]; exact List.Sublist.cons _ ih
    · simp only [akeys]; exact List.Sublist.cons_cons _ ih

theorem akeys_areplace (k : κ) (v : ν) (l : List (κ × ν)) : akeys (areplace k v l) = akeys l := by
  induction l with
  | nil => rfl
  | cons p r ih =>
    obtain ⟨k', v'⟩ := p
    simp only [areplace]
    split <;> simp [akeys, ih]

theorem mem_akeys_aerase (k k' : κ) (l : List (κ × ν)) : k ∈ akeys (aerase k' l) ↔ k ∈ akeys l ∧ k ≠ k' := by
  induction l with
  | nil => simp [aerase, akeys]
  | cons p r ih =>
    obtain ⟨k'', v'⟩ := p
    simp only [aerase]
    split
    · rename_i e; subst e
      simp only [akeys, List.mem_cons, ih]
      constructor
      · intro ⟨h1, h2⟩; exact ⟨Or.inr h1, h2⟩
      · intro ⟨h1, h2⟩
        rcases h1 with h1 | h1
        · exact absurd h1 h2
        · exact ⟨h1, h2⟩
    · rename_i e
      simp only [akeys, List.mem_cons, ih]
      constructor
      · intro h
        rcases h with h | ⟨h1, h2⟩
        · subst h; exact ⟨Or.inl rfl, fun c => e c.symm⟩
        · exact ⟨Or.inr h1, h2⟩
      · intro ⟨h1, h2⟩
        rcases h1 with h1 | h1
        · exact Or.inl h1
        · exact Or.inr ⟨h1, h2⟩

theorem mem_aerase (p : κ × ν) (k : κ) (l : List (κ × ν)) (h : p ∈ aerase k l) : p ∈ l ∧ p.1 ≠ k := by
  induction l with
  | nil => simp [aerase] at h
  | cons q r ih =>
    obtain ⟨k', v'⟩ := q
    simp only [aerase] at h
    split at h
    · exact ⟨List.mem_cons_of_mem _ (ih h).1, (ih h).2⟩
    · rename_i e
      rcases List.mem_cons.1 h with h | h
      · subst h; exact ⟨List.mem_cons_self, fun c => e c.symm⟩
      · exact ⟨List.mem_cons_of_mem _ (ih h).1, (ih h).2⟩

theorem mem_areplace (p : κ × ν) (k : κ) (v : ν) (l : List (κ × ν)) (h : p ∈ areplace k v l) :
    p ∈ l ∨ p = (k, v) := by
  induction l with
  | nil => simp [areplace] at h
  | cons q r ih =>
    obtain ⟨k', v'⟩ := q
    simp only [areplace] at h
    split at h
    · rename_i e; subst e
      rcases List.mem_cons.1 h with h | h
      · exact Or.inr h
      · rcases ih h with h | h
        · exact Or.inl (List.mem_cons_of_mem _ h)
        · exact Or.inr h
    · rcases List.mem_cons.1 h with h | h
      · subst h; exact Or.inl List.mem_cons_self
      · rcases ih h with h | h
        · exact Or.inl (List.mem_cons_of_mem _ h)
        · exact Or.inr h

theorem alookup_aerase_some (k id : κ) (v : ν) (l : List (κ × ν))
    (h : alookup k (aerase id l) = some v) : alookup k l = some v ∧ k ≠ id := by
  by_cases e : k = id
  · subst e; rw [alookup_aerase_self] at h; simp at h
  · rw [alookup_aerase_ne k id l e] at h; exact ⟨h, e⟩

end AList

/-! ### who is waiting: ticket counting -/

def kindOp : Kind → Option Nat
  | .pendingCall (some t) => some t.op
  | .pendingCall none => none
  | .pendingSub _ t _ => some t.op
  | .sub _ _ _ => none
  | .pendingUnsub _ _ => none

def reqCount (k : Nat) : List (Id × Kind) → Nat
  | [] => 0
  | (_, kd) :: r => (if kindOp kd = some k then 1 else 0) + reqCount k r

def batCount (k : Nat) : List ((Nat × Nat) × Ticket) → Nat
  | [] => 0
  | (_, t) :: r => (if t.op = k then 1 else 0) + batCount k r

def msgOp : FrontMsg → Option Nat
  | .batch _ _ t _ => some t.op
  | .request _ (some t) _ => some t.op
  | .request _ none _ => none
  | .subscribe _ _ t _ _ => some t.op
  | .registerNotif _ t => some t.op
  | .notification _ => none
  | .subscriptionClosed _ => none
  | .unregisterNotif _ => none

def poolCount (k : Nat) : List FrontMsg → Nat
  | [] => 0
  | m :: r => (if msgOp m = some k then 1 else 0) + poolCount k r

/-- how often operation `k` has been finished: its oneshot completed (`complete`) or found
abandoned (`dropped`) -/
def compCount (k : Nat) : List Effect → Nat
  | [] => 0
  | .complete t _ :: r => (if t.op = k then 1 else 0) + compCount k r
  | .dropped t _ :: r => (if t.op = k then 1 else 0) + compCount k r
  | _ :: r => compCount k r

def coreCount (k : Nat) (c : Core) : Nat := reqCount k c.mgr.requests + batCount k c.mgr.batches

theorem compCount_append (k : Nat) (a b : List Effect) : compCount k (a ++ b) = compCount k a + compCount k b := by
  induction a with
  | nil => simp [compCount]
  | cons x xs ih => cases x <;> simp [compCount, ih] <;> omega

theorem poolCount_append (k : Nat) (a b : List FrontMsg) : poolCount k (a ++ b) = poolCount k a + poolCount k b := by
  induction a with
  | nil => simp [poolCount]
  | cons x xs ih => simp [poolCount, ih]; omega

theorem compCount_completeIfAlive (k : Nat) (st : Core) (t : Ticket) (o : Outcome) :
    compCount k (st.completeIfAlive t o) ≤ if t.op = k then 1 else 0 := by
  unfold Core.completeIfAlive
  split <;> simp [compCount]

theorem compCount_dropQueued (k : Nat) (l : List Effect) : compCount k (dropQueued l) = compCount k l := by
  induction l with
  | nil => rfl
  | cons x xs ih =>
    cases x <;> simp [dropQueued, List.filter, notToFront, compCount] <;> simpa [dropQueued] using ih

theorem reqCount_aerase_le (k : Nat) (id : Id) (l : List (Id × Kind)) : reqCount k (aerase id l) ≤ reqCount k l := by
  induction l with
  | nil => simp [aerase]
  | cons p r ih =>
    obtain ⟨k', kd⟩ := p
    simp only [aerase]
    split <;> simp only [reqCount] <;> omega

theorem reqCount_aerase_of_lookup (k : Nat) (id : Id) (kd : Kind) (l : List (Id × Kind)) (h : alookup id l = some kd) :
    reqCount k (aerase id l) + (if kindOp kd = some k then 1 else 0) ≤ reqCount k l := by
  induction l with
  | nil => simp [alookup] at h
  | cons p r ih =>
    obtain ⟨k', kd'⟩ := p
    simp only [alookup] at h
    simp only [aerase]
    split at h
    · rename_i e; simp at h; subst h
      simp only [e, if_true, reqCount]
      have := reqCount_aerase_le k k' r
      omega
    · rename_i e
      simp only [e, if_false, reqCount]
      have := ih h
      omega

theorem reqCount_areplace_none (k : Nat) (id : Id) (l : List (Id × Kind)) :
    reqCount k (areplace id (.pendingCall none) l) ≤ reqCount k l := by
  induction l with
  | nil => simp [areplace]
  | cons p r ih =>
    obtain ⟨k', kd⟩ := p
    simp only [areplace]
    split
    · simp only [reqCount]
      have : (if kindOp (Kind.pendingCall none) = some k then 1 else 0) = 0 := by simp [kindOp]
      rw [this]; omega
    · simp only [reqCount]; omega

theorem batCount_aerase_le (k : Nat) (key : Nat × Nat) (l : List ((Nat × Nat) × Ticket)) :
    batCount k (aerase key l) ≤ batCount k l := by
  induction l with
  | nil => simp [aerase]
  | cons p r ih =>
    obtain ⟨k', t⟩ := p
    simp only [aerase]
    split <;> simp only [batCount] <;> omega

theorem batCount_aerase_of_lookup (k : Nat) (key : Nat × Nat) (t : Ticket) (l : List ((Nat × Nat) × Ticket))
    (h : alookup key l = some t) : batCount k (aerase key l) + (if t.op = k then 1 else 0) ≤ batCount k l := by
  induction l with
  | nil => simp [alookup] at h
  | cons p r ih =>
    obtain ⟨k', t'⟩ := p
    simp only [alookup] at h
    simp only [aerase]
    split at h
    · rename_i e; simp at h; subst h
      simp only [e, if_true, batCount]
      have := batCount_aerase_le k k' r
      omega
    · rename_i e
      simp only [e, if_false, batCount]
      have := ih h
      omega

/-! ### the two slot operations of the fixed manager (`release_reserved_slot`, end of `unsubscribe`) -/

theorem releaseReservedSlot_cases (m : Mgr) (id : Id) :
    m.releaseReservedSlot id = m ∨
    (alookup id m.requests = some (.pendingCall none) ∧
     m.releaseReservedSlot id = { m with requests := aerase id m.requests }) := by
  unfold Mgr.releaseReservedSlot
  split
  · rename_i h; exact Or.inr ⟨h, rfl⟩
  · exact Or.inl rfl

theorem markUnsubscribing_cases (m : Mgr) (uid rid : Id) (c : ChanId) :
    m.markUnsubscribing uid rid c = m ∨
    (alookup uid m.requests = some (.pendingCall none) ∧
     m.markUnsubscribing uid rid c = { m with requests := areplace uid (.pendingUnsub rid c) m.requests }) := by
  unfold Mgr.markUnsubscribing
  split
  · rename_i h; exact Or.inr ⟨h, rfl⟩
  · exact Or.inl rfl

theorem releaseReservedSlot_others (m : Mgr) (id : Id) :
    (m.releaseReservedSlot id).subs = m.subs ∧ (m.releaseReservedSlot id).batches = m.batches ∧
    (m.releaseReservedSlot id).handlers = m.handlers := by
  rcases releaseReservedSlot_cases m id with h | ⟨_, h⟩ <;> rw [h] <;> exact ⟨rfl, rfl, rfl⟩

theorem markUnsubscribing_others (m : Mgr) (uid rid : Id) (c : ChanId) :
    (m.markUnsubscribing uid rid c).subs = m.subs ∧ (m.markUnsubscribing uid rid c).batches = m.batches ∧
    (m.markUnsubscribing uid rid c).handlers = m.handlers := by
  rcases markUnsubscribing_cases m uid rid c with h | ⟨_, h⟩ <;> rw [h] <;> exact ⟨rfl, rfl, rfl⟩

/-- the slot operations never touch an entry that is not a bare `PendingMethodCall(None)` slot,
and never create one -/
theorem alookup_releaseReservedSlot (m : Mgr) (id k : Id) (kd : Kind) (hk : kd ≠ .pendingCall none) :
    alookup k (m.releaseReservedSlot id).requests = some kd ↔ alookup k m.requests = some kd := by
  rcases releaseReservedSlot_cases m id with h | ⟨h1, h⟩
  · rw [h]
  · rw [h]
    simp only
    by_cases e : k = id
    · subst e
      rw [alookup_aerase_self, h1]
      constructor
      · intro c; simp at c
      · intro c; simp at c; exact absurd c.symm hk
    · rw [alookup_aerase_ne k id _ e]

theorem alookup_markUnsubscribing (m : Mgr) (uid rid k : Id) (c : ChanId) (kd : Kind) (hk : kd ≠ .pendingCall none)
    (hk2 : kd ≠ .pendingUnsub rid c) :
    alookup k (m.markUnsubscribing uid rid c).requests = some kd ↔ alookup k m.requests = some kd := by
  rcases markUnsubscribing_cases m uid rid c with h | ⟨h1, h⟩
  · rw [h]
  · rw [h]
    simp only
    by_cases e : k = uid
    · subst e
      rw [alookup_areplace_self k _ _ (by simp [h1]), h1]
      constructor
      · intro c; simp at c; exact absurd c.symm hk2
      · intro c; simp at c; exact absurd c.symm hk
    · rw [alookup_areplace_ne k uid _ _ e]

theorem mem_releaseReservedSlot (m : Mgr) (id : Id) (p : Id × Kind) (h : p ∈ (m.releaseReservedSlot id).requests) :
    p ∈ m.requests := by
  rcases releaseReservedSlot_cases m id with e | ⟨_, e⟩
  · rw [e] at h; exact h
  · rw [e] at h; exact (mem_aerase p id _ h).1

theorem mem_markUnsubscribing (m : Mgr) (uid rid : Id) (c : ChanId) (p : Id × Kind) (h : p ∈ (m.markUnsubscribing uid rid c).requests) :
    p ∈ m.requests ∨ p = (uid, .pendingUnsub rid c) := by
  rcases markUnsubscribing_cases m uid rid c with e | ⟨_, e⟩
  · rw [e] at h; exact Or.inl h
  · rw [e] at h; exact mem_areplace p uid _ _ h

theorem reqCount_areplace_noTicket (k : Nat) (id : Id) (v : Kind) (hv : kindOp v = none) (l : List (Id × Kind)) :
    reqCount k (areplace id v l) ≤ reqCount k l := by
  induction l with
  | nil => simp [areplace]
  | cons p r ih =>
    obtain ⟨k', kd⟩ := p
    simp only [areplace]
    split
    · simp only [reqCount, hv]
      have : (if (none : Option Nat) = some k then 1 else 0) = 0 := by simp
      rw [this]; omega
    · simp only [reqCount]; omega

theorem reqCount_releaseReservedSlot (k : Nat) (m : Mgr) (id : Id) :
    reqCount k (m.releaseReservedSlot id).requests ≤ reqCount k m.requests := by
  rcases releaseReservedSlot_cases m id with e | ⟨_, e⟩
  · rw [e]; exact Nat.le_refl _
  · rw [e]; exact reqCount_aerase_le k id _

theorem reqCount_markUnsubscribing (k : Nat) (m : Mgr) (uid rid : Id) (c : ChanId) :
    reqCount k (m.markUnsubscribing uid rid c).requests ≤ reqCount k m.requests := by
  rcases markUnsubscribing_cases m uid rid c with e | ⟨_, e⟩
  · rw [e]; exact Nat.le_refl _
  · rw [e]; exact reqCount_areplace_noTicket k uid _ rfl _

theorem akeys_releaseReservedSlot (m : Mgr) (id : Id) :
    (akeys (m.releaseReservedSlot id).requests).Sublist (akeys m.requests) := by
  rcases releaseReservedSlot_cases m id with e | ⟨_, e⟩
  · rw [e]; exact List.Sublist.refl _
  · rw [e]; exact akeys_aerase_sublist id _

theorem akeys_markUnsubscribing (m : Mgr) (uid rid : Id) (c : ChanId) :
    akeys (m.markUnsubscribing uid rid c).requests = akeys m.requests := by
  rcases markUnsubscribing_cases m uid rid c with e | ⟨_, e⟩
  · rw [e]
  · rw [e]; exact akeys_areplace uid _ _

end Jrpc.Client
