/-
  Helper lemmas for the async-client family (C12 C03 C18 C05): slot filling, id ranges,
  association lists, the manager tables and the step machine.
-/
import JrpcVerif.Model.ClientMgr
namespace Jrpc.Client
open Jrpc

/-! ### `setAt` -/

theorem setAt_length {α} (l : List α) (i : Nat) (a : α) (l' : List α) (h : setAt l i a = some l') :
    l'.length = l.length := by
  induction l generalizing i l' with
  | nil => simp [setAt] at h
  | cons x xs ih =>
    cases i with
    | zero => simp [setAt] at h; subst h; simp
    | succ i =>
      simp only [setAt] at h
      split at h
      · rename_i r hr; simp at h; subst h; simp [ih i r hr]
      · simp at h

theorem setAt_isSome {α} (l : List α) (i : Nat) (a : α) : (setAt l i a).isSome = decide (i < l.length) := by
  induction l generalizing i with
  | nil => simp [setAt]
  | cons x xs ih =>
    cases i with
    | zero => simp [setAt]
    | succ i =>
      simp only [setAt]
      have := ih i
      split <;> simp_all

theorem setAt_get {α} (l : List α) (i : Nat) (a : α) (l' : List α) (h : setAt l i a = some l') (j : Nat) :
    l'[j]? = if j = i then some a else l[j]? := by
  induction l generalizing i l' j with
  | nil => simp [setAt] at h
  | cons x xs ih =>
    cases i with
    | zero =>
      simp [setAt] at h; subst h
      cases j <;> simp
    | succ i =>
      simp only [setAt] at h
      split at h
      · rename_i r hr
        simp at h; subst h
        cases j with
        | zero => simp
        | succ j => simp [ih i r hr j]
      · simp at h

theorem setAt_none_iff {α} (l : List α) (i : Nat) (a : α) : setAt l i a = none ↔ l.length ≤ i := by
  have := setAt_isSome l i a
  cases h : setAt l i a <;> simp_all

/-! ### `lastWith` -/

theorem lastWith_append (k : Nat) (a b : List Response) :
    lastWith k (a ++ b) = match lastWith k b with
      | some r => some r
      | none => lastWith k a := by
  induction a with
  | nil => simp [lastWith]; cases lastWith k b <;> rfl
  | cons x xs ih =>
    simp only [List.cons_append, lastWith, ih]
    cases lastWith k b <;> simp

theorem lastWith_some_mem (k : Nat) (l : List Response) (r : Response) (h : lastWith k l = some r) :
    r ∈ l ∧ idNum r.id = some k := by
  induction l with
  | nil => simp [lastWith] at h
  | cons x xs ih =>
    simp only [lastWith] at h
    cases hx : lastWith k xs with
    | some r' =>
      simp [hx] at h; subst h
      exact ⟨List.mem_cons_of_mem _ (ih hx).1, (ih hx).2⟩
    | none =>
      simp [hx] at h
      obtain ⟨h1, h2⟩ := h
      subst h2
      exact ⟨List.mem_cons_self, h1⟩

theorem lastWith_none_iff (k : Nat) (l : List Response) :
    lastWith k l = none ↔ ∀ r ∈ l, idNum r.id ≠ some k := by
  induction l with
  | nil => simp [lastWith]
  | cons x xs ih =>
    simp only [lastWith]
    cases hx : lastWith k xs with
    | some r' =>
      simp
      have := lastWith_some_mem k xs r' hx
      exact fun _ => ⟨r', this.1, this.2⟩
    | none =>
      rw [hx] at ih
      simp at ih
      by_cases hxk : idNum x.id = some k <;> simp [hxk]
      exact ih

/-! ### the fill loops -/

/-- value in slot `i` after the loop: the last reply for id `start+i`, else what was there -/
theorem fillSlots_spec (start : Nat) (rs : List Response) :
    ∀ (slots out : List Response), fillSlots start slots rs = .ok out →
      out.length = slots.length ∧
      (∀ i, out[i]? = match lastWith (start + i) rs with
                      | some r => if i < slots.length then some r else none
                      | none => slots[i]?) ∧
      (∀ r ∈ rs, ∃ k, idNum r.id = some k ∧ start ≤ k ∧ k < start + slots.length) := by
  induction rs with
  | nil =>
    intro slots out h
    simp [fillSlots] at h; subst h
    simp [lastWith]
  | cons rp rest ih =>
    intro slots out h
    simp only [fillSlots] at h
    cases hid : idNum rp.id with
    | none => simp [hid] at h
    | some id =>
      simp only [hid] at h
      by_cases hlt : id < start
      · simp [hlt] at h
      · simp only [hlt, if_false] at h
        cases hs : setAt slots (id - start) rp with
        | none => simp [hs] at h
        | some slots' =>
          simp only [hs] at h
          obtain ⟨h1, h2, h3⟩ := ih slots' out h
          have hlen := setAt_length _ _ _ _ hs
          have hin : id - start < slots.length := by
            have := setAt_isSome slots (id - start) rp
            simp [hs] at this; exact this
          refine ⟨by omega, ?_, ?_⟩
          · intro i
            rw [h2 i]
            simp only [lastWith]
            cases hl : lastWith (start + i) rest with
            | some r => simp [hlen]
            | none =>
              simp only [hid]
              rw [setAt_get _ _ _ _ hs i]
              by_cases hi : i = id - start
              · subst hi
                have : start + (id - start) = id := by omega
                simp [this, hin]
              · have : ¬ (id = start + i) := by omega
                simp [hi, this]
          · intro r hr
            cases hr with
            | head => exact ⟨id, hid, by omega, by omega⟩
            | tail _ hr' =>
              obtain ⟨k, hk1, hk2, hk3⟩ := h3 r hr'
              exact ⟨k, hk1, hk2, by omega⟩

/-- the loop succeeds exactly when every id reads as a number inside the slot range -/
theorem fillSlots_ok_of_inRange (start : Nat) (rs : List Response) :
    ∀ (slots : List Response),
      (∀ r ∈ rs, ∃ k, idNum r.id = some k ∧ start ≤ k ∧ k < start + slots.length) →
      ∃ out, fillSlots start slots rs = .ok out := by
  induction rs with
  | nil => intro slots _; exact ⟨slots, rfl⟩
  | cons rp rest ih =>
    intro slots h
    obtain ⟨k, hk, hk1, hk2⟩ := h rp List.mem_cons_self
    simp only [fillSlots, hk]
    have hlt : ¬ k < start := by omega
    simp only [hlt, if_false]
    cases hs : setAt slots (k - start) rp with
    | none =>
      have := (setAt_none_iff slots (k - start) rp).1 hs
      omega
    | some slots' =>
      have hlen := setAt_length _ _ _ _ hs
      apply ih slots'
      intro r hr
      obtain ⟨k', a, b, c⟩ := h r (List.mem_cons_of_mem _ hr)
      exact ⟨k', a, b, by omega⟩

theorem httpFill_spec (start : Nat) (rs : List Response) :
    ∀ (slots out : List Payload), httpFill start slots rs = .ok out →
      out.length = slots.length ∧
      (∀ i, out[i]? = match lastWith (start + i) rs with
                      | some r => if i < slots.length then some r.payload else none
                      | none => slots[i]?) ∧
      (∀ r ∈ rs, ∃ k, idNum r.id = some k ∧ start ≤ k ∧ k < start + slots.length) := by
  induction rs with
  | nil =>
    intro slots out h
    simp [httpFill] at h; subst h
    simp [lastWith]
  | cons rp rest ih =>
    intro slots out h
    simp only [httpFill] at h
    cases hid : idNum rp.id with
    | none => simp [hid] at h
    | some id =>
      simp only [hid] at h
      by_cases hlt : id < start
      · simp [hlt] at h
      · simp only [hlt, if_false] at h
        cases hs : setAt slots (id - start) rp.payload with
        | none => simp [hs] at h
        | some slots' =>
          simp only [hs] at h
          obtain ⟨h1, h2, h3⟩ := ih slots' out h
          have hlen := setAt_length _ _ _ _ hs
          have hin : id - start < slots.length := by
            have := setAt_isSome slots (id - start) rp.payload
            simp [hs] at this; exact this
          refine ⟨by omega, ?_, ?_⟩
          · intro i
            rw [h2 i]
            simp only [lastWith]
            cases hl : lastWith (start + i) rest with
            | some r => simp [hlen]
            | none =>
              simp only [hid]
              rw [setAt_get _ _ _ _ hs i]
              by_cases hi : i = id - start
              · subst hi
                have : start + (id - start) = id := by omega
                simp [this, hin]
              · have : ¬ (id = start + i) := by omega
                simp [hi, this]
          · intro r hr
            cases hr with
            | head => exact ⟨id, hid, by omega, by omega⟩
            | tail _ hr' =>
              obtain ⟨k, hk1, hk2, hk3⟩ := h3 r hr'
              exact ⟨k, hk1, hk2, by omega⟩

theorem httpFill_ok_of_inRange (start : Nat) (rs : List Response) :
    ∀ (slots : List Payload),
      (∀ r ∈ rs, ∃ k, idNum r.id = some k ∧ start ≤ k ∧ k < start + slots.length) →
      ∃ out, httpFill start slots rs = .ok out := by
  induction rs with
  | nil => intro slots _; exact ⟨slots, rfl⟩
  | cons rp rest ih =>
    intro slots h
    obtain ⟨k, hk, hk1, hk2⟩ := h rp List.mem_cons_self
    simp only [httpFill, hk]
    have hlt : ¬ k < start := by omega
    simp only [hlt, if_false]
    cases hs : setAt slots (k - start) rp.payload with
    | none =>
      have := (setAt_none_iff slots (k - start) rp.payload).1 hs
      omega
    | some slots' =>
      have hlen := setAt_length _ _ _ _ hs
      apply ih slots'
      intro r hr
      obtain ⟨k', a, b, c⟩ := h r (List.mem_cons_of_mem _ hr)
      exact ⟨k', a, b, by omega⟩

/-! ### id range of a reply array -/

theorem replyRange_some (rs : List Response) :
    ∀ (lo hi : Nat) (res : Option (Nat × Nat)), replyRange (some (lo, hi)) rs = .ok res →
      ∃ lo' hi', res = some (lo', hi') ∧ lo' ≤ lo ∧ hi ≤ hi' ∧
        (∀ r ∈ rs, ∃ k, idNum r.id = some k ∧ lo' ≤ k ∧ k ≤ hi') ∧
        (lo' = lo ∨ ∃ r ∈ rs, idNum r.id = some lo') ∧
        (hi' = hi ∨ ∃ r ∈ rs, idNum r.id = some hi') := by
  induction rs with
  | nil =>
    intro lo hi res h
    simp [replyRange] at h; subst h
    exact ⟨lo, hi, rfl, Nat.le_refl _, Nat.le_refl _, by simp, Or.inl rfl, Or.inl rfl⟩
  | cons rp rest ih =>
    intro lo hi res h
    simp only [replyRange] at h
    cases hid : idNum rp.id with
    | none => simp [hid] at h
    | some id =>
      simp only [hid, widen] at h
      obtain ⟨lo', hi', e, h1, h2, h3, h4, h5⟩ := ih _ _ res h
      refine ⟨lo', hi', e, ?_, ?_, ?_, ?_, ?_⟩
      · split at h1 <;> omega
      · split at h2 <;> omega
      · intro r hr
        cases hr with
        | head => exact ⟨id, hid, by split at h1 <;> omega, by split at h2 <;> omega⟩
        | tail _ hr' => exact h3 r hr'
      · rcases h4 with h4 | ⟨r, hr, hk⟩
        · by_cases c : id < lo
          · simp [c] at h4; exact Or.inr ⟨rp, List.mem_cons_self, by rw [hid, h4]⟩
          · simp [c] at h4; exact Or.inl h4
        · exact Or.inr ⟨r, List.mem_cons_of_mem _ hr, hk⟩
      · rcases h5 with h5 | ⟨r, hr, hk⟩
        · by_cases c : id > hi
          · simp [c] at h5; exact Or.inr ⟨rp, List.mem_cons_self, by rw [hid, h5]⟩
          · simp [c] at h5; exact Or.inl h5
        · exact Or.inr ⟨r, List.mem_cons_of_mem _ hr, hk⟩

/-- from the empty accumulator: `none` iff there is no reply; otherwise the attained min and max -/
theorem replyRange_none (rs : List Response) (res : Option (Nat × Nat)) (h : replyRange none rs = .ok res) :
    (rs = [] ∧ res = none) ∨
    ∃ lo hi, res = some (lo, hi) ∧
      (∀ r ∈ rs, ∃ k, idNum r.id = some k ∧ lo ≤ k ∧ k ≤ hi) ∧
      (∃ r ∈ rs, idNum r.id = some lo) ∧ (∃ r ∈ rs, idNum r.id = some hi) := by
  cases rs with
  | nil => simp [replyRange] at h; exact Or.inl ⟨rfl, h.symm⟩
  | cons rp rest =>
    right
    simp only [replyRange] at h
    cases hid : idNum rp.id with
    | none => simp [hid] at h
    | some id =>
      simp only [hid, widen] at h
      obtain ⟨lo', hi', e, h1, h2, h3, h4, h5⟩ := replyRange_some rest id id res h
      refine ⟨lo', hi', e, ?_, ?_, ?_⟩
      · intro r hr
        cases hr with
        | head => exact ⟨id, hid, h1, h2⟩
        | tail _ hr' => exact h3 r hr'
      · rcases h4 with h4 | ⟨r, hr, hk⟩
        · exact ⟨rp, List.mem_cons_self, by rw [hid, h4]⟩
        · exact ⟨r, List.mem_cons_of_mem _ hr, hk⟩
      · rcases h5 with h5 | ⟨r, hr, hk⟩
        · exact ⟨rp, List.mem_cons_self, by rw [hid, h5]⟩
        · exact ⟨r, List.mem_cons_of_mem _ hr, hk⟩

theorem replyRange_ok_of_parse (rs : List Response) (h : ∀ r ∈ rs, ∃ k, idNum r.id = some k) :
    ∀ acc, ∃ res, replyRange acc rs = .ok res := by
  induction rs with
  | nil => intro acc; exact ⟨acc, rfl⟩
  | cons rp rest ih =>
    intro acc
    obtain ⟨k, hk⟩ := h rp List.mem_cons_self
    simp only [replyRange, hk]
    exact ih (fun r hr => h r (List.mem_cons_of_mem _ hr)) _

theorem replyRange_err (rs : List Response) : ∀ acc e, replyRange acc rs = .err e →
    ∃ r ∈ rs, idNum r.id = none ∧ e = .invalidId r.id := by
  induction rs with
  | nil => intro acc e h; simp [replyRange] at h
  | cons rp rest ih =>
    intro acc e h
    simp only [replyRange] at h
    cases hid : idNum rp.id with
    | none => simp [hid] at h; exact ⟨rp, List.mem_cons_self, hid, h.symm⟩
    | some id =>
      simp only [hid] at h
      obtain ⟨r, hr, a, b⟩ := ih _ _ h
      exact ⟨r, List.mem_cons_of_mem _ hr, a, b⟩

/-- min and max of a reply are determined by the set of ids: unique characterisation -/
theorem range_unique (rs : List Response) (lo hi lo' hi' : Nat)
    (h1 : ∀ r ∈ rs, ∃ k, idNum r.id = some k ∧ lo ≤ k ∧ k ≤ hi)
    (h2 : ∃ r ∈ rs, idNum r.id = some lo) (h3 : ∃ r ∈ rs, idNum r.id = some hi)
    (g1 : ∀ r ∈ rs, ∃ k, idNum r.id = some k ∧ lo' ≤ k ∧ k ≤ hi')
    (g2 : ∃ r ∈ rs, idNum r.id = some lo') (g3 : ∃ r ∈ rs, idNum r.id = some hi') :
    lo = lo' ∧ hi = hi' := by
  obtain ⟨a, ha, hak⟩ := h2
  obtain ⟨b, hb, hbk⟩ := h3
  obtain ⟨c, hc, hck⟩ := g2
  obtain ⟨d, hd, hdk⟩ := g3
  obtain ⟨k1, e1, _, _⟩ := g1 a ha
  obtain ⟨k2, e2, _, _⟩ := g1 b hb
  obtain ⟨k3, e3, _, _⟩ := h1 c hc
  obtain ⟨k4, e4, _, _⟩ := h1 d hd
  rw [hak] at e1; rw [hbk] at e2; rw [hck] at e3; rw [hdk] at e4
  simp at e1 e2 e3 e4
  omega

end Jrpc.Client
