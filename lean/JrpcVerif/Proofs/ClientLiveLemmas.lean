/-
  `Live`: every active-subscription entry / notification-handler entry of the tables points at its
  own, still open channel; no channel is referenced twice.  Used by C05 (exactly one unsubscribe)
  and C18 (a finished subscription has no table entry).
-/
import JrpcVerif.Proofs.ClientChanLemmas
namespace Jrpc.Client
open Jrpc

def isSubOwner : Owner → Bool
  | .sub _ => true
  | .method _ => false

/-- the per-channel ghost facts that `Live` tracks -/
structure WiresOK (x : Chan) : Prop where
  le : x.unsubWires ≤ 1
  one : x.unsubWires = 1 → x.unsubscribed = true
  excl : x.closedByServer = true → x.unsubscribed = false
  ack : x.acked = true → x.unsubscribed = true

structure Live (c : Core) : Prop where
  sub : ∀ id uid ch um, alookup id c.mgr.requests = some (.sub uid ch um) →
    ∃ x, c.chans[ch]? = some x ∧ x.unsubWires = 0 ∧ x.unsubscribed = false ∧ x.closedByServer = false ∧
      x.senderAlive = true ∧ isSubOwner x.owner = true ∧ x.uid = uid ∧ x.acked = false ∧ x.rid = id
  inj : ∀ id id' uid uid' ch um um', alookup id c.mgr.requests = some (.sub uid ch um) →
    alookup id' c.mgr.requests = some (.sub uid' ch um') → id = id'
  handler : ∀ m ch, alookup m c.mgr.handlers = some ch →
    ∃ x, c.chans[ch]? = some x ∧ x.senderAlive = true ∧ x.owner = .method m
  wires : ∀ x ∈ c.chans, WiresOK x

theorem live_init (cap : Nat) : Live { cap := cap } where
  sub := by intro id uid ch um h; simp [alookup] at h
  inj := by intro id id' uid uid' ch um um' h; simp [alookup] at h
  handler := by intro m ch h; simp [alookup] at h
  wires := by intro x hx; simp at hx

/-- a channel update that leaves the `Live`-relevant fields alone -/
structure LiveFrame (f : Chan → Chan) : Prop where
  wires : ∀ ch, (f ch).unsubWires = ch.unsubWires
  unsub : ∀ ch, (f ch).unsubscribed = ch.unsubscribed
  closed : ∀ ch, (f ch).closedByServer = ch.closedByServer
  sender : ∀ ch, (f ch).senderAlive = ch.senderAlive
  owner : ∀ ch, (f ch).owner = ch.owner
  uid : ∀ ch, (f ch).uid = ch.uid
  acked : ∀ ch, (f ch).acked = ch.acked
  rid : ∀ ch, (f ch).rid = ch.rid

theorem wiresOK_frame (f : Chan → Chan) (hf : LiveFrame f) (x : Chan) (h : WiresOK x) : WiresOK (f x) :=
  ⟨by rw [hf.wires]; exact h.le, by rw [hf.wires, hf.unsub]; exact h.one, by rw [hf.closed, hf.unsub]; exact h.excl,
   by rw [hf.acked, hf.unsub]; exact h.ack⟩

theorem liveFrame_afterSend (p : Text) : LiveFrame (fun x => x.afterSend p) := by
  constructor <;> intro ch <;> unfold Chan.afterSend <;> split <;> rfl

theorem liveFrame_dropReceiver : LiveFrame (fun ch => { dropReceiver ch with hasKind := false }) := by
  constructor <;> intro ch <;> rfl

theorem liveFrame_hasKind (b : Bool) : LiveFrame (fun ch => { ch with hasKind := b }) := by
  constructor <;> intro ch <;> rfl

theorem liveFrame_pop (rest : List Text) (p : Text) : LiveFrame (fun x => { x with buf := rest, yielded := x.yielded ++ [p] }) := by
  constructor <;> intro ch <;> rfl

theorem live_modChan (st : Core) (c : ChanId) (f : Chan → Chan) (hf : LiveFrame f) (h : Live st) : Live (st.modChan c f) where
  sub := by
    intro id uid ch um hl
    obtain ⟨x, h1, h2, h3, h4, h5, h6, h7, h8, h9⟩ := h.sub id uid ch um hl
    simp only [Core.modChan, modifyAt_get]
    split
    · rename_i e; subst e
      exact ⟨f x, by simp [h1], by rw [hf.wires]; exact h2, by rw [hf.unsub]; exact h3, by rw [hf.closed]; exact h4,
        by rw [hf.sender]; exact h5, by rw [hf.owner]; exact h6, by rw [hf.uid]; exact h7, by rw [hf.acked]; exact h8,
        by rw [hf.rid]; exact h9⟩
    · exact ⟨x, h1, h2, h3, h4, h5, h6, h7, h8, h9⟩
  inj := h.inj
  handler := by
    intro m ch hm
    obtain ⟨x, h1, h2, h3⟩ := h.handler m ch hm
    simp only [Core.modChan, modifyAt_get]
    split
    · rename_i e; subst e
      exact ⟨f x, by simp [h1], by rw [hf.sender]; exact h2, by rw [hf.owner]; exact h3⟩
    · exact ⟨x, h1, h2, h3⟩
  wires := by
    intro x hx
    rcases mem_modifyAt f st.chans c x hx with h1 | ⟨b, hb, e⟩
    · exact h.wires x h1
    · subst e
      exact wiresOK_frame f hf b (h.wires b (List.mem_of_getElem? hb))

/-- a manager change that adds no `.sub` entry and no handler entry and keeps the channels -/
theorem live_mgr_frame (st : Core) (m' : Mgr) (h : Live st)
    (hr : ∀ k u c um, alookup k m'.requests = some (.sub u c um) → alookup k st.mgr.requests = some (.sub u c um))
    (hh : ∀ m c, alookup m m'.handlers = some c → alookup m st.mgr.handlers = some c) :
    Live { st with mgr := m' } where
  sub := fun k u c um hk => h.sub k u c um (hr k u c um hk)
  inj := fun k k' u u' c um um' h1 h2 => h.inj k k' u u' c um um' (hr _ _ _ _ h1) (hr _ _ _ _ h2)
  handler := fun m c hm => h.handler m c (hh m c hm)
  wires := h.wires

/-- erasing any request key -/
theorem live_erase (st : Core) (id : Id) (h : Live st) :
    Live { st with mgr := { st.mgr with requests := aerase id st.mgr.requests } } :=
  live_mgr_frame st { st.mgr with requests := aerase id st.mgr.requests } h
    (fun k u c um hk => (alookup_aerase_some k id _ _ hk).1) (fun _ _ hm => hm)

theorem live_release (st : Core) (uid : Id) (h : Live st) : Live { st with mgr := st.mgr.releaseReservedSlot uid } := by
  obtain ⟨_, _, c⟩ := releaseReservedSlot_others st.mgr uid
  exact live_mgr_frame st (st.mgr.releaseReservedSlot uid) h
    (fun k u ch um hk => (alookup_releaseReservedSlot st.mgr uid k _ (by simp)).1 hk) (fun _ _ hm => by rw [c] at hm; exact hm)

/-- inserting a non-subscription entry under a vacant key -/
theorem live_insert_nonsub (st : Core) (id : Id) (v : Kind) (hv : alookup id st.mgr.requests = none)
    (hn : ∀ uid ch um, v ≠ .sub uid ch um) (h : Live st) :
    Live { st with mgr := { st.mgr with requests := (id, v) :: st.mgr.requests } } := by
  apply live_mgr_frame st { st.mgr with requests := (id, v) :: st.mgr.requests } h _ (fun _ _ hm => hm)
  intro k u c um hk
  simp only at hk
  by_cases e : k = id
  · subst e; rw [alookup_cons_self] at hk; simp at hk; exact absurd hk (hn u c um)
  · rw [alookup_cons_ne k id v _ e] at hk; exact hk

theorem getElem?_lt {α} (l : List α) (i : Nat) (a : α) (h : l[i]? = some a) : i < l.length := by
  rcases Nat.lt_or_ge i l.length with h1 | h1
  · exact h1
  · rw [List.getElem?_eq_none h1] at h; simp at h

/-- `insert_subscription` + the new channel -/
theorem live_insert_sub (st : Core) (sid uid : Id) (s : SubId) (um : Text) (op : Nat) (h : Live st)
    (hv : alookup sid st.mgr.requests = none) : Live ((withSub st sid uid s um).newChan (.sub s) op uid sid).1 where
  sub := by
    intro k uid' ch um' hl
    simp only [Core.newChan, withSub] at hl ⊢
    by_cases e : k = sid
    · subst e
      rw [alookup_cons_self] at hl
      simp at hl
      obtain ⟨e1, e2, e3⟩ := hl
      subst e1 e2 e3
      exact ⟨{ cap := st.cap, owner := .sub s, op := op, uid := uid, rid := k }, by simp, rfl, rfl, rfl, rfl, rfl, rfl, rfl, rfl⟩
    · rw [alookup_cons_ne k sid _ _ e] at hl
      obtain ⟨x, h1, rest⟩ := h.sub k uid' ch um' hl
      exact ⟨x, getElem?_append_of_some _ _ _ _ h1, rest⟩
  inj := by
    intro k k' u u' ch um1 um2 h1 h2
    simp only [Core.newChan, withSub] at h1 h2
    by_cases e1 : k = sid <;> by_cases e2 : k' = sid
    · rw [e1, e2]
    · subst e1
      rw [alookup_cons_self] at h1; simp at h1
      rw [alookup_cons_ne k' k _ _ e2] at h2
      obtain ⟨x, hx, _⟩ := h.sub k' u' ch um2 h2
      have hlt := getElem?_lt _ _ _ hx
      have heq := h1.2.1
      rw [heq] at hlt
      exact absurd hlt (Nat.lt_irrefl _)
    · subst e2
      rw [alookup_cons_self] at h2; simp at h2
      rw [alookup_cons_ne k k' _ _ e1] at h1
      obtain ⟨x, hx, _⟩ := h.sub k u ch um1 h1
      have hlt := getElem?_lt _ _ _ hx
      have heq := h2.2.1
      rw [heq] at hlt
      exact absurd hlt (Nat.lt_irrefl _)
    · rw [alookup_cons_ne k sid _ _ e1] at h1
      rw [alookup_cons_ne k' sid _ _ e2] at h2
      exact h.inj k k' u u' ch um1 um2 h1 h2
  handler := by
    intro m ch hm
    obtain ⟨x, h1, rest⟩ := h.handler m ch hm
    exact ⟨x, getElem?_append_of_some _ _ _ _ h1, rest⟩
  wires := by
    intro x hx
    simp only [Core.newChan, withSub, List.mem_append, List.mem_singleton] at hx
    rcases hx with hx | hx
    · exact h.wires x hx
    · subst hx; exact ⟨by simp, by simp, by simp, by simp⟩

/-- ending a subscription: the manager `m'` has no `.sub` entry at `rid` any more and no new ones
elsewhere; the sender of its channel `c` is dropped with one of the two end flags by `f` -/
theorem live_end_sub (st : Core) (rid : Id) (uid : Id) (c : ChanId) (um : Text) (m' : Mgr)
    (f : Chan → Chan) (h : Live st)
    (hl : alookup rid st.mgr.requests = some (.sub uid c um))
    (hr : ∀ k u ch m, alookup k m'.requests = some (.sub u ch m) → k ≠ rid ∧ alookup k st.mgr.requests = some (.sub u ch m))
    (hh : m'.handlers = st.mgr.handlers)
    (hf : ∀ x, WiresOK x → x.unsubscribed = false → x.closedByServer = false → x.acked = false → WiresOK (f x)) :
    Live ({ st with mgr := m' }.modChan c f) where
  sub := by
    intro k u ch m hk
    simp only [modChan_mgr] at hk
    obtain ⟨hne, hk'⟩ := hr k u ch m hk
    obtain ⟨x, h1, rest⟩ := h.sub k u ch m hk'
    have hc : ch ≠ c := by
      intro e; subst e
      exact hne (h.inj k rid u uid ch m um hk' hl)
    refine ⟨x, ?_, rest⟩
    simp only [Core.modChan, modifyAt_get, hc, if_false]; exact h1
  inj := by
    intro k k' u u' ch m m'' h1 h2
    simp only [modChan_mgr] at h1 h2
    exact h.inj k k' u u' ch m m'' (hr _ _ _ _ h1).2 (hr _ _ _ _ h2).2
  handler := by
    intro m ch hm
    simp only [modChan_mgr] at hm
    rw [hh] at hm
    obtain ⟨x, h1, h2, h3⟩ := h.handler m ch hm
    have hc : ch ≠ c := by
      intro e; subst e
      obtain ⟨y, g1, _, _, _, _, g6, _⟩ := h.sub rid uid ch um hl
      rw [h1] at g1; simp at g1; subst g1
      rw [h3] at g6; simp [isSubOwner] at g6
    refine ⟨x, ?_, h2, h3⟩
    simp only [Core.modChan, modifyAt_get, hc, if_false]; exact h1
  wires := by
    intro x hx
    rcases mem_modifyAt f st.chans c x hx with h1 | ⟨b, hb, e⟩
    · exact h.wires x h1
    · subst e
      obtain ⟨y, g1, _, g3, g4, _, _, _, g8, _⟩ := h.sub rid uid c um hl
      have : (st.chans[c]? : Option Chan) = some b := hb
      rw [g1] at this; simp at this; subst this
      exact hf y (h.wires y (List.mem_of_getElem? g1)) g3 g4 g8

theorem live_of_mgr_chans_eq {a b : Core} (hr : b.mgr.requests = a.mgr.requests) (hh : b.mgr.handlers = a.mgr.handlers)
    (hc : b.chans = a.chans) (h : Live a) : Live b where
  sub := by rw [hr, hc]; exact h.sub
  inj := by rw [hr]; exact h.inj
  handler := by rw [hh, hc]; exact h.handler
  wires := by rw [hc]; exact h.wires

/-- removing a notification handler and dropping its sender -/
theorem live_remove_handler (st : Core) (m : Text) (c : ChanId) (f : Chan → Chan) (h : Live st)
    (hl : alookup m st.mgr.handlers = some c)
    (hf : ∀ x, WiresOK x → WiresOK (f x)) :
    Live ({ st with mgr := { st.mgr with handlers := aerase m st.mgr.handlers } }.modChan c f) where
  sub := by
    intro k u ch um hk
    obtain ⟨x, h1, rest⟩ := h.sub k u ch um hk
    have hc : ch ≠ c := by
      intro e; subst e
      obtain ⟨y, g1, _, g3⟩ := h.handler m ch hl
      rw [h1] at g1; simp at g1; subst g1
      have := rest.2.2.2.2.1
      rw [g3] at this; simp [isSubOwner] at this
    refine ⟨x, ?_, rest⟩
    simp only [Core.modChan, modifyAt_get, hc, if_false]; exact h1
  inj := h.inj
  handler := by
    intro m' ch hm'
    simp only [modChan_mgr] at hm'
    obtain ⟨hm2, hne⟩ := alookup_aerase_some m' m _ _ hm'
    obtain ⟨x, h1, h2, h3⟩ := h.handler m' ch hm2
    have hc : ch ≠ c := by
      intro e; subst e
      obtain ⟨y, g1, _, g3⟩ := h.handler m ch hl
      rw [h1] at g1; simp at g1; subst g1
      rw [h3] at g3; simp at g3; exact hne g3
    refine ⟨x, ?_, h2, h3⟩
    simp only [Core.modChan, modifyAt_get, hc, if_false]; exact h1
  wires := by
    intro x hx
    rcases mem_modifyAt f st.chans c x hx with h1 | ⟨b, hb, e⟩
    · exact h.wires x h1
    · subst e
      exact hf b (h.wires b (List.mem_of_getElem? hb))

/-- registering a notification handler with its new channel -/
theorem live_insert_handler (st : Core) (m : Text) (op : Nat) (h : Live st) :
    Live ({ st with mgr := { st.mgr with handlers := (m, st.chans.length) :: st.mgr.handlers } }.newChan (.method m) op).1 where
  sub := by
    intro k u ch um hk
    obtain ⟨x, h1, rest⟩ := h.sub k u ch um hk
    exact ⟨x, getElem?_append_of_some _ _ _ _ h1, rest⟩
  inj := h.inj
  handler := by
    intro m' ch hm'
    simp only [Core.newChan] at hm' ⊢
    by_cases e : m' = m
    · subst e
      rw [alookup_cons_self] at hm'; simp at hm'; subst hm'
      exact ⟨{ cap := st.cap, owner := .method m', op := op }, by simp, rfl, rfl⟩
    · rw [alookup_cons_ne m' m _ _ e] at hm'
      obtain ⟨x, h1, rest⟩ := h.handler m' ch hm'
      exact ⟨x, getElem?_append_of_some _ _ _ _ h1, rest⟩
  wires := by
    intro x hx
    simp only [Core.newChan, List.mem_append, List.mem_singleton] at hx
    rcases hx with hx | hx
    · exact h.wires x hx
    · subst hx; exact ⟨by simp, by simp, by simp, by simp⟩

/-- an update of channel `c`, which no `.sub` entry points at, that keeps sender and owner -/
theorem live_modChan_free (st : Core) (c : ChanId) (f : Chan → Chan) (h : Live st)
    (hno : ∀ k u m, alookup k st.mgr.requests ≠ some (.sub u c m))
    (hs : ∀ x, (f x).senderAlive = x.senderAlive ∧ (f x).owner = x.owner)
    (hf : ∀ x, st.chans[c]? = some x → WiresOK x → WiresOK (f x)) :
    Live (st.modChan c f) where
  sub := by
    intro k u ch um hk
    obtain ⟨x, h1, rest⟩ := h.sub k u ch um hk
    have hne : ch ≠ c := by intro e; subst e; exact hno k u um hk
    refine ⟨x, ?_, rest⟩
    simp only [Core.modChan, modifyAt_get, hne, if_false]; exact h1
  inj := h.inj
  handler := by
    intro m ch hm
    obtain ⟨x, h1, h2, h3⟩ := h.handler m ch hm
    simp only [Core.modChan, modifyAt_get]
    split
    · rename_i e; subst e
      exact ⟨f x, by simp [h1], by rw [(hs x).1]; exact h2, by rw [(hs x).2]; exact h3⟩
    · exact ⟨x, h1, h2, h3⟩
  wires := by
    intro x hx
    rcases mem_modifyAt _ st.chans c x hx with h1 | ⟨b, hb, e⟩
    · exact h.wires x h1
    · subst e
      exact hf b hb (h.wires b (List.mem_of_getElem? hb))

/-! ### preservation by the handlers -/

theorem live_processSubscriptionResponse (st : Core) (s : SubId) (p : Text) (h : Live st) :
    Live (processSubscriptionResponse st s p).1 := by
  unfold processSubscriptionResponse
  split
  · exact h
  · split
    · exact h
    · split
      · exact h
      · exact live_modChan st _ _ (liveFrame_afterSend p) h

theorem live_processSubscriptionClose (st : Core) (s : SubId) (h : Live st) : Live (processSubscriptionClose st s) := by
  unfold processSubscriptionClose
  cases h1 : st.mgr.getRequestIdBySubscriptionId s with
  | none => exact h
  | some rid =>
    simp only
    cases h2 : st.mgr.removeSubscription rid s with
    | none => exact h
    | some x =>
      obtain ⟨m', uid, c, um⟩ := x
      obtain ⟨hl, _, e⟩ := removeSubscription_spec _ _ _ _ _ _ _ h2
      have e' : m' = removedMgr st.mgr rid uid s := e
      subst e'
      simp only
      refine live_end_sub st rid uid c um (removedMgr st.mgr rid uid s) _ h hl ?_ (removedMgr_others st.mgr rid uid s).2.2 ?_
      · intro k u ch m hk
        have hne : k ≠ rid := by intro e; subst e; exact removedMgr_alookup_rid st.mgr k uid s _ (by simp) hk
        exact ⟨hne, (removedMgr_alookup st.mgr rid uid s k _ (by simp) hne).1 hk⟩
      · intro x hw h3 _ h5
        exact ⟨hw.le, fun e => by have := hw.one e; rw [h3] at this; simp at this, fun _ => h3, fun e => by simp [dropSender, h5] at e⟩

theorem live_processNotification (st : Core) (m : Text) (p : Option Text) (h : Live st) :
    Live (processNotification st m p).1 := by
  unfold processNotification
  cases h1 : st.mgr.asNotificationHandler m with
  | none => exact h
  | some c =>
    simp only
    cases h2 : st.chans[c]? with
    | none => exact h
    | some ch =>
      simp only
      have hdrop := live_remove_handler st m c (fun x => dropSender (x.afterSend (p.getD tNull))) h h1
        (fun x hw => by
          have := wiresOK_frame _ (liveFrame_afterSend (p.getD tNull)) x hw
          exact ⟨this.le, this.one, this.excl, this.ack⟩)
      cases h3 : ch.sendRes with
      | ok => exact live_modChan st _ _ (liveFrame_afterSend _) h
      | closed => exact hdrop
      | full => exact hdrop

theorem live_buildUnsub (st : Core) (rid : Id) (s : SubId) (st' : Core) (msg : FrontMsg)
    (hb : buildUnsubscribeMessage st rid s = some (st', msg)) (h : Live st) :
    Live st' ∧ ∃ uid c um, alookup rid st.mgr.requests = some (.sub uid c um) ∧
      (∀ k u m, alookup k st'.mgr.requests ≠ some (.sub u c m)) ∧
      (∀ x, st'.chans[c]? = some x → x.unsubWires = 0 ∧ x.unsubscribed = true ∧ x.closedByServer = false ∧ x.acked = false) := by
  unfold buildUnsubscribeMessage at hb
  cases hu : st.mgr.unsubscribe rid s with
  | none => simp [hu] at hb
  | some x =>
    obtain ⟨m', uid, c, um⟩ := x
    simp [hu] at hb
    obtain ⟨e1, _⟩ := hb
    subst e1
    obtain ⟨hl, _, e⟩ := unsubscribe_spec _ _ _ _ _ _ _ hu
    have e' : m' = unsubMgr st.mgr rid uid s c := e
    subst e'
    have hrr : ∀ k u ch m, alookup k (unsubMgr st.mgr rid uid s c).requests = some (.sub u ch m) →
        k ≠ rid ∧ alookup k st.mgr.requests = some (.sub u ch m) := by
      intro k u ch m hk
      have hne : k ≠ rid := by
        intro e; subst e
        exact unsubMgr_alookup_rid st.mgr k uid s c (by simp [hl]) _ (by simp) (by simp) hk
      exact ⟨hne, (unsubMgr_alookup st.mgr rid uid s c k _ (by simp) (by simp) hne).1 hk⟩
    refine ⟨live_end_sub st rid uid c um (unsubMgr st.mgr rid uid s c) _ h hl hrr (unsubMgr_others st.mgr rid uid s c).2.2 ?_,
      uid, c, um, hl, ?_, ?_⟩
    · intro x hw h3 h4 h5
      exact ⟨hw.le, fun _ => rfl, fun e => by simp [dropSender, h4] at e, fun _ => rfl⟩
    · intro k u m hk
      simp only [modChan_mgr] at hk
      obtain ⟨hne, hk'⟩ := hrr k u c m hk
      exact hne (h.inj k rid u uid c m um hk' hl)
    · intro x hx
      obtain ⟨y, g1, g2, _, g4, _, _, _, g8, _⟩ := h.sub rid uid c um hl
      simp only [Core.modChan, modifyAt_get, if_true, g1, Option.map_some, Option.some.injEq] at hx
      subst hx
      exact ⟨g2, rfl, g4, g8⟩

theorem live_completeSubscribe (st : Core) (r : Response) (uid : Id) (t : Ticket) (um : Text) (h : Live st) :
    Live (completeSubscribe st r uid t um).1 := by
  unfold completeSubscribe
  cases hp : r.payload with
  | error e => exact live_release st uid h
  | result raw =>
    simp only
    cases hd : decodeSubId raw with
    | none => exact live_release st uid h
    | some s =>
      simp only
      cases hins : st.mgr.insertSubscription r.id uid s st.chans.length um with
      | none => exact live_release st uid h
      | some m' =>
        obtain ⟨hv, hsv, e⟩ := insertSubscription_spec _ _ _ _ _ _ _ hins
        have hm : ({ st with mgr := m' } : Core) = withSub st r.id uid s um := by rw [e]; rfl
        have h0 := live_insert_sub st r.id uid s um t.op h hv
        simp only [hm]
        cases hal : st.alive t with
        | true => simp only [if_true]; exact h0
        | false =>
          simp only [Bool.false_eq_true, if_false]
          unfold abandonedSubscribe
          exact live_modChan _ st.chans.length _ liveFrame_dropReceiver h0

/-- acknowledging the unsubscribe of channel `c` (which no `.sub` entry points at) -/
theorem live_ackAt (st : Core) (c : Option ChanId) (h : Live st)
    (hc : ∀ c', c = some c' → (∀ k u m, alookup k st.mgr.requests ≠ some (.sub u c' m)) ∧
      ∀ x, st.chans[c']? = some x → x.unsubscribed = true) : Live (st.ackAt c) := by
  cases c with
  | none => exact h
  | some c' =>
    obtain ⟨hno, hu⟩ := hc c' rfl
    exact live_modChan_free st c' _ h hno (fun x => ⟨rfl, rfl⟩)
      (fun x hx hw => ⟨hw.le, hw.one, hw.excl, fun _ => hu x hx⟩)


/-- where an acknowledgement points: at an unsubscribed, not yet acknowledged channel that no
`.sub` entry references -/
structure UnsubOK (c : Core) : Prop where
  unsub : ∀ k rid ch, alookup k c.mgr.requests = some (.pendingUnsub rid ch) →
    ∃ x, c.chans[ch]? = some x ∧ x.unsubscribed = true ∧ x.acked = false ∧ x.rid = rid
  inj : ∀ k k' rid rid' ch, alookup k c.mgr.requests = some (.pendingUnsub rid ch) →
    alookup k' c.mgr.requests = some (.pendingUnsub rid' ch) → k = k'

theorem live_processSingleResponse (st st' : Core) (r : Response) (effs : List Effect)
    (hp : processSingleResponse st r = .ok (st', effs)) (h : Live st) (hu : UnsubOK st) : Live st' := by
  unfold processSingleResponse at hp
  cases hs : st.mgr.requestStatus r.id with
  | pendingCall =>
    simp only [hs] at hp
    cases hcp : st.mgr.completePendingCall r.id with
    | none => simp [hcp] at hp
    | some x =>
      obtain ⟨m', t0⟩ := x
      obtain ⟨_, _, f3, _, _, f6, _⟩ := completePendingCall_frame _ _ _ _ hcp
      have hnsub : ∀ u c um, alookup r.id st.mgr.requests ≠ some (.sub u c um) := by
        intro u c um hc
        rcases completePendingCall_spec _ _ _ _ hcp with ⟨hl, _⟩ | ⟨_, _, hl, _, _⟩ <;> rw [hl] at hc <;> simp at hc
      have hfr : ∀ k u c um, alookup k m'.requests = some (.sub u c um) → alookup k st.mgr.requests = some (.sub u c um) := by
        intro k u c um hk
        by_cases e : k = r.id
        · rw [e] at hk
          rcases completePendingCall_spec _ _ _ _ hcp with ⟨_, e2⟩ | ⟨rid, _, _, _, e2⟩
          · rw [e2] at hk; simp only at hk; rw [alookup_aerase_self] at hk; simp at hk
          · rw [e2] at hk
            have := (alookup_releaseReservedSlot _ rid r.id _ (by simp)).1 hk
            simp only at this; rw [alookup_aerase_self] at this; simp at this
        · exact (f6 k _ (by simp) e).1 hk
      have h1 : Live { st with mgr := m' } := live_mgr_frame st m' h hfr (fun _ _ hm => by rw [f3] at hm; exact hm)
      cases t0 with
      | some t1 => simp [hcp] at hp; rw [← hp.1]; exact h1
      | none =>
        simp [hcp] at hp
        rw [← hp.1]
        apply live_ackAt _ _ h1
        intro c' hc'
        unfold Mgr.ackTarget at hc'
        cases hl : alookup r.id st.mgr.requests with
        | none => simp [hl] at hc'
        | some kd =>
          cases kd with
          | pendingUnsub rid ch =>
            simp [hl] at hc'; subst hc'
            obtain ⟨x, g1, g2, g3, g4⟩ := hu.unsub r.id rid ch hl
            refine ⟨?_, ?_⟩
            · intro k u m hk
              obtain ⟨y, y1, _, y3, _⟩ := h.sub k u ch m (hfr k u ch m hk)
              rw [g1] at y1; simp at y1; subst y1
              rw [g2] at y3; simp at y3
            · intro y hy
              have : st.chans[ch]? = some y := hy
              rw [g1] at this; simp at this; subst this; exact g2
          | pendingCall t => simp [hl] at hc'
          | pendingSub _ _ _ => simp [hl] at hc'
          | sub _ _ _ => simp [hl] at hc'
  | pendingSub =>
    simp only [hs] at hp
    cases hcp : st.mgr.completePendingSubscription r.id with
    | none => simp [hcp] at hp
    | some x =>
      obtain ⟨m', uid, t0, um⟩ := x
      obtain ⟨hl, e⟩ := completePendingSubscription_spec _ _ _ _ _ _ hcp
      simp [hcp] at hp
      subst e
      have h2 := live_completeSubscribe _ r uid t0 um (live_erase st r.id h)
      rw [hp] at h2
      exact h2
  | sub => simp [hs] at hp
  | invalid => simp [hs] at hp

/-! ### what is pushed into a channel (C05: only its own notifications) -/

def pushes : List Effect → List (ChanId × Text)
  | [] => []
  | .push c p :: r => (c, p) :: pushes r
  | _ :: r => pushes r

theorem pushes_append (a b : List Effect) : pushes (a ++ b) = pushes a ++ pushes b := by
  induction a with
  | nil => rfl
  | cons x xs ih => cases x <;> simp [pushes, ih]

theorem mem_pushes (c : ChanId) (p : Text) (l : List Effect) : Effect.push c p ∈ l ↔ (c, p) ∈ pushes l := by
  induction l with
  | nil => simp [pushes]
  | cons x xs ih => cases x <;> simp [pushes, ih]

theorem pushes_dropQueued (l : List Effect) : pushes (dropQueued l) = pushes l := by
  induction l with
  | nil => rfl
  | cons x xs ih =>
    cases x <;> simp [dropQueued, List.filter, notToFront, pushes] <;> simpa [dropQueued] using ih

theorem pushes_completeIfAlive (st : Core) (t : Ticket) (o : Outcome) : pushes (st.completeIfAlive t o) = [] := by
  unfold Core.completeIfAlive; split <;> rfl

/-- owner of channel `c` -/
def ownerAt (st : Core) (c : ChanId) : Option Owner := (st.chans[c]?).map (·.owner)

/-- channels keep their index and owner -/
def OwnerStable (a b : Core) : Prop := ∀ c o, ownerAt a c = some o → ownerAt b c = some o

theorem ownerStable_refl (a : Core) : OwnerStable a a := fun _ _ h => h
theorem ownerStable_trans (a b c : Core) (h1 : OwnerStable a b) (h2 : OwnerStable b c) : OwnerStable a c :=
  fun x o h => h2 x o (h1 x o h)

theorem ownerStable_modChan (st : Core) (c : ChanId) (f : Chan → Chan) (hf : ∀ ch, (f ch).owner = ch.owner) :
    OwnerStable st (st.modChan c f) := by
  intro x o h
  unfold ownerAt at h ⊢
  simp only [Core.modChan, modifyAt_get]
  split
  · rename_i e; subst e
    cases hg : st.chans[x]? with
    | none => simp [hg] at h
    | some y => simp [hg] at h ⊢; rw [hf]; exact h
  · exact h

theorem ownerStable_of_chans_eq {a b : Core} (h : b.chans = a.chans) : OwnerStable a b := by
  intro x o hx; unfold ownerAt at hx ⊢; rw [h]; exact hx

theorem ownerStable_processSubscriptionResponse (st : Core) (s : SubId) (p : Text) :
    OwnerStable st (processSubscriptionResponse st s p).1 := by
  unfold processSubscriptionResponse
  split
  · exact ownerStable_refl _
  · split
    · exact ownerStable_refl _
    · split
      · exact ownerStable_refl _
      · exact ownerStable_modChan st _ _ (fun ch => afterSend_owner ch p)

theorem ownerStable_processSubscriptionClose (st : Core) (s : SubId) : OwnerStable st (processSubscriptionClose st s) := by
  unfold processSubscriptionClose
  cases h1 : st.mgr.getRequestIdBySubscriptionId s with
  | none => exact ownerStable_refl _
  | some rid =>
    simp only
    cases h2 : st.mgr.removeSubscription rid s with
    | none => exact ownerStable_refl _
    | some x =>
      obtain ⟨m', uid, c, um⟩ := x
      simp only
      exact ownerStable_modChan { st with mgr := m' } c _ (fun ch => rfl)

theorem ownerStable_processNotification (st : Core) (m : Text) (p : Option Text) :
    OwnerStable st (processNotification st m p).1 := by
  unfold processNotification
  cases h1 : st.mgr.asNotificationHandler m with
  | none => exact ownerStable_refl _
  | some c =>
    simp only
    cases h2 : st.chans[c]? with
    | none => exact ownerStable_refl _
    | some ch =>
      simp only
      cases h3 : ch.sendRes with
      | ok => exact ownerStable_modChan st _ _ (fun x => afterSend_owner x _)
      | closed => exact ownerStable_modChan { st with mgr := _ } _ _ (fun x => by simp [dropSender, afterSend_owner])
      | full => exact ownerStable_modChan { st with mgr := _ } _ _ (fun x => by simp [dropSender, afterSend_owner])

/-- the notification `e` legitimately feeds channel `c` with payload `q` -/
def OwnNotif (st : Core) (e : Text) (c : ChanId) (q : Text) : Prop :=
  (∃ s, classifyIncoming e = .subNotif s q ∧ ownerAt st c = some (.sub s)) ∨
  (∃ m ps, classifyIncoming e = .notif m ps ∧ q = ps.getD tNull ∧ ownerAt st c = some (.method m))

theorem ownNotif_stable {a b : Core} (h : OwnerStable a b) {e : Text} {c : ChanId} {q : Text} (ho : OwnNotif a e c q) :
    OwnNotif b e c q := by
  rcases ho with ⟨s, h1, h2⟩ | ⟨m, ps, h1, h2, h3⟩
  · exact Or.inl ⟨s, h1, h c _ h2⟩
  · exact Or.inr ⟨m, ps, h1, h2, h c _ h3⟩

theorem processSubscriptionResponse_pushes (st : Core) (s : SubId) (p : Text) (hr : Routes st) (c : ChanId) (q : Text)
    (h : (c, q) ∈ pushes (processSubscriptionResponse st s p).2) : q = p ∧ ownerAt st c = some (.sub s) := by
  unfold processSubscriptionResponse at h
  cases h1 : st.mgr.getRequestIdBySubscriptionId s with
  | none => simp [h1, pushes] at h
  | some rid =>
    simp only [h1] at h
    cases h2 : st.mgr.asSubscription rid with
    | none => simp [h2, pushes] at h
    | some c' =>
      simp only [h2] at h
      cases h3 : st.chans[c']? with
      | none => simp [h3, pushes] at h
      | some ch =>
        simp only [h3] at h
        cases h4 : ch.sendRes with
        | ok =>
          simp [h4, pushes] at h
          obtain ⟨e1, e2⟩ := h
          subst e1 e2
          obtain ⟨uid, ch', um, g1, g2⟩ := hr.subs s rid h1
          unfold Mgr.asSubscription at h2
          rw [g1] at h2; simp at h2; subst h2
          exact ⟨rfl, g2⟩
        | closed => simp [h4, pushes] at h
        | full => simp [h4, pushes] at h

theorem processNotification_pushes (st : Core) (m : Text) (ps : Option Text) (hr : Routes st) (c : ChanId) (q : Text)
    (h : (c, q) ∈ pushes (processNotification st m ps).2) : q = ps.getD tNull ∧ ownerAt st c = some (.method m) := by
  unfold processNotification at h
  cases h1 : st.mgr.asNotificationHandler m with
  | none => simp [h1, pushes] at h
  | some c' =>
    simp only [h1] at h
    cases h3 : st.chans[c']? with
    | none => simp [h3, pushes] at h
    | some ch =>
      simp only [h3] at h
      cases h4 : ch.sendRes with
      | ok =>
        simp [h4, pushes] at h
        obtain ⟨e1, e2⟩ := h
        subst e1 e2
        exact ⟨rfl, hr.handlers m _ h1⟩
      | closed => simp [h4, pushes] at h
      | full => simp [h4, pushes] at h

theorem abandonedSubscribe_pushes (st : Core) (c : ChanId) (s : SubId) (t : Ticket) :
    pushes (abandonedSubscribe st c s t).2 = [] := by
  unfold abandonedSubscribe; rfl

theorem completeSubscribe_pushes (st : Core) (r : Response) (uid : Id) (t : Ticket) (um : Text) :
    pushes (completeSubscribe st r uid t um).2 = [] := by
  unfold completeSubscribe
  cases hp : r.payload with
  | error e => exact pushes_completeIfAlive _ _ _
  | result raw =>
    simp only
    cases hd : decodeSubId raw with
    | none => exact pushes_completeIfAlive _ _ _
    | some s =>
      simp only
      cases hins : st.mgr.insertSubscription r.id uid s st.chans.length um with
      | none => exact pushes_completeIfAlive _ _ _
      | some m' =>
        simp only
        cases hal : st.alive t with
        | true => rfl
        | false => simp only [Bool.false_eq_true, if_false]; exact abandonedSubscribe_pushes _ _ _ _

theorem processSingleResponse_pushes (st st' : Core) (r : Response) (effs : List Effect)
    (hp : processSingleResponse st r = .ok (st', effs)) : pushes effs = [] := by
  unfold processSingleResponse at hp
  cases hs : st.mgr.requestStatus r.id with
  | pendingCall =>
    simp only [hs] at hp
    cases hcp : st.mgr.completePendingCall r.id with
    | none => simp [hcp] at hp
    | some x =>
      obtain ⟨m', t0⟩ := x
      cases t0 with
      | none => simp [hcp] at hp; rw [hp.2]; rfl
      | some t1 => simp [hcp] at hp; rw [← hp.2]; exact pushes_completeIfAlive _ _ _
  | pendingSub =>
    simp only [hs] at hp
    cases hcp : st.mgr.completePendingSubscription r.id with
    | none => simp [hcp] at hp
    | some x =>
      obtain ⟨m', uid, t0, um⟩ := x
      simp [hcp] at hp
      have := completeSubscribe_pushes { st with mgr := m' } r uid t0 um
      rw [hp] at this; exact this
  | sub => simp [hs] at hp
  | invalid => simp [hs] at hp

theorem processBatchResponse_pushes (st : Core) (rps : List Response) (lo hi : Nat) :
    pushes (processBatchResponse st rps lo hi).2.1 = [] := by
  unfold processBatchResponse
  cases hc : st.mgr.completePendingBatch (lo, hi) with
  | none => rfl
  | some x =>
    obtain ⟨m', t⟩ := x
    simp only
    split
    · rfl
    · exact pushes_completeIfAlive _ _ _

/-- every push of the array loop comes from one of the array's own notification elements -/
theorem arrayLoop_pushes (all : List Text) (es : List Text) : ∀ (acc acc' : ArrAcc) (f : Option Fatal),
    arrayLoop acc es = (acc', f) → (∀ e ∈ es, e ∈ all) → CInv acc.st →
    (∀ c q, (c, q) ∈ pushes acc.effs → ∃ e ∈ all, OwnNotif acc.st e c q) →
    CInv acc'.st ∧ ∀ c q, (c, q) ∈ pushes acc'.effs → ∃ e ∈ all, OwnNotif acc'.st e c q := by
  induction es with
  | nil => intro acc acc' f h _ hc hp; simp [arrayLoop] at h; rw [← h.1]; exact ⟨hc, hp⟩
  | cons e rest ih =>
    intro acc acc' f h hall hc hp
    have hall' : ∀ x ∈ rest, x ∈ all := fun x hx => hall x (List.mem_cons_of_mem _ hx)
    have he : e ∈ all := hall e List.mem_cons_self
    rw [arrayLoop] at h
    cases hcl : classifyIncoming e with
    | response r =>
      simp only [hcl] at h
      cases hid : idNum r.id with
      | none => simp [hid] at h; rw [← h.1]; exact ⟨hc, hp⟩
      | some id => simp only [hid] at h; have := ih _ _ _ h hall' hc hp; exact this
    | garbage => simp [hcl] at h; rw [← h.1]; exact ⟨hc, hp⟩
    | subNotif s p =>
      simp only [hcl] at h
      have hst := ownerStable_processSubscriptionResponse acc.st s p
      refine ih _ _ _ h hall' (cinv_processSubscriptionResponse acc.st s p hc) ?_
      intro c q hq
      simp only [pushes_append, List.mem_append] at hq
      rcases hq with hq | hq
      · obtain ⟨e', he', ho⟩ := hp c q hq
        exact ⟨e', he', ownNotif_stable hst ho⟩
      · obtain ⟨e1, e2⟩ := processSubscriptionResponse_pushes acc.st s p hc.routes c q hq
        subst e1
        exact ⟨e, he, Or.inl ⟨s, hcl, hst c _ e2⟩⟩
    | subClose s =>
      simp only [hcl] at h
      have hst := ownerStable_processSubscriptionClose acc.st s
      refine ih _ _ _ h hall' (cinv_processSubscriptionClose acc.st s hc) ?_
      intro c q hq
      obtain ⟨e', he', ho⟩ := hp c q hq
      exact ⟨e', he', ownNotif_stable hst ho⟩
    | notif m ps =>
      simp only [hcl] at h
      have hst := ownerStable_processNotification acc.st m ps
      refine ih _ _ _ h hall' (cinv_processNotification acc.st m ps hc) ?_
      intro c q hq
      simp only [pushes_append, List.mem_append] at hq
      rcases hq with hq | hq
      · obtain ⟨e', he', ho⟩ := hp c q hq
        exact ⟨e', he', ownNotif_stable hst ho⟩
      · obtain ⟨e1, e2⟩ := processNotification_pushes acc.st m ps hc.routes c q hq
        exact ⟨e, he, Or.inr ⟨m, ps, hcl, e1, hst c _ e2⟩⟩

theorem handleArray_pushes (st : Core) (es : List Text) (hc : CInv st) (c : ChanId) (q : Text)
    (h : (c, q) ∈ pushes (handleArray st es).effs) : ∃ e ∈ es, OwnNotif (handleArray st es).st e c q := by
  unfold handleArray at h ⊢
  cases hl : arrayLoop { st := st } es with
  | mk acc f =>
    obtain ⟨hc', hp⟩ := arrayLoop_pushes es es _ _ _ hl (fun _ h => h) hc (by intro c q hq; simp [pushes] at hq)
    cases f with
    | some f =>
      simp only [hl, pushes_dropQueued] at h ⊢
      exact hp c q h
    | none =>
      simp only [hl] at h ⊢
      unfold arrayFinish at h ⊢
      cases hr : acc.range with
      | none =>
        simp only [hr] at h ⊢
        split at h
        · rename_i hg; simp only [hg, if_true]; exact hp c q h
        · rename_i hg; simp only [hg]; rw [pushes_dropQueued] at h; exact hp c q h
      | some pr =>
        obtain ⟨lo, hi⟩ := pr
        simp only [hr] at h ⊢
        cases he : rangeEnd hi with
        | err e => simp only [he, pushes_dropQueued] at h ⊢; exact hp c q h
        | ok hi1 =>
          simp only [he] at h ⊢
          have hst : OwnerStable acc.st (processBatchResponse acc.st acc.batch lo hi1).1 :=
            ownerStable_of_chans_eq (processBatchResponse_requests acc.st acc.batch lo hi1).2.2.2
          split at h
          · rename_i f hf
            rw [pushes_dropQueued] at h
            obtain ⟨e', he', ho⟩ := hp c q h
            exact ⟨e', he', ownNotif_stable hst ho⟩
          · rename_i hf
            rw [pushes_append, processBatchResponse_pushes, List.append_nil] at h
            obtain ⟨e', he', ho⟩ := hp c q h
            exact ⟨e', he', ownNotif_stable hst ho⟩

/-! ### packing: an array of notifications ≡ the same notifications one by one -/

def isNotifLike : Incoming → Bool
  | .subNotif _ _ => true
  | .subClose _ => true
  | .notif _ _ => true
  | _ => false

/-- handling the texts one after the other, each as a single message -/
def seqSingles : Core → List Text → Core × List Effect
  | st, [] => (st, [])
  | st, e :: rest => ((seqSingles (handleSingle st e).st rest).1, (handleSingle st e).effs ++ (seqSingles (handleSingle st e).st rest).2)

theorem arrayLoop_notifs (es : List Text) (hn : ∀ e ∈ es, isNotifLike (classifyIncoming e) = true) : ∀ acc : ArrAcc,
    arrayLoop acc es = ({ acc with st := (seqSingles acc.st es).1, effs := acc.effs ++ (seqSingles acc.st es).2,
                                   gotNotif := acc.gotNotif || !es.isEmpty }, none) := by
  induction es with
  | nil => intro acc; simp [arrayLoop, seqSingles]
  | cons e rest ih =>
    intro acc
    have hn' : ∀ x ∈ rest, isNotifLike (classifyIncoming x) = true := fun x hx => hn x (List.mem_cons_of_mem _ hx)
    have he := hn e List.mem_cons_self
    rw [arrayLoop]
    cases hcl : classifyIncoming e with
    | response r => rw [hcl] at he; simp [isNotifLike] at he
    | garbage => rw [hcl] at he; simp [isNotifLike] at he
    | subNotif s p =>
      simp only
      rw [ih hn']
      simp [seqSingles, handleSingle, hcl, List.append_assoc]
    | subClose s =>
      simp only
      rw [ih hn']
      simp [seqSingles, handleSingle, hcl]
    | notif m ps =>
      simp only
      rw [ih hn']
      simp [seqSingles, handleSingle, hcl, List.append_assoc]

end Jrpc.Client
