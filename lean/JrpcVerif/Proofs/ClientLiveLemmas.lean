/-
  `Live`: every active-subscription entry / notification-handler entry of the tables points at its
  own, still open channel; no channel is referenced twice.  Used by C05 (exactly one unsubscribe)
  and C18 (a finished subscription has no table entry).
-/
import JrpcVerif.Proofs.ClientChanLemmas
namespace Jrpc.Client
open Jrpc

def isSubOwner : Owner → Bool
  | .sub _ => true
  | .method _ => false

structure Live (c : Core) : Prop where
  sub : ∀ id uid ch um, alookup id c.mgr.requests = some (.sub uid ch um) →
    ∃ x, c.chans[ch]? = some x ∧ x.unsubWires = 0 ∧ x.unsubscribed = false ∧ x.closedByServer = false ∧
      x.senderAlive = true ∧ isSubOwner x.owner = true ∧ x.uid = uid ∧ x.acked = false ∧ x.rid = id
  inj : ∀ id id' uid uid' ch um um', alookup id c.mgr.requests = some (.sub uid ch um) →
    alookup id' c.mgr.requests = some (.sub uid' ch um') → id = id'
  handler : ∀ m ch, alookup m c.mgr.handlers = some ch →
    ∃ x, c.chans[ch]? = some x ∧ x.senderAlive = true ∧ x.owner = .method m
  wires : ∀ x ∈ c.chans, x.unsubWires ≤ 1 ∧ (x.unsubWires = 1 → x.unsubscribed = true) ∧
    (x.closedByServer = true → x.unsubscribed = false) ∧ (x.acked = true → x.unsubscribed = true)

theorem live_init (cap : Nat) : Live { cap := cap } where
  sub := by intro id uid ch um h; simp [alookup] at h
  inj := by intro id id' uid uid' ch um um' h; simp [alookup] at h
  handler := by intro m ch h; simp [alookup] at h
  wires := by intro x hx; simp at hx

/-- a channel update that leaves the `Live`-relevant fields alone -/
structure LiveFrame (f : Chan → Chan) : Prop where
  wires : ∀ ch, (f ch).unsubWires = ch.unsubWires
  unsub : ∀ ch, (f ch).unsubscribed = ch.unsubscribed
  closed : ∀ ch, (f ch).closedByServer = ch.closedByServer
  sender : ∀ ch, (f ch).senderAlive = ch.senderAlive
  owner : ∀ ch, (f ch).owner = ch.owner
  uid : ∀ ch, (f ch).uid = ch.uid
  acked : ∀ ch, (f ch).acked = ch.acked
  rid : ∀ ch, (f ch).rid = ch.rid

theorem liveFrame_afterSend (p : Text) : LiveFrame (fun x => x.afterSend p) := by
  constructor <;> intro ch <;> unfold Chan.afterSend <;> split <;> rfl

theorem liveFrame_dropReceiver : LiveFrame (fun ch => { dropReceiver ch with hasKind := false }) := by
  constructor <;> intro ch <;> rfl

theorem liveFrame_hasKind (b : Bool) : LiveFrame (fun ch => { ch with hasKind := b }) := by
  constructor <;> intro ch <;> rfl

theorem liveFrame_pop (rest : List Text) (p : Text) : LiveFrame (fun x => { x with buf := rest, yielded := x.yielded ++ [p] }) := by
  constructor <;> intro ch <;> rfl

theorem live_modChan (st : Core) (c : ChanId) (f : Chan → Chan) (hf : LiveFrame f) (h : Live st) : Live (st.modChan c f) where
  sub := by
    intro id uid ch um hl
    obtain ⟨x, h1, h2, h3, h4, h5, h6, h7⟩ := h.sub id uid ch um hl
    simp only [Core.modChan, modifyAt_get]
    split
    · rename_i e; subst e
      exact ⟨f x, by simp [h1], by rw [hf.wires]; exact h2, by rw [hf.unsub]; exact h3, by rw [hf.closed]; exact h4,
        by rw [hf.sender]; exact h5, by rw [hf.owner]; exact h6, by rw [hf.uid]; exact h7⟩
    · exact ⟨x, h1, h2, h3, h4, h5, h6, h7⟩
  inj := h.inj
  handler := by
    intro m ch hm
    obtain ⟨x, h1, h2, h3⟩ := h.handler m ch hm
    simp only [Core.modChan, modifyAt_get]
    split
    · rename_i e; subst e
      exact ⟨f x, by simp [h1], by rw [hf.sender]; exact h2, by rw [hf.owner]; exact h3⟩
    · exact ⟨x, h1, h2, h3⟩
  wires := by
    intro x hx
    rcases mem_modifyAt f st.chans c x hx with h1 | ⟨b, hb, e⟩
    · exact h.wires x h1
    · subst e
      rw [hf.wires, hf.unsub]
      exact h.wires b (List.mem_of_getElem? hb)

/-- erasing any request key -/
theorem live_erase (st : Core) (id : Id) (h : Live st) :
    Live { st with mgr := { st.mgr with requests := aerase id st.mgr.requests } } where
  sub := by
    intro k uid ch um hl
    exact h.sub k uid ch um (alookup_aerase_some k id _ _ hl).1
  inj := by
    intro k k' uid uid' ch um um' h1 h2
    exact h.inj k k' uid uid' ch um um' (alookup_aerase_some k id _ _ h1).1 (alookup_aerase_some k' id _ _ h2).1
  handler := h.handler
  wires := h.wires

/-- inserting a non-subscription entry under a vacant key -/
theorem live_insert_nonsub (st : Core) (id : Id) (v : Kind) (hv : alookup id st.mgr.requests = none)
    (hn : ∀ uid ch um, v ≠ .sub uid ch um) (h : Live st) :
    Live { st with mgr := { st.mgr with requests := (id, v) :: st.mgr.requests } } where
  sub := by
    intro k uid ch um hl
    simp only at hl
    by_cases e : k = id
    · subst e; rw [alookup_cons_self] at hl; simp at hl; exact absurd hl (hn uid ch um)
    · rw [alookup_cons_ne k id v _ e] at hl; exact h.sub k uid ch um hl
  inj := by
    intro k k' uid uid' ch um um' h1 h2
    simp only at h1 h2
    have e1 : k ≠ id := by intro e; subst e; rw [alookup_cons_self] at h1; simp at h1; exact hn uid ch um h1
    have e2 : k' ≠ id := by intro e; subst e; rw [alookup_cons_self] at h2; simp at h2; exact hn uid' ch um' h2
    rw [alookup_cons_ne k id v _ e1] at h1
    rw [alookup_cons_ne k' id v _ e2] at h2
    exact h.inj k k' uid uid' ch um um' h1 h2
  handler := h.handler
  wires := h.wires

theorem getElem?_lt {α} (l : List α) (i : Nat) (a : α) (h : l[i]? = some a) : i < l.length := by
  rcases Nat.lt_or_ge i l.length with h1 | h1
  · exact h1
  · rw [List.getElem?_eq_none h1] at h; simp at h

/-- `insert_subscription` + the new channel -/
theorem live_insert_sub (st : Core) (sid uid : Id) (s : SubId) (um : Text) (op : Nat) (h : Live st)
    (hv : alookup sid st.mgr.requests = none) : Live ((withSub st sid uid s um).newChan (.sub s) op uid).1 where
  sub := by
    intro k uid' ch um' hl
    simp only [Core.newChan, withSub] at hl ⊢
    by_cases e : k = sid
    · subst e
      rw [alookup_cons_self] at hl
      simp at hl
      obtain ⟨e1, e2, e3⟩ := hl
      subst e1 e2 e3
      exact ⟨{ cap := st.cap, owner := .sub s, op := op, uid := uid }, by simp, rfl, rfl, rfl, rfl, rfl, rfl⟩
    · rw [alookup_cons_ne k sid _ _ e] at hl
      obtain ⟨x, h1, rest⟩ := h.sub k uid' ch um' hl
      exact ⟨x, getElem?_append_of_some _ _ _ _ h1, rest⟩
  inj := by
    intro k k' u u' ch um1 um2 h1 h2
    simp only [Core.newChan, withSub] at h1 h2
    by_cases e1 : k = sid <;> by_cases e2 : k' = sid
    · rw [e1, e2]
    · subst e1
      rw [alookup_cons_self] at h1; simp at h1
      rw [alookup_cons_ne k' k _ _ e2] at h2
      obtain ⟨x, hx, _⟩ := h.sub k' u' ch um2 h2
      have hlt := getElem?_lt _ _ _ hx
      have heq := h1.2.1
      rw [heq] at hlt
      exact absurd hlt (Nat.lt_irrefl _)
    · subst e2
      rw [alookup_cons_self] at h2; simp at h2
      rw [alookup_cons_ne k k' _ _ e1] at h1
      obtain ⟨x, hx, _⟩ := h.sub k u ch um1 h1
      have hlt := getElem?_lt _ _ _ hx
      have heq := h2.2.1
      rw [heq] at hlt
      exact absurd hlt (Nat.lt_irrefl _)
    · rw [alookup_cons_ne k sid _ _ e1] at h1
      rw [alookup_cons_ne k' sid _ _ e2] at h2
      exact h.inj k k' u u' ch um1 um2 h1 h2
  handler := by
    intro m ch hm
    obtain ⟨x, h1, rest⟩ := h.handler m ch hm
    exact ⟨x, getElem?_append_of_some _ _ _ _ h1, rest⟩
  wires := by
    intro x hx
    simp only [Core.newChan, withSub, List.mem_append, List.mem_singleton] at hx
    rcases hx with hx | hx
    · exact h.wires x hx
    · subst hx; simp

/-- ending a subscription: its entry `rid` (pointing at channel `c`) is erased or overwritten by a
non-subscription entry, and the sender of `c` is dropped with one of the two end flags -/
theorem live_end_sub (st : Core) (rid : Id) (uid : Id) (c : ChanId) (um : Text) (reqs' : List (Id × Kind)) (subs' : List (SubId × Id))
    (f : Chan → Chan) (h : Live st)
    (hl : alookup rid st.mgr.requests = some (.sub uid c um))
    (hr : ∀ k, k ≠ rid → alookup k reqs' = alookup k st.mgr.requests)
    (hrid : ∀ u ch m, alookup rid reqs' ≠ some (.sub u ch m))
    (hfw : ∀ ch, (f ch).unsubWires = ch.unsubWires) (hfu : ∀ ch, ch.unsubscribed = true → (f ch).unsubscribed = true) :
    Live ({ st with mgr := { st.mgr with requests := reqs', subs := subs' } }.modChan c f) where
  sub := by
    intro k u ch m hk
    simp only [modChan_mgr] at hk
    have hne : k ≠ rid := by intro e; subst e; exact hrid u ch m hk
    rw [hr k hne] at hk
    obtain ⟨x, h1, rest⟩ := h.sub k u ch m hk
    have hc : ch ≠ c := by
      intro e; subst e
      exact hne (h.inj k rid u uid ch m um hk hl)
    refine ⟨x, ?_, rest⟩
    simp only [Core.modChan, modifyAt_get, hc, if_false]; exact h1
  inj := by
    intro k k' u u' ch m m' h1 h2
    simp only [modChan_mgr] at h1 h2
    have e1 : k ≠ rid := by intro e; subst e; exact hrid u ch m h1
    have e2 : k' ≠ rid := by intro e; subst e; exact hrid u' ch m' h2
    rw [hr k e1] at h1; rw [hr k' e2] at h2
    exact h.inj k k' u u' ch m m' h1 h2
  handler := by
    intro m ch hm
    obtain ⟨x, h1, h2, h3⟩ := h.handler m ch hm
    have hc : ch ≠ c := by
      intro e; subst e
      obtain ⟨y, g1, _, _, _, _, g6, _⟩ := h.sub rid uid ch um hl
      rw [h1] at g1; simp at g1; subst g1
      rw [h3] at g6; simp [isSubOwner] at g6
    refine ⟨x, ?_, h2, h3⟩
    simp only [Core.modChan, modifyAt_get, hc, if_false]; exact h1
  wires := by
    intro x hx
    rcases mem_modifyAt f st.chans c x hx with h1 | ⟨b, hb, e⟩
    · exact h.wires x h1
    · subst e
      rw [hfw]
      have := h.wires b (List.mem_of_getElem? hb)
      exact ⟨this.1, fun h1 => hfu b (this.2 h1)⟩

theorem live_of_mgr_chans_eq {a b : Core} (hr : b.mgr.requests = a.mgr.requests) (hh : b.mgr.handlers = a.mgr.handlers)
    (hc : b.chans = a.chans) (h : Live a) : Live b where
  sub := by rw [hr, hc]; exact h.sub
  inj := by rw [hr]; exact h.inj
  handler := by rw [hh, hc]; exact h.handler
  wires := by rw [hc]; exact h.wires

theorem live_ackChans (st : Core) (id : Id) (h : Live st) : Live (st.ackChans id) where
  sub := by
    intro k u ch m hk
    obtain ⟨x, h1, h2, h3, h4, h5, h6, h7⟩ := h.sub k u ch m hk
    refine ⟨ackChan id x, by simp [Core.ackChans, h1], ?_⟩
    unfold ackChan; split <;> exact ⟨h2, h3, h4, h5, h6, h7⟩
  inj := h.inj
  handler := by
    intro m ch hm
    obtain ⟨x, h1, h2, h3⟩ := h.handler m ch hm
    refine ⟨ackChan id x, by simp [Core.ackChans, h1], ?_⟩
    unfold ackChan; split <;> exact ⟨h2, h3⟩
  wires := by
    intro x hx
    simp only [Core.ackChans, List.mem_map] at hx
    obtain ⟨y, hy, e⟩ := hx
    subst e
    have := h.wires y hy
    unfold ackChan; split <;> exact this

/-- removing a notification handler and dropping its sender -/
theorem live_remove_handler (st : Core) (m : Text) (c : ChanId) (f : Chan → Chan) (h : Live st)
    (hl : alookup m st.mgr.handlers = some c)
    (hfw : ∀ ch, (f ch).unsubWires = ch.unsubWires) (hfu : ∀ ch, (f ch).unsubscribed = ch.unsubscribed) :
    Live ({ st with mgr := { st.mgr with handlers := aerase m st.mgr.handlers } }.modChan c f) where
  sub := by
    intro k u ch um hk
    obtain ⟨x, h1, rest⟩ := h.sub k u ch um hk
    have hc : ch ≠ c := by
      intro e; subst e
      obtain ⟨y, g1, _, g3⟩ := h.handler m ch hl
      rw [h1] at g1; simp at g1; subst g1
      have := rest.2.2.2.2.1
      rw [g3] at this; simp [isSubOwner] at this
    refine ⟨x, ?_, rest⟩
    simp only [Core.modChan, modifyAt_get, hc, if_false]; exact h1
  inj := h.inj
  handler := by
    intro m' ch hm'
    simp only [modChan_mgr] at hm'
    obtain ⟨hm2, hne⟩ := alookup_aerase_some m' m _ _ hm'
    obtain ⟨x, h1, h2, h3⟩ := h.handler m' ch hm2
    have hc : ch ≠ c := by
      intro e; subst e
      obtain ⟨y, g1, _, g3⟩ := h.handler m ch hl
      rw [h1] at g1; simp at g1; subst g1
      rw [h3] at g3; simp at g3; exact hne g3
    refine ⟨x, ?_, h2, h3⟩
    simp only [Core.modChan, modifyAt_get, hc, if_false]; exact h1
  wires := by
    intro x hx
    rcases mem_modifyAt f st.chans c x hx with h1 | ⟨b, hb, e⟩
    · exact h.wires x h1
    · subst e
      rw [hfw, hfu]
      exact h.wires b (List.mem_of_getElem? hb)

/-- registering a notification handler with its new channel -/
theorem live_insert_handler (st : Core) (m : Text) (op : Nat) (h : Live st) :
    Live ({ st with mgr := { st.mgr with handlers := (m, st.chans.length) :: st.mgr.handlers } }.newChan (.method m) op).1 where
  sub := by
    intro k u ch um hk
    obtain ⟨x, h1, rest⟩ := h.sub k u ch um hk
    exact ⟨x, getElem?_append_of_some _ _ _ _ h1, rest⟩
  inj := h.inj
  handler := by
    intro m' ch hm'
    simp only [Core.newChan] at hm' ⊢
    by_cases e : m' = m
    · subst e
      rw [alookup_cons_self] at hm'; simp at hm'; subst hm'
      exact ⟨{ cap := st.cap, owner := .method m', op := op }, by simp, rfl, rfl⟩
    · rw [alookup_cons_ne m' m _ _ e] at hm'
      obtain ⟨x, h1, rest⟩ := h.handler m' ch hm'
      exact ⟨x, getElem?_append_of_some _ _ _ _ h1, rest⟩
  wires := by
    intro x hx
    simp only [Core.newChan, List.mem_append, List.mem_singleton] at hx
    rcases hx with hx | hx
    · exact h.wires x hx
    · subst hx; simp

/-- counting the unsubscribe request written for channel `c`, which no table entry points at any more -/
theorem live_bump_wires (st : Core) (c : ChanId) (h : Live st)
    (hno : ∀ k u m, alookup k st.mgr.requests ≠ some (.sub u c m))
    (hc : ∀ x, st.chans[c]? = some x → x.unsubWires = 0 ∧ x.unsubscribed = true) :
    Live (st.modChan c (fun ch => { ch with unsubWires := ch.unsubWires + 1 })) where
  sub := by
    intro k u ch um hk
    obtain ⟨x, h1, rest⟩ := h.sub k u ch um hk
    have hne : ch ≠ c := by intro e; subst e; exact hno k u um hk
    refine ⟨x, ?_, rest⟩
    simp only [Core.modChan, modifyAt_get, hne, if_false]; exact h1
  inj := h.inj
  handler := by
    intro m ch hm
    obtain ⟨x, h1, h2, h3⟩ := h.handler m ch hm
    simp only [Core.modChan, modifyAt_get]
    split
    · rename_i e; subst e
      exact ⟨{ x with unsubWires := x.unsubWires + 1 }, by simp [h1], h2, h3⟩
    · exact ⟨x, h1, h2, h3⟩
  wires := by
    intro x hx
    rcases mem_modifyAt _ st.chans c x hx with h1 | ⟨b, hb, e⟩
    · exact h.wires x h1
    · subst e
      obtain ⟨a, b'⟩ := hc b hb
      simp [a, b']

/-! ### preservation by the handlers -/

theorem live_processSubscriptionResponse (st : Core) (s : SubId) (p : Text) (h : Live st) :
    Live (processSubscriptionResponse st s p).1 := by
  unfold processSubscriptionResponse
  split
  · exact h
  · split
    · exact h
    · split
      · exact h
      · exact live_modChan st _ _ (liveFrame_afterSend p) h

theorem live_processSubscriptionClose (st : Core) (s : SubId) (h : Live st) : Live (processSubscriptionClose st s) := by
  unfold processSubscriptionClose
  cases h1 : st.mgr.getRequestIdBySubscriptionId s with
  | none => exact h
  | some rid =>
    simp only
    cases h2 : st.mgr.removeSubscription rid s with
    | none => exact h
    | some x =>
      obtain ⟨m', uid, c, um⟩ := x
      obtain ⟨hl, _, e⟩ := removeSubscription_spec _ _ _ _ _ _ _ h2
      subst e
      simp only
      exact live_end_sub st rid uid c um (aerase rid st.mgr.requests) (aerase s st.mgr.subs) _ h hl
        (fun k hk => alookup_aerase_ne k rid _ hk)
        (fun u ch m hc => by rw [alookup_aerase_self] at hc; simp at hc)
        (fun ch => rfl) (fun ch hu => hu)

theorem live_processNotification (st : Core) (m : Text) (p : Option Text) (h : Live st) :
    Live (processNotification st m p).1 := by
  unfold processNotification
  cases h1 : st.mgr.asNotificationHandler m with
  | none => exact h
  | some c =>
    simp only
    cases h2 : st.chans[c]? with
    | none => exact h
    | some ch =>
      simp only
      have hdrop := live_remove_handler st m c (fun x => dropSender (x.afterSend (p.getD tNull))) h h1
        (fun x => by simp [dropSender, (liveFrame_afterSend (p.getD tNull)).wires x])
        (fun x => by simp [dropSender, (liveFrame_afterSend (p.getD tNull)).unsub x])
      cases h3 : ch.sendRes with
      | ok => exact live_modChan st _ _ (liveFrame_afterSend _) h
      | closed => exact hdrop
      | full => exact hdrop

theorem live_buildUnsub (st : Core) (rid : Id) (s : SubId) (st' : Core) (msg : FrontMsg)
    (hb : buildUnsubscribeMessage st rid s = some (st', msg)) (h : Live st) :
    Live st' ∧ ∃ uid c um, alookup rid st.mgr.requests = some (.sub uid c um) ∧
      (∀ k u m, alookup k st'.mgr.requests ≠ some (.sub u c m)) ∧
      (∀ x, st'.chans[c]? = some x → x.unsubWires = 0 ∧ x.unsubscribed = true) := by
  unfold buildUnsubscribeMessage at hb
  cases hu : st.mgr.unsubscribe rid s with
  | none => simp [hu] at hb
  | some x =>
    obtain ⟨m', uid, c, um⟩ := x
    simp [hu] at hb
    obtain ⟨e1, _⟩ := hb
    subst e1
    obtain ⟨hl, _, e⟩ := unsubscribe_spec _ _ _ _ _ _ _ hu
    subst e
    have hrep : ∀ u ch m, alookup rid (areplace rid (Kind.pendingCall none) st.mgr.requests) ≠ some (.sub u ch m) := by
      intro u ch m hc
      rw [alookup_areplace_self rid _ _ (by simp [hl])] at hc; simp at hc
    refine ⟨live_end_sub st rid uid c um _ (aerase s st.mgr.subs) _ h hl
        (fun k hk => alookup_areplace_ne k rid _ _ hk) hrep (fun ch => rfl) (fun ch _ => rfl), uid, c, um, hl, ?_, ?_⟩
    · intro k u m hk
      simp only [modChan_mgr] at hk
      by_cases e : k = rid
      · subst e; exact hrep u c m hk
      · rw [alookup_areplace_ne k rid _ _ e] at hk
        exact e (h.inj k rid u uid c m um hk hl)
    · intro x hx
      obtain ⟨y, g1, g2, _⟩ := h.sub rid uid c um hl
      simp only [Core.modChan, modifyAt_get, if_true, g1, Option.map_some, Option.some.injEq] at hx
      subst hx
      exact ⟨g2, rfl⟩

theorem live_completeSubscribe (st : Core) (r : Response) (uid : Id) (t : Ticket) (um : Text) (h : Live st) :
    Live (completeSubscribe st r uid t um).1 := by
  unfold completeSubscribe
  cases hp : r.payload with
  | error e => exact h
  | result raw =>
    simp only
    cases hd : decodeSubId raw with
    | none => exact h
    | some s =>
      simp only
      cases hins : st.mgr.insertSubscription r.id uid s st.chans.length um with
      | none => exact h
      | some m' =>
        obtain ⟨hv, hsv, e⟩ := insertSubscription_spec _ _ _ _ _ _ _ hins
        have hm : ({ st with mgr := m' } : Core) = withSub st r.id uid s um := by rw [e]; rfl
        have h0 := live_insert_sub st r.id uid s um t.op h hv
        simp only [hm]
        cases hal : st.alive t with
        | true => simp only [if_true]; exact h0
        | false =>
          simp only [Bool.false_eq_true, if_false]
          unfold abandonedSubscribe
          have h1 := live_modChan _ st.chans.length _ liveFrame_dropReceiver h0
          cases hb : buildUnsubscribeMessage
              (((withSub st r.id uid s um).newChan (.sub s) t.op uid).1.modChan st.chans.length
                (fun ch => { dropReceiver ch with hasKind := false })) r.id s with
          | none => exact h1
          | some x =>
            obtain ⟨st', msg⟩ := x
            exact (live_buildUnsub _ _ _ _ _ hb h1).1

theorem live_processSingleResponse (st st' : Core) (r : Response) (effs : List Effect)
    (hp : processSingleResponse st r = .ok (st', effs)) (h : Live st) : Live st' := by
  unfold processSingleResponse at hp
  cases hs : st.mgr.requestStatus r.id with
  | pendingCall =>
    simp only [hs] at hp
    cases hcp : st.mgr.completePendingCall r.id with
    | none => simp [hcp] at hp
    | some x =>
      obtain ⟨m', t0⟩ := x
      obtain ⟨hl, e⟩ := completePendingCall_spec _ _ _ _ hcp
      subst e
      have h1 := live_erase st r.id h
      cases t0 with
      | none => simp [hcp] at hp; rw [← hp.1]; exact live_ackChans _ _ h1
      | some t1 => simp [hcp] at hp; rw [← hp.1]; exact h1
  | pendingSub =>
    simp only [hs] at hp
    cases hcp : st.mgr.completePendingSubscription r.id with
    | none => simp [hcp] at hp
    | some x =>
      obtain ⟨m', uid, t0, um⟩ := x
      obtain ⟨hl, e⟩ := completePendingSubscription_spec _ _ _ _ _ _ hcp
      simp [hcp] at hp
      subst e
      have h2 := live_completeSubscribe _ r uid t0 um (live_erase st r.id h)
      rw [hp] at h2
      exact h2
  | sub => simp [hs] at hp
  | invalid => simp [hs] at hp

theorem live_handleBack (st : Core) (raw : Text) (h : Live st) : Live (handleBack st raw).st := by
  have := handleBack_rel (fun a b => Live a → Live b) (fun _ h => h) (fun _ _ _ h1 h2 h => h2 (h1 h))
    (fun c s p h => live_processSubscriptionResponse c s p h)
    (fun c s h => live_processSubscriptionClose c s h)
    (fun c m p h => live_processNotification c m p h)
    (fun c rps lo hi h => by
      obtain ⟨h1, _, h3, h4⟩ := processBatchResponse_requests c rps lo hi
      exact live_of_mgr_chans_eq h1 h3 h4 h)
    st raw
    (fun r c' effs _ hp h => live_processSingleResponse st c' r effs hp h)
  exact this h

theorem live_handleFront (st : Core) (msg : FrontMsg) (h : Live st) : Live (handleFront st msg).1 := by
  unfold handleFront
  cases msg with
  | batch lo hi t0 raw =>
    simp only
    cases h1 : st.mgr.insertPendingBatch (lo, hi) t0 with
    | none => exact h
    | some m' =>
      unfold Mgr.insertPendingBatch at h1
      split at h1
      · simp at h1
      · simp at h1; subst h1
        exact live_of_mgr_chans_eq (a := st) rfl rfl rfl h
  | notification raw => exact h
  | request k t0 raw =>
    simp only
    cases h1 : st.mgr.insertPendingCall k t0 with
    | none => cases t0 <;> exact h
    | some m' =>
      unfold Mgr.insertPendingCall at h1
      split at h1
      · simp at h1
      · rename_i hv
        simp at h1; subst h1
        exact live_insert_nonsub st k _ hv (by intro _ _ _ c; simp at c) h
  | subscribe sid uid t0 um raw =>
    simp only
    cases h1 : st.mgr.insertPendingSubscription sid uid t0 um with
    | none => exact h
    | some m' =>
      unfold Mgr.insertPendingSubscription at h1
      split at h1
      · rename_i hv
        simp at h1; subst h1
        obtain ⟨v1, v2, v3⟩ := hv
        have r1 := live_insert_nonsub st sid (.pendingSub uid t0 um) (by simpa using v1) (by intro _ _ _ c; simp at c) h
        have hu : alookup uid ((sid, Kind.pendingSub uid t0 um) :: st.mgr.requests) = none := by
          rw [alookup_cons_ne uid sid _ _ (fun e => v3 e.symm)]; simpa using v2
        exact live_insert_nonsub _ uid (.pendingCall none) hu (by intro _ _ _ c; simp at c) r1
      · simp at h1
  | subscriptionClosed s =>
    simp only
    cases h1 : st.mgr.getRequestIdBySubscriptionId s with
    | none => exact h
    | some rid =>
      simp only
      cases h2 : st.mgr.asSubscription rid with
      | none => exact h
      | some c =>
        cases hb : buildUnsubscribeMessage st rid s with
        | none => exact h
        | some x =>
          obtain ⟨st', msg⟩ := x
          obtain ⟨_, _, _, _, _, _, _, _, _, hmsg⟩ := buildUnsub_spec _ _ _ _ _ hb
          subst hmsg
          obtain ⟨h3, uid, c', um, hl, hno, hc⟩ := live_buildUnsub st rid s st' _ hb h
          have hcc : c' = c := by
            unfold Mgr.asSubscription at h2
            rw [hl] at h2; simp at h2; exact h2
          subst hcc
          exact live_bump_wires st' c' h3 hno hc
  | registerNotif meth t0 =>
    simp only
    cases h1 : st.mgr.insertNotificationHandler meth st.chans.length with
    | some m' =>
      unfold Mgr.insertNotificationHandler at h1
      split at h1
      · simp at h1
      · simp at h1; subst h1
        have h0 := live_insert_handler st meth t0.op h
        simp only
        split
        · exact h0
        · exact live_modChan _ _ _ liveFrame_dropReceiver h0
    | none => exact h
  | unregisterNotif meth =>
    simp only
    cases h1 : (st.mgr.removeNotificationHandler meth).2 with
    | none => exact h
    | some c =>
      simp only
      have hl : alookup meth st.mgr.handlers = some c := by simpa [Mgr.removeNotificationHandler] using h1
      exact live_remove_handler st meth c dropSender h hl (fun _ => rfl) (fun _ => rfl)

def SLive (st : St) : Prop := Live st.core

theorem slive_init (cap : Nat) (sI : Bool) : SLive (St.init cap sI) := live_init cap

theorem slive_step (st : St) (s : Step) (h : SLive st) : SLive (step st s).st := by
  cases s with
  | newCall meth params => exact h
  | newSubscribe sm um => exact h
  | newBatch meth n => exact h
  | newRegister meth => exact h
  | newNotification raw => exact h
  | abandon op => exact live_of_mgr_chans_eq (a := st.core) rfl rfl rfl h
  | sendTask i =>
    cases hp : st.pool[i]? with
    | none =>
      have e : step st (.sendTask i) = { st := st } := by simp only [step, hp]
      rw [e]; exact h
    | some msg =>
      have e : step st (.sendTask i) =
          { st := { st with core := (handleFront st.core msg).1, pool := removeAt st.pool i },
            effs := (handleFront st.core msg).2 } := by simp only [step, hp]
      rw [e]; exact live_handleFront st.core msg h
  | recv raw => exact live_handleBack st.core raw h
  | next c =>
    unfold SLive
    simp only [step]
    split
    · exact h
    · split
      · exact h
      · split
        · exact live_modChan _ _ _ (liveFrame_pop _ _) h
        · split <;> exact h
  | dropStream c room =>
    unfold SLive
    simp only [step]
    split
    · exact h
    · split
      · exact h
      · exact live_modChan _ _ _ liveFrame_dropReceiver h
  | unsubscribeStream c =>
    unfold SLive
    simp only [step]
    split
    · exact h
    · split
      · exact h
      · exact live_modChan _ _ _ (liveFrame_hasKind false) h

theorem slive_reachable (st : St) (h : Reachable st) : SLive st := reachable_inv SLive slive_init slive_step st h

/-! ### what is pushed into a channel (C05: only its own notifications) -/

def pushes : List Effect → List (ChanId × Text)
  | [] => []
  | .push c p :: r => (c, p) :: pushes r
  | _ :: r => pushes r

theorem pushes_append (a b : List Effect) : pushes (a ++ b) = pushes a ++ pushes b := by
  induction a with
  | nil => rfl
  | cons x xs ih => cases x <;> simp [pushes, ih]

theorem mem_pushes (c : ChanId) (p : Text) (l : List Effect) : Effect.push c p ∈ l ↔ (c, p) ∈ pushes l := by
  induction l with
  | nil => simp [pushes]
  | cons x xs ih => cases x <;> simp [pushes, ih]

theorem pushes_dropQueued (l : List Effect) : pushes (dropQueued l) = pushes l := by
  induction l with
  | nil => rfl
  | cons x xs ih =>
    cases x <;> simp [dropQueued, List.filter, notToFront, pushes] <;> simpa [dropQueued] using ih

theorem pushes_completeIfAlive (st : Core) (t : Ticket) (o : Outcome) : pushes (st.completeIfAlive t o) = [] := by
  unfold Core.completeIfAlive; split <;> rfl

/-- owner of channel `c` -/
def ownerAt (st : Core) (c : ChanId) : Option Owner := (st.chans[c]?).map (·.owner)

/-- channels keep their index and owner -/
def OwnerStable (a b : Core) : Prop := ∀ c o, ownerAt a c = some o → ownerAt b c = some o

theorem ownerStable_refl (a : Core) : OwnerStable a a := fun _ _ h => h
theorem ownerStable_trans (a b c : Core) (h1 : OwnerStable a b) (h2 : OwnerStable b c) : OwnerStable a c :=
  fun x o h => h2 x o (h1 x o h)

theorem ownerStable_modChan (st : Core) (c : ChanId) (f : Chan → Chan) (hf : ∀ ch, (f ch).owner = ch.owner) :
    OwnerStable st (st.modChan c f) := by
  intro x o h
  unfold ownerAt at h ⊢
  simp only [Core.modChan, modifyAt_get]
  split
  · rename_i e; subst e
    cases hg : st.chans[x]? with
    | none => simp [hg] at h
    | some y => simp [hg] at h ⊢; rw [hf]; exact h
  · exact h

theorem ownerStable_of_chans_eq {a b : Core} (h : b.chans = a.chans) : OwnerStable a b := by
  intro x o hx; unfold ownerAt at hx ⊢; rw [h]; exact hx

theorem ownerStable_processSubscriptionResponse (st : Core) (s : SubId) (p : Text) :
    OwnerStable st (processSubscriptionResponse st s p).1 := by
  unfold processSubscriptionResponse
  split
  · exact ownerStable_refl _
  · split
    · exact ownerStable_refl _
    · split
      · exact ownerStable_refl _
      · exact ownerStable_modChan st _ _ (fun ch => afterSend_owner ch p)

theorem ownerStable_processSubscriptionClose (st : Core) (s : SubId) : OwnerStable st (processSubscriptionClose st s) := by
  unfold processSubscriptionClose
  cases h1 : st.mgr.getRequestIdBySubscriptionId s with
  | none => exact ownerStable_refl _
  | some rid =>
    simp only
    cases h2 : st.mgr.removeSubscription rid s with
    | none => exact ownerStable_refl _
    | some x =>
      obtain ⟨m', uid, c, um⟩ := x
      simp only
      exact ownerStable_modChan { st with mgr := m' } c _ (fun ch => rfl)

theorem ownerStable_processNotification (st : Core) (m : Text) (p : Option Text) :
    OwnerStable st (processNotification st m p).1 := by
  unfold processNotification
  cases h1 : st.mgr.asNotificationHandler m with
  | none => exact ownerStable_refl _
  | some c =>
    simp only
    cases h2 : st.chans[c]? with
    | none => exact ownerStable_refl _
    | some ch =>
      simp only
      cases h3 : ch.sendRes with
      | ok => exact ownerStable_modChan st _ _ (fun x => afterSend_owner x _)
      | closed => exact ownerStable_modChan { st with mgr := _ } _ _ (fun x => by simp [dropSender, afterSend_owner])
      | full => exact ownerStable_modChan { st with mgr := _ } _ _ (fun x => by simp [dropSender, afterSend_owner])

/-- the notification `e` legitimately feeds channel `c` with payload `q` -/
def OwnNotif (st : Core) (e : Text) (c : ChanId) (q : Text) : Prop :=
  (∃ s, classifyIncoming e = .subNotif s q ∧ ownerAt st c = some (.sub s)) ∨
  (∃ m ps, classifyIncoming e = .notif m ps ∧ q = ps.getD tNull ∧ ownerAt st c = some (.method m))

theorem ownNotif_stable {a b : Core} (h : OwnerStable a b) {e : Text} {c : ChanId} {q : Text} (ho : OwnNotif a e c q) :
    OwnNotif b e c q := by
  rcases ho with ⟨s, h1, h2⟩ | ⟨m, ps, h1, h2, h3⟩
  · exact Or.inl ⟨s, h1, h c _ h2⟩
  · exact Or.inr ⟨m, ps, h1, h2, h c _ h3⟩

theorem processSubscriptionResponse_pushes (st : Core) (s : SubId) (p : Text) (hr : Routes st) (c : ChanId) (q : Text)
    (h : (c, q) ∈ pushes (processSubscriptionResponse st s p).2) : q = p ∧ ownerAt st c = some (.sub s) := by
  unfold processSubscriptionResponse at h
  cases h1 : st.mgr.getRequestIdBySubscriptionId s with
  | none => simp [h1, pushes] at h
  | some rid =>
    simp only [h1] at h
    cases h2 : st.mgr.asSubscription rid with
    | none => simp [h2, pushes] at h
    | some c' =>
      simp only [h2] at h
      cases h3 : st.chans[c']? with
      | none => simp [h3, pushes] at h
      | some ch =>
        simp only [h3] at h
        cases h4 : ch.sendRes with
        | ok =>
          simp [h4, pushes] at h
          obtain ⟨e1, e2⟩ := h
          subst e1 e2
          obtain ⟨uid, ch', um, g1, g2⟩ := hr.subs s rid h1
          unfold Mgr.asSubscription at h2
          rw [g1] at h2; simp at h2; subst h2
          exact ⟨rfl, g2⟩
        | closed => simp [h4, pushes] at h
        | full => simp [h4, pushes] at h

theorem processNotification_pushes (st : Core) (m : Text) (ps : Option Text) (hr : Routes st) (c : ChanId) (q : Text)
    (h : (c, q) ∈ pushes (processNotification st m ps).2) : q = ps.getD tNull ∧ ownerAt st c = some (.method m) := by
  unfold processNotification at h
  cases h1 : st.mgr.asNotificationHandler m with
  | none => simp [h1, pushes] at h
  | some c' =>
    simp only [h1] at h
    cases h3 : st.chans[c']? with
    | none => simp [h3, pushes] at h
    | some ch =>
      simp only [h3] at h
      cases h4 : ch.sendRes with
      | ok =>
        simp [h4, pushes] at h
        obtain ⟨e1, e2⟩ := h
        subst e1 e2
        exact ⟨rfl, hr.handlers m _ h1⟩
      | closed => simp [h4, pushes] at h
      | full => simp [h4, pushes] at h

theorem abandonedSubscribe_pushes (st : Core) (c : ChanId) (rid : Id) (s : SubId) (t : Ticket) :
    pushes (abandonedSubscribe st c rid s t).2 = [] := by
  unfold abandonedSubscribe; split <;> rfl

theorem completeSubscribe_pushes (st : Core) (r : Response) (uid : Id) (t : Ticket) (um : Text) :
    pushes (completeSubscribe st r uid t um).2 = [] := by
  unfold completeSubscribe
  cases hp : r.payload with
  | error e => exact pushes_completeIfAlive _ _ _
  | result raw =>
    simp only
    cases hd : decodeSubId raw with
    | none => exact pushes_completeIfAlive _ _ _
    | some s =>
      simp only
      cases hins : st.mgr.insertSubscription r.id uid s st.chans.length um with
      | none => exact pushes_completeIfAlive _ _ _
      | some m' =>
        simp only
        cases hal : st.alive t with
        | true => rfl
        | false => simp only [Bool.false_eq_true, if_false]; exact abandonedSubscribe_pushes _ _ _ _ _

theorem processSingleResponse_pushes (st st' : Core) (r : Response) (effs : List Effect)
    (hp : processSingleResponse st r = .ok (st', effs)) : pushes effs = [] := by
  unfold processSingleResponse at hp
  cases hs : st.mgr.requestStatus r.id with
  | pendingCall =>
    simp only [hs] at hp
    cases hcp : st.mgr.completePendingCall r.id with
    | none => simp [hcp] at hp
    | some x =>
      obtain ⟨m', t0⟩ := x
      cases t0 with
      | none => simp [hcp] at hp; rw [hp.2]; rfl
      | some t1 => simp [hcp] at hp; rw [← hp.2]; exact pushes_completeIfAlive _ _ _
  | pendingSub =>
    simp only [hs] at hp
    cases hcp : st.mgr.completePendingSubscription r.id with
    | none => simp [hcp] at hp
    | some x =>
      obtain ⟨m', uid, t0, um⟩ := x
      simp [hcp] at hp
      have := completeSubscribe_pushes { st with mgr := m' } r uid t0 um
      rw [hp] at this; exact this
  | sub => simp [hs] at hp
  | invalid => simp [hs] at hp

theorem processBatchResponse_pushes (st : Core) (rps : List Response) (lo hi : Nat) :
    pushes (processBatchResponse st rps lo hi).2.1 = [] := by
  unfold processBatchResponse
  cases hc : st.mgr.completePendingBatch (lo, hi) with
  | none => rfl
  | some x =>
    obtain ⟨m', t⟩ := x
    simp only
    split
    · rfl
    · exact pushes_completeIfAlive _ _ _

/-- every push of the array loop comes from one of the array's own notification elements -/
theorem arrayLoop_pushes (all : List Text) (es : List Text) : ∀ (acc acc' : ArrAcc) (f : Option Fatal),
    arrayLoop acc es = (acc', f) → (∀ e ∈ es, e ∈ all) → CInv acc.st →
    (∀ c q, (c, q) ∈ pushes acc.effs → ∃ e ∈ all, OwnNotif acc.st e c q) →
    CInv acc'.st ∧ ∀ c q, (c, q) ∈ pushes acc'.effs → ∃ e ∈ all, OwnNotif acc'.st e c q := by
  induction es with
  | nil => intro acc acc' f h _ hc hp; simp [arrayLoop] at h; rw [← h.1]; exact ⟨hc, hp⟩
  | cons e rest ih =>
    intro acc acc' f h hall hc hp
    have hall' : ∀ x ∈ rest, x ∈ all := fun x hx => hall x (List.mem_cons_of_mem _ hx)
    have he : e ∈ all := hall e List.mem_cons_self
    rw [arrayLoop] at h
    cases hcl : classifyIncoming e with
    | response r =>
      simp only [hcl] at h
      cases hid : idNum r.id with
      | none => simp [hid] at h; rw [← h.1]; exact ⟨hc, hp⟩
      | some id => simp only [hid] at h; have := ih _ _ _ h hall' hc hp; exact this
    | garbage => simp [hcl] at h; rw [← h.1]; exact ⟨hc, hp⟩
    | subNotif s p =>
      simp only [hcl] at h
      have hst := ownerStable_processSubscriptionResponse acc.st s p
      refine ih _ _ _ h hall' (cinv_processSubscriptionResponse acc.st s p hc) ?_
      intro c q hq
      simp only [pushes_append, List.mem_append] at hq
      rcases hq with hq | hq
      · obtain ⟨e', he', ho⟩ := hp c q hq
        exact ⟨e', he', ownNotif_stable hst ho⟩
      · obtain ⟨e1, e2⟩ := processSubscriptionResponse_pushes acc.st s p hc.routes c q hq
        subst e1
        exact ⟨e, he, Or.inl ⟨s, hcl, hst c _ e2⟩⟩
    | subClose s =>
      simp only [hcl] at h
      have hst := ownerStable_processSubscriptionClose acc.st s
      refine ih _ _ _ h hall' (cinv_processSubscriptionClose acc.st s hc) ?_
      intro c q hq
      obtain ⟨e', he', ho⟩ := hp c q hq
      exact ⟨e', he', ownNotif_stable hst ho⟩
    | notif m ps =>
      simp only [hcl] at h
      have hst := ownerStable_processNotification acc.st m ps
      refine ih _ _ _ h hall' (cinv_processNotification acc.st m ps hc) ?_
      intro c q hq
      simp only [pushes_append, List.mem_append] at hq
      rcases hq with hq | hq
      · obtain ⟨e', he', ho⟩ := hp c q hq
        exact ⟨e', he', ownNotif_stable hst ho⟩
      · obtain ⟨e1, e2⟩ := processNotification_pushes acc.st m ps hc.routes c q hq
        exact ⟨e, he, Or.inr ⟨m, ps, hcl, e1, hst c _ e2⟩⟩

theorem handleArray_pushes (st : Core) (es : List Text) (hc : CInv st) (c : ChanId) (q : Text)
    (h : (c, q) ∈ pushes (handleArray st es).effs) : ∃ e ∈ es, OwnNotif (handleArray st es).st e c q := by
  unfold handleArray at h ⊢
  cases hl : arrayLoop { st := st } es with
  | mk acc f =>
    obtain ⟨hc', hp⟩ := arrayLoop_pushes es es _ _ _ hl (fun _ h => h) hc (by intro c q hq; simp [pushes] at hq)
    cases f with
    | some f =>
      simp only [hl, pushes_dropQueued] at h ⊢
      exact hp c q h
    | none =>
      simp only [hl] at h ⊢
      unfold arrayFinish at h ⊢
      cases hr : acc.range with
      | none =>
        simp only [hr] at h ⊢
        split at h
        · rename_i hg; simp only [hg, if_true]; exact hp c q h
        · rename_i hg; simp only [hg]; rw [pushes_dropQueued] at h; exact hp c q h
      | some pr =>
        obtain ⟨lo, hi⟩ := pr
        simp only [hr] at h ⊢
        cases he : rangeEnd hi with
        | err e => simp only [he, pushes_dropQueued] at h ⊢; exact hp c q h
        | ok hi1 =>
          simp only [he] at h ⊢
          have hst : OwnerStable acc.st (processBatchResponse acc.st acc.batch lo hi1).1 :=
            ownerStable_of_chans_eq (processBatchResponse_requests acc.st acc.batch lo hi1).2.2.2
          split at h
          · rename_i f hf
            rw [pushes_dropQueued] at h
            obtain ⟨e', he', ho⟩ := hp c q h
            exact ⟨e', he', ownNotif_stable hst ho⟩
          · rename_i hf
            rw [pushes_append, processBatchResponse_pushes, List.append_nil] at h
            obtain ⟨e', he', ho⟩ := hp c q h
            exact ⟨e', he', ownNotif_stable hst ho⟩

/-! ### packing: an array of notifications ≡ the same notifications one by one -/

def isNotifLike : Incoming → Bool
  | .subNotif _ _ => true
  | .subClose _ => true
  | .notif _ _ => true
  | _ => false

/-- handling the texts one after the other, each as a single message -/
def seqSingles : Core → List Text → Core × List Effect
  | st, [] => (st, [])
  | st, e :: rest => ((seqSingles (handleSingle st e).st rest).1, (handleSingle st e).effs ++ (seqSingles (handleSingle st e).st rest).2)

theorem arrayLoop_notifs (es : List Text) (hn : ∀ e ∈ es, isNotifLike (classifyIncoming e) = true) : ∀ acc : ArrAcc,
    arrayLoop acc es = ({ acc with st := (seqSingles acc.st es).1, effs := acc.effs ++ (seqSingles acc.st es).2,
                                   gotNotif := acc.gotNotif || !es.isEmpty }, none) := by
  induction es with
  | nil => intro acc; simp [arrayLoop, seqSingles]
  | cons e rest ih =>
    intro acc
    have hn' : ∀ x ∈ rest, isNotifLike (classifyIncoming x) = true := fun x hx => hn x (List.mem_cons_of_mem _ hx)
    have he := hn e List.mem_cons_self
    rw [arrayLoop]
    cases hcl : classifyIncoming e with
    | response r => rw [hcl] at he; simp [isNotifLike] at he
    | garbage => rw [hcl] at he; simp [isNotifLike] at he
    | subNotif s p =>
      simp only
      rw [ih hn']
      simp [seqSingles, handleSingle, hcl, List.append_assoc]
    | subClose s =>
      simp only
      rw [ih hn']
      simp [seqSingles, handleSingle, hcl]
    | notif m ps =>
      simp only
      rw [ih hn']
      simp [seqSingles, handleSingle, hcl, List.append_assoc]

end Jrpc.Client
