/-
  C18 support: key uniqueness of the four tables (so that list length = `HashMap::len`), and what
  the tables may still contain once the history is quiescent.
-/
import JrpcVerif.Proofs.ClientSlotLemmas
namespace Jrpc.Client
open Jrpc

/-! ### key uniqueness -/

structure KUm (m : Mgr) : Prop where
  requests : (akeys m.requests).Nodup
  subs : (akeys m.subs).Nodup
  batches : (akeys m.batches).Nodup
  handlers : (akeys m.handlers).Nodup

/-- keys of all four tables are pairwise distinct (list length = `HashMap::len`) -/
def KU (c : Core) : Prop := KUm c.mgr

theorem ku_init (cap : Nat) : KU { cap := cap } := ⟨by simp [akeys], by simp [akeys], by simp [akeys], by simp [akeys]⟩

section
variable {κ ν : Type} [DecidableEq κ]

theorem nodup_insert_vacant (k : κ) (v : ν) (l : List (κ × ν)) (hv : alookup k l = none) (h : (akeys l).Nodup) :
    (akeys ((k, v) :: l)).Nodup := by
  simp only [akeys, List.nodup_cons]
  exact ⟨(alookup_none_iff k l).1 hv, h⟩

theorem nodup_aerase (k : κ) (l : List (κ × ν)) (h : (akeys l).Nodup) : (akeys (aerase k l)).Nodup :=
  List.Nodup.sublist (akeys_aerase_sublist k l) h

theorem nodup_areplace (k : κ) (v : ν) (l : List (κ × ν)) (h : (akeys l).Nodup) : (akeys (areplace k v l)).Nodup := by
  rw [akeys_areplace]; exact h
end

theorem ku_of_mgr_eq {a b : Core} (h : b.mgr = a.mgr) (ha : KU a) : KU b := by
  unfold KU at *; rw [h]; exact ha

theorem kum_release (m : Mgr) (uid : Id) (h : KUm m) : KUm (m.releaseReservedSlot uid) := by
  obtain ⟨a, b, c⟩ := releaseReservedSlot_others m uid
  exact ⟨List.Nodup.sublist (akeys_releaseReservedSlot m uid) h.requests, by rw [a]; exact h.subs,
         by rw [b]; exact h.batches, by rw [c]; exact h.handlers⟩

theorem kum_mark (m : Mgr) (uid rid : Id) (c : ChanId) (h : KUm m) : KUm (m.markUnsubscribing uid rid c) := by
  obtain ⟨a, b, d⟩ := markUnsubscribing_others m uid rid c
  exact ⟨by rw [akeys_markUnsubscribing]; exact h.requests, by rw [a]; exact h.subs,
         by rw [b]; exact h.batches, by rw [d]; exact h.handlers⟩

theorem ku_processSubscriptionClose (st : Core) (s : SubId) (h : KU st) : KU (processSubscriptionClose st s) := by
  unfold processSubscriptionClose
  cases h1 : st.mgr.getRequestIdBySubscriptionId s with
  | none => exact h
  | some rid =>
    simp only
    cases h2 : st.mgr.removeSubscription rid s with
    | none => exact h
    | some x =>
      obtain ⟨m', uid, c, um⟩ := x
      obtain ⟨_, _, e⟩ := removeSubscription_spec _ _ _ _ _ _ _ h2
      subst e
      exact kum_release _ uid ⟨nodup_aerase _ _ h.requests, nodup_aerase _ _ h.subs, h.batches, h.handlers⟩

theorem ku_processNotification (st : Core) (m : Text) (p : Option Text) (h : KU st) : KU (processNotification st m p).1 := by
  unfold processNotification
  split
  · exact h
  · split
    · exact h
    · split
      · exact h
      · exact ⟨h.requests, h.subs, h.batches, nodup_aerase _ _ h.handlers⟩
      · exact ⟨h.requests, h.subs, h.batches, nodup_aerase _ _ h.handlers⟩

theorem ku_buildUnsub (st : Core) (rid : Id) (s : SubId) (st' : Core) (msg : FrontMsg)
    (hb : buildUnsubscribeMessage st rid s = some (st', msg)) (h : KU st) : KU st' := by
  obtain ⟨uid, c, _, _, _, hm, _⟩ := buildUnsub_spec st rid s st' msg hb
  unfold KU
  rw [hm]
  exact kum_mark _ uid rid c ⟨nodup_areplace _ _ _ h.requests, nodup_aerase _ _ h.subs, h.batches, h.handlers⟩

theorem ku_completeSubscribe (st : Core) (r : Response) (uid : Id) (t : Ticket) (um : Text) (h : KU st) :
    KU (completeSubscribe st r uid t um).1 := by
  unfold completeSubscribe
  cases hp : r.payload with
  | error e => exact kum_release _ uid h
  | result raw =>
    simp only
    cases hd : decodeSubId raw with
    | none => exact kum_release _ uid h
    | some s =>
      simp only
      cases hins : st.mgr.insertSubscription r.id uid s st.chans.length um with
      | none => exact kum_release _ uid h
      | some m' =>
        obtain ⟨hv, hsv, e⟩ := insertSubscription_spec _ _ _ _ _ _ _ hins
        have h0 : KU ({ st with mgr := m' }.newChan (.sub s) t.op uid r.id).1 := by
          subst e
          exact ⟨nodup_insert_vacant _ _ _ hv h.requests, nodup_insert_vacant _ _ _ hsv h.subs, h.batches, h.handlers⟩
        simp only
        cases hal : st.alive t with
        | true => simp only [if_true]; exact h0
        | false =>
          simp only [Bool.false_eq_true, if_false]
          unfold abandonedSubscribe
          exact h0

theorem ku_processSingleResponse (st st' : Core) (r : Response) (effs : List Effect)
    (hp : processSingleResponse st r = .ok (st', effs)) (h : KU st) : KU st' := by
  unfold processSingleResponse at hp
  cases hs : st.mgr.requestStatus r.id with
  | pendingCall =>
    simp only [hs] at hp
    cases hcp : st.mgr.completePendingCall r.id with
    | none => simp [hcp] at hp
    | some x =>
      obtain ⟨m', t0⟩ := x
      have h1 : KUm m' := by
        rcases completePendingCall_spec _ _ _ _ hcp with ⟨_, e⟩ | ⟨rid, _, _, _, e⟩
        · subst e; exact ⟨nodup_aerase _ _ h.requests, h.subs, h.batches, h.handlers⟩
        · subst e; exact kum_release _ rid ⟨nodup_aerase _ _ h.requests, h.subs, h.batches, h.handlers⟩
      have hst : st'.mgr = m' := by
        cases t0 <;> simp [hcp] at hp <;> rw [← hp.1] <;> first | rfl | exact ackAt_mgr _ _
      unfold KU; rw [hst]; exact h1
  | pendingSub =>
    simp only [hs] at hp
    cases hcp : st.mgr.completePendingSubscription r.id with
    | none => simp [hcp] at hp
    | some x =>
      obtain ⟨m', uid, t0, um⟩ := x
      obtain ⟨_, e⟩ := completePendingSubscription_spec _ _ _ _ _ _ hcp
      simp [hcp] at hp
      subst e
      have h1 : KU { st with mgr := { st.mgr with requests := aerase r.id st.mgr.requests } } :=
        ⟨nodup_aerase _ _ h.requests, h.subs, h.batches, h.handlers⟩
      have h2 := ku_completeSubscribe _ r uid t0 um h1
      rw [hp] at h2
      exact h2
  | sub => simp [hs] at hp
  | invalid => simp [hs] at hp

theorem ku_processBatchResponse (st : Core) (rps : List Response) (lo hi : Nat) (h : KU st) :
    KU (processBatchResponse st rps lo hi).1 := by
  unfold processBatchResponse
  cases hc : st.mgr.completePendingBatch (lo, hi) with
  | none => exact h
  | some x =>
    obtain ⟨m', t⟩ := x
    obtain ⟨_, e⟩ := completePendingBatch_spec _ _ _ _ hc
    subst e
    simp only
    split <;> exact ⟨h.requests, h.subs, nodup_aerase _ _ h.batches, h.handlers⟩

theorem ku_handleBack (st : Core) (raw : Text) (h : KU st) : KU (handleBack st raw).st := by
  have := handleBack_rel (fun a b => KU a → KU b) (fun _ h => h) (fun _ _ _ h1 h2 h => h2 (h1 h))
    (fun c s p h => ku_of_mgr_eq (processSubscriptionResponse_frame c s p).1 h)
    (fun c s h => ku_processSubscriptionClose c s h)
    (fun c m p h => ku_processNotification c m p h)
    (fun c rps lo hi h => ku_processBatchResponse c rps lo hi h)
    st raw
    (fun r c' effs _ hp h => ku_processSingleResponse st c' r effs hp h)
  exact this h

theorem ku_handleFront (st : Core) (msg : FrontMsg) (h : KU st) : KU (handleFront st msg).1 := by
  unfold handleFront
  cases msg with
  | batch lo hi t0 raw =>
    simp only
    cases h1 : st.mgr.insertPendingBatch (lo, hi) t0 with
    | none => exact h
    | some m' =>
      unfold Mgr.insertPendingBatch at h1
      split at h1
      · simp at h1
      · rename_i hv
        simp at h1; subst h1
        exact ⟨h.requests, h.subs, nodup_insert_vacant _ _ _ hv h.batches, h.handlers⟩
  | notification raw => exact h
  | request k t0 raw =>
    simp only
    cases h1 : st.mgr.insertPendingCall k t0 with
    | none => cases t0 <;> exact h
    | some m' =>
      unfold Mgr.insertPendingCall at h1
      split at h1
      · simp at h1
      · rename_i hv
        simp at h1; subst h1
        exact ⟨nodup_insert_vacant _ _ _ hv h.requests, h.subs, h.batches, h.handlers⟩
  | subscribe sid uid t0 um raw =>
    simp only
    cases h1 : st.mgr.insertPendingSubscription sid uid t0 um with
    | none => exact h
    | some m' =>
      unfold Mgr.insertPendingSubscription at h1
      split at h1
      · rename_i hv
        simp at h1; subst h1
        obtain ⟨v1, v2, v3⟩ := hv
        have hu : alookup uid ((sid, Kind.pendingSub uid t0 um) :: st.mgr.requests) = none := by
          rw [alookup_cons_ne uid sid _ _ (fun e => v3 e.symm)]; simpa using v2
        exact ⟨nodup_insert_vacant _ _ _ hu (nodup_insert_vacant _ _ _ (by simpa using v1) h.requests), h.subs, h.batches, h.handlers⟩
      · simp at h1
  | subscriptionClosed s =>
    simp only
    cases h1 : st.mgr.getRequestIdBySubscriptionId s with
    | none => exact h
    | some rid =>
      simp only
      cases h2 : st.mgr.asSubscription rid with
      | none => exact h
      | some c =>
        cases hb : buildUnsubscribeMessage st rid s with
        | none => exact h
        | some x =>
          obtain ⟨st', msg⟩ := x
          obtain ⟨_, _, _, _, _, _, _, _, _, hmsg⟩ := buildUnsub_spec _ _ _ _ _ hb
          subst hmsg
          have h3 := ku_buildUnsub st rid s st' _ hb h
          exact h3
  | registerNotif meth t0 =>
    simp only
    cases h1 : st.mgr.insertNotificationHandler meth st.chans.length with
    | some m' =>
      unfold Mgr.insertNotificationHandler at h1
      split at h1
      · simp at h1
      · rename_i hv
        simp at h1; subst h1
        have h0 : KU { st with mgr := { st.mgr with handlers := (meth, st.chans.length) :: st.mgr.handlers } } :=
          ⟨h.requests, h.subs, h.batches, nodup_insert_vacant _ _ _ hv h.handlers⟩
        simp only
        split
        · exact h0
        · exact h0
    | none => exact h
  | unregisterNotif meth =>
    simp only
    cases h1 : (st.mgr.removeNotificationHandler meth).2 with
    | none => exact h
    | some c => exact ⟨h.requests, h.subs, h.batches, nodup_aerase _ _ h.handlers⟩

def SKU (st : St) : Prop := KU st.core

theorem sku_step (st : St) (s : Step) (h : SKU st) : SKU (step st s).st := by
  cases s with
  | newCall meth params => exact h
  | newSubscribe sm um => exact h
  | newBatch meth n => exact h
  | newRegister meth => exact h
  | newNotification raw => exact h
  | abandon op => exact h
  | sendTask i =>
    cases hp : st.pool[i]? with
    | none =>
      have e : step st (.sendTask i) = { st := st } := by simp only [step, hp]
      rw [e]; exact h
    | some msg =>
      have e : step st (.sendTask i) =
          { st := { st with core := (handleFront st.core msg).1, pool := removeAt st.pool i },
            effs := (handleFront st.core msg).2 } := by simp only [step, hp]
      rw [e]; exact ku_handleFront st.core msg h
  | recv raw => exact ku_handleBack st.core raw h
  | next c =>
    have : (step st (.next c)).st.core.mgr = st.core.mgr := by
      simp only [step]
      split
      · rfl
      · split
        · rfl
        · split
          · rfl
          · split <;> rfl
    exact ku_of_mgr_eq this h
  | dropStream c room =>
    have : (step st (.dropStream c room)).st.core.mgr = st.core.mgr := by
      simp only [step]
      split
      · rfl
      · split <;> rfl
    exact ku_of_mgr_eq this h
  | unsubscribeStream c =>
    have : (step st (.unsubscribeStream c)).st.core.mgr = st.core.mgr := by
      simp only [step]
      split
      · rfl
      · split <;> rfl
    exact ku_of_mgr_eq this h

theorem sku_reachable (st : St) (h : Reachable st) : SKU st :=
  reachable_inv SKU (fun cap _ => ku_init cap) sku_step st h

/-! ### quiescence -/

/-- a channel whose stream is over for good: a subscription closed by the server or unsubscribed
(explicitly, by drop, or after lag); an unsubscribe, once sent, must have been acknowledged; a
method stream whose handler has been removed -/
def Ended (ch : Chan) : Prop :=
  (ch.unsubscribed = true → ch.acked = true) ∧
  match ch.owner with
  | .sub _ => ch.closedByServer = true ∨ ch.unsubscribed = true
  | .method _ => ch.senderAlive = false

/-- defined on the ghost history only: every front-end operation issued so far has been finished
exactly once (answered, refused, or found abandoned when the answer came), and every stream that
was ever opened is over -/
def Quiescent (st : St) (trace : List Effect) : Prop :=
  (∀ k, k < st.nextOp → compCount k trace = 1) ∧ (∀ ch ∈ st.core.chans, Ended ch)

theorem reqCount_pos_of_mem (k : Nat) (l : List (Id × Kind)) (p : Id × Kind) (hp : p ∈ l) (hk : kindOp p.2 = some k) :
    0 < reqCount k l := by
  induction l with
  | nil => simp at hp
  | cons x xs ih =>
    obtain ⟨i, kd⟩ := x
    simp only [reqCount]
    rcases List.mem_cons.1 hp with e | e
    · subst e; simp at hk; simp [hk]; omega
    · have := ih e; omega

theorem batCount_pos_of_mem (l : List ((Nat × Nat) × Ticket)) (p : (Nat × Nat) × Ticket) (hp : p ∈ l) :
    0 < batCount p.2.op l := by
  induction l with
  | nil => simp at hp
  | cons x xs ih =>
    obtain ⟨i, t⟩ := x
    simp only [batCount]
    rcases List.mem_cons.1 hp with e | e
    · subst e; simp; omega
    · have := ih e; omega

/-- a quiescent history leaves no live ticket anywhere -/
theorem quiescent_no_live (cap : Nat) (sI : Bool) (steps : List Step)
    (hq : Quiescent (run (St.init cap sI) steps).1 (run (St.init cap sI) steps).2) (k : Nat) :
    liveCount k (run (St.init cap sI) steps).1 = 0 := by
  obtain ⟨h1, h2⟩ := run_count k steps (St.init cap sI)
  have h0 : liveCount k (St.init cap sI) = 0 := by
    simp [liveCount, St.init, poolCount, coreCount, reqCount, batCount]
  rw [h0] at h1
  by_cases hk : k < (run (St.init cap sI) steps).1.nextOp
  · have := hq.1 k hk
    split at h1 <;> omega
  · have hz : ¬ ((St.init cap sI).nextOp ≤ k ∧ k < (run (St.init cap sI) steps).1.nextOp) := fun h => hk h.2
    simp only [hz, if_false] at h1
    omega

theorem mem_alookup_of_nodup {κ ν : Type} [DecidableEq κ] (k : κ) (v : ν) (l : List (κ × ν))
    (hm : (k, v) ∈ l) (hn : (akeys l).Nodup) : alookup k l = some v := by
  induction l with
  | nil => simp at hm
  | cons x xs ih =>
    obtain ⟨k', v'⟩ := x
    simp only [akeys, List.nodup_cons] at hn
    rcases List.mem_cons.1 hm with e | e
    · simp at e; obtain ⟨e1, e2⟩ := e; subst e1 e2; exact alookup_cons_self _ _ _
    · have hne : k ≠ k' := by
        intro c; subst c
        have : k ∈ akeys xs := by
          clear ih hn hm
          induction xs with
          | nil => simp at e
          | cons y ys ih2 =>
            obtain ⟨a, b⟩ := y
            simp only [akeys, List.mem_cons]
            rcases List.mem_cons.1 e with e3 | e3
            · simp at e3; exact Or.inl e3.1
            · exact Or.inr (ih2 e3)
        exact hn.1 this
      rw [alookup_cons_ne k k' v' xs hne]
      exact ih e hn.2

theorem alookup_head {κ ν : Type} [DecidableEq κ] (k : κ) (v : ν) (l : List (κ × ν)) : alookup k ((k, v) :: l) = some v :=
  alookup_cons_self k v l

/-! ### histories without any subscribe: only waiting calls ever sit in `requests` -/

def SubFreeCore (c : Core) : Prop := ∀ p ∈ c.mgr.requests, ∃ t, p.2 = .pendingCall (some t)

theorem subfree_asSubscription (c : Core) (h : SubFreeCore c) (rid : Id) : c.mgr.asSubscription rid = none := by
  unfold Mgr.asSubscription
  cases hl : alookup rid c.mgr.requests with
  | none => rfl
  | some kd =>
    obtain ⟨t, ht⟩ := h _ (alookup_mem _ _ _ hl)
    simp only at ht; subst ht; rfl

theorem subfree_buildUnsub (c : Core) (h : SubFreeCore c) (rid : Id) (s : SubId) : buildUnsubscribeMessage c rid s = none := by
  cases hb : buildUnsubscribeMessage c rid s with
  | none => rfl
  | some x =>
    obtain ⟨st', msg⟩ := x
    obtain ⟨uid, ch, um, h1, _⟩ := buildUnsub_spec c rid s st' msg hb
    obtain ⟨t, ht⟩ := h _ (alookup_mem _ _ _ h1)
    simp at ht

theorem subfree_processSubscriptionResponse (c : Core) (h : SubFreeCore c) (s : SubId) (p : Text) :
    processSubscriptionResponse c s p = (c, []) := by
  unfold processSubscriptionResponse
  split
  · rfl
  · rw [subfree_asSubscription c h]

theorem subfree_processSubscriptionClose (c : Core) (h : SubFreeCore c) (s : SubId) : processSubscriptionClose c s = c := by
  unfold processSubscriptionClose
  cases h1 : c.mgr.getRequestIdBySubscriptionId s with
  | none => rfl
  | some rid =>
    simp only
    cases h2 : c.mgr.removeSubscription rid s with
    | none => rfl
    | some x =>
      obtain ⟨m', uid, ch, um⟩ := x
      obtain ⟨h3, _⟩ := removeSubscription_spec _ _ _ _ _ _ _ h2
      obtain ⟨t, ht⟩ := h _ (alookup_mem _ _ _ h3)
      simp at ht

theorem subfree_processNotification (c : Core) (h : SubFreeCore c) (m : Text) (p : Option Text) :
    SubFreeCore (processNotification c m p).1 ∧ queuedMsgs (processNotification c m p).2 = [] := by
  refine ⟨?_, ?_⟩
  · unfold SubFreeCore; rw [(processNotification_requests c m p).1]; exact h
  · have := processNotification_noTicket c m p
    unfold processNotification
    split
    · rfl
    · split
      · rfl
      · split <;> rfl

theorem subfree_processSingleResponse (c c' : Core) (r : Response) (effs : List Effect)
    (hp : processSingleResponse c r = .ok (c', effs)) (h : SubFreeCore c) : SubFreeCore c' ∧ queuedMsgs effs = [] := by
  unfold processSingleResponse at hp
  cases hs : c.mgr.requestStatus r.id with
  | pendingCall =>
    simp only [hs] at hp
    cases hcp : c.mgr.completePendingCall r.id with
    | none => simp [hcp] at hp
    | some x =>
      obtain ⟨m', t0⟩ := x
      obtain ⟨_, _, _, hmem, _⟩ := completePendingCall_frame _ _ _ _ hcp
      have h1 : SubFreeCore { c with mgr := m' } := fun p hp => h p (hmem p hp).1
      cases t0 with
      | none =>
        simp [hcp] at hp; rw [← hp.1, hp.2]
        refine ⟨?_, rfl⟩
        unfold SubFreeCore; rw [ackAt_mgr]; exact h1
      | some t1 => simp [hcp] at hp; rw [← hp.1, ← hp.2]; exact ⟨h1, queuedMsgs_completeIfAlive _ _ _⟩
  | pendingSub =>
    simp only [hs] at hp
    cases hcp : c.mgr.completePendingSubscription r.id with
    | none => simp [hcp] at hp
    | some x =>
      obtain ⟨m', uid, t0, um⟩ := x
      obtain ⟨hl, _⟩ := completePendingSubscription_spec _ _ _ _ _ _ hcp
      obtain ⟨t, ht⟩ := h _ (alookup_mem _ _ _ hl)
      simp at ht
  | sub => simp [hs] at hp
  | invalid => simp [hs] at hp

theorem subfree_arrayLoop (es : List Text) : ∀ (acc acc' : ArrAcc) (f : Option Fatal), arrayLoop acc es = (acc', f) →
    SubFreeCore acc.st → queuedMsgs acc.effs = [] → SubFreeCore acc'.st ∧ queuedMsgs acc'.effs = [] := by
  induction es with
  | nil => intro acc acc' f h h1 h2; simp [arrayLoop] at h; rw [← h.1]; exact ⟨h1, h2⟩
  | cons e rest ih =>
    intro acc acc' f h h1 h2
    rw [arrayLoop] at h
    cases hc : classifyIncoming e with
    | response r =>
      simp only [hc] at h
      cases hid : idNum r.id with
      | none => simp [hid] at h; rw [← h.1]; exact ⟨h1, h2⟩
      | some id => simp only [hid] at h; have := ih _ _ _ h h1 h2; exact this
    | garbage => simp [hc] at h; rw [← h.1]; exact ⟨h1, h2⟩
    | subNotif s p =>
      simp only [hc] at h
      rw [subfree_processSubscriptionResponse acc.st h1 s p] at h
      exact ih _ _ _ h h1 (by simpa using h2)
    | subClose s =>
      simp only [hc] at h
      rw [subfree_processSubscriptionClose acc.st h1 s] at h
      exact ih _ _ _ h h1 h2
    | notif m p =>
      simp only [hc] at h
      obtain ⟨a, b⟩ := subfree_processNotification acc.st h1 m p
      exact ih _ _ _ h a (by simp [queuedMsgs_append, h2, b])

theorem subfree_handleBack (c : Core) (raw : Text) (h : SubFreeCore c) :
    SubFreeCore (handleBack c raw).st ∧ queuedMsgs (handleBack c raw).effs = [] := by
  unfold handleBack
  cases hf : firstNonWs raw with
  | none => exact ⟨h, rfl⟩
  | some ch =>
    simp only
    cases c1 : (ch == 123) with
    | true =>
      simp only [if_true]
      unfold handleSingle
      cases hc : classifyIncoming raw with
      | response r =>
        simp only
        cases hp : processSingleResponse c r with
        | error f => exact ⟨h, rfl⟩
        | ok x => obtain ⟨st', effs⟩ := x; exact subfree_processSingleResponse c st' r effs hp h
      | garbage => exact ⟨h, rfl⟩
      | subNotif s p => simp only [subfree_processSubscriptionResponse c h s p]; exact ⟨h, rfl⟩
      | subClose s => simp only [subfree_processSubscriptionClose c h s]; exact ⟨h, rfl⟩
      | notif m p => exact subfree_processNotification c h m p
    | false =>
      simp only [Bool.false_eq_true, if_false]
      cases c2 : (ch == 91) with
      | false => simp only [Bool.false_eq_true, if_false]; exact ⟨h, rfl⟩
      | true =>
        simp only [if_true]
        cases he : elements raw with
        | none => exact ⟨h, rfl⟩
        | some es =>
          simp only
          unfold handleArray
          cases hl : arrayLoop { st := c } es with
          | mk acc f =>
            obtain ⟨a, b⟩ := subfree_arrayLoop es _ _ _ hl h rfl
            cases f with
            | some f => exact ⟨a, queuedMsgs_dropQueued _⟩
            | none =>
              simp only
              unfold arrayFinish
              cases hrg : acc.range with
              | none => simp only; split <;> first | exact ⟨a, b⟩ | exact ⟨a, queuedMsgs_dropQueued _⟩
              | some p =>
                obtain ⟨lo, hi⟩ := p
                simp only
                cases hre : rangeEnd hi with
                | err e => exact ⟨a, queuedMsgs_dropQueued _⟩
                | ok hi1 =>
                  simp only
                  have hr : SubFreeCore (processBatchResponse acc.st acc.batch lo hi1).1 := by
                    unfold SubFreeCore; rw [(processBatchResponse_requests acc.st acc.batch lo hi1).1]; exact a
                  split
                  · exact ⟨hr, queuedMsgs_dropQueued _⟩
                  · exact ⟨hr, by rw [queuedMsgs_append, b, (processBatchResponse_count 0 acc.st acc.batch lo hi1).2]; rfl⟩

/-- front messages that can create a slot or a subscription entry -/
def subMsg : FrontMsg → Bool
  | .subscribe _ _ _ _ _ => true
  | .request _ none _ => true
  | _ => false

theorem subfree_handleFront (c : Core) (msg : FrontMsg) (h : SubFreeCore c) (hm : subMsg msg = false) :
    SubFreeCore (handleFront c msg).1 := by
  unfold handleFront
  cases msg with
  | batch lo hi t0 raw =>
    simp only
    cases h1 : c.mgr.insertPendingBatch (lo, hi) t0 with
    | none => exact h
    | some m' =>
      unfold Mgr.insertPendingBatch at h1
      split at h1
      · simp at h1
      · simp at h1; subst h1; exact h
  | notification raw => exact h
  | request k t0 raw =>
    cases t0 with
    | none => simp [subMsg] at hm
    | some tk =>
      simp only
      cases h1 : c.mgr.insertPendingCall k (some tk) with
      | none => exact h
      | some m' =>
        unfold Mgr.insertPendingCall at h1
        split at h1
        · simp at h1
        · simp at h1; subst h1
          intro p hp
          rcases List.mem_cons.1 hp with e | e
          · subst e; exact ⟨tk, rfl⟩
          · exact h p e
  | subscribe sid uid t0 um raw => simp [subMsg] at hm
  | subscriptionClosed s =>
    simp only
    cases h1 : c.mgr.getRequestIdBySubscriptionId s with
    | none => exact h
    | some rid =>
      simp only [subfree_asSubscription c h]
      exact h
  | registerNotif meth t0 =>
    simp only
    cases h1 : c.mgr.insertNotificationHandler meth c.chans.length with
    | some m' =>
      unfold Mgr.insertNotificationHandler at h1
      split at h1
      · simp at h1
      · simp at h1; subst h1
        simp only
        split <;> exact h
    | none => exact h
  | unregisterNotif meth =>
    simp only
    cases h1 : (c.mgr.removeNotificationHandler meth).2 with
    | none => exact h
    | some ch => exact h

def SubFree (st : St) : Prop := SubFreeCore st.core ∧ ∀ m ∈ st.pool, subMsg m = false

def noSubscribe : Step → Bool
  | .newSubscribe _ _ => false
  | _ => true

theorem subfree_step (st : St) (s : Step) (hs : noSubscribe s = true) (h : SubFree st) : SubFree (step st s).st := by
  obtain ⟨h1, h2⟩ := h
  cases s with
  | newCall meth params =>
    refine ⟨h1, fun m hm => ?_⟩
    simp only [step, List.mem_append, List.mem_singleton] at hm
    rcases hm with hm | hm
    · exact h2 m hm
    · subst hm; rfl
  | newSubscribe sm um => simp [noSubscribe] at hs
  | newBatch meth n =>
    refine ⟨h1, fun m hm => ?_⟩
    simp only [step, List.mem_append, List.mem_singleton] at hm
    rcases hm with hm | hm
    · exact h2 m hm
    · subst hm; rfl
  | newRegister meth =>
    refine ⟨h1, fun m hm => ?_⟩
    simp only [step, List.mem_append, List.mem_singleton] at hm
    rcases hm with hm | hm
    · exact h2 m hm
    · subst hm; rfl
  | newNotification raw =>
    refine ⟨h1, fun m hm => ?_⟩
    simp only [step, List.mem_append, List.mem_singleton] at hm
    rcases hm with hm | hm
    · exact h2 m hm
    · subst hm; rfl
  | abandon op => exact ⟨h1, h2⟩
  | sendTask i =>
    cases hp : st.pool[i]? with
    | none =>
      have e : step st (.sendTask i) = { st := st } := by simp only [step, hp]
      rw [e]; exact ⟨h1, h2⟩
    | some msg =>
      have e : step st (.sendTask i) =
          { st := { st with core := (handleFront st.core msg).1, pool := removeAt st.pool i },
            effs := (handleFront st.core msg).2 } := by simp only [step, hp]
      rw [e]
      exact ⟨subfree_handleFront st.core msg h1 (h2 msg (List.mem_of_getElem? hp)), fun m hm => h2 m (mem_removeAt _ _ _ hm)⟩
  | recv raw =>
    obtain ⟨a, b⟩ := subfree_handleBack st.core raw h1
    refine ⟨a, fun m hm => ?_⟩
    simp only [step, b, List.append_nil] at hm
    exact h2 m hm
  | next c =>
    have : (step st (.next c)).st.core.mgr = st.core.mgr ∧ (step st (.next c)).st.pool = st.pool := by
      simp only [step]
      split
      · exact ⟨rfl, rfl⟩
      · split
        · exact ⟨rfl, rfl⟩
        · split
          · exact ⟨rfl, rfl⟩
          · split <;> exact ⟨rfl, rfl⟩
    exact ⟨by unfold SubFreeCore; rw [this.1]; exact h1, by rw [this.2]; exact h2⟩
  | dropStream c room =>
    have : (step st (.dropStream c room)).st.core.mgr = st.core.mgr ∧
        ∀ m ∈ (step st (.dropStream c room)).st.pool, m ∈ st.pool ∨ ∃ o, m = closeMsg o := by
      simp only [step]
      split
      · exact ⟨rfl, fun m hm => Or.inl hm⟩
      · rename_i ch _
        split
        · exact ⟨rfl, fun m hm => Or.inl hm⟩
        · refine ⟨rfl, fun m hm => ?_⟩
          simp only at hm
          split at hm
          · simp only [List.mem_append, List.mem_singleton] at hm
            rcases hm with hm | hm
            · exact Or.inl hm
            · exact Or.inr ⟨_, hm⟩
          · exact Or.inl hm
    refine ⟨by unfold SubFreeCore; rw [this.1]; exact h1, fun m hm => ?_⟩
    rcases this.2 m hm with h | ⟨o, h⟩
    · exact h2 m h
    · subst h; cases o <;> rfl
  | unsubscribeStream c =>
    have : (step st (.unsubscribeStream c)).st.core.mgr = st.core.mgr ∧
        ∀ m ∈ (step st (.unsubscribeStream c)).st.pool, m ∈ st.pool ∨ ∃ o, m = closeMsg o := by
      simp only [step]
      split
      · exact ⟨rfl, fun m hm => Or.inl hm⟩
      · rename_i ch _
        split
        · exact ⟨rfl, fun m hm => Or.inl hm⟩
        · refine ⟨rfl, fun m hm => ?_⟩
          simp only [List.mem_append, List.mem_singleton] at hm
          rcases hm with hm | hm
          · exact Or.inl hm
          · exact Or.inr ⟨_, hm⟩
    refine ⟨by unfold SubFreeCore; rw [this.1]; exact h1, fun m hm => ?_⟩
    rcases this.2 m hm with h | ⟨o, h⟩
    · exact h2 m h
    · subst h; cases o <;> rfl

theorem subfree_run (steps : List Step) : ∀ st : St, (∀ s ∈ steps, noSubscribe s = true) → SubFree st → SubFree (run st steps).1 := by
  induction steps with
  | nil => intro st _ h; exact h
  | cons s rest ih =>
    intro st hs h
    rw [run_cons]
    exact ih _ (fun x hx => hs x (List.mem_cons_of_mem _ hx)) (subfree_step st s (hs s List.mem_cons_self) h)

end Jrpc.Client
