/-
  C18 (fixed code): every `PendingMethodCall(None)` entry and every `PendingUnsubscribe` entry of the
  requests table is justified by work that is still open — a pending subscribe, an active
  subscription, or an unsubscribe that has not been acknowledged.
-/
import JrpcVerif.Proofs.ClientLiveLemmas
namespace Jrpc.Client
open Jrpc

/-! ### lookups of slot-like entries through the two slot operations -/

theorem slot_of_release (m : Mgr) (id k : Id) (h : alookup k (m.releaseReservedSlot id).requests = some (.pendingCall none)) :
    alookup k m.requests = some (.pendingCall none) ∧ k ≠ id := by
  rcases releaseReservedSlot_cases m id with e | ⟨h1, e⟩
  · rw [e] at h
    refine ⟨h, ?_⟩
    intro c; subst c
    unfold Mgr.releaseReservedSlot at e
    rw [h] at e
    simp at e
    have := congrArg (fun m => alookup k m.requests) e
    simp only [alookup_aerase_self] at this
    rw [h] at this; simp at this
  · rw [e] at h
    simp only at h
    exact alookup_aerase_some k id _ _ h

theorem slot_of_mark (m : Mgr) (uid rid k : Id) (c : ChanId)
    (h : alookup k (m.markUnsubscribing uid rid c).requests = some (.pendingCall none)) :
    alookup k m.requests = some (.pendingCall none) ∧ k ≠ uid := by
  rcases markUnsubscribing_cases m uid rid c with e | ⟨h1, e⟩
  · rw [e] at h
    refine ⟨h, ?_⟩
    intro hc; subst hc
    unfold Mgr.markUnsubscribing at e
    rw [h] at e
    simp at e
    have := congrArg (fun m => alookup k m.requests) e
    simp only at this
    rw [alookup_areplace_self k _ _ (by simp [h]), h] at this
    simp at this
  · rw [e] at h
    simp only at h
    by_cases hk : k = uid
    · subst hk
      rw [alookup_areplace_self k _ _ (by simp [h1])] at h; simp at h
    · rw [alookup_areplace_ne k uid _ _ hk] at h
      exact ⟨h, hk⟩

theorem unsub_of_mark (m : Mgr) (uid rid k r' : Id) (c c' : ChanId)
    (h : alookup k (m.markUnsubscribing uid rid c).requests = some (.pendingUnsub r' c')) :
    alookup k m.requests = some (.pendingUnsub r' c') ∨ (k = uid ∧ r' = rid ∧ c' = c) := by
  rcases markUnsubscribing_cases m uid rid c with e | ⟨h1, e⟩
  · rw [e] at h; exact Or.inl h
  · rw [e] at h
    simp only at h
    by_cases hk : k = uid
    · subst hk
      rw [alookup_areplace_self k _ _ (by simp [h1])] at h
      simp at h
      exact Or.inr ⟨rfl, h.1.symm, h.2.symm⟩
    · rw [alookup_areplace_ne k uid _ _ hk] at h
      exact Or.inl h

theorem unsub_of_release (m : Mgr) (id k r' : Id) (c' : ChanId)
    (h : alookup k (m.releaseReservedSlot id).requests = some (.pendingUnsub r' c')) :
    alookup k m.requests = some (.pendingUnsub r' c') :=
  (alookup_releaseReservedSlot m id k _ (by simp)).1 h

/-! ### the invariant -/

def SlotOK (c : Core) : Prop :=
  ∀ k, alookup k c.mgr.requests = some (.pendingCall none) →
    (∃ sid t um, alookup sid c.mgr.requests = some (.pendingSub k t um)) ∨
    (∃ sid ch um, alookup sid c.mgr.requests = some (.sub k ch um)) ∨
    (∃ (ch : ChanId) (x : Chan), c.chans[ch]? = some x ∧ x.unsubscribed = true ∧ x.acked = false ∧ x.rid = k)

structure TInv (c : Core) : Prop where
  live : Live c
  unsub : UnsubOK c
  slot : SlotOK c

theorem tinv_init (cap : Nat) : TInv { cap := cap } where
  live := live_init cap
  unsub := ⟨by intro k rid ch h; simp [alookup] at h, by intro k k' rid rid' ch h; simp [alookup] at h⟩
  slot := by intro k h; simp [alookup] at h

/-- channel updates that leave `unsubscribed`, `acked`, `rid` alone -/
structure SlotFrame (f : Chan → Chan) : Prop where
  unsub : ∀ ch, (f ch).unsubscribed = ch.unsubscribed
  acked : ∀ ch, (f ch).acked = ch.acked
  rid : ∀ ch, (f ch).rid = ch.rid

theorem slotFrame_of_liveFrame {f : Chan → Chan} (h : LiveFrame f) : SlotFrame f := ⟨h.unsub, h.acked, h.rid⟩

theorem unsubOK_modChan (st : Core) (c : ChanId) (f : Chan → Chan) (hf : SlotFrame f) (h : UnsubOK st) : UnsubOK (st.modChan c f) where
  unsub := by
    intro k rid ch hk
    obtain ⟨x, h1, h2, h3, h4⟩ := h.unsub k rid ch hk
    simp only [Core.modChan, modifyAt_get]
    split
    · rename_i e; subst e
      exact ⟨f x, by simp [h1], by rw [hf.unsub]; exact h2, by rw [hf.acked]; exact h3, by rw [hf.rid]; exact h4⟩
    · exact ⟨x, h1, h2, h3, h4⟩
  inj := h.inj

theorem slotOK_modChan (st : Core) (c : ChanId) (f : Chan → Chan) (hf : SlotFrame f) (h : SlotOK st) : SlotOK (st.modChan c f) := by
  intro k hk
  rcases h k hk with a | b | ⟨ch, x, h1, h2, h3, h4⟩
  · exact Or.inl a
  · exact Or.inr (Or.inl b)
  · refine Or.inr (Or.inr ?_)
    by_cases e : ch = c
    · subst e
      exact ⟨ch, f x, by simp [Core.modChan, modifyAt_get, h1], by rw [hf.unsub]; exact h2, by rw [hf.acked]; exact h3, by rw [hf.rid]; exact h4⟩
    · exact ⟨ch, x, by simp [Core.modChan, modifyAt_get, e, h1], h2, h3, h4⟩

theorem tinv_modChan (st : Core) (c : ChanId) (f : Chan → Chan) (hf : LiveFrame f) (h : TInv st) : TInv (st.modChan c f) :=
  ⟨live_modChan st c f hf h.live, unsubOK_modChan st c f (slotFrame_of_liveFrame hf) h.unsub,
   slotOK_modChan st c f (slotFrame_of_liveFrame hf) h.slot⟩

theorem unsubOK_newChan (st : Core) (o : Owner) (op : Nat) (uid rid : Id) (h : UnsubOK st) : UnsubOK (st.newChan o op uid rid).1 where
  unsub := by
    intro k r ch hk
    obtain ⟨x, h1, rest⟩ := h.unsub k r ch hk
    exact ⟨x, getElem?_append_of_some _ _ _ _ h1, rest⟩
  inj := h.inj

theorem slotOK_newChan (st : Core) (o : Owner) (op : Nat) (uid rid : Id) (h : SlotOK st) : SlotOK (st.newChan o op uid rid).1 := by
  intro k hk
  rcases h k hk with a | b | ⟨ch, x, h1, rest⟩
  · exact Or.inl a
  · exact Or.inr (Or.inl b)
  · exact Or.inr (Or.inr ⟨ch, x, getElem?_append_of_some _ _ _ _ h1, rest⟩)

/-! ### handlers -/

theorem tinv_processSubscriptionResponse (st : Core) (s : SubId) (p : Text) (h : TInv st) :
    TInv (processSubscriptionResponse st s p).1 := by
  unfold processSubscriptionResponse
  split
  · exact h
  · split
    · exact h
    · split
      · exact h
      · exact tinv_modChan st _ _ (liveFrame_afterSend p) h

theorem tinv_processNotification (st : Core) (m : Text) (p : Option Text) (h : TInv st) :
    TInv (processNotification st m p).1 := by
  refine ⟨live_processNotification st m p h.live, ?_, ?_⟩
  · unfold processNotification
    cases h1 : st.mgr.asNotificationHandler m with
    | none => exact h.unsub
    | some c =>
      simp only
      cases h2 : st.chans[c]? with
      | none => exact h.unsub
      | some ch =>
        simp only
        have hfr : SlotFrame (fun x => dropSender (x.afterSend (p.getD tNull))) :=
          ⟨fun x => (liveFrame_afterSend _).unsub x, fun x => (liveFrame_afterSend _).acked x, fun x => (liveFrame_afterSend _).rid x⟩
        cases h3 : ch.sendRes with
        | ok => exact unsubOK_modChan st _ _ (slotFrame_of_liveFrame (liveFrame_afterSend _)) h.unsub
        | closed => exact unsubOK_modChan { st with mgr := _ } _ _ hfr ⟨h.unsub.unsub, h.unsub.inj⟩
        | full => exact unsubOK_modChan { st with mgr := _ } _ _ hfr ⟨h.unsub.unsub, h.unsub.inj⟩
  · unfold processNotification
    cases h1 : st.mgr.asNotificationHandler m with
    | none => exact h.slot
    | some c =>
      simp only
      cases h2 : st.chans[c]? with
      | none => exact h.slot
      | some ch =>
        simp only
        have hfr : SlotFrame (fun x => dropSender (x.afterSend (p.getD tNull))) :=
          ⟨fun x => (liveFrame_afterSend _).unsub x, fun x => (liveFrame_afterSend _).acked x, fun x => (liveFrame_afterSend _).rid x⟩
        cases h3 : ch.sendRes with
        | ok => exact slotOK_modChan st _ _ (slotFrame_of_liveFrame (liveFrame_afterSend _)) h.slot
        | closed => exact slotOK_modChan { st with mgr := _ } _ _ hfr (fun k hk => h.slot k hk)
        | full => exact slotOK_modChan { st with mgr := _ } _ _ hfr (fun k hk => h.slot k hk)

/-- lookups of slot-like entries in the manager after `remove_subscription` -/
theorem slot_of_removed (m : Mgr) (rid uid : Id) (s : SubId) (k : Id)
    (h : alookup k (removedMgr m rid uid s).requests = some (.pendingCall none)) :
    alookup k m.requests = some (.pendingCall none) ∧ k ≠ rid ∧ k ≠ uid := by
  unfold removedMgr at h
  obtain ⟨h1, h2⟩ := slot_of_release _ uid k h
  simp only at h1
  obtain ⟨h3, h4⟩ := alookup_aerase_some k rid _ _ h1
  exact ⟨h3, h4, h2⟩

theorem unsub_of_removed (m : Mgr) (rid uid : Id) (s : SubId) (k r' : Id) (c' : ChanId)
    (h : alookup k (removedMgr m rid uid s).requests = some (.pendingUnsub r' c')) :
    alookup k m.requests = some (.pendingUnsub r' c') := by
  unfold removedMgr at h
  have h1 := unsub_of_release _ uid k r' c' h
  simp only at h1
  exact (alookup_aerase_some k rid _ _ h1).1

theorem slot_of_unsubMgr (m : Mgr) (rid uid : Id) (s : SubId) (c : ChanId) (k : Id)
    (hl : (alookup rid m.requests).isSome)
    (h : alookup k (unsubMgr m rid uid s c).requests = some (.pendingCall none)) :
    k ≠ uid ∧ (k = rid ∨ alookup k m.requests = some (.pendingCall none)) := by
  unfold unsubMgr at h
  obtain ⟨h1, h2⟩ := slot_of_mark _ uid rid k c h
  simp only at h1
  refine ⟨h2, ?_⟩
  by_cases e : k = rid
  · exact Or.inl e
  · rw [alookup_areplace_ne k rid _ _ e] at h1; exact Or.inr h1

theorem unsub_of_unsubMgr (m : Mgr) (rid uid : Id) (s : SubId) (c : ChanId) (k r' : Id) (c' : ChanId)
    (hl : (alookup rid m.requests).isSome)
    (h : alookup k (unsubMgr m rid uid s c).requests = some (.pendingUnsub r' c')) :
    (alookup k m.requests = some (.pendingUnsub r' c') ∧ k ≠ rid) ∨ (k = uid ∧ r' = rid ∧ c' = c) := by
  unfold unsubMgr at h
  rcases unsub_of_mark _ uid rid k r' c c' h with h1 | h1
  · simp only at h1
    by_cases e : k = rid
    · subst e; rw [alookup_areplace_self k _ _ hl] at h1; simp at h1
    · rw [alookup_areplace_ne k rid _ _ e] at h1; exact Or.inl ⟨h1, e⟩
  · exact Or.inr h1

theorem tinv_processSubscriptionClose (st : Core) (s : SubId) (h : TInv st) : TInv (processSubscriptionClose st s) := by
  refine ⟨live_processSubscriptionClose st s h.live, ?_, ?_⟩
  all_goals
    unfold processSubscriptionClose
    cases h1 : st.mgr.getRequestIdBySubscriptionId s with
    | none => first | exact h.unsub | exact h.slot
    | some rid =>
      simp only
      cases h2 : st.mgr.removeSubscription rid s with
      | none => first | exact h.unsub | exact h.slot
      | some x =>
        obtain ⟨m', uid, c, um⟩ := x
        obtain ⟨hl, _, e⟩ := removeSubscription_spec _ _ _ _ _ _ _ h2
        have e' : m' = removedMgr st.mgr rid uid s := e
        subst e'
        simp only
        obtain ⟨xc, g1, _, g3, _⟩ := h.live.sub rid uid c um hl
        first
        | -- UnsubOK
          refine ⟨?_, ?_⟩
          · intro k r' ch hk
            simp only [modChan_mgr] at hk
            obtain ⟨x, a1, a2, a3, a4⟩ := h.unsub.unsub k r' ch (unsub_of_removed _ _ _ _ _ _ _ hk)
            have hne : ch ≠ c := by intro e; subst e; rw [g1] at a1; simp at a1; subst a1; rw [g3] at a2; simp at a2
            exact ⟨x, by simp [Core.modChan, modifyAt_get, hne, a1], a2, a3, a4⟩
          · intro k k' r r' ch hk hk'
            simp only [modChan_mgr] at hk hk'
            exact h.unsub.inj k k' r r' ch (unsub_of_removed _ _ _ _ _ _ _ hk) (unsub_of_removed _ _ _ _ _ _ _ hk')
        | -- SlotOK
          intro k hk
          simp only [modChan_mgr] at hk
          obtain ⟨a1, a2, a3⟩ := slot_of_removed _ _ _ _ _ hk
          rcases h.slot k a1 with ⟨sid, t, um', b⟩ | ⟨sid, ch, um', b⟩ | ⟨ch, x, b1, b2, b3, b4⟩
          · have hne : sid ≠ rid := by intro e; subst e; rw [hl] at b; simp at b
            exact Or.inl ⟨sid, t, um', by simp only [modChan_mgr]; exact (removedMgr_alookup _ _ _ _ _ _ (by simp) hne).2 b⟩
          · have hne : sid ≠ rid := by intro e; subst e; rw [hl] at b; simp at b; exact a3 b.1.symm
            exact Or.inr (Or.inl ⟨sid, ch, um', by simp only [modChan_mgr]; exact (removedMgr_alookup _ _ _ _ _ _ (by simp) hne).2 b⟩)
          · have hne : ch ≠ c := by intro e; subst e; rw [g1] at b1; simp at b1; subst b1; rw [g3] at b2; simp at b2
            exact Or.inr (Or.inr ⟨ch, x, by simp [Core.modChan, modifyAt_get, hne, b1], b2, b3, b4⟩)

/-- a manager change that only removes entries, never a `.pendingSub` / `.sub` witness -/
theorem slotOK_mgr_shrink (st : Core) (m' : Mgr) (h : SlotOK st)
    (hs : ∀ k, alookup k m'.requests = some (.pendingCall none) → alookup k st.mgr.requests = some (.pendingCall none))
    (hw : ∀ k kd, (∃ u t um, kd = Kind.pendingSub u t um) ∨ (∃ u c um, kd = Kind.sub u c um) →
      alookup k st.mgr.requests = some kd → alookup k m'.requests = some kd) :
    SlotOK { st with mgr := m' } := by
  intro k hk
  rcases h k (hs k hk) with ⟨sid, t, um, b⟩ | ⟨sid, ch, um, b⟩ | c
  · exact Or.inl ⟨sid, t, um, hw sid _ (Or.inl ⟨_, _, _, rfl⟩) b⟩
  · exact Or.inr (Or.inl ⟨sid, ch, um, hw sid _ (Or.inr ⟨_, _, _, rfl⟩) b⟩)
  · exact Or.inr (Or.inr c)

theorem unsubOK_mgr_shrink (st : Core) (m' : Mgr) (h : UnsubOK st)
    (hs : ∀ k r c, alookup k m'.requests = some (.pendingUnsub r c) → alookup k st.mgr.requests = some (.pendingUnsub r c)) :
    UnsubOK { st with mgr := m' } :=
  ⟨fun k r c hk => h.unsub k r c (hs k r c hk), fun k k' r r' c h1 h2 => h.inj k k' r r' c (hs _ _ _ h1) (hs _ _ _ h2)⟩

theorem tinv_release (st : Core) (uid : Id) (h : TInv st)
    (hno : ∀ sid t um, alookup sid st.mgr.requests ≠ some (.pendingSub uid t um)) : TInv { st with mgr := st.mgr.releaseReservedSlot uid } := by
  refine ⟨live_release st uid h.live, unsubOK_mgr_shrink st _ h.unsub (fun k r c hk => unsub_of_release _ uid k r c hk), ?_⟩
  apply slotOK_mgr_shrink st _ h.slot (fun k hk => (slot_of_release _ uid k hk).1)
  intro k kd hkd hk
  apply (alookup_releaseReservedSlot st.mgr uid k kd ?_).2 hk
  rcases hkd with ⟨_, _, _, e⟩ | ⟨_, _, _, e⟩ <;> rw [e] <;> simp

/-- the `PendingSubscription` arm as a whole: the entry is removed, then `completeSubscribe` -/
theorem tinv_completeSubscribe (st : Core) (r : Response) (uid : Id) (t : Ticket) (um : Text) (h : TInv st)
    (hl : alookup r.id st.mgr.requests = some (.pendingSub uid t um)) :
    TInv (completeSubscribe { st with mgr := { st.mgr with requests := aerase r.id st.mgr.requests } } r uid t um).1 := by
  -- the three failure paths share one argument
  have hfail : TInv { st with mgr := ({ st.mgr with requests := aerase r.id st.mgr.requests } : Mgr).releaseReservedSlot uid } := by
    refine ⟨live_release _ uid (live_erase st r.id h.live), ?_, ?_⟩
    · apply unsubOK_mgr_shrink st _ h.unsub
      intro k r' c hk
      have := unsub_of_release _ uid k r' c hk
      simp only at this
      exact (alookup_aerase_some k r.id _ _ this).1
    · intro k hk
      simp only at hk
      obtain ⟨a1, a2⟩ := slot_of_release _ uid k hk
      simp only at a1
      obtain ⟨a3, a4⟩ := alookup_aerase_some k r.id _ _ a1
      have pres : ∀ sid kd, sid ≠ r.id → kd ≠ Kind.pendingCall none → alookup sid st.mgr.requests = some kd →
          alookup sid (({ st.mgr with requests := aerase r.id st.mgr.requests } : Mgr).releaseReservedSlot uid).requests = some kd := by
        intro sid kd hne hkd hs
        apply (alookup_releaseReservedSlot _ uid sid kd hkd).2
        simp only
        rw [alookup_aerase_ne sid r.id _ hne]; exact hs
      rcases h.slot k a3 with ⟨sid, t', um', b⟩ | ⟨sid, ch, um', b⟩ | c
      · have hne : sid ≠ r.id := by
          intro e; subst e; rw [hl] at b; simp at b; exact a2 b.1.symm
        exact Or.inl ⟨sid, t', um', pres sid _ hne (by simp) b⟩
      · have hne : sid ≠ r.id := by intro e; subst e; rw [hl] at b; simp at b
        exact Or.inr (Or.inl ⟨sid, ch, um', pres sid _ hne (by simp) b⟩)
      · exact Or.inr (Or.inr c)
  unfold completeSubscribe
  cases hp : r.payload with
  | error e => exact hfail
  | result raw =>
    simp only
    cases hd : decodeSubId raw with
    | none => exact hfail
    | some s =>
      simp only
      cases hins : ({ st.mgr with requests := aerase r.id st.mgr.requests } : Mgr).insertSubscription r.id uid s st.chans.length um with
      | none => exact hfail
      | some m' =>
        obtain ⟨hv, hsv, e⟩ := insertSubscription_spec _ _ _ _ _ _ _ hins
        have hm : ({ ({ st with mgr := { st.mgr with requests := aerase r.id st.mgr.requests } } : Core) with mgr := m' } : Core) =
            withSub { st with mgr := { st.mgr with requests := aerase r.id st.mgr.requests } } r.id uid s um := by rw [e]; rfl
        have h0 : TInv ((withSub { st with mgr := { st.mgr with requests := aerase r.id st.mgr.requests } } r.id uid s um).newChan (.sub s) t.op uid r.id).1 := by
          refine ⟨live_insert_sub _ r.id uid s um t.op (live_erase st r.id h.live) hv, ?_, ?_⟩
          · apply unsubOK_newChan
            refine ⟨?_, ?_⟩
            · intro k r' c hk
              simp only [withSub] at hk
              have hne : k ≠ r.id := by intro e; subst e; rw [alookup_cons_self] at hk; simp at hk
              rw [alookup_cons_ne k r.id _ _ hne] at hk
              exact h.unsub.unsub k r' c (alookup_aerase_some k r.id _ _ hk).1
            · intro k k' r1 r2 c h1 h2
              simp only [withSub] at h1 h2
              have n1 : k ≠ r.id := by intro e; subst e; rw [alookup_cons_self] at h1; simp at h1
              have n2 : k' ≠ r.id := by intro e; subst e; rw [alookup_cons_self] at h2; simp at h2
              rw [alookup_cons_ne k r.id _ _ n1] at h1
              rw [alookup_cons_ne k' r.id _ _ n2] at h2
              exact h.unsub.inj k k' r1 r2 c (alookup_aerase_some _ _ _ _ h1).1 (alookup_aerase_some _ _ _ _ h2).1
          · apply slotOK_newChan
            intro k hk
            simp only [withSub] at hk ⊢
            have hne : k ≠ r.id := by intro e; subst e; rw [alookup_cons_self] at hk; simp at hk
            rw [alookup_cons_ne k r.id _ _ hne] at hk
            obtain ⟨a3, _⟩ := alookup_aerase_some k r.id _ _ hk
            have pres : ∀ sid kd, sid ≠ r.id → alookup sid st.mgr.requests = some kd →
                alookup sid ((r.id, Kind.sub uid st.chans.length um) :: aerase r.id st.mgr.requests) = some kd := by
              intro sid kd hn hs
              rw [alookup_cons_ne sid r.id _ _ hn, alookup_aerase_ne sid r.id _ hn]; exact hs
            rcases h.slot k a3 with ⟨sid, t', um', b⟩ | ⟨sid, ch, um', b⟩ | c
            · by_cases e : sid = r.id
              · rw [e, hl] at b; simp at b
                obtain ⟨e1, _, _⟩ := b
                rw [← e1]
                exact Or.inr (Or.inl ⟨r.id, st.chans.length, um, alookup_cons_self _ _ _⟩)
              · exact Or.inl ⟨sid, t', um', pres sid _ e b⟩
            · have e : sid ≠ r.id := by intro e; subst e; rw [hl] at b; simp at b
              exact Or.inr (Or.inl ⟨sid, ch, um', pres sid _ e b⟩)
            · exact Or.inr (Or.inr c)
        simp only [hm]
        cases hal : ({ st with mgr := { st.mgr with requests := aerase r.id st.mgr.requests } } : Core).alive t with
        | true => simp only [if_true]; exact h0
        | false =>
          simp only [Bool.false_eq_true, if_false]
          unfold abandonedSubscribe
          exact tinv_modChan _ _ _ liveFrame_dropReceiver h0

theorem tinv_processSingleResponse (st st' : Core) (r : Response) (effs : List Effect)
    (hp : processSingleResponse st r = .ok (st', effs)) (h : TInv st) : TInv st' := by
  have hlive := live_processSingleResponse st st' r effs hp h.live h.unsub
  unfold processSingleResponse at hp
  cases hs : st.mgr.requestStatus r.id with
  | pendingCall =>
    simp only [hs] at hp
    cases hcp : st.mgr.completePendingCall r.id with
    | none => simp [hcp] at hp
    | some x =>
      obtain ⟨m', t0⟩ := x
      rcases completePendingCall_spec _ _ _ _ hcp with ⟨hl, e⟩ | ⟨rid, ch, hl, e0, e⟩
      · -- a plain pending call (or a bare slot) is removed
        subst e
        have hne : ∀ sid kd, (∃ u t um, kd = Kind.pendingSub u t um) ∨ (∃ u c um, kd = Kind.sub u c um) →
            alookup sid st.mgr.requests = some kd → sid ≠ r.id := by
          intro sid kd hkd hk e; subst e; rw [hl] at hk
          rcases hkd with ⟨_, _, _, e⟩ | ⟨_, _, _, e⟩ <;> rw [e] at hk <;> simp at hk
        have h1 : UnsubOK { st with mgr := { st.mgr with requests := aerase r.id st.mgr.requests } } :=
          unsubOK_mgr_shrink st _ h.unsub (fun k r' c hk => (alookup_aerase_some k r.id _ _ hk).1)
        have h2 : SlotOK { st with mgr := { st.mgr with requests := aerase r.id st.mgr.requests } } :=
          slotOK_mgr_shrink st _ h.slot (fun k hk => (alookup_aerase_some k r.id _ _ hk).1)
            (fun k kd hkd hk => by simp only; rw [alookup_aerase_ne k r.id _ (hne k kd hkd hk)]; exact hk)
        have hat : st.mgr.ackTarget r.id = none := by unfold Mgr.ackTarget; rw [hl]
        cases t0 with
        | some t1 => simp [hcp] at hp; rw [← hp.1] at hlive ⊢; exact ⟨hlive, h1, h2⟩
        | none => simp [hcp, hat, Core.ackAt] at hp; rw [← hp.1] at hlive ⊢; exact ⟨hlive, h1, h2⟩
      · -- the acknowledgement of an unsubscribe call
        subst e0 e
        have hat : st.mgr.ackTarget r.id = some ch := by unfold Mgr.ackTarget; rw [hl]
        simp [hcp, hat, Core.ackAt] at hp
        rw [← hp.1] at hlive ⊢
        obtain ⟨xc, g1, g2, g3, g4⟩ := h.unsub.unsub r.id rid ch hl
        refine ⟨hlive, ?_, ?_⟩
        · refine ⟨?_, ?_⟩
          · intro k r' c hk
            simp only [modChan_mgr] at hk
            have hk1 := unsub_of_release _ rid k r' c hk
            simp only at hk1
            obtain ⟨hk2, hne⟩ := alookup_aerase_some k r.id _ _ hk1
            obtain ⟨x, a1, a2, a3, a4⟩ := h.unsub.unsub k r' c hk2
            have hc : c ≠ ch := by intro e; subst e; exact hne (h.unsub.inj k r.id r' rid c hk2 hl)
            exact ⟨x, by simp [Core.modChan, modifyAt_get, hc, a1], a2, a3, a4⟩
          · intro k k' r1 r2 c h1 h2
            simp only [modChan_mgr] at h1 h2
            have a1 := unsub_of_release _ rid k r1 c h1
            have a2 := unsub_of_release _ rid k' r2 c h2
            simp only at a1 a2
            exact h.unsub.inj k k' r1 r2 c (alookup_aerase_some _ _ _ _ a1).1 (alookup_aerase_some _ _ _ _ a2).1
        · intro k hk
          simp only [modChan_mgr] at hk ⊢
          obtain ⟨b1, b2⟩ := slot_of_release _ rid k hk
          simp only at b1
          obtain ⟨b3, b4⟩ := alookup_aerase_some k r.id _ _ b1
          have pres : ∀ sid kd, sid ≠ r.id → kd ≠ Kind.pendingCall none → alookup sid st.mgr.requests = some kd →
              alookup sid (({ st.mgr with requests := aerase r.id st.mgr.requests } : Mgr).releaseReservedSlot rid).requests = some kd := by
            intro sid kd hne hkd hs
            apply (alookup_releaseReservedSlot _ rid sid kd hkd).2
            simp only
            rw [alookup_aerase_ne sid r.id _ hne]; exact hs
          rcases h.slot k b3 with ⟨sid, t', um', b⟩ | ⟨sid, c, um', b⟩ | ⟨c, x, c1, c2, c3, c4⟩
          · have hne : sid ≠ r.id := by intro e; subst e; rw [hl] at b; simp at b
            exact Or.inl ⟨sid, t', um', pres sid _ hne (by simp) b⟩
          · have hne : sid ≠ r.id := by intro e; subst e; rw [hl] at b; simp at b
            exact Or.inr (Or.inl ⟨sid, c, um', pres sid _ hne (by simp) b⟩)
          · have hc : c ≠ ch := by
              intro e; subst e
              rw [g1] at c1; simp at c1; subst c1
              exact b2 (by rw [← c4, g4])
            exact Or.inr (Or.inr ⟨c, x, by simp [Core.modChan, modifyAt_get, hc, c1], c2, c3, c4⟩)
  | pendingSub =>
    simp only [hs] at hp
    cases hcp : st.mgr.completePendingSubscription r.id with
    | none => simp [hcp] at hp
    | some x =>
      obtain ⟨m', uid, t0, um⟩ := x
      obtain ⟨hl, e⟩ := completePendingSubscription_spec _ _ _ _ _ _ hcp
      simp [hcp] at hp
      subst e
      have h2 := tinv_completeSubscribe st r uid t0 um h hl
      rw [hp] at h2
      exact h2
  | sub => simp [hs] at hp
  | invalid => simp [hs] at hp

theorem tinv_handleBack (st : Core) (raw : Text) (h : TInv st) : TInv (handleBack st raw).st := by
  have := handleBack_rel (fun a b => TInv a → TInv b) (fun _ h => h) (fun _ _ _ h1 h2 h => h2 (h1 h))
    (fun c s p h => tinv_processSubscriptionResponse c s p h)
    (fun c s h => tinv_processSubscriptionClose c s h)
    (fun c m p h => tinv_processNotification c m p h)
    (fun c rps lo hi h => by
      obtain ⟨h1, _, h3, h4⟩ := processBatchResponse_requests c rps lo hi
      exact ⟨live_of_mgr_chans_eq h1 h3 h4 h.live,
        ⟨by rw [h1, h4]; exact h.unsub.unsub, by rw [h1]; exact h.unsub.inj⟩,
        by unfold SlotOK; rw [h1, h4]; exact h.slot⟩)
    st raw
    (fun r c' effs _ hp h => tinv_processSingleResponse st c' r effs hp h)
  exact this h

/-- front messages the fixed client never produces: an internal request without a waiting future -/
def bareRequest : FrontMsg → Bool
  | .request _ none _ => true
  | _ => false

theorem unsubOK_insert (st : Core) (id : Id) (v : Kind) (hv : alookup id st.mgr.requests = none)
    (hn : ∀ r c, v ≠ .pendingUnsub r c) (h : UnsubOK st) :
    UnsubOK { st with mgr := { st.mgr with requests := (id, v) :: st.mgr.requests } } := by
  apply unsubOK_mgr_shrink st _ h
  intro k r c hk
  simp only at hk
  by_cases e : k = id
  · subst e; rw [alookup_cons_self] at hk; simp at hk; exact absurd hk (hn r c)
  · rw [alookup_cons_ne k id v _ e] at hk; exact hk

/-- inserting an entry that is not a bare slot under a vacant key -/
theorem slotOK_insert (st : Core) (id : Id) (v : Kind) (hv : alookup id st.mgr.requests = none)
    (hn : v ≠ .pendingCall none) (h : SlotOK st) :
    SlotOK { st with mgr := { st.mgr with requests := (id, v) :: st.mgr.requests } } := by
  intro k hk
  simp only at hk ⊢
  have hne : k ≠ id := by intro e; subst e; rw [alookup_cons_self] at hk; simp at hk; exact hn hk
  rw [alookup_cons_ne k id v _ hne] at hk
  have pres : ∀ sid kd, alookup sid st.mgr.requests = some kd → alookup sid ((id, v) :: st.mgr.requests) = some kd := by
    intro sid kd hs
    have : sid ≠ id := by intro e; subst e; rw [hv] at hs; simp at hs
    rw [alookup_cons_ne sid id v _ this]; exact hs
  rcases h k hk with ⟨sid, t, um, b⟩ | ⟨sid, c, um, b⟩ | c
  · exact Or.inl ⟨sid, t, um, pres _ _ b⟩
  · exact Or.inr (Or.inl ⟨sid, c, um, pres _ _ b⟩)
  · exact Or.inr (Or.inr c)

theorem tinv_handleFront (st : Core) (msg : FrontMsg) (h : TInv st) (hm : bareRequest msg = false) :
    TInv (handleFront st msg).1 := by
  unfold handleFront
  cases msg with
  | batch lo hi t0 raw =>
    simp only
    cases h1 : st.mgr.insertPendingBatch (lo, hi) t0 with
    | none => exact h
    | some m' =>
      unfold Mgr.insertPendingBatch at h1
      split at h1
      · simp at h1
      · simp at h1; subst h1
        exact ⟨live_of_mgr_chans_eq (a := st) rfl rfl rfl h.live, ⟨h.unsub.unsub, h.unsub.inj⟩, fun k hk => h.slot k hk⟩
  | notification raw => exact h
  | request k t0 raw =>
    cases t0 with
    | none => simp [bareRequest] at hm
    | some tk =>
      simp only
      cases h1 : st.mgr.insertPendingCall k (some tk) with
      | none => exact h
      | some m' =>
        unfold Mgr.insertPendingCall at h1
        split at h1
        · simp at h1
        · rename_i hv
          simp at h1; subst h1
          exact ⟨live_insert_nonsub st k _ hv (by intro _ _ _ c; simp at c) h.live,
                 unsubOK_insert st k _ hv (by intro _ _ c; simp at c) h.unsub,
                 slotOK_insert st k _ hv (by simp) h.slot⟩
  | subscribe sid uid t0 um raw =>
    simp only
    cases h1 : st.mgr.insertPendingSubscription sid uid t0 um with
    | none => exact h
    | some m' =>
      unfold Mgr.insertPendingSubscription at h1
      split at h1
      · rename_i hv
        simp at h1; subst h1
        obtain ⟨v1, v2, v3⟩ := hv
        have v1' : alookup sid st.mgr.requests = none := by simpa using v1
        have hu : alookup uid ((sid, Kind.pendingSub uid t0 um) :: st.mgr.requests) = none := by
          rw [alookup_cons_ne uid sid _ _ (fun e => v3 e.symm)]; simpa using v2
        have l1 := live_insert_nonsub st sid (.pendingSub uid t0 um) v1' (by intro _ _ _ c; simp at c) h.live
        have u1 := unsubOK_insert st sid (.pendingSub uid t0 um) v1' (by intro _ _ c; simp at c) h.unsub
        have s1 := slotOK_insert st sid (.pendingSub uid t0 um) v1' (by simp) h.slot
        refine ⟨live_insert_nonsub _ uid (.pendingCall none) hu (by intro _ _ _ c; simp at c) l1,
                unsubOK_insert _ uid (.pendingCall none) hu (by intro _ _ c; simp at c) u1, ?_⟩
        -- the new slot is justified by the new pending subscription
        intro k hk
        simp only at hk ⊢
        by_cases e : k = uid
        · subst e
          refine Or.inl ⟨sid, t0, um, ?_⟩
          rw [alookup_cons_ne sid k _ _ v3, alookup_cons_self]
        · rw [alookup_cons_ne k uid _ _ e] at hk
          have pres : ∀ s' kd, alookup s' ((sid, Kind.pendingSub uid t0 um) :: st.mgr.requests) = some kd →
              alookup s' ((uid, Kind.pendingCall none) :: (sid, Kind.pendingSub uid t0 um) :: st.mgr.requests) = some kd := by
            intro s' kd hs
            have : s' ≠ uid := by intro e2; subst e2; rw [hu] at hs; simp at hs
            rw [alookup_cons_ne s' uid _ _ this]; exact hs
          rcases s1 k hk with ⟨s', t, um', b⟩ | ⟨s', c, um', b⟩ | c
          · exact Or.inl ⟨s', t, um', pres _ _ b⟩
          · exact Or.inr (Or.inl ⟨s', c, um', pres _ _ b⟩)
          · exact Or.inr (Or.inr c)
      · simp at h1
  | subscriptionClosed s =>
    simp only
    cases h1 : st.mgr.getRequestIdBySubscriptionId s with
    | none => exact h
    | some rid =>
      simp only
      cases h2 : st.mgr.asSubscription rid with
      | none => exact h
      | some c =>
        cases hb : buildUnsubscribeMessage st rid s with
        | none => exact h
        | some x =>
          obtain ⟨st', msg⟩ := x
          obtain ⟨uid, c0, um, hl, _, hm', _, _, hch, hmsg⟩ := buildUnsub_spec _ _ _ _ _ hb
          subst hmsg
          obtain ⟨h3, uid', c', um', hl', hno, hc⟩ := live_buildUnsub st rid s st' _ hb h.live
          have hcc : c' = c := by
            unfold Mgr.asSubscription at h2
            rw [hl'] at h2; simp at h2; exact h2
          subst hcc
          have hc0 : c0 = c' := by rw [hl] at hl'; simp at hl'; exact hl'.2.1
          have hu0 : uid = uid' := by rw [hl] at hl'; simp at hl'; exact hl'.1
          subst hc0 hu0
          obtain ⟨xc, g1, _, g3, g4, _, _, _, g8, g9⟩ := h.live.sub rid uid c0 um hl
          have hsome : (alookup rid st.mgr.requests).isSome := by simp [hl]
          -- the channel as it is after `unsubscribe`
          have hx' : st'.chans[c0]? = some { dropSender xc with unsubscribed := true } := by
            rw [hch]; simp [modifyAt_get, g1]
          have hother : ∀ ch, ch ≠ c0 → st'.chans[ch]? = st.chans[ch]? := by
            intro ch hne; rw [hch]; simp [modifyAt_get, hne]
          have hU : UnsubOK st' := by
            refine ⟨?_, ?_⟩
            · intro k r' ch hk
              rw [hm'] at hk
              rcases unsub_of_unsubMgr _ _ _ _ _ _ _ _ hsome hk with ⟨a, _⟩ | ⟨_, e2, e3⟩
              · obtain ⟨x, a1, a2, a3, a4⟩ := h.unsub.unsub k r' ch a
                have hne : ch ≠ c0 := by intro e; subst e; rw [g1] at a1; simp at a1; subst a1; rw [g3] at a2; simp at a2
                exact ⟨x, by rw [hother ch hne]; exact a1, a2, a3, a4⟩
              · subst e2 e3
                exact ⟨_, hx', rfl, by simp [dropSender, g8], by simp [dropSender, g9]⟩
            · intro k k' r1 r2 ch hk hk'
              rw [hm'] at hk hk'
              rcases unsub_of_unsubMgr _ _ _ _ _ _ _ _ hsome hk with ⟨a, _⟩ | ⟨e1, _, e3⟩ <;>
              rcases unsub_of_unsubMgr _ _ _ _ _ _ _ _ hsome hk' with ⟨b, _⟩ | ⟨f1, _, f3⟩
              · exact h.unsub.inj k k' r1 r2 ch a b
              · subst f3
                obtain ⟨x, a1, a2, _⟩ := h.unsub.unsub k r1 ch a
                rw [g1] at a1; simp at a1; subst a1; rw [g3] at a2; simp at a2
              · subst e3
                obtain ⟨x, a1, a2, _⟩ := h.unsub.unsub k' r2 ch b
                rw [g1] at a1; simp at a1; subst a1; rw [g3] at a2; simp at a2
              · rw [e1, f1]
          have hS : SlotOK st' := by
            intro k hk
            rw [hm'] at hk
            obtain ⟨b1, b2⟩ := slot_of_unsubMgr _ _ _ _ _ _ hsome hk
            rcases b2 with e | b3
            · subst e
              exact Or.inr (Or.inr ⟨c0, _, hx', rfl, by simp [dropSender, g8], by simp [dropSender, g9]⟩)
            · have pres : ∀ sid kd, sid ≠ rid → kd ≠ Kind.pendingCall none → kd ≠ Kind.pendingUnsub rid c0 →
                  alookup sid st.mgr.requests = some kd → alookup sid st'.mgr.requests = some kd := by
                intro sid kd hn h1 h2 hs
                rw [hm']; exact (unsubMgr_alookup _ _ _ _ _ sid kd h1 h2 hn).2 hs
              rcases h.slot k b3 with ⟨sid, t, um', b⟩ | ⟨sid, ch, um', b⟩ | ⟨ch, x, c1, c2, c3, c4⟩
              · have hn : sid ≠ rid := by intro e; subst e; rw [hl] at b; simp at b
                exact Or.inl ⟨sid, t, um', pres sid _ hn (by simp) (by simp) b⟩
              · have hn : sid ≠ rid := by intro e; subst e; rw [hl] at b; simp at b; exact b1 b.1.symm
                exact Or.inr (Or.inl ⟨sid, ch, um', pres sid _ hn (by simp) (by simp) b⟩)
              · have hne : ch ≠ c0 := by intro e; subst e; rw [g1] at c1; simp at c1; subst c1; rw [g3] at c2; simp at c2
                exact Or.inr (Or.inr ⟨ch, x, by rw [hother ch hne]; exact c1, c2, c3, c4⟩)
          have hfr : SlotFrame (fun ch : Chan => { ch with unsubWires := ch.unsubWires + 1 }) := ⟨fun _ => rfl, fun _ => rfl, fun _ => rfl⟩
          refine ⟨?_, unsubOK_modChan st' c0 _ hfr hU, slotOK_modChan st' c0 _ hfr hS⟩
          have hlive := live_modChan_free st' c0 (fun ch : Chan => { ch with unsubWires := ch.unsubWires + 1 }) h3 hno
            (fun x => ⟨rfl, rfl⟩) (fun x hx hw => by
              obtain ⟨a, b, c1, d⟩ := hc x hx
              exact ⟨by simp [a], fun _ => b, fun e => by simp [c1] at e, fun e => by simp [d] at e⟩)
          exact hlive
  | registerNotif meth t0 =>
    simp only
    cases h1 : st.mgr.insertNotificationHandler meth st.chans.length with
    | some m' =>
      unfold Mgr.insertNotificationHandler at h1
      split at h1
      · simp at h1
      · simp at h1; subst h1
        have h0 : TInv ({ st with mgr := { st.mgr with handlers := (meth, st.chans.length) :: st.mgr.handlers } }.newChan (.method meth) t0.op).1 :=
          ⟨live_insert_handler st meth t0.op h.live,
           unsubOK_newChan { st with mgr := { st.mgr with handlers := (meth, st.chans.length) :: st.mgr.handlers } } _ _ _ _ ⟨h.unsub.unsub, h.unsub.inj⟩,
           slotOK_newChan { st with mgr := { st.mgr with handlers := (meth, st.chans.length) :: st.mgr.handlers } } _ _ _ _ (fun k hk => h.slot k hk)⟩
        simp only
        split
        · exact h0
        · exact tinv_modChan _ _ _ liveFrame_dropReceiver h0
    | none => exact h
  | unregisterNotif meth =>
    simp only
    cases h1 : (st.mgr.removeNotificationHandler meth).2 with
    | none => exact h
    | some c =>
      simp only
      have hl : alookup meth st.mgr.handlers = some c := by simpa [Mgr.removeNotificationHandler] using h1
      have hfr : SlotFrame dropSender := ⟨fun _ => rfl, fun _ => rfl, fun _ => rfl⟩
      exact ⟨live_remove_handler st meth c dropSender h.live hl (fun x hw => ⟨hw.le, hw.one, hw.excl, hw.ack⟩),
             unsubOK_modChan { st with mgr := _ } c _ hfr ⟨h.unsub.unsub, h.unsub.inj⟩,
             slotOK_modChan { st with mgr := _ } c _ hfr (fun k hk => h.slot k hk)⟩

/-! ### the step machine -/

/-- state invariant of C18: tables justified by open work, and no bare internal request queued -/
def STInv (st : St) : Prop := TInv st.core ∧ ∀ m ∈ st.pool, bareRequest m = false

theorem stinv_init (cap : Nat) (sI : Bool) : STInv (St.init cap sI) :=
  ⟨tinv_init cap, by intro m hm; simp [St.init] at hm⟩

/-- the read task only ever queues `SubscriptionClosed` messages -/
def OnlyClosed (effs : List Effect) : Prop := ∀ m ∈ queuedMsgs effs, bareRequest m = false

theorem onlyClosed_nil : OnlyClosed [] := by intro m hm; simp [queuedMsgs] at hm

theorem onlyClosed_append {a b : List Effect} (ha : OnlyClosed a) (hb : OnlyClosed b) : OnlyClosed (a ++ b) := by
  intro m hm
  rw [queuedMsgs_append] at hm
  rcases List.mem_append.1 hm with h | h
  · exact ha m h
  · exact hb m h

theorem onlyClosed_of_none {effs : List Effect} (h : queuedMsgs effs = []) : OnlyClosed effs := by
  intro m hm; rw [h] at hm; simp at hm

theorem onlyClosed_processSubscriptionResponse (st : Core) (s : SubId) (p : Text) :
    OnlyClosed (processSubscriptionResponse st s p).2 := by
  unfold processSubscriptionResponse
  split
  · exact onlyClosed_nil
  · split
    · exact onlyClosed_nil
    · split
      · exact onlyClosed_nil
      · split <;> intro m hm <;> simp [queuedMsgs] at hm <;> simp [hm, bareRequest]

theorem onlyClosed_processNotification (st : Core) (m : Text) (p : Option Text) :
    OnlyClosed (processNotification st m p).2 := by
  unfold processNotification
  split
  · exact onlyClosed_nil
  · split
    · exact onlyClosed_nil
    · split <;> intro m hm <;> simp [queuedMsgs] at hm

theorem onlyClosed_completeSubscribe (st : Core) (r : Response) (uid : Id) (t : Ticket) (um : Text) :
    OnlyClosed (completeSubscribe st r uid t um).2 := by
  unfold completeSubscribe
  cases hp : r.payload with
  | error e => exact onlyClosed_of_none (queuedMsgs_completeIfAlive _ _ _)
  | result raw =>
    simp only
    cases hd : decodeSubId raw with
    | none => exact onlyClosed_of_none (queuedMsgs_completeIfAlive _ _ _)
    | some s =>
      simp only
      cases hins : st.mgr.insertSubscription r.id uid s st.chans.length um with
      | none => exact onlyClosed_of_none (queuedMsgs_completeIfAlive _ _ _)
      | some m' =>
        simp only
        cases hal : st.alive t with
        | true => simp only [if_true]; exact onlyClosed_of_none rfl
        | false =>
          simp only [Bool.false_eq_true, if_false]
          unfold abandonedSubscribe
          intro m hm; simp [queuedMsgs] at hm; simp [hm, bareRequest]

theorem onlyClosed_processSingleResponse (st st' : Core) (r : Response) (effs : List Effect)
    (hp : processSingleResponse st r = .ok (st', effs)) : OnlyClosed effs := by
  unfold processSingleResponse at hp
  cases hs : st.mgr.requestStatus r.id with
  | pendingCall =>
    simp only [hs] at hp
    cases hcp : st.mgr.completePendingCall r.id with
    | none => simp [hcp] at hp
    | some x =>
      obtain ⟨m', t0⟩ := x
      cases t0 with
      | none => simp [hcp] at hp; rw [hp.2]; exact onlyClosed_nil
      | some t1 => simp [hcp] at hp; rw [← hp.2]; exact onlyClosed_of_none (queuedMsgs_completeIfAlive _ _ _)
  | pendingSub =>
    simp only [hs] at hp
    cases hcp : st.mgr.completePendingSubscription r.id with
    | none => simp [hcp] at hp
    | some x =>
      obtain ⟨m', uid, t0, um⟩ := x
      simp [hcp] at hp
      have := onlyClosed_completeSubscribe { st with mgr := m' } r uid t0 um
      rw [hp] at this; exact this
  | sub => simp [hs] at hp
  | invalid => simp [hs] at hp

theorem onlyClosed_arrayLoop (es : List Text) : ∀ (acc acc' : ArrAcc) (f : Option Fatal), arrayLoop acc es = (acc', f) →
    OnlyClosed acc.effs → OnlyClosed acc'.effs := by
  induction es with
  | nil => intro acc acc' f h h1; simp [arrayLoop] at h; rw [← h.1]; exact h1
  | cons e rest ih =>
    intro acc acc' f h h1
    rw [arrayLoop] at h
    cases hc : classifyIncoming e with
    | response r =>
      simp only [hc] at h
      cases hid : idNum r.id with
      | none => simp [hid] at h; rw [← h.1]; exact h1
      | some id => simp only [hid] at h; have := ih _ _ _ h h1; exact this
    | garbage => simp [hc] at h; rw [← h.1]; exact h1
    | subNotif s p =>
      simp only [hc] at h
      exact ih _ _ _ h (onlyClosed_append h1 (onlyClosed_processSubscriptionResponse acc.st s p))
    | subClose s => simp only [hc] at h; have := ih _ _ _ h h1; exact this
    | notif m p =>
      simp only [hc] at h
      exact ih _ _ _ h (onlyClosed_append h1 (onlyClosed_processNotification acc.st m p))

theorem onlyClosed_handleBack (st : Core) (raw : Text) : OnlyClosed (handleBack st raw).effs := by
  unfold handleBack
  cases hf : firstNonWs raw with
  | none => exact onlyClosed_nil
  | some ch =>
    simp only
    cases c1 : (ch == 123) with
    | true =>
      simp only [if_true]
      unfold handleSingle
      cases hc : classifyIncoming raw with
      | response r =>
        simp only
        cases hp : processSingleResponse st r with
        | error f => exact onlyClosed_nil
        | ok x => obtain ⟨st', effs⟩ := x; exact onlyClosed_processSingleResponse st st' r effs hp
      | garbage => exact onlyClosed_nil
      | subNotif s p => exact onlyClosed_processSubscriptionResponse st s p
      | subClose s => exact onlyClosed_nil
      | notif m p => exact onlyClosed_processNotification st m p
    | false =>
      simp only [Bool.false_eq_true, if_false]
      cases c2 : (ch == 91) with
      | false => simp only [Bool.false_eq_true, if_false]; exact onlyClosed_nil
      | true =>
        simp only [if_true]
        cases he : elements raw with
        | none => exact onlyClosed_nil
        | some es =>
          simp only
          unfold handleArray
          cases hl : arrayLoop { st := st } es with
          | mk acc f =>
            have a := onlyClosed_arrayLoop es _ _ _ hl onlyClosed_nil
            cases f with
            | some f => exact onlyClosed_of_none (queuedMsgs_dropQueued _)
            | none =>
              simp only
              unfold arrayFinish
              cases hrg : acc.range with
              | none => simp only; split <;> first | exact a | exact onlyClosed_of_none (queuedMsgs_dropQueued _)
              | some p =>
                obtain ⟨lo, hi⟩ := p
                simp only
                cases hre : rangeEnd hi with
                | err e => exact onlyClosed_of_none (queuedMsgs_dropQueued _)
                | ok hi1 =>
                  simp only
                  split
                  · exact onlyClosed_of_none (queuedMsgs_dropQueued _)
                  · exact onlyClosed_append a (onlyClosed_of_none (processBatchResponse_count 0 acc.st acc.batch lo hi1).2)

theorem stinv_step (st : St) (s : Step) (h : STInv st) : STInv (step st s).st := by
  obtain ⟨h1, h2⟩ := h
  cases s with
  | newCall meth params =>
    refine ⟨h1, fun m hm => ?_⟩
    simp only [step, List.mem_append, List.mem_singleton] at hm
    rcases hm with hm | hm
    · exact h2 m hm
    · subst hm; rfl
  | newSubscribe sm um =>
    refine ⟨h1, fun m hm => ?_⟩
    simp only [step, List.mem_append, List.mem_singleton] at hm
    rcases hm with hm | hm
    · exact h2 m hm
    · subst hm; rfl
  | newBatch meth n =>
    refine ⟨h1, fun m hm => ?_⟩
    simp only [step, List.mem_append, List.mem_singleton] at hm
    rcases hm with hm | hm
    · exact h2 m hm
    · subst hm; rfl
  | newRegister meth =>
    refine ⟨h1, fun m hm => ?_⟩
    simp only [step, List.mem_append, List.mem_singleton] at hm
    rcases hm with hm | hm
    · exact h2 m hm
    · subst hm; rfl
  | newNotification raw =>
    refine ⟨h1, fun m hm => ?_⟩
    simp only [step, List.mem_append, List.mem_singleton] at hm
    rcases hm with hm | hm
    · exact h2 m hm
    · subst hm; rfl
  | abandon op =>
    exact ⟨⟨live_of_mgr_chans_eq (a := st.core) rfl rfl rfl h1.live, ⟨h1.unsub.unsub, h1.unsub.inj⟩, fun k hk => h1.slot k hk⟩, h2⟩
  | sendTask i =>
    cases hp : st.pool[i]? with
    | none =>
      have e : step st (.sendTask i) = { st := st } := by simp only [step, hp]
      rw [e]; exact ⟨h1, h2⟩
    | some msg =>
      have e : step st (.sendTask i) =
          { st := { st with core := (handleFront st.core msg).1, pool := removeAt st.pool i },
            effs := (handleFront st.core msg).2 } := by simp only [step, hp]
      rw [e]
      exact ⟨tinv_handleFront st.core msg h1 (h2 msg (List.mem_of_getElem? hp)), fun m hm => h2 m (mem_removeAt _ _ _ hm)⟩
  | recv raw =>
    refine ⟨tinv_handleBack st.core raw h1, fun m hm => ?_⟩
    simp only [step, List.mem_append] at hm
    rcases hm with hm | hm
    · exact h2 m hm
    · exact onlyClosed_handleBack st.core raw m hm
  | next c =>
    unfold STInv
    simp only [step]
    split
    · exact ⟨h1, h2⟩
    · split
      · exact ⟨h1, h2⟩
      · split
        · exact ⟨tinv_modChan _ _ _ (liveFrame_pop _ _) h1, h2⟩
        · split <;> exact ⟨h1, h2⟩
  | dropStream c room =>
    unfold STInv
    simp only [step]
    split
    · exact ⟨h1, h2⟩
    · rename_i ch _
      split
      · exact ⟨h1, h2⟩
      · refine ⟨tinv_modChan _ _ _ liveFrame_dropReceiver h1, fun m hm => ?_⟩
        simp only at hm
        split at hm
        · simp only [List.mem_append, List.mem_singleton] at hm
          rcases hm with hm | hm
          · exact h2 m hm
          · subst hm; cases ch.owner <;> rfl
        · exact h2 m hm
  | unsubscribeStream c =>
    unfold STInv
    simp only [step]
    split
    · exact ⟨h1, h2⟩
    · rename_i ch _
      split
      · exact ⟨h1, h2⟩
      · refine ⟨tinv_modChan _ _ _ (liveFrame_hasKind false) h1, fun m hm => ?_⟩
        simp only [List.mem_append, List.mem_singleton] at hm
        rcases hm with hm | hm
        · exact h2 m hm
        · subst hm; cases ch.owner <;> rfl

theorem stinv_reachable (st : St) (h : Reachable st) : STInv st := reachable_inv STInv stinv_init stinv_step st h

/-- kept under its old name: `Live` in every reachable state -/
theorem slive_reachable (st : St) (h : Reachable st) : Live st.core := (stinv_reachable st h).1.live

end Jrpc.Client
