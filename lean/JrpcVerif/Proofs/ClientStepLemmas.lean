/-
  Handler- and step-level lemmas of the client machine: ticket accounting (who may still be
  completed), frame properties of the handlers, well-formedness invariants.
-/
import JrpcVerif.Proofs.ClientLemmas
namespace Jrpc.Client
open Jrpc

theorem processSubscriptionResponse_compCount (k : Nat) (st : Core) (s : SubId) (p : Text) :
    compCount k (processSubscriptionResponse st s p).2 = 0 := by
  unfold processSubscriptionResponse
  split
  · rfl
  · split
    · rfl
    · split
      · rfl
      · split <;> rfl

theorem processNotification_compCount (k : Nat) (st : Core) (m : Text) (p : Option Text) :
    compCount k (processNotification st m p).2 = 0 := by
  unfold processNotification
  split
  · rfl
  · split
    · rfl
    · split <;> rfl

theorem arrayLoop_compCount (k : Nat) (es : List Text) : ∀ (acc acc' : ArrAcc) (f : Option Fatal), arrayLoop acc es = (acc', f) →
    compCount k acc'.effs = compCount k acc.effs := by
  induction es with
  | nil => intro acc acc' f h; simp [arrayLoop] at h; rw [h.1]
  | cons e rest ih =>
    intro acc acc' f h
    rw [arrayLoop] at h
    cases hc : classifyIncoming e with
    | response r =>
      simp only [hc] at h
      cases hid : idNum r.id with
      | none => simp [hid] at h; rw [h.1]
      | some id => simp only [hid] at h; have := ih _ _ _ h; exact this
    | garbage => simp [hc] at h; rw [h.1]
    | subNotif s p =>
      simp only [hc] at h
      rw [ih _ _ _ h]
      simp [compCount_append, processSubscriptionResponse_compCount]
    | subClose s => simp only [hc] at h; have := ih _ _ _ h; exact this
    | notif m p =>
      simp only [hc] at h
      rw [ih _ _ _ h]
      simp [compCount_append, processNotification_compCount]

/-- messages the read task queues for the send task never carry a ticket -/
def NoTicketMsgs (effs : List Effect) : Prop := ∀ m ∈ queuedMsgs effs, msgOp m = none

theorem queuedMsgs_append (a b : List Effect) : queuedMsgs (a ++ b) = queuedMsgs a ++ queuedMsgs b := by
  induction a with
  | nil => rfl
  | cons x xs ih => cases x <;> simp [queuedMsgs, ih]

theorem noTicket_nil : NoTicketMsgs [] := by intro m hm; simp [queuedMsgs] at hm

theorem noTicket_append {a b : List Effect} (ha : NoTicketMsgs a) (hb : NoTicketMsgs b) : NoTicketMsgs (a ++ b) := by
  intro m hm
  rw [queuedMsgs_append] at hm
  rcases List.mem_append.1 hm with h | h
  · exact ha m h
  · exact hb m h

theorem queuedMsgs_dropQueued (l : List Effect) : queuedMsgs (dropQueued l) = [] := by
  induction l with
  | nil => rfl
  | cons x xs ih =>
    cases x <;> simp [dropQueued, List.filter, notToFront, queuedMsgs] <;> simpa [dropQueued] using ih

theorem queuedMsgs_completeIfAlive (st : Core) (t : Ticket) (o : Outcome) : queuedMsgs (st.completeIfAlive t o) = [] := by
  unfold Core.completeIfAlive; split <;> simp [queuedMsgs]

theorem poolCount_of_noTicket (k : Nat) (l : List FrontMsg) (h : ∀ m ∈ l, msgOp m = none) : poolCount k l = 0 := by
  induction l with
  | nil => rfl
  | cons x xs ih =>
    simp only [poolCount]
    rw [h x List.mem_cons_self, ih (fun m hm => h m (List.mem_cons_of_mem _ hm))]
    simp

theorem ackAt_mgr (st : Core) (c : Option ChanId) : (st.ackAt c).mgr = st.mgr := by cases c <;> rfl
theorem ackAt_dead (st : Core) (c : Option ChanId) : (st.ackAt c).dead = st.dead := by cases c <;> rfl

/-! ### `buildUnsubscribeMessage` / `unsubscribe` -/

theorem unsubscribe_spec (m : Mgr) (rid : Id) (s : SubId) (m' : Mgr) (uid : Id) (c : ChanId) (um : Text)
    (h : m.unsubscribe rid s = some (m', uid, c, um)) :
    alookup rid m.requests = some (.sub uid c um) ∧ (alookup s m.subs).isSome ∧
    m' = ({ m with requests := areplace rid (.pendingCall none) m.requests, subs := aerase s m.subs }).markUnsubscribing uid rid c := by
  unfold Mgr.unsubscribe at h
  split at h
  · rename_i uid' c' um' _ h1 h2
    simp at h
    obtain ⟨e1, e2, e3, e4⟩ := h
    subst e1 e2 e3 e4
    exact ⟨h1, by simp [h2], rfl⟩
  · simp at h

theorem removeSubscription_spec (m : Mgr) (rid : Id) (s : SubId) (m' : Mgr) (uid : Id) (c : ChanId) (um : Text)
    (h : m.removeSubscription rid s = some (m', uid, c, um)) :
    alookup rid m.requests = some (.sub uid c um) ∧ (alookup s m.subs).isSome ∧
    m' = ({ m with requests := aerase rid m.requests, subs := aerase s m.subs }).releaseReservedSlot uid := by
  unfold Mgr.removeSubscription at h
  split at h
  · rename_i uid' c' um' _ h1 h2
    simp at h
    obtain ⟨e1, e2, e3, e4⟩ := h
    subst e1 e2 e3 e4
    exact ⟨h1, by simp [h2], rfl⟩
  · simp at h

/-- the manager after `unsubscribe` -/
def unsubMgr (m : Mgr) (rid uid : Id) (s : SubId) (c : ChanId) : Mgr :=
  ({ m with requests := areplace rid (.pendingCall none) m.requests, subs := aerase s m.subs }).markUnsubscribing uid rid c

/-- the manager after `remove_subscription` -/
def removedMgr (m : Mgr) (rid uid : Id) (s : SubId) : Mgr :=
  ({ m with requests := aerase rid m.requests, subs := aerase s m.subs }).releaseReservedSlot uid

theorem unsubMgr_others (m : Mgr) (rid uid : Id) (s : SubId) (c : ChanId) :
    (unsubMgr m rid uid s c).subs = aerase s m.subs ∧ (unsubMgr m rid uid s c).batches = m.batches ∧
    (unsubMgr m rid uid s c).handlers = m.handlers := by
  unfold unsubMgr
  obtain ⟨a, b, c'⟩ := markUnsubscribing_others ({ m with requests := areplace rid (.pendingCall none) m.requests, subs := aerase s m.subs }) uid rid c
  exact ⟨a, b, c'⟩

theorem removedMgr_others (m : Mgr) (rid uid : Id) (s : SubId) :
    (removedMgr m rid uid s).subs = aerase s m.subs ∧ (removedMgr m rid uid s).batches = m.batches ∧
    (removedMgr m rid uid s).handlers = m.handlers := by
  unfold removedMgr
  obtain ⟨a, b, c⟩ := releaseReservedSlot_others ({ m with requests := aerase rid m.requests, subs := aerase s m.subs }) uid
  exact ⟨a, b, c⟩

theorem unsubMgr_reqCount (k : Nat) (m : Mgr) (rid uid : Id) (s : SubId) (c : ChanId) :
    reqCount k (unsubMgr m rid uid s c).requests ≤ reqCount k m.requests := by
  unfold unsubMgr
  have h1 := reqCount_markUnsubscribing k ({ m with requests := areplace rid (.pendingCall none) m.requests, subs := aerase s m.subs }) uid rid c
  have h2 := reqCount_areplace_none k rid m.requests
  simp only at h1
  omega

theorem removedMgr_reqCount (k : Nat) (m : Mgr) (rid uid : Id) (s : SubId) :
    reqCount k (removedMgr m rid uid s).requests ≤ reqCount k m.requests := by
  unfold removedMgr
  have h1 := reqCount_releaseReservedSlot k ({ m with requests := aerase rid m.requests, subs := aerase s m.subs }) uid
  have h2 := reqCount_aerase_le k rid m.requests
  simp only at h1
  omega

/-- entries after `unsubscribe`: old ones or ticket-less ones -/
theorem unsubMgr_mem (m : Mgr) (rid uid : Id) (s : SubId) (c : ChanId) (p : Id × Kind) (h : p ∈ (unsubMgr m rid uid s c).requests) :
    p ∈ m.requests ∨ p = (rid, .pendingCall none) ∨ p = (uid, .pendingUnsub rid c) := by
  unfold unsubMgr at h
  rcases mem_markUnsubscribing _ uid rid c p h with h1 | h1
  · rcases mem_areplace p rid _ _ h1 with h2 | h2
    · exact Or.inl h2
    · exact Or.inr (Or.inl h2)
  · exact Or.inr (Or.inr h1)

theorem removedMgr_mem (m : Mgr) (rid uid : Id) (s : SubId) (p : Id × Kind) (h : p ∈ (removedMgr m rid uid s).requests) :
    p ∈ m.requests := by
  unfold removedMgr at h
  exact (mem_aerase p rid _ (mem_releaseReservedSlot _ uid p h)).1

/-- lookups of entries that are neither slots nor markers, at keys other than the subscription's own -/
theorem unsubMgr_alookup (m : Mgr) (rid uid : Id) (s : SubId) (c : ChanId) (k : Id) (kd : Kind)
    (hk : kd ≠ .pendingCall none) (hk2 : kd ≠ .pendingUnsub rid c) (hne : k ≠ rid) :
    alookup k (unsubMgr m rid uid s c).requests = some kd ↔ alookup k m.requests = some kd := by
  unfold unsubMgr
  rw [alookup_markUnsubscribing _ uid rid k c kd hk hk2]
  simp only
  rw [alookup_areplace_ne k rid _ _ hne]

theorem removedMgr_alookup (m : Mgr) (rid uid : Id) (s : SubId) (k : Id) (kd : Kind)
    (hk : kd ≠ .pendingCall none) (hne : k ≠ rid) :
    alookup k (removedMgr m rid uid s).requests = some kd ↔ alookup k m.requests = some kd := by
  unfold removedMgr
  rw [alookup_releaseReservedSlot _ uid k kd hk]
  simp only
  rw [alookup_aerase_ne k rid _ hne]

/-- at the subscription's own key nothing but a marker / nothing is left -/
theorem unsubMgr_alookup_rid (m : Mgr) (rid uid : Id) (s : SubId) (c : ChanId) (h : (alookup rid m.requests).isSome) (kd : Kind)
    (hk : kd ≠ .pendingCall none) (hk2 : kd ≠ .pendingUnsub rid c) : alookup rid (unsubMgr m rid uid s c).requests ≠ some kd := by
  intro hc
  unfold unsubMgr at hc
  rw [alookup_markUnsubscribing _ uid rid rid c kd hk hk2] at hc
  simp only at hc
  rw [alookup_areplace_self rid _ _ h] at hc
  simp at hc; exact hk hc.symm

theorem removedMgr_alookup_rid (m : Mgr) (rid uid : Id) (s : SubId) (kd : Kind) (hk : kd ≠ .pendingCall none) :
    alookup rid (removedMgr m rid uid s).requests ≠ some kd := by
  intro c
  unfold removedMgr at c
  rw [alookup_releaseReservedSlot _ uid rid kd hk] at c
  simp only at c
  rw [alookup_aerase_self] at c
  simp at c

theorem buildUnsub_spec (st : Core) (rid : Id) (s : SubId) (st' : Core) (msg : FrontMsg)
    (h : buildUnsubscribeMessage st rid s = some (st', msg)) :
    ∃ uid c um, alookup rid st.mgr.requests = some (.sub uid c um) ∧ (alookup s st.mgr.subs).isSome ∧
      st'.mgr = unsubMgr st.mgr rid uid s c ∧
      st'.dead = st.dead ∧ st'.cap = st.cap ∧
      st'.chans = modifyAt (fun ch => { dropSender ch with unsubscribed := true }) st.chans c ∧
      msg = .request uid none (unsubRaw uid um s) := by
  unfold buildUnsubscribeMessage at h
  split at h
  · simp at h
  · rename_i m' uid c um hu
    simp at h
    obtain ⟨e1, e2⟩ := h
    subst e1 e2
    obtain ⟨a, b, c'⟩ := unsubscribe_spec _ _ _ _ _ _ _ hu
    exact ⟨uid, c, um, a, b, by simp [Core.modChan, c', unsubMgr], rfl, rfl, rfl, rfl⟩

theorem buildUnsub_count (k : Nat) (st : Core) (rid : Id) (s : SubId) (st' : Core) (msg : FrontMsg)
    (h : buildUnsubscribeMessage st rid s = some (st', msg)) :
    coreCount k st' ≤ coreCount k st ∧ msgOp msg = none := by
  obtain ⟨uid, c, um, _, _, hm, _, _, _, hmsg⟩ := buildUnsub_spec st rid s st' msg h
  subst hmsg
  refine ⟨?_, rfl⟩
  unfold coreCount
  rw [hm, (unsubMgr_others st.mgr rid uid s c).2.1]
  have := unsubMgr_reqCount k st.mgr rid uid s c
  omega

/-! ### ticket accounting of the handlers -/

theorem processSubscriptionResponse_noTicket (st : Core) (s : SubId) (p : Text) :
    NoTicketMsgs (processSubscriptionResponse st s p).2 := by
  unfold processSubscriptionResponse
  split
  · exact noTicket_nil
  · split
    · exact noTicket_nil
    · split
      · exact noTicket_nil
      · split <;> intro m hm <;> simp [queuedMsgs] at hm <;> simp [hm, msgOp]

theorem processNotification_noTicket (st : Core) (m : Text) (p : Option Text) :
    NoTicketMsgs (processNotification st m p).2 := by
  unfold processNotification
  split
  · exact noTicket_nil
  · split
    · exact noTicket_nil
    · split <;> intro m hm <;> simp [queuedMsgs] at hm

theorem coreCount_release (k : Nat) (st : Core) (uid : Id) :
    coreCount k { st with mgr := st.mgr.releaseReservedSlot uid } ≤ coreCount k st := by
  unfold coreCount
  simp only [(releaseReservedSlot_others st.mgr uid).2.1]
  have := reqCount_releaseReservedSlot k st.mgr uid
  omega

theorem processSubscriptionClose_count (k : Nat) (st : Core) (s : SubId) :
    coreCount k (processSubscriptionClose st s) ≤ coreCount k st := by
  unfold processSubscriptionClose
  cases h1 : st.mgr.getRequestIdBySubscriptionId s with
  | none => exact Nat.le_refl _
  | some rid =>
    simp only
    cases h2 : st.mgr.removeSubscription rid s with
    | none => exact Nat.le_refl _
    | some x =>
      obtain ⟨m', uid, c, um⟩ := x
      obtain ⟨_, _, e⟩ := removeSubscription_spec _ _ _ _ _ _ _ h2
      have e' : m' = removedMgr st.mgr rid uid s := e
      simp only [coreCount, modChan_mgr, e', (removedMgr_others st.mgr rid uid s).2.1]
      have := removedMgr_reqCount k st.mgr rid uid s
      omega

theorem processNotification_count (k : Nat) (st : Core) (m : Text) (p : Option Text) :
    coreCount k (processNotification st m p).1 = coreCount k st := by
  unfold processNotification
  split
  · rfl
  · split
    · rfl
    · split <;> simp [coreCount, Core.modChan, Mgr.removeNotificationHandler]

theorem abandonedSubscribe_count (k : Nat) (st : Core) (c : ChanId) (s : SubId) (t : Ticket) :
    coreCount k (abandonedSubscribe st c s t).1 = coreCount k st ∧
    compCount k (abandonedSubscribe st c s t).2 = (if t.op = k then 1 else 0) ∧
    NoTicketMsgs (abandonedSubscribe st c s t).2 := by
  unfold abandonedSubscribe
  refine ⟨rfl, by simp [compCount], ?_⟩
  intro m hm
  simp [queuedMsgs] at hm
  rw [hm]; rfl

theorem newChan_mgr (st : Core) (o : Owner) (op : Nat) : (st.newChan o op).1.mgr = st.mgr := rfl

theorem insertSubscription_spec (m : Mgr) (sid uid : Id) (s : SubId) (c : ChanId) (um : Text) (m' : Mgr)
    (h : m.insertSubscription sid uid s c um = some m') :
    alookup sid m.requests = none ∧ alookup s m.subs = none ∧
    m' = { m with requests := (sid, .sub uid c um) :: m.requests, subs := (s, sid) :: m.subs } := by
  unfold Mgr.insertSubscription at h
  split at h
  · rename_i hc
    simp at h
    obtain ⟨h1, h2⟩ := hc
    exact ⟨by simpa using h1, by simpa using h2, h.symm⟩
  · simp at h

theorem completeSubscribe_count (k : Nat) (st : Core) (r : Response) (uid : Id) (t : Ticket) (um : Text) :
    compCount k (completeSubscribe st r uid t um).2 + coreCount k (completeSubscribe st r uid t um).1 ≤
      coreCount k st + (if t.op = k then 1 else 0) ∧ NoTicketMsgs (completeSubscribe st r uid t um).2 := by
  unfold completeSubscribe
  have hrel := coreCount_release k st uid
  cases hp : r.payload with
  | error e =>
    have := compCount_completeIfAlive k st t (.callErr e)
    refine ⟨by simp only; omega, ?_⟩
    intro m hm; simp [queuedMsgs_completeIfAlive] at hm
  | result raw =>
    simp only
    cases hd : decodeSubId raw with
    | none =>
      have := compCount_completeIfAlive k st t .badSubId
      refine ⟨by simp only; omega, ?_⟩
      intro m hm; simp [queuedMsgs_completeIfAlive] at hm
    | some s =>
      simp only
      cases hins : st.mgr.insertSubscription r.id uid s st.chans.length um with
      | none =>
        have := compCount_completeIfAlive k st t .invalidSubId
        refine ⟨by simp only; omega, ?_⟩
        intro m hm; simp [queuedMsgs_completeIfAlive] at hm
      | some m' =>
        obtain ⟨_, _, e⟩ := insertSubscription_spec _ _ _ _ _ _ _ hins
        have hcc : coreCount k ({ st with mgr := m' }.newChan (.sub s) t.op uid r.id).1 = coreCount k st := by
          simp [coreCount, Core.newChan, e, reqCount, kindOp]
        simp only
        by_cases hal : st.alive t = true
        · simp only [hal, if_true]
          refine ⟨?_, ?_⟩
          · simp only [compCount, hcc]; omega
          · intro m hm; simp [queuedMsgs] at hm
        · simp only [hal]
          obtain ⟨a, b, c⟩ := abandonedSubscribe_count k ({ st with mgr := m' }.newChan (.sub s) t.op uid r.id).1 st.chans.length s t
          exact ⟨by simp only [Bool.false_eq_true, if_false]; omega, by simpa using c⟩

/-- `complete_pending_call`: either a plain pending call, or the acknowledgement of an unsubscribe -/
theorem completePendingCall_spec (m : Mgr) (id : Id) (m' : Mgr) (t : Option Ticket)
    (h : m.completePendingCall id = some (m', t)) :
    (alookup id m.requests = some (.pendingCall t) ∧ m' = { m with requests := aerase id m.requests }) ∨
    (∃ rid c, alookup id m.requests = some (.pendingUnsub rid c) ∧ t = none ∧
      m' = ({ m with requests := aerase id m.requests }).releaseReservedSlot rid) := by
  unfold Mgr.completePendingCall at h
  split at h
  · rename_i t' hl
    simp at h
    obtain ⟨e1, e2⟩ := h
    subst e1 e2
    exact Or.inl ⟨hl, rfl⟩
  · rename_i rid c hl
    simp at h
    obtain ⟨e1, e2⟩ := h
    subst e1 e2
    exact Or.inr ⟨rid, c, hl, rfl, rfl⟩
  · simp at h

/-- common consequences of `complete_pending_call`: only erasures, the other tables untouched -/
theorem completePendingCall_frame (m : Mgr) (id : Id) (m' : Mgr) (t : Option Ticket)
    (h : m.completePendingCall id = some (m', t)) :
    m'.subs = m.subs ∧ m'.batches = m.batches ∧ m'.handlers = m.handlers ∧
    (∀ p ∈ m'.requests, p ∈ m.requests ∧ p.1 ≠ id) ∧
    (∀ k, reqCount k m'.requests + (if t.map (·.op) = some k then 1 else 0) ≤ reqCount k m.requests) ∧
    (∀ k kd, kd ≠ .pendingCall none → k ≠ id → (alookup k m'.requests = some kd ↔ alookup k m.requests = some kd)) ∧
    alookup id m'.requests = none := by
  rcases completePendingCall_spec m id m' t h with ⟨hl, e⟩ | ⟨rid, _, hl, e1, e⟩
  · subst e
    refine ⟨rfl, rfl, rfl, fun p hp => mem_aerase p id _ hp, ?_, ?_, alookup_aerase_self id _⟩
    · intro k
      have := reqCount_aerase_of_lookup k id _ _ hl
      cases t with
      | none => simpa [kindOp] using this
      | some tk => simpa [kindOp] using this
    · intro k kd _ hne; rw [alookup_aerase_ne k id _ hne]
  · subst e1 e
    obtain ⟨a, b, c⟩ := releaseReservedSlot_others ({ m with requests := aerase id m.requests }) rid
    refine ⟨a, b, c, ?_, ?_, ?_, ?_⟩
    · intro p hp; exact mem_aerase p id _ (mem_releaseReservedSlot _ rid p hp)
    · intro k
      have h1 := reqCount_releaseReservedSlot k ({ m with requests := aerase id m.requests }) rid
      have h2 := reqCount_aerase_le k id m.requests
      simp only at h1
      simp; omega
    · intro k kd hk hne
      rw [alookup_releaseReservedSlot _ rid k kd hk]
      simp only
      rw [alookup_aerase_ne k id _ hne]
    · cases hx : alookup id (({ m with requests := aerase id m.requests }).releaseReservedSlot rid).requests with
      | none => rfl
      | some kd =>
        exfalso
        have hm := mem_releaseReservedSlot _ rid _ (alookup_mem _ _ _ hx)
        exact (mem_aerase _ id _ hm).2 rfl

theorem completePendingSubscription_spec (m : Mgr) (id : Id) (m' : Mgr) (uid : Id) (t : Ticket) (um : Text)
    (h : m.completePendingSubscription id = some (m', uid, t, um)) :
    alookup id m.requests = some (.pendingSub uid t um) ∧ m' = { m with requests := aerase id m.requests } := by
  unfold Mgr.completePendingSubscription at h
  split at h
  · rename_i uid' t' um' hl
    simp at h
    obtain ⟨e1, e2, e3, e4⟩ := h
    subst e1 e2 e3 e4
    exact ⟨hl, rfl⟩
  · simp at h

theorem completePendingBatch_spec (m : Mgr) (key : Nat × Nat) (m' : Mgr) (t : Ticket)
    (h : m.completePendingBatch key = some (m', t)) :
    alookup key m.batches = some t ∧ m' = { m with batches := aerase key m.batches } := by
  unfold Mgr.completePendingBatch at h
  split at h
  · rename_i t' hl
    simp at h
    obtain ⟨e1, e2⟩ := h
    subst e1 e2
    exact ⟨hl, rfl⟩
  · simp at h

theorem processSingleResponse_count (k : Nat) (st st' : Core) (r : Response) (effs : List Effect)
    (h : processSingleResponse st r = .ok (st', effs)) :
    compCount k effs + coreCount k st' ≤ coreCount k st ∧ NoTicketMsgs effs := by
  unfold processSingleResponse at h
  cases hs : st.mgr.requestStatus r.id with
  | pendingCall =>
    simp only [hs] at h
    cases hc : st.mgr.completePendingCall r.id with
    | none => simp [hc] at h
    | some x =>
      obtain ⟨m', t⟩ := x
      obtain ⟨_, hb, _, _, hcnt, _⟩ := completePendingCall_frame _ _ _ _ hc
      have h1 := hcnt k
      cases t with
      | none =>
        simp [hc] at h
        obtain ⟨e1, e2⟩ := h
        subst e1 e2
        exact ⟨by simp only [coreCount, compCount, ackAt_mgr, hb] at h1 ⊢; omega, noTicket_nil⟩
      | some t =>
        simp [hc] at h
        obtain ⟨e1, e2⟩ := h
        subst e1 e2
        have h2 := compCount_completeIfAlive k st t (.response r)
        simp only [Option.map_some, Option.some.injEq] at h1
        refine ⟨by simp only [coreCount, hb]; omega, ?_⟩
        intro m hm; simp [queuedMsgs_completeIfAlive] at hm
  | pendingSub =>
    simp only [hs] at h
    cases hc : st.mgr.completePendingSubscription r.id with
    | none => simp [hc] at h
    | some x =>
      obtain ⟨m', uid, t, um⟩ := x
      obtain ⟨hl, e⟩ := completePendingSubscription_spec _ _ _ _ _ _ hc
      simp [hc] at h
      have h1 := reqCount_aerase_of_lookup k r.id _ _ hl
      simp only [kindOp, Option.some.injEq] at h1
      obtain ⟨h2, h3⟩ := completeSubscribe_count k { st with mgr := m' } r uid t um
      rw [h] at h2 h3
      refine ⟨?_, h3⟩
      subst e
      simp only [coreCount] at h2 ⊢
      omega
  | sub => simp [hs] at h
  | invalid => simp [hs] at h

theorem processBatchResponse_count (k : Nat) (st : Core) (rps : List Response) (lo hi : Nat) :
    compCount k (processBatchResponse st rps lo hi).2.1 + coreCount k (processBatchResponse st rps lo hi).1 ≤ coreCount k st ∧
    queuedMsgs (processBatchResponse st rps lo hi).2.1 = [] := by
  unfold processBatchResponse
  cases hc : st.mgr.completePendingBatch (lo, hi) with
  | none => exact ⟨by simp [compCount], rfl⟩
  | some x =>
    obtain ⟨m', t⟩ := x
    obtain ⟨hl, e⟩ := completePendingBatch_spec _ _ _ _ hc
    subst e
    have h1 := batCount_aerase_of_lookup k (lo, hi) _ _ hl
    simp only
    cases hf : fillSlots lo (List.replicate (hi - lo) placeholder) rps with
    | err e => exact ⟨by simp only [coreCount, compCount]; omega, rfl⟩
    | ok slots =>
      have h2 := compCount_completeIfAlive k st t (.batch slots)
      exact ⟨by simp only [coreCount]; omega, queuedMsgs_completeIfAlive _ _ _⟩

theorem arrayLoop_count (k : Nat) (es : List Text) : ∀ (acc acc' : ArrAcc) (f : Option Fatal),
    arrayLoop acc es = (acc', f) →
    coreCount k acc'.st ≤ coreCount k acc.st ∧ (NoTicketMsgs acc.effs → NoTicketMsgs acc'.effs) := by
  induction es with
  | nil => intro acc acc' f h; simp [arrayLoop] at h; rw [← h.1]; exact ⟨Nat.le_refl _, id⟩
  | cons e rest ih =>
    intro acc acc' f h
    rw [arrayLoop] at h
    cases hc : classifyIncoming e with
    | response r =>
      simp only [hc] at h
      cases hid : idNum r.id with
      | none => simp [hid] at h; rw [← h.1]; exact ⟨Nat.le_refl _, id⟩
      | some id => simp only [hid] at h; have := ih _ _ _ h; exact this
    | garbage => simp [hc] at h; rw [← h.1]; exact ⟨Nat.le_refl _, id⟩
    | subNotif s p =>
      simp only [hc] at h
      obtain ⟨a, b⟩ := ih _ _ _ h
      have hm := (processSubscriptionResponse_frame acc.st s p).1
      refine ⟨?_, fun hn => b (noTicket_append hn (processSubscriptionResponse_noTicket acc.st s p))⟩
      simp only [coreCount] at a ⊢
      rw [hm] at a; exact a
    | subClose s =>
      simp only [hc] at h
      obtain ⟨a, b⟩ := ih _ _ _ h
      have := processSubscriptionClose_count k acc.st s
      exact ⟨by simp only at a; omega, b⟩
    | notif m p =>
      simp only [hc] at h
      obtain ⟨a, b⟩ := ih _ _ _ h
      have := processNotification_count k acc.st m p
      exact ⟨by simp only at a; omega, fun hn => b (noTicket_append hn (processNotification_noTicket acc.st m p))⟩

theorem handleArray_count (k : Nat) (st : Core) (es : List Text) :
    compCount k (handleArray st es).effs + coreCount k (handleArray st es).st ≤ coreCount k st ∧
    NoTicketMsgs (handleArray st es).effs := by
  unfold handleArray
  cases hl : arrayLoop { st := st } es with
  | mk acc f =>
    have hcomp : compCount k acc.effs = 0 := by
      rw [arrayLoop_compCount k es _ _ _ hl]; rfl
    obtain ⟨hcore, hnt⟩ := arrayLoop_count k es _ _ _ hl
    have hnt' := hnt noTicket_nil
    simp only at hcore
    cases f with
    | some f =>
      simp only
      refine ⟨by rw [compCount_dropQueued]; omega, ?_⟩
      intro m hm; rw [queuedMsgs_dropQueued] at hm; simp at hm
    | none =>
      simp only
      unfold arrayFinish
      split
      · rename_i lo hi _
        split
        · refine ⟨by simp only [compCount_dropQueued]; omega, ?_⟩
          intro m hm; simp only [queuedMsgs_dropQueued] at hm; simp at hm
        · rename_i hi1 _
          obtain ⟨h1, h2⟩ := processBatchResponse_count k acc.st acc.batch lo hi1
          split
          · refine ⟨by simp only [compCount_dropQueued]; omega, ?_⟩
            intro m hm; simp only [queuedMsgs_dropQueued] at hm; simp at hm
          · refine ⟨by simp only [compCount_append]; omega, ?_⟩
            intro m hm
            simp only [queuedMsgs_append, h2, List.append_nil] at hm
            exact hnt' m hm
      · split
        · exact ⟨by simp only; omega, hnt'⟩
        · refine ⟨by simp only [compCount_dropQueued]; omega, ?_⟩
          intro m hm; simp only [queuedMsgs_dropQueued] at hm; simp at hm

theorem handleSingle_count (k : Nat) (st : Core) (raw : Text) :
    compCount k (handleSingle st raw).effs + coreCount k (handleSingle st raw).st ≤ coreCount k st ∧
    NoTicketMsgs (handleSingle st raw).effs := by
  unfold handleSingle
  cases hc : classifyIncoming raw with
  | response r =>
    simp only
    cases hp : processSingleResponse st r with
    | error f => exact ⟨by simp [compCount], noTicket_nil⟩
    | ok x =>
      obtain ⟨st', effs⟩ := x
      exact processSingleResponse_count k st st' r effs hp
  | garbage => exact ⟨by simp [compCount], noTicket_nil⟩
  | subNotif s p =>
    obtain ⟨h1, _, h3⟩ := processSubscriptionResponse_frame st s p
    refine ⟨?_, processSubscriptionResponse_noTicket st s p⟩
    simp only [processSubscriptionResponse_compCount, coreCount, h1]
    omega
  | subClose s =>
    have := processSubscriptionClose_count k st s
    exact ⟨by simp only [compCount]; omega, noTicket_nil⟩
  | notif m p =>
    have := processNotification_count k st m p
    refine ⟨?_, processNotification_noTicket st m p⟩
    simp only [processNotification_compCount]
    omega

theorem handleBack_count (k : Nat) (st : Core) (raw : Text) :
    compCount k (handleBack st raw).effs + coreCount k (handleBack st raw).st ≤ coreCount k st ∧
    NoTicketMsgs (handleBack st raw).effs := by
  unfold handleBack
  split
  · exact ⟨by simp [compCount], noTicket_nil⟩
  · split
    · exact handleSingle_count k st raw
    · split
      · split
        · exact handleArray_count k st _
        · exact ⟨by simp [compCount], noTicket_nil⟩
      · exact ⟨by simp [compCount], noTicket_nil⟩

theorem handleFront_count (k : Nat) (st : Core) (msg : FrontMsg) :
    compCount k (handleFront st msg).2 + coreCount k (handleFront st msg).1 ≤
      coreCount k st + (if msgOp msg = some k then 1 else 0) ∧ queuedMsgs (handleFront st msg).2 = [] := by
  unfold handleFront
  cases msg with
  | batch lo hi t raw =>
    simp only
    cases h : st.mgr.insertPendingBatch (lo, hi) t with
    | none =>
      have := compCount_completeIfAlive k st t .occupied
      exact ⟨by simp only [msgOp, Option.some.injEq]; omega, queuedMsgs_completeIfAlive _ _ _⟩
    | some m' =>
      unfold Mgr.insertPendingBatch at h
      split at h
      · simp at h
      · simp at h; subst h
        exact ⟨by simp only [coreCount, batCount, compCount, msgOp, Option.some.injEq]; omega, rfl⟩
  | notification raw => exact ⟨by simp [compCount], rfl⟩
  | request id t raw =>
    simp only
    cases h : st.mgr.insertPendingCall id t with
    | none =>
      cases t with
      | none => exact ⟨by simp [compCount], rfl⟩
      | some tk =>
        have := compCount_completeIfAlive k st tk .occupied
        exact ⟨by simp only [msgOp, Option.some.injEq]; omega, queuedMsgs_completeIfAlive _ _ _⟩
    | some m' =>
      unfold Mgr.insertPendingCall at h
      split at h
      · simp at h
      · simp at h; subst h
        refine ⟨?_, rfl⟩
        cases t with
        | none => simp [coreCount, reqCount, kindOp, compCount, msgOp]
        | some tk => simp only [coreCount, reqCount, kindOp, compCount, msgOp, Option.some.injEq]; omega
  | subscribe sid uid t um raw =>
    simp only
    cases h : st.mgr.insertPendingSubscription sid uid t um with
    | none =>
      have := compCount_completeIfAlive k st t .occupied
      exact ⟨by simp only [msgOp, Option.some.injEq]; omega, queuedMsgs_completeIfAlive _ _ _⟩
    | some m' =>
      unfold Mgr.insertPendingSubscription at h
      split at h
      · simp at h; subst h
        refine ⟨?_, rfl⟩
        simp only [coreCount, reqCount, kindOp, compCount, msgOp, Option.some.injEq, reduceCtorEq, if_false]
        omega
      · simp at h
  | subscriptionClosed s =>
    simp only
    cases h1 : st.mgr.getRequestIdBySubscriptionId s with
    | none => exact ⟨by simp [compCount], rfl⟩
    | some rid =>
      simp only
      cases h2 : st.mgr.asSubscription rid with
      | none => exact ⟨by simp [compCount], rfl⟩
      | some c =>
        cases hb : buildUnsubscribeMessage st rid s with
        | none => exact ⟨by simp [compCount], rfl⟩
        | some x =>
          obtain ⟨st', msg⟩ := x
          obtain ⟨h3, _⟩ := buildUnsub_count k _ _ _ _ _ hb
          obtain ⟨_, _, _, _, _, _, _, _, _, hmsg⟩ := buildUnsub_spec _ _ _ _ _ hb
          subst hmsg
          exact ⟨by simp only [compCount, coreCount, modChan_mgr] at h3 ⊢; omega, rfl⟩
  | registerNotif meth t =>
    simp only
    cases h : st.mgr.insertNotificationHandler meth st.chans.length with
    | some m' =>
      unfold Mgr.insertNotificationHandler at h
      split at h
      · simp at h
      · simp at h; subst h
        simp only
        by_cases hal : st.alive t = true
        · simp only [hal, if_true]
          exact ⟨by simp only [coreCount, compCount, msgOp, Core.newChan, Option.some.injEq]; omega, rfl⟩
        · simp only [hal]
          exact ⟨by simp only [coreCount, compCount, msgOp, Core.newChan, Core.modChan, Option.some.injEq, Bool.false_eq_true, if_false]; omega, rfl⟩
    | none =>
      have := compCount_completeIfAlive k st t .alreadyRegistered
      exact ⟨by simp only [msgOp, Option.some.injEq]; omega, queuedMsgs_completeIfAlive _ _ _⟩
  | unregisterNotif meth =>
    simp only
    cases h : (st.mgr.removeNotificationHandler meth).2 with
    | some c => exact ⟨by simp [compCount, coreCount, Core.modChan, Mgr.removeNotificationHandler], rfl⟩
    | none => exact ⟨by simp [compCount], rfl⟩

/-! ### the step machine: ticket accounting -/

def liveCount (k : Nat) (st : St) : Nat := poolCount k st.pool + coreCount k st.core

theorem poolCount_removeAt (k : Nat) (l : List FrontMsg) (i : Nat) (m : FrontMsg) (h : l[i]? = some m) :
    poolCount k (removeAt l i) + (if msgOp m = some k then 1 else 0) = poolCount k l := by
  induction l generalizing i with
  | nil => simp at h
  | cons x xs ih =>
    cases i with
    | zero => simp at h; subst h; simp [removeAt, poolCount]; omega
    | succ i =>
      simp at h
      simp only [removeAt, poolCount]
      have := ih i h
      omega

theorem poolCount_closeMsg (k : Nat) (o : Owner) : (if msgOp (closeMsg o) = some k then 1 else 0) = 0 := by
  cases o <;> simp [closeMsg, msgOp]

theorem poolCount_singleton (k : Nat) (m : FrontMsg) : poolCount k [m] = if msgOp m = some k then 1 else 0 := by
  simp [poolCount]

/-- one step: whatever is completed was live before and is no longer; only `new*` steps create a
live ticket, numbered `nextOp` -/
theorem step_count (k : Nat) (st : St) (s : Step) :
    compCount k (step st s).effs + liveCount k (step st s).st ≤
      liveCount k st + (if k = st.nextOp ∧ (step st s).st.nextOp = st.nextOp + 1 then 1 else 0) ∧
    st.nextOp ≤ (step st s).st.nextOp ∧ (step st s).st.nextOp ≤ st.nextOp + 1 := by
  cases s with
  | newCall meth params =>
    simp only [step, compCount, liveCount, poolCount_append, poolCount_singleton, msgOp, Option.some.injEq]
    refine ⟨?_, by omega, by omega⟩
    by_cases h : st.nextOp = k
    · simp [h] <;> omega
    · have : ¬ k = st.nextOp := fun e => h e.symm
      simp [h, this] <;> omega
  | newSubscribe sm um =>
    simp only [step, compCount, liveCount, poolCount_append, poolCount_singleton, msgOp, Option.some.injEq]
    refine ⟨?_, by omega, by omega⟩
    by_cases h : st.nextOp = k
    · simp [h] <;> omega
    · have : ¬ k = st.nextOp := fun e => h e.symm
      simp [h, this] <;> omega
  | newBatch meth n =>
    simp only [step, compCount, liveCount, poolCount_append, poolCount_singleton, msgOp, Option.some.injEq]
    refine ⟨?_, by omega, by omega⟩
    by_cases h : st.nextOp = k
    · simp [h] <;> omega
    · have : ¬ k = st.nextOp := fun e => h e.symm
      simp [h, this] <;> omega
  | newRegister meth =>
    simp only [step, compCount, liveCount, poolCount_append, poolCount_singleton, msgOp, Option.some.injEq]
    refine ⟨?_, by omega, by omega⟩
    by_cases h : st.nextOp = k
    · simp [h] <;> omega
    · have : ¬ k = st.nextOp := fun e => h e.symm
      simp [h, this] <;> omega
  | newNotification raw =>
    simp only [step, compCount, liveCount, poolCount_append, poolCount_singleton, msgOp]
    exact ⟨by simp, by omega, by omega⟩
  | abandon op =>
    simp only [step, compCount, liveCount, coreCount]
    exact ⟨by omega, by omega, by omega⟩
  | sendTask i =>
    cases h : st.pool[i]? with
    | none =>
      have e : step st (.sendTask i) = { st := st } := by simp only [step, h]
      rw [e]; simp only [compCount]; exact ⟨by omega, by omega, by omega⟩
    | some msg =>
      have e : step st (.sendTask i) =
          { st := { st with core := (handleFront st.core msg).1, pool := removeAt st.pool i },
            effs := (handleFront st.core msg).2 } := by simp only [step, h]
      rw [e]
      simp only [liveCount]
      have h1 := poolCount_removeAt k st.pool i msg h
      have h2 := (handleFront_count k st.core msg).1
      exact ⟨by omega, by omega, by omega⟩
  | recv raw =>
    simp only [step, liveCount, poolCount_append]
    obtain ⟨h1, h2⟩ := handleBack_count k st.core raw
    have h3 := poolCount_of_noTicket k _ h2
    exact ⟨by omega, by omega, by omega⟩
  | next c =>
    have hn : (step st (.next c)).effs = [] ∧ liveCount k (step st (.next c)).st = liveCount k st ∧
        (step st (.next c)).st.nextOp = st.nextOp := by
      simp only [step]
      split
      · exact ⟨rfl, rfl, rfl⟩
      · split
        · exact ⟨rfl, rfl, rfl⟩
        · split
          · exact ⟨rfl, rfl, rfl⟩
          · split <;> exact ⟨rfl, rfl, rfl⟩
    obtain ⟨a, b, c'⟩ := hn
    rw [a, b, c']; simp only [compCount]; exact ⟨by omega, by omega, by omega⟩
  | dropStream c room =>
    have hn : (step st (.dropStream c room)).effs = [] ∧ liveCount k (step st (.dropStream c room)).st = liveCount k st ∧
        (step st (.dropStream c room)).st.nextOp = st.nextOp := by
      simp only [step]
      split
      · exact ⟨rfl, rfl, rfl⟩
      · rename_i ch h
        split
        · exact ⟨rfl, rfl, rfl⟩
        · refine ⟨rfl, ?_, rfl⟩
          simp only [liveCount, coreCount, modChan_mgr]
          split
          · have := poolCount_closeMsg k ch.owner
            simp only [poolCount_append, poolCount_singleton]; omega
          · rfl
    obtain ⟨a, b, c'⟩ := hn
    rw [a, b, c']; simp only [compCount]; exact ⟨by omega, by omega, by omega⟩
  | unsubscribeStream c =>
    have hn : (step st (.unsubscribeStream c)).effs = [] ∧ liveCount k (step st (.unsubscribeStream c)).st = liveCount k st ∧
        (step st (.unsubscribeStream c)).st.nextOp = st.nextOp := by
      simp only [step]
      split
      · exact ⟨rfl, rfl, rfl⟩
      · rename_i ch h
        split
        · exact ⟨rfl, rfl, rfl⟩
        · refine ⟨rfl, ?_, rfl⟩
          have := poolCount_closeMsg k ch.owner
          simp only [liveCount, coreCount, modChan_mgr, poolCount_append, poolCount_singleton]; omega
    obtain ⟨a, b, c'⟩ := hn
    rw [a, b, c']; simp only [compCount]; exact ⟨by omega, by omega, by omega⟩

theorem run_nil (st : St) : run st [] = (st, []) := rfl
theorem run_cons (st : St) (s : Step) (rest : List Step) :
    run st (s :: rest) = ((run (step st s).st rest).1, (step st s).effs ++ (run (step st s).st rest).2) := rfl

theorem run_count (k : Nat) (steps : List Step) : ∀ st : St,
    compCount k (run st steps).2 + liveCount k (run st steps).1 ≤
      liveCount k st + (if st.nextOp ≤ k ∧ k < (run st steps).1.nextOp then 1 else 0) ∧
    st.nextOp ≤ (run st steps).1.nextOp := by
  induction steps with
  | nil => intro st; simp [run_nil, compCount]
  | cons s rest ih =>
    intro st
    rw [run_cons]
    obtain ⟨h1, h2, h3⟩ := step_count k st s
    obtain ⟨h4, h5⟩ := ih (step st s).st
    simp only [compCount_append]
    refine ⟨?_, by omega⟩
    split at h1 <;> split at h4 <;> split <;> omega

/-! ### generic reachability -/

/-- states reachable from a fresh client by any sequence of atomic steps -/
def Reachable (st : St) : Prop := ∃ cap strIds steps, (run (St.init cap strIds) steps).1 = st

theorem run_inv (P : St → Prop) (hs : ∀ st s, P st → P (step st s).st) (steps : List Step) :
    ∀ st, P st → P (run st steps).1 := by
  induction steps with
  | nil => intro st h; exact h
  | cons s rest ih => intro st h; rw [run_cons]; exact ih _ (hs st s h)

theorem reachable_inv (P : St → Prop) (h0 : ∀ cap s, P (St.init cap s)) (hs : ∀ st s, P st → P (step st s).st) :
    ∀ st, Reachable st → P st := by
  intro st ⟨cap, sI, steps, h⟩
  rw [← h]
  exact run_inv P hs steps _ (h0 cap sI)

theorem run_snoc (steps : List Step) (s : Step) : ∀ st0 : St,
    (run st0 (steps ++ [s])).1 = (step (run st0 steps).1 s).st := by
  induction steps with
  | nil => intro st0; simp [run_cons, run_nil]
  | cons x xs ih => intro st0; simp only [List.cons_append, run_cons]; exact ih _

theorem reachable_step (st : St) (s : Step) (h : Reachable st) : Reachable (step st s).st := by
  obtain ⟨cap, sI, steps, h⟩ := h
  exact ⟨cap, sI, steps ++ [s], by rw [run_snoc, h]⟩

theorem reachable_init (cap : Nat) (sI : Bool) : Reachable (St.init cap sI) := ⟨cap, sI, [], rfl⟩

/-! ### lifting a relation on `Core` through the back handler -/

section Lift
variable (R : Core → Core → Prop)

theorem arrayLoop_rel (hrefl : ∀ c, R c c) (htrans : ∀ a b c, R a b → R b c → R a c)
    (h1 : ∀ c s p, R c (processSubscriptionResponse c s p).1)
    (h2 : ∀ c s, R c (processSubscriptionClose c s))
    (h3 : ∀ c m p, R c (processNotification c m p).1) (es : List Text) :
    ∀ (acc acc' : ArrAcc) (f : Option Fatal), arrayLoop acc es = (acc', f) → R acc.st acc'.st := by
  induction es with
  | nil => intro acc acc' f h; simp [arrayLoop] at h; rw [← h.1]; exact hrefl _
  | cons e rest ih =>
    intro acc acc' f h
    rw [arrayLoop] at h
    cases hc : classifyIncoming e with
    | response r =>
      simp only [hc] at h
      cases hid : idNum r.id with
      | none => simp [hid] at h; rw [← h.1]; exact hrefl _
      | some id => simp only [hid] at h; have := ih _ _ _ h; exact this
    | garbage => simp [hc] at h; rw [← h.1]; exact hrefl _
    | subNotif s p => simp only [hc] at h; exact htrans _ _ _ (h1 acc.st s p) (ih _ _ _ h)
    | subClose s => simp only [hc] at h; exact htrans _ _ _ (h2 acc.st s) (ih _ _ _ h)
    | notif m p => simp only [hc] at h; exact htrans _ _ _ (h3 acc.st m p) (ih _ _ _ h)

theorem handleBack_rel (hrefl : ∀ c, R c c) (htrans : ∀ a b c, R a b → R b c → R a c)
    (h1 : ∀ c s p, R c (processSubscriptionResponse c s p).1)
    (h2 : ∀ c s, R c (processSubscriptionClose c s))
    (h3 : ∀ c m p, R c (processNotification c m p).1)
    (h5 : ∀ c rps lo hi, R c (processBatchResponse c rps lo hi).1)
    (st : Core) (raw : Text)
    (h4 : ∀ r c' effs, classifyIncoming raw = .response r → processSingleResponse st r = .ok (c', effs) → R st c') :
    R st (handleBack st raw).st := by
  unfold handleBack
  cases hf : firstNonWs raw with
  | none => exact hrefl _
  | some c =>
    simp only
    cases c1 : (c == 123) with
    | true =>
      simp only [if_true]
      unfold handleSingle
      cases hc : classifyIncoming raw with
      | response r =>
        simp only
        cases hp : processSingleResponse st r with
        | error f => exact hrefl _
        | ok x => obtain ⟨st', effs⟩ := x; exact h4 r st' effs hc hp
      | garbage => exact hrefl _
      | subNotif s p => exact h1 st s p
      | subClose s => exact h2 st s
      | notif m p => exact h3 st m p
    | false =>
      simp only [Bool.false_eq_true, if_false]
      cases c2 : (c == 91) with
      | false => simp only [Bool.false_eq_true, if_false]; exact hrefl _
      | true =>
        simp only [if_true]
        cases he : elements raw with
        | none => exact hrefl _
        | some es =>
          simp only
          unfold handleArray
          cases hl : arrayLoop { st := st } es with
          | mk acc f =>
            have hr := arrayLoop_rel R hrefl htrans h1 h2 h3 es _ _ _ hl
            simp only at hr
            cases f with
            | some f => exact hr
            | none =>
              simp only
              unfold arrayFinish
              cases hrg : acc.range with
              | none => simp only; split <;> exact hr
              | some p =>
                obtain ⟨lo, hi⟩ := p
                simp only
                cases hre : rangeEnd hi with
                | err e => exact hr
                | ok hi1 =>
                  simp only
                  split <;> exact htrans _ _ _ hr (h5 acc.st acc.batch lo hi1)

end Lift

/-! ### every waiting ticket sits under the id it wrote on the wire -/

def ReqOK (p : Id × Kind) : Prop :=
  match p.2 with
  | .pendingCall (some t) => t.wire = p.1
  | .pendingSub _ t _ => t.wire = p.1
  | _ => True

def MsgOK : FrontMsg → Prop
  | .request id (some t) _ => t.wire = id
  | .subscribe sid _ t _ _ => t.wire = sid
  | _ => True

def ReqsOK (c : Core) : Prop := ∀ p ∈ c.mgr.requests, ReqOK p

/-- every entry of `c'` is an entry of `c` or carries no ticket -/
def Shrinks (c c' : Core) : Prop := ∀ p ∈ c'.mgr.requests, p ∈ c.mgr.requests ∨ kindOp p.2 = none

theorem reqOK_of_noTicket (p : Id × Kind) (h : kindOp p.2 = none) : ReqOK p := by
  obtain ⟨k, kd⟩ := p
  unfold ReqOK
  cases kd with
  | pendingCall t => cases t <;> simp_all [kindOp]
  | pendingSub _ _ _ => simp [kindOp] at h
  | sub _ _ _ => trivial
  | pendingUnsub _ => trivial

theorem reqsOK_of_shrinks {c c' : Core} (h : Shrinks c c') (hc : ReqsOK c) : ReqsOK c' := by
  intro p hp
  rcases h p hp with h1 | h1
  · exact hc p h1
  · exact reqOK_of_noTicket p h1

theorem shrinks_refl (c : Core) : Shrinks c c := fun _ hp => Or.inl hp

theorem shrinks_trans (a b c : Core) (h1 : Shrinks a b) (h2 : Shrinks b c) : Shrinks a c := by
  intro p hp
  rcases h2 p hp with h | h
  · exact h1 p h
  · exact Or.inr h

theorem shrinks_of_requests_eq {c c' : Core} (h : c'.mgr.requests = c.mgr.requests) : Shrinks c c' := by
  intro p hp; rw [h] at hp; exact Or.inl hp

theorem buildUnsub_shrinks (st : Core) (rid : Id) (s : SubId) (st' : Core) (msg : FrontMsg)
    (h : buildUnsubscribeMessage st rid s = some (st', msg)) : Shrinks st st' := by
  obtain ⟨uid, c, um, _, _, hm, _⟩ := buildUnsub_spec st rid s st' msg h
  intro p hp
  rw [hm] at hp
  rcases unsubMgr_mem _ _ _ _ _ p hp with h1 | h1 | h1
  · exact Or.inl h1
  · rw [h1]; exact Or.inr rfl
  · rw [h1]; exact Or.inr rfl

theorem shrinks_release (st : Core) (uid : Id) : Shrinks st { st with mgr := st.mgr.releaseReservedSlot uid } :=
  fun p hp => Or.inl (mem_releaseReservedSlot _ uid p hp)

theorem processSubscriptionClose_shrinks (st : Core) (s : SubId) : Shrinks st (processSubscriptionClose st s) := by
  unfold processSubscriptionClose
  cases h1 : st.mgr.getRequestIdBySubscriptionId s with
  | none => exact shrinks_refl _
  | some rid =>
    simp only
    cases h2 : st.mgr.removeSubscription rid s with
    | none => exact shrinks_refl _
    | some x =>
      obtain ⟨m', uid, c, um⟩ := x
      obtain ⟨_, _, e⟩ := removeSubscription_spec _ _ _ _ _ _ _ h2
      have e' : m' = removedMgr st.mgr rid uid s := e
      intro p hp
      simp only [modChan_mgr, e'] at hp
      exact Or.inl (removedMgr_mem _ _ _ _ p hp)

theorem processNotification_requests (st : Core) (m : Text) (p : Option Text) :
    (processNotification st m p).1.mgr.requests = st.mgr.requests ∧
    (processNotification st m p).1.mgr.subs = st.mgr.subs := by
  unfold processNotification
  split
  · exact ⟨rfl, rfl⟩
  · split
    · exact ⟨rfl, rfl⟩
    · split <;> simp [Core.modChan, Mgr.removeNotificationHandler]

theorem completeSubscribe_shrinks (st : Core) (r : Response) (uid : Id) (t : Ticket) (um : Text) :
    Shrinks st (completeSubscribe st r uid t um).1 := by
  unfold completeSubscribe
  cases hp : r.payload with
  | error e => exact shrinks_release st uid
  | result raw =>
    simp only
    cases hd : decodeSubId raw with
    | none => exact shrinks_release st uid
    | some s =>
      simp only
      cases hins : st.mgr.insertSubscription r.id uid s st.chans.length um with
      | none => exact shrinks_release st uid
      | some m' =>
        obtain ⟨_, _, e⟩ := insertSubscription_spec _ _ _ _ _ _ _ hins
        have h0 : Shrinks st ({ st with mgr := m' }.newChan (.sub s) t.op uid r.id).1 := by
          intro p hp
          simp only [newChan_mgr, e] at hp
          rcases List.mem_cons.1 hp with h | h
          · rw [h]; exact Or.inr rfl
          · exact Or.inl h
        simp only
        by_cases hal : st.alive t = true
        · simp only [hal, if_true]; exact h0
        · simp only [hal]
          unfold abandonedSubscribe
          exact fun p hp => h0 p hp

theorem processSingleResponse_shrinks (st st' : Core) (r : Response) (effs : List Effect)
    (h : processSingleResponse st r = .ok (st', effs)) : Shrinks st st' := by
  unfold processSingleResponse at h
  cases hs : st.mgr.requestStatus r.id with
  | pendingCall =>
    simp only [hs] at h
    cases hc : st.mgr.completePendingCall r.id with
    | none => simp [hc] at h
    | some x =>
      obtain ⟨m', t⟩ := x
      obtain ⟨_, _, _, hmem, _⟩ := completePendingCall_frame _ _ _ _ hc
      have hst : st'.mgr = m' := by
        cases t <;> simp [hc] at h <;> rw [← h.1] <;> first | rfl | exact ackAt_mgr _ _
      intro p hp
      rw [hst] at hp
      exact Or.inl (hmem p hp).1
  | pendingSub =>
    simp only [hs] at h
    cases hc : st.mgr.completePendingSubscription r.id with
    | none => simp [hc] at h
    | some x =>
      obtain ⟨m', uid, t, um⟩ := x
      obtain ⟨hl, e⟩ := completePendingSubscription_spec _ _ _ _ _ _ hc
      simp [hc] at h
      have h2 := completeSubscribe_shrinks { st with mgr := m' } r uid t um
      rw [h] at h2
      subst e
      refine shrinks_trans st _ _ ?_ h2
      intro p hp
      exact Or.inl (mem_aerase p r.id _ hp).1
  | sub => simp [hs] at h
  | invalid => simp [hs] at h

theorem processBatchResponse_requests (st : Core) (rps : List Response) (lo hi : Nat) :
    (processBatchResponse st rps lo hi).1.mgr.requests = st.mgr.requests ∧
    (processBatchResponse st rps lo hi).1.mgr.subs = st.mgr.subs ∧
    (processBatchResponse st rps lo hi).1.mgr.handlers = st.mgr.handlers ∧
    (processBatchResponse st rps lo hi).1.chans = st.chans := by
  unfold processBatchResponse
  cases hc : st.mgr.completePendingBatch (lo, hi) with
  | none => exact ⟨rfl, rfl, rfl, rfl⟩
  | some x =>
    obtain ⟨m', t⟩ := x
    obtain ⟨_, e⟩ := completePendingBatch_spec _ _ _ _ hc
    subst e
    simp only
    split <;> exact ⟨rfl, rfl, rfl, rfl⟩

theorem handleBack_shrinks (st : Core) (raw : Text) : Shrinks st (handleBack st raw).st := by
  apply handleBack_rel Shrinks shrinks_refl shrinks_trans
  · intro c s p; exact shrinks_of_requests_eq (by rw [(processSubscriptionResponse_frame c s p).1])
  · exact processSubscriptionClose_shrinks
  · intro c m p; exact shrinks_of_requests_eq (processNotification_requests c m p).1
  · intro c rps lo hi; exact shrinks_of_requests_eq (processBatchResponse_requests c rps lo hi).1
  · intro r c' effs _ h; exact processSingleResponse_shrinks st c' r effs h

theorem handleFront_reqsOK (st : Core) (msg : FrontMsg) (h : ReqsOK st) (hm : MsgOK msg) : ReqsOK (handleFront st msg).1 := by
  unfold handleFront
  cases msg with
  | batch lo hi t raw =>
    simp only
    cases h1 : st.mgr.insertPendingBatch (lo, hi) t with
    | none => exact h
    | some m' =>
      unfold Mgr.insertPendingBatch at h1
      split at h1
      · simp at h1
      · simp at h1; subst h1; exact h
  | notification raw => exact h
  | request id t raw =>
    simp only
    cases h1 : st.mgr.insertPendingCall id t with
    | none => cases t <;> exact h
    | some m' =>
      unfold Mgr.insertPendingCall at h1
      split at h1
      · simp at h1
      · simp at h1; subst h1
        intro p hp
        rcases List.mem_cons.1 hp with e | e
        · subst e
          cases t with
          | none => trivial
          | some tk => exact hm
        · exact h p e
  | subscribe sid uid t um raw =>
    simp only
    cases h1 : st.mgr.insertPendingSubscription sid uid t um with
    | none => exact h
    | some m' =>
      unfold Mgr.insertPendingSubscription at h1
      split at h1
      · simp at h1; subst h1
        intro p hp
        rcases List.mem_cons.1 hp with e | e
        · subst e; trivial
        · rcases List.mem_cons.1 e with e | e
          · subst e; exact hm
          · exact h p e
      · simp at h1
  | subscriptionClosed s =>
    simp only
    cases h1 : st.mgr.getRequestIdBySubscriptionId s with
    | none => exact h
    | some rid =>
      simp only
      cases h2 : st.mgr.asSubscription rid with
      | none => exact h
      | some c =>
        cases hb : buildUnsubscribeMessage st rid s with
        | none => exact h
        | some x =>
          obtain ⟨st', msg⟩ := x
          obtain ⟨_, _, _, _, _, _, _, _, _, hmsg⟩ := buildUnsub_spec _ _ _ _ _ hb
          subst hmsg
          have := reqsOK_of_shrinks (buildUnsub_shrinks _ _ _ _ _ hb) h
          exact this
  | registerNotif meth t =>
    simp only
    cases h1 : st.mgr.insertNotificationHandler meth st.chans.length with
    | some m' =>
      unfold Mgr.insertNotificationHandler at h1
      split at h1
      · simp at h1
      · simp at h1; subst h1
        simp only
        split <;> exact h
    | none => exact h
  | unregisterNotif meth =>
    simp only
    cases h1 : (st.mgr.removeNotificationHandler meth).2 with
    | some c => exact h
    | none => exact h

theorem msgOK_of_noTicket (m : FrontMsg) (h : msgOp m = none) : MsgOK m := by
  cases m with
  | request id t raw => cases t <;> simp_all [msgOp, MsgOK]
  | subscribe _ _ _ _ _ => simp [msgOp] at h
  | _ => trivial

/-- the invariant of C03.1 -/
def WF (st : St) : Prop := ReqsOK st.core ∧ ∀ m ∈ st.pool, MsgOK m

theorem wf_init (cap : Nat) (sI : Bool) : WF (St.init cap sI) := by
  constructor
  · intro p hp; simp [St.init] at hp
  · intro m hm; simp [St.init] at hm

theorem mem_removeAt {α} (l : List α) (i : Nat) (a : α) (h : a ∈ removeAt l i) : a ∈ l := by
  induction l generalizing i with
  | nil => simp [removeAt] at h
  | cons x xs ih =>
    cases i with
    | zero => simp [removeAt] at h; exact List.mem_cons_of_mem _ h
    | succ i =>
      simp [removeAt] at h
      rcases h with h | h
      · subst h; exact List.mem_cons_self
      · exact List.mem_cons_of_mem _ (ih i h)

theorem wf_step (st : St) (s : Step) (h : WF st) : WF (step st s).st := by
  obtain ⟨h1, h2⟩ := h
  cases s with
  | newCall meth params =>
    refine ⟨h1, ?_⟩
    intro m hm
    simp only [step, List.mem_append, List.mem_singleton] at hm
    rcases hm with hm | hm
    · exact h2 m hm
    · subst hm; rfl
  | newSubscribe sm um =>
    refine ⟨h1, ?_⟩
    intro m hm
    simp only [step, List.mem_append, List.mem_singleton] at hm
    rcases hm with hm | hm
    · exact h2 m hm
    · subst hm; rfl
  | newBatch meth n =>
    refine ⟨h1, ?_⟩
    intro m hm
    simp only [step, List.mem_append, List.mem_singleton] at hm
    rcases hm with hm | hm
    · exact h2 m hm
    · subst hm; trivial
  | newRegister meth =>
    refine ⟨h1, ?_⟩
    intro m hm
    simp only [step, List.mem_append, List.mem_singleton] at hm
    rcases hm with hm | hm
    · exact h2 m hm
    · subst hm; trivial
  | newNotification raw =>
    refine ⟨h1, ?_⟩
    intro m hm
    simp only [step, List.mem_append, List.mem_singleton] at hm
    rcases hm with hm | hm
    · exact h2 m hm
    · subst hm; trivial
  | abandon op => exact ⟨h1, h2⟩
  | sendTask i =>
    cases h : st.pool[i]? with
    | none =>
      have e : step st (.sendTask i) = { st := st } := by simp only [step, h]
      rw [e]; exact ⟨h1, h2⟩
    | some msg =>
      have e : step st (.sendTask i) =
          { st := { st with core := (handleFront st.core msg).1, pool := removeAt st.pool i },
            effs := (handleFront st.core msg).2 } := by simp only [step, h]
      rw [e]
      have hmem : msg ∈ st.pool := List.mem_of_getElem? h
      exact ⟨handleFront_reqsOK st.core msg h1 (h2 msg hmem), fun m hm => h2 m (mem_removeAt _ _ _ hm)⟩
  | recv raw =>
    refine ⟨reqsOK_of_shrinks (handleBack_shrinks st.core raw) h1, ?_⟩
    intro m hm
    simp only [step, List.mem_append] at hm
    rcases hm with hm | hm
    · exact h2 m hm
    · exact msgOK_of_noTicket m ((handleBack_count 0 st.core raw).2 m hm)
  | next c =>
    have : (step st (.next c)).st.core.mgr = st.core.mgr ∧ (step st (.next c)).st.pool = st.pool := by
      simp only [step]
      split
      · exact ⟨rfl, rfl⟩
      · split
        · exact ⟨rfl, rfl⟩
        · split
          · exact ⟨rfl, rfl⟩
          · split <;> exact ⟨rfl, rfl⟩
    exact ⟨by unfold ReqsOK; rw [this.1]; exact h1, by rw [this.2]; exact h2⟩
  | dropStream c room =>
    have : (step st (.dropStream c room)).st.core.mgr = st.core.mgr ∧
        ∀ m ∈ (step st (.dropStream c room)).st.pool, m ∈ st.pool ∨ ∃ o, m = closeMsg o := by
      simp only [step]
      split
      · exact ⟨rfl, fun m hm => Or.inl hm⟩
      · rename_i ch _
        split
        · exact ⟨rfl, fun m hm => Or.inl hm⟩
        · refine ⟨rfl, fun m hm => ?_⟩
          simp only at hm
          split at hm
          · simp only [List.mem_append, List.mem_singleton] at hm
            rcases hm with hm | hm
            · exact Or.inl hm
            · exact Or.inr ⟨_, hm⟩
          · exact Or.inl hm
    refine ⟨by unfold ReqsOK; rw [this.1]; exact h1, fun m hm => ?_⟩
    rcases this.2 m hm with h | ⟨o, h⟩
    · exact h2 m h
    · subst h; cases o <;> trivial
  | unsubscribeStream c =>
    have : (step st (.unsubscribeStream c)).st.core.mgr = st.core.mgr ∧
        ∀ m ∈ (step st (.unsubscribeStream c)).st.pool, m ∈ st.pool ∨ ∃ o, m = closeMsg o := by
      simp only [step]
      split
      · exact ⟨rfl, fun m hm => Or.inl hm⟩
      · rename_i ch _
        split
        · exact ⟨rfl, fun m hm => Or.inl hm⟩
        · refine ⟨rfl, fun m hm => ?_⟩
          simp only [List.mem_append, List.mem_singleton] at hm
          rcases hm with hm | hm
          · exact Or.inl hm
          · exact Or.inr ⟨_, hm⟩
    refine ⟨by unfold ReqsOK; rw [this.1]; exact h1, fun m hm => ?_⟩
    rcases this.2 m hm with h | ⟨o, h⟩
    · exact h2 m h
    · subst h; cases o <;> trivial

theorem wf_reachable (st : St) (h : Reachable st) : WF st :=
  reachable_inv WF wf_init wf_step st h

/-! ### what a completion says about the message that caused it -/

theorem classify_response (raw : Text) (r : Response) :
    classifyIncoming raw = .response r ↔ decodeResponse raw = some r := by
  unfold classifyIncoming
  cases h : decodeResponse raw with
  | some r' => simp
  | none =>
    simp only
    cases decodeSubMsg kResult raw with
    | some x => simp
    | none =>
      simp only
      cases decodeSubMsg kError raw with
      | some x => simp
      | none =>
        simp only
        cases decodeNotif raw <;> simp

/-- the outcome a subscribe future gets from the answer `r` -/
def SubOutcome (r : Response) (o : Outcome) : Prop :=
  (∃ e, r.payload = .error e ∧ o = .callErr e) ∨
  (∃ raw, r.payload = .result raw ∧
    ((decodeSubId raw = none ∧ o = .badSubId) ∨
     (∃ s, decodeSubId raw = some s ∧ (o = .invalidSubId ∨ ∃ c, o = .subscribed c s))))

theorem mem_completeIfAlive (st : Core) (t t' : Ticket) (o o' : Outcome)
    (h : (t', o') ∈ completions (st.completeIfAlive t o)) : t' = t ∧ o' = o ∧ st.alive t = true := by
  unfold Core.completeIfAlive at h
  split at h
  · rename_i ha; simp [completions] at h; exact ⟨h.1, h.2, ha⟩
  · simp [completions] at h

theorem abandonedSubscribe_completions (st : Core) (c : ChanId) (s : SubId) (t : Ticket) :
    completions (abandonedSubscribe st c s t).2 = [] := by
  unfold abandonedSubscribe
  simp [completions]

theorem completeSubscribe_completions (st : Core) (r : Response) (uid : Id) (t t' : Ticket) (um : Text) (o : Outcome)
    (h : (t', o) ∈ completions (completeSubscribe st r uid t um).2) : t' = t ∧ SubOutcome r o := by
  unfold completeSubscribe at h
  cases hp : r.payload with
  | error e =>
    simp only [hp] at h
    obtain ⟨a, b, _⟩ := mem_completeIfAlive _ _ _ _ _ h
    exact ⟨a, Or.inl ⟨e, hp, b⟩⟩
  | result raw =>
    simp only [hp] at h
    cases hd : decodeSubId raw with
    | none =>
      simp only [hd] at h
      obtain ⟨a, b, _⟩ := mem_completeIfAlive _ _ _ _ _ h
      exact ⟨a, Or.inr ⟨raw, hp, Or.inl ⟨hd, b⟩⟩⟩
    | some s =>
      simp only [hd] at h
      cases hins : st.mgr.insertSubscription r.id uid s st.chans.length um with
      | none =>
        simp only [hins] at h
        obtain ⟨a, b, _⟩ := mem_completeIfAlive _ _ _ _ _ h
        exact ⟨a, Or.inr ⟨raw, hp, Or.inr ⟨s, hd, Or.inl b⟩⟩⟩
      | some m' =>
        simp only [hins] at h
        by_cases hal : st.alive t = true
        · simp only [hal, if_true, completions, List.mem_singleton, Prod.mk.injEq] at h
          exact ⟨h.1, Or.inr ⟨raw, hp, Or.inr ⟨s, hd, Or.inr ⟨_, h.2⟩⟩⟩⟩
        · simp only [hal] at h
          rw [if_neg (by simp)] at h
          rw [abandonedSubscribe_completions] at h
          simp at h

theorem processSingleResponse_completions (st st' : Core) (r : Response) (effs : List Effect) (t : Ticket) (o : Outcome)
    (h : processSingleResponse st r = .ok (st', effs)) (hm : (t, o) ∈ completions effs) :
    (alookup r.id st.mgr.requests = some (.pendingCall (some t)) ∧ o = .response r ∧ st.alive t = true) ∨
    (∃ uid um, alookup r.id st.mgr.requests = some (.pendingSub uid t um) ∧ SubOutcome r o) := by
  unfold processSingleResponse at h
  cases hs : st.mgr.requestStatus r.id with
  | pendingCall =>
    simp only [hs] at h
    cases hc : st.mgr.completePendingCall r.id with
    | none => simp [hc] at h
    | some x =>
      obtain ⟨m', t0⟩ := x
      cases t0 with
      | none =>
        simp [hc] at h
        rw [h.2] at hm; simp [completions] at hm
      | some t0 =>
        have hl : alookup r.id st.mgr.requests = some (.pendingCall (some t0)) := by
          rcases completePendingCall_spec _ _ _ _ hc with ⟨hl, _⟩ | ⟨_, _, _, e, _⟩
          · exact hl
          · simp at e
        simp [hc] at h
        rw [← h.2] at hm
        obtain ⟨a, b, c⟩ := mem_completeIfAlive _ _ _ _ _ hm
        subst a
        exact Or.inl ⟨hl, b, c⟩
  | pendingSub =>
    simp only [hs] at h
    cases hc : st.mgr.completePendingSubscription r.id with
    | none => simp [hc] at h
    | some x =>
      obtain ⟨m', uid, t0, um⟩ := x
      obtain ⟨hl, e⟩ := completePendingSubscription_spec _ _ _ _ _ _ hc
      simp [hc] at h
      have : (t, o) ∈ completions (completeSubscribe { st with mgr := m' } r uid t0 um).2 := by rw [h]; exact hm
      obtain ⟨a, b⟩ := completeSubscribe_completions _ _ _ _ _ _ _ this
      subst a
      exact Or.inr ⟨uid, um, hl, b⟩
  | sub => simp [hs] at h
  | invalid => simp [hs] at h

theorem handleArray_completions (st : Core) (es : List Text) (t : Ticket) (o : Outcome)
    (h : (t, o) ∈ completions (handleArray st es).effs) : ∃ out, o = .batch out := by
  unfold handleArray at h
  cases hl : arrayLoop { st := st } es with
  | mk acc f =>
    have h5 : completions acc.effs = [] := by rw [arrayLoop_completions es _ _ _ hl]; rfl
    cases f with
    | some f => simp only [hl, completions_dropQueued, h5] at h; simp at h
    | none =>
      simp only [hl] at h
      unfold arrayFinish at h
      cases hr : acc.range with
      | none =>
        simp only [hr] at h
        split at h
        · simp [h5] at h
        · simp [completions_dropQueued, h5] at h
      | some p =>
        obtain ⟨lo, hi⟩ := p
        simp only [hr] at h
        cases he : rangeEnd hi with
        | err e => simp [he, completions_dropQueued, h5] at h
        | ok hi1 =>
          simp only [he] at h
          unfold processBatchResponse at h
          cases hb : acc.st.mgr.completePendingBatch (lo, hi1) with
          | none => simp [hb, completions_dropQueued, h5] at h
          | some mt =>
            obtain ⟨m', t'⟩ := mt
            simp only [hb] at h
            cases hf : fillSlots lo (List.replicate (hi1 - lo) placeholder) acc.batch with
            | err e => simp [hf, completions_dropQueued, h5] at h
            | ok slots =>
              simp only [hf, completions_append, h5, List.nil_append] at h
              obtain ⟨_, b, _⟩ := mem_completeIfAlive _ _ _ _ _ h
              exact ⟨slots, b⟩

/-- every completion caused by an incoming text: a batch, or the single response whose id is the
key under which the ticket was waiting -/
theorem handleBack_completions (st : Core) (raw : Text) (t : Ticket) (o : Outcome)
    (h : Effect.complete t o ∈ (handleBack st raw).effs) :
    (∃ out, o = .batch out) ∨
    ∃ r, decodeResponse raw = some r ∧
      ((alookup r.id st.mgr.requests = some (.pendingCall (some t)) ∧ o = .response r ∧ st.alive t = true) ∨
       (∃ uid um, alookup r.id st.mgr.requests = some (.pendingSub uid t um) ∧ SubOutcome r o)) := by
  rw [mem_completions] at h
  unfold handleBack at h
  cases hf : firstNonWs raw with
  | none => simp [hf, completions] at h
  | some c =>
    simp only [hf] at h
    cases c1 : (c == 123) with
    | true =>
      simp only [c1, if_true] at h
      unfold handleSingle at h
      cases hc : classifyIncoming raw with
      | response r =>
        simp only [hc] at h
        cases hp : processSingleResponse st r with
        | error f => simp [hp, completions] at h
        | ok x =>
          obtain ⟨st', effs⟩ := x
          simp only [hp] at h
          exact Or.inr ⟨r, (classify_response raw r).1 hc, processSingleResponse_completions st st' r effs t o hp h⟩
      | garbage => simp [hc, completions] at h
      | subNotif s p => simp [hc, (processSubscriptionResponse_frame st s p).2.2] at h
      | subClose s => simp [hc, completions] at h
      | notif m p => simp [hc, (processNotification_frame st m p).2.2] at h
    | false =>
      simp only [c1, Bool.false_eq_true, if_false] at h
      cases c2 : (c == 91) with
      | false => simp [c2, completions] at h
      | true =>
        simp only [c2, if_true] at h
        cases he : elements raw with
        | none => simp [he, completions] at h
        | some es =>
          simp only [he] at h
          exact Or.inl (handleArray_completions st es t o h)

/-! ### a response for an id nobody waits on -/

theorem skipWs_firstNonWs (t : Text) : ∀ c r, skipWs t = c :: r → isJsonWs c = false → firstNonWs t = firstNonWs (c :: r) := by
  induction t with
  | nil => intro c r h; simp [skipWs] at h
  | cons x xs ih =>
    intro c r h hc
    simp only [skipWs] at h
    by_cases hx : isJsonWs x = true
    · simp only [hx, if_true] at h
      have : isAsciiWs x = true := by simp [isAsciiWs, hx]
      simp only [firstNonWs, this, if_true]
      exact ih c r h hc
    · simp only [hx] at h
      simp at h
      rw [h.1, h.2]

theorem members_firstNonWs (raw : Text) (ms : List (Text × Text)) (h : members raw = some ms) :
    firstNonWs raw = some 123 := by
  unfold members membersF at h
  cases hs : skipWs raw with
  | nil => simp [hs] at h
  | cons c r =>
    simp only [hs] at h
    by_cases hc : c = 123
    · subst hc
      rw [skipWs_firstNonWs raw 123 r hs (by decide)]
      simp [firstNonWs, isAsciiWs, isJsonWs]
    · have : (c != 123) = true := by simp [hc]
      simp [this] at h

theorem decodeResponse_firstNonWs (raw : Text) (r : Response) (h : decodeResponse raw = some r) :
    firstNonWs raw = some 123 := by
  unfold decodeResponse at h
  cases hm : members raw with
  | none => simp [hm] at h
  | some ms => exact members_firstNonWs raw ms hm

theorem handleBack_single_response (st : Core) (raw : Text) (r : Response) (h : decodeResponse raw = some r) :
    handleBack st raw =
      match processSingleResponse st r with
      | .ok (st', effs) => { st := st', effs := effs }
      | .error f => { st := st, fatal := some f } := by
  unfold handleBack
  rw [decodeResponse_firstNonWs raw r h]
  simp only [BEq.rfl, if_true]
  unfold handleSingle
  rw [(classify_response raw r).2 h]
  rfl

/-! ### frame: a waiting call is untouched by everything except its own answer -/

def HasCall (c : Core) (id : Id) (t : Ticket) : Prop := alookup id c.mgr.requests = some (.pendingCall (some t))

instance (c : Core) (id : Id) (t : Ticket) : Decidable (HasCall c id t) := by unfold HasCall; exact inferInstance

theorem hasCall_erase_sub (l : List (Id × Kind)) (id rid : Id) (t : Ticket) (uid : Id) (ch : ChanId) (um : Text)
    (h : alookup id l = some (.pendingCall (some t))) (hs : alookup rid l = some (.sub uid ch um)) :
    alookup id (aerase rid l) = some (.pendingCall (some t)) := by
  have : id ≠ rid := by intro e; subst e; rw [h] at hs; simp at hs
  rw [alookup_aerase_ne id rid l this]; exact h

theorem hasCall_replace_sub (l : List (Id × Kind)) (id rid : Id) (t : Ticket) (uid : Id) (ch : ChanId) (um : Text) (v : Kind)
    (h : alookup id l = some (.pendingCall (some t))) (hs : alookup rid l = some (.sub uid ch um)) :
    alookup id (areplace rid v l) = some (.pendingCall (some t)) := by
  have : id ≠ rid := by intro e; subst e; rw [h] at hs; simp at hs
  rw [alookup_areplace_ne id rid v l this]; exact h

theorem hasCall_insert (l : List (Id × Kind)) (id k : Id) (t : Ticket) (v : Kind)
    (h : alookup id l = some (.pendingCall (some t))) (hk : alookup k l = none) :
    alookup id ((k, v) :: l) = some (.pendingCall (some t)) := by
  have : id ≠ k := by intro e; subst e; rw [h] at hk; simp at hk
  rw [alookup_cons_ne id k v l this]; exact h

theorem hasCall_release (st : Core) (uid : Id) (id : Id) (t : Ticket) (hc : HasCall st id t) :
    HasCall { st with mgr := st.mgr.releaseReservedSlot uid } id t := by
  unfold HasCall at *
  exact (alookup_releaseReservedSlot st.mgr uid id _ (by simp)).2 hc

theorem buildUnsub_hasCall (st : Core) (rid : Id) (s : SubId) (st' : Core) (msg : FrontMsg) (id : Id) (t : Ticket)
    (h : buildUnsubscribeMessage st rid s = some (st', msg)) (hc : HasCall st id t) : HasCall st' id t := by
  obtain ⟨uid, c, um, h1, _, hm, _⟩ := buildUnsub_spec st rid s st' msg h
  unfold HasCall at *
  rw [hm]
  have hne : id ≠ rid := by intro e; subst e; rw [hc] at h1; simp at h1
  exact (unsubMgr_alookup st.mgr rid uid s c id _ (by simp) (by simp) hne).2 hc

theorem processSubscriptionClose_hasCall (st : Core) (s : SubId) (id : Id) (t : Ticket) (hc : HasCall st id t) :
    HasCall (processSubscriptionClose st s) id t := by
  unfold processSubscriptionClose
  cases h1 : st.mgr.getRequestIdBySubscriptionId s with
  | none => exact hc
  | some rid =>
    simp only
    cases h2 : st.mgr.removeSubscription rid s with
    | none => exact hc
    | some x =>
      obtain ⟨m', uid, c, um⟩ := x
      obtain ⟨h3, _, e⟩ := removeSubscription_spec _ _ _ _ _ _ _ h2
      have e' : m' = removedMgr st.mgr rid uid s := e
      unfold HasCall at *
      simp only [modChan_mgr, e']
      have hne : id ≠ rid := by intro c'; subst c'; rw [hc] at h3; simp at h3
      exact (removedMgr_alookup st.mgr rid uid s id _ (by simp) hne).2 hc

theorem completeSubscribe_hasCall (st : Core) (r : Response) (uid : Id) (t0 : Ticket) (um : Text) (id : Id) (t : Ticket)
    (hc : HasCall st id t) : HasCall (completeSubscribe st r uid t0 um).1 id t := by
  unfold completeSubscribe
  cases hp : r.payload with
  | error e => exact hasCall_release st uid id t hc
  | result raw =>
    simp only
    cases hd : decodeSubId raw with
    | none => exact hasCall_release st uid id t hc
    | some s =>
      simp only
      cases hins : st.mgr.insertSubscription r.id uid s st.chans.length um with
      | none => exact hasCall_release st uid id t hc
      | some m' =>
        obtain ⟨h1, _, e⟩ := insertSubscription_spec _ _ _ _ _ _ _ hins
        have h0 : HasCall ({ st with mgr := m' }.newChan (.sub s) t0.op uid r.id).1 id t := by
          unfold HasCall
          simp only [newChan_mgr, e]
          exact hasCall_insert _ _ _ _ _ hc h1
        simp only
        by_cases hal : st.alive t0 = true
        · simp only [hal, if_true]; exact h0
        · simp only [hal]
          unfold abandonedSubscribe
          exact h0

theorem processSingleResponse_hasCall (st st' : Core) (r : Response) (effs : List Effect) (id : Id) (t : Ticket)
    (h : processSingleResponse st r = .ok (st', effs)) (hne : r.id ≠ id) (hc : HasCall st id t) : HasCall st' id t := by
  have hne' : id ≠ r.id := fun e => hne e.symm
  unfold processSingleResponse at h
  cases hs : st.mgr.requestStatus r.id with
  | pendingCall =>
    simp only [hs] at h
    cases hcp : st.mgr.completePendingCall r.id with
    | none => simp [hcp] at h
    | some x =>
      obtain ⟨m', t0⟩ := x
      obtain ⟨_, _, _, _, _, hfr, _⟩ := completePendingCall_frame _ _ _ _ hcp
      have hst : st'.mgr = m' := by
        cases t0 <;> simp [hcp] at h <;> rw [← h.1] <;> first | rfl | exact ackAt_mgr _ _ | exact ackAt_dead _ _
      unfold HasCall at *
      rw [hst]
      exact (hfr id _ (by simp) hne').2 hc
  | pendingSub =>
    simp only [hs] at h
    cases hcp : st.mgr.completePendingSubscription r.id with
    | none => simp [hcp] at h
    | some x =>
      obtain ⟨m', uid, t0, um⟩ := x
      obtain ⟨hl, e⟩ := completePendingSubscription_spec _ _ _ _ _ _ hcp
      simp [hcp] at h
      have h2 := completeSubscribe_hasCall { st with mgr := m' } r uid t0 um id t (by
        subst e; unfold HasCall; simp only; rw [alookup_aerase_ne id r.id _ hne']; exact hc)
      rw [h] at h2
      exact h2
  | sub => simp [hs] at h
  | invalid => simp [hs] at h

/-- the back handler leaves a waiting call alone unless the text is the single response with its id -/
theorem handleBack_hasCall (st : Core) (raw : Text) (id : Id) (t : Ticket)
    (hna : ∀ r, decodeResponse raw = some r → r.id ≠ id) (hc : HasCall st id t) :
    HasCall (handleBack st raw).st id t := by
  have := handleBack_rel (fun a b => HasCall a id t → HasCall b id t) (fun _ h => h) (fun _ _ _ h1 h2 h => h2 (h1 h))
    (fun c s p h => by unfold HasCall; rw [(processSubscriptionResponse_frame c s p).1]; exact h)
    (fun c s h => processSubscriptionClose_hasCall c s id t h)
    (fun c m p h => by unfold HasCall; rw [(processNotification_requests c m p).1]; exact h)
    (fun c rps lo hi h => by unfold HasCall; rw [(processBatchResponse_requests c rps lo hi).1]; exact h)
    st raw
    (fun r c' effs hcl hp h => processSingleResponse_hasCall st c' r effs id t hp (hna r ((classify_response raw r).1 hcl)) h)
  exact this hc

theorem handleFront_hasCall (st : Core) (msg : FrontMsg) (id : Id) (t : Ticket) (hc : HasCall st id t) :
    HasCall (handleFront st msg).1 id t := by
  unfold handleFront
  cases msg with
  | batch lo hi t0 raw =>
    simp only
    cases h1 : st.mgr.insertPendingBatch (lo, hi) t0 with
    | none => exact hc
    | some m' =>
      unfold Mgr.insertPendingBatch at h1
      split at h1
      · simp at h1
      · simp at h1; subst h1; exact hc
  | notification raw => exact hc
  | request k t0 raw =>
    simp only
    cases h1 : st.mgr.insertPendingCall k t0 with
    | none => cases t0 <;> exact hc
    | some m' =>
      unfold Mgr.insertPendingCall at h1
      split at h1
      · simp at h1
      · rename_i hv
        simp at h1; subst h1
        exact hasCall_insert _ _ _ _ _ hc hv
  | subscribe sid uid t0 um raw =>
    simp only
    cases h1 : st.mgr.insertPendingSubscription sid uid t0 um with
    | none => exact hc
    | some m' =>
      unfold Mgr.insertPendingSubscription at h1
      split at h1
      · rename_i hv
        simp at h1; subst h1
        obtain ⟨v1, v2, v3⟩ := hv
        have hu : alookup uid ((sid, Kind.pendingSub uid t0 um) :: st.mgr.requests) = none := by
          rw [alookup_cons_ne uid sid _ _ (fun e => v3 e.symm)]; simpa using v2
        exact hasCall_insert _ _ _ _ _ (hasCall_insert _ _ _ _ _ hc (by simpa using v1)) hu
      · simp at h1
  | subscriptionClosed s =>
    simp only
    cases h1 : st.mgr.getRequestIdBySubscriptionId s with
    | none => exact hc
    | some rid =>
      simp only
      cases h2 : st.mgr.asSubscription rid with
      | none => exact hc
      | some c =>
        cases hb : buildUnsubscribeMessage st rid s with
        | none => exact hc
        | some x =>
          obtain ⟨st', msg⟩ := x
          obtain ⟨_, _, _, _, _, _, _, _, _, hmsg⟩ := buildUnsub_spec _ _ _ _ _ hb
          subst hmsg
          have h3 := buildUnsub_hasCall st rid s st' _ id t hb hc
          exact h3
  | registerNotif meth t0 =>
    simp only
    cases h1 : st.mgr.insertNotificationHandler meth st.chans.length with
    | some m' =>
      unfold Mgr.insertNotificationHandler at h1
      split at h1
      · simp at h1
      · simp at h1; subst h1
        simp only
        split <;> exact hc
    | none => exact hc
  | unregisterNotif meth =>
    simp only
    cases h1 : (st.mgr.removeNotificationHandler meth).2 with
    | some c => exact hc
    | none => exact hc

/-! ### who is still listening (`dead`) only changes by `abandon` -/

theorem buildUnsub_dead (st : Core) (rid : Id) (s : SubId) (st' : Core) (msg : FrontMsg)
    (h : buildUnsubscribeMessage st rid s = some (st', msg)) : st'.dead = st.dead := by
  obtain ⟨_, _, _, _, _, _, hd, _⟩ := buildUnsub_spec st rid s st' msg h
  exact hd

theorem completeSubscribe_dead (st : Core) (r : Response) (uid : Id) (t : Ticket) (um : Text) :
    (completeSubscribe st r uid t um).1.dead = st.dead := by
  unfold completeSubscribe
  cases hp : r.payload with
  | error e => rfl
  | result raw =>
    simp only
    cases hd : decodeSubId raw with
    | none => rfl
    | some s =>
      simp only
      cases hins : st.mgr.insertSubscription r.id uid s st.chans.length um with
      | none => rfl
      | some m' =>
        simp only
        cases hal : st.alive t with
        | true => simp only [if_true]; rfl
        | false => simp only [Bool.false_eq_true, if_false]; rfl

theorem processSingleResponse_dead (st st' : Core) (r : Response) (effs : List Effect)
    (h : processSingleResponse st r = .ok (st', effs)) : st'.dead = st.dead := by
  unfold processSingleResponse at h
  cases hs : st.mgr.requestStatus r.id with
  | pendingCall =>
    simp only [hs] at h
    cases hcp : st.mgr.completePendingCall r.id with
    | none => simp [hcp] at h
    | some x =>
      obtain ⟨m', t0⟩ := x
      cases t0 <;> simp [hcp] at h <;> rw [← h.1] <;> first | rfl | exact ackAt_mgr _ _ | exact ackAt_dead _ _
  | pendingSub =>
    simp only [hs] at h
    cases hcp : st.mgr.completePendingSubscription r.id with
    | none => simp [hcp] at h
    | some x =>
      obtain ⟨m', uid, t0, um⟩ := x
      simp [hcp] at h
      have h2 := completeSubscribe_dead { st with mgr := m' } r uid t0 um
      rw [h] at h2
      exact h2
  | sub => simp [hs] at h
  | invalid => simp [hs] at h

theorem processBatchResponse_dead (st : Core) (rps : List Response) (lo hi : Nat) :
    (processBatchResponse st rps lo hi).1.dead = st.dead := by
  unfold processBatchResponse
  cases hc : st.mgr.completePendingBatch (lo, hi) with
  | none => rfl
  | some x =>
    obtain ⟨m', t⟩ := x
    simp only
    split <;> rfl

theorem processNotification_dead (st : Core) (m : Text) (p : Option Text) :
    (processNotification st m p).1.dead = st.dead := (processNotification_frame st m p).2.1

theorem handleBack_dead (st : Core) (raw : Text) : (handleBack st raw).st.dead = st.dead := by
  apply handleBack_rel (fun a b => b.dead = a.dead) (fun _ => rfl) (fun _ _ _ h1 h2 => by rw [h2, h1])
  · intro c s p; exact (processSubscriptionResponse_frame c s p).2.1
  · intro c s; exact (processSubscriptionClose_frame c s).2
  · intro c m p; exact processNotification_dead c m p
  · intro c rps lo hi; exact processBatchResponse_dead c rps lo hi
  · intro r c' effs _ h; exact processSingleResponse_dead st c' r effs h

theorem handleFront_dead (st : Core) (msg : FrontMsg) : (handleFront st msg).1.dead = st.dead := by
  unfold handleFront
  cases msg with
  | batch lo hi t0 raw =>
    simp only
    cases h1 : st.mgr.insertPendingBatch (lo, hi) t0 <;> rfl
  | notification raw => rfl
  | request k t0 raw =>
    simp only
    cases h1 : st.mgr.insertPendingCall k t0 with
    | none => cases t0 <;> rfl
    | some m' => rfl
  | subscribe sid uid t0 um raw =>
    simp only
    cases h1 : st.mgr.insertPendingSubscription sid uid t0 um <;> rfl
  | subscriptionClosed s =>
    simp only
    cases h1 : st.mgr.getRequestIdBySubscriptionId s with
    | none => rfl
    | some rid =>
      simp only
      cases h2 : st.mgr.asSubscription rid with
      | none => rfl
      | some c =>
        cases hb : buildUnsubscribeMessage st rid s with
        | none => rfl
        | some x =>
          obtain ⟨st', msg⟩ := x
          obtain ⟨_, _, _, _, _, _, _, _, _, hmsg⟩ := buildUnsub_spec _ _ _ _ _ hb
          subst hmsg
          have h3 := buildUnsub_dead st rid s st' _ hb
          exact h3
  | registerNotif meth t0 =>
    simp only
    cases h1 : st.mgr.insertNotificationHandler meth st.chans.length with
    | some m' => simp only; split <;> rfl
    | none => rfl
  | unregisterNotif meth =>
    simp only
    cases h1 : (st.mgr.removeNotificationHandler meth).2 <;> rfl

/-- a step that is the answer to call `id` -/
def Answers (id : Id) : Step → Prop
  | .recv raw => ∃ r, decodeResponse raw = some r ∧ r.id = id
  | _ => False

/-- one step that neither answers `id` nor abandons the caller leaves the waiting call as it is -/
theorem step_hasCall (st : St) (s : Step) (id : Id) (t : Ticket)
    (hna : ¬ Answers id s) (hnab : s ≠ .abandon t.op)
    (hc : HasCall st.core id t) (hal : st.core.alive t = true) :
    HasCall (step st s).st.core id t ∧ (step st s).st.core.alive t = true := by
  cases s with
  | newCall meth params => exact ⟨hc, hal⟩
  | newSubscribe sm um => exact ⟨hc, hal⟩
  | newBatch meth n => exact ⟨hc, hal⟩
  | newRegister meth => exact ⟨hc, hal⟩
  | newNotification raw => exact ⟨hc, hal⟩
  | abandon op =>
    refine ⟨hc, ?_⟩
    have : op ≠ t.op := fun e => hnab (by rw [e])
    unfold Core.alive at hal ⊢
    simp only [step, List.contains_cons, Bool.not_eq_true', Bool.or_eq_false_iff]
    simp only [Bool.not_eq_true'] at hal
    exact ⟨by simpa using fun e => this e.symm, hal⟩
  | sendTask i =>
    cases h : st.pool[i]? with
    | none =>
      have e : step st (.sendTask i) = { st := st } := by simp only [step, h]
      rw [e]; exact ⟨hc, hal⟩
    | some msg =>
      have e : step st (.sendTask i) =
          { st := { st with core := (handleFront st.core msg).1, pool := removeAt st.pool i },
            effs := (handleFront st.core msg).2 } := by simp only [step, h]
      rw [e]
      refine ⟨handleFront_hasCall st.core msg id t hc, ?_⟩
      unfold Core.alive at hal ⊢
      simp only [handleFront_dead]; exact hal
  | recv raw =>
    refine ⟨?_, ?_⟩
    · exact handleBack_hasCall st.core raw id t (fun r hr e => hna ⟨r, hr, e⟩) hc
    · unfold Core.alive at hal ⊢
      simp only [step, handleBack_dead]; exact hal
  | next c =>
    have : (step st (.next c)).st.core.mgr = st.core.mgr ∧ (step st (.next c)).st.core.dead = st.core.dead := by
      simp only [step]
      split
      · exact ⟨rfl, rfl⟩
      · split
        · exact ⟨rfl, rfl⟩
        · split
          · exact ⟨rfl, rfl⟩
          · split <;> exact ⟨rfl, rfl⟩
    unfold HasCall Core.alive at *
    rw [this.1, this.2]; exact ⟨hc, hal⟩
  | dropStream c room =>
    have : (step st (.dropStream c room)).st.core.mgr = st.core.mgr ∧ (step st (.dropStream c room)).st.core.dead = st.core.dead := by
      simp only [step]
      split
      · exact ⟨rfl, rfl⟩
      · split <;> exact ⟨rfl, rfl⟩
    unfold HasCall Core.alive at *
    rw [this.1, this.2]; exact ⟨hc, hal⟩
  | unsubscribeStream c =>
    have : (step st (.unsubscribeStream c)).st.core.mgr = st.core.mgr ∧ (step st (.unsubscribeStream c)).st.core.dead = st.core.dead := by
      simp only [step]
      split
      · exact ⟨rfl, rfl⟩
      · split <;> exact ⟨rfl, rfl⟩
    unfold HasCall Core.alive at *
    rw [this.1, this.2]; exact ⟨hc, hal⟩

theorem run_hasCall (steps : List Step) (id : Id) (t : Ticket) : ∀ st : St,
    (∀ s ∈ steps, ¬ Answers id s) → (∀ s ∈ steps, s ≠ .abandon t.op) →
    HasCall st.core id t → st.core.alive t = true →
    HasCall (run st steps).1.core id t ∧ (run st steps).1.core.alive t = true := by
  induction steps with
  | nil => intro st _ _ hc hal; exact ⟨hc, hal⟩
  | cons s rest ih =>
    intro st h1 h2 hc hal
    rw [run_cons]
    obtain ⟨a, b⟩ := step_hasCall st s id t (h1 s List.mem_cons_self) (h2 s List.mem_cons_self) hc hal
    exact ih _ (fun x hx => h1 x (List.mem_cons_of_mem _ hx)) (fun x hx => h2 x (List.mem_cons_of_mem _ hx)) a b

end Jrpc.Client
