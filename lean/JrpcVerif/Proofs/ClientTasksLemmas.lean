/-
  Lemmas for C09 (Layer B protocol machine of Model/ClientTasks.lean, and the panic sites /
  table invariant of Layer A).
-/
import JrpcVerif.Model.ClientTasks
import JrpcVerif.Proofs.ClientStepLemmas
namespace Jrpc.ClientTasks
open Jrpc Jrpc.Client

/-! ### unconditional invariants of the protocol machine (both exit orders) -/

/-- send-task phases in which `from_frontend.close()` has already been executed -/
def pastClose : ExitOrder → SendPhase → Bool
  | _, .closingTransport _ => true
  | _, .done => true
  | .frontFirst, .reporting _ => true
  | _, _ => false

structure Inv (o : ExitOrder) (s : State) : Prop where
  bufErr : s.closeBuf ≠ some none
  sendNone : (s.sendP = .reporting none ∨ s.sendP = .closingTransport none) → s.watcherDone = true
  readNone : s.readP = .reporting none → s.watcherDone = true
  doneCause : s.watcherDone = true → s.cause.isSome = true
  notDone : s.watcherDone = false → s.cause = none ∧ s.causeWrites = 0
  writes : s.causeWrites ≤ 1
  pastC : pastClose o s.sendP = true → s.frontClosed = true
  disc : ∀ i : Nat, s.fronts[i]? = some FPhase.disconnected → s.frontClosed = true
  restart : ∀ (i : Nat) (c : Cause), s.fronts[i]? = some (FPhase.resolved (.restart c)) → s.cause = some c
  causeReal : ∀ c, s.cause = some c → c ∈ s.failures
  bufReal : ∀ c, s.closeBuf = some (some c) → c ∈ s.failures
  sendReal : ∀ c, (s.sendP = .reporting (some c) ∨ s.sendP = .closingTransport (some c)) → c ∈ s.failures
  readReal : ∀ c, s.readP = .reporting (some c) → c ∈ s.failures

theorem inv_step (o : ExitOrder) (s : State) (op : Op) (h : Inv o s) : Inv o (step o s op) := by
  obtain ⟨h1, h2, h3, h4, h5, h6, h7, h8, h9, h10, h11, h12, h13⟩ := h
  cases op <;> simp only [step]
  case watch => unfold watch; constructor <;> grind
  case frontNew r => unfold frontNew admitted; constructor <;> grind
  case frontRetry i => unfold frontRetry admitted State.setPhase; constructor <;> grind
  case frontDrop i => unfold frontDrop senderDropped State.setPhase; constructor <;> grind [pastClose]
  case frontReadError i => unfold frontReadError slotResult State.setPhase; constructor <;> grind [pastClose]
  case frontTimer i => unfold frontTimer State.setPhase; constructor <;> grind [pastClose]
  case consumerMsg => unfold consumerMsg; constructor <;> grind [pastClose]
  case frontWatch => unfold frontWatch; constructor <;> grind [pastClose]
  case taskAnswers i => unfold taskAnswers completeOne State.setPhase; constructor <;> grind [pastClose]
  case sendTake => unfold sendTake; constructor <;> grind [pastClose]
  case sendOk => unfold sendOk; constructor <;> grind [pastClose]
  case sendErr t => unfold sendErr exitLoop; constructor <;> grind [pastClose]
  case pingErr t => unfold pingErr exitLoop; constructor <;> grind [pastClose]
  case sendSeesClosed => unfold sendSeesClosed exitLoop; constructor <;> grind [pastClose]
  case sendTransportClosed => unfold sendTransportClosed afterTransportClose; constructor <;> grind [pastClose]
  case sendReport => unfold sendReport afterReport; constructor <;> grind [pastClose]
  case sendWatcherGone => unfold sendWatcherGone; constructor <;> grind [pastClose]
  case readOk a n => unfold readOk completeOne State.setPhase; constructor <;> grind [pastClose]
  case readErr c => unfold readErr; constructor <;> grind [pastClose]
  case readSeesClosed => unfold readSeesClosed; constructor <;> grind [pastClose]
  case readReport => unfold readReport; constructor <;> grind [pastClose]

theorem inv_init (o : ExitOrder) (fcap : Nat) : Inv o (init fcap) := by
  constructor <;> simp [init, pastClose]

theorem run_nil (o : ExitOrder) (s : State) : run o s [] = s := rfl
theorem run_cons (o : ExitOrder) (s : State) (op : Op) (rest : List Op) :
    run o s (op :: rest) = run o (step o s op) rest := rfl

theorem run_append (o : ExitOrder) (a b : List Op) : ∀ s, run o s (a ++ b) = run o (run o s a) b := by
  induction a with
  | nil => intro s; rfl
  | cons x xs ih => intro s; simp only [List.cons_append, run_cons]; exact ih _

theorem inv_run (o : ExitOrder) (ops : List Op) : ∀ s, Inv o s → Inv o (run o s ops) := by
  induction ops with
  | nil => intro s h; exact h
  | cons op rest ih => intro s h; exact ih _ (inv_step o s op h)

/-! ### the cause is recorded before the front channel closes -/

/-- a step is *safe* if the exit order is the fixed one or the step is no send-side failure -/
def Safe (o : ExitOrder) (op : Op) : Prop := o = .causeFirst ∨ isSendFailure op = false

structure CInv (s : State) : Prop where
  closed : s.frontClosed = true → s.watcherDone = true
  noPh : ∀ i : Nat, s.fronts[i]? ≠ some (FPhase.resolved .placeholder)

theorem cinv_init (fcap : Nat) : CInv (init fcap) := by
  constructor <;> simp [init]

theorem cinv_step (o : ExitOrder) (s : State) (op : Op) (h : Inv o s) (hc : CInv s) (hs : Safe o op) :
    CInv (step o s op) := by
  obtain ⟨h1, h2, h3, h4, h5, h6, h7, h8, h9, h10, h11, h12, h13⟩ := h
  obtain ⟨c1, c2⟩ := hc
  cases op <;> simp only [step]
  case watch => unfold watch; constructor <;> grind
  case frontNew r => unfold frontNew admitted; constructor <;> grind
  case frontRetry i => unfold frontRetry admitted State.setPhase; constructor <;> grind
  case frontDrop i => unfold frontDrop senderDropped State.setPhase; constructor <;> grind
  case frontReadError i => unfold frontReadError slotResult State.setPhase; constructor <;> grind
  case frontTimer i => unfold frontTimer State.setPhase; constructor <;> grind
  case consumerMsg => unfold consumerMsg; constructor <;> grind
  case frontWatch => unfold frontWatch; constructor <;> grind
  case taskAnswers i => unfold taskAnswers completeOne State.setPhase; constructor <;> grind
  case sendTake => unfold sendTake; constructor <;> grind
  case sendOk => unfold sendOk; constructor <;> grind
  case sendErr t =>
    rcases hs with hs | hs
    · subst hs; unfold sendErr exitLoop; constructor <;> grind
    · simp [isSendFailure] at hs
  case pingErr t =>
    rcases hs with hs | hs
    · subst hs; unfold pingErr exitLoop; constructor <;> grind
    · simp [isSendFailure] at hs
  case sendSeesClosed => unfold sendSeesClosed exitLoop; constructor <;> grind
  case sendTransportClosed => unfold sendTransportClosed afterTransportClose; constructor <;> grind
  case sendReport => unfold sendReport afterReport; constructor <;> grind
  case sendWatcherGone => unfold sendWatcherGone; constructor <;> grind
  case readOk a n => unfold readOk completeOne State.setPhase; constructor <;> grind
  case readErr c => unfold readErr; constructor <;> grind
  case readSeesClosed => unfold readSeesClosed; constructor <;> grind
  case readReport => unfold readReport; constructor <;> grind

theorem cinv_run (o : ExitOrder) (ops : List Op) (hs : o = .causeFirst ∨ noSendFailure ops = true) :
    ∀ s, Inv o s → CInv s → CInv (run o s ops) := by
  induction ops with
  | nil => intro s _ h; exact h
  | cons op rest ih =>
    intro s h hc
    have hsafe : Safe o op := by
      rcases hs with hs | hs
      · exact Or.inl hs
      · simp [noSendFailure] at hs; exact Or.inr hs.1
    have hrest : o = .causeFirst ∨ noSendFailure rest = true := by
      rcases hs with hs | hs
      · exact Or.inl hs
      · simp [noSendFailure] at hs; exact Or.inr hs.2
    exact ih hrest _ (inv_step o s op h) (cinv_step o s op h hc hsafe)

/-! ### the slot is written at most once and never changes afterwards -/

theorem cause_stable_step (o : ExitOrder) (s : State) (op : Op) (h : Inv o s) (c : Cause) (hc : s.cause = some c) :
    (step o s op).cause = some c := by
  have hd : s.watcherDone = true := by
    cases hw : s.watcherDone with
    | true => rfl
    | false => have := (h.notDone hw).1; simp_all
  cases op <;> simp only [step]
  case watch => unfold watch; simp [hd, hc]
  case frontNew r => unfold frontNew; grind
  case frontRetry i => unfold frontRetry State.setPhase; grind
  case frontDrop i => unfold frontDrop State.setPhase; grind
  case frontReadError i => unfold frontReadError State.setPhase; grind
  case frontTimer i => unfold frontTimer State.setPhase; grind
  case consumerMsg => unfold consumerMsg; grind
  case frontWatch => unfold frontWatch; grind
  case taskAnswers i => unfold taskAnswers completeOne State.setPhase; grind
  case sendTake => unfold sendTake; grind
  case sendOk => unfold sendOk; grind
  case sendErr t => unfold sendErr exitLoop; grind
  case pingErr t => unfold pingErr exitLoop; grind
  case sendSeesClosed => unfold sendSeesClosed exitLoop; grind
  case sendTransportClosed => unfold sendTransportClosed; grind
  case sendReport => unfold sendReport; grind
  case sendWatcherGone => unfold sendWatcherGone; grind
  case readOk a n => unfold readOk completeOne State.setPhase; grind
  case readErr c => unfold readErr; grind
  case readSeesClosed => unfold readSeesClosed; grind
  case readReport => unfold readReport; grind

theorem cause_stable_run (o : ExitOrder) (ops : List Op) (c : Cause) :
    ∀ s, Inv o s → s.cause = some c → (run o s ops).cause = some c := by
  induction ops with
  | nil => intro s _ h; exact h
  | cons op rest ih => intro s h hc; exact ih _ (inv_step o s op h) (cause_stable_step o s op h c hc)

/-! ### a resolved future stays resolved with the same value -/

theorem resolved_stable_step (o : ExitOrder) (s : State) (op : Op) (i : Nat) (r : FRes)
    (h : s.fronts[i]? = some (FPhase.resolved r)) : (step o s op).fronts[i]? = some (FPhase.resolved r) := by
  cases op <;> simp only [step]
  case watch => unfold watch; grind
  case frontNew r => unfold frontNew; grind
  case frontRetry i => unfold frontRetry State.setPhase; grind
  case frontDrop i => unfold frontDrop senderDropped State.setPhase; grind
  case frontReadError i => unfold frontReadError State.setPhase; grind
  case frontTimer i => unfold frontTimer State.setPhase; grind
  case consumerMsg => unfold consumerMsg; grind
  case frontWatch => unfold frontWatch; grind
  case taskAnswers i => unfold taskAnswers completeOne State.setPhase; grind
  case sendTake => unfold sendTake; grind
  case sendOk => unfold sendOk; grind
  case sendErr t => unfold sendErr exitLoop; grind
  case pingErr t => unfold pingErr exitLoop; grind
  case sendSeesClosed => unfold sendSeesClosed exitLoop; grind
  case sendTransportClosed => unfold sendTransportClosed; grind
  case sendReport => unfold sendReport; grind
  case sendWatcherGone => unfold sendWatcherGone; grind
  case readOk a n => unfold readOk completeOne State.setPhase; grind
  case readErr c => unfold readErr; grind
  case readSeesClosed => unfold readSeesClosed; grind
  case readReport => unfold readReport; grind

/-! ### Layer A: the table invariant behind the `expect` of `process_subscription_close_response` -/

theorem subsOK_of_eq {m m' : Mgr} (hr : m'.requests = m.requests) (hs : m'.subs = m.subs) (h : SubsOK m) : SubsOK m' := by
  unfold SubsOK at *; rw [hr, hs]; exact h

theorem subsOK_empty : SubsOK {} := by
  intro s rid h; simp [alookup] at h

/-- removing an entry that is not a subscription -/
theorem subsOK_erase_req (m : Mgr) (id : Id) (h : SubsOK m)
    (hk : ∀ uid c um, alookup id m.requests ≠ some (.sub uid c um)) :
    SubsOK { m with requests := aerase id m.requests } := by
  intro s rid hl
  obtain ⟨⟨uid, c, um, hq⟩, hinj⟩ := h s rid hl
  have hne : rid ≠ id := by intro e; subst e; exact hk _ _ _ hq
  exact ⟨⟨uid, c, um, by simp only; rw [alookup_aerase_ne _ _ _ hne]; exact hq⟩, hinj⟩

/-- inserting under a vacant request id -/
theorem subsOK_insert_req (m : Mgr) (id : Id) (k : Kind) (h : SubsOK m) (hv : alookup id m.requests = none) :
    SubsOK { m with requests := (id, k) :: m.requests } := by
  intro s rid hl
  obtain ⟨⟨uid, c, um, hq⟩, hinj⟩ := h s rid hl
  have hne : rid ≠ id := by intro e; subst e; simp [hv] at hq
  exact ⟨⟨uid, c, um, by simp only; rw [alookup_cons_ne _ _ _ _ hne]; exact hq⟩, hinj⟩

theorem subsOK_insertSubscription (m m' : Mgr) (sid uid : Id) (s : SubId) (c : ChanId) (um : Text)
    (h : SubsOK m) (hi : m.insertSubscription sid uid s c um = some m') : SubsOK m' := by
  obtain ⟨hv1, hv2, e⟩ := insertSubscription_spec _ _ _ _ _ _ _ hi
  subst e
  intro s0 rid0 hl
  simp only at hl ⊢
  by_cases hs : s0 = s
  · subst hs
    rw [alookup_cons_self] at hl
    simp at hl; subst hl
    refine ⟨⟨uid, c, um, alookup_cons_self _ _ _⟩, ?_⟩
    intro s' hs'
    by_cases e : s' = s0
    · exact e
    · rw [alookup_cons_ne _ _ _ _ e] at hs'
      obtain ⟨⟨_, _, _, hq⟩, _⟩ := h s' sid hs'
      simp [hv1] at hq
  · rw [alookup_cons_ne _ _ _ _ hs] at hl
    obtain ⟨⟨uid', c', um', hq⟩, hinj⟩ := h s0 rid0 hl
    have hne : rid0 ≠ sid := by intro e; subst e; simp [hv1] at hq
    refine ⟨⟨uid', c', um', by rw [alookup_cons_ne _ _ _ _ hne]; exact hq⟩, ?_⟩
    intro s' hs'
    by_cases e : s' = s
    · subst e; rw [alookup_cons_self] at hs'; simp at hs'; exact absurd hs'.symm hne
    · rw [alookup_cons_ne _ _ _ _ e] at hs'; exact hinj s' hs'

/-- `SubsOK` depends only on the reverse index and on where the `.sub` entries are: it carries over
to any manager whose reverse index is contained in the old one and in which every subscription entry
that is still referenced is unchanged -/
theorem subsOK_transfer {m m' : Mgr} (h : SubsOK m)
    (hs : ∀ s rid, alookup s m'.subs = some rid → alookup s m.subs = some rid)
    (hq : ∀ s rid, alookup s m'.subs = some rid → ∀ uid c um,
      alookup rid m.requests = some (.sub uid c um) → alookup rid m'.requests = some (.sub uid c um)) :
    SubsOK m' := by
  intro s rid hl
  obtain ⟨⟨uid, c, um, hq0⟩, hinj⟩ := h s rid (hs s rid hl)
  exact ⟨⟨uid, c, um, hq s rid hl uid c um hq0⟩, fun s' hs' => hinj s' (hs s' rid hs')⟩

theorem subsOK_release (m : Mgr) (id : Id) (h : SubsOK m) : SubsOK (m.releaseReservedSlot id) := by
  refine subsOK_transfer h ?_ ?_
  · intro s rid hl; rw [(releaseReservedSlot_others m id).1] at hl; exact hl
  · intro s rid _ uid c um hq
    exact (alookup_releaseReservedSlot m id rid (.sub uid c um) (by simp)).2 hq

/-- the manager after `remove_subscription` -/
theorem subsOK_removed (m : Mgr) (rid uid : Id) (s : SubId) (h : SubsOK m) (hl : alookup s m.subs = some rid) :
    SubsOK (removedMgr m rid uid s) := by
  have hsub := (removedMgr_others m rid uid s).1
  have key : ∀ s0 rid0, alookup s0 (removedMgr m rid uid s).subs = some rid0 →
      alookup s0 m.subs = some rid0 ∧ rid0 ≠ rid := by
    intro s0 rid0 h0
    rw [hsub] at h0
    have hs0 : s0 ≠ s := by intro e; subst e; simp [alookup_aerase_self] at h0
    rw [alookup_aerase_ne _ _ _ hs0] at h0
    refine ⟨h0, ?_⟩
    intro e; subst e
    exact hs0 ((h s rid0 hl).2 s0 h0)
  refine subsOK_transfer h (fun s0 rid0 h0 => (key s0 rid0 h0).1) ?_
  intro s0 rid0 h0 uid' c um hq
  exact (removedMgr_alookup m rid uid s rid0 (.sub uid' c um) (by simp) (key s0 rid0 h0).2).2 hq

/-- the manager after `unsubscribe` -/
theorem subsOK_unsub (m : Mgr) (rid uid : Id) (s : SubId) (ch : ChanId) (h : SubsOK m) (hl : alookup s m.subs = some rid) :
    SubsOK (unsubMgr m rid uid s ch) := by
  have hsub := (unsubMgr_others m rid uid s ch).1
  have key : ∀ s0 rid0, alookup s0 (unsubMgr m rid uid s ch).subs = some rid0 →
      alookup s0 m.subs = some rid0 ∧ rid0 ≠ rid := by
    intro s0 rid0 h0
    rw [hsub] at h0
    have hs0 : s0 ≠ s := by intro e; subst e; simp [alookup_aerase_self] at h0
    rw [alookup_aerase_ne _ _ _ hs0] at h0
    refine ⟨h0, ?_⟩
    intro e; subst e
    exact hs0 ((h s rid0 hl).2 s0 h0)
  refine subsOK_transfer h (fun s0 rid0 h0 => (key s0 rid0 h0).1) ?_
  intro s0 rid0 h0 uid' c um hq
  exact (unsubMgr_alookup m rid uid s ch rid0 (.sub uid' c um) (by simp) (by simp) (key s0 rid0 h0).2).2 hq

theorem processSubscriptionClose_subsOK (st : Core) (s : SubId) (h : SubsOK st.mgr) :
    SubsOK (processSubscriptionClose st s).mgr := by
  unfold processSubscriptionClose
  cases h1 : st.mgr.getRequestIdBySubscriptionId s with
  | none => exact h
  | some rid =>
    simp only
    cases h2 : st.mgr.removeSubscription rid s with
    | none => exact h
    | some x =>
      obtain ⟨m', uid, c, um⟩ := x
      obtain ⟨_, _, e⟩ := removeSubscription_spec _ _ _ _ _ _ _ h2
      subst e
      simp only [modChan_mgr]
      exact subsOK_removed st.mgr rid uid s h h1

theorem buildUnsub_subsOK (st : Core) (rid : Id) (s : SubId) (st' : Core) (msg : FrontMsg) (h : SubsOK st.mgr)
    (hl : alookup s st.mgr.subs = some rid) (hb : buildUnsubscribeMessage st rid s = some (st', msg)) :
    SubsOK st'.mgr := by
  obtain ⟨uid, c, um, _, _, hm, _⟩ := buildUnsub_spec st rid s st' msg hb
  rw [hm]
  exact subsOK_unsub st.mgr rid uid s c h hl

theorem completeSubscribe_subsOK (st : Core) (r : Response) (uid : Id) (t : Ticket) (um : Text) (h : SubsOK st.mgr) :
    SubsOK (completeSubscribe st r uid t um).1.mgr := by
  unfold completeSubscribe
  cases hp : r.payload with
  | error e => exact subsOK_release _ _ h
  | result raw =>
    simp only
    cases hd : decodeSubId raw with
    | none => exact subsOK_release _ _ h
    | some s =>
      simp only
      cases hins : st.mgr.insertSubscription r.id uid s st.chans.length um with
      | none => exact subsOK_release _ _ h
      | some m' =>
        have h' : SubsOK m' := subsOK_insertSubscription _ _ _ _ _ _ _ h hins
        simp only
        by_cases hal : st.alive t = true
        · simp only [hal, if_true]; exact h'
        · simp only [hal, Bool.false_eq_true, if_false]
          unfold abandonedSubscribe
          exact h'

theorem completePendingCall_subsOK (m m' : Mgr) (id : Id) (t : Option Ticket) (h : SubsOK m)
    (hc : m.completePendingCall id = some (m', t)) : SubsOK m' := by
  rcases completePendingCall_spec m id m' t hc with ⟨hl, e⟩ | ⟨rid, _, hl, _, e⟩
  · rw [e]; exact subsOK_erase_req _ _ h (by intro a b c; rw [hl]; simp)
  · rw [e]; exact subsOK_release _ _ (subsOK_erase_req _ _ h (by intro a b c; rw [hl]; simp))

theorem processSingleResponse_subsOK (st st' : Core) (r : Response) (effs : List Effect) (h : SubsOK st.mgr)
    (hp : processSingleResponse st r = .ok (st', effs)) : SubsOK st'.mgr := by
  unfold processSingleResponse at hp
  cases hs : st.mgr.requestStatus r.id with
  | pendingCall =>
    simp only [hs] at hp
    cases hc : st.mgr.completePendingCall r.id with
    | none => simp [hc] at hp
    | some x =>
      obtain ⟨m', t⟩ := x
      have hm' := completePendingCall_subsOK _ _ _ _ h hc
      have hm : st'.mgr = m' := by
        cases t <;> simp [hc] at hp <;> rw [← hp.1] <;> first | rfl | exact ackAt_mgr _ _
      rw [hm]; exact hm'
  | pendingSub =>
    simp only [hs] at hp
    cases hc : st.mgr.completePendingSubscription r.id with
    | none => simp [hc] at hp
    | some x =>
      obtain ⟨m', uid, t, um⟩ := x
      obtain ⟨hl, e⟩ := completePendingSubscription_spec _ _ _ _ _ _ hc
      simp [hc] at hp
      have := completeSubscribe_subsOK { st with mgr := m' } r uid t um
        (by rw [e]; exact subsOK_erase_req _ _ h (by intro a b c; rw [hl]; simp))
      rw [hp] at this
      exact this
  | sub => simp [hs] at hp
  | invalid => simp [hs] at hp

/-- `handle_recv_message` keeps the table invariant -/
theorem handleBack_subsOK (st : Core) (raw : Text) (h : SubsOK st.mgr) : SubsOK (handleBack st raw).st.mgr := by
  have := handleBack_rel (fun c c' => SubsOK c.mgr → SubsOK c'.mgr) (fun _ h => h) (fun _ _ _ h1 h2 h => h2 (h1 h))
    (fun c s p h => by rw [(processSubscriptionResponse_frame c s p).1]; exact h)
    (fun c s h => processSubscriptionClose_subsOK c s h)
    (fun c m p h => subsOK_of_eq (processNotification_requests c m p).1 (processNotification_requests c m p).2 h)
    (fun c rps lo hi h => subsOK_of_eq (processBatchResponse_requests c rps lo hi).1 (processBatchResponse_requests c rps lo hi).2.1 h)
    st raw (fun r c' effs _ hp h => processSingleResponse_subsOK st c' r effs h hp)
  exact this h


/-- `handle_frontend_messages` keeps the table invariant -/
theorem handleFront_subsOK (st : Core) (msg : FrontMsg) (h : SubsOK st.mgr) : SubsOK (handleFront st msg).1.mgr := by
  unfold handleFront
  cases msg with
  | batch lo hi t raw =>
    simp only
    cases h1 : st.mgr.insertPendingBatch (lo, hi) t with
    | none => exact h
    | some m' =>
      unfold Mgr.insertPendingBatch at h1
      split at h1
      · simp at h1
      · simp at h1; subst h1; exact subsOK_of_eq rfl rfl h
  | notification raw => exact h
  | request id t raw =>
    simp only
    cases h1 : st.mgr.insertPendingCall id t with
    | none => cases t <;> exact h
    | some m' =>
      unfold Mgr.insertPendingCall at h1
      split at h1
      · simp at h1
      · rename_i hv; simp at h1; subst h1; exact subsOK_insert_req _ _ _ h hv
  | subscribe sid uid t um raw =>
    simp only
    cases h1 : st.mgr.insertPendingSubscription sid uid t um with
    | none => exact h
    | some m' =>
      unfold Mgr.insertPendingSubscription at h1
      split at h1
      · rename_i hc
        simp at h1; subst h1
        obtain ⟨a, b, c⟩ := hc
        have a' : alookup sid st.mgr.requests = none := by simpa using a
        have b' : alookup uid st.mgr.requests = none := by simpa using b
        have h2 := subsOK_insert_req st.mgr sid (.pendingSub uid t um) h a'
        exact subsOK_insert_req _ uid (.pendingCall none) h2
          (by simp only; rw [alookup_cons_ne _ _ _ _ (fun e => c e.symm)]; exact b')
      · simp at h1
  | subscriptionClosed s =>
    simp only
    cases h1 : st.mgr.getRequestIdBySubscriptionId s with
    | none => exact h
    | some rid =>
      simp only
      cases h2 : st.mgr.asSubscription rid with
      | none => exact h
      | some c =>
        cases h3 : buildUnsubscribeMessage st rid s with
        | none => exact h
        | some x =>
          obtain ⟨st', msg⟩ := x
          have := buildUnsub_subsOK st rid s st' msg h h1 h3
          cases msg <;> first | exact h | (simp only [modChan_mgr]; exact this)
  | registerNotif meth t =>
    simp only
    cases h1 : st.mgr.insertNotificationHandler meth st.chans.length with
    | none => exact h
    | some m' =>
      unfold Mgr.insertNotificationHandler at h1
      split at h1
      · simp at h1
      · simp at h1; subst h1
        simp only
        split <;> exact subsOK_of_eq rfl rfl h
  | unregisterNotif meth =>
    simp only
    split
    · exact subsOK_of_eq rfl rfl h
    · exact h

theorem step_subsOK (st : St) (s : Step) (h : SubsOK st.core.mgr) : SubsOK (Client.step st s).st.core.mgr := by
  cases s with
  | sendTask i =>
    cases hp : st.pool[i]? with
    | none => simp only [Client.step, hp]; exact h
    | some msg => simp only [Client.step, hp]; exact handleFront_subsOK st.core msg h
  | recv raw => simp only [Client.step]; exact handleBack_subsOK st.core raw h
  | newCall m p => exact h
  | newSubscribe a b => exact h
  | newBatch m n => exact h
  | newRegister m => exact h
  | newNotification r => exact h
  | abandon op => exact h
  | next c =>
    simp only [Client.step]
    split
    · exact h
    · split
      · exact h
      · split
        · exact h
        · split <;> exact h
  | dropStream c room =>
    simp only [Client.step]
    split
    · exact h
    · split <;> exact h
  | unsubscribeStream c =>
    simp only [Client.step]
    split
    · exact h
    · split <;> exact h

/-- the table invariant holds in every state the client can reach -/
theorem subsOK_reachable (st : St) (h : Reachable st) : SubsOK st.core.mgr :=
  reachable_inv (fun st => SubsOK st.core.mgr) (fun _ _ => subsOK_empty) step_subsOK st h

/-! ### no `expect` of the back handler can fire -/

theorem closeExpect_ok (st : Core) (s : SubId) (h : SubsOK st.mgr) : closeExpectFails st s = false := by
  unfold closeExpectFails
  cases h1 : st.mgr.getRequestIdBySubscriptionId s with
  | none => rfl
  | some rid =>
    obtain ⟨⟨uid, c, um, hq⟩, _⟩ := h s rid h1
    have h1' : alookup s st.mgr.subs = some rid := h1
    simp [Mgr.removeSubscription, hq, h1']

theorem arrayPanics_false (es : List Text) : ∀ st : Core, SubsOK st.mgr → arrayPanics st es = false := by
  induction es with
  | nil => intro st _; rfl
  | cons e rest ih =>
    intro st h
    rw [arrayPanics]
    cases hc : classifyIncoming e with
    | response r =>
      simp only
      cases idNum r.id with
      | none => rfl
      | some _ => exact ih st h
    | garbage => rfl
    | subNotif s p =>
      simp only
      exact ih _ (by rw [(processSubscriptionResponse_frame st s p).1]; exact h)
    | subClose s =>
      simp only [closeExpect_ok st s h, Bool.false_or]
      exact ih _ (processSubscriptionClose_subsOK st s h)
    | notif m p =>
      simp only
      exact ih _ (subsOK_of_eq (processNotification_requests st m p).1 (processNotification_requests st m p).2 h)

theorem backPanics_false (st : Core) (raw : Text) (h : SubsOK st.mgr) : backPanics st raw = false := by
  unfold backPanics
  split
  · rfl
  · split
    · split
      · exact closeExpect_ok st _ h
      · rfl
    · split
      · split
        · exact arrayPanics_false _ st h
        · rfl
      · rfl


/-! ### when both tasks have returned everything pending fails with the cause -/

theorem settleFront_resolves (o : ExitOrder) (s : State) (h : Inv o s) (hc : CInv s)
    (hs : s.sendP = .done) (hr : s.readP = .done) (i : Nat) (hi : i < s.fronts.length) :
    s.frontClosed = true ∧ ∃ c, s.cause = some c ∧
      ((∃ r, s.fronts[i]? = some (FPhase.resolved r) ∧ r ≠ .placeholder ∧
          (settleFront s i).fronts[i]? = some (FPhase.resolved r)) ∨
       ((∀ r, s.fronts[i]? ≠ some (FPhase.resolved r)) ∧
          (settleFront s i).fronts[i]? = some (FPhase.resolved (.restart c)))) := by
  have hfc : s.frontClosed = true := h.pastC (by rw [hs]; cases o <;> rfl)
  have hwd := hc.closed hfc
  have hcs := h.doneCause hwd
  refine ⟨hfc, ?_⟩
  cases hcz : s.cause with
  | none => simp [hcz] at hcs
  | some c =>
    refine ⟨c, rfl, ?_⟩
    have hnp := hc.noPh i
    unfold settleFront frontRetry frontDrop frontReadError senderDropped slotResult State.setPhase
    cases hp : s.fronts[i]? with
    | none => have := List.getElem?_eq_none_iff.1 hp; omega
    | some p => cases p <;> grind

/-- every wait of a front-end operation is raced against the timer, except the wait inside
`read_error`, which is already over (the front channel is closed) -/
theorem wait_raced (o : ExitOrder) (s : State) (h : Inv o s) (i : Nat) (p : FPhase) (hp : s.fronts[i]? = some p) :
    (∃ r, p = .resolved r) ∨
    (frontTimer s i).fronts[i]? = some (FPhase.resolved .timeout) ∨
    (p = .disconnected ∧ (frontReadError s i).fronts[i]? = some (FPhase.resolved (slotResult s))) ∨
    p = .watching := by
  have hi : i < s.fronts.length := by
    rcases Nat.lt_or_ge i s.fronts.length with h1 | h1
    · exact h1
    · have := List.getElem?_eq_none_iff.2 h1; simp [this] at hp
  have hd := h.disc i
  unfold frontTimer frontReadError State.setPhase
  cases p <;> grind

/-! ### the dropped manager ends every stream -/

theorem dropManager_chan (st : Core) (c : ChanId) (ch : Chan) (h : (dropManager st).chans[c]? = some ch) :
    ch.senderAlive = false := by
  simp only [dropManager, List.getElem?_map] at h
  cases hc : st.chans[c]? with
  | none => simp [hc] at h
  | some ch0 => simp [hc] at h; rw [← h]; rfl

theorem next_after_drop (st : St) (c : ChanId) (ch : Chan) (h : (dropManager st.core).chans[c]? = some ch)
    (ha : ch.receiverAlive = true) :
    (Client.step { st with core := dropManager st.core } (.next c)).out =
      match ch.buf with
      | p :: _ => .item p
      | [] => .ended ch.lagged := by
  have hs := dropManager_chan st.core c ch h
  simp only [Client.step, h, ha]
  cases hb : ch.buf with
  | nil => simp [hs]
  | cons p rest => simp

/-! ### fatal classes of `handle_recv_message` -/

theorem fatal_other_first_byte (st : Core) (raw : Text) (h1 : firstNonWs raw ≠ some 123) (h2 : firstNonWs raw ≠ some 91) :
    (handleBack st raw).fatal = some .unparseable ∧ (handleBack st raw).st = st ∧ (handleBack st raw).effs = [] := by
  unfold handleBack
  cases hf : firstNonWs raw with
  | none => exact ⟨rfl, rfl, rfl⟩
  | some c =>
    have c1 : (c == 123) = false := by
      cases hc : c == 123 with
      | false => rfl
      | true => exact absurd (by rw [hf]; simp at hc; rw [hc]) h1
    have c2 : (c == 91) = false := by
      cases hc : c == 91 with
      | false => rfl
      | true => exact absurd (by rw [hf]; simp at hc; rw [hc]) h2
    simp [c1, c2]

theorem fatal_garbage_object (st : Core) (raw : Text) (h1 : firstNonWs raw = some 123)
    (h2 : classifyIncoming raw = .garbage) :
    (handleBack st raw).fatal = some .unparseable ∧ (handleBack st raw).st = st ∧ (handleBack st raw).effs = [] := by
  unfold handleBack
  simp [h1, handleSingle, h2]

theorem fatal_bad_array (st : Core) (raw : Text) (h1 : firstNonWs raw = some 91) (h2 : elements raw = none) :
    (handleBack st raw).fatal = some .unparseable ∧ (handleBack st raw).st = st ∧ (handleBack st raw).effs = [] := by
  unfold handleBack
  simp [h1, h2]

theorem handleBack_array (st : Core) (raw : Text) (es : List Text) (h1 : firstNonWs raw = some 91)
    (h2 : elements raw = some es) : handleBack st raw = handleArray st es := by
  unfold handleBack
  simp [h1, h2]

theorem fatal_empty_array (st : Core) (raw : Text) (h1 : firstNonWs raw = some 91) (h2 : elements raw = some []) :
    (handleBack st raw).fatal = some (.batch .empty) ∧ (handleBack st raw).st = st ∧ (handleBack st raw).effs = [] := by
  rw [handleBack_array st raw [] h1 h2]
  simp [handleArray, arrayLoop, arrayFinish, dropQueued]

theorem arrayLoop_garbage (es : List Text) (hg : ∃ e ∈ es, classifyIncoming e = .garbage) :
    ∀ acc, (arrayLoop acc es).2.isSome = true := by
  induction es with
  | nil => obtain ⟨e, he, _⟩ := hg; simp at he
  | cons e rest ih =>
    intro acc
    rw [arrayLoop]
    cases hc : classifyIncoming e with
    | garbage => rfl
    | response r =>
      have hg' : ∃ e ∈ rest, classifyIncoming e = .garbage := by
        obtain ⟨x, hx, hxg⟩ := hg
        rcases List.mem_cons.1 hx with e1 | e1
        · subst e1; rw [hc] at hxg; simp at hxg
        · exact ⟨x, e1, hxg⟩
      simp only
      cases idNum r.id with
      | none => rfl
      | some _ => exact ih hg' _
    | subNotif s p =>
      have hg' : ∃ e ∈ rest, classifyIncoming e = .garbage := by
        obtain ⟨x, hx, hxg⟩ := hg
        rcases List.mem_cons.1 hx with e1 | e1
        · subst e1; rw [hc] at hxg; simp at hxg
        · exact ⟨x, e1, hxg⟩
      exact ih hg' _
    | subClose s =>
      have hg' : ∃ e ∈ rest, classifyIncoming e = .garbage := by
        obtain ⟨x, hx, hxg⟩ := hg
        rcases List.mem_cons.1 hx with e1 | e1
        · subst e1; rw [hc] at hxg; simp at hxg
        · exact ⟨x, e1, hxg⟩
      exact ih hg' _
    | notif m p =>
      have hg' : ∃ e ∈ rest, classifyIncoming e = .garbage := by
        obtain ⟨x, hx, hxg⟩ := hg
        rcases List.mem_cons.1 hx with e1 | e1
        · subst e1; rw [hc] at hxg; simp at hxg
        · exact ⟨x, e1, hxg⟩
      exact ih hg' _

/-- an array with an element that is no JSON-RPC message ends the read task (with `unparseable`,
or with the id error of an earlier entry) -/
theorem fatal_garbage_element (st : Core) (raw : Text) (es : List Text) (h1 : firstNonWs raw = some 91)
    (h2 : elements raw = some es) (hg : ∃ e ∈ es, classifyIncoming e = .garbage) :
    (handleBack st raw).fatal.isSome = true := by
  rw [handleBack_array st raw es h1 h2]
  unfold handleArray
  have := arrayLoop_garbage es hg { st := st }
  cases hl : arrayLoop { st := st } es with
  | mk acc f =>
    rw [hl] at this
    cases f with
    | none => simp at this
    | some f => rfl

theorem fatal_unknown_id (st : Core) (raw : Text) (r : Response) (hd : decodeResponse raw = some r)
    (hs : st.mgr.requestStatus r.id = .invalid ∨ st.mgr.requestStatus r.id = .sub) :
    (handleBack st raw).fatal = some (.notPending r.id) ∧ (handleBack st raw).st = st ∧ (handleBack st raw).effs = [] := by
  rw [handleBack_single_response st raw r hd]
  unfold processSingleResponse
  rcases hs with hs | hs <;> simp [hs]

/-- the reply array ran through the loop and its largest id is 2^64-1: `checked_add(1)` fails -/
theorem fatal_max_id (st : Core) (raw : Text) (es : List Text) (acc : ArrAcc) (lo : Nat)
    (h1 : firstNonWs raw = some 91) (h2 : elements raw = some es)
    (hl : arrayLoop { st := st } es = (acc, none)) (hr : acc.range = some (lo, u64Max)) :
    (handleBack st raw).fatal = some (.batch (.invalidNum u64Max)) ∧ completions (handleBack st raw).effs = completions acc.effs := by
  rw [handleBack_array st raw es h1 h2]
  simp [handleArray, hl, arrayFinish, hr, rangeEnd, completions_dropQueued]

/-- a reply whose id range matches no pending batch -/
theorem fatal_unknown_batch (st : Core) (raw : Text) (es : List Text) (acc : ArrAcc) (lo hi : Nat)
    (h1 : firstNonWs raw = some 91) (h2 : elements raw = some es)
    (hl : arrayLoop { st := st } es = (acc, none)) (hr : acc.range = some (lo, hi)) (hne : hi ≠ u64Max)
    (hb : alookup (lo, hi + 1) acc.st.mgr.batches = none) :
    (handleBack st raw).fatal = some (.batch (.notPendingRange lo (hi + 1))) := by
  rw [handleBack_array st raw es h1 h2]
  simp [handleArray, hl, arrayFinish, hr, rangeEnd, hne, processBatchResponse, Mgr.completePendingBatch, hb]

/-! ### the id arithmetic of the batch path stays inside u64 -/

theorem idNum_fits (id : Id) (n : Nat) (hf : idFits id) (h : idNum id = some n) : n ≤ u64Max := by
  cases id with
  | null => simp [idNum] at h
  | num k => simp [idNum] at h; subst h; exact hf
  | str s =>
    simp only [idNum, parseU64Str] at h
    split at h
    · simp at h
    · split at h
      · split at h
        · simp at h; subst h; unfold u64Max; omega
        · simp at h
      · simp at h

theorem decodeId_fits (raw : Text) (id : Id) (h : decodeId raw = some id) : idFits id := by
  unfold decodeId at h
  split at h
  · simp at h; subst h; trivial
  · split at h
    · rename_i n hn
      simp at h; subst h
      unfold decodeU64 at hn
      split at hn
      · split at hn
        · simp at hn; subst hn; simp only [idFits]; unfold u64Max; omega
        · simp at hn
      · simp at hn
    · split at h
      · simp at h; subst h; trivial
      · simp at h

theorem respCore_idFits (cj cr ce ci : Nat) (j r e i : Option Text) (resp : Response)
    (h : respCore cj cr ce ci j r e i = some resp) : idFits resp.id := by
  unfold respCore at h
  split at h
  · simp at h
  · simp only at h
    split at h
    · split at h
      · simp at h
      · rename_i id hid
        have hf := decodeId_fits _ _ hid
        split at h
        · simp at h
        · simp at h; rw [← h]; exact hf
        · split at h
          · simp at h; rw [← h]; exact hf
          · simp at h
        · simp at h
    · simp at h

theorem decodeResponse_idFits (raw : Text) (r : Response) (h : decodeResponse raw = some r) : idFits r.id := by
  unfold decodeResponse at h
  split at h
  · simp at h
  · split at h
    · simp at h
    · exact respCore_idFits _ _ _ _ _ _ _ _ _ h

def RangeFits : Option (Nat × Nat) → Prop
  | none => True
  | some (lo, hi) => lo ≤ hi ∧ hi ≤ u64Max

theorem widen_fits (r : Option (Nat × Nat)) (id : Nat) (h : RangeFits r) (hid : id ≤ u64Max) : RangeFits (some (widen r id)) := by
  unfold widen
  cases r with
  | none => exact ⟨Nat.le_refl _, hid⟩
  | some p =>
    obtain ⟨lo, hi⟩ := p
    simp only [RangeFits] at h ⊢
    constructor <;> (repeat' split) <;> omega

theorem arrayLoop_rangeFits (es : List Text) : ∀ (acc acc' : ArrAcc) (f : Option Fatal),
    arrayLoop acc es = (acc', f) → RangeFits acc.range → RangeFits acc'.range := by
  induction es with
  | nil => intro acc acc' f h hr; simp [arrayLoop] at h; rw [← h.1]; exact hr
  | cons e rest ih =>
    intro acc acc' f h hr
    rw [arrayLoop] at h
    cases hc : classifyIncoming e with
    | response r =>
      simp only [hc] at h
      cases hid : idNum r.id with
      | none => simp [hid] at h; rw [← h.1]; exact hr
      | some id =>
        simp only [hid] at h
        have hfit := idNum_fits r.id id (decodeResponse_idFits e r ((classify_response e r).1 hc)) hid
        exact ih _ _ _ h (widen_fits acc.range id hr hfit)
    | garbage => simp [hc] at h; rw [← h.1]; exact hr
    | subNotif s p => simp only [hc] at h; exact ih _ _ _ h hr
    | subClose s => simp only [hc] at h; exact ih _ _ _ h hr
    | notif m p => simp only [hc] at h; exact ih _ _ _ h hr

/-- `range.end.checked_add(1)`: either the exact successor, still a u64, or the `Invalid` error at 2^64-1 -/
theorem rangeEnd_fits (hi : Nat) (h : hi ≤ u64Max) :
    (rangeEnd hi = .ok (hi + 1) ∧ hi + 1 ≤ u64Max) ∨ (hi = u64Max ∧ rangeEnd hi = .err (.invalidNum hi)) := by
  unfold rangeEnd
  by_cases e : hi = u64Max
  · right; exact ⟨e, by simp [e]⟩
  · left; exact ⟨by simp [e], by omega⟩

/-! ### liveness bookkeeping -/

/-- a background task has left its loop, or the watcher has returned -/
def shuttingDown (s : State) : Prop :=
  (s.sendP ≠ .idle ∧ s.sendP ≠ .sending) ∨ s.readP ≠ .idle ∨ s.watcherDone = true

structure LInv (o : ExitOrder) (s : State) : Prop where
  cfClosing : o = .causeFirst → ∀ r, s.sendP = .closingTransport r → r = none
  handed : (s.readP = .done ∨ s.sendP = .awaitWatcher ∨ s.sendP = .done) → s.watcherDone = true ∨ s.closeBuf.isSome = true
  failed : s.failures ≠ [] → shuttingDown s

theorem linv_init (o : ExitOrder) (fcap : Nat) : LInv o (init fcap) := by
  constructor <;> simp [init]

theorem linv_step (o : ExitOrder) (s : State) (op : Op) (h : Inv o s) (hl : LInv o s) : LInv o (step o s op) := by
  obtain ⟨h1, h2, h3, h4, h5, h6, h7, h8, h9, h10, h11, h12, h13⟩ := h
  obtain ⟨l0, l1, l2⟩ := hl
  unfold shuttingDown at l2
  cases op <;> simp only [step]
  case watch => unfold watch; constructor <;> grind [shuttingDown]
  case frontNew r => unfold frontNew admitted; constructor <;> grind [shuttingDown]
  case frontRetry i => unfold frontRetry admitted State.setPhase; constructor <;> grind [shuttingDown]
  case frontDrop i => unfold frontDrop senderDropped State.setPhase; constructor <;> grind [shuttingDown]
  case frontReadError i => unfold frontReadError slotResult State.setPhase; constructor <;> grind [shuttingDown]
  case frontTimer i => unfold frontTimer State.setPhase; constructor <;> grind [shuttingDown]
  case consumerMsg => unfold consumerMsg; constructor <;> grind [shuttingDown]
  case frontWatch => unfold frontWatch; constructor <;> grind [shuttingDown]
  case taskAnswers i => unfold taskAnswers completeOne State.setPhase; constructor <;> grind [shuttingDown]
  case sendTake => unfold sendTake; constructor <;> grind [shuttingDown]
  case sendOk => unfold sendOk; constructor <;> grind [shuttingDown]
  case sendErr t => unfold sendErr exitLoop; constructor <;> grind [shuttingDown]
  case pingErr t => unfold pingErr exitLoop; constructor <;> grind [shuttingDown]
  case sendSeesClosed => unfold sendSeesClosed exitLoop; constructor <;> grind [shuttingDown]
  case sendTransportClosed => unfold sendTransportClosed afterTransportClose; constructor <;> grind [shuttingDown, pastClose]
  case sendReport => unfold sendReport afterReport; constructor <;> grind [shuttingDown]
  case sendWatcherGone => unfold sendWatcherGone; constructor <;> grind [shuttingDown]
  case readOk a n => unfold readOk completeOne State.setPhase; constructor <;> grind [shuttingDown]
  case readErr c => unfold readErr; constructor <;> grind [shuttingDown]
  case readSeesClosed => unfold readSeesClosed; constructor <;> grind [shuttingDown]
  case readReport => unfold readReport; constructor <;> grind [shuttingDown]

theorem linv_run (o : ExitOrder) (ops : List Op) : ∀ s, Inv o s → LInv o s → LInv o (run o s ops) := by
  induction ops with
  | nil => intro s _ h; exact h
  | cons op rest ih => intro s h hl; exact ih _ (inv_step o s op h) (linv_step o s op h hl)

/-! ### progress: once a task has failed, the shutdown completes -/

/-- the part of the state the background steps of the shutdown depend on -/
structure Ctrl where
  sendP : SendPhase
  readP : ReadPhase
  closeBuf : Option Res
  watcherDone : Bool

def ctrl (s : State) : Ctrl := ⟨s.sendP, s.readP, s.closeBuf, s.watcherDone⟩

def cstep (o : ExitOrder) (c : Ctrl) : Op → Ctrl
  | .watch =>
    if c.watcherDone then c else
    (match c.closeBuf with
     | none => c
     | some _ => { c with closeBuf := none, watcherDone := true })
  | .sendTransportClosed =>
    (match c.sendP with
     | .closingTransport r => { c with sendP := afterTransportClose o r }
     | _ => c)
  | .sendReport =>
    (match c.sendP with
     | .reporting r =>
       if c.watcherDone then { c with sendP := afterReport o }
       else if c.closeBuf.isNone then { c with closeBuf := some r, sendP := afterReport o }
       else c
     | _ => c)
  | .readReport =>
    (match c.readP with
     | .reporting r =>
       if c.watcherDone then { c with readP := .done }
       else if c.closeBuf.isNone then { c with closeBuf := some r, readP := .done }
       else c
     | _ => c)
  | .sendOk => if c.sendP = .sending then { c with sendP := .idle } else c
  | .sendSeesClosed =>
    if c.sendP = .idle ∧ c.watcherDone = true then
      { c with sendP := match o with
                        | .frontFirst => .closingTransport none
                        | .causeFirst => .reporting none }
    else c
  | .sendWatcherGone =>
    if c.sendP = .awaitWatcher ∧ c.watcherDone = true then { c with sendP := .closingTransport none } else c
  | .readSeesClosed => if c.readP = .idle ∧ c.watcherDone = true then { c with readP := .reporting none } else c
  | _ => c

def isShutdownOp : Op → Bool
  | .watch | .sendTransportClosed | .sendReport | .readReport | .sendOk | .sendSeesClosed | .sendWatcherGone
  | .readSeesClosed => true
  | _ => false

theorem ctrl_step (o : ExitOrder) (s : State) (op : Op) (hb : isShutdownOp op = true) :
    ctrl (step o s op) = cstep o (ctrl s) op := by
  obtain ⟨fcap, fc, q, buf, wd, cause, cw, sp, rp, tc, fr, fl⟩ := s
  cases op <;> simp [isShutdownOp] at hb <;> simp only [step, cstep, ctrl]
  case watch =>
    unfold watch
    cases wd <;> simp
    cases buf <;> simp
    rename_i r; cases r <;> simp
  case sendTransportClosed => unfold sendTransportClosed; cases sp <;> simp
  case sendReport =>
    unfold sendReport
    cases sp <;> simp
    cases wd <;> cases buf <;> simp
  case readReport =>
    unfold readReport
    cases rp <;> simp
    cases wd <;> cases buf <;> simp
  case sendOk => unfold sendOk; cases sp <;> simp
  case sendSeesClosed => unfold sendSeesClosed exitLoop; cases sp <;> cases wd <;> cases o <;> simp
  case sendWatcherGone => unfold sendWatcherGone; cases sp <;> cases wd <;> simp
  case readSeesClosed => unfold readSeesClosed; cases rp <;> cases wd <;> simp

/-- the background steps that finish a shutdown, provided the transport returns from `send`
(`sendOk`) and from `close` (`sendTransportClosed`) -/
def shutdownSchedule : List Op :=
  [.watch, .sendTransportClosed, .sendReport, .readReport, .watch, .sendOk, .sendSeesClosed, .sendReport,
   .sendWatcherGone, .sendTransportClosed, .sendReport, .readSeesClosed, .readReport]

theorem ctrl_run (o : ExitOrder) (ops : List Op) (hb : ∀ op ∈ ops, isShutdownOp op = true) :
    ∀ s, ctrl (run o s ops) = ops.foldl (cstep o) (ctrl s) := by
  induction ops with
  | nil => intro s; rfl
  | cons op rest ih =>
    intro s
    simp only [run, List.foldl]
    rw [ih (fun x hx => hb x (List.mem_cons_of_mem _ hx)), ctrl_step o s op (hb op List.mem_cons_self)]

theorem shutdown_ctrl (o : ExitOrder) (c : Ctrl)
    (g1 : c.closeBuf ≠ some none)
    (g2 : (c.sendP = .reporting none ∨ c.sendP = .closingTransport none) → c.watcherDone = true)
    (g3 : c.readP = .reporting none → c.watcherDone = true)
    (l0 : o = .causeFirst → ∀ r, c.sendP = .closingTransport r → r = none)
    (l1 : (c.readP = .done ∨ c.sendP = .awaitWatcher ∨ c.sendP = .done) → c.watcherDone = true ∨ c.closeBuf.isSome = true)
    (hs : (c.sendP ≠ .idle ∧ c.sendP ≠ .sending) ∨ c.readP ≠ .idle ∨ c.watcherDone = true) :
    (shutdownSchedule.foldl (cstep o) c).sendP = .done ∧ (shutdownSchedule.foldl (cstep o) c).readP = .done := by
  obtain ⟨sp, rp, buf, wd⟩ := c
  simp only at g1 g2 g3 l0 l1 hs
  cases o <;> cases sp <;> cases rp <;> cases wd <;> cases buf <;>
    simp_all [shutdownSchedule, List.foldl, cstep, afterTransportClose, afterReport]

theorem shutdown_completes (o : ExitOrder) (s : State) (h : Inv o s) (hl : LInv o s) (hs : shuttingDown s) :
    (run o s shutdownSchedule).sendP = .done ∧ (run o s shutdownSchedule).readP = .done := by
  have hc := ctrl_run o shutdownSchedule (by decide) s
  have := shutdown_ctrl o (ctrl s) h.bufErr h.sendNone h.readNone hl.cfClosing hl.handed hs
  rw [← hc] at this
  exact this

/-! ### an answered future is never dropped silently -/

/-- the oneshot of ticket `t` is sent on (`complete`) — or found without a receiver (`dropped`) -/
def Answered (t : Ticket) (effs : List Effect) : Prop :=
  ∃ o, Effect.complete t o ∈ effs ∨ Effect.dropped t o ∈ effs

theorem answered_completeIfAlive (st : Core) (t : Ticket) (o : Outcome) : Answered t (st.completeIfAlive t o) := by
  unfold Core.completeIfAlive
  split
  · exact ⟨o, Or.inl (by simp)⟩
  · exact ⟨o, Or.inr (by simp)⟩

theorem answered_completeSubscribe (st : Core) (r : Response) (uid : Id) (t : Ticket) (um : Text) :
    Answered t (completeSubscribe st r uid t um).2 := by
  unfold completeSubscribe
  cases r.payload with
  | error e => exact answered_completeIfAlive st t _
  | result raw =>
    simp only
    cases decodeSubId raw with
    | none => exact answered_completeIfAlive st t _
    | some s =>
      simp only
      cases st.mgr.insertSubscription r.id uid s st.chans.length um with
      | none => exact answered_completeIfAlive st t _
      | some m' =>
        simp only
        by_cases hal : st.alive t = true
        · simp only [hal, if_true]; exact ⟨.subscribed st.chans.length s, Or.inl (by simp)⟩
        · simp only [hal, Bool.false_eq_true, if_false]
          unfold abandonedSubscribe
          exact ⟨.subscribed st.chans.length s, Or.inr (by simp)⟩

/-- a single response that is handled without a fatal error and bears the id under which a call or a
subscribe waits: the waiting future's oneshot is sent on in this very step, whatever the payload -/
theorem answered_processSingleResponse (st st' : Core) (r : Response) (effs : List Effect) (t : Ticket)
    (hp : processSingleResponse st r = .ok (st', effs))
    (hw : alookup r.id st.mgr.requests = some (.pendingCall (some t)) ∨
          ∃ uid um, alookup r.id st.mgr.requests = some (.pendingSub uid t um)) :
    Answered t effs := by
  unfold processSingleResponse at hp
  rcases hw with hw | ⟨uid, um, hw⟩
  · have hs : st.mgr.requestStatus r.id = .pendingCall := by simp [Mgr.requestStatus, hw]
    simp only [hs] at hp
    have hc : st.mgr.completePendingCall r.id = some ({ st.mgr with requests := aerase r.id st.mgr.requests }, some t) := by
      simp [Mgr.completePendingCall, hw]
    simp [hc] at hp
    rw [← hp.2]
    exact answered_completeIfAlive st t _
  · have hs : st.mgr.requestStatus r.id = .pendingSub := by simp [Mgr.requestStatus, hw]
    simp only [hs] at hp
    have hc : st.mgr.completePendingSubscription r.id =
        some ({ st.mgr with requests := aerase r.id st.mgr.requests }, uid, t, um) := by
      simp [Mgr.completePendingSubscription, hw]
    simp [hc] at hp
    have := answered_completeSubscribe { st with mgr := { st.mgr with requests := aerase r.id st.mgr.requests } } r uid t um
    rw [hp] at this
    exact this

/-- with a call or subscribe waiting under the response's id the handler cannot fail: it returns `Ok` -/
theorem processSingleResponse_ok_of_waiting (st : Core) (r : Response) (t : Ticket)
    (hw : alookup r.id st.mgr.requests = some (.pendingCall (some t)) ∨
          ∃ uid um, alookup r.id st.mgr.requests = some (.pendingSub uid t um)) :
    ∃ st' effs, processSingleResponse st r = .ok (st', effs) := by
  unfold processSingleResponse
  rcases hw with hw | ⟨uid, um, hw⟩
  · have hs : st.mgr.requestStatus r.id = .pendingCall := by simp [Mgr.requestStatus, hw]
    have hc : st.mgr.completePendingCall r.id = some ({ st.mgr with requests := aerase r.id st.mgr.requests }, some t) := by
      simp [Mgr.completePendingCall, hw]
    simp only [hs, hc]
    exact ⟨_, _, rfl⟩
  · have hs : st.mgr.requestStatus r.id = .pendingSub := by simp [Mgr.requestStatus, hw]
    have hc : st.mgr.completePendingSubscription r.id =
        some ({ st.mgr with requests := aerase r.id st.mgr.requests }, uid, t, um) := by
      simp [Mgr.completePendingSubscription, hw]
    simp only [hs, hc]
    exact ⟨_, _, rfl⟩

theorem answered_handleBack (st : Core) (raw : Text) (r : Response) (t : Ticket) (hd : decodeResponse raw = some r)
    (hw : alookup r.id st.mgr.requests = some (.pendingCall (some t)) ∨
          ∃ uid um, alookup r.id st.mgr.requests = some (.pendingSub uid t um)) :
    (handleBack st raw).fatal = none ∧ Answered t (handleBack st raw).effs := by
  obtain ⟨st', effs, hp⟩ := processSingleResponse_ok_of_waiting st r t hw
  rw [handleBack_single_response st raw r hd, hp]
  exact ⟨rfl, answered_processSingleResponse st st' r effs t hp hw⟩


end Jrpc.ClientTasks
