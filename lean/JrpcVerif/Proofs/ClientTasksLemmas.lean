/-
  Lemmas for C09 (Layer B protocol machine of Model/ClientTasks.lean, and the panic sites /
  table invariant of Layer A).
-/
import JrpcVerif.Model.ClientTasks
import JrpcVerif.Proofs.ClientStepLemmas
namespace Jrpc.ClientTasks
open Jrpc Jrpc.Client

/-! ### unconditional invariants of the protocol machine (both exit orders) -/

/-- send-task phases in which `from_frontend.close()` has already been executed -/
def pastClose : ExitOrder → SendPhase → Bool
  | _, .closingTransport _ => true
  | _, .done => true
  | .frontFirst, .reporting _ => true
  | _, _ => false

structure Inv (o : ExitOrder) (s : State) : Prop where
  bufErr : s.closeBuf ≠ some none
  sendNone : (s.sendP = .reporting none ∨ s.sendP = .closingTransport none) → s.watcherDone = true
  readNone : s.readP = .reporting none → s.watcherDone = true
  doneCause : s.watcherDone = true → s.cause.isSome = true
  notDone : s.watcherDone = false → s.cause = none ∧ s.causeWrites = 0
  writes : s.causeWrites ≤ 1
  pastC : pastClose o s.sendP = true → s.frontClosed = true
  disc : ∀ i : Nat, s.fronts[i]? = some FPhase.disconnected → s.frontClosed = true
  restart : ∀ (i : Nat) (c : Cause), s.fronts[i]? = some (FPhase.resolved (.restart c)) → s.cause = some c
  causeReal : ∀ c, s.cause = some c → c ∈ s.failures
  bufReal : ∀ c, s.closeBuf = some (some c) → c ∈ s.failures
  sendReal : ∀ c, (s.sendP = .reporting (some c) ∨ s.sendP = .closingTransport (some c)) → c ∈ s.failures
  readReal : ∀ c, s.readP = .reporting (some c) → c ∈ s.failures

theorem inv_step (o : ExitOrder) (s : State) (op : Op) (h : Inv o s) : Inv o (step o s op) := by
  obtain ⟨h1, h2, h3, h4, h5, h6, h7, h8, h9, h10, h11, h12, h13⟩ := h
  cases op <;> simp only [step]
  case watch => unfold watch; constructor <;> grind
  case frontNew r => unfold frontNew admitted; constructor <;> grind
  case frontRetry i => unfold frontRetry admitted State.setPhase; constructor <;> grind
  case frontDrop i => unfold frontDrop senderDropped State.setPhase; constructor <;> grind [pastClose]
  case frontReadError i => unfold frontReadError slotResult State.setPhase; constructor <;> grind [pastClose]
  case frontTimer i => unfold frontTimer State.setPhase; constructor <;> grind [pastClose]
  case sendTake => unfold sendTake; constructor <;> grind [pastClose]
  case sendOk => unfold sendOk; constructor <;> grind [pastClose]
  case sendErr t => unfold sendErr exitLoop; constructor <;> grind [pastClose]
  case pingErr t => unfold pingErr exitLoop; constructor <;> grind [pastClose]
  case sendSeesClosed => unfold sendSeesClosed exitLoop; constructor <;> grind [pastClose]
  case sendTransportClosed => unfold sendTransportClosed afterTransportClose; constructor <;> grind [pastClose]
  case sendReport => unfold sendReport afterReport; constructor <;> grind [pastClose]
  case sendWatcherGone => unfold sendWatcherGone; constructor <;> grind [pastClose]
  case readOk a n => unfold readOk completeOne State.setPhase; constructor <;> grind [pastClose]
  case readErr c => unfold readErr; constructor <;> grind [pastClose]
  case readSeesClosed => unfold readSeesClosed; constructor <;> grind [pastClose]
  case readReport => unfold readReport; constructor <;> grind [pastClose]

theorem inv_init (o : ExitOrder) (fcap : Nat) : Inv o (init fcap) := by
  constructor <;> simp [init, pastClose]

theorem run_nil (o : ExitOrder) (s : State) : run o s [] = s := rfl
theorem run_cons (o : ExitOrder) (s : State) (op : Op) (rest : List Op) :
    run o s (op :: rest) = run o (step o s op) rest := rfl

theorem run_append (o : ExitOrder) (a b : List Op) : ∀ s, run o s (a ++ b) = run o (run o s a) b := by
  induction a with
  | nil => intro s; rfl
  | cons x xs ih => intro s; simp only [List.cons_append, run_cons]; exact ih _

theorem inv_run (o : ExitOrder) (ops : List Op) : ∀ s, Inv o s → Inv o (run o s ops) := by
  induction ops with
  | nil => intro s h; exact h
  | cons op rest ih => intro s h; exact ih _ (inv_step o s op h)

/-! ### the cause is recorded before the front channel closes -/

/-- a step is *safe* if the exit order is the fixed one or the step is no send-side failure -/
def Safe (o : ExitOrder) (op : Op) : Prop := o = .causeFirst ∨ isSendFailure op = false

structure CInv (s : State) : Prop where
  closed : s.frontClosed = true → s.watcherDone = true
  noPh : ∀ i : Nat, s.fronts[i]? ≠ some (FPhase.resolved .placeholder)

theorem cinv_init (fcap : Nat) : CInv (init fcap) := by
  constructor <;> simp [init]

theorem cinv_step (o : ExitOrder) (s : State) (op : Op) (h : Inv o s) (hc : CInv s) (hs : Safe o op) :
    CInv (step o s op) := by
  obtain ⟨h1, h2, h3, h4, h5, h6, h7, h8, h9, h10, h11, h12, h13⟩ := h
  obtain ⟨c1, c2⟩ := hc
  cases op <;> simp only [step]
  case watch => unfold watch; constructor <;> grind
  case frontNew r => unfold frontNew admitted; constructor <;> grind
  case frontRetry i => unfold frontRetry admitted State.setPhase; constructor <;> grind
  case frontDrop i => unfold frontDrop senderDropped State.setPhase; constructor <;> grind
  case frontReadError i => unfold frontReadError slotResult State.setPhase; constructor <;> grind
  case frontTimer i => unfold frontTimer State.setPhase; constructor <;> grind
  case sendTake => unfold sendTake; constructor <;> grind
  case sendOk => unfold sendOk; constructor <;> grind
  case sendErr t =>
    rcases hs with hs | hs
    · subst hs; unfold sendErr exitLoop; constructor <;> grind
    · simp [isSendFailure] at hs
  case pingErr t =>
    rcases hs with hs | hs
    · subst hs; unfold pingErr exitLoop; constructor <;> grind
    · simp [isSendFailure] at hs
  case sendSeesClosed => unfold sendSeesClosed exitLoop; constructor <;> grind
  case sendTransportClosed => unfold sendTransportClosed afterTransportClose; constructor <;> grind
  case sendReport => unfold sendReport afterReport; constructor <;> grind
  case sendWatcherGone => unfold sendWatcherGone; constructor <;> grind
  case readOk a n => unfold readOk completeOne State.setPhase; constructor <;> grind
  case readErr c => unfold readErr; constructor <;> grind
  case readSeesClosed => unfold readSeesClosed; constructor <;> grind
  case readReport => unfold readReport; constructor <;> grind

theorem cinv_run (o : ExitOrder) (ops : List Op) (hs : o = .causeFirst ∨ noSendFailure ops = true) :
    ∀ s, Inv o s → CInv s → CInv (run o s ops) := by
  induction ops with
  | nil => intro s _ h; exact h
  | cons op rest ih =>
    intro s h hc
    have hsafe : Safe o op := by
      rcases hs with hs | hs
      · exact Or.inl hs
      · simp [noSendFailure] at hs; exact Or.inr hs.1
    have hrest : o = .causeFirst ∨ noSendFailure rest = true := by
      rcases hs with hs | hs
      · exact Or.inl hs
      · simp [noSendFailure] at hs; exact Or.inr hs.2
    exact ih hrest _ (inv_step o s op h) (cinv_step o s op h hc hsafe)

/-! ### the slot is written at most once and never changes afterwards -/

theorem cause_stable_step (o : ExitOrder) (s : State) (op : Op) (h : Inv o s) (c : Cause) (hc : s.cause = some c) :
    (step o s op).cause = some c := by
  have hd : s.watcherDone = true := by
    cases hw : s.watcherDone with
    | true => rfl
    | false => have := (h.notDone hw).1; simp_all
  cases op <;> simp only [step]
  case watch => unfold watch; simp [hd, hc]
  case frontNew r => unfold frontNew; grind
  case frontRetry i => unfold frontRetry State.setPhase; grind
  case frontDrop i => unfold frontDrop State.setPhase; grind
  case frontReadError i => unfold frontReadError State.setPhase; grind
  case frontTimer i => unfold frontTimer State.setPhase; grind
  case sendTake => unfold sendTake; grind
  case sendOk => unfold sendOk; grind
  case sendErr t => unfold sendErr exitLoop; grind
  case pingErr t => unfold pingErr exitLoop; grind
  case sendSeesClosed => unfold sendSeesClosed exitLoop; grind
  case sendTransportClosed => unfold sendTransportClosed; grind
  case sendReport => unfold sendReport; grind
  case sendWatcherGone => unfold sendWatcherGone; grind
  case readOk a n => unfold readOk completeOne State.setPhase; grind
  case readErr c => unfold readErr; grind
  case readSeesClosed => unfold readSeesClosed; grind
  case readReport => unfold readReport; grind

theorem cause_stable_run (o : ExitOrder) (ops : List Op) (c : Cause) :
    ∀ s, Inv o s → s.cause = some c → (run o s ops).cause = some c := by
  induction ops with
  | nil => intro s _ h; exact h
  | cons op rest ih => intro s h hc; exact ih _ (inv_step o s op h) (cause_stable_step o s op h c hc)

/-! ### a resolved future stays resolved with the same value -/

theorem resolved_stable_step (o : ExitOrder) (s : State) (op : Op) (i : Nat) (r : FRes)
    (h : s.fronts[i]? = some (FPhase.resolved r)) : (step o s op).fronts[i]? = some (FPhase.resolved r) := by
  cases op <;> simp only [step]
  case watch => unfold watch; grind
  case frontNew r => unfold frontNew; grind
  case frontRetry i => unfold frontRetry State.setPhase; grind
  case frontDrop i => unfold frontDrop senderDropped State.setPhase; grind
  case frontReadError i => unfold frontReadError State.setPhase; grind
  case frontTimer i => unfold frontTimer State.setPhase; grind
  case sendTake => unfold sendTake; grind
  case sendOk => unfold sendOk; grind
  case sendErr t => unfold sendErr exitLoop; grind
  case pingErr t => unfold pingErr exitLoop; grind
  case sendSeesClosed => unfold sendSeesClosed exitLoop; grind
  case sendTransportClosed => unfold sendTransportClosed; grind
  case sendReport => unfold sendReport; grind
  case sendWatcherGone => unfold sendWatcherGone; grind
  case readOk a n => unfold readOk completeOne State.setPhase; grind
  case readErr c => unfold readErr; grind
  case readSeesClosed => unfold readSeesClosed; grind
  case readReport => unfold readReport; grind

end Jrpc.ClientTasks
