/-
  Helper lemmas for the server connection-lifecycle machines (C11 `ConnGuard`, C10 `Stop`).
-/
import JrpcVerif.Model.ConnGuard
namespace Jrpc.ConnGuard

/-! ### list helpers -/

theorem phaseOf_none_of_not_holds (cs : List Conn) (c : Nat) (h : holds cs c = false) : phaseOf cs c = none := by
  fun_induction holds cs c <;> simp_all [phaseOf]

theorem holds_of_phaseOf (cs : List Conn) (c : Nat) (p : Phase) (h : phaseOf cs c = some p) : holds cs c = true := by
  fun_induction phaseOf cs c <;> simp_all [holds]

theorem length_removeConn (cs : List Conn) (c : Nat) (p : Phase) (h : phaseOf cs c = some p) :
    (removeConn cs c).length + 1 = cs.length := by
  fun_induction removeConn cs c <;> simp_all [phaseOf]

theorem length_setPhase (cs : List Conn) (c : Nat) (p : Phase) : (setPhase cs c p).length = cs.length := by
  fun_induction setPhase cs c p <;> simp_all

theorem holds_removeConn_other (cs : List Conn) (c d : Nat) (h : holds cs d = false) : holds (removeConn cs c) d = false := by
  fun_induction removeConn cs c <;> simp_all [holds]
  all_goals (split at h <;> simp_all)

theorem holds_setPhase (cs : List Conn) (c d : Nat) (p : Phase) : holds (setPhase cs c p) d = holds cs d := by
  fun_induction setPhase cs c p <;> simp_all [holds]

/-! ### the invariant -/

/-- `avail + active = max` -/
def Inv (s : State) : Prop := s.avail + s.conns.length = s.cfg.max

def Reachable (s : State) : Prop := ∃ cfg ops, s = run (init cfg) ops

theorem inv_init (cfg : Cfg) : Inv (init cfg) := by simp [Inv, init]

theorem arrive_cfg (s : State) (c : Nat) (p : Phase) (e h : Bool) : (arrive s c p e h).1.cfg = s.cfg := by
  unfold arrive grant; repeat' split
  all_goals rfl

theorem release_cfg (s : State) (c : Nat) (p : Phase) : (release s c p).1.cfg = s.cfg := by
  unfold release; split <;> rfl

theorem step_cfg (s : State) (op : Op) : (step s op).1.cfg = s.cfg := by
  cases op <;> simp only [step, arrive_cfg, release_cfg]
  split <;> rfl

theorem inv_arrive (s : State) (c : Nat) (p : Phase) (e h : Bool) (hi : Inv s) : Inv (arrive s c p e h).1 := by
  unfold arrive grant; repeat' split
  all_goals simp_all [Inv]
  omega

theorem inv_release (s : State) (c : Nat) (p : Phase) (hi : Inv s) : Inv (release s c p).1 := by
  unfold release; split
  · rename_i h
    have := length_removeConn s.conns c p (by simpa using h)
    simp_all [Inv]; omega
  · exact hi

theorem inv_step (s : State) (op : Op) (hi : Inv s) : Inv (step s op).1 := by
  cases op <;> simp only [step]
  case wsUpgradeDone c =>
    split
    · simpa [Inv, length_setPhase] using hi
    · exact hi
  all_goals first | exact inv_arrive _ _ _ _ _ hi | exact inv_release _ _ _ hi

theorem run_inv (s : State) (ops : List Op) (hi : Inv s) : Inv (run s ops) := by
  induction ops generalizing s with
  | nil => exact hi
  | cons op r ih => exact ih _ (inv_step s op hi)

theorem run_cfg (s : State) (ops : List Op) : (run s ops).cfg = s.cfg := by
  induction ops generalizing s with
  | nil => rfl
  | cons op r ih => simp [run, ih, step_cfg]

theorem run_append (s : State) (a b : List Op) : run s (a ++ b) = run (run s a) b := by
  induction a generalizing s with
  | nil => rfl
  | cons op r ih => simp [run, ih]

/-- generic lifting: an invariant of `step` holds in every reachable state -/
theorem reachable_inv (s : State) (h : Reachable s) : Inv s := by
  obtain ⟨cfg, ops, rfl⟩ := h
  exact run_inv _ _ (inv_init cfg)

theorem reachable_step (s : State) (op : Op) (h : Reachable s) : Reachable (step s op).1 := by
  obtain ⟨cfg, ops, rfl⟩ := h
  exact ⟨cfg, ops ++ [op], by simp [run_append, run]⟩

theorem reachable_run (s : State) (ops : List Op) (h : Reachable s) : Reachable (run s ops) := by
  obtain ⟨cfg, ops0, rfl⟩ := h
  exact ⟨cfg, ops0 ++ ops, by simp [run_append]⟩

/-! ### tags of holders are unique (association-list discipline) -/

def UniqueIds : List Conn → Prop
  | [] => True
  | x :: r => holds r x.id = false ∧ UniqueIds r

theorem unique_removeConn (cs : List Conn) (c : Nat) (h : UniqueIds cs) : UniqueIds (removeConn cs c) := by
  induction cs with
  | nil => simp [removeConn, UniqueIds]
  | cons x r ih =>
    simp only [removeConn]
    split
    · exact h.2
    · exact ⟨holds_removeConn_other r c x.id h.1, ih h.2⟩

theorem unique_setPhase (cs : List Conn) (c : Nat) (p : Phase) (h : UniqueIds cs) : UniqueIds (setPhase cs c p) := by
  induction cs with
  | nil => simp [setPhase, UniqueIds]
  | cons x r ih =>
    simp only [setPhase]
    split
    · exact ⟨h.1, h.2⟩
    · exact ⟨by simpa [holds_setPhase] using h.1, ih h.2⟩

theorem unique_step (s : State) (op : Op) (h : UniqueIds s.conns) : UniqueIds (step s op).1.conns := by
  cases op <;> simp only [step, arrive, grant, release]
  all_goals repeat' split
  all_goals first
    | exact h
    | exact unique_removeConn _ _ h
    | exact unique_setPhase _ _ _ h
    | (refine ⟨?_, h⟩; simp_all)

/-! ### draining -/

theorem step_exitOp_head (s : State) (x : Conn) (r : List Conn) (k : Nat) (hc : s.conns = x :: r) :
    (step s (exitOp x k)).1 = { s with avail := s.avail + 1, conns := r } := by
  cases hx : x.phase
  · simp only [exitOp, hx]
    split <;> simp [step, release, hc, phaseOf, removeConn, hx]
  · simp [exitOp, hx, step, release, hc, phaseOf, removeConn]
  · simp [exitOp, hx, step, release, hc, phaseOf, removeConn]

theorem run_drain (s : State) (pick : Nat → Nat) :
    run s (drainOps s.conns pick) = { s with avail := s.avail + s.conns.length, conns := [] } := by
  generalize hcs : s.conns = cs
  induction cs generalizing s with
  | nil => cases s; simp_all [drainOps, run]
  | cons x r ih =>
    simp only [drainOps, run]
    rw [step_exitOp_head s x r _ hcs]
    rw [ih _ rfl]
    simp; omega

/-! ### filling -/

theorem holds_nil (c : Nat) : holds [] c = false := rfl

/-- all tags in `cs` are below `b` -/
def Below (cs : List Conn) (b : Nat) : Prop := ∀ x ∈ cs, x.id < b

theorem not_holds_of_below (cs : List Conn) (b : Nat) (h : Below cs b) : holds cs b = false := by
  induction cs with
  | nil => rfl
  | cons x r ih =>
    have hx := h x (by simp)
    have : (x.id == b) = false := by simp; omega
    simp [holds, this]
    exact ih (fun y hy => h y (by simp [hy]))

theorem below_nil (b : Nat) : Below [] b := by intro x hx; cases hx

theorem reachable_unique (s : State) (h : Reachable s) : UniqueIds s.conns := by
  obtain ⟨cfg, ops, rfl⟩ := h
  have : ∀ (t : State), UniqueIds t.conns → UniqueIds (run t ops).conns := by
    induction ops with
    | nil => intro t ht; exact ht
    | cons op r ih => intro t ht; exact ih _ (unique_step t op ht)
  exact this _ (by simp [init, UniqueIds])

theorem phaseOf_mem (cs : List Conn) (x : Conn) (hu : UniqueIds cs) (hx : x ∈ cs) : phaseOf cs x.id = some x.phase := by
  induction cs with
  | nil => cases hx
  | cons y r ih =>
    simp only [phaseOf]
    rcases List.mem_cons.mp hx with rfl | hr
    · simp
    · have hy : holds r y.id = false := hu.1
      have hxr : holds r x.id = true := holds_of_phaseOf r x.id x.phase (ih hu.2 hr)
      have : (y.id == x.id) = false := by
        cases hxy : (y.id == x.id)
        · rfl
        · have : y.id = x.id := by simpa using hxy
          rw [this] at hy; rw [hy] at hxr; cases hxr
      simp [this, ih hu.2 hr]

/-- the effect of any exit on any current holder -/
theorem step_exitOp_mem (s : State) (x : Conn) (k : Nat) (hu : UniqueIds s.conns) (hx : x ∈ s.conns) :
    step s (exitOp x k) =
      ({ s with avail := s.avail + 1, conns := removeConn s.conns x.id }, .released (s.avail + 1)) := by
  have hp := phaseOf_mem s.conns x hu hx
  cases hxp : x.phase
  · simp only [exitOp, hxp]
    split <;> simp [step, release, hp, hxp]
  · simp [exitOp, hxp, step, release, hp]
  · simp [exitOp, hxp, step, release, hp]

/-- `n` fresh plain-request arrivals on a server with at least `n` free slots are all admitted -/
theorem fill_admitted (s : State) (b n : Nat) (hh : s.cfg.enableHttp = true) (hb : Below s.conns b) (hn : n ≤ s.avail) :
    (∀ o ∈ outs s (fillOps b n), ∃ a, o = Out.started a) ∧
    (run s (fillOps b n)).avail = s.avail - n ∧
    (run s (fillOps b n)).conns.length = s.conns.length + n ∧
    (run s (fillOps b n)).cfg = s.cfg := by
  induction n generalizing s b with
  | zero => simp [fillOps, outs, run]
  | succ k ih =>
    have hfresh := not_holds_of_below s.conns b hb
    have hpos : (s.avail == 0) = false := by simp; omega
    have hstep : step s (.httpArrive b) = grant s b .http := by
      simp [step, arrive, hfresh, hpos, hh]
    have hb' : Below (grant s b .http).1.conns (b + 1) := by
      intro x hx
      simp only [grant] at hx
      rcases List.mem_cons.mp hx with rfl | hr
      · simp
      · have := hb x hr; omega
    have := ih (grant s b .http).1 (b + 1) (by simpa [grant] using hh) hb' (by simp [grant]; omega)
    obtain ⟨h1, h2, h3, h4⟩ := this
    refine ⟨?_, ?_, ?_, ?_⟩
    · intro o ho
      simp only [fillOps, outs, hstep] at ho
      rcases List.mem_cons.mp ho with rfl | hr
      · exact ⟨_, rfl⟩
      · exact h1 o hr
    · simp only [fillOps, run, hstep, h2]; simp [grant]; omega
    · simp only [fillOps, run, hstep, h3]; simp [grant]; omega
    · simp only [fillOps, run, hstep, h4]; simp [grant]

end Jrpc.ConnGuard
