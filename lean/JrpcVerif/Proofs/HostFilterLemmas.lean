/-
  C14 — helper lemmas for the host-filter model (Model/Authority.lean, Model/HostFilter.lean).

  * `cont`: what a thread of the router simulation still has to match; `ThreadSound`: the
    simulation invariant; `recognize_sound` / `recognize_complete` / `recognize_single`: the router
    model returns only handlers of matching routes, and finds one whenever a route matches.
  * allow-list grouping (`mem_groupHosts`), `recognizeAuthority_sound` / `_single`.
  * `fromHttpRequest_some` / `_none_iff`: what "a single authority is determined" means.
  * `maybePortText_userinfo`: the port slice starts after the userinfo.
  * `patMatch_literal`, `patMatch_star_dot`: what literal and `*.suffix` patterns admit.
-/
import JrpcVerif.Model.HostFilter
namespace Jrpc

theorem tokMatch_cons_cons (t : Tok) (ts : List Tok) (c : Nat) (s : Text) :
    tokMatch (t :: ts) (c :: s) = (tokAccepts t c && (tokMatch ts s || (isLoop t && tokMatch (t :: ts) s))) := by
  rw [tokMatch]
theorem tokMatch_nil_right (ts : List Tok) : tokMatch ts [] = true ↔ ts = [] := by
  cases ts <;> simp [tokMatch]
/-- what is still to be matched by a thread in state `cur` whose live route has the remaining
tokens `σ`: either move on to `σ`, or (in a looping state) stay in the state -/
def cont (cur : Option Tok) (σ : List Tok) (s : Text) : Bool :=
  match cur with
  | none => tokMatch σ s
  | some t => tokMatch σ s || (isLoop t && tokMatch (t :: σ) s)
theorem tokMatch_cons_cons' (t : Tok) (ts : List Tok) (c : Nat) (s : Text) :
    tokMatch (t :: ts) (c :: s) = (tokAccepts t c && cont (some t) ts s) := by
  rw [tokMatch_cons_cons]; rfl
theorem cont_nil (cur : Option Tok) (σ : List Tok) : cont cur σ [] = true ↔ σ = [] := by
  cases cur <;> simp [cont, tokMatch_nil_right, tokMatch]
theorem cont_child (cur : Option Tok) (t2 : Tok) (σ : List Tok) (c : Nat) (s : Text)
    (ha : tokAccepts t2 c = true) (h : cont (some t2) σ s = true) : cont cur (t2 :: σ) (c :: s) = true := by
  have : tokMatch (t2 :: σ) (c :: s) = true := by rw [tokMatch_cons_cons', ha, h]; rfl
  cases cur <;> simp [cont, this]
theorem cont_loop (t : Tok) (σ : List Tok) (c : Nat) (s : Text)
    (hl : isLoop t = true) (ha : tokAccepts t c = true) (h : cont (some t) σ s = true) :
    cont (some t) σ (c :: s) = true := by
  have : tokMatch (t :: σ) (c :: s) = true := by rw [tokMatch_cons_cons', ha, h]; rfl
  simp [cont, this, hl]
theorem cont_cons (cur : Option Tok) (σ : List Tok) (c : Nat) (s : Text) (h : cont cur σ (c :: s) = true) :
    (∃ t2 σ2, σ = t2 :: σ2 ∧ tokAccepts t2 c = true ∧ cont (some t2) σ2 s = true) ∨
    (∃ t, cur = some t ∧ isLoop t = true ∧ tokAccepts t c = true ∧ cont (some t) σ s = true) := by
  have key : ∀ σ', tokMatch σ' (c :: s) = true →
      ∃ t2 σ2, σ' = t2 :: σ2 ∧ tokAccepts t2 c = true ∧ cont (some t2) σ2 s = true := by
    intro σ' h'
    cases σ' with
    | nil => simp [tokMatch] at h'
    | cons t2 σ2 =>
      rw [tokMatch_cons_cons'] at h'
      simp only [Bool.and_eq_true] at h'
      exact ⟨t2, σ2, rfl, h'.1, h'.2⟩
  cases cur with
  | none => exact Or.inl (key σ h)
  | some t =>
    simp only [cont, Bool.or_eq_true, Bool.and_eq_true] at h
    rcases h with h | ⟨hl, h⟩
    · exact Or.inl (key σ h)
    · rw [tokMatch_cons_cons'] at h
      simp only [Bool.and_eq_true] at h
      exact Or.inr ⟨t, rfl, hl, h.1, h.2⟩

/-! ### the thread simulation -/
variable {α : Type}

theorem advance_some {t : Tok} {r r2 : Route α} (h : advance t r = some r2) :
    r.toks = t :: r2.toks ∧ r2.handler = r.handler ∧ r2.md = r.md := by
  unfold advance at h
  split at h
  · simp at h
  · rename_i t' rest heq
    split at h
    · rename_i htt
      simp at h
      subst h
      simp [heq, htt]
    · simp at h

theorem advance_of_toks {t : Tok} {σ : List Tok} {r : Route α} (h : r.toks = t :: σ) :
    advance t r = some { r with toks := σ } := by
  simp [advance, h]

theorem mem_dedupToks (x : Tok) (l : List Tok) : x ∈ dedupToks l ↔ x ∈ l := by
  induction l with
  | nil => simp [dedupToks]
  | cons t r ih =>
    simp only [dedupToks, List.mem_cons, List.mem_filter, ih]
    constructor
    · rintro (h | ⟨h, _⟩)
      · exact Or.inl h
      · exact Or.inr h
    · intro h
      by_cases hx : x = t
      · exact Or.inl hx
      · rcases h with h | h
        · exact Or.inl h
        · exact Or.inr ⟨h, by simpa using hx⟩

theorem mem_stepThread {c : Nat} {th th' : Thread α} (h : th' ∈ stepThread c th) :
    (th' = th ∧ ∃ t, th.cur = some t ∧ isLoop t = true ∧ tokAccepts t c = true) ∨
    (∃ t2, t2 ∈ childLabels th.live ∧ tokAccepts t2 c = true ∧ th' = childThread th t2) := by
  simp only [stepThread, List.mem_append] at h
  rcases h with h | h
  · left
    unfold selfLoop at h
    split at h
    · rename_i t ht
      split at h
      · rename_i hc
        simp at h
        simp only [Bool.and_eq_true] at hc
        exact ⟨h, t, ht, hc.1, hc.2⟩
      · simp at h
    · simp at h
  · right
    simp only [childThreads, List.mem_map, List.mem_filter] at h
    obtain ⟨t2, ⟨hm, ha⟩, rfl⟩ := h
    exact ⟨t2, hm, ha, rfl⟩

theorem self_mem_stepThread {c : Nat} {th : Thread α} {t : Tok} (hc : th.cur = some t)
    (hl : isLoop t = true) (ha : tokAccepts t c = true) : th ∈ stepThread c th := by
  simp [stepThread, selfLoop, hc, hl, ha]

theorem child_mem_stepThread {c : Nat} {th : Thread α} {t2 : Tok} (hm : t2 ∈ childLabels th.live)
    (ha : tokAccepts t2 c = true) : childThread th t2 ∈ stepThread c th := by
  simp only [stepThread, List.mem_append, childThreads, List.mem_map, List.mem_filter]
  exact Or.inr ⟨t2, ⟨hm, ha⟩, rfl⟩

/-- soundness invariant of one thread after the input `s` has been consumed: every live route
stems from an added route, and whatever completes it completes that route on `s ++ ·` -/
def ThreadSound (rt : Router α) (s : Text) (th : Thread α) : Prop :=
  ∀ r' ∈ th.live, ∃ r ∈ rt, r.handler = r'.handler ∧ r.md = r'.md ∧
    ∀ s2, cont th.cur r'.toks s2 = true → tokMatch r.toks (s ++ s2) = true

theorem threadSound_root (rt : Router α) : ThreadSound rt [] (rootThread rt) := by
  intro r' hr'
  exact ⟨r', hr', rfl, rfl, fun s2 h => by simpa [cont, rootThread] using h⟩

theorem stepThread_sound {rt : Router α} {s : Text} {c : Nat} {th th' : Thread α}
    (hs : ThreadSound rt s th) (hm : th' ∈ stepThread c th) : ThreadSound rt (s ++ [c]) th' := by
  rcases mem_stepThread hm with ⟨rfl, t, hc, hl, ha⟩ | ⟨t2, _, ha, rfl⟩
  · intro r' hr'
    obtain ⟨r, hr, hh, hmd, hk⟩ := hs r' hr'
    refine ⟨r, hr, hh, hmd, fun s2 h2 => ?_⟩
    rw [List.append_assoc]
    apply hk
    rw [hc] at h2 ⊢
    exact cont_loop t _ c s2 hl ha h2
  · intro r2 hr2
    simp only [childThread, List.mem_filterMap] at hr2
    obtain ⟨r', hr', hadv⟩ := hr2
    obtain ⟨htoks, hh2, hmd2⟩ := advance_some hadv
    obtain ⟨r, hr, hh, hmd, hk⟩ := hs r' hr'
    refine ⟨r, hr, by rw [hh, hh2], by rw [hmd, hmd2], fun s2 h2 => ?_⟩
    rw [List.append_assoc]
    apply hk
    rw [htoks]
    exact cont_child _ t2 _ c s2 ha h2

theorem runThreads_sound {rt : Router α} (s2 : Text) : ∀ (s : Text) (ths : List (Thread α)),
    (∀ th ∈ ths, ThreadSound rt s th) → ∀ th ∈ runThreads ths s2, ThreadSound rt (s ++ s2) th := by
  induction s2 with
  | nil => intro s ths h th hth; simpa [runThreads] using h th (by simpa [runThreads] using hth)
  | cons c s2 ih =>
    intro s ths h th hth
    rw [runThreads] at hth
    have := ih (s ++ [c]) (stepThreads c ths) (by
      intro th' hth'
      simp only [stepThreads, List.mem_flatMap] at hth'
      obtain ⟨th0, h0, h1⟩ := hth'
      exact stepThread_sound (h th0 h0) h1) th hth
    simpa [List.append_assoc] using this

theorem runThreads_complete (h : α) (s : Text) : ∀ ths : List (Thread α),
    (∃ th ∈ ths, ∃ r' ∈ th.live, r'.handler = h ∧ cont th.cur r'.toks s = true) →
    ∃ th ∈ runThreads ths s, ∃ r' ∈ th.live, r'.handler = h ∧ r'.toks = [] := by
  induction s with
  | nil =>
    rintro ths ⟨th, hth, r', hr', hh, hc⟩
    exact ⟨th, by simpa [runThreads] using hth, r', hr', hh, (cont_nil _ _).1 hc⟩
  | cons c s ih =>
    rintro ths ⟨th, hth, r', hr', hh, hc⟩
    rw [runThreads]
    apply ih
    rcases cont_cons _ _ _ _ hc with ⟨t2, σ2, hσ, ha, hc2⟩ | ⟨t, hcur, hl, ha, hc2⟩
    · refine ⟨childThread th t2, ?_, { r' with toks := σ2 }, ?_, hh, hc2⟩
      · simp only [stepThreads, List.mem_flatMap]
        refine ⟨th, hth, child_mem_stepThread ?_ ha⟩
        rw [childLabels, mem_dedupToks, List.mem_filterMap]
        exact ⟨r', hr', by simp [hσ]⟩
      · simp only [childThread, List.mem_filterMap]
        exact ⟨r', hr', advance_of_toks hσ⟩
    · refine ⟨th, ?_, r', hr', hh, ?_⟩
      · simp only [stepThreads, List.mem_flatMap]
        exact ⟨th, hth, self_mem_stepThread hcur hl ha⟩
      · rw [hcur]; exact hc2

/-! ### selection of the result -/

theorem accInfo_some {th : Thread α} {x : Meta × α} (h : accInfo th = some x) :
    ∃ r' ∈ th.live, r'.toks = [] ∧ x = (r'.md, r'.handler) := by
  unfold accInfo at h
  split at h
  · rename_i r hr
    have hm := List.mem_of_getLast? hr
    simp only [List.mem_filter, List.isEmpty_iff] at hm
    simp at h
    exact ⟨r, hm.1, hm.2, h.symm⟩
  · simp at h

theorem accInfo_isSome {th : Thread α} {r' : Route α} (hr : r' ∈ th.live) (ht : r'.toks = []) :
    ∃ x, accInfo th = some x := by
  unfold accInfo
  have hne : (th.live.filter (fun r => r.toks.isEmpty)) ≠ [] := by
    intro h
    have : r' ∈ th.live.filter (fun r => r.toks.isEmpty) := by simp [List.mem_filter, hr, ht]
    rw [h] at this
    simp at this
  cases hl : (th.live.filter (fun r => r.toks.isEmpty)).getLast? with
  | none => exact absurd (List.getLast?_eq_none_iff.1 hl) hne
  | some r => exact ⟨_, rfl⟩

theorem foldl_pickBest_mem (l : List (Meta × α)) : ∀ (init : Option (Meta × α)) (x : Meta × α),
    l.foldl pickBest init = some x → x ∈ l ∨ init = some x := by
  induction l with
  | nil => intro init x h; exact Or.inr (by simpa using h)
  | cons y l ih =>
    intro init x h
    rw [List.foldl_cons] at h
    rcases ih _ _ h with h1 | h1
    · exact Or.inl (List.mem_cons_of_mem _ h1)
    · cases init with
      | none => simp [pickBest] at h1; exact Or.inl (by simp [h1])
      | some z =>
        simp only [pickBest] at h1
        split at h1
        · simp at h1; exact Or.inl (by simp [h1])
        · exact Or.inr h1

theorem foldl_pickBest_some (l : List (Meta × α)) : ∀ z : Meta × α, ∃ y, l.foldl pickBest (some z) = some y := by
  induction l with
  | nil => intro z; exact ⟨z, rfl⟩
  | cons y l ih =>
    intro z
    rw [List.foldl_cons]
    simp only [pickBest]
    split
    · exact ih y
    · exact ih z

theorem foldl_pickBest_ne_nil {l : List (Meta × α)} (h : l ≠ []) : ∃ y, l.foldl pickBest none = some y := by
  cases l with
  | nil => exact absurd rfl h
  | cons y l => rw [List.foldl_cons]; exact foldl_pickBest_some l y

/-- `Router::recognize` only ever returns the handler of an added route that matches the path -/
theorem recognize_sound {rt : Router α} {path : Text} {h : α} (hr : rt.recognize path = some h) :
    ∃ r ∈ rt, r.handler = h ∧ tokMatch r.toks (stripSlash path) = true := by
  unfold Router.recognize at hr
  split at hr
  · rename_i x hx
    simp at hr
    rcases foldl_pickBest_mem _ _ _ hx with hm | hm
    · simp only [List.mem_filterMap] at hm
      obtain ⟨th, hth, hacc⟩ := hm
      obtain ⟨r', hr', ht, hxr⟩ := accInfo_some hacc
      have hs := runThreads_sound (rt := rt) (stripSlash path) [] [rootThread rt]
        (by intro th hth; simp at hth; subst hth; exact threadSound_root rt) th hth
      obtain ⟨r, hrm, hh, _, hk⟩ := hs r' hr'
      refine ⟨r, hrm, ?_, ?_⟩
      · rw [hh, ← hr, hxr]
      · have := hk [] (by rw [ht]; exact (cont_nil _ _).2 rfl)
        simpa using this
    · simp at hm
  · simp at hr

/-- if some added route matches the path, `Router::recognize` succeeds -/
theorem recognize_complete {rt : Router α} {path : Text} {r : Route α} (hr : r ∈ rt)
    (hm : tokMatch r.toks (stripSlash path) = true) : ∃ h, rt.recognize path = some h := by
  obtain ⟨th, hth, r', hr', _, ht⟩ := runThreads_complete r.handler (stripSlash path) [rootThread rt]
    ⟨rootThread rt, by simp, r, hr, rfl, by simpa [cont, rootThread] using hm⟩
  obtain ⟨x, hx⟩ := accInfo_isSome hr' ht
  have hne : (runThreads [rootThread rt] (stripSlash path)).filterMap accInfo ≠ [] := by
    intro h
    have : x ∈ (runThreads [rootThread rt] (stripSlash path)).filterMap accInfo :=
      List.mem_filterMap.2 ⟨th, hth, hx⟩
    rw [h] at this
    simp at this
  obtain ⟨y, hy⟩ := foldl_pickBest_ne_nil hne
  exact ⟨y.2, by simp [Router.recognize, hy]⟩

/-- a router with a single route: `recognize` succeeds exactly on the paths the route matches -/
theorem recognize_single {r : Route α} {path : Text} (hm : tokMatch r.toks (stripSlash path) = true) :
    Router.recognize [r] path = some r.handler := by
  obtain ⟨h, hh⟩ := recognize_complete (rt := [r]) (by simp) hm
  obtain ⟨r', hr', hh', _⟩ := recognize_sound hh
  simp at hr'
  subst hr'
  rw [hh, hh']

theorem recognize_none_iff {rt : Router α} {path : Text} :
    rt.recognize path = none ↔ ∀ r ∈ rt, tokMatch r.toks (stripSlash path) = false := by
  constructor
  · intro h r hr
    cases hm : tokMatch r.toks (stripSlash path) with
    | false => rfl
    | true =>
      obtain ⟨x, hx⟩ := recognize_complete hr hm
      rw [h] at hx
      simp at hx
  · intro h
    cases hr : rt.recognize path with
    | none => rfl
    | some x =>
      obtain ⟨r, hrm, _, hm⟩ := recognize_sound hr
      rw [h r hrm] at hm
      simp at hm

/-! ### allow-list construction -/

theorem addGroups_eq (gs : List (Text × List Port)) : ∀ rt : Router (List Port),
    addGroups rt gs = rt ++ gs.map (fun g => mkRoute g.1 g.2) := by
  induction gs with
  | nil => intro rt; simp [addGroups]
  | cons g gs ih =>
    intro rt
    have := ih (rt.add g.1 g.2)
    simp only [addGroups, List.foldl_cons] at this ⊢
    rw [this]
    simp [Router.add]

theorem mem_whitelist {allow : List Authority} {r : Route (List Port)} :
    r ∈ whitelist allow ↔ ∃ g ∈ groupHosts allow, r = mkRoute g.1 g.2 := by
  simp only [whitelist, addGroups_eq, List.nil_append, List.mem_map]
  constructor
  · rintro ⟨g, hg, rfl⟩; exact ⟨g, hg, rfl⟩
  · rintro ⟨g, hg, rfl⟩; exact ⟨g, hg, rfl⟩

theorem insertGroup_mem (gs : List (Text × List Port)) (a : Authority) :
    ∀ g ∈ insertGroup gs a, ∀ p ∈ g.2,
      (a = { host := g.1, port := p }) ∨ (∃ g' ∈ gs, g'.1 = g.1 ∧ p ∈ g'.2) := by
  induction gs with
  | nil =>
    intro g hg p hp
    simp [insertGroup] at hg
    subst hg
    simp at hp
    subst hp
    exact Or.inl rfl
  | cons g0 rest ih =>
    intro g hg p hp
    rw [insertGroup] at hg
    split at hg
    · rename_i heq
      simp only [List.mem_cons] at hg
      rcases hg with rfl | hg
      · simp only [List.mem_append, List.mem_singleton] at hp
        rcases hp with hp | rfl
        · exact Or.inr ⟨g0, by simp, rfl, hp⟩
        · left
          have : a.host = g0.1 := by simpa using heq
          cases a; simp_all
      · exact Or.inr ⟨g, by simp [hg], rfl, hp⟩
    · split at hg
      · simp only [List.mem_cons] at hg
        rcases hg with rfl | hg
        · simp at hp; subst hp; exact Or.inl rfl
        · exact Or.inr ⟨g, by simpa using hg, rfl, hp⟩
      · simp only [List.mem_cons] at hg
        rcases hg with rfl | hg
        · exact Or.inr ⟨g, by simp, rfl, hp⟩
        · rcases ih g hg p hp with h | ⟨g', hg', h1, h2⟩
          · exact Or.inl h
          · exact Or.inr ⟨g', by simp [hg'], h1, h2⟩

theorem foldl_insertGroup_mem (allow : List Authority) : ∀ gs0 : List (Text × List Port),
    ∀ g ∈ allow.foldl insertGroup gs0, ∀ p ∈ g.2,
      ({ host := g.1, port := p } ∈ allow) ∨ (∃ g' ∈ gs0, g'.1 = g.1 ∧ p ∈ g'.2) := by
  induction allow with
  | nil => intro gs0 g hg p hp; exact Or.inr ⟨g, by simpa using hg, rfl, hp⟩
  | cons a allow ih =>
    intro gs0 g hg p hp
    rw [List.foldl_cons] at hg
    rcases ih _ g hg p hp with h | ⟨g', hg', h1, h2⟩
    · exact Or.inl (List.mem_cons_of_mem _ h)
    · rcases insertGroup_mem gs0 a g' hg' p h2 with h | ⟨g'', hg'', h3, h4⟩
      · left; rw [h, h1]; simp
      · exact Or.inr ⟨g'', hg'', by rw [h3, h1], h4⟩

/-- every (host, port) pair stored in the grouped map is a configured entry -/
theorem mem_groupHosts {allow : List Authority} {g : Text × List Port} (hg : g ∈ groupHosts allow)
    {p : Port} (hp : p ∈ g.2) : { host := g.1, port := p } ∈ allow := by
  rcases foldl_insertGroup_mem allow [] g hg p hp with h | ⟨_, h, _⟩
  · exact h
  · simp at h

/-- the host filter's decision is sound: an admitted authority matches a configured entry -/
theorem recognizeAuthority_sound {allow : List Authority} {a : Authority}
    (h : recognizeAuthority allow a = true) :
    ∃ e ∈ allow, patMatch e.host a.host = true ∧ portOk e.port a.port = true := by
  unfold recognizeAuthority at h
  split at h
  · rename_i ports hrec
    obtain ⟨r, hr, hh, hm⟩ := recognize_sound hrec
    obtain ⟨g, hg, rfl⟩ := mem_whitelist.1 hr
    simp only [List.any_eq_true] at h
    obtain ⟨p, hp, hok⟩ := h
    have hp' : p ∈ g.2 := by
      have : g.2 = ports := by simpa [mkRoute] using hh
      rw [this]; exact hp
    exact ⟨_, mem_groupHosts hg hp', by simpa [patMatch, mkRoute] using hm, hok⟩
  · simp at h

/-- with a single configured entry the decision is also complete -/
theorem recognizeAuthority_single {e a : Authority} (hm : patMatch e.host a.host = true)
    (hp : portOk e.port a.port = true) : recognizeAuthority [e] a = true := by
  have hw : whitelist [e] = [mkRoute e.host [e.port]] := by
    simp [whitelist, groupHosts, insertGroup, addGroups, Router.add]
  have := recognize_single (r := mkRoute e.host [e.port]) (path := a.host) (by simpa [patMatch, mkRoute] using hm)
  unfold recognizeAuthority
  rw [hw, this]
  simp [mkRoute, hp]

/-! ### authority extraction -/

theorem combineSources_some {x y : Option (Option Authority)} {a : Authority}
    (h : combineSources x y = some a) :
    (x = some (some a) ∨ y = some (some a)) ∧
    (∀ a', x = some (some a') → a' = a) ∧ (∀ a', y = some (some a') → a' = a) := by
  unfold combineSources at h
  split at h
  · rename_i a1 a2
    split at h
    · rename_i he
      simp at h
      subst h
      subst he
      simp
    · simp at h
  · rename_i a1 hne
    simp at h
    subst h
    refine ⟨Or.inl rfl, by simp, ?_⟩
    intro a' hy
    exact absurd hy (fun hy => hne a' hy)
  · rename_i a2 hne
    simp at h
    subst h
    refine ⟨Or.inr rfl, ?_, by simp⟩
    intro a' hx
    exact absurd hx (fun hx => hne a' hx)
  · simp at h

theorem combineSources_none {x y : Option (Option Authority)} (h : combineSources x y = none) :
    ((∀ a, x ≠ some (some a)) ∧ (∀ a, y ≠ some (some a))) ∨
    (∃ a1 a2, x = some (some a1) ∧ y = some (some a2) ∧ a1 ≠ a2) := by
  unfold combineSources at h
  split at h
  · rename_i a1 a2
    split at h
    · simp at h
    · rename_i hne
      exact Or.inr ⟨a1, a2, rfl, rfl, hne⟩
  · simp at h
  · simp at h
  · rename_i h1 h2 _
    exact Or.inl ⟨fun a hx => h1 a hx, fun a hy => h2 a hy⟩

theorem mem_consulted {r : HttpReq} {u : UriParse} :
    u ∈ consulted r ↔ readHeaderValue r.hostHeaders = some u ∨ r.uriAuthority = some u := by
  simp [consulted, Option.mem_toList]

/-- when the filter determines an authority, some consulted source yields it and every consulted
source that parses yields the same one -/
theorem fromHttpRequest_some {r : HttpReq} {a : Authority} (h : fromHttpRequest r = some a) :
    (∃ u ∈ consulted r, authorityOf u = some a) ∧
    (∀ u ∈ consulted r, ∀ a', authorityOf u = some a' → a' = a) := by
  obtain ⟨h1, h2, h3⟩ := combineSources_some h
  constructor
  · rcases h1 with h1 | h1
    · rw [Option.map_eq_some_iff] at h1
      obtain ⟨u, hu, hau⟩ := h1
      exact ⟨u, mem_consulted.2 (Or.inl hu), hau⟩
    · rw [Option.map_eq_some_iff] at h1
      obtain ⟨u, hu, hau⟩ := h1
      exact ⟨u, mem_consulted.2 (Or.inr hu), hau⟩
  · intro u hu a' ha'
    rcases mem_consulted.1 hu with hu | hu
    · exact h2 a' (by rw [hu]; simp [ha'])
    · exact h3 a' (by rw [hu]; simp [ha'])

/-- no authority is determined exactly when no consulted source parses or two of them disagree -/
theorem fromHttpRequest_none_iff {r : HttpReq} :
    fromHttpRequest r = none ↔
      (∀ u ∈ consulted r, authorityOf u = none) ∨
      (∃ u1 ∈ consulted r, ∃ u2 ∈ consulted r, ∃ a1 a2,
        authorityOf u1 = some a1 ∧ authorityOf u2 = some a2 ∧ a1 ≠ a2) := by
  constructor
  · intro h
    rcases combineSources_none h with ⟨h1, h2⟩ | ⟨a1, a2, h1, h2, hne⟩
    · left
      intro u hu
      cases hau : authorityOf u with
      | none => rfl
      | some a =>
        rcases mem_consulted.1 hu with hu | hu
        · exact absurd (by rw [hu]; simp [hau]) (h1 a)
        · exact absurd (by rw [hu]; simp [hau]) (h2 a)
    · right
      rw [Option.map_eq_some_iff] at h1 h2
      obtain ⟨u1, hu1, hau1⟩ := h1
      obtain ⟨u2, hu2, hau2⟩ := h2
      exact ⟨u1, mem_consulted.2 (Or.inl hu1), u2, mem_consulted.2 (Or.inr hu2), a1, a2, hau1, hau2, hne⟩
  · intro h
    cases hf : fromHttpRequest r with
    | none => rfl
    | some a =>
      obtain ⟨⟨u, hu, hau⟩, hall⟩ := fromHttpRequest_some hf
      rcases h with h | ⟨u1, hu1, u2, hu2, a1, a2, h1, h2, hne⟩
      · rw [h u hu] at hau; simp at hau
      · exact absurd ((hall u1 hu1 a1 h1).trans (hall u2 hu2 a2 h2).symm) hne

/-! ### the port slice and userinfo -/

theorem hostStartAux_noat (b : Text) (hb : 64 ∉ b) : ∀ i best, hostStartAux b i best = best := by
  induction b with
  | nil => intro i best; rfl
  | cons c r ih =>
    intro i best
    have hc : c ≠ 64 := fun h => hb (by simp [h])
    have hr : 64 ∉ r := fun h => hb (by simp [h])
    simp [hostStartAux, hc, ih hr]

theorem hostStartAux_append (a b : Text) (hb : 64 ∉ b) :
    ∀ i best, hostStartAux (a ++ 64 :: b) i best = i + a.length + 1 := by
  induction a with
  | nil => intro i best; simp [hostStartAux, hostStartAux_noat b hb]
  | cons c a ih =>
    intro i best
    simp only [List.cons_append, hostStartAux, ih, List.length_cons]
    omega

/-- with userinfo `u`, the text after the host is exactly what follows it in the authority -/
theorem maybePortText_userinfo (sc : Option Text) (u h ps : Text) (hh : 64 ∉ h) (hp : 64 ∉ ps) :
    maybePortText { scheme := sc, authority := u ++ 64 :: (h ++ ps), host := h } = ps := by
  have hb : 64 ∉ h ++ ps := by simp [hh, hp]
  simp only [maybePortText, hostStart, hostStartAux_append u (h ++ ps) hb]
  have : 0 + u.length + 1 + h.length = (u ++ 64 :: h).length := by simp; omega
  rw [this, show u ++ 64 :: (h ++ ps) = (u ++ 64 :: h) ++ ps by simp]
  simp

theorem maybePortText_plain (sc : Option Text) (h ps : Text) (hh : 64 ∉ h) (hp : 64 ∉ ps) :
    maybePortText { scheme := sc, authority := h ++ ps, host := h } = ps := by
  have hb : 64 ∉ h ++ ps := by simp [hh, hp]
  simp [maybePortText, hostStart, hostStartAux_noat (h ++ ps) hb]

/-! ### what patterns mean: literals and `*.suffix` -/

/-- no segment of the pattern starts with `*` or `:` (`atStart`: the next character starts a segment) -/
def plainFrom (atStart : Bool) : Text → Bool
  | [] => true
  | c :: r => if atStart && (c == 42 || c == 58) then false else plainFrom (isSep c) r

/-- a pattern without wildcard segments -/
def plainPat (p : Text) : Bool := plainFrom true p

/-- tokens of a text that continues a static segment -/
def midToks (r : Text) : List Tok := (pieces r).1.map Tok.chr ++ (pieces r).2.flatMap sepSegToks

theorem routeToks_sep {c : Nat} (r : Text) (hc : isSep c = true) : routeToks (c :: r) = .chr c :: routeToks r := by
  simp [routeToks, pieces, hc, segToks, sepSegToks]

theorem midToks_sep {c : Nat} (r : Text) (hc : isSep c = true) : midToks (c :: r) = .chr c :: routeToks r := by
  simp [midToks, routeToks, pieces, hc, sepSegToks]

theorem midToks_nonsep {c : Nat} (r : Text) (hc : isSep c = false) : midToks (c :: r) = .chr c :: midToks r := by
  simp [midToks, pieces, hc]

theorem routeToks_static {c : Nat} (r : Text) (hc : isSep c = false) (h1 : c ≠ 42) (h2 : c ≠ 58) :
    routeToks (c :: r) = .chr c :: midToks r := by
  simp [routeToks, midToks, pieces, hc, segToks, h1, h2]

theorem plain_toks (r : Text) :
    (plainFrom true r = true → routeToks r = r.map Tok.chr) ∧
    (plainFrom false r = true → midToks r = r.map Tok.chr) := by
  induction r with
  | nil => simp [routeToks, midToks, pieces, segToks]
  | cons c r ih =>
    cases hc : isSep c with
    | true =>
      constructor
      · intro h
        have hs : c ≠ 42 ∧ c ≠ 58 := by
          simp only [isSep, Bool.or_eq_true, beq_iff_eq] at hc
          omega
        simp only [plainFrom, Bool.true_and, hc] at h
        have : plainFrom true r = true := by
          revert h; simp [hs.1, hs.2]
        rw [routeToks_sep r hc, ih.1 this]; rfl
      · intro h
        simp only [plainFrom, Bool.false_and, hc] at h
        rw [midToks_sep r hc, ih.1 (by simpa using h)]; rfl
    | false =>
      constructor
      · intro h
        simp only [plainFrom, Bool.true_and, hc] at h
        by_cases h1 : c = 42
        · simp [h1] at h
        · by_cases h2 : c = 58
          · simp [h2] at h
          · have : plainFrom false r = true := by revert h; simp [h1, h2]
            rw [routeToks_static r hc h1 h2, ih.2 this]; rfl
      · intro h
        simp only [plainFrom, Bool.false_and, hc] at h
        rw [midToks_nonsep r hc, ih.2 (by simpa using h)]; rfl

theorem tokMatch_literal (p : Text) : ∀ h : Text, tokMatch (p.map Tok.chr) h = true ↔ h = p := by
  induction p with
  | nil => intro h; cases h <;> simp [tokMatch]
  | cons c p ih =>
    intro h
    cases h with
    | nil => simp [tokMatch]
    | cons x s =>
      simp only [List.map_cons, tokMatch_cons_cons, tokAccepts, isLoop, Bool.false_and, Bool.or_false,
        Bool.and_eq_true, beq_iff_eq, ih, List.cons.injEq]

theorem tokMatch_star_literal (l : Text) : ∀ h : Text,
    tokMatch (Tok.star :: l.map Tok.chr) h = true ↔ ∃ x : Text, x ≠ [] ∧ h = x ++ l := by
  intro h
  induction h with
  | nil =>
    simp only [tokMatch, Bool.false_eq_true, false_iff]
    rintro ⟨x, hx, hxs⟩
    cases x with
    | nil => exact hx rfl
    | cons c x => simp at hxs
  | cons c s ih =>
    simp only [tokMatch_cons_cons, tokAccepts, isLoop, Bool.true_and, Bool.or_eq_true, tokMatch_literal, ih]
    constructor
    · rintro (rfl | ⟨x, hx, rfl⟩)
      · exact ⟨[c], by simp, rfl⟩
      · exact ⟨c :: x, by simp, rfl⟩
    · rintro ⟨x, hx, hxs⟩
      cases x with
      | nil => exact absurd rfl hx
      | cons c' x' =>
        simp only [List.cons_append, List.cons.injEq] at hxs
        obtain ⟨rfl, rfl⟩ := hxs
        cases x' with
        | nil => exact Or.inl rfl
        | cons d x'' => exact Or.inr ⟨d :: x'', by simp, rfl⟩

theorem stripSlash_of_head {t : Text} (h : t.head? ≠ some 47) : stripSlash t = t := by
  cases t with
  | nil => rfl
  | cons c r =>
    have : c ≠ 47 := by simpa using h
    simp [stripSlash, this]

/-- a pattern without wildcard segments admits exactly itself -/
theorem patMatch_literal {p h : Text} (hp : plainPat p = true) (hp0 : p.head? ≠ some 47)
    (hh0 : h.head? ≠ some 47) : patMatch p h = true ↔ h = p := by
  rw [patMatch, stripSlash_of_head hp0, stripSlash_of_head hh0, (plain_toks p).1 hp, tokMatch_literal]

/-- `*.suffix` (suffix without wildcard segments) admits exactly the hosts `x.suffix` with `x`
non-empty (`x` may itself contain dots) -/
theorem patMatch_star_dot {q h : Text} (hq : plainPat q = true) (hh0 : h.head? ≠ some 47) :
    patMatch (42 :: 46 :: q) h = true ↔ ∃ x : Text, x ≠ [] ∧ h = x ++ 46 :: q := by
  have ht : routeToks (42 :: 46 :: q) = Tok.star :: (46 :: q).map Tok.chr := by
    have : routeToks (42 :: 46 :: q) = Tok.star :: Tok.chr 46 :: routeToks q := by
      simp [routeToks, pieces, isSep, segToks, sepSegToks]
    rw [this, (plain_toks q).1 hq]; rfl
  rw [patMatch, stripSlash_of_head (by simp), stripSlash_of_head hh0, ht, tokMatch_star_literal]

end Jrpc
