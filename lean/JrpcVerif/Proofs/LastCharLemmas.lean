/-
  The last character a skipper consumes is never whitespace: `"`, `]`, `}`, a digit, or the last letter
  of a literal.  Hence `str::trim` is the identity on every raw value slice (`trim_of_slice`).
-/
import JrpcVerif.Proofs.SplitLemmas
namespace Jrpc

/-- `t` ends, right before `rest`, with the character `c` -/
def EndsWith (t rest : Text) (c : Nat) : Prop := ∃ q, t = q ++ c :: rest

theorem skipStr_last : ∀ (n : Nat) (t rest : Text), t.length ≤ n → skipStr t = some rest → EndsWith t rest 34 := by
  intro n
  induction n with
  | zero =>
    intro t rest hl h
    cases t with
    | nil => rw [skipStr.eq_def] at h; simp at h
    | cons c r => simp at hl
  | succ n ih =>
    intro t rest hl h
    cases t with
    | nil => rw [skipStr.eq_def] at h; simp at h
    | cons c r =>
      rw [skipStr.eq_def] at h
      simp only [] at h
      split at h
      · rename_i hc; simp at hc h; subst hc; subst h; exact ⟨[], rfl⟩
      · split at h
        · cases r with
          | nil => simp at h
          | cons e r1 =>
            simp only [] at h
            split at h
            · match r1, h with
              | a :: b :: c4 :: d :: r2, h =>
                simp only [] at h
                split at h
                · obtain ⟨q, hq⟩ := ih r2 rest (by simp at hl ⊢; omega) h
                  exact ⟨c :: e :: a :: b :: c4 :: d :: q, by simp [hq]⟩
                · simp at h
              | [], h => simp at h
              | [_], h => simp at h
              | [_, _], h => simp at h
              | [_, _, _], h => simp at h
            · split at h
              · obtain ⟨q, hq⟩ := ih r1 rest (by simp at hl ⊢; omega) h
                exact ⟨c :: e :: q, by simp [hq]⟩
              · simp at h
        · split at h
          · simp at h
          · obtain ⟨q, hq⟩ := ih r rest (by simp at hl ⊢; omega) h
            exact ⟨c :: q, by simp [hq]⟩

/-- `t` ends, right before `rest`, with a decimal digit -/
def EndsDigit (t rest : Text) : Prop := ∃ q c, t = q ++ c :: rest ∧ isDigit c = true

theorem allDigits_last (c : Nat) (p : Text) (hc : isDigit c = true) (hp : AllDigits p) :
    ∃ q d, c :: p = q ++ [d] ∧ isDigit d = true := by
  induction p generalizing c with
  | nil => exact ⟨[], c, rfl, hc⟩
  | cons e p ih =>
    simp only [AllDigits] at hp
    obtain ⟨q, d, hq, hd⟩ := ih e hp.1 hp.2
    exact ⟨c :: q, d, by simp [hq], hd⟩

theorem skipDigits1_last (t rest : Text) (h : skipDigits1 t = some rest) : EndsDigit t rest := by
  cases t with
  | nil => simp [skipDigits1] at h
  | cons c t =>
    simp only [skipDigits1] at h
    split at h
    · rename_i hd
      simp at h; subst h
      obtain ⟨p, hp, hall⟩ := skipDigits_split t
      obtain ⟨q, d, hq, hdd⟩ := allDigits_last c p hd hall
      refine ⟨q, d, ?_, hdd⟩
      generalize skipDigits t = sd at hp ⊢
      subst hp
      have : c :: (p ++ sd) = (c :: p) ++ sd := by simp
      rw [this, hq]; simp
    · simp at h

theorem endsDigit_cons (c : Nat) (t rest : Text) (h : EndsDigit t rest) : EndsDigit (c :: t) rest := by
  obtain ⟨q, d, hq, hd⟩ := h
  exact ⟨c :: q, d, by simp [hq], hd⟩

theorem endsDigit_append (p t rest : Text) (h : EndsDigit t rest) : EndsDigit (p ++ t) rest := by
  obtain ⟨q, d, hq, hd⟩ := h
  exact ⟨p ++ q, d, by simp [hq], hd⟩

theorem skipExponent_last (t rest : Text) (h : skipExponent t = some rest) : EndsDigit t rest := by
  unfold skipExponent at h
  cases t with
  | nil => simp [skipSign, skipDigits1] at h
  | cons c t =>
    simp only [skipSign] at h
    split at h
    · exact endsDigit_cons c t rest (skipDigits1_last _ _ h)
    · exact skipDigits1_last _ _ h

/-- either nothing was consumed, or the consumed part ends with a digit -/
theorem skipExpOpt_last (t rest : Text) (h : skipExpOpt t = some rest) : t = rest ∨ EndsDigit t rest := by
  cases t with
  | nil => simp [skipExpOpt] at h; left; exact h.symm
  | cons c t =>
    simp only [skipExpOpt] at h
    split at h
    · right; exact endsDigit_cons c t rest (skipExponent_last _ _ h)
    · simp at h; left; exact h

theorem skipFracExp_last (t rest : Text) (h : skipFracExp t = some rest) : t = rest ∨ EndsDigit t rest := by
  cases t with
  | nil => simp [skipFracExp] at h; left; exact h.symm
  | cons c t =>
    simp only [skipFracExp] at h
    split at h
    · split at h
      · simp at h
      · rename_i r1 hd1
        right
        have h1 := skipDigits1_last _ _ hd1
        rcases skipExpOpt_last _ _ h with he | he
        · subst he; exact endsDigit_cons c t r1 h1
        · obtain ⟨p, hp, _⟩ := skipDigits1_split _ _ hd1
          rw [hp]
          exact endsDigit_cons c _ rest (endsDigit_append p r1 rest he)
    · exact skipExpOpt_last _ _ h

theorem skipInteger_last (t rest : Text) (h : skipInteger t = some rest) : EndsDigit t rest := by
  unfold skipInteger at h
  cases t with
  | nil => simp at h
  | cons c r =>
    simp only [] at h
    split at h
    · rename_i h48
      simp at h48; subst h48
      cases r with
      | nil => simp at h; subst h; exact ⟨[], 48, rfl, by decide⟩
      | cons d r' =>
        simp only [] at h
        split at h
        · simp at h
        · rcases skipFracExp_last _ _ h with he | he
          · rw [he]; exact ⟨[], 48, rfl, by decide⟩
          · exact endsDigit_cons 48 _ rest he
    · split at h
      · rename_i hd
        obtain ⟨pd, hpd, halld⟩ := skipDigits_split r
        rcases skipFracExp_last _ _ h with he | he
        · obtain ⟨q, d, hq, hdd⟩ := allDigits_last c pd hd halld
          refine ⟨q, d, ?_, hdd⟩
          rw [hpd, he]
          have : c :: (pd ++ rest) = (c :: pd) ++ rest := by simp
          rw [this, hq]; simp
        · rw [hpd]
          exact endsDigit_cons c _ rest (endsDigit_append pd _ rest he)
      · simp at h

theorem skipNumber_last (t rest : Text) (h : skipNumber t = some rest) : EndsDigit t rest := by
  unfold skipNumber at h
  cases t with
  | nil => simp at h
  | cons c r =>
    simp only [] at h
    split at h
    · exact endsDigit_cons c r rest (skipInteger_last _ _ h)
    · exact skipInteger_last _ _ h



/-- `t` ends, right before `rest`, with a character that Rust's `trim` does not remove -/
def EndsNonWs (t rest : Text) : Prop := ∃ q c, t = q ++ c :: rest ∧ isRustWs c = false

theorem endsNonWs_of_endsWith (t rest : Text) (c : Nat) (h : EndsWith t rest c) (hc : isRustWs c = false) :
    EndsNonWs t rest := by
  obtain ⟨q, hq⟩ := h; exact ⟨q, c, hq, hc⟩

theorem endsNonWs_of_digit (t rest : Text) (h : EndsDigit t rest) : EndsNonWs t rest := by
  obtain ⟨q, c, hq, hc⟩ := h
  refine ⟨q, c, hq, ?_⟩
  simp [isDigit] at hc
  simp [isRustWs]; omega

theorem endsNonWs_cons (c : Nat) (t rest : Text) (h : EndsNonWs t rest) : EndsNonWs (c :: t) rest := by
  obtain ⟨q, d, hq, hd⟩ := h; exact ⟨c :: q, d, by simp [hq], hd⟩

theorem afterItem_close_last (close : Nat) (t r1 : Text) (h : afterItem close t = some (false, r1)) :
    EndsWith t r1 close := by
  obtain ⟨w, _, hcase⟩ := afterItem_split _ _ _ _ h
  rcases hcase with ⟨hb, _⟩ | ⟨_, ht, _⟩
  · simp at hb
  · exact ⟨w, ht⟩

theorem endsWith_trans (t mid rest : Text) (c : Nat) (h1 : ∃ p, t = p ++ mid) (h2 : EndsWith mid rest c) : EndsWith t rest c := by
  obtain ⟨p, hp⟩ := h1; obtain ⟨q, hq⟩ := h2
  exact ⟨p ++ q, by rw [hp, hq]; simp⟩

/-- arrays end with `]`, objects with `}` -/
theorem skip_last (f : Nat) :
    (∀ t rest, skipValue f t = some rest → EndsNonWs t rest) ∧
    (∀ t rest, skipElems f t = some rest → EndsWith t rest 93) ∧
    (∀ t rest, skipMembers f t = some rest → EndsWith t rest 125) := by
  induction f with
  | zero =>
    refine ⟨?_, ?_, ?_⟩ <;> intro t rest h
    · rw [skipValue_zero] at h; cases h
    · rw [skipElems_zero] at h; cases h
    · rw [skipMembers_zero] at h; cases h
  | succ f ih =>
    obtain ⟨ihV, ihE, ihM⟩ := ih
    refine ⟨?_, ?_, ?_⟩
    · intro t rest h
      cases t with
      | nil => simp [skipValue] at h
      | cons c r =>
        rw [skipValue] at h
        split at h
        · exact endsNonWs_cons c r rest (endsNonWs_of_endsWith _ _ 34 (skipStr_last r.length r rest (Nat.le_refl _) h) (by decide))
        split at h
        · obtain ⟨w, hw, _⟩ := skipWs_split r
          split at h
          · simp at h
          · rename_i d r1 hws
            rw [hws] at hw
            split at h
            · rename_i hd; simp at hd h; subst hd; subst h
              exact ⟨c :: w, 93, by rw [hw]; simp, by decide⟩
            · have := endsWith_trans r (d :: r1) rest 93 ⟨w, hw⟩ (ihE _ _ h)
              exact endsNonWs_cons c r rest (endsNonWs_of_endsWith _ _ 93 this (by decide))
        split at h
        · obtain ⟨w, hw, _⟩ := skipWs_split r
          split at h
          · simp at h
          · rename_i d r1 hws
            rw [hws] at hw
            split at h
            · rename_i hd; simp at hd h; subst hd; subst h
              exact ⟨c :: w, 125, by rw [hw]; simp, by decide⟩
            · have := endsWith_trans r (d :: r1) rest 125 ⟨w, hw⟩ (ihM _ _ h)
              exact endsNonWs_cons c r rest (endsNonWs_of_endsWith _ _ 125 this (by decide))
        split at h
        · obtain ⟨hp, _⟩ := matchLit_split _ _ _ h
          exact ⟨[c, 114, 117], 101, by rw [hp]; simp, by decide⟩
        split at h
        · obtain ⟨hp, _⟩ := matchLit_split _ _ _ h
          exact ⟨[c, 97, 108, 115], 101, by rw [hp]; simp, by decide⟩
        split at h
        · obtain ⟨hp, _⟩ := matchLit_split _ _ _ h
          exact ⟨[c, 117, 108], 108, by rw [hp]; simp, by decide⟩
        split at h
        · exact endsNonWs_of_digit _ _ (skipNumber_last _ _ h)
        · simp at h
    · intro t rest h
      rw [skipElems] at h
      split at h
      · simp at h
      · rename_i r0 hv
        obtain ⟨pv, hpv, _, _⟩ := (skip_split f).1 _ _ hv
        split at h
        · simp at h
        · rename_i r1 ha
          obtain ⟨w, _, hcase⟩ := afterItem_split _ _ _ _ ha
          rcases hcase with ⟨_, w2, _, hr0, _⟩ | ⟨hb, _, _⟩
          · have := ihE _ _ h
            exact endsWith_trans t r1 rest 93 ⟨pv ++ w ++ 44 :: w2, by rw [hpv, hr0]; simp⟩ this
          · simp at hb
        · rename_i r1 ha
          simp at h; subst h
          exact endsWith_trans t r0 r1 93 ⟨pv, hpv⟩ (afterItem_close_last 93 r0 r1 ha)
    · intro t rest h
      rw [skipMembers] at h
      split at h
      · simp at h
      · rename_i k tv hk
        obtain ⟨pk, hpk, _, _, _⟩ := splitKey_split _ _ _ hk
        split at h
        · simp at h
        · rename_i r0 hv
          obtain ⟨pv, hpv, _, _⟩ := (skip_split f).1 _ _ hv
          split at h
          · simp at h
          · rename_i r1 ha
            obtain ⟨w, _, hcase⟩ := afterItem_split _ _ _ _ ha
            rcases hcase with ⟨_, w2, _, hr0, _⟩ | ⟨hb, _, _⟩
            · have := ihM _ _ h
              exact endsWith_trans t r1 rest 125 ⟨pk ++ pv ++ w ++ 44 :: w2, by rw [hpk, hpv, hr0]; simp⟩ this
            · simp at hb
          · rename_i r1 ha
            simp at h; subst h
            exact endsWith_trans t r0 r1 125 ⟨pk ++ pv, by rw [hpk, hpv]; simp⟩ (afterItem_close_last 125 r0 r1 ha)

theorem trimStart_reverse_last (q : Text) (c : Nat) (hc : isRustWs c = false) :
    trimStart (q ++ [c]).reverse = (q ++ [c]).reverse := by
  simp [trimStart, hc]

/-- **`str::trim` is the identity on every Stable value** (first and last characters are not
whitespace), so `Params::new` keeps a raw params slice as it is. -/
theorem trim_of_stable (v : Text) (h : Stable v) : trim v = v := by
  obtain ⟨d, v', hv, hrw, _⟩ := stable_head h
  obtain ⟨f, hf⟩ := h
  have hsk := hf [] trivial
  simp only [List.append_nil] at hsk
  obtain ⟨q, c, hq, hc⟩ := (skip_last f).1 v [] hsk
  unfold trim trimEnd
  have hts : trimStart v = v := by rw [hv]; simp [trimStart, hrw]
  rw [hts, hq, trimStart_reverse_last q c hc]
  simp


end Jrpc
