/-
  Lemmas for C17: sequential / by-name decoding of what the generated client encodes.
-/
import JrpcVerif.Model.MacroApi
import JrpcVerif.Theorems.C20
import JrpcVerif.Theorems.C16
namespace Jrpc.Macro
open Jrpc

/-- well-formedness of one (parameter, argument) pair: the argument text is what serde wrote for a
value of the parameter's type — one complete JSON value the type accepts; `None` only for optional
parameters; a present optional argument does not serialise to `null` (no `Some(())`/`Some(None)`) -/
def ArgOk (p : ParamDesc) (a : Option Text) : Prop :=
  match a with
  | none => p.optional = true
  | some t => Stable t ∧ accepts p.ty t = true ∧ (p.optional = true → t ≠ tNull)

def ArgsOk : List ParamDesc → List (Option Text) → Prop
  | [], [] => True
  | p :: ps, a :: as => ArgOk p a ∧ ArgsOk ps as
  | _, _ => False

theorem argsOk_length : ∀ (ps : List ParamDesc) (as : List (Option Text)), ArgsOk ps as → ps.length = as.length := by
  intro ps
  induction ps with
  | nil => intro as h; cases as <;> simp_all [ArgsOk]
  | cons p ps ih => intro as h; cases as with
    | nil => simp [ArgsOk] at h
    | cons a as => simp [ArgsOk] at h; simp [ih as h.2]

theorem stable_argText (p : ParamDesc) (a : Option Text) (h : ArgOk p a) : Stable (argText a) := by
  cases a with
  | none => exact stable_null
  | some t => exact h.1

/-- sequential decoding of a reader positioned at the encoded arguments returns exactly them -/
theorem decodeSeq_at : ∀ (ps : List ParamDesc) (as : List (Option Text)) (s rest : Text),
    ArgsOk ps as → as ≠ [] → At s (as.map argText) rest → decodeSeq ps s = some as := by
  intro ps
  induction ps with
  | nil => intro as s rest h hne; cases as <;> simp_all [ArgsOk]
  | cons p ps ih =>
    intro as s rest h hne hat
    cases as with
    | nil => exact absurd rfl hne
    | cons a as =>
      simp only [ArgsOk] at h
      obtain ⟨ha, hrest⟩ := h
      simp only [List.map_cons] at hat
      obtain ⟨s', hstep, hnext⟩ := at_step s (argText a) (as.map argText) rest hat
      have htail : decodeSeq ps s' = some as := by
        rcases hnext with ⟨hnil, _⟩ | hat'
        · have : as = [] := by simpa using hnil
          subst this
          cases ps with
          | nil => rfl
          | cons q qs => simp [ArgsOk] at hrest
        · have hne' : as ≠ [] := by
            intro h0; subst h0
            exact absurd rfl (at_nonempty _ _ _ hat')
          exact ih as s' rest hrest hne' hat'
      unfold decodeSeq
      cases hopt : p.optional with
      | true =>
        simp only [↓reduceIte]
        have h1 := hstep (Option Text) (optDec (decParam p))
        cases a with
        | none =>
          have : optDec (decParam p) (argText none) = some none := by simp [optDec, argText]
          rw [this] at h1
          simp [seqOptNext, h1, htail]
        | some t =>
          simp only [ArgOk] at ha
          have hnn : t ≠ tNull := ha.2.2 hopt
          have : optDec (decParam p) (argText (some t)) = some (some t) := by
            simp [optDec, argText, hnn, decParam, ha.2.1]
          rw [this] at h1
          simp [seqOptNext, h1, htail]
      | false =>
        simp only [Bool.false_eq_true, ↓reduceIte]
        have h1 := hstep Text (decParam p)
        cases a with
        | none => simp [ArgOk, hopt] at ha
        | some t =>
          simp only [ArgOk] at ha
          have : decParam p (argText (some t)) = some t := by simp [decParam, argText, ha.2.1]
          rw [this] at h1
          simp [seqNext, h1, htail]

theorem trimStart_of_head (c : Nat) (r : Text) (h : isRustWs c = false) : trimStart (c :: r) = c :: r := by
  simp [trimStart, h]

theorem trim_bracketed (o c : Nat) (x : Text) (ho : isRustWs o = false) (hc : isRustWs c = false) :
    trim (o :: (x ++ [c])) = o :: (x ++ [c]) := by
  unfold trim trimEnd
  rw [trimStart_of_head o _ ho]
  have : (o :: (x ++ [c])).reverse = c :: (x.reverse ++ [o]) := by simp
  rw [this, trimStart_of_head c _ hc]
  simp


theorem okTexts_map (as : List (Option Text)) : okTexts (as.map (fun a => Ser.ok (argText a))) = as.map argText := by
  induction as with
  | nil => rfl
  | cons a as ih => simp [okTexts, ih]

theorem stable_all (ps : List ParamDesc) (as : List (Option Text)) (h : ArgsOk ps as) :
    ∀ t ∈ as.map argText, Stable t := by
  induction ps generalizing as with
  | nil => cases as <;> simp_all [ArgsOk]
  | cons p ps ih =>
    cases as with
    | nil => simp [ArgsOk] at h
    | cons a as =>
      simp only [ArgsOk] at h
      intro t ht
      simp at ht
      rcases ht with ht | ht
      · subst ht; exact stable_argText p a h.1
      · exact ih as h.2 t (by simpa using ht)



def allOptional (ps : List ParamDesc) : Bool := ps.all (fun p => p.optional)

theorem decodeSeq_exhausted : ∀ (ps : List ParamDesc) (s : Text), Exhausted s →
    decodeSeq ps s = if allOptional ps then some (ps.map (fun _ => none)) else none := by
  intro ps
  induction ps with
  | nil => intro s _; simp [decodeSeq, allOptional]
  | cons p ps ih =>
    intro s h
    have hx := c16_exhausted_forever s h (decParam p)
    unfold decodeSeq
    cases hopt : p.optional with
    | true =>
      simp only [↓reduceIte, hx.2.1]
      rw [ih [] exhausted_nil]
      simp [allOptional, hopt]
    | false =>
      simp [hx.1, allOptional, hopt]

/-- the reader positioned at the given arguments, with further (not supplied) parameters `ps2` -/
theorem decodeSeq_prefix : ∀ (ps1 : List ParamDesc) (as : List (Option Text)) (s rest : Text) (ps2 : List ParamDesc),
    ArgsOk ps1 as → as ≠ [] → At s (as.map argText) rest →
    decodeSeq (ps1 ++ ps2) s = if allOptional ps2 then some (as ++ ps2.map (fun _ => none)) else none := by
  intro ps1
  induction ps1 with
  | nil => intro as s rest ps2 h hne; cases as <;> simp_all [ArgsOk]
  | cons p ps ih =>
    intro as s rest ps2 h hne hat
    cases as with
    | nil => exact absurd rfl hne
    | cons a as =>
      simp only [ArgsOk] at h
      obtain ⟨ha, hrest⟩ := h
      simp only [List.map_cons] at hat
      obtain ⟨s', hstep, hnext⟩ := at_step s (argText a) (as.map argText) rest hat
      have htail : decodeSeq (ps ++ ps2) s' = if allOptional ps2 then some (as ++ ps2.map (fun _ => none)) else none := by
        rcases hnext with ⟨hnil, hs'⟩ | hat'
        · have : as = [] := by simpa using hnil
          subst this
          cases ps with
          | nil =>
            subst hs'
            simpa using decodeSeq_exhausted ps2 _ (exhausted_close rest)
          | cons q qs => simp [ArgsOk] at hrest
        · have hne' : as ≠ [] := by
            intro h0; subst h0
            exact absurd rfl (at_nonempty _ _ _ hat')
          exact ih as s' rest ps2 hrest hne' hat'
      simp only [List.cons_append]
      unfold decodeSeq
      cases hopt : p.optional with
      | true =>
        simp only [↓reduceIte]
        have h1 := hstep (Option Text) (optDec (decParam p))
        cases a with
        | none =>
          have : optDec (decParam p) (argText none) = some none := by simp [optDec, argText]
          rw [this] at h1
          simp only [seqOptNext, h1, htail]
          split <;> simp
        | some t =>
          simp only [ArgOk] at ha
          have hnn : t ≠ tNull := ha.2.2 hopt
          have : optDec (decParam p) (argText (some t)) = some (some t) := by
            simp [optDec, argText, hnn, decParam, ha.2.1]
          rw [this] at h1
          simp only [seqOptNext, h1, htail]
          split <;> simp
      | false =>
        simp only [Bool.false_eq_true, ↓reduceIte]
        have h1 := hstep Text (decParam p)
        cases a with
        | none => simp [ArgOk, hopt] at ha
        | some t =>
          simp only [ArgOk] at ha
          have : decParam p (argText (some t)) = some t := by simp [decParam, argText, ha.2.1]
          rw [this] at h1
          simp only [seqNext, h1, htail]
          split <;> simp

/-! ### by name -/

/-- the members the client's named builder emits -/
def namedMembers (ps : List ParamDesc) (as : List (Option Text)) : List (Text × Text) :=
  (ps.zip as).map (fun pa => (pa.1.name, argText pa.2))

/-- no parameter's wire name is an accepted spelling of another parameter -/
def NoClash (p q : ParamDesc) : Prop := ¬ (spellings p).contains q.name = true ∧ ¬ (spellings q).contains p.name = true

theorem name_mem_spellings (p : ParamDesc) : (spellings p).contains p.name = true := by
  simp [spellings]

theorem count_value_other (p : ParamDesc) : ∀ (qs : List ParamDesc) (bs : List (Option Text)),
    (∀ q ∈ qs, ¬ (spellings p).contains q.name = true) →
    countFor p (namedMembers qs bs) = 0 ∧ valueFor p (namedMembers qs bs) = none := by
  intro qs
  induction qs with
  | nil => intro bs _; simp [namedMembers, countFor, valueFor]
  | cons q qs ih =>
    intro bs h
    cases bs with
    | nil => simp [namedMembers, countFor, valueFor]
    | cons b bs =>
      have hq := h q (by simp)
      have := ih bs (fun x hx => h x (by simp [hx]))
      simp only [namedMembers, List.zip_cons_cons, List.map_cons, countFor, List.filter_cons, hq,
        Bool.false_eq_true, ↓reduceIte, valueFor] at this ⊢
      exact this

theorem countFor_append (p : ParamDesc) (m1 m2 : List (Text × Text)) :
    countFor p (m1 ++ m2) = countFor p m1 + countFor p m2 := by
  simp [countFor]

theorem valueFor_append_none (p : ParamDesc) : ∀ (m1 m2 : List (Text × Text)), valueFor p m1 = none →
    valueFor p (m1 ++ m2) = valueFor p m2 := by
  intro m1
  induction m1 with
  | nil => intro m2 _; rfl
  | cons kv m1 ih =>
    intro m2 h
    obtain ⟨k, v⟩ := kv
    simp only [valueFor] at h
    split at h
    · simp at h
    · rename_i hk
      simp only [List.cons_append, valueFor, hk, Bool.false_eq_true, ↓reduceIte]
      exact ih m2 h

theorem namedMembers_append (pre ps : List ParamDesc) (preA as : List (Option Text)) (h : pre.length = preA.length) :
    namedMembers (pre ++ ps) (preA ++ as) = namedMembers pre preA ++ namedMembers ps as := by
  simp [namedMembers, List.zip_append h]

/-- by-name decoding of the members the client emitted, processing the suffix `ps` of the parameter
list while the object holds the members of all parameters (`pre ++ ps`) -/
theorem decodeByName_full : ∀ (ps : List ParamDesc) (as : List (Option Text)) (pre : List ParamDesc) (preA : List (Option Text)),
    pre.length = preA.length → ArgsOk ps as → List.Pairwise NoClash (pre ++ ps) →
    decodeByName ps (namedMembers (pre ++ ps) (preA ++ as)) = some as := by
  intro ps
  induction ps with
  | nil => intro as pre preA _ h _; cases as <;> simp_all [ArgsOk, decodeByName]
  | cons p ps ih =>
    intro as pre preA hl h hpw
    cases as with
    | nil => simp [ArgsOk] at h
    | cons a as =>
      simp only [ArgsOk] at h
      obtain ⟨ha, hrest⟩ := h
      -- the members of `p` itself
      rw [List.pairwise_append] at hpw
      obtain ⟨_, hps, hcross⟩ := hpw
      rw [List.pairwise_cons] at hps
      have hpre := count_value_other p pre preA (fun q hq => (hcross q hq p (by simp)).2)
      have hpost := count_value_other p ps as (fun q hq => (hps.1 q hq).1)
      have hms : namedMembers (pre ++ p :: ps) (preA ++ a :: as) =
          namedMembers pre preA ++ ((p.name, argText a) :: namedMembers ps as) := by
        rw [namedMembers_append _ _ _ _ hl]; simp [namedMembers]
      have hcount : countFor p (namedMembers (pre ++ p :: ps) (preA ++ a :: as)) = 1 := by
        rw [hms, countFor_append, hpre.1]
        simp only [countFor, List.filter_cons, name_mem_spellings, ↓reduceIte, List.length_cons] at hpost ⊢
        omega
      have hval : valueFor p (namedMembers (pre ++ p :: ps) (preA ++ a :: as)) = some (argText a) := by
        rw [hms, valueFor_append_none _ _ _ hpre.2]
        have := name_mem_spellings p
        simp only [valueFor, this, ↓reduceIte]
      -- the tail, with `p` moved into the prefix
      have htail : decodeByName ps (namedMembers (pre ++ p :: ps) (preA ++ a :: as)) = some as := by
        have := ih as (pre ++ [p]) (preA ++ [a]) (by simp [hl]) hrest (by
          rw [List.append_assoc]; simp only [List.singleton_append]
          rw [List.pairwise_append]; exact ⟨by assumption, List.pairwise_cons.mpr hps, hcross⟩)
        simpa [List.append_assoc] using this
      unfold decodeByName
      have hc : ¬ (countFor p (namedMembers (pre ++ p :: ps) (preA ++ a :: as)) > 1) := by omega
      simp only [hc, ↓reduceIte, hval, htail]
      cases a with
      | none =>
        have hopt : p.optional = true := ha
        simp [argText, hopt]
      | some t =>
        simp only [ArgOk] at ha
        by_cases hopt : p.optional = true
        · have hnn : t ≠ tNull := ha.2.2 hopt
          simp [argText, hopt, hnn, ha.2.1]
        · simp [argText, hopt, ha.2.1]


end Jrpc.Macro
