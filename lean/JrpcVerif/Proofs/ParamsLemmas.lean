import JrpcVerif.Model.ParamsSeq
import JrpcVerif.Proofs.TextLemmas
namespace Jrpc

theorem isRustWs_of_isJsonWs (c : Nat) (h : isJsonWs c = true) : isRustWs c = true := by
  simp [isJsonWs] at h
  rcases h with ((h | h) | h) | h <;> subst h <;> decide

theorem skipWs_head_not_ws (t r : Text) (d : Nat) (h : skipWs t = d :: r) : isJsonWs d = false := by
  fun_induction skipWs t <;> simp_all

theorem skipWs_idem (t : Text) : skipWs (skipWs t) = skipWs t := by
  fun_induction skipWs t <;> simp_all [skipWs]

theorem skipWs_of_head (d : Nat) (r : Text) (h : isJsonWs d = false) : skipWs (d :: r) = d :: r := by
  simp [skipWs, h]

/-- Rust `trim_start` lands where JSON whitespace skipping lands, when the next char is not
(Unicode) whitespace -/
theorem trimStart_eq_of_skipWs (t r : Text) (d : Nat) (h : skipWs t = d :: r) (hd : isRustWs d = false) :
    trimStart t = d :: r := by
  fun_induction skipWs t
  · simp at h
  · rename_i c t hc ih
    have := isRustWs_of_isJsonWs c hc
    simp [trimStart, this]; exact ih h
  · rename_i c t hc
    simp at h; obtain ⟨h1, h2⟩ := h; subst h1; subst h2
    simp [trimStart, hd]

/-- a text on which `skipValue` succeeds starts with a value-start character -/
theorem skipValue_head (f : Nat) (d : Nat) (r rest : Text) (h : skipValue f (d :: r) = some rest) :
    d = 34 ∨ d = 91 ∨ d = 123 ∨ d = 116 ∨ d = 102 ∨ d = 110 ∨ d = 45 ∨ isDigit d = true := by
  cases f with
  | zero => rw [skipValue_zero] at h; cases h
  | succ f =>
    rw [skipValue] at h
    by_cases h1 : d = 34; · simp [h1]
    by_cases h2 : d = 91; · simp [h2]
    by_cases h3 : d = 123; · simp [h3]
    by_cases h4 : d = 116; · simp [h4]
    by_cases h5 : d = 102; · simp [h5]
    by_cases h6 : d = 110; · simp [h6]
    by_cases h7 : d = 45; · simp [h7]
    simp [h1, h2, h3, h4, h5, h6, h7] at h
    simp [h.1]

theorem valueStart_not_rustWs (d : Nat)
    (h : d = 34 ∨ d = 91 ∨ d = 123 ∨ d = 116 ∨ d = 102 ∨ d = 110 ∨ d = 45 ∨ isDigit d = true) :
    isRustWs d = false ∧ d ≠ 93 ∧ d ≠ 44 := by
  rcases h with h | h | h | h | h | h | h | h
  all_goals (try (subst h; decide))
  simp [isDigit] at h
  refine ⟨?_, by omega, by omega⟩
  simp [isRustWs]; omega


theorem skipWs_cons_cases (t r2 : Text) (dd : Nat) (h : skipWs t = dd :: r2) :
    ∃ c t', t = c :: t' ∧ (isJsonWs c = true ∨ c = dd) := by
  cases t with
  | nil => simp [skipWs] at h
  | cons c t' =>
    refine ⟨c, t', rfl, ?_⟩
    simp only [skipWs] at h
    split at h
    · left; assumption
    · right; simp at h; exact h.1

theorem afterItem_cases (close : Nat) (t r1 : Text) (b : Bool) (h : afterItem close t = some (b, r1)) :
    ∃ dd r2, skipWs t = dd :: r2 ∧
      ((dd = 44 ∧ b = true ∧ r1 = skipWs r2) ∨ (dd ≠ 44 ∧ dd = close ∧ b = false ∧ r1 = r2)) := by
  unfold afterItem at h
  split at h
  · simp at h
  · rename_i dd r2 hws
    refine ⟨dd, r2, hws, ?_⟩
    split at h
    · rename_i h44; simp at h44 h; left; exact ⟨h44, h.1, h.2.symm⟩
    · rename_i h44
      split at h
      · rename_i hc; simp at h44 hc h; right; exact ⟨h44, hc, h.1, h.2.symm⟩
      · simp at h

theorem endOfValueOk_of_afterItem (d : Nat) (r r1 : Text) (b : Bool) (h : afterItem 93 r = some (b, r1)) :
    endOfValueOk d r = true := by
  obtain ⟨dd, r2, hws, hdd⟩ := afterItem_cases _ _ _ _ h
  obtain ⟨c, t', ht, hc⟩ := skipWs_cons_cases _ _ _ hws
  subst ht
  unfold endOfValueOk
  split
  · rfl
  · simp only []
    rcases hc with hc | hc
    · simp [isJsonWs] at hc; rcases hc with ((hc | hc) | hc) | hc <;> subst hc <;> simp
    · subst hc
      rcases hdd with ⟨h1, _, _⟩ | ⟨_, h1, _, _⟩ <;> subst h1 <;> simp

theorem parseAt_elem {α : Type} (δ : Text → Option α) (s json j1 r : Text) (d f : Nat)
    (hws : skipWs json = d :: j1)
    (hv : skipValue f (d :: j1) = some r) (heov : endOfValueOk d r = true) :
    parseAt δ s json = (match δ (consumed (d :: j1) r) with
      | none => (.err, [])
      | some v => (.ok v, trimStart r)) := by
  unfold parseAt
  rw [hws]
  have hlen := skipWs_length_le json
  rw [hws] at hlen
  have hv' := (skip_fuel_enough f).1 _ _ hv (fuelFor json) (by simp [fuelFor] at *; omega)
  simp only [hv', heov]
  cases δ (consumed (d :: j1) r) <;> rfl

/-- state from which the reader reports "no element" and resets to the empty text -/
def Exhausted (s : Text) : Prop := ∀ (α : Type) (δ : Text → Option α), nextInner δ s = (.none, [])

theorem exhausted_nil : Exhausted [] := by intro α δ; rfl
theorem exhausted_close (r : Text) : Exhausted (93 :: r) := by intro α δ; simp [nextInner]

/-- The reader state `s` is positioned at the first of the remaining raw elements `es` of an array
whose text after the closing bracket is `rest` (`es` as the declarative splitter `elemsLoop` sees
them). -/
def At (s : Text) (es : List Text) (rest : Text) : Prop :=
  ∃ (n f : Nat) (t0 json : Text), elemsLoop n f t0 = some (es, rest) ∧ skipWs json = t0 ∧
    ∀ (α : Type) (δ : Text → Option α), nextInner δ s = parseAt δ s json

theorem at_nonempty (s : Text) (es : List Text) (rest : Text) (h : At s es rest) : es ≠ [] := by
  obtain ⟨n, f, t0, json, hl, _, _⟩ := h
  cases n with
  | zero => simp [elemsLoop] at hl
  | succ n =>
    rw [elemsLoop] at hl
    split at hl
    · simp at hl
    · split at hl
      · simp at hl
      · split at hl
        · simp at hl
        · simp at hl; intro h; simp [← hl.1] at h
      · simp at hl; intro h; simp [← hl.1] at h

/-- One typed read at a positioned state: the result is the decoder applied to *that* element —
a value, or an error that empties the reader; on success the reader is positioned at the next
element, or at the closing bracket after the last one. -/
theorem at_step (s : Text) (e : Text) (es' : List Text) (rest : Text) (h : At s (e :: es') rest) :
    ∃ s', (∀ (α : Type) (δ : Text → Option α), nextInner δ s =
              (match δ e with
               | none => (.err, [])
               | some v => (.ok v, s'))) ∧
          ((es' = [] ∧ s' = 93 :: rest) ∨ At s' es' rest) := by
  obtain ⟨n, f, t0, json, hl, hjson, hs⟩ := h
  cases n with
  | zero => simp [elemsLoop] at hl
  | succ n =>
    rw [elemsLoop] at hl
    unfold splitValue at hl
    split at hl
    · simp at hl
    · rename_i e0 r hsv
      split at hsv
      · simp at hsv
      · rename_i r' hv
        simp at hsv
        obtain ⟨he, hr⟩ := hsv
        subst hr
        cases t0 with
        | nil => cases f <;> simp [skipValue] at hv
        | cons d j1 =>
          split at hl
          · simp at hl
          · rename_i r1 ha
            have heov := endOfValueOk_of_afterItem d _ _ _ ha
            obtain ⟨dd, r2, hws, hdd⟩ := afterItem_cases _ _ _ _ ha
            rcases hdd with ⟨h44, _, hr1⟩ | ⟨_, _, hb, _⟩
            · subst h44
              have hts : trimStart r' = 44 :: r2 := trimStart_eq_of_skipWs _ _ _ hws (by decide)
              split at hl
              · simp at hl
              · rename_i es2 rest2 hloop
                simp at hl
                obtain ⟨⟨he0, hes⟩, hrest⟩ := hl
                subst hes; subst hrest
                refine ⟨44 :: r2, ?_, Or.inr ?_⟩
                · intro α δ
                  rw [hs, parseAt_elem δ s json j1 r' d f hjson hv heov, hts, he, he0]
                · exact ⟨n, f, skipWs r2, r2, hr1 ▸ hloop, rfl, by intro α δ; simp [nextInner]⟩
            · simp at hb
          · rename_i r1 ha
            have heov := endOfValueOk_of_afterItem d _ _ _ ha
            obtain ⟨dd, r2, hws, hdd⟩ := afterItem_cases _ _ _ _ ha
            rcases hdd with ⟨_, hb, _⟩ | ⟨_, h93, _, hr1⟩
            · simp at hb
            · subst h93
              have hts : trimStart r' = 93 :: r2 := trimStart_eq_of_skipWs _ _ _ hws (by decide)
              simp at hl
              obtain ⟨⟨he0, hes⟩, hrest⟩ := hl
              subst hes; subst hrest; subst hr1
              refine ⟨93 :: r1, ?_, Or.inl ⟨rfl, rfl⟩⟩
              intro α δ
              rw [hs, parseAt_elem δ s json j1 r' d f hjson hv heov, hts, he, he0]

/-- reading all elements raw, one after the other -/
theorem readRaw_at : ∀ (es : List Text) (s rest : Text), At s es rest →
    readRaw es.length s = (es.map Got.val, 93 :: rest) := by
  intro es
  induction es with
  | nil => intro s rest h; exact absurd rfl (at_nonempty _ _ _ h)
  | cons e es' ih =>
    intro s rest h
    obtain ⟨s', hstep, hnext⟩ := at_step s e es' rest h
    have h1 := hstep Text decAny
    simp only [decAny] at h1
    rcases hnext with ⟨hnil, hs'⟩ | hat
    · subst hnil; subst hs'
      simp [readRaw, seqNext, h1]
    · have := ih s' rest hat
      simp [readRaw, seqNext, h1, this]

end Jrpc
