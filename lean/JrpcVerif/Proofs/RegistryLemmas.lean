/-
  Helper lemmas for C13 (method registry).
  Part A: association-list tables.  Part B: the reference-counted heap (frame lemmas for
  `makeMut` / `setTbl` / handle updates under the reference-count invariant).
  Part C: every implementation step commutes with the value-semantics step.
-/
import JrpcVerif.Model.Registry
namespace Jrpc.Registry

/-! ## Part A — tables -/
namespace Tbl

/-- keys are pairwise distinct -/
def Uniq : Tbl → Prop
  | [] => True
  | (k, _) :: r => find r k = none ∧ Uniq r

theorem find_insert (t : Tbl) (n : Name) (c : Cb) (m : Name) :
    find (insert t n c) m = if n = m then some c else find t m := by
  induction t with
  | nil => simp [insert, find]
  | cons p r ih =>
    obtain ⟨k, v⟩ := p
    simp only [insert]
    split <;> simp only [find] <;> grind

theorem find_erase (t : Tbl) (n m : Name) :
    find (erase t n) m = if n = m then none else find t m := by
  induction t with
  | nil => simp [erase, find]
  | cons p r ih =>
    obtain ⟨k, v⟩ := p
    simp only [erase]
    split <;> simp only [find] <;> grind

theorem uniq_insert {t : Tbl} (h : Uniq t) (n : Name) (c : Cb) : Uniq (insert t n c) := by
  induction t with
  | nil => simp [insert, Uniq, find]
  | cons p r ih =>
    obtain ⟨k, v⟩ := p
    obtain ⟨h1, h2⟩ := h
    by_cases hk : k = n
    · simp [insert, hk, Uniq]; subst hk; exact ⟨h1, h2⟩
    · simp [insert, hk, Uniq, find_insert]
      refine ⟨?_, ih h2⟩
      have : ¬ n = k := fun e => hk e.symm
      simp [this, h1]

theorem uniq_erase {t : Tbl} (h : Uniq t) (n : Name) : Uniq (erase t n) := by
  induction t with
  | nil => simp [erase, Uniq]
  | cons p r ih =>
    obtain ⟨k, v⟩ := p
    obtain ⟨h1, h2⟩ := h
    by_cases hk : k = n
    · simp [erase, hk]; exact ih h2
    · simp [erase, hk, Uniq, find_erase, h1]; exact ih h2

theorem uniq_insertAll {s : Tbl} (h : Uniq s) (o : Tbl) : Uniq (insertAll s o) := by
  induction o generalizing s with
  | nil => simpa [insertAll]
  | cons p r ih => obtain ⟨k, v⟩ := p; simp [insertAll]; exact ih (uniq_insert h k v)

theorem find_insertAll (s : Tbl) {o : Tbl} (ho : Uniq o) (m : Name) :
    find (insertAll s o) m = (match find o m with | some c => some c | none => find s m) := by
  induction o generalizing s with
  | nil => simp [insertAll, find]
  | cons p r ih =>
    obtain ⟨k, v⟩ := p
    obtain ⟨h1, h2⟩ := ho
    simp only [insertAll, find]
    rw [ih _ h2, find_insert]
    by_cases hk : k = m
    · subst hk; simp [h1]
    · simp [hk]

theorem has_eq (t : Tbl) (n : Name) : has t n = (find t n).isSome := rfl

theorem has_false {t : Tbl} {n : Name} : has t n = false ↔ find t n = none := by
  rw [has_eq]; cases find t n <;> simp

theorem has_true {t : Tbl} {n : Name} : has t n = true ↔ ∃ c, find t n = some c := by
  rw [has_eq]; cases find t n <;> simp

theorem firstTaken_none {s : Tbl} {ks : List Name} :
    firstTaken s ks = none ↔ ∀ k, k ∈ ks → find s k = none := by
  induction ks with
  | nil => simp [firstTaken]
  | cons k r ih =>
    simp only [firstTaken, List.mem_cons]
    by_cases hf : has s k = true
    · rw [if_pos hf]
      constructor
      · intro h; cases h
      · intro h; have := h k (Or.inl rfl); rw [← has_false, hf] at this; cases this
    · rw [if_neg hf, ih]
      have hn : find s k = none := by rw [← has_false]; simpa using hf
      constructor
      · intro h a ha; rcases ha with rfl | ha; exact hn; exact h a ha
      · intro h a ha; exact h a (Or.inr ha)

theorem firstTaken_some {s : Tbl} {ks : List Name} {k : Name} (h : firstTaken s ks = some k) :
    k ∈ ks ∧ has s k = true := by
  induction ks with
  | nil => simp [firstTaken] at h
  | cons a r ih =>
    simp only [firstTaken] at h
    by_cases hf : has s a = true
    · rw [if_pos hf] at h; cases h; exact ⟨List.mem_cons_self, hf⟩
    · rw [if_neg hf] at h; exact ⟨List.mem_cons_of_mem _ (ih h).1, (ih h).2⟩

theorem mem_names {t : Tbl} {n : Name} : n ∈ names t ↔ (find t n).isSome = true := by
  induction t with
  | nil => simp [names, find]
  | cons p r ih =>
    obtain ⟨k, v⟩ := p
    have e : names ((k, v) :: r) = k :: names r := rfl
    rw [e, List.mem_cons, find]
    by_cases hk : k = n
    · simp [hk]
    · rw [if_neg hk, ← ih]; constructor
      · rintro (h | h); exact absurd h.symm hk; exact h
      · intro h; exact Or.inr h

theorem not_mem_names {t : Tbl} {n : Name} : n ∉ names t ↔ find t n = none := by
  rw [mem_names]; cases find t n <;> simp

theorem uniq_iff_nodup (t : Tbl) : Uniq t ↔ (names t).Nodup := by
  induction t with
  | nil => simp [Uniq, names]
  | cons p r ih =>
    obtain ⟨k, v⟩ := p
    have e : names ((k, v) :: r) = k :: names r := rfl
    rw [e, List.nodup_cons, Uniq, ih, not_mem_names]

end Tbl

/-! ## Part B — the reference-counted heap -/

/-- weight of one handle slot towards the strong count of cell `c` -/
def wt (oh : Option Handle) (c : Nat) : Nat :=
  match oh with
  | some h => if h.cell = c then 1 else 0
  | none => 0

/-- number of live handles pointing at cell `c` -/
def refs : List (Option Handle) → Nat → Nat
  | [], _ => 0
  | oh :: r, c => wt oh c + refs r c

/-- the heap invariant: live handles point into the heap, and every strong count is exactly the
number of live handles that point at the cell -/
structure Inv (s : State) : Prop where
  bound : ∀ i h, handleAt s i = some h → h.cell < s.heap.length
  rc : ∀ c, c < s.heap.length → rcAt s c = refs s.handles c

theorem refs_append (hs : List (Option Handle)) (x : Option Handle) (c : Nat) :
    refs (hs ++ [x]) c = refs hs c + wt x c := by
  induction hs with
  | nil => simp [refs]
  | cons a r ih => simp [refs, ih]; omega

theorem refs_set (hs : List (Option Handle)) (i : Nat) (x : Option Handle) (c : Nat)
    (hi : i < hs.length) :
    refs (hs.set i x) c + wt ((hs[i]?).getD none) c = refs hs c + wt x c := by
  induction hs generalizing i with
  | nil => simp at hi
  | cons a r ih =>
    cases i with
    | zero => simp [refs]; omega
    | succ j =>
      have := ih j (by simpa using hi)
      simp [refs] at *; omega

theorem wt_le_refs (hs : List (Option Handle)) (j : Nat) (c : Nat) :
    wt ((hs[j]?).getD none) c ≤ refs hs c := by
  induction hs generalizing j with
  | nil => simp [wt, refs]
  | cons a r ih =>
    cases j with
    | zero => simp [refs]
    | succ k => have := ih k; simp [refs] at *; omega

theorem refs_eq_zero (hs : List (Option Handle)) (c : Nat)
    (h : ∀ (j : Nat) (hd : Handle), (hs[j]?).getD none = some hd → hd.cell ≠ c) : refs hs c = 0 := by
  induction hs with
  | nil => simp [refs]
  | cons a r ih =>
    have h0 := h 0
    have hr : refs r c = 0 := ih (fun j hd hj => h (j + 1) hd (by simp; exact hj))
    cases a with
    | none => simp [refs, wt, hr]
    | some x =>
      have := h0 x (by simp)
      simp [refs, wt, hr, this]

/-- when the strong count is 1, the handle that points at the cell is the only one -/
theorem refs_one_unique {hs : List (Option Handle)} {c i j : Nat} {h h' : Handle}
    (h1 : refs hs c = 1) (hi : (hs[i]?).getD none = some h) (hc : h.cell = c)
    (hj : (hs[j]?).getD none = some h') (hc' : h'.cell = c) : i = j := by
  by_cases hij : i = j
  · exact hij
  · exfalso
    have hlt : i < hs.length := by
      by_cases hl : i < hs.length
      · exact hl
      · rw [List.getElem?_eq_none (by omega)] at hi; simp at hi
    have hs1 := refs_set hs i none c hlt
    rw [hi] at hs1
    have hw := wt_le_refs (hs.set i none) j c
    rw [List.getElem?_set_ne hij, hj] at hw
    simp [wt, hc, hc'] at hs1 hw
    omega

/-! projections of the primitive state updates -/

@[simp] theorem handles_setRc (s : State) (c r : Nat) : (setRc s c r).handles = s.handles := by
  unfold setRc; split <;> rfl
@[simp] theorem handles_setTbl (s : State) (c : Nat) (t : Tbl) : (setTbl s c t).handles = s.handles := by
  unfold setTbl; split <;> rfl
@[simp] theorem handles_allocCell (s : State) (x : Cell) : (allocCell s x).handles = s.handles := rfl
@[simp] theorem handles_setHandle (s : State) (i : Nat) (oh : Option Handle) :
    (setHandle s i oh).handles = s.handles.set i oh := rfl
@[simp] theorem handles_pushHandle (s : State) (h : Handle) :
    (pushHandle s h).handles = s.handles ++ [some h] := rfl

@[simp] theorem heap_setHandle (s : State) (i : Nat) (oh : Option Handle) : (setHandle s i oh).heap = s.heap := rfl
@[simp] theorem heap_pushHandle (s : State) (h : Handle) : (pushHandle s h).heap = s.heap := rfl
@[simp] theorem heap_allocCell (s : State) (x : Cell) : (allocCell s x).heap = s.heap ++ [x] := rfl
@[simp] theorem heaplen_setRc (s : State) (c r : Nat) : (setRc s c r).heap.length = s.heap.length := by
  unfold setRc; split <;> simp
@[simp] theorem heaplen_setTbl (s : State) (c : Nat) (t : Tbl) : (setTbl s c t).heap.length = s.heap.length := by
  unfold setTbl; split <;> simp

@[simp] theorem handleAt_setRc (s : State) (c r j : Nat) : handleAt (setRc s c r) j = handleAt s j := by
  simp [handleAt]
@[simp] theorem handleAt_setTbl (s : State) (c : Nat) (t : Tbl) (j : Nat) :
    handleAt (setTbl s c t) j = handleAt s j := by simp [handleAt]
@[simp] theorem handleAt_allocCell (s : State) (x : Cell) (j : Nat) :
    handleAt (allocCell s x) j = handleAt s j := by simp [handleAt]

theorem handleAt_lt {s : State} {i : Nat} {h : Handle} (hi : handleAt s i = some h) :
    i < s.handles.length := by
  by_cases hl : i < s.handles.length
  · exact hl
  · simp [handleAt, List.getElem?_eq_none (Nat.le_of_not_lt hl)] at hi

theorem handleAt_setHandle (s : State) (i : Nat) (oh : Option Handle) (j : Nat)
    (hi : i < s.handles.length) :
    handleAt (setHandle s i oh) j = if i = j then oh else handleAt s j := by
  simp only [handleAt, handles_setHandle, List.getElem?_set]
  split <;> simp_all

theorem handleAt_pushHandle (s : State) (h : Handle) (j : Nat) :
    handleAt (pushHandle s h) j = if j = s.handles.length then some h else handleAt s j := by
  simp only [handleAt, handles_pushHandle, List.getElem?_append]
  by_cases h1 : j < s.handles.length
  · simp [h1]; omega
  · by_cases h2 : j = s.handles.length
    · simp [h2]
    · have : s.handles.length ≤ j := by omega
      simp [h1, h2]
      have : j - s.handles.length ≠ 0 := by omega
      simp [this]

@[simp] theorem tblAt_setHandle (s : State) (i : Nat) (oh : Option Handle) (c : Nat) :
    tblAt (setHandle s i oh) c = tblAt s c := rfl
@[simp] theorem tblAt_pushHandle (s : State) (h : Handle) (c : Nat) : tblAt (pushHandle s h) c = tblAt s c := rfl
@[simp] theorem rcAt_setHandle (s : State) (i : Nat) (oh : Option Handle) (c : Nat) :
    rcAt (setHandle s i oh) c = rcAt s c := rfl
@[simp] theorem rcAt_pushHandle (s : State) (h : Handle) (c : Nat) : rcAt (pushHandle s h) c = rcAt s c := rfl

@[simp] theorem tblAt_setRc (s : State) (c r c' : Nat) : tblAt (setRc s c r) c' = tblAt s c' := by
  unfold setRc
  split
  · next x hx =>
    simp only [tblAt, List.getElem?_set]
    by_cases hc : c = c'
    · subst hc
      rcases (List.getElem?_eq_some_iff.mp hx) with ⟨hlt, hxe⟩
      simp [hlt, hxe]
    · simp [hc]
  · rfl

theorem rcAt_setRc (s : State) (c r c' : Nat) (hc : c < s.heap.length) :
    rcAt (setRc s c r) c' = if c = c' then r else rcAt s c' := by
  unfold setRc
  split
  · next x hx =>
    simp only [rcAt, List.getElem?_set]
    by_cases hcc : c = c'
    · subst hcc; simp [hc]
    · simp [hcc]
  · next hx => rw [List.getElem?_eq_none_iff] at hx; omega

@[simp] theorem rcAt_setTbl (s : State) (c : Nat) (t : Tbl) (c' : Nat) : rcAt (setTbl s c t) c' = rcAt s c' := by
  unfold setTbl
  split
  · next x hx =>
    simp only [rcAt, List.getElem?_set]
    by_cases hc : c = c'
    · subst hc
      rcases (List.getElem?_eq_some_iff.mp hx) with ⟨hlt, hxe⟩
      simp [hlt, hxe]
    · simp [hc]
  · rfl

theorem tblAt_setTbl (s : State) (c : Nat) (t : Tbl) (c' : Nat) (hc : c < s.heap.length) :
    tblAt (setTbl s c t) c' = if c = c' then t else tblAt s c' := by
  unfold setTbl
  split
  · next x hx =>
    simp only [tblAt, List.getElem?_set]
    by_cases hcc : c = c'
    · subst hcc; simp [hc]
    · simp [hcc]
  · next hx => rw [List.getElem?_eq_none_iff] at hx; omega

theorem tblAt_allocCell (s : State) (x : Cell) (c : Nat) :
    tblAt (allocCell s x) c = if c = s.heap.length then x.tbl else tblAt s c := by
  simp only [tblAt, heap_allocCell, List.getElem?_append]
  by_cases h1 : c < s.heap.length
  · simp [h1]; omega
  · by_cases h2 : c = s.heap.length
    · simp [h2]
    · have : s.heap.length ≤ c := by omega
      simp [h1, h2]
      have : c - s.heap.length ≠ 0 := by omega
      simp [this]

theorem rcAt_allocCell (s : State) (x : Cell) (c : Nat) :
    rcAt (allocCell s x) c = if c = s.heap.length then x.rc else rcAt s c := by
  simp only [rcAt, heap_allocCell, List.getElem?_append]
  by_cases h1 : c < s.heap.length
  · simp [h1]; omega
  · by_cases h2 : c = s.heap.length
    · simp [h2]
    · have : s.heap.length ≤ c := by omega
      simp [h1, h2]
      have : c - s.heap.length ≠ 0 := by omega
      simp [this]

theorem Inv.refs_pos {s : State} (hI : Inv s) {i : Nat} {h : Handle} (hi : handleAt s i = some h) :
    1 ≤ rcAt s h.cell := by
  rw [hI.rc _ (hI.bound i h hi)]
  have := wt_le_refs s.handles i h.cell
  unfold handleAt at hi
  rw [hi] at this
  simpa [wt] using this

/-- with strong count 1 nobody else points at the cell -/
theorem Inv.unique {s : State} (hI : Inv s) {i j : Nat} {h h' : Handle}
    (hi : handleAt s i = some h) (h1 : rcAt s h.cell = 1)
    (hj : handleAt s j = some h') (hc : h'.cell = h.cell) : i = j := by
  rw [hI.rc _ (hI.bound i h hi)] at h1
  exact refs_one_unique h1 hi rfl hj hc

theorem inv_init : Inv State.init := by
  constructor
  · intro i h hi; simp [handleAt, State.init] at hi
  · intro c hc; simp [State.init] at hc

theorem Inv.refs_fresh {s : State} (hI : Inv s) : refs s.handles s.heap.length = 0 := by
  apply refs_eq_zero
  intro j hd hj
  have := hI.bound j hd hj
  omega

/-- what `Arc::make_mut` establishes -/
structure MakeMutSpec (s : State) (i : Nat) (h : Handle) : Prop where
  inv : Inv (makeMut s i h)
  hAt : handleAt (makeMut s i h) i = some { h with cell := mutCell s h }
  hOther : ∀ j, j ≠ i → handleAt (makeMut s i h) j = handleAt s j
  rc1 : rcAt (makeMut s i h) (mutCell s h) = 1
  tbl : tblAt (makeMut s i h) (mutCell s h) = tblAt s h.cell
  tblOld : ∀ c, c < s.heap.length → tblAt (makeMut s i h) c = tblAt s c
  rcOther : ∀ c, c < s.heap.length → c ≠ h.cell → rcAt (makeMut s i h) c = rcAt s c
  len : (makeMut s i h).handles.length = s.handles.length
  heapLe : s.heap.length ≤ (makeMut s i h).heap.length
  cellLt : mutCell s h < (makeMut s i h).heap.length

theorem makeMut_spec {s : State} {i : Nat} {h : Handle} (hI : Inv s) (hi : handleAt s i = some h) :
    MakeMutSpec s i h := by
  have hb := hI.bound i h hi
  have hlt := handleAt_lt hi
  by_cases h1 : rcAt s h.cell = 1
  · have e1 : makeMut s i h = s := by simp [makeMut, h1]
    have e2 : mutCell s h = h.cell := by simp [mutCell, h1]
    constructor <;> simp only [e1, e2] <;> first | assumption | simp | skip
  · have e1 : makeMut s i h =
        setHandle (allocCell (setRc s h.cell (rcAt s h.cell - 1)) ⟨1, tblAt s h.cell⟩) i
          (some { h with cell := s.heap.length }) := by simp [makeMut, h1]
    have e2 : mutCell s h = s.heap.length := by simp [mutCell, h1]
    have hAtAll : ∀ j, handleAt (makeMut s i h) j =
        if i = j then some { h with cell := s.heap.length } else handleAt s j := by
      intro j
      rw [e1, handleAt_setHandle _ _ _ _ (by simpa using hlt)]
      simp
    constructor
    · -- Inv
      constructor
      · intro j hd hj
        rw [hAtAll] at hj
        rw [e1]; simp
        split at hj
        · cases hj; simp
        · have := hI.bound j hd hj; omega
      · intro c hc
        rw [e1] at hc ⊢
        simp at hc
        simp only [rcAt_setHandle, rcAt_allocCell, heaplen_setRc, handles_setHandle,
          handles_allocCell, handles_setRc]
        have hset := refs_set s.handles i (some { h with cell := s.heap.length }) c hlt
        have hi' : (s.handles[i]?).getD none = some h := hi
        rw [hi'] at hset
        by_cases hcL : c = s.heap.length
        · subst hcL
          have hz := hI.refs_fresh
          have : h.cell ≠ s.heap.length := by omega
          simp [wt, this, hz] at hset
          simp [hset]
        · have hc' : c < s.heap.length := by omega
          rw [if_neg hcL, rcAt_setRc _ _ _ _ hb]
          have hne : ¬ s.heap.length = c := fun e => hcL e.symm
          have hrc := hI.rc c hc'
          by_cases hcc : h.cell = c
          · subst hcc
            simp [wt, hne] at hset
            simp; omega
          · simp [wt, hne, hcc] at hset
            simp [hcc]; omega
    · rw [hAtAll, e2]; simp
    · intro j hj; rw [hAtAll]; simp [Ne.symm hj]
    · rw [e1, e2]; simp [rcAt_allocCell]
    · rw [e1, e2]; simp [tblAt_allocCell]
    · intro c hc; rw [e1]; simp [tblAt_allocCell]; omega
    · intro c hc hne; rw [e1]; simp [rcAt_allocCell, rcAt_setRc _ _ _ _ hb, Ne.symm hne]; omega
    · rw [e1]; simp
    · rw [e1]; simp
    · rw [e1, e2]; simp

theorem viewAt_makeMut {s : State} {i : Nat} {h : Handle} (hI : Inv s) (hi : handleAt s i = some h)
    (j : Nat) : viewAt (makeMut s i h) j = viewAt s j := by
  have M := makeMut_spec hI hi
  by_cases hj : j = i
  · subst hj; simp [viewAt, M.hAt, hi, M.tbl]
  · simp only [viewAt, M.hOther j hj]
    cases hh : handleAt s j with
    | none => rfl
    | some h' => simp [M.tblOld _ (hI.bound j h' hh)]

theorem inv_setTbl {s : State} (hI : Inv s) (c : Nat) (t : Tbl) : Inv (setTbl s c t) := by
  constructor
  · intro j hd hj; simp at hj ⊢; exact hI.bound j hd hj
  · intro c' hc'; simp at hc' ⊢; exact hI.rc c' hc'

/-- writing the table of a uniquely owned cell is seen by its owner only -/
theorem viewAt_setTbl {s : State} {i : Nat} {h : Handle} (hI : Inv s) (hi : handleAt s i = some h)
    (h1 : rcAt s h.cell = 1) (t : Tbl) (j : Nat) :
    viewAt (setTbl s h.cell t) j = if j = i then some (h.isModule, t) else viewAt s j := by
  have hb := hI.bound i h hi
  by_cases hj : j = i
  · subst hj; simp [viewAt, hi, tblAt_setTbl _ _ _ _ hb]
  · simp only [viewAt, handleAt_setTbl, if_neg hj]
    cases hh : handleAt s j with
    | none => rfl
    | some h' =>
      have hne : ¬ h.cell = h'.cell := by
        intro e; exact hj (hI.unique hi h1 hh e.symm).symm
      simp [tblAt_setTbl _ _ _ _ hb, hne]

/-- `make_mut` followed by a write of `f (old table)` -/
def writeMut (s : State) (i : Nat) (h : Handle) (f : Tbl → Tbl) : State :=
  setTbl (makeMut s i h) (mutCell s h) (f (tblAt (makeMut s i h) (mutCell s h)))

structure WriteSpec (s : State) (i : Nat) (h : Handle) (f : Tbl → Tbl) : Prop where
  inv : Inv (writeMut s i h f)
  hAt : handleAt (writeMut s i h f) i = some { h with cell := mutCell s h }
  hOther : ∀ j, j ≠ i → handleAt (writeMut s i h f) j = handleAt s j
  view : ∀ j, viewAt (writeMut s i h f) j = if j = i then some (h.isModule, f (tblAt s h.cell)) else viewAt s j
  rc1 : rcAt (writeMut s i h f) (mutCell s h) = 1
  rcOther : ∀ c, c < s.heap.length → c ≠ h.cell → rcAt (writeMut s i h f) c = rcAt s c
  len : (writeMut s i h f).handles.length = s.handles.length
  heapLe : s.heap.length ≤ (writeMut s i h f).heap.length

theorem writeMut_spec {s : State} {i : Nat} {h : Handle} (hI : Inv s) (hi : handleAt s i = some h)
    (f : Tbl → Tbl) : WriteSpec s i h f := by
  have M := makeMut_spec hI hi
  have hv := viewAt_setTbl M.inv M.hAt (by simpa using M.rc1) (f (tblAt (makeMut s i h) (mutCell s h)))
  constructor
  · exact inv_setTbl M.inv _ _
  · simp [writeMut, M.hAt]
  · intro j hj; simp [writeMut, M.hOther j hj]
  · intro j
    have := hv j
    simp only [] at this
    rw [writeMut, this, M.tbl, viewAt_makeMut hI hi]
  · simp [writeMut, M.rc1]
  · intro c hc hne; simp [writeMut, M.rcOther c hc hne]
  · simp [writeMut, M.len]
  · simp [writeMut]; exact M.heapLe

structure DropSpec (s : State) (i : Nat) (h : Handle) : Prop where
  inv : Inv (dropHandle s i h)
  hAt : ∀ j, handleAt (dropHandle s i h) j = if j = i then none else handleAt s j
  view : ∀ j, viewAt (dropHandle s i h) j = if j = i then none else viewAt s j
  len : (dropHandle s i h).handles.length = s.handles.length

theorem dropHandle_spec {s : State} {i : Nat} {h : Handle} (hI : Inv s) (hi : handleAt s i = some h) :
    DropSpec s i h := by
  have hb := hI.bound i h hi
  have hlt := handleAt_lt hi
  have hAtAll : ∀ j, handleAt (dropHandle s i h) j = if j = i then none else handleAt s j := by
    intro j
    rw [dropHandle, handleAt_setHandle _ _ _ _ (by simpa using hlt)]
    by_cases hj : i = j
    · simp [hj]
    · simp [hj, Ne.symm hj]
  constructor
  · constructor
    · intro j hd hj
      rw [hAtAll] at hj
      split at hj
      · cases hj
      · simpa [dropHandle] using hI.bound j hd hj
    · intro c hc
      simp [dropHandle] at hc
      simp only [dropHandle, rcAt_setHandle, handles_setHandle, handles_setRc, rcAt_setRc _ _ _ _ hb]
      have hset := refs_set s.handles i none c hlt
      have hi' : (s.handles[i]?).getD none = some h := hi
      rw [hi'] at hset
      have hrc := hI.rc c hc
      by_cases hcc : h.cell = c
      · subst hcc; simp [wt] at hset; simp; omega
      · simp [wt, hcc] at hset; simp [hcc]; omega
  · exact hAtAll
  · intro j
    simp only [viewAt, hAtAll]
    by_cases hj : j = i
    · simp [hj]
    · simp [hj, dropHandle]
  · simp [dropHandle]

structure PushSpec (s s' : State) (x : Bool × Tbl) : Prop where
  inv : Inv s'
  view : ∀ j, viewAt s' j = if j = s.handles.length then some x else viewAt s j
  len : s'.handles.length = s.handles.length + 1

theorem clone_spec {s : State} {i : Nat} {h : Handle} (hI : Inv s) (hi : handleAt s i = some h) (im : Bool) :
    PushSpec s (pushHandle (setRc s h.cell (rcAt s h.cell + 1)) ⟨h.cell, im⟩) (im, tblAt s h.cell) := by
  have hb := hI.bound i h hi
  constructor
  · constructor
    · intro j hd hj
      rw [handleAt_pushHandle] at hj
      simp at hj ⊢
      split at hj
      · cases hj; exact hb
      · exact hI.bound j hd hj
    · intro c hc
      simp at hc
      simp only [rcAt_pushHandle, rcAt_setRc _ _ _ _ hb, handles_pushHandle, handles_setRc, refs_append]
      have hrc := hI.rc c hc
      by_cases hcc : h.cell = c
      · subst hcc; simp [wt]; omega
      · simp [wt, hcc]; omega
  · intro j
    simp only [viewAt, handleAt_pushHandle, handles_setRc, handleAt_setRc]
    by_cases hj : j = s.handles.length
    · simp [hj]
    · simp [hj]
  · simp

theorem new_spec {s : State} (hI : Inv s) (im : Bool) :
    PushSpec s (pushHandle (allocCell s ⟨1, []⟩) ⟨s.heap.length, im⟩) (im, []) := by
  constructor
  · constructor
    · intro j hd hj
      rw [handleAt_pushHandle] at hj
      simp at hj ⊢
      split at hj
      · cases hj; simp
      · have := hI.bound j hd hj; omega
    · intro c hc
      simp at hc
      simp only [rcAt_pushHandle, rcAt_allocCell, handles_pushHandle, handles_allocCell, refs_append]
      by_cases hcL : c = s.heap.length
      · subst hcL; simp [wt, hI.refs_fresh]
      · have hc' : c < s.heap.length := by omega
        have hne : ¬ s.heap.length = c := fun e => hcL e.symm
        simp [wt, hcL, hne, hI.rc c hc']
  · intro j
    simp only [viewAt, handleAt_pushHandle, handles_allocCell, handleAt_allocCell]
    by_cases hj : j = s.handles.length
    · simp [hj, tblAt_allocCell]
    · simp only [if_neg hj]
      cases hh : handleAt s j with
      | none => rfl
      | some h' =>
        have := hI.bound j h' hh
        have hne : ¬ h'.cell = s.heap.length := by omega
        simp [tblAt_allocCell, hne]
  · simp

/-! ### the abstraction function -/

theorem vAt_vview (s : State) (j : Nat) : vAt (vview s) j = viewAt s j := by
  simp only [vAt, vview, viewAt, handleAt, List.getElem?_map]
  cases s.handles[j]? <;> simp

@[simp] theorem length_vview (s : State) : (vview s).length = s.handles.length := by simp [vview]

theorem vstate_ext {v1 v2 : VState} (hl : v1.length = v2.length) (h : ∀ j, vAt v1 j = vAt v2 j) :
    v1 = v2 := by
  apply List.ext_getElem?
  intro j
  have hj := h j
  simp only [vAt] at hj
  by_cases hlt : j < v1.length
  · have h2 : j < v2.length := by omega
    rw [List.getElem?_eq_getElem hlt, List.getElem?_eq_getElem h2] at hj ⊢
    simp at hj; rw [hj]
  · rw [List.getElem?_eq_none (by omega), List.getElem?_eq_none (by omega)]

theorem vview_eq {s' : State} {V : VState} (hl : s'.handles.length = V.length)
    (h : ∀ j, viewAt s' j = vAt V j) : vview s' = V := by
  apply vstate_ext (by simpa using hl)
  intro j; rw [vAt_vview, h]

theorem vAt_set (v : VState) (i : Nat) (x : Option (Bool × Tbl)) (j : Nat) (hi : i < v.length) :
    vAt (v.set i x) j = if j = i then x else vAt v j := by
  simp only [vAt, List.getElem?_set]
  by_cases hj : i = j
  · subst hj; simp [hi]
  · simp [hj, Ne.symm hj]

theorem vAt_push (v : VState) (x : Option (Bool × Tbl)) (j : Nat) :
    vAt (v ++ [x]) j = if j = v.length then x else vAt v j := by
  simp only [vAt, List.getElem?_append]
  by_cases h1 : j < v.length
  · simp [h1]; omega
  · by_cases h2 : j = v.length
    · simp [h2]
    · have : j - v.length ≠ 0 := by omega
      simp [h1, h2, this]

theorem vAt_lt {v : VState} {i : Nat} {x : Bool × Tbl} (h : vAt v i = some x) : i < v.length := by
  by_cases hl : i < v.length
  · exact hl
  · simp [vAt, List.getElem?_eq_none (Nat.le_of_not_lt hl)] at h
end Jrpc.Registry
