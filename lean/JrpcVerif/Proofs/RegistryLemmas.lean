/-
  Helper lemmas for C13 (method registry).
  Part A: association-list tables.  Part B: the reference-counted heap (frame lemmas for
  `makeMut` / `setTbl` / handle updates under the reference-count invariant).
  Part C: every implementation step commutes with the value-semantics step.
-/
import JrpcVerif.Model.Registry
namespace Jrpc.Registry

/-! ## Part A — tables -/
namespace Tbl

theorem find_insert (t : Tbl) (n : Name) (c : Cb) (m : Name) :
    find (insert t n c) m = if n = m then some c else find t m := by
  induction t with
  | nil => simp [insert, find]
  | cons p r ih =>
    obtain ⟨k, v⟩ := p
    simp only [insert]
    split <;> simp only [find] <;> grind

theorem find_erase (t : Tbl) (n m : Name) :
    find (erase t n) m = if n = m then none else find t m := by
  induction t with
  | nil => simp [erase, find]
  | cons p r ih =>
    obtain ⟨k, v⟩ := p
    simp only [erase]
    split <;> simp only [find] <;> grind

theorem uniq_insert {t : Tbl} (h : Uniq t) (n : Name) (c : Cb) : Uniq (insert t n c) := by
  induction t with
  | nil => simp [insert, Uniq, find]
  | cons p r ih =>
    obtain ⟨k, v⟩ := p
    obtain ⟨h1, h2⟩ := h
    by_cases hk : k = n
    · simp [insert, hk, Uniq]; subst hk; exact ⟨h1, h2⟩
    · simp [insert, hk, Uniq, find_insert]
      refine ⟨?_, ih h2⟩
      have : ¬ n = k := fun e => hk e.symm
      simp [this, h1]

theorem uniq_erase {t : Tbl} (h : Uniq t) (n : Name) : Uniq (erase t n) := by
  induction t with
  | nil => simp [erase, Uniq]
  | cons p r ih =>
    obtain ⟨k, v⟩ := p
    obtain ⟨h1, h2⟩ := h
    by_cases hk : k = n
    · simp [erase, hk]; exact ih h2
    · simp [erase, hk, Uniq, find_erase, h1]; exact ih h2

theorem uniq_insertAll {s : Tbl} (h : Uniq s) (o : Tbl) : Uniq (insertAll s o) := by
  induction o generalizing s with
  | nil => simpa [insertAll]
  | cons p r ih => obtain ⟨k, v⟩ := p; simp [insertAll]; exact ih (uniq_insert h k v)

theorem find_insertAll (s : Tbl) {o : Tbl} (ho : Uniq o) (m : Name) :
    find (insertAll s o) m = (match find o m with | some c => some c | none => find s m) := by
  induction o generalizing s with
  | nil => simp [insertAll, find]
  | cons p r ih =>
    obtain ⟨k, v⟩ := p
    obtain ⟨h1, h2⟩ := ho
    simp only [insertAll, find]
    rw [ih _ h2, find_insert]
    by_cases hk : k = m
    · subst hk; simp [h1]
    · simp [hk]

theorem has_eq (t : Tbl) (n : Name) : has t n = (find t n).isSome := rfl

theorem has_false {t : Tbl} {n : Name} : has t n = false ↔ find t n = none := by
  rw [has_eq]; cases find t n <;> simp

theorem has_true {t : Tbl} {n : Name} : has t n = true ↔ ∃ c, find t n = some c := by
  rw [has_eq]; cases find t n <;> simp

theorem firstTaken_none {s : Tbl} {ks : List Name} :
    firstTaken s ks = none ↔ ∀ k, k ∈ ks → find s k = none := by
  induction ks with
  | nil => simp [firstTaken]
  | cons k r ih =>
    simp only [firstTaken, List.mem_cons]
    by_cases hf : has s k = true
    · rw [if_pos hf]
      constructor
      · intro h; cases h
      · intro h; have := h k (Or.inl rfl); rw [← has_false, hf] at this; cases this
    · rw [if_neg hf, ih]
      have hn : find s k = none := by rw [← has_false]; simpa using hf
      constructor
      · intro h a ha; rcases ha with rfl | ha; exact hn; exact h a ha
      · intro h a ha; exact h a (Or.inr ha)

theorem firstTaken_some {s : Tbl} {ks : List Name} {k : Name} (h : firstTaken s ks = some k) :
    k ∈ ks ∧ has s k = true := by
  induction ks with
  | nil => simp [firstTaken] at h
  | cons a r ih =>
    simp only [firstTaken] at h
    by_cases hf : has s a = true
    · rw [if_pos hf] at h; cases h; exact ⟨List.mem_cons_self, hf⟩
    · rw [if_neg hf] at h; exact ⟨List.mem_cons_of_mem _ (ih h).1, (ih h).2⟩

theorem mem_names {t : Tbl} {n : Name} : n ∈ names t ↔ (find t n).isSome = true := by
  induction t with
  | nil => simp [names, find]
  | cons p r ih =>
    obtain ⟨k, v⟩ := p
    have e : names ((k, v) :: r) = k :: names r := rfl
    rw [e, List.mem_cons, find]
    by_cases hk : k = n
    · simp [hk]
    · rw [if_neg hk, ← ih]; constructor
      · rintro (h | h); exact absurd h.symm hk; exact h
      · intro h; exact Or.inr h

theorem not_mem_names {t : Tbl} {n : Name} : n ∉ names t ↔ find t n = none := by
  rw [mem_names]; cases find t n <;> simp

theorem uniq_iff_nodup (t : Tbl) : Uniq t ↔ (names t).Nodup := by
  induction t with
  | nil => simp [Uniq, names]
  | cons p r ih =>
    obtain ⟨k, v⟩ := p
    have e : names ((k, v) :: r) = k :: names r := rfl
    rw [e, List.nodup_cons, Uniq, ih, not_mem_names]

end Tbl

/-! ## Part B — the reference-counted heap -/

/-- weight of one handle slot towards the strong count of cell `c` -/
def wt (oh : Option Handle) (c : Nat) : Nat :=
  match oh with
  | some h => if h.cell = c then 1 else 0
  | none => 0

/-- number of live handles pointing at cell `c` -/
def refs : List (Option Handle) → Nat → Nat
  | [], _ => 0
  | oh :: r, c => wt oh c + refs r c

/-- the heap invariant: live handles point into the heap, and every strong count is exactly the
number of live handles that point at the cell -/
structure Inv (s : State) : Prop where
  bound : ∀ i h, handleAt s i = some h → h.cell < s.heap.length
  rc : ∀ c, c < s.heap.length → rcAt s c = refs s.handles c

theorem refs_append (hs : List (Option Handle)) (x : Option Handle) (c : Nat) :
    refs (hs ++ [x]) c = refs hs c + wt x c := by
  induction hs with
  | nil => simp [refs]
  | cons a r ih => simp [refs, ih]; omega

theorem refs_set (hs : List (Option Handle)) (i : Nat) (x : Option Handle) (c : Nat)
    (hi : i < hs.length) :
    refs (hs.set i x) c + wt ((hs[i]?).getD none) c = refs hs c + wt x c := by
  induction hs generalizing i with
  | nil => simp at hi
  | cons a r ih =>
    cases i with
    | zero => simp [refs]; omega
    | succ j =>
      have := ih j (by simpa using hi)
      simp [refs] at *; omega

theorem wt_le_refs (hs : List (Option Handle)) (j : Nat) (c : Nat) :
    wt ((hs[j]?).getD none) c ≤ refs hs c := by
  induction hs generalizing j with
  | nil => simp [wt, refs]
  | cons a r ih =>
    cases j with
    | zero => simp [refs]
    | succ k => have := ih k; simp [refs] at *; omega

theorem refs_eq_zero (hs : List (Option Handle)) (c : Nat)
    (h : ∀ (j : Nat) (hd : Handle), (hs[j]?).getD none = some hd → hd.cell ≠ c) : refs hs c = 0 := by
  induction hs with
  | nil => simp [refs]
  | cons a r ih =>
    have h0 := h 0
    have hr : refs r c = 0 := ih (fun j hd hj => h (j + 1) hd (by simp; exact hj))
    cases a with
    | none => simp [refs, wt, hr]
    | some x =>
      have := h0 x (by simp)
      simp [refs, wt, hr, this]

/-- when the strong count is 1, the handle that points at the cell is the only one -/
theorem refs_one_unique {hs : List (Option Handle)} {c i j : Nat} {h h' : Handle}
    (h1 : refs hs c = 1) (hi : (hs[i]?).getD none = some h) (hc : h.cell = c)
    (hj : (hs[j]?).getD none = some h') (hc' : h'.cell = c) : i = j := by
  by_cases hij : i = j
  · exact hij
  · exfalso
    have hlt : i < hs.length := by
      by_cases hl : i < hs.length
      · exact hl
      · rw [List.getElem?_eq_none (by omega)] at hi; simp at hi
    have hs1 := refs_set hs i none c hlt
    rw [hi] at hs1
    have hw := wt_le_refs (hs.set i none) j c
    rw [List.getElem?_set_ne hij, hj] at hw
    simp [wt, hc, hc'] at hs1 hw
    omega

/-! projections of the primitive state updates -/

@[simp] theorem handles_setRc (s : State) (c r : Nat) : (setRc s c r).handles = s.handles := by
  unfold setRc; split <;> rfl
@[simp] theorem handles_setTbl (s : State) (c : Nat) (t : Tbl) : (setTbl s c t).handles = s.handles := by
  unfold setTbl; split <;> rfl
@[simp] theorem handles_allocCell (s : State) (x : Cell) : (allocCell s x).handles = s.handles := rfl
@[simp] theorem handles_setHandle (s : State) (i : Nat) (oh : Option Handle) :
    (setHandle s i oh).handles = s.handles.set i oh := rfl
@[simp] theorem handles_pushHandle (s : State) (h : Handle) :
    (pushHandle s h).handles = s.handles ++ [some h] := rfl

@[simp] theorem heap_setHandle (s : State) (i : Nat) (oh : Option Handle) : (setHandle s i oh).heap = s.heap := rfl
@[simp] theorem heap_pushHandle (s : State) (h : Handle) : (pushHandle s h).heap = s.heap := rfl
@[simp] theorem heap_allocCell (s : State) (x : Cell) : (allocCell s x).heap = s.heap ++ [x] := rfl
@[simp] theorem heaplen_setRc (s : State) (c r : Nat) : (setRc s c r).heap.length = s.heap.length := by
  unfold setRc; split <;> simp
@[simp] theorem heaplen_setTbl (s : State) (c : Nat) (t : Tbl) : (setTbl s c t).heap.length = s.heap.length := by
  unfold setTbl; split <;> simp

@[simp] theorem handleAt_setRc (s : State) (c r j : Nat) : handleAt (setRc s c r) j = handleAt s j := by
  simp [handleAt]
@[simp] theorem handleAt_setTbl (s : State) (c : Nat) (t : Tbl) (j : Nat) :
    handleAt (setTbl s c t) j = handleAt s j := by simp [handleAt]
@[simp] theorem handleAt_allocCell (s : State) (x : Cell) (j : Nat) :
    handleAt (allocCell s x) j = handleAt s j := by simp [handleAt]

theorem handleAt_lt {s : State} {i : Nat} {h : Handle} (hi : handleAt s i = some h) :
    i < s.handles.length := by
  by_cases hl : i < s.handles.length
  · exact hl
  · simp [handleAt, List.getElem?_eq_none (Nat.le_of_not_lt hl)] at hi

theorem handleAt_setHandle (s : State) (i : Nat) (oh : Option Handle) (j : Nat)
    (hi : i < s.handles.length) :
    handleAt (setHandle s i oh) j = if i = j then oh else handleAt s j := by
  simp only [handleAt, handles_setHandle, List.getElem?_set]
  split <;> simp_all

theorem handleAt_pushHandle (s : State) (h : Handle) (j : Nat) :
    handleAt (pushHandle s h) j = if j = s.handles.length then some h else handleAt s j := by
  simp only [handleAt, handles_pushHandle, List.getElem?_append]
  by_cases h1 : j < s.handles.length
  · simp [h1]; omega
  · by_cases h2 : j = s.handles.length
    · simp [h2]
    · have : s.handles.length ≤ j := by omega
      simp [h1, h2]
      have : j - s.handles.length ≠ 0 := by omega
      simp [this]

@[simp] theorem tblAt_setHandle (s : State) (i : Nat) (oh : Option Handle) (c : Nat) :
    tblAt (setHandle s i oh) c = tblAt s c := rfl
@[simp] theorem tblAt_pushHandle (s : State) (h : Handle) (c : Nat) : tblAt (pushHandle s h) c = tblAt s c := rfl
@[simp] theorem rcAt_setHandle (s : State) (i : Nat) (oh : Option Handle) (c : Nat) :
    rcAt (setHandle s i oh) c = rcAt s c := rfl
@[simp] theorem rcAt_pushHandle (s : State) (h : Handle) (c : Nat) : rcAt (pushHandle s h) c = rcAt s c := rfl

@[simp] theorem tblAt_setRc (s : State) (c r c' : Nat) : tblAt (setRc s c r) c' = tblAt s c' := by
  unfold setRc
  split
  · next x hx =>
    simp only [tblAt, List.getElem?_set]
    by_cases hc : c = c'
    · subst hc
      rcases (List.getElem?_eq_some_iff.mp hx) with ⟨hlt, hxe⟩
      simp [hlt, hxe]
    · simp [hc]
  · rfl

theorem rcAt_setRc (s : State) (c r c' : Nat) (hc : c < s.heap.length) :
    rcAt (setRc s c r) c' = if c = c' then r else rcAt s c' := by
  unfold setRc
  split
  · next x hx =>
    simp only [rcAt, List.getElem?_set]
    by_cases hcc : c = c'
    · subst hcc; simp [hc]
    · simp [hcc]
  · next hx => rw [List.getElem?_eq_none_iff] at hx; omega

@[simp] theorem rcAt_setTbl (s : State) (c : Nat) (t : Tbl) (c' : Nat) : rcAt (setTbl s c t) c' = rcAt s c' := by
  unfold setTbl
  split
  · next x hx =>
    simp only [rcAt, List.getElem?_set]
    by_cases hc : c = c'
    · subst hc
      rcases (List.getElem?_eq_some_iff.mp hx) with ⟨hlt, hxe⟩
      simp [hlt, hxe]
    · simp [hc]
  · rfl

theorem tblAt_setTbl (s : State) (c : Nat) (t : Tbl) (c' : Nat) (hc : c < s.heap.length) :
    tblAt (setTbl s c t) c' = if c = c' then t else tblAt s c' := by
  unfold setTbl
  split
  · next x hx =>
    simp only [tblAt, List.getElem?_set]
    by_cases hcc : c = c'
    · subst hcc; simp [hc]
    · simp [hcc]
  · next hx => rw [List.getElem?_eq_none_iff] at hx; omega

theorem tblAt_allocCell (s : State) (x : Cell) (c : Nat) :
    tblAt (allocCell s x) c = if c = s.heap.length then x.tbl else tblAt s c := by
  simp only [tblAt, heap_allocCell, List.getElem?_append]
  by_cases h1 : c < s.heap.length
  · simp [h1]; omega
  · by_cases h2 : c = s.heap.length
    · simp [h2]
    · have : s.heap.length ≤ c := by omega
      simp [h1, h2]
      have : c - s.heap.length ≠ 0 := by omega
      simp [this]

theorem rcAt_allocCell (s : State) (x : Cell) (c : Nat) :
    rcAt (allocCell s x) c = if c = s.heap.length then x.rc else rcAt s c := by
  simp only [rcAt, heap_allocCell, List.getElem?_append]
  by_cases h1 : c < s.heap.length
  · simp [h1]; omega
  · by_cases h2 : c = s.heap.length
    · simp [h2]
    · have : s.heap.length ≤ c := by omega
      simp [h1, h2]
      have : c - s.heap.length ≠ 0 := by omega
      simp [this]

theorem Inv.refs_pos {s : State} (hI : Inv s) {i : Nat} {h : Handle} (hi : handleAt s i = some h) :
    1 ≤ rcAt s h.cell := by
  rw [hI.rc _ (hI.bound i h hi)]
  have := wt_le_refs s.handles i h.cell
  unfold handleAt at hi
  rw [hi] at this
  simpa [wt] using this

/-- with strong count 1 nobody else points at the cell -/
theorem Inv.unique {s : State} (hI : Inv s) {i j : Nat} {h h' : Handle}
    (hi : handleAt s i = some h) (h1 : rcAt s h.cell = 1)
    (hj : handleAt s j = some h') (hc : h'.cell = h.cell) : i = j := by
  rw [hI.rc _ (hI.bound i h hi)] at h1
  exact refs_one_unique h1 hi rfl hj hc

theorem inv_init : Inv State.init := by
  constructor
  · intro i h hi; simp [handleAt, State.init] at hi
  · intro c hc; simp [State.init] at hc

theorem Inv.refs_fresh {s : State} (hI : Inv s) : refs s.handles s.heap.length = 0 := by
  apply refs_eq_zero
  intro j hd hj
  have := hI.bound j hd hj
  omega

/-- what `Arc::make_mut` establishes -/
structure MakeMutSpec (s : State) (i : Nat) (h : Handle) : Prop where
  inv : Inv (makeMut s i h)
  hAt : handleAt (makeMut s i h) i = some { h with cell := mutCell s h }
  hOther : ∀ j, j ≠ i → handleAt (makeMut s i h) j = handleAt s j
  rc1 : rcAt (makeMut s i h) (mutCell s h) = 1
  tbl : tblAt (makeMut s i h) (mutCell s h) = tblAt s h.cell
  tblOld : ∀ c, c < s.heap.length → tblAt (makeMut s i h) c = tblAt s c
  rcOther : ∀ c, c < s.heap.length → c ≠ h.cell → rcAt (makeMut s i h) c = rcAt s c
  len : (makeMut s i h).handles.length = s.handles.length
  heapLe : s.heap.length ≤ (makeMut s i h).heap.length
  cellLt : mutCell s h < (makeMut s i h).heap.length

theorem makeMut_spec {s : State} {i : Nat} {h : Handle} (hI : Inv s) (hi : handleAt s i = some h) :
    MakeMutSpec s i h := by
  have hb := hI.bound i h hi
  have hlt := handleAt_lt hi
  by_cases h1 : rcAt s h.cell = 1
  · have e1 : makeMut s i h = s := by simp [makeMut, h1]
    have e2 : mutCell s h = h.cell := by simp [mutCell, h1]
    constructor <;> simp only [e1, e2] <;> first | assumption | simp | skip
  · have e1 : makeMut s i h =
        setHandle (allocCell (setRc s h.cell (rcAt s h.cell - 1)) ⟨1, tblAt s h.cell⟩) i
          (some { h with cell := s.heap.length }) := by simp [makeMut, h1]
    have e2 : mutCell s h = s.heap.length := by simp [mutCell, h1]
    have hAtAll : ∀ j, handleAt (makeMut s i h) j =
        if i = j then some { h with cell := s.heap.length } else handleAt s j := by
      intro j
      rw [e1, handleAt_setHandle _ _ _ _ (by simpa using hlt)]
      simp
    constructor
    · -- Inv
      constructor
      · intro j hd hj
        rw [hAtAll] at hj
        rw [e1]; simp
        split at hj
        · cases hj; simp
        · have := hI.bound j hd hj; omega
      · intro c hc
        rw [e1] at hc ⊢
        simp at hc
        simp only [rcAt_setHandle, rcAt_allocCell, heaplen_setRc, handles_setHandle,
          handles_allocCell, handles_setRc]
        have hset := refs_set s.handles i (some { h with cell := s.heap.length }) c hlt
        have hi' : (s.handles[i]?).getD none = some h := hi
        rw [hi'] at hset
        by_cases hcL : c = s.heap.length
        · subst hcL
          have hz := hI.refs_fresh
          have : h.cell ≠ s.heap.length := by omega
          simp [wt, this, hz] at hset
          simp [hset]
        · have hc' : c < s.heap.length := by omega
          rw [if_neg hcL, rcAt_setRc _ _ _ _ hb]
          have hne : ¬ s.heap.length = c := fun e => hcL e.symm
          have hrc := hI.rc c hc'
          by_cases hcc : h.cell = c
          · subst hcc
            simp [wt, hne] at hset
            simp; omega
          · simp [wt, hne, hcc] at hset
            simp [hcc]; omega
    · rw [hAtAll, e2]; simp
    · intro j hj; rw [hAtAll]; simp [Ne.symm hj]
    · rw [e1, e2]; simp [rcAt_allocCell]
    · rw [e1, e2]; simp [tblAt_allocCell]
    · intro c hc; rw [e1]; simp [tblAt_allocCell]; omega
    · intro c hc hne; rw [e1]; simp [rcAt_allocCell, rcAt_setRc _ _ _ _ hb, Ne.symm hne]; omega
    · rw [e1]; simp
    · rw [e1]; simp
    · rw [e1, e2]; simp

theorem viewAt_makeMut {s : State} {i : Nat} {h : Handle} (hI : Inv s) (hi : handleAt s i = some h)
    (j : Nat) : viewAt (makeMut s i h) j = viewAt s j := by
  have M := makeMut_spec hI hi
  by_cases hj : j = i
  · subst hj; simp [viewAt, M.hAt, hi, M.tbl]
  · simp only [viewAt, M.hOther j hj]
    cases hh : handleAt s j with
    | none => rfl
    | some h' => simp [M.tblOld _ (hI.bound j h' hh)]

theorem inv_setTbl {s : State} (hI : Inv s) (c : Nat) (t : Tbl) : Inv (setTbl s c t) := by
  constructor
  · intro j hd hj; simp at hj ⊢; exact hI.bound j hd hj
  · intro c' hc'; simp at hc' ⊢; exact hI.rc c' hc'

/-- writing the table of a uniquely owned cell is seen by its owner only -/
theorem viewAt_setTbl {s : State} {i : Nat} {h : Handle} (hI : Inv s) (hi : handleAt s i = some h)
    (h1 : rcAt s h.cell = 1) (t : Tbl) (j : Nat) :
    viewAt (setTbl s h.cell t) j = if j = i then some (h.isModule, t) else viewAt s j := by
  have hb := hI.bound i h hi
  by_cases hj : j = i
  · subst hj; simp [viewAt, hi, tblAt_setTbl _ _ _ _ hb]
  · simp only [viewAt, handleAt_setTbl, if_neg hj]
    cases hh : handleAt s j with
    | none => rfl
    | some h' =>
      have hne : ¬ h.cell = h'.cell := by
        intro e; exact hj (hI.unique hi h1 hh e.symm).symm
      simp [tblAt_setTbl _ _ _ _ hb, hne]

/-- `make_mut` followed by a write of `f (old table)` -/
def writeMut (s : State) (i : Nat) (h : Handle) (f : Tbl → Tbl) : State :=
  setTbl (makeMut s i h) (mutCell s h) (f (tblAt (makeMut s i h) (mutCell s h)))

structure WriteSpec (s : State) (i : Nat) (h : Handle) (f : Tbl → Tbl) : Prop where
  inv : Inv (writeMut s i h f)
  hAt : handleAt (writeMut s i h f) i = some { h with cell := mutCell s h }
  hOther : ∀ j, j ≠ i → handleAt (writeMut s i h f) j = handleAt s j
  view : ∀ j, viewAt (writeMut s i h f) j = if j = i then some (h.isModule, f (tblAt s h.cell)) else viewAt s j
  rc1 : rcAt (writeMut s i h f) (mutCell s h) = 1
  rcOther : ∀ c, c < s.heap.length → c ≠ h.cell → rcAt (writeMut s i h f) c = rcAt s c
  len : (writeMut s i h f).handles.length = s.handles.length
  heapLe : s.heap.length ≤ (writeMut s i h f).heap.length

theorem writeMut_spec {s : State} {i : Nat} {h : Handle} (hI : Inv s) (hi : handleAt s i = some h)
    (f : Tbl → Tbl) : WriteSpec s i h f := by
  have M := makeMut_spec hI hi
  have hv := viewAt_setTbl M.inv M.hAt (by simpa using M.rc1) (f (tblAt (makeMut s i h) (mutCell s h)))
  constructor
  · exact inv_setTbl M.inv _ _
  · simp [writeMut, M.hAt]
  · intro j hj; simp [writeMut, M.hOther j hj]
  · intro j
    have := hv j
    simp only [] at this
    rw [writeMut, this, M.tbl, viewAt_makeMut hI hi]
  · simp [writeMut, M.rc1]
  · intro c hc hne; simp [writeMut, M.rcOther c hc hne]
  · simp [writeMut, M.len]
  · simp [writeMut]; exact M.heapLe

structure DropSpec (s : State) (i : Nat) (h : Handle) : Prop where
  inv : Inv (dropHandle s i h)
  hAt : ∀ j, handleAt (dropHandle s i h) j = if j = i then none else handleAt s j
  view : ∀ j, viewAt (dropHandle s i h) j = if j = i then none else viewAt s j
  len : (dropHandle s i h).handles.length = s.handles.length

theorem dropHandle_spec {s : State} {i : Nat} {h : Handle} (hI : Inv s) (hi : handleAt s i = some h) :
    DropSpec s i h := by
  have hb := hI.bound i h hi
  have hlt := handleAt_lt hi
  have hAtAll : ∀ j, handleAt (dropHandle s i h) j = if j = i then none else handleAt s j := by
    intro j
    rw [dropHandle, handleAt_setHandle _ _ _ _ (by simpa using hlt)]
    by_cases hj : i = j
    · simp [hj]
    · simp [hj, Ne.symm hj]
  constructor
  · constructor
    · intro j hd hj
      rw [hAtAll] at hj
      split at hj
      · cases hj
      · simpa [dropHandle] using hI.bound j hd hj
    · intro c hc
      simp [dropHandle] at hc
      simp only [dropHandle, rcAt_setHandle, handles_setHandle, handles_setRc, rcAt_setRc _ _ _ _ hb]
      have hset := refs_set s.handles i none c hlt
      have hi' : (s.handles[i]?).getD none = some h := hi
      rw [hi'] at hset
      have hrc := hI.rc c hc
      by_cases hcc : h.cell = c
      · subst hcc; simp [wt] at hset; simp; omega
      · simp [wt, hcc] at hset; simp [hcc]; omega
  · exact hAtAll
  · intro j
    simp only [viewAt, hAtAll]
    by_cases hj : j = i
    · simp [hj]
    · simp [hj, dropHandle]
  · simp [dropHandle]

structure PushSpec (s s' : State) (x : Bool × Tbl) : Prop where
  inv : Inv s'
  view : ∀ j, viewAt s' j = if j = s.handles.length then some x else viewAt s j
  len : s'.handles.length = s.handles.length + 1

theorem clone_spec {s : State} {i : Nat} {h : Handle} (hI : Inv s) (hi : handleAt s i = some h) (im : Bool) :
    PushSpec s (pushHandle (setRc s h.cell (rcAt s h.cell + 1)) ⟨h.cell, im⟩) (im, tblAt s h.cell) := by
  have hb := hI.bound i h hi
  constructor
  · constructor
    · intro j hd hj
      rw [handleAt_pushHandle] at hj
      simp at hj ⊢
      split at hj
      · cases hj; exact hb
      · exact hI.bound j hd hj
    · intro c hc
      simp at hc
      simp only [rcAt_pushHandle, rcAt_setRc _ _ _ _ hb, handles_pushHandle, handles_setRc, refs_append]
      have hrc := hI.rc c hc
      by_cases hcc : h.cell = c
      · subst hcc; simp [wt]; omega
      · simp [wt, hcc]; omega
  · intro j
    simp only [viewAt, handleAt_pushHandle, handles_setRc, handleAt_setRc]
    by_cases hj : j = s.handles.length
    · simp [hj]
    · simp [hj]
  · simp

theorem new_spec {s : State} (hI : Inv s) (im : Bool) :
    PushSpec s (pushHandle (allocCell s ⟨1, []⟩) ⟨s.heap.length, im⟩) (im, []) := by
  constructor
  · constructor
    · intro j hd hj
      rw [handleAt_pushHandle] at hj
      simp at hj ⊢
      split at hj
      · cases hj; simp
      · have := hI.bound j hd hj; omega
    · intro c hc
      simp at hc
      simp only [rcAt_pushHandle, rcAt_allocCell, handles_pushHandle, handles_allocCell, refs_append]
      by_cases hcL : c = s.heap.length
      · subst hcL; simp [wt, hI.refs_fresh]
      · have hc' : c < s.heap.length := by omega
        have hne : ¬ s.heap.length = c := fun e => hcL e.symm
        simp [wt, hcL, hne, hI.rc c hc']
  · intro j
    simp only [viewAt, handleAt_pushHandle, handles_allocCell, handleAt_allocCell]
    by_cases hj : j = s.handles.length
    · simp [hj, tblAt_allocCell]
    · simp only [if_neg hj]
      cases hh : handleAt s j with
      | none => rfl
      | some h' =>
        have := hI.bound j h' hh
        have hne : ¬ h'.cell = s.heap.length := by omega
        simp [tblAt_allocCell, hne]
  · simp

/-! ### the abstraction function -/

theorem vAt_vview (s : State) (j : Nat) : vAt (vview s) j = viewAt s j := by
  simp only [vAt, vview, viewAt, handleAt, List.getElem?_map]
  cases s.handles[j]? <;> simp

@[simp] theorem length_vview (s : State) : (vview s).length = s.handles.length := by simp [vview]

theorem vstate_ext {v1 v2 : VState} (hl : v1.length = v2.length) (h : ∀ j, vAt v1 j = vAt v2 j) :
    v1 = v2 := by
  apply List.ext_getElem?
  intro j
  have hj := h j
  simp only [vAt] at hj
  by_cases hlt : j < v1.length
  · have h2 : j < v2.length := by omega
    rw [List.getElem?_eq_getElem hlt, List.getElem?_eq_getElem h2] at hj ⊢
    simp at hj; rw [hj]
  · rw [List.getElem?_eq_none (by omega), List.getElem?_eq_none (by omega)]

theorem vview_eq {s' : State} {V : VState} (hl : s'.handles.length = V.length)
    (h : ∀ j, viewAt s' j = vAt V j) : vview s' = V := by
  apply vstate_ext (by simpa using hl)
  intro j; rw [vAt_vview, h]

theorem vAt_set (v : VState) (i : Nat) (x : Option (Bool × Tbl)) (j : Nat) (hi : i < v.length) :
    vAt (v.set i x) j = if j = i then x else vAt v j := by
  simp only [vAt, List.getElem?_set]
  by_cases hj : i = j
  · subst hj; simp [hi]
  · simp [hj, Ne.symm hj]

theorem vAt_push (v : VState) (x : Option (Bool × Tbl)) (j : Nat) :
    vAt (v ++ [x]) j = if j = v.length then x else vAt v j := by
  simp only [vAt, List.getElem?_append]
  by_cases h1 : j < v.length
  · simp [h1]; omega
  · by_cases h2 : j = v.length
    · simp [h2]
    · have : j - v.length ≠ 0 := by omega
      simp [h1, h2, this]

theorem vAt_lt {v : VState} {i : Nat} {x : Bool × Tbl} (h : vAt v i = some x) : i < v.length := by
  by_cases hl : i < v.length
  · exact hl
  · simp [vAt, List.getElem?_eq_none (Nat.le_of_not_lt hl)] at h

/-! ## Part C — every implementation step commutes with the value-semantics step -/

theorem viewAt_of_handle {s : State} {i : Nat} {h : Handle} (hi : handleAt s i = some h) :
    viewAt s i = some (h.isModule, tblAt s h.cell) := by simp [viewAt, hi]

theorem viewAt_of_none {s : State} {i : Nat} (hi : handleAt s i = none) : viewAt s i = none := by
  simp [viewAt, hi]

theorem sim_makeMut {s : State} {i : Nat} {h : Handle} (hI : Inv s) (hi : handleAt s i = some h) :
    vview (makeMut s i h) = vview s := by
  apply vview_eq
  · simp [(makeMut_spec hI hi).len]
  · intro j; rw [viewAt_makeMut hI hi, vAt_vview]

theorem sim_write {s : State} {i : Nat} {h : Handle} (hI : Inv s) (hi : handleAt s i = some h)
    (f : Tbl → Tbl) :
    vview (writeMut s i h f) = (vview s).set i (some (h.isModule, f (tblAt s h.cell))) := by
  have W := writeMut_spec hI hi f
  apply vview_eq
  · simp [W.len]
  · intro j
    rw [W.view, vAt_set _ _ _ _ (by simpa using handleAt_lt hi), vAt_vview]

theorem sim_drop {s : State} {i : Nat} {h : Handle} (hI : Inv s) (hi : handleAt s i = some h) :
    vview (dropHandle s i h) = (vview s).set i none := by
  have D := dropHandle_spec hI hi
  apply vview_eq
  · simp [D.len]
  · intro j
    rw [D.view, vAt_set _ _ _ _ (by simpa using handleAt_lt hi), vAt_vview]

theorem sim_push {s s' : State} {x : Bool × Tbl} (P : PushSpec s s' x) :
    vview s' = vview s ++ [some x] := by
  apply vview_eq
  · simp [P.len]
  · intro j
    rw [P.view, vAt_push, vAt_vview]; simp

/-- one implementation step is simulated by the value-semantics step -/
structure Sim (s : State) (op : Op) : Prop where
  inv : Inv (step s op).1
  view : vview (step s op).1 = (vstep (vview s) op).1
  out : (step s op).2 = (vstep (vview s) op).2

theorem vAt_dead {s : State} {i : Nat} (hi : handleAt s i = none) : vAt (vview s) i = none := by
  rw [vAt_vview, viewAt_of_none hi]

theorem vAt_live {s : State} {i : Nat} {h : Handle} (hi : handleAt s i = some h) :
    vAt (vview s) i = some (h.isModule, tblAt s h.cell) := by
  rw [vAt_vview, viewAt_of_handle hi]

theorem insertRaw_eq (s : State) (i : Nat) (h : Handle) (n : Name) (cb : Cb) :
    insertRaw s i h n cb = writeMut s i h (fun t => Tbl.insert t n cb) := rfl

/-- `verify_and_insert` against the value-level "taken ⇒ error, else insert" -/
theorem sim_verifyAndInsert {s : State} {i : Nat} {h : Handle} (hI : Inv s) (hi : handleAt s i = some h)
    (n : Name) (cb : Cb) :
    Inv (verifyAndInsert s i h n cb).1 ∧
    (verifyAndInsert s i h n cb).2 = (if Tbl.has (tblAt s h.cell) n then Out.err (.already n) else .ok) ∧
    vview (verifyAndInsert s i h n cb).1 =
      (if Tbl.has (tblAt s h.cell) n then vview s
       else (vview s).set i (some (h.isModule, Tbl.insert (tblAt s h.cell) n cb))) := by
  have M := makeMut_spec hI hi
  unfold verifyAndInsert
  rw [M.tbl]
  cases ht : Tbl.has (tblAt s h.cell) n
  · have W := writeMut_spec hI hi (fun t => Tbl.insert t n cb)
    refine ⟨?_, ?_, ?_⟩
    · simpa [insertRaw_eq] using W.inv
    · simp
    · simp [insertRaw_eq, sim_write hI hi]
  · refine ⟨?_, ?_, ?_⟩
    · simpa using M.inv
    · simp
    · simp [sim_makeMut hI hi]

theorem sim_reg {s : State} (hI : Inv s) (k : RegKind) (i : Nat) (n : Name) (tag : Nat) :
    Sim s (.reg k i n tag) := by
  cases hi : handleAt s i with
  | none =>
    have hv := vAt_dead hi
    constructor <;> simp [step, vstep, hi, hv, hI]
  | some h =>
    have hv := vAt_live hi
    obtain ⟨h1, h2, h3⟩ := sim_verifyAndInsert hI hi n ⟨k.cbKind, tag⟩
    by_cases hu : k ≠ .sync ∧ h.isModule = false
    · constructor <;> simp [step, vstep, hi, hv, hu, hI]
    · constructor
      · simp only [step, hi, if_neg hu]; exact h1
      · simp only [step, vstep, hi, hv, if_neg hu, h3]; split <;> rfl
      · simp only [step, vstep, hi, hv, if_neg hu, h2]; split <;> rfl

theorem sim_regsub {s : State} (hI : Inv s) (i : Nat) (sub unsub : Name) (tag : Nat) :
    Sim s (.regsub i sub unsub tag) := by
  cases hi : handleAt s i with
  | none =>
    have hv := vAt_dead hi
    constructor <;> simp [step, vstep, hi, hv, hI]
  | some h =>
    have hv := vAt_live hi
    by_cases hu : h.isModule = false
    · constructor <;> simp [step, vstep, hi, hv, hu, hI]
    · by_cases e : sub = unsub
      · constructor <;> simp [step, vstep, hi, hv, hu, regSub, vRegSub, e, hI]
      · by_cases t1 : Tbl.has (tblAt s h.cell) sub = true
        · constructor <;> simp [step, vstep, hi, hv, hu, regSub, vRegSub, e, t1, hI]
        · by_cases t2 : Tbl.has (tblAt s h.cell) unsub = true
          · constructor <;> simp [step, vstep, hi, hv, hu, regSub, vRegSub, e, t1, t2, hI]
          · -- both free: insert unsubscribe, then verify_and_insert subscribe (cannot fail)
            have W := writeMut_spec hI hi (fun t => Tbl.insert t unsub ⟨.unsub, tag⟩)
            have hv1 := W.view i
            rw [if_pos rfl, viewAt_of_handle W.hAt] at hv1
            have htbl : tblAt (writeMut s i h fun t => Tbl.insert t unsub ⟨.unsub, tag⟩) (mutCell s h)
                = Tbl.insert (tblAt s h.cell) unsub ⟨.unsub, tag⟩ := by
              simpa using hv1
            obtain ⟨h1, h2, h3⟩ := sim_verifyAndInsert W.inv W.hAt sub ⟨.sub, tag⟩
            have hfree : Tbl.has (Tbl.insert (tblAt s h.cell) unsub ⟨.unsub, tag⟩) sub = false := by
              rw [Tbl.has_false, Tbl.find_insert, if_neg (fun e' => e e'.symm)]
              rw [← Tbl.has_false]; simpa using t1
            simp only [htbl, hfree] at h2 h3
            have es : (step s (.regsub i sub unsub tag)) =
                verifyAndInsert (writeMut s i h fun t => Tbl.insert t unsub ⟨.unsub, tag⟩) i
                  { h with cell := mutCell s h } sub ⟨.sub, tag⟩ := by
              simp [step, hi, hu, regSub, e, t1, t2, insertRaw_eq]
            have ev : vstep (vview s) (.regsub i sub unsub tag) =
                ((vview s).set i (some (h.isModule,
                  Tbl.insert (Tbl.insert (tblAt s h.cell) unsub ⟨.unsub, tag⟩) sub ⟨.sub, tag⟩)), .ok) := by
              simp [vstep, hv, hu, vRegSub, e, t1, t2]
            constructor
            · rw [es]; exact h1
            · rw [es, ev, h3, sim_write hI hi]; simp
            · rw [es, ev, h2]; simp

theorem sim_alias {s : State} (hI : Inv s) (i : Nat) (al ex : Name) : Sim s (.alias i al ex) := by
  cases hi : handleAt s i with
  | none =>
    have hv := vAt_dead hi
    constructor <;> simp [step, vstep, hi, hv, hI]
  | some h =>
    have hv := vAt_live hi
    by_cases hu : h.isModule = false
    · constructor <;> simp [step, vstep, hi, hv, hu, hI]
    · by_cases t1 : Tbl.has (tblAt s h.cell) al = true
      · constructor <;> simp [step, vstep, hi, hv, hu, aliasOp, vAlias, t1, hI]
      · cases hf : Tbl.find (tblAt s h.cell) ex with
        | none => constructor <;> simp [step, vstep, hi, hv, hu, aliasOp, vAlias, t1, hf, hI]
        | some cb =>
          have W := writeMut_spec hI hi (fun t => Tbl.insert t al cb)
          constructor
          · simp only [step, hi, hu, aliasOp, t1, hf, insertRaw_eq]; exact W.inv
          · simp [step, vstep, hi, hv, hu, aliasOp, vAlias, t1, hf, insertRaw_eq, sim_write hI hi]
          · simp [step, vstep, hi, hv, hu, aliasOp, vAlias, t1, hf]

theorem sim_remove {s : State} (hI : Inv s) (i : Nat) (n : Name) : Sim s (.remove i n) := by
  cases hi : handleAt s i with
  | none =>
    have hv := vAt_dead hi
    constructor <;> simp [step, vstep, hi, hv, hI]
  | some h =>
    have hv := vAt_live hi
    by_cases hu : h.isModule = false
    · constructor <;> simp [step, vstep, hi, hv, hu, hI]
    · have W := writeMut_spec hI hi (fun t => Tbl.erase t n)
      have M := makeMut_spec hI hi
      have es : (removeOp s i h n).1 = writeMut s i h (fun t => Tbl.erase t n) := rfl
      constructor
      · simp only [step, hi, hu]; exact W.inv
      · simp [step, vstep, hi, hv, hu, es, sim_write hI hi]
      · simp [step, vstep, hi, hv, hu, removeOp, M.tbl]

theorem sim_clone {s : State} (hI : Inv s) (i : Nat) (fr : Bool) : Sim s (.clone i fr) := by
  cases hi : handleAt s i with
  | none =>
    have hv := vAt_dead hi
    constructor <;> simp [step, vstep, hi, hv, hI]
  | some h =>
    have hv := vAt_live hi
    have P := clone_spec hI hi (h.isModule && !fr)
    constructor
    · simp only [step, hi]; exact P.inv
    · simp [step, vstep, hi, hv, sim_push P]
    · simp [step, vstep, hi, hv]

theorem sim_new {s : State} (hI : Inv s) (im : Bool) : Sim s (.new im) := by
  have P := new_spec hI im
  constructor
  · simp only [step]; exact P.inv
  · simp [step, vstep, sim_push P]
  · simp [step, vstep]

theorem sim_drop_op {s : State} (hI : Inv s) (i : Nat) : Sim s (.drop i) := by
  cases hi : handleAt s i with
  | none =>
    have hv := vAt_dead hi
    constructor <;> simp [step, vstep, hi, hv, hI]
  | some h =>
    have hv := vAt_live hi
    constructor
    · simp only [step, hi]; exact (dropHandle_spec hI hi).inv
    · simp [step, vstep, hi, hv, sim_drop hI hi]
    · simp [step, vstep, hi, hv]

theorem sim_call {s : State} (hI : Inv s) (i : Nat) (n : Name) : Sim s (.call i n) := by
  cases hi : handleAt s i with
  | none =>
    have hv := vAt_dead hi
    constructor <;> simp [step, vstep, hi, hv, hI]
  | some h =>
    have hv := vAt_live hi
    constructor <;> simp [step, vstep, hi, hv, hI]

theorem sim_names {s : State} (hI : Inv s) (i : Nat) : Sim s (.names i) := by
  cases hi : handleAt s i with
  | none =>
    have hv := vAt_dead hi
    constructor <;> simp [step, vstep, hi, hv, hI]
  | some h =>
    have hv := vAt_live hi
    constructor <;> simp [step, vstep, hi, hv, hI]


/-- the moving half of `merge` -/
theorem sim_mergeMove {s : State} (hI : Inv s) {d src : Nat} {hd hs : Handle}
    (hdl : handleAt s d = some hd) (hsl : handleAt s src = some hs) (hne : d ≠ src) :
    Inv (mergeMove s d hd src hs) ∧
    vview (mergeMove s d hd src hs) =
      ((vview s).set d (some (hd.isModule, Tbl.insertAll (tblAt s hd.cell) (tblAt s hs.cell)))).set src none := by
  -- self.mut_callbacks()
  have M1 := makeMut_spec hI hdl
  have hs1 : handleAt (makeMut s d hd) src = some hs := by rw [M1.hOther src (Ne.symm hne)]; exact hsl
  have hcell : hs.cell ≠ mutCell s hd := by
    intro e
    exact hne (M1.inv.unique M1.hAt (by simpa using M1.rc1) hs1 (by simpa using e))
  -- other.mut_callbacks()
  have M2 := makeMut_spec M1.inv hs1
  have hd2 : handleAt (makeMut (makeMut s d hd) src hs) d = some { hd with cell := mutCell s hd } := by
    rw [M2.hOther d hne]; exact M1.hAt
  have rc2 : rcAt (makeMut (makeMut s d hd) src hs) (mutCell s hd) = 1 := by
    rw [M2.rcOther _ M1.cellLt (Ne.symm hcell)]; exact M1.rc1
  have tbl2 : tblAt (makeMut (makeMut s d hd) src hs) (mutCell (makeMut s d hd) hs) = tblAt s hs.cell := by
    rw [M2.tbl]
    have := viewAt_makeMut hI hdl src
    rw [viewAt_of_handle hs1, viewAt_of_handle hsl] at this
    simpa using this
  -- drain
  have I3 := inv_setTbl M2.inv (mutCell (makeMut s d hd) hs) []
  have V3 := viewAt_setTbl M2.inv M2.hAt (by simpa using M2.rc1) []
  simp only [] at V3
  have hd3 : handleAt (setTbl (makeMut (makeMut s d hd) src hs) (mutCell (makeMut s d hd) hs) []) d
      = some { hd with cell := mutCell s hd } := by simpa using hd2
  have rc3 : rcAt (setTbl (makeMut (makeMut s d hd) src hs) (mutCell (makeMut s d hd) hs) []) (mutCell s hd) = 1 := by
    simpa using rc2
  have tbl3 : tblAt (setTbl (makeMut (makeMut s d hd) src hs) (mutCell (makeMut s d hd) hs) []) (mutCell s hd)
      = tblAt s hd.cell := by
    have h3 := V3 d
    rw [if_neg hne, viewAt_of_handle hd3, viewAt_makeMut M1.inv hs1, viewAt_makeMut hI hdl,
      viewAt_of_handle hdl] at h3
    simpa using h3
  -- insert into self
  have I4 := inv_setTbl I3 (mutCell s hd)
    (Tbl.insertAll (tblAt (setTbl (makeMut (makeMut s d hd) src hs) (mutCell (makeMut s d hd) hs) []) (mutCell s hd))
      (tblAt (makeMut (makeMut s d hd) src hs) (mutCell (makeMut s d hd) hs)))
  have V4 := viewAt_setTbl I3 hd3 (by simpa using rc3)
    (Tbl.insertAll (tblAt (setTbl (makeMut (makeMut s d hd) src hs) (mutCell (makeMut s d hd) hs) []) (mutCell s hd))
      (tblAt (makeMut (makeMut s d hd) src hs) (mutCell (makeMut s d hd) hs)))
  simp only [] at V4
  have hs4 : handleAt (setTbl (setTbl (makeMut (makeMut s d hd) src hs) (mutCell (makeMut s d hd) hs) []) (mutCell s hd)
    (Tbl.insertAll (tblAt (setTbl (makeMut (makeMut s d hd) src hs) (mutCell (makeMut s d hd) hs) []) (mutCell s hd))
      (tblAt (makeMut (makeMut s d hd) src hs) (mutCell (makeMut s d hd) hs)))) src
      = some { hs with cell := mutCell (makeMut s d hd) hs } := by simpa using M2.hAt
  -- other goes out of scope
  have D := dropHandle_spec I4 hs4
  refine ⟨D.inv, ?_⟩
  apply vview_eq
  · simp only [mergeMove]; rw [D.len]; simp [M2.len, M1.len]
  · intro j
    have hdlt := handleAt_lt hdl
    have hslt := handleAt_lt hsl
    rw [vAt_set _ _ _ _ (by simpa using hslt), vAt_set _ _ _ _ (by simpa using hdlt), vAt_vview]
    have := D.view j
    simp only [mergeMove]
    rw [this]
    by_cases hj : j = src
    · simp [hj]
    · rw [if_neg hj, if_neg hj, V4 j]
      by_cases hjd : j = d
      · rw [if_pos hjd, if_pos hjd, tbl3, tbl2]
      · rw [if_neg hjd, if_neg hjd, V3 j, if_neg hj, viewAt_makeMut M1.inv hs1, viewAt_makeMut hI hdl]

set_option linter.unusedSimpArgs false in
theorem sim_merge {s : State} (hI : Inv s) (d src : Nat) : Sim s (.merge d src) := by
  cases hdl : handleAt s d with
  | none =>
    have hv := vAt_dead hdl
    constructor <;> simp [step, vstep, hdl, hv, hI]
  | some hd =>
    cases hsl : handleAt s src with
    | none =>
      have hv := vAt_dead hsl
      have hv' := vAt_live hdl
      constructor <;> simp [step, vstep, hdl, hsl, hv, hv', hI]
    | some hs =>
      have hvd := vAt_live hdl
      have hvs := vAt_live hsl
      by_cases e : d = src
      · constructor <;> simp [step, vstep, hdl, hsl, hvd, hvs, e, hI]
      · cases hf : Tbl.firstTaken (tblAt s hd.cell) (Tbl.names (tblAt s hs.cell)) with
        | some k =>
          constructor
          · simp only [step, hdl, hsl, e, mergeOp, hf, if_false]; exact (dropHandle_spec hI hsl).inv
          · simp [step, vstep, hdl, hsl, hvd, hvs, e, mergeOp, vMerge, hf, sim_drop hI hsl]
          · simp [step, vstep, hdl, hsl, hvd, hvs, e, mergeOp, vMerge, hf]
        | none =>
          obtain ⟨h1, h2⟩ := sim_mergeMove hI hdl hsl e
          constructor
          · simp only [step, hdl, hsl, e, mergeOp, hf, if_false]; exact h1
          · simp [step, vstep, hdl, hsl, hvd, hvs, e, mergeOp, vMerge, hf, h2]
          · simp [step, vstep, hdl, hsl, hvd, hvs, e, mergeOp, vMerge, hf]

theorem step_sim {s : State} (hI : Inv s) (op : Op) : Sim s op := by
  cases op with
  | new im => exact sim_new hI im
  | reg k h n tag => exact sim_reg hI k h n tag
  | regsub h a b tag => exact sim_regsub hI h a b tag
  | alias h a b => exact sim_alias hI h a b
  | merge d s' => exact sim_merge hI d s'
  | remove h n => exact sim_remove hI h n
  | clone h f => exact sim_clone hI h f
  | drop h => exact sim_drop_op hI h
  | call h n => exact sim_call hI h n
  | names h => exact sim_names hI h


/-! ## Part D — the value-semantics layer against the map reading -/

/-- keys of every live table are pairwise distinct -/
def VInv (v : VState) : Prop := ∀ i im t, vAt v i = some (im, t) → Tbl.Uniq t

theorem vinv_nil : VInv [] := by
  intro i im t h; simp [vAt] at h

theorem vinv_set {v : VState} (hv : VInv v) (i : Nat) (x : Option (Bool × Tbl))
    (hx : ∀ im t, x = some (im, t) → Tbl.Uniq t) : VInv (v.set i x) := by
  intro j im t h
  by_cases hi : i < v.length
  · rw [vAt_set _ _ _ _ hi] at h
    split at h
    · exact hx im t h
    · exact hv j im t h
  · rw [List.set_eq_of_length_le (by omega)] at h; exact hv j im t h

theorem vinv_push {v : VState} (hv : VInv v) (x : Option (Bool × Tbl))
    (hx : ∀ im t, x = some (im, t) → Tbl.Uniq t) : VInv (v ++ [x]) := by
  intro j im t h
  rw [vAt_push] at h
  split at h
  · exact hx im t h
  · exact hv j im t h

theorem vstep_inv {v : VState} (hv : VInv v) (op : Op) : VInv (vstep v op).1 := by
  cases op with
  | new im =>
    simp only [vstep]; apply vinv_push hv; intro im' t h; cases h; trivial
  | reg k i n tag =>
    simp only [vstep]
    cases h : vAt v i with
    | none => exact hv
    | some x =>
      obtain ⟨im, t⟩ := x
      simp only []
      split
      · exact hv
      · split
        · exact hv
        · apply vinv_set hv; intro im' t' e; cases e; exact Tbl.uniq_insert (hv i im t h) _ _
  | regsub i sub unsub tag =>
    simp only [vstep]
    cases h : vAt v i with
    | none => exact hv
    | some x =>
      obtain ⟨im, t⟩ := x
      simp only [vRegSub]
      repeat' split
      all_goals first
        | exact hv
        | (apply vinv_set hv; intro im' t' e; cases e
           exact Tbl.uniq_insert (Tbl.uniq_insert (hv i im t h) _ _) _ _)
  | alias i al ex =>
    simp only [vstep]
    cases h : vAt v i with
    | none => exact hv
    | some x =>
      obtain ⟨im, t⟩ := x
      simp only [vAlias]
      repeat' split
      all_goals first
        | exact hv
        | (apply vinv_set hv; intro im' t' e; cases e; exact Tbl.uniq_insert (hv i im t h) _ _)
  | merge d src =>
    simp only [vstep]
    cases h : vAt v d with
    | none => exact hv
    | some x =>
      obtain ⟨im, t⟩ := x
      cases h' : vAt v src with
      | none => exact hv
      | some y =>
        obtain ⟨im', o⟩ := y
        simp only [vMerge]
        repeat' split
        · exact hv
        · apply vinv_set hv; intro _ _ e; cases e
        · apply vinv_set _ _ _ (by intro _ _ e; cases e)
          apply vinv_set hv; intro im' t' e; cases e; exact Tbl.uniq_insertAll (hv d im t h) _
  | remove i n =>
    simp only [vstep]
    cases h : vAt v i with
    | none => exact hv
    | some x =>
      obtain ⟨im, t⟩ := x
      simp only []
      split
      · exact hv
      · apply vinv_set hv; intro im' t' e; cases e; exact Tbl.uniq_erase (hv i im t h) _
  | clone i fr =>
    simp only [vstep]
    cases h : vAt v i with
    | none => exact hv
    | some x =>
      obtain ⟨im, t⟩ := x
      apply vinv_push hv; intro im' t' e; cases e; exact hv i im t h
  | drop i =>
    simp only [vstep]
    cases h : vAt v i with
    | none => exact hv
    | some x => apply vinv_set hv; intro _ _ e; cases e
  | call i n =>
    simp only [vstep]
    cases h : vAt v i with
    | none => exact hv
    | some x => exact hv
  | names i =>
    simp only [vstep]
    cases h : vAt v i with
    | none => exact hv
    | some x => exact hv

theorem vrun_inv {v : VState} (hv : VInv v) (ops : List Op) : VInv (vrun v ops).1 := by
  induction ops generalizing v with
  | nil => exact hv
  | cons op r ih => simp only [vrun]; exact ih (vstep_inv hv op)


/-- an operation changes only the handles it names (value semantics: isolation by construction) -/
theorem vstep_frame (v : VState) (op : Op) (j : Nat) (hj : j ∉ op.touched) (hl : j < v.length) :
    vAt (vstep v op).1 j = vAt v j := by
  have hne : j ≠ v.length := by omega
  cases op with
  | new im => simp [vstep, vAt_push, hne]
  | reg k i n tag =>
    have hji : j ≠ i := by simpa [Op.touched] using hj
    simp only [vstep]
    cases h : vAt v i with
    | none => rfl
    | some x =>
      obtain ⟨im, t⟩ := x
      simp only []
      repeat' split
      all_goals first | rfl | (rw [vAt_set _ _ _ _ (vAt_lt h), if_neg hji])
  | regsub i sub unsub tag =>
    have hji : j ≠ i := by simpa [Op.touched] using hj
    simp only [vstep]
    cases h : vAt v i with
    | none => rfl
    | some x =>
      obtain ⟨im, t⟩ := x
      simp only [vRegSub]
      repeat' split
      all_goals first | rfl | (rw [vAt_set _ _ _ _ (vAt_lt h), if_neg hji])
  | alias i al ex =>
    have hji : j ≠ i := by simpa [Op.touched] using hj
    simp only [vstep]
    cases h : vAt v i with
    | none => rfl
    | some x =>
      obtain ⟨im, t⟩ := x
      simp only [vAlias]
      repeat' split
      all_goals first | rfl | (rw [vAt_set _ _ _ _ (vAt_lt h), if_neg hji])
  | merge d src =>
    have hjd : j ≠ d ∧ j ≠ src := by simpa [Op.touched] using hj
    simp only [vstep]
    cases h : vAt v d with
    | none => rfl
    | some x =>
      obtain ⟨im, t⟩ := x
      cases h' : vAt v src with
      | none => rfl
      | some y =>
        obtain ⟨im', o⟩ := y
        simp only [vMerge]
        repeat' split
        · rfl
        · rw [vAt_set _ _ _ _ (vAt_lt h'), if_neg hjd.2]
        · rw [vAt_set _ _ _ _ (by simpa using vAt_lt h'), if_neg hjd.2, vAt_set _ _ _ _ (vAt_lt h), if_neg hjd.1]
  | remove i n =>
    have hji : j ≠ i := by simpa [Op.touched] using hj
    simp only [vstep]
    cases h : vAt v i with
    | none => rfl
    | some x =>
      obtain ⟨im, t⟩ := x
      simp only []
      repeat' split
      all_goals first | rfl | (rw [vAt_set _ _ _ _ (vAt_lt h), if_neg hji])
  | clone i fr =>
    simp only [vstep]
    cases h : vAt v i with
    | none => rfl
    | some x => obtain ⟨im, t⟩ := x; simp [vAt_push, hne]
  | drop i =>
    have hji : j ≠ i := by simpa [Op.touched] using hj
    simp only [vstep]
    cases h : vAt v i with
    | none => rfl
    | some x => simp only []; rw [vAt_set _ _ _ _ (vAt_lt h), if_neg hji]
  | call i n =>
    simp only [vstep]
    cases h : vAt v i with
    | none => rfl
    | some x => rfl
  | names i =>
    simp only [vstep]
    cases h : vAt v i with
    | none => rfl
    | some x => rfl

/-- a failed operation leaves the whole state as it was, except that a failed `merge` has
consumed (dropped) the module that was moved into it -/
theorem vstep_err {v : VState} {op : Op} {e : Err} (h : (vstep v op).2 = .err e) :
    (vstep v op).1 = (match op.consumed with | some src => v.set src none | none => v) := by
  cases op with
  | new im => simp [vstep] at h
  | reg k i n tag =>
    simp only [vstep, Op.consumed] at h ⊢
    cases hv : vAt v i with
    | none => rfl
    | some x =>
      obtain ⟨im, t⟩ := x
      simp only [hv] at h ⊢
      repeat' split
      all_goals first | rfl | (simp_all)
  | regsub i sub unsub tag =>
    simp only [vstep, Op.consumed] at h ⊢
    cases hv : vAt v i with
    | none => rfl
    | some x =>
      obtain ⟨im, t⟩ := x
      simp only [hv, vRegSub] at h ⊢
      repeat' split
      all_goals first | rfl | (simp_all)
  | alias i al ex =>
    simp only [vstep, Op.consumed] at h ⊢
    cases hv : vAt v i with
    | none => rfl
    | some x =>
      obtain ⟨im, t⟩ := x
      simp only [hv, vAlias] at h ⊢
      repeat' split
      all_goals first | rfl | (simp_all)
  | merge d src =>
    simp only [vstep, Op.consumed] at h ⊢
    cases hv : vAt v d with
    | none => simp [hv] at h
    | some x =>
      obtain ⟨im, t⟩ := x
      cases hv' : vAt v src with
      | none => simp [hv, hv'] at h
      | some y =>
        obtain ⟨im', o⟩ := y
        simp only [hv, hv', vMerge] at h ⊢
        repeat' split
        all_goals first | rfl | (simp_all)
  | remove i n =>
    simp only [vstep] at h
    cases hv : vAt v i with
    | none => simp [hv] at h
    | some x => obtain ⟨im, t⟩ := x; simp only [hv] at h; split at h <;> simp at h
  | clone i fr =>
    simp only [vstep] at h
    cases hv : vAt v i with
    | none => simp [hv] at h
    | some x => obtain ⟨im, t⟩ := x; simp [hv] at h
  | drop i =>
    simp only [vstep] at h
    cases hv : vAt v i with
    | none => simp [hv] at h
    | some x => simp [hv] at h
  | call i n =>
    simp only [vstep] at h
    cases hv : vAt v i with
    | none => simp [hv] at h
    | some x => obtain ⟨im, t⟩ := x; simp only [hv, callOut] at h; split at h <;> simp at h
  | names i =>
    simp only [vstep] at h
    cases hv : vAt v i with
    | none => simp [hv] at h
    | some x => obtain ⟨im, t⟩ := x; simp [hv] at h


theorem vstep_ok {v : VState} {op : Op} {i : Nat} (hv : VInv v) (h : (vstep v op).2 = .ok)
    (ht : op.target = some i) :
    ∃ im t t', vAt v i = some (im, t) ∧ vAt (vstep v op).1 i = some (im, t') ∧
      AddsExactly t (op.added (vAt v)) t' := by
  have hv' := vstep_inv hv op
  cases op with
  | reg k j n tag =>
    simp only [Op.target, Option.some.injEq] at ht; subst ht
    simp only [vstep] at h ⊢
    cases hj : vAt v j with
    | none => simp [hj] at h
    | some x =>
      obtain ⟨im, t⟩ := x
      simp only [hj] at h ⊢
      split at h
      · simp at h
      · split at h
        · simp at h
        · next hu hn =>
          rw [if_neg hu, if_neg hn]
          have hfree : Tbl.find t n = none := by rw [← Tbl.has_false]; simpa using hn
          refine ⟨im, t, _, rfl, by rw [vAt_set _ _ _ _ (vAt_lt hj), if_pos rfl], ?_, ?_, ?_⟩
          · intro k; rw [Tbl.find_insert]; simp only [Op.added, Tbl.find]; split <;> rfl
          · intro k hk; simp [Op.added, Tbl.names] at hk; subst hk; exact hfree
          · exact Tbl.uniq_insert (hv j im t hj) _ _
  | regsub j sub unsub tag =>
    simp only [Op.target, Option.some.injEq] at ht; subst ht
    simp only [vstep] at h ⊢
    cases hj : vAt v j with
    | none => simp [hj] at h
    | some x =>
      obtain ⟨im, t⟩ := x
      simp only [hj, vRegSub] at h ⊢
      split at h
      · simp at h
      · next hu =>
        split at h
        · simp at h
        · next hne =>
          split at h
          · simp at h
          · next h1 =>
            split at h
            · simp at h
            · next h2 =>
              rw [if_neg hu, if_neg hne, if_neg h1, if_neg h2]
              have f1 : Tbl.find t sub = none := by rw [← Tbl.has_false]; simpa using h1
              have f2 : Tbl.find t unsub = none := by rw [← Tbl.has_false]; simpa using h2
              refine ⟨im, t, _, rfl, by rw [vAt_set _ _ _ _ (vAt_lt hj), if_pos rfl], ?_, ?_, ?_⟩
              · intro k
                rw [Tbl.find_insert, Tbl.find_insert]
                simp only [Op.added, Tbl.find]
                by_cases e1 : sub = k
                · have : ¬ unsub = k := fun e2 => hne (e1.trans e2.symm)
                  simp [e1, this]
                · by_cases e2 : unsub = k <;> simp [e1, e2]
              · intro k hk
                simp [Op.added, Tbl.names] at hk
                rcases hk with rfl | rfl
                · exact f2
                · exact f1
              · exact Tbl.uniq_insert (Tbl.uniq_insert (hv j im t hj) _ _) _ _
  | alias j al ex =>
    simp only [Op.target, Option.some.injEq] at ht; subst ht
    simp only [vstep] at h ⊢
    cases hj : vAt v j with
    | none => simp [hj] at h
    | some x =>
      obtain ⟨im, t⟩ := x
      simp only [hj, vAlias] at h ⊢
      split at h
      · simp at h
      · next hu =>
        split at h
        · simp at h
        · next h1 =>
          cases hf : Tbl.find t ex with
          | none => simp [hf] at h
          | some cb =>
            rw [if_neg hu, if_neg h1]
            simp only []
            have f1 : Tbl.find t al = none := by rw [← Tbl.has_false]; simpa using h1
            refine ⟨im, t, _, rfl, by rw [vAt_set _ _ _ _ (vAt_lt hj), if_pos rfl], ?_, ?_, ?_⟩
            · intro k; rw [Tbl.find_insert]; simp only [Op.added, hj, hf, Tbl.find]; split <;> rfl
            · intro k hk; simp [Op.added, hj, hf, Tbl.names] at hk; subst hk; exact f1
            · exact Tbl.uniq_insert (hv j im t hj) _ _
  | merge d src =>
    simp only [Op.target, Option.some.injEq] at ht; subst ht
    simp only [vstep] at h ⊢
    cases hd : vAt v d with
    | none => simp [hd] at h
    | some x =>
      obtain ⟨im, t⟩ := x
      cases hs : vAt v src with
      | none => simp [hd, hs] at h
      | some y =>
        obtain ⟨im', o⟩ := y
        simp only [hd, hs, vMerge] at h ⊢
        split at h
        · simp at h
        · next hne =>
          rw [if_neg hne]
          cases hf : Tbl.firstTaken t (Tbl.names o) with
          | some k => simp [hf] at h
          | none =>
            simp only []
            have hdl := vAt_lt hd
            have hsl := vAt_lt hs
            refine ⟨im, t, Tbl.insertAll t o, rfl, ?_, ?_, ?_, ?_⟩
            · rw [vAt_set _ _ _ _ (by simpa using hsl), if_neg hne, vAt_set _ _ _ _ hdl, if_pos rfl]
            · intro k; simp only [Op.added, hs]; exact Tbl.find_insertAll t (hv src im' o hs) k
            · intro k hk; simp only [Op.added, hs] at hk; exact (Tbl.firstTaken_none.mp hf) k hk
            · exact Tbl.uniq_insertAll (hv d im t hd) _
  | new im => simp [Op.target] at ht
  | remove j n => simp [Op.target] at ht
  | clone j fr => simp [Op.target] at ht
  | drop j => simp [Op.target] at ht
  | call j n => simp [Op.target] at ht
  | names j => simp [Op.target] at ht

theorem find_ne_none_iff_has {t : Tbl} {n : Name} : Tbl.find t n ≠ none ↔ Tbl.has t n = true := by
  rw [Tbl.has_eq]; cases Tbl.find t n <;> simp

/-- an applicable registration fails exactly in the situations the statement names -/
theorem vstep_err_iff (v : VState) (op : Op) (ha : op.applicable (vAt v)) :
    (∃ e, (vstep v op).2 = .err e) ↔ op.conflict (vAt v) := by
  cases op with
  | reg k i n tag =>
    obtain ⟨im, t, hi, hk⟩ := ha
    have hu : ¬ (k ≠ .sync ∧ im = false) := by
      rintro ⟨a, b⟩; rcases hk with hk | hk
      · exact a hk
      · rw [hk] at b; cases b
    simp only [vstep, hi, if_neg hu, Op.conflict]
    by_cases ht : Tbl.has t n = true
    · simp only [ht, if_true]
      exact ⟨fun _ => ⟨im, t, rfl, find_ne_none_iff_has.mpr ht⟩, fun _ => ⟨_, rfl⟩⟩
    · simp only [ht]
      constructor
      · rintro ⟨e, he⟩; simp at he
      · rintro ⟨im', t', e, hf⟩; cases e; exact absurd (find_ne_none_iff_has.mp hf) ht
  | regsub i sub unsub tag =>
    obtain ⟨t, hi⟩ := ha
    simp only [vstep, hi, vRegSub, Op.conflict]
    constructor
    · rintro ⟨e, he⟩
      refine ⟨true, t, rfl, ?_⟩
      by_cases e1 : sub = unsub
      · exact Or.inl e1
      · by_cases h1 : Tbl.has t sub = true
        · exact Or.inr (Or.inl (find_ne_none_iff_has.mpr h1))
        · by_cases h2 : Tbl.has t unsub = true
          · exact Or.inr (Or.inr (find_ne_none_iff_has.mpr h2))
          · simp [e1, h1, h2] at he
    · rintro ⟨im', t', e, hc⟩
      cases e
      by_cases e1 : sub = unsub
      · exact ⟨.subConflict sub, by simp [e1]⟩
      · by_cases h1 : Tbl.has t sub = true
        · exact ⟨.already sub, by simp [e1, h1]⟩
        · by_cases h2 : Tbl.has t unsub = true
          · exact ⟨.already unsub, by simp [e1, h1, h2]⟩
          · rcases hc with hc | hc | hc
            · exact absurd hc e1
            · exact absurd (find_ne_none_iff_has.mp hc) h1
            · exact absurd (find_ne_none_iff_has.mp hc) h2
  | alias i al ex =>
    obtain ⟨t, hi⟩ := ha
    simp only [vstep, hi, vAlias, Op.conflict]
    constructor
    · rintro ⟨e, he⟩
      refine ⟨true, t, rfl, ?_⟩
      by_cases h1 : Tbl.has t al = true
      · exact Or.inl (find_ne_none_iff_has.mpr h1)
      · cases hf : Tbl.find t ex with
        | none => exact Or.inr rfl
        | some cb => simp [h1, hf] at he
    · rintro ⟨im', t', e, hc⟩
      cases e
      by_cases h1 : Tbl.has t al = true
      · exact ⟨.already al, by simp [h1]⟩
      · cases hf : Tbl.find t ex with
        | none => exact ⟨.notFound ex, by simp [h1]⟩
        | some cb =>
          rcases hc with hc | hc
          · exact absurd (find_ne_none_iff_has.mp hc) h1
          · rw [hf] at hc; cases hc
  | merge d src =>
    obtain ⟨hne, ⟨x, hd⟩, ⟨y, hs⟩⟩ := ha
    obtain ⟨im, t⟩ := x
    obtain ⟨im', o⟩ := y
    simp only [vstep, hd, hs, if_neg hne, vMerge, Op.conflict]
    cases hf : Tbl.firstTaken t (Tbl.names o) with
    | some k =>
      have := Tbl.firstTaken_some hf
      simp only []
      refine ⟨fun _ => ⟨im, t, im', o, rfl, rfl, k, find_ne_none_iff_has.mpr this.2, ?_⟩, fun _ => ⟨_, rfl⟩⟩
      have hm := Tbl.mem_names.mp this.1
      intro e; rw [e] at hm; cases hm
    | none =>
      simp only []
      constructor
      · rintro ⟨e, he⟩; simp at he
      · rintro ⟨_, _, _, _, e1, e2, k, h1, h2⟩
        cases e1; cases e2
        have hk : k ∈ Tbl.names o := by
          rw [Tbl.mem_names]; cases hh : Tbl.find o k <;> simp_all
        exact absurd ((Tbl.firstTaken_none.mp hf) k hk) h1
  | new im => simp [vstep, Op.conflict]
  | remove i n =>
    obtain ⟨t, hi⟩ := ha
    simp [vstep, hi, Op.conflict]
  | clone i fr =>
    simp only [vstep, Op.conflict]
    cases vAt v i with
    | none => simp
    | some x => simp
  | drop i =>
    simp only [vstep, Op.conflict]
    cases vAt v i with
    | none => simp
    | some x => simp
  | call i n =>
    simp only [vstep, Op.conflict, callOut]
    cases vAt v i with
    | none => simp
    | some x => obtain ⟨_, t⟩ := x; simp only []; cases Tbl.find t n <;> simp
  | names i =>
    simp only [vstep, Op.conflict]
    cases vAt v i with
    | none => simp
    | some x => simp


/-! ## whole histories -/

theorem vview_init : vview State.init = [] := rfl

theorem run_sim {s : State} (hI : Inv s) (ops : List Op) :
    Inv (run s ops).1 ∧ vview (run s ops).1 = (vrun (vview s) ops).1 ∧
      (run s ops).2 = (vrun (vview s) ops).2 := by
  induction ops generalizing s with
  | nil => exact ⟨hI, rfl, rfl⟩
  | cons op r ih =>
    have S := step_sim hI op
    obtain ⟨h1, h2, h3⟩ := ih S.inv
    simp only [run, vrun]
    rw [← S.view, ← S.out]
    exact ⟨h1, h2, by rw [h3]⟩

/-- `reachable_inv`: the heap invariant holds after every history -/
theorem reachable_inv (ops : List Op) : Inv (run State.init ops).1 := (run_sim inv_init ops).1

theorem reachable_vinv (ops : List Op) : VInv (vview (run State.init ops).1) := by
  rw [(run_sim inv_init ops).2.1, vview_init]
  exact vrun_inv vinv_nil ops

end Jrpc.Registry
