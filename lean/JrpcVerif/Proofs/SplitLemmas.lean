/-
  'Split' lemmas: each skipper consumes a prefix p of its input and would consume the same prefix in
  front of any other (delimiter-started) continuation.  Basis of `slice_stable`: every raw slice the
  splitters return is a Stable value.
-/
import JrpcVerif.Proofs.StableLemmas
namespace Jrpc

/-! ### every skipper only looks at the text it consumes (plus, for numbers, one delimiter) -/

theorem skipStr_split : ∀ (n : Nat) (t rest : Text), t.length ≤ n → skipStr t = some rest →
    ∃ p, t = p ++ rest ∧ ∀ r', skipStr (p ++ r') = some r' := by
  intro n
  induction n with
  | zero =>
    intro t rest hl h
    cases t with
    | nil => rw [skipStr.eq_def] at h; simp at h
    | cons c r => simp at hl
  | succ n ih =>
    intro t rest hl h
    cases t with
    | nil => rw [skipStr.eq_def] at h; simp at h
    | cons c r =>
      rw [skipStr.eq_def] at h
      simp only [] at h
      split at h
      · rename_i hc; simp at hc h; subst hc; subst h
        exact ⟨[34], by simp, fun r' => by simp [skipStr_quote]⟩
      · rename_i hc34
        split at h
        · rename_i hc92
          simp at hc92; subst hc92
          cases r with
          | nil => simp at h
          | cons e r1 =>
            simp only [] at h
            split at h
            · rename_i he; simp at he; subst he
              match r1, h with
              | a :: b :: c4 :: d :: r2, h =>
                simp only [] at h
                split at h
                · rename_i hhex
                  obtain ⟨p, hp, hall⟩ := ih r2 rest (by simp at hl ⊢; omega) h
                  refine ⟨92 :: 117 :: a :: b :: c4 :: d :: p, by simp [hp], fun r' => ?_⟩
                  simp only [List.cons_append]
                  rw [skipStr_u _ _ _ _ _ hhex]; exact hall r'
                · simp at h
              | [], h => simp at h
              | [_], h => simp at h
              | [_, _], h => simp at h
              | [_, _, _], h => simp at h
            · split at h
              · rename_i hesc
                obtain ⟨p, hp, hall⟩ := ih r1 rest (by simp at hl ⊢; omega) h
                refine ⟨92 :: e :: p, by simp [hp], fun r' => ?_⟩
                simp only [List.cons_append]
                rw [skipStr_esc _ _ hesc]; exact hall r'
              · simp at h
        · rename_i hc92
          split at h
          · simp at h
          · rename_i hlt
            obtain ⟨p, hp, hall⟩ := ih r rest (by simp at hl ⊢; omega) h
            refine ⟨c :: p, by simp [hp], fun r' => ?_⟩
            simp only [List.cons_append]
            rw [skipStr_plain _ _ (by simpa using hc34) (by simpa using hc92) (by omega)]; exact hall r'

theorem matchLit_split : ∀ (l t rest : Text), matchLit l t = some rest →
    t = l ++ rest ∧ ∀ r', matchLit l (l ++ r') = some r' := by
  intro l
  induction l with
  | nil => intro t rest h; simp [matchLit] at h; subst h; exact ⟨rfl, fun r' => by simp [matchLit]⟩
  | cons a l ih =>
    intro t rest h
    cases t with
    | nil => simp [matchLit] at h
    | cons c t =>
      simp only [matchLit] at h
      split at h
      · rename_i hac; simp at hac; subst hac
        obtain ⟨h1, h2⟩ := ih t rest h
        exact ⟨by simp [h1], fun r' => by simp [matchLit, h2 r']⟩
      · simp at h


/-- what may follow a number without being swallowed by it -/
def NumStop : Text → Prop
  | [] => True
  | c :: _ => isDigit c = false ∧ c ≠ 46 ∧ c ≠ 101 ∧ c ≠ 69

theorem numStop_of_delim (r : Text) (h : Delim r) : NumStop r := by
  cases r with
  | nil => trivial
  | cons c r' => exact delim_head_not_digit _ h c r' rfl

theorem skipDigits_split : ∀ (t : Text), ∃ p, t = p ++ skipDigits t ∧ AllDigits p := by
  intro t
  induction t with
  | nil => exact ⟨[], rfl, trivial⟩
  | cons c t ih =>
    simp only [skipDigits]
    split
    · rename_i hd
      obtain ⟨p, hp, hall⟩ := ih
      exact ⟨c :: p, by simp [← hp], ⟨hd, hall⟩⟩
    · exact ⟨[], rfl, trivial⟩

/-- the continuation does not start with a digit -/
def NoDigitHead : Text → Prop
  | [] => True
  | c :: _ => isDigit c = false

theorem noDigitHead_of_numStop (x : Text) (h : NumStop x) : NoDigitHead x := by
  cases x with
  | nil => trivial
  | cons c r => exact h.1

theorem skipDigits_append_stop (ds x : Text) (hd : AllDigits ds) (hx : NoDigitHead x) : skipDigits (ds ++ x) = x := by
  induction ds with
  | nil =>
    cases x with
    | nil => rfl
    | cons c r' => simp only [NoDigitHead] at hx; simp [skipDigits, hx]
  | cons d ds ih =>
    simp only [AllDigits] at hd
    simp [skipDigits, hd.1, ih hd.2]

theorem skipDigits1_split (t rest : Text) (h : skipDigits1 t = some rest) :
    ∃ p, t = p ++ rest ∧ p ≠ [] ∧ ∀ x, NoDigitHead x → skipDigits1 (p ++ x) = some x := by
  cases t with
  | nil => simp [skipDigits1] at h
  | cons c t =>
    simp only [skipDigits1] at h
    split at h
    · rename_i hd
      simp at h; subst h
      obtain ⟨p, hp, hall⟩ := skipDigits_split t
      refine ⟨c :: p, by simp [← hp], by simp, fun x hx => ?_⟩
      simp [skipDigits1, hd, skipDigits_append_stop p x hall hx]
    · simp at h

theorem skipExponent_split (t rest : Text) (h : skipExponent t = some rest) :
    ∃ p, t = p ++ rest ∧ ∀ x, NoDigitHead x → skipExponent (p ++ x) = some x := by
  unfold skipExponent at h
  cases t with
  | nil => simp [skipSign, skipDigits1] at h
  | cons c t =>
    simp only [skipSign] at h
    split at h
    · rename_i hs
      obtain ⟨p, hp, _, hall⟩ := skipDigits1_split _ _ h
      refine ⟨c :: p, by simp [hp], fun x hx => ?_⟩
      simp only [skipExponent, List.cons_append, skipSign, hs, ↓reduceIte]
      exact hall x hx
    · rename_i hs
      obtain ⟨p, hp, hne, hall⟩ := skipDigits1_split _ _ h
      cases p with
      | nil => exact absurd rfl hne
      | cons c' p' =>
        simp at hp
        refine ⟨c' :: p', by simp [hp], fun x hx => ?_⟩
        obtain ⟨hc, _⟩ := hp
        subst hc
        simp only [skipExponent, List.cons_append, skipSign, hs]
        exact hall x hx

theorem skipExpOpt_stop (x : Text) (hx : NumStop x) : skipExpOpt x = some x := by
  cases x with
  | nil => rfl
  | cons c r => simp only [NumStop] at hx; simp [skipExpOpt, hx.2.2.1, hx.2.2.2]

theorem skipExpOpt_split (t rest : Text) (h : skipExpOpt t = some rest) :
    ∃ p, t = p ++ rest ∧ (∀ x, NumStop x → skipExpOpt (p ++ x) = some x) ∧
      (p = [] ∨ ∃ c p', p = c :: p' ∧ isDigit c = false) := by
  cases t with
  | nil => simp [skipExpOpt] at h; subst h; exact ⟨[], rfl, fun x hx => skipExpOpt_stop x hx, Or.inl rfl⟩
  | cons c t =>
    simp only [skipExpOpt] at h
    split at h
    · rename_i he
      obtain ⟨p, hp, hall⟩ := skipExponent_split _ _ h
      refine ⟨c :: p, by simp [hp], fun x hx => ?_, Or.inr ⟨c, p, rfl, ?_⟩⟩
      · simp only [List.cons_append, skipExpOpt, he, ↓reduceIte]
        exact hall x (noDigitHead_of_numStop x hx)
      · simp at he; rcases he with he | he <;> subst he <;> decide
    · simp at h; subst h; exact ⟨[], rfl, fun x hx => skipExpOpt_stop x hx, Or.inl rfl⟩

theorem skipFracExp_stop (x : Text) (hx : NumStop x) : skipFracExp x = some x := by
  cases x with
  | nil => rfl
  | cons c r =>
    have := skipExpOpt_stop (c :: r) hx
    simp only [NumStop] at hx
    simp [skipFracExp, hx.2.1, this]

theorem noDigitHead_append (p x : Text) (hp : p = [] ∨ ∃ c p', p = c :: p' ∧ isDigit c = false) (hx : NumStop x) :
    NoDigitHead (p ++ x) := by
  rcases hp with hp | ⟨c, p', hp, hc⟩
  · subst hp; exact noDigitHead_of_numStop x hx
  · subst hp; exact hc

theorem skipFracExp_split (t rest : Text) (h : skipFracExp t = some rest) :
    ∃ p, t = p ++ rest ∧ (∀ x, NumStop x → skipFracExp (p ++ x) = some x) ∧
      (p = [] ∨ ∃ c p', p = c :: p' ∧ isDigit c = false) := by
  cases t with
  | nil => simp [skipFracExp] at h; subst h; exact ⟨[], rfl, fun x hx => skipFracExp_stop x hx, Or.inl rfl⟩
  | cons c t =>
    simp only [skipFracExp] at h
    split at h
    · rename_i hdot
      split at h
      · simp at h
      · rename_i r1 hd1
        obtain ⟨p1, hp1, _, hall1⟩ := skipDigits1_split _ _ hd1
        obtain ⟨p2, hp2, hall2, hh2⟩ := skipExpOpt_split _ _ h
        refine ⟨c :: (p1 ++ p2), by simp [hp1, hp2], fun x hx => ?_, Or.inr ⟨c, p1 ++ p2, rfl, ?_⟩⟩
        · simp only [List.cons_append, skipFracExp, hdot, ↓reduceIte, List.append_assoc]
          rw [hall1 (p2 ++ x) (noDigitHead_append p2 x hh2 hx)]
          exact hall2 x hx
        · simp at hdot; subst hdot; decide
    · rename_i hdot
      obtain ⟨p, hp, hall, hh⟩ := skipExpOpt_split _ _ h
      refine ⟨p, hp, fun x hx => ?_, hh⟩
      -- `p ++ x` does not start with '.'
      rcases hh with hp0 | ⟨c', p', hp', hc'⟩
      · subst hp0
        simp only [List.nil_append] at hp ⊢
        exact skipFracExp_stop x hx
      · subst hp'
        simp only [List.cons_append] at hp ⊢
        have hcc : c' = c := by simp at hp; exact hp.1.symm
        subst hcc
        simp only [skipFracExp, hdot, Bool.false_eq_true, ↓reduceIte]
        exact hall x hx

theorem skipInteger_split (t rest : Text) (h : skipInteger t = some rest) :
    ∃ p, t = p ++ rest ∧ p ≠ [] ∧ (∀ x, NumStop x → skipInteger (p ++ x) = some x) := by
  unfold skipInteger at h
  cases t with
  | nil => simp at h
  | cons c r =>
    simp only [] at h
    split at h
    · rename_i h48
      cases r with
      | nil =>
        simp at h; subst h
        refine ⟨[c], by simp, by simp, fun x hx => ?_⟩
        simp only [List.cons_append, List.nil_append, skipInteger, h48, ↓reduceIte]
        cases x with
        | nil => rfl
        | cons d x' =>
          have := skipFracExp_stop (d :: x') hx
          simp only [NumStop] at hx
          simp [hx.1, this]
      | cons d r' =>
        simp only [] at h
        split at h
        · simp at h
        · rename_i hd
          obtain ⟨p, hp, hall, hh⟩ := skipFracExp_split _ _ h
          refine ⟨c :: p, by simp [hp], by simp, fun x hx => ?_⟩
          simp only [List.cons_append, skipInteger, h48, ↓reduceIte]
          have hnd := noDigitHead_append p x hh hx
          cases hpx : p ++ x with
          | nil => 
            have : p = [] ∧ x = [] := by simpa using hpx
            obtain ⟨hp0, hx0⟩ := this
            subst hp0; subst hx0
            have := hall [] trivial
            simpa using this
          | cons e q =>
            rw [hpx] at hnd
            simp only [NoDigitHead] at hnd
            simp only [hnd, Bool.false_eq_true, ↓reduceIte]
            rw [← hpx]; exact hall x hx
    · rename_i h48
      split at h
      · rename_i hd
        obtain ⟨pd, hpd, halld⟩ := skipDigits_split r
        obtain ⟨p, hp, hall, hh⟩ := skipFracExp_split _ _ h
        refine ⟨c :: (pd ++ p), by rw [hpd]; simp [hp], by simp, fun x hx => ?_⟩
        simp only [List.cons_append, skipInteger, h48, Bool.false_eq_true, ↓reduceIte, hd, List.append_assoc]
        rw [skipDigits_append_stop pd (p ++ x) halld (noDigitHead_append p x hh hx)]
        exact hall x hx
      · simp at h

theorem skipNumber_split (t rest : Text) (h : skipNumber t = some rest) :
    ∃ p, t = p ++ rest ∧ p ≠ [] ∧ (∀ x, NumStop x → skipNumber (p ++ x) = some x) := by
  unfold skipNumber at h
  cases t with
  | nil => simp at h
  | cons c r =>
    simp only [] at h
    split at h
    · rename_i hm
      obtain ⟨p, hp, _, hall⟩ := skipInteger_split _ _ h
      refine ⟨c :: p, by simp [hp], by simp, fun x hx => ?_⟩
      simp only [List.cons_append, skipNumber, hm, ↓reduceIte]
      exact hall x hx
    · rename_i hm
      obtain ⟨p, hp, hne, hall⟩ := skipInteger_split _ _ h
      cases p with
      | nil => exact absurd rfl hne
      | cons c' p' =>
        have hcc : c' = c := by simp at hp; exact hp.1.symm
        subst hcc
        refine ⟨c' :: p', hp, by simp, fun x hx => ?_⟩
        simp only [List.cons_append, skipNumber, hm, Bool.false_eq_true, ↓reduceIte]
        exact hall x hx



def AllWs : Text → Prop
  | [] => True
  | c :: r => isJsonWs c = true ∧ AllWs r

/-- empty, or starting with a character that is not JSON whitespace -/
def NoWsHead : Text → Prop
  | [] => True
  | c :: _ => isJsonWs c = false

theorem skipWs_split : ∀ (t : Text), ∃ w, t = w ++ skipWs t ∧ AllWs w := by
  intro t
  induction t with
  | nil => exact ⟨[], rfl, trivial⟩
  | cons c t ih =>
    simp only [skipWs]
    split
    · rename_i hw
      obtain ⟨w, hw', hall⟩ := ih
      exact ⟨c :: w, by simp [← hw'], ⟨hw, hall⟩⟩
    · exact ⟨[], rfl, trivial⟩

theorem skipWs_noWsHead (y : Text) (h : NoWsHead y) : skipWs y = y := by
  cases y with
  | nil => rfl
  | cons c r => simp only [NoWsHead] at h; simp [skipWs, h]

theorem skipWs_append_ws (w y : Text) (hw : AllWs w) : skipWs (w ++ y) = skipWs y := by
  induction w with
  | nil => rfl
  | cons c w ih => simp only [AllWs] at hw; simp [skipWs, hw.1, ih hw.2]

theorem noWsHead_skipWs (t : Text) : NoWsHead (skipWs t) := by
  cases h : skipWs t with
  | nil => trivial
  | cons d r => exact skipWs_head_not_ws t r d h

theorem delim_of_ws_or (w : Text) (c : Nat) (y : Text) (hw : AllWs w) (hc : c = 44 ∨ c = 93 ∨ c = 125) :
    Delim (w ++ c :: y) := by
  cases w with
  | nil => simp [Delim]; rcases hc with h | h | h <;> simp [h]
  | cons d w' => simp only [AllWs] at hw; simp [Delim, hw.1]

theorem afterItem_split (close : Nat) (t r1 : Text) (b : Bool) (h : afterItem close t = some (b, r1)) :
    ∃ w, AllWs w ∧
      ((b = true ∧ ∃ w2, AllWs w2 ∧ t = w ++ 44 :: (w2 ++ r1) ∧ NoWsHead r1) ∨
       (b = false ∧ t = w ++ close :: r1 ∧ close ≠ 44)) := by
  obtain ⟨dd, r2, hws, hdd⟩ := afterItem_cases _ _ _ _ h
  obtain ⟨w, hw, hall⟩ := skipWs_split t
  rw [hws] at hw
  refine ⟨w, hall, ?_⟩
  rcases hdd with ⟨h44, hb, hr1⟩ | ⟨hne, hcl, hb, hr1⟩
  · left
    subst h44
    obtain ⟨w2, hw2, hall2⟩ := skipWs_split r2
    refine ⟨hb, w2, hall2, ?_, ?_⟩
    · rw [hr1, ← hw2]; exact hw
    · rw [hr1]; exact noWsHead_skipWs r2
  · right
    subst hcl; subst hr1
    exact ⟨hb, hw, hne⟩

theorem afterItem_comma_ws (close : Nat) (w y : Text) (hw : AllWs w) :
    afterItem close (w ++ 44 :: y) = some (true, skipWs y) := by
  unfold afterItem
  rw [skipWs_append_ws w _ hw]
  simp [skipWs, isJsonWs]

theorem afterItem_close_ws (close : Nat) (w y : Text) (hw : AllWs w) (hc : close ≠ 44) (hcw : isJsonWs close = false) :
    afterItem close (w ++ close :: y) = some (false, y) := by
  unfold afterItem
  rw [skipWs_append_ws w _ hw]
  simp [skipWs, hcw, hc]

theorem splitKey_split (t k tv : Text) (h : splitKey t = some (k, tv)) :
    ∃ p, t = p ++ tv ∧ p ≠ [] ∧ NoWsHead tv ∧ ∀ y, NoWsHead y → splitKey (p ++ y) = some (k, y) := by
  unfold splitKey at h
  cases t with
  | nil => simp at h
  | cons q t1 =>
    simp only [] at h
    split at h
    · simp at h
    · rename_i hq
      simp at hq; subst hq
      split at h
      · simp at h
      · rename_i r0 hs
        obtain ⟨ps, hps, halls⟩ := skipStr_split t1.length t1 r0 (Nat.le_refl _) hs
        split at h
        · simp at h
        · rename_i col r1 hws
          split at h
          · simp at h
          · rename_i hcol
            simp at hcol; subst hcol
            simp at h
            obtain ⟨hk, htv⟩ := h
            obtain ⟨w, hw, hallw⟩ := skipWs_split r0
            rw [hws] at hw
            obtain ⟨w2, hw2, hallw2⟩ := skipWs_split r1
            rw [htv] at hw2
            refine ⟨34 :: (ps ++ w ++ 58 :: w2), ?_, by simp, ?_, ?_⟩
            · rw [hps, hw, hw2]; simp
            · rw [← htv]; exact noWsHead_skipWs r1
            · intro y hy
              unfold splitKey
              simp only [List.cons_append, List.append_assoc, bne_self_eq_false, Bool.false_eq_true, ↓reduceIte]
              rw [halls (w ++ 58 :: (w2 ++ y))]
              simp only []
              rw [skipWs_append_ws w _ hallw]
              simp only [skipWs, show isJsonWs 58 = false by decide, Bool.false_eq_true, ↓reduceIte,
                bne_self_eq_false]
              rw [skipWs_append_ws w2 _ hallw2, skipWs_noWsHead y hy]
              -- the key slice
              have hlen : (ps ++ (w ++ 58 :: (w2 ++ y))).length - (w ++ 58 :: (w2 ++ y)).length = ps.length := by
                simp
              have hlen0 : t1.length - r0.length = ps.length := by rw [hps]; simp
              rw [hlen, List.take_left']
              · rw [← hk, hlen0, hps, List.take_left']
                rfl
              · rfl



theorem noWsHead_of_valueStart (f : Nat) (p r0 : Text) (h : skipValue f (p ++ r0) = some r0) (hp : p ≠ []) :
    NoWsHead p := by
  cases p with
  | nil => exact absurd rfl hp
  | cons d p' =>
    have hs := valueStart_not_rustWs d (skipValue_head _ _ _ _ h)
    simp only [NoWsHead]
    cases hj : isJsonWs d
    · rfl
    · have := isRustWs_of_isJsonWs d hj; simp [hs.1] at this

theorem noWsHead_append (p y : Text) (hp : p ≠ []) (h : NoWsHead p) : NoWsHead (p ++ y) := by
  cases p with
  | nil => exact absurd rfl hp
  | cons d p' => exact h

/-- every skipper consumes a prefix `p` of its input and consumes the same prefix in front of any
delimiter-started continuation -/
theorem skip_split (f : Nat) :
    (∀ t rest, skipValue f t = some rest →
        ∃ p, t = p ++ rest ∧ p ≠ [] ∧ ∀ r', Delim r' → skipValue f (p ++ r') = some r') ∧
    (∀ t rest, skipElems f t = some rest →
        ∃ p, t = p ++ rest ∧ p ≠ [] ∧ ∀ r', skipElems f (p ++ r') = some r') ∧
    (∀ t rest, skipMembers f t = some rest →
        ∃ p, t = p ++ rest ∧ p ≠ [] ∧ ∀ r', skipMembers f (p ++ r') = some r') := by
  induction f with
  | zero =>
    refine ⟨?_, ?_, ?_⟩ <;> intro t rest h
    · rw [skipValue_zero] at h; cases h
    · rw [skipElems_zero] at h; cases h
    · rw [skipMembers_zero] at h; cases h
  | succ f ih =>
    obtain ⟨ihV, ihE, ihM⟩ := ih
    refine ⟨?_, ?_, ?_⟩
    · -- values
      intro t rest h
      cases t with
      | nil => simp [skipValue] at h
      | cons c r =>
        rw [skipValue] at h
        by_cases h34 : c = 34
        · subst h34
          simp only [beq_self_eq_true, ↓reduceIte] at h
          obtain ⟨p, hp, hall⟩ := skipStr_split r.length r rest (Nat.le_refl _) h
          refine ⟨34 :: p, by simp [hp], by simp, fun r' _ => ?_⟩
          simp only [List.cons_append]
          rw [skipValue]; simp [hall r']
        by_cases h91 : c = 91
        · subst h91
          simp only [show ((91 : Nat) == 34) = false by decide, Bool.false_eq_true, ↓reduceIte, beq_self_eq_true] at h
          obtain ⟨w, hw, hallw⟩ := skipWs_split r
          split at h
          · simp at h
          · rename_i d r1 hws
            rw [hws] at hw
            split at h
            · rename_i hd; simp at hd h; subst hd; subst h
              refine ⟨91 :: (w ++ [93]), by simp [hw], by simp, fun r' _ => ?_⟩
              simp only [List.cons_append, List.append_assoc]
              rw [skipValue]
              simp only [show ((91 : Nat) == 34) = false by decide, Bool.false_eq_true, ↓reduceIte, beq_self_eq_true]
              rw [skipWs_append_ws w _ hallw]
              simp [skipWs, isJsonWs]
            · rename_i hd
              obtain ⟨p1, hp1, hne1, hall1⟩ := ihE _ _ h
              have hnw : NoWsHead p1 := by
                cases p1 with
                | nil => exact absurd rfl hne1
                | cons d' p1' =>
                  have : d' = d := by simp at hp1; exact hp1.1.symm
                  subst this
                  exact skipWs_head_not_ws r r1 d' hws
              refine ⟨91 :: (w ++ p1), by rw [hw, hp1]; simp, by simp, fun r' _ => ?_⟩
              simp only [List.cons_append, List.append_assoc]
              rw [skipValue]
              simp only [show ((91 : Nat) == 34) = false by decide, Bool.false_eq_true, ↓reduceIte, beq_self_eq_true]
              rw [skipWs_append_ws w _ hallw, skipWs_noWsHead _ (noWsHead_append p1 r' hne1 hnw)]
              cases p1 with
              | nil => exact absurd rfl hne1
              | cons d' p1' =>
                have : d' = d := by simp at hp1; exact hp1.1.symm
                subst this
                simp only [List.cons_append, hd, Bool.false_eq_true, ↓reduceIte]
                exact hall1 r'
        by_cases h123 : c = 123
        · subst h123
          simp only [show ((123 : Nat) == 34) = false by decide, show ((123 : Nat) == 91) = false by decide,
            Bool.false_eq_true, ↓reduceIte, beq_self_eq_true] at h
          obtain ⟨w, hw, hallw⟩ := skipWs_split r
          split at h
          · simp at h
          · rename_i d r1 hws
            rw [hws] at hw
            split at h
            · rename_i hd; simp at hd h; subst hd; subst h
              refine ⟨123 :: (w ++ [125]), by simp [hw], by simp, fun r' _ => ?_⟩
              simp only [List.cons_append, List.append_assoc]
              rw [skipValue]
              simp only [show ((123 : Nat) == 34) = false by decide, show ((123 : Nat) == 91) = false by decide,
                Bool.false_eq_true, ↓reduceIte, beq_self_eq_true]
              rw [skipWs_append_ws w _ hallw]
              simp [skipWs, isJsonWs]
            · rename_i hd
              obtain ⟨p1, hp1, hne1, hall1⟩ := ihM _ _ h
              have hnw : NoWsHead p1 := by
                cases p1 with
                | nil => exact absurd rfl hne1
                | cons d' p1' =>
                  have : d' = d := by simp at hp1; exact hp1.1.symm
                  subst this
                  exact skipWs_head_not_ws r r1 d' hws
              refine ⟨123 :: (w ++ p1), by rw [hw, hp1]; simp, by simp, fun r' _ => ?_⟩
              simp only [List.cons_append, List.append_assoc]
              rw [skipValue]
              simp only [show ((123 : Nat) == 34) = false by decide, show ((123 : Nat) == 91) = false by decide,
                Bool.false_eq_true, ↓reduceIte, beq_self_eq_true]
              rw [skipWs_append_ws w _ hallw, skipWs_noWsHead _ (noWsHead_append p1 r' hne1 hnw)]
              cases p1 with
              | nil => exact absurd rfl hne1
              | cons d' p1' =>
                have : d' = d := by simp at hp1; exact hp1.1.symm
                subst this
                simp only [List.cons_append, hd, Bool.false_eq_true, ↓reduceIte]
                exact hall1 r'
        have e34 : (c == 34) = false := by simp [h34]
        have e91 : (c == 91) = false := by simp [h91]
        have e123 : (c == 123) = false := by simp [h123]
        simp only [e34, e91, e123, Bool.false_eq_true, ↓reduceIte] at h
        by_cases h116 : c = 116
        · subst h116
          simp only [beq_self_eq_true, ↓reduceIte] at h
          obtain ⟨hp, hall⟩ := matchLit_split _ _ _ h
          refine ⟨116 :: [114, 117, 101], by simp [hp], by simp, fun r' _ => ?_⟩
          rw [List.cons_append, skipValue]
          simp only [show ((116 : Nat) == 34) = false by decide, show ((116 : Nat) == 91) = false by decide,
            show ((116 : Nat) == 123) = false by decide, Bool.false_eq_true, ↓reduceIte, beq_self_eq_true]
          exact hall r'
        have e116 : (c == 116) = false := by simp [h116]
        simp only [e116, Bool.false_eq_true, ↓reduceIte] at h
        by_cases h102 : c = 102
        · subst h102
          simp only [beq_self_eq_true, ↓reduceIte] at h
          obtain ⟨hp, hall⟩ := matchLit_split _ _ _ h
          refine ⟨102 :: [97, 108, 115, 101], by simp [hp], by simp, fun r' _ => ?_⟩
          rw [List.cons_append, skipValue]
          simp only [show ((102 : Nat) == 34) = false by decide, show ((102 : Nat) == 91) = false by decide,
            show ((102 : Nat) == 123) = false by decide, show ((102 : Nat) == 116) = false by decide,
            Bool.false_eq_true, ↓reduceIte, beq_self_eq_true]
          exact hall r'
        have e102 : (c == 102) = false := by simp [h102]
        simp only [e102, Bool.false_eq_true, ↓reduceIte] at h
        by_cases h110 : c = 110
        · subst h110
          simp only [beq_self_eq_true, ↓reduceIte] at h
          obtain ⟨hp, hall⟩ := matchLit_split _ _ _ h
          refine ⟨110 :: [117, 108, 108], by simp [hp], by simp, fun r' _ => ?_⟩
          rw [List.cons_append, skipValue]
          simp only [show ((110 : Nat) == 34) = false by decide, show ((110 : Nat) == 91) = false by decide,
            show ((110 : Nat) == 123) = false by decide, show ((110 : Nat) == 116) = false by decide,
            show ((110 : Nat) == 102) = false by decide, Bool.false_eq_true, ↓reduceIte, beq_self_eq_true]
          exact hall r'
        have e110 : (c == 110) = false := by simp [h110]
        simp only [e110, Bool.false_eq_true, ↓reduceIte] at h
        split at h
        · rename_i hnum
          obtain ⟨p, hp, hne, hall⟩ := skipNumber_split _ _ h
          refine ⟨p, hp, hne, fun r' hr' => ?_⟩
          cases p with
          | nil => exact absurd rfl hne
          | cons c' p' =>
            have : c' = c := by simp at hp; exact hp.1.symm
            subst this
            rw [List.cons_append, skipValue]
            simp only [e34, e91, e123, e116, e102, e110, Bool.false_eq_true, ↓reduceIte, hnum]
            exact hall r' (numStop_of_delim r' hr')
        · simp at h
    · -- array elements
      intro t rest h
      rw [skipElems] at h
      split at h
      · simp at h
      · rename_i r0 hv
        obtain ⟨pv, hpv, hnev, hallv⟩ := ihV _ _ hv
        split at h
        · simp at h
        · rename_i r1 ha
          obtain ⟨w, hallw, hcase⟩ := afterItem_split _ _ _ _ ha
          rcases hcase with ⟨_, w2, hallw2, hr0, hnw1⟩ | ⟨hb, _, _⟩
          · obtain ⟨p1, hp1, hne1, hall1⟩ := ihE _ _ h
            refine ⟨pv ++ w ++ 44 :: (w2 ++ p1), by rw [hpv, hr0, hp1]; simp, by simp [hnev], fun r' => ?_⟩
            have hnw : NoWsHead p1 := by
              cases p1 with
              | nil => exact absurd rfl hne1
              | cons d p1' => rw [hp1] at hnw1; exact hnw1
            have e : pv ++ w ++ 44 :: (w2 ++ p1) ++ r' = pv ++ (w ++ 44 :: (w2 ++ (p1 ++ r'))) := by simp
            rw [e, skipElems, hallv _ (delim_of_ws_or w 44 _ hallw (Or.inl rfl))]
            simp only [afterItem_comma_ws 93 w _ hallw]
            rw [skipWs_append_ws w2 _ hallw2, skipWs_noWsHead _ (noWsHead_append p1 r' hne1 hnw)]
            exact hall1 r'
          · simp at hb
        · rename_i r1 ha
          obtain ⟨w, hallw, hcase⟩ := afterItem_split _ _ _ _ ha
          rcases hcase with ⟨hb, _⟩ | ⟨_, hr0, hne44⟩
          · simp at hb
          · simp at h; subst h
            refine ⟨pv ++ w ++ [93], by rw [hpv, hr0]; simp, by simp, fun r' => ?_⟩
            have e : pv ++ w ++ [93] ++ r' = pv ++ (w ++ 93 :: r') := by simp
            rw [e, skipElems, hallv _ (delim_of_ws_or w 93 _ hallw (Or.inr (Or.inl rfl)))]
            simp only [afterItem_close_ws 93 w r' hallw (by decide) (by decide)]
    · -- object members
      intro t rest h
      rw [skipMembers] at h
      split at h
      · simp at h
      · rename_i k tv hk
        obtain ⟨pk, hpk, hnek, hnwtv, hallk⟩ := splitKey_split _ _ _ hk
        split at h
        · simp at h
        · rename_i r0 hv
          obtain ⟨pv, hpv, hnev, hallv⟩ := ihV _ _ hv
          have hnwv : NoWsHead pv := by
            cases pv with
            | nil => exact absurd rfl hnev
            | cons d pv' => rw [hpv] at hnwtv; exact hnwtv
          split at h
          · simp at h
          · rename_i r1 ha
            obtain ⟨w, hallw, hcase⟩ := afterItem_split _ _ _ _ ha
            rcases hcase with ⟨_, w2, hallw2, hr0, hnw1⟩ | ⟨hb, _, _⟩
            · obtain ⟨p1, hp1, hne1, hall1⟩ := ihM _ _ h
              refine ⟨pk ++ pv ++ w ++ 44 :: (w2 ++ p1), by rw [hpk, hpv, hr0, hp1]; simp, by simp [hnek], fun r' => ?_⟩
              have hnw : NoWsHead p1 := by
                cases p1 with
                | nil => exact absurd rfl hne1
                | cons d p1' => rw [hp1] at hnw1; exact hnw1
              have e : pk ++ pv ++ w ++ 44 :: (w2 ++ p1) ++ r' = pk ++ (pv ++ (w ++ 44 :: (w2 ++ (p1 ++ r')))) := by simp
              rw [e, skipMembers, hallk _ (noWsHead_append pv _ hnev hnwv)]
              simp only []
              rw [hallv _ (delim_of_ws_or w 44 _ hallw (Or.inl rfl))]
              simp only [afterItem_comma_ws 125 w _ hallw]
              rw [skipWs_append_ws w2 _ hallw2, skipWs_noWsHead _ (noWsHead_append p1 r' hne1 hnw)]
              exact hall1 r'
            · simp at hb
          · rename_i r1 ha
            obtain ⟨w, hallw, hcase⟩ := afterItem_split _ _ _ _ ha
            rcases hcase with ⟨hb, _⟩ | ⟨_, hr0, hne44⟩
            · simp at hb
            · simp at h; subst h
              refine ⟨pk ++ pv ++ w ++ [125], by rw [hpk, hpv, hr0]; simp, by simp [hnek], fun r' => ?_⟩
              have e : pk ++ pv ++ w ++ [125] ++ r' = pk ++ (pv ++ (w ++ 125 :: r')) := by simp
              rw [e, skipMembers, hallk _ (noWsHead_append pv _ hnev hnwv)]
              simp only []
              rw [hallv _ (delim_of_ws_or w 125 _ hallw (Or.inr (Or.inr rfl)))]
              simp only [afterItem_close_ws 125 w r' hallw (by decide) (by decide)]

/-- **Every raw slice the splitter returns is a Stable value**: what `RawValue` captures from a
valid document can be re-embedded in front of any delimiter and is recognised as the same value. -/
theorem slice_stable (f : Nat) (t rest : Text) (h : skipValue f t = some rest) : Stable (consumed t rest) := by
  obtain ⟨p, hp, _, hall⟩ := (skip_split f).1 t rest h
  have : consumed t rest = p := by rw [hp]; exact consumed_append p rest
  rw [this]
  exact ⟨f, hall⟩

/-- a whole document that is one JSON value: its value slice is Stable -/
theorem docValue_stable (t v : Text) (h : docValue t = some v) : Stable v := by
  unfold docValue at h
  simp only [] at h
  split at h
  · simp at h
  · rename_i r hv
    split at h
    · simp at h; subst h; exact slice_stable _ _ _ hv
    · simp at h



theorem splitValue_stable (f : Nat) (t e r : Text) (h : splitValue f t = some (e, r)) : Stable e := by
  unfold splitValue at h
  split at h
  · simp at h
  · rename_i r' hv
    simp at h
    rw [← h.1]
    exact slice_stable f t r' hv

theorem elemsLoop_stable : ∀ (n f : Nat) (t : Text) (es : List Text) (rest : Text),
    elemsLoop n f t = some (es, rest) → ∀ e ∈ es, Stable e := by
  intro n
  induction n with
  | zero => intro f t es rest h; simp [elemsLoop] at h
  | succ n ih =>
    intro f t es rest h
    rw [elemsLoop] at h
    split at h
    · simp at h
    · rename_i e r hsv
      have hse := splitValue_stable f t e r hsv
      split at h
      · simp at h
      · rename_i r1 ha
        split at h
        · simp at h
        · rename_i es' rest' hl
          simp at h
          intro x hx
          rw [← h.1] at hx
          simp at hx
          rcases hx with hx | hx
          · subst hx; exact hse
          · exact ih f r1 es' rest' hl x hx
      · simp at h
        intro x hx
        rw [← h.1] at hx
        simp at hx; subst hx; exact hse

/-- **every element a plain parse of an array yields is a Stable value** -/
theorem elements_stable (t : Text) (es : List Text) (h : elements t = some es) : ∀ e ∈ es, Stable e := by
  unfold elements elementsF at h
  split at h
  · simp at h
  · split at h
    · simp at h
    · split at h
      · simp at h
      · split at h
        · split at h <;> simp at h
          subst h; intro e he; simp at he
        · split at h
          · simp at h
          · rename_i es' rest hl
            split at h <;> simp at h
            subst h
            exact elemsLoop_stable _ _ _ _ _ hl

theorem membersLoop_stable : ∀ (n f : Nat) (t : Text) (ms : List (Text × Text)) (rest : Text),
    membersLoop n f t = some (ms, rest) → ∀ kv ∈ ms, Stable kv.2 := by
  intro n
  induction n with
  | zero => intro f t ms rest h; simp [membersLoop] at h
  | succ n ih =>
    intro f t ms rest h
    rw [membersLoop] at h
    split at h
    · simp at h
    · rename_i key tv hk
      split at h
      · simp at h
      · rename_i v r hsv
        have hse := splitValue_stable f tv v r hsv
        split at h
        · simp at h
        · rename_i r1 ha
          split at h
          · simp at h
          · rename_i ms' rest' hl
            simp at h
            intro x hx
            rw [← h.1] at hx
            simp at hx
            rcases hx with hx | hx
            · subst hx; exact hse
            · exact ih f r1 ms' rest' hl x hx
        · simp at h
          intro x hx
          rw [← h.1] at hx
          simp at hx; subst hx; exact hse

/-- **every member value a plain parse of an object yields is a Stable value** -/
theorem members_stable (t : Text) (ms : List (Text × Text)) (h : members t = some ms) : ∀ kv ∈ ms, Stable kv.2 := by
  unfold members membersF at h
  split at h
  · simp at h
  · split at h
    · simp at h
    · split at h
      · simp at h
      · split at h
        · split at h <;> simp at h
          subst h; intro e he; simp at he
        · split at h
          · simp at h
          · rename_i ms' rest hl
            split at h <;> simp at h
            subst h
            exact membersLoop_stable _ _ _ _ _ hl


end Jrpc
