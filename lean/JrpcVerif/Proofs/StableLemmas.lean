/-
  Suffix-stable JSON values and the composition lemmas: joined stable elements / members are split
  back exactly by the declarative splitters (`elemsLoop`, `membersLoop`).
-/
import JrpcVerif.Proofs.ParamsLemmas
namespace Jrpc

/-- what may follow a value inside a document: end of text, `,` `]` `}` or JSON whitespace -/
def Delim : Text → Prop
  | [] => True
  | c :: _ => c = 44 ∨ c = 93 ∨ c = 125 ∨ isJsonWs c = true

/-- **Suffix stability**: `v` is one complete JSON value that the skipper recognises in front of
anything that may legally follow it. -/
def Stable (v : Text) : Prop := ∃ f, ∀ r, Delim r → skipValue f (v ++ r) = some r

theorem consumed_append (v r : Text) : consumed (v ++ r) r = v := by
  simp [consumed]

theorem stable_fuel {v : Text} (h : Stable v) (g : Nat) (hg : v.length ≤ g) (r : Text) (hr : Delim r) :
    skipValue g (v ++ r) = some r := by
  obtain ⟨f, hf⟩ := h
  exact (skip_fuel_enough f).1 _ _ (hf r hr) g (by simp; omega)

theorem stable_nonempty {v : Text} (h : Stable v) : v ≠ [] := by
  intro hv; subst hv
  obtain ⟨f, hf⟩ := h
  have := hf [] trivial
  cases f <;> simp [skipValue] at this

theorem stable_head {v : Text} (h : Stable v) : ∃ d v', v = d :: v' ∧ isRustWs d = false ∧ isJsonWs d = false := by
  cases v with
  | nil => exact absurd rfl (stable_nonempty h)
  | cons d v' =>
    obtain ⟨f, hf⟩ := h
    have := hf [] trivial
    simp at this
    have hs := valueStart_not_rustWs d (skipValue_head _ _ _ _ this)
    refine ⟨d, v', rfl, hs.1, ?_⟩
    cases hj : isJsonWs d
    · rfl
    · have := isRustWs_of_isJsonWs d hj; simp [hs.1] at this

theorem skipWs_stable {v : Text} (h : Stable v) (r : Text) : skipWs (v ++ r) = v ++ r := by
  obtain ⟨d, v', hv, _, hj⟩ := stable_head h
  subst hv
  simp [skipWs, hj]


theorem afterItem_comma (close : Nat) (r : Text) : afterItem close (44 :: r) = some (true, skipWs r) := by
  simp [afterItem, skipWs, isJsonWs]

theorem afterItem_close (close : Nat) (r : Text) (h : close ≠ 44) (hw : isJsonWs close = false) :
    afterItem close (close :: r) = some (false, r) := by
  simp [afterItem, skipWs, hw, h]

/-- the declarative array splitter returns exactly the joined stable elements -/
theorem elemsLoop_join : ∀ (vs : List Text), vs ≠ [] → (∀ v ∈ vs, Stable v) →
    ∀ (n f : Nat) (rest : Text), vs.length ≤ n → (joinElems vs).length ≤ f →
    elemsLoop n f (joinElems vs ++ 93 :: rest) = some (vs, rest) := by
  intro vs
  induction vs with
  | nil => intro h; exact absurd rfl h
  | cons v vs ih =>
    intro _ hst n f rest hn hf
    have hv : Stable v := hst v (by simp)
    cases n with
    | zero => simp at hn
    | succ n =>
    cases vs with
    | nil =>
      simp only [joinElems] at hf ⊢
      rw [elemsLoop]
      have h1 := stable_fuel hv f hf (93 :: rest) (by simp [Delim])
      simp [splitValue, h1, consumed_append, afterItem_close 93 rest (by decide) (by decide)]
    | cons v2 vs' =>
      simp only [joinElems] at hf ⊢
      rw [elemsLoop]
      have hlen : v.length ≤ f := by simp at hf; omega
      have h1 := stable_fuel hv f hlen (44 :: (joinElems (v2 :: vs') ++ 93 :: rest)) (by simp [Delim])
      have happ : v ++ 44 :: joinElems (v2 :: vs') ++ 93 :: rest = v ++ (44 :: (joinElems (v2 :: vs') ++ 93 :: rest)) := by simp
      rw [happ]
      simp only [splitValue, h1, consumed_append, afterItem_comma]
      have hst' : ∀ v ∈ v2 :: vs', Stable v := fun x hx => hst x (by simp at hx ⊢; right; exact hx)
      have hj2 : ∃ rest2, joinElems (v2 :: vs') = v2 ++ rest2 := by
        cases vs' with
        | nil => exact ⟨[], by simp [joinElems]⟩
        | cons v3 vs'' => exact ⟨44 :: joinElems (v3 :: vs''), by simp [joinElems]⟩
      obtain ⟨rest2, hj⟩ := hj2
      have hws : skipWs (joinElems (v2 :: vs') ++ 93 :: rest) = joinElems (v2 :: vs') ++ 93 :: rest := by
        rw [hj, List.append_assoc]; exact skipWs_stable (hst' v2 (by simp)) _
      rw [hws]
      have := ih (by simp) hst' n f rest (by simp at hn ⊢; omega) (by simp at hf; omega)
      simp [this]

end Jrpc
