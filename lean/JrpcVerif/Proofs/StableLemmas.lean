/-
  Suffix-stable JSON values and the composition lemmas: joined stable elements / members are split
  back exactly by the declarative splitters (`elemsLoop`, `membersLoop`).
-/
import JrpcVerif.Proofs.ParamsLemmas
namespace Jrpc

/-- what may follow a value inside a document: end of text, `,` `]` `}` or JSON whitespace -/
def Delim : Text → Prop
  | [] => True
  | c :: _ => c = 44 ∨ c = 93 ∨ c = 125 ∨ isJsonWs c = true

/-- **Suffix stability**: `v` is one complete JSON value that the skipper recognises in front of
anything that may legally follow it. -/
def Stable (v : Text) : Prop := ∃ f, ∀ r, Delim r → skipValue f (v ++ r) = some r

theorem consumed_append (v r : Text) : consumed (v ++ r) r = v := by
  simp [consumed]

theorem stable_fuel {v : Text} (h : Stable v) (g : Nat) (hg : v.length ≤ g) (r : Text) (hr : Delim r) :
    skipValue g (v ++ r) = some r := by
  obtain ⟨f, hf⟩ := h
  exact (skip_fuel_enough f).1 _ _ (hf r hr) g (by simp; omega)

theorem stable_nonempty {v : Text} (h : Stable v) : v ≠ [] := by
  intro hv; subst hv
  obtain ⟨f, hf⟩ := h
  have := hf [] trivial
  cases f <;> simp [skipValue] at this

theorem stable_head {v : Text} (h : Stable v) : ∃ d v', v = d :: v' ∧ isRustWs d = false ∧ isJsonWs d = false := by
  cases v with
  | nil => exact absurd rfl (stable_nonempty h)
  | cons d v' =>
    obtain ⟨f, hf⟩ := h
    have := hf [] trivial
    simp at this
    have hs := valueStart_not_rustWs d (skipValue_head _ _ _ _ this)
    refine ⟨d, v', rfl, hs.1, ?_⟩
    cases hj : isJsonWs d
    · rfl
    · have := isRustWs_of_isJsonWs d hj; simp [hs.1] at this

theorem skipWs_stable {v : Text} (h : Stable v) (r : Text) : skipWs (v ++ r) = v ++ r := by
  obtain ⟨d, v', hv, _, hj⟩ := stable_head h
  subst hv
  simp [skipWs, hj]


theorem afterItem_comma (close : Nat) (r : Text) : afterItem close (44 :: r) = some (true, skipWs r) := by
  simp [afterItem, skipWs, isJsonWs]

theorem afterItem_close (close : Nat) (r : Text) (h : close ≠ 44) (hw : isJsonWs close = false) :
    afterItem close (close :: r) = some (false, r) := by
  simp [afterItem, skipWs, hw, h]

/-- the declarative array splitter returns exactly the joined stable elements -/
theorem elemsLoop_join : ∀ (vs : List Text), vs ≠ [] → (∀ v ∈ vs, Stable v) →
    ∀ (n f : Nat) (rest : Text), vs.length ≤ n → (joinElems vs).length ≤ f →
    elemsLoop n f (joinElems vs ++ 93 :: rest) = some (vs, rest) := by
  intro vs
  induction vs with
  | nil => intro h; exact absurd rfl h
  | cons v vs ih =>
    intro _ hst n f rest hn hf
    have hv : Stable v := hst v (by simp)
    cases n with
    | zero => simp at hn
    | succ n =>
    cases vs with
    | nil =>
      simp only [joinElems] at hf ⊢
      rw [elemsLoop]
      have h1 := stable_fuel hv f hf (93 :: rest) (by simp [Delim])
      simp [splitValue, h1, consumed_append, afterItem_close 93 rest (by decide) (by decide)]
    | cons v2 vs' =>
      simp only [joinElems] at hf ⊢
      rw [elemsLoop]
      have hlen : v.length ≤ f := by simp at hf; omega
      have h1 := stable_fuel hv f hlen (44 :: (joinElems (v2 :: vs') ++ 93 :: rest)) (by simp [Delim])
      have happ : v ++ 44 :: joinElems (v2 :: vs') ++ 93 :: rest = v ++ (44 :: (joinElems (v2 :: vs') ++ 93 :: rest)) := by simp
      rw [happ]
      simp only [splitValue, h1, consumed_append, afterItem_comma]
      have hst' : ∀ v ∈ v2 :: vs', Stable v := fun x hx => hst x (by simp at hx ⊢; right; exact hx)
      have hj2 : ∃ rest2, joinElems (v2 :: vs') = v2 ++ rest2 := by
        cases vs' with
        | nil => exact ⟨[], by simp [joinElems]⟩
        | cons v3 vs'' => exact ⟨44 :: joinElems (v3 :: vs''), by simp [joinElems]⟩
      obtain ⟨rest2, hj⟩ := hj2
      have hws : skipWs (joinElems (v2 :: vs') ++ 93 :: rest) = joinElems (v2 :: vs') ++ 93 :: rest := by
        rw [hj, List.append_assoc]; exact skipWs_stable (hst' v2 (by simp)) _
      rw [hws]
      have := ih (by simp) hst' n f rest (by simp at hn ⊢; omega) (by simp at hf; omega)
      simp [this]

theorem stable_encodeString (s : Text) : Stable (encodeString s) := by
  refine ⟨1, ?_⟩
  intro r _
  have : encodeString s ++ r = 34 :: (encodeStrBody s ++ 34 :: r) := by simp [encodeString]
  rw [this, skipValue]
  simp [skipStr_encodeStrBody]

theorem stable_null : Stable tNull := by
  refine ⟨1, ?_⟩
  intro r _
  simp [tNull, skipValue, matchLit]



def AllDigits : Text → Prop
  | [] => True
  | c :: r => isDigit c = true ∧ AllDigits r

theorem natDigits_allDigits (f : Nat) : ∀ n acc, n < f → AllDigits acc → AllDigits (natDigits f n acc) := by
  induction f with
  | zero => intro n acc h; omega
  | succ f ih =>
    intro n acc h hacc
    by_cases hn : n < 10
    · simp only [natDigits, hn, ↓reduceIte]
      exact ⟨by simp [isDigit]; omega, hacc⟩
    · simp only [natDigits, hn, ↓reduceIte]
      exact ih (n / 10) _ (by omega) ⟨by simp [isDigit]; omega, hacc⟩

theorem encodeNat_allDigits (n : Nat) : AllDigits (encodeNat n) :=
  natDigits_allDigits (n + 1) n [] (by omega) trivial

theorem delim_head_not_digit (r : Text) (h : Delim r) :
    (∀ c r', r = c :: r' → isDigit c = false ∧ c ≠ 46 ∧ c ≠ 101 ∧ c ≠ 69) := by
  intro c r' hr
  subst hr
  simp only [Delim, isJsonWs] at h
  have hc : c = 44 ∨ c = 93 ∨ c = 125 ∨ c = 32 ∨ c = 9 ∨ c = 10 ∨ c = 13 := by
    rcases h with h | h | h | h
    · exact Or.inl h
    · exact Or.inr (Or.inl h)
    · exact Or.inr (Or.inr (Or.inl h))
    · simp at h; omega
  rcases hc with h | h | h | h | h | h | h <;> subst h <;> decide

theorem skipDigits_append (ds r : Text) (hd : AllDigits ds) (hr : Delim r) : skipDigits (ds ++ r) = r := by
  induction ds with
  | nil =>
    cases r with
    | nil => rfl
    | cons c r' =>
      have := (delim_head_not_digit _ hr c r' rfl).1
      simp [skipDigits, this]
  | cons d ds ih =>
    simp only [AllDigits] at hd
    simp [skipDigits, hd.1, ih hd.2]

theorem skipFracExp_delim (r : Text) (hr : Delim r) : skipFracExp r = some r := by
  cases r with
  | nil => rfl
  | cons c r' =>
    have h := delim_head_not_digit _ hr c r' rfl
    simp [skipFracExp, skipExpOpt, h.2.1, h.2.2.1, h.2.2.2]

/-- a canonical unsigned decimal is recognised as one number in front of any delimiter -/
theorem skipInteger_encodeNat (n : Nat) (r : Text) (hr : Delim r) : skipInteger (encodeNat n ++ r) = some r := by
  obtain ⟨d, rest, h1, h2, h3⟩ := natDigits_head (n + 1) n [] (by omega)
  have hall := encodeNat_allDigits n
  unfold encodeNat at hall ⊢
  rw [h1] at hall ⊢
  simp only [AllDigits] at hall
  simp only [List.cons_append, skipInteger]
  by_cases hd0 : d = 0
  · have := (h3 hd0).2
    subst this; subst hd0
    simp only [Nat.add_zero, beq_self_eq_true, ↓reduceIte, List.nil_append]
    cases r with
    | nil => rfl
    | cons c r' =>
      have := delim_head_not_digit _ hr c r' rfl
      simp only [this.1, Bool.false_eq_true, ↓reduceIte]
      exact skipFracExp_delim _ hr
  · have h48 : ¬ (48 + d = 48) := by omega
    simp only [beq_iff_eq, h48, ↓reduceIte, hall.1]
    rw [skipDigits_append rest r hall.2 hr]
    exact skipFracExp_delim _ hr

theorem stable_encodeNat (n : Nat) : Stable (encodeNat n) := by
  refine ⟨1, ?_⟩
  intro r hr
  obtain ⟨d, rest, h1, h2⟩ := encodeNat_head n
  have hnum : skipNumber (encodeNat n ++ r) = some r := by
    have hi := skipInteger_encodeNat n r hr
    rw [h1] at hi ⊢
    simp only [List.cons_append, skipNumber]
    have : ¬ (48 + d = 45) := by omega
    simp only [beq_iff_eq, this, ↓reduceIte]
    exact hi
  rw [h1] at hnum ⊢
  simp only [List.cons_append] at hnum ⊢
  rw [skipValue]
  have hd : isDigit (48 + d) = true := by simp [isDigit]; omega
  have e1 : ¬ (48 + d = 34) := by omega
  have e2 : ¬ (48 + d = 91) := by omega
  have e3 : ¬ (48 + d = 123) := by omega
  have e4 : ¬ (48 + d = 116) := by omega
  have e5 : ¬ (48 + d = 102) := by omega
  have e6 : ¬ (48 + d = 110) := by omega
  simp only [beq_iff_eq, e1, e2, e3, e4, e5, e6, ↓reduceIte, hd, Bool.or_true]
  exact hnum

theorem stable_encodeInt (i : Int) : Stable (encodeInt i) := by
  cases i with
  | ofNat n => exact stable_encodeNat n
  | negSucc n =>
    refine ⟨1, ?_⟩
    intro r hr
    have hi := skipInteger_encodeNat (n + 1) r hr
    simp only [encodeInt, List.cons_append]
    rw [skipValue]
    simp [skipNumber, hi]

theorem stable_encodeId (i : Id) : Stable (encodeId i) := by
  cases i with
  | null => exact stable_null
  | num n => exact stable_encodeNat n
  | str s => exact stable_encodeString s


end Jrpc
