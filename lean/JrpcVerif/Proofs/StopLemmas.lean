/-
  Helper lemmas and the inductive invariant of the graceful-stop machine (C10, Model/Stop.lean).
-/
import JrpcVerif.Model.Stop
namespace Jrpc.Stop

set_option linter.unusedSimpArgs false
set_option linter.unusedVariables false

theorem mem_updConn {cs : List Conn} {c : Nat} {f : Conn → Conn} {x : Conn} :
    x ∈ updConn cs c f ↔ ∃ x0 ∈ cs, x = if x0.id == c then f x0 else x0 := by
  unfold updConn; rw [List.mem_map]; constructor
  · rintro ⟨a, ha, rfl⟩; exact ⟨a, ha, rfl⟩
  · rintro ⟨a, ha, rfl⟩; exact ⟨a, ha, rfl⟩

theorem mem_updCall {ks : List Call} {k : Nat} {f : Call → Call} {y : Call} :
    y ∈ updCall ks k f ↔ ∃ y0 ∈ ks, y = if y0.id == k then f y0 else y0 := by
  unfold updCall; rw [List.mem_map]; constructor
  · rintro ⟨a, ha, rfl⟩; exact ⟨a, ha, rfl⟩
  · rintro ⟨a, ha, rfl⟩; exact ⟨a, ha, rfl⟩

theorem connSat_iff {s : State} {c : Nat} {p : Conn → Bool} :
    connSat s c p = true ↔ (∃ x ∈ s.conns, x.id = c) ∧ ∀ x ∈ s.conns, x.id = c → p x = true := by
  simp only [connSat, hasConn, Bool.and_eq_true, List.any_eq_true, List.all_eq_true, Bool.or_eq_true,
    bne_iff_ne, beq_iff_eq, ne_eq]
  constructor
  · rintro ⟨h1, h2⟩
    exact ⟨h1, fun x hx hc => by rcases h2 x hx with h | h; exact absurd hc h; exact h⟩
  · rintro ⟨h1, h2⟩
    exact ⟨h1, fun x hx => by by_cases hc : x.id = c; exact Or.inr (h2 x hx hc); exact Or.inl hc⟩

theorem callSat_iff {s : State} {k : Nat} {p : Call → Bool} :
    callSat s k p = true ↔ (∃ y ∈ s.calls, y.id = k) ∧ ∀ y ∈ s.calls, y.id = k → p y = true := by
  simp only [callSat, hasCall, Bool.and_eq_true, List.any_eq_true, List.all_eq_true, Bool.or_eq_true,
    bne_iff_ne, beq_iff_eq, ne_eq]
  constructor
  · rintro ⟨h1, h2⟩
    exact ⟨h1, fun x hx hc => by rcases h2 x hx with h | h; exact absurd hc h; exact h⟩
  · rintro ⟨h1, h2⟩
    exact ⟨h1, fun x hx => by by_cases hc : x.id = k; exact Or.inr (h2 x hx hc); exact Or.inl hc⟩

structure Inv (s : State) : Prop where
  uniq : ∀ x ∈ s.conns, ∀ x' ∈ s.conns, x.id = x'.id → x = x'
  uniqCalls : ∀ k ∈ s.calls, ∀ k' ∈ s.calls, k.id = k'.id → k = k'
  closedClean : ∀ x ∈ s.conns, ∀ k ∈ s.calls, k.conn = x.id → x.phase = .closed → x.peerGone = false →
    (isPending k.phase = false ∧ k.phase ≠ .queued)
  wstopClean : ∀ x ∈ s.conns, ∀ k ∈ s.calls, k.conn = x.id → x.phase = .writerStop → x.peerGone = false →
    isPending k.phase = false
  noDrop : ∀ x ∈ s.conns, ∀ k ∈ s.calls, k.conn = x.id → x.peerGone = false → k.phase ≠ .dropped
  httpShape : ∀ x ∈ s.conns, ∀ k ∈ s.calls, k.conn = x.id → x.tr = .http → (k.phase ≠ .received ∧ k.phase ≠ .queued)
  trPhase : ∀ x ∈ s.conns, (x.tr = .http → x.phase ≠ .draining ∧ x.phase ≠ .writerStop) ∧ (x.tr = .ws → x.phase ≠ .graceful)
  resolvedClosed : s.resolved = true → s.accepting = false ∧ ∀ x ∈ s.conns, x.phase = .closed
  sentLate : ∀ k ∈ s.calls, k.sentLate = true → s.resolved = true ∧ k.phase = .sent
  startLate : ∀ x ∈ s.conns, ∀ k ∈ s.calls, k.conn = x.id → x.peerGone = false → k.startLate = false
  callConn : ∀ k ∈ s.calls, ∃ x ∈ s.conns, x.id = k.conn

theorem inv_init (cap : Nat) : Inv (init cap) := by
  constructor <;> simp [init]

macro "stop_inv" : tactic => `(tactic| (
  simp only [enabled, callSat_iff, connSat_iff, noPending, noQueued, noInflight, isPending, isInflight, Bool.and_eq_true, Bool.or_eq_true, beq_iff_eq, bne_iff_ne,
    Bool.not_eq_true', decide_eq_true_eq, noReceivers, allClosed, List.all_eq_true, hasConn, hasCall, List.any_eq_true,
    Bool.not_eq_eq_eq_not, Bool.not_true, not_exists, not_and, List.any_eq_false] at *
  constructor
  all_goals (simp only [apply, setCallPhase, setConnPhase]; intros; (try simp only [mem_updCall, mem_updConn, List.mem_cons, List.mem_map] at *); grind [isPending, isInflight, noPending, noQueued, noInflight, gone, connClosed])))

theorem inv_connOpen (s : State) (c : Nat) (tr : Tr) (hi : Inv s) (he : enabled s (.connOpen c tr) = true) : Inv (apply s (.connOpen c tr)) := by
  obtain ⟨h1, h2, h3, h4, h5, h6, h7, h8, h9, h10, h11⟩ := hi
  stop_inv

theorem inv_callSend (s : State) (c k : Nat) (hi : Inv s) (he : enabled s (.callSend c k) = true) : Inv (apply s (.callSend c k)) := by
  obtain ⟨h1, h2, h3, h4, h5, h6, h7, h8, h9, h10, h11⟩ := hi
  stop_inv

theorem inv_wsRead (s : State) (k : Nat) (hi : Inv s) (he : enabled s (.wsRead k) = true) : Inv (apply s (.wsRead k)) := by
  obtain ⟨h1, h2, h3, h4, h5, h6, h7, h8, h9, h10, h11⟩ := hi
  stop_inv

theorem inv_callStart (s : State) (k : Nat) (hi : Inv s) (he : enabled s (.callStart k) = true) : Inv (apply s (.callStart k)) := by
  obtain ⟨h1, h2, h3, h4, h5, h6, h7, h8, h9, h10, h11⟩ := hi
  stop_inv

theorem inv_httpRead (s : State) (k : Nat) (hi : Inv s) (he : enabled s (.httpRead k) = true) : Inv (apply s (.httpRead k)) := by
  obtain ⟨h1, h2, h3, h4, h5, h6, h7, h8, h9, h10, h11⟩ := hi
  stop_inv

theorem inv_handlerReturn (s : State) (k : Nat) (hi : Inv s) (he : enabled s (.handlerReturn k) = true) : Inv (apply s (.handlerReturn k)) := by
  obtain ⟨h1, h2, h3, h4, h5, h6, h7, h8, h9, h10, h11⟩ := hi
  stop_inv

theorem inv_enqueue (s : State) (k : Nat) (hi : Inv s) (he : enabled s (.enqueue k) = true) : Inv (apply s (.enqueue k)) := by
  obtain ⟨h1, h2, h3, h4, h5, h6, h7, h8, h9, h10, h11⟩ := hi
  stop_inv

theorem inv_writerStep (s : State) (k : Nat) (hi : Inv s) (he : enabled s (.writerStep k) = true) : Inv (apply s (.writerStep k)) := by
  obtain ⟨h1, h2, h3, h4, h5, h6, h7, h8, h9, h10, h11⟩ := hi
  stop_inv

theorem inv_httpWrite (s : State) (k : Nat) (hi : Inv s) (he : enabled s (.httpWrite k) = true) : Inv (apply s (.httpWrite k)) := by
  obtain ⟨h1, h2, h3, h4, h5, h6, h7, h8, h9, h10, h11⟩ := hi
  stop_inv

theorem inv_stop (s : State)  (hi : Inv s) (he : enabled s .stop = true) : Inv (apply s .stop) := by
  obtain ⟨h1, h2, h3, h4, h5, h6, h7, h8, h9, h10, h11⟩ := hi
  stop_inv

theorem inv_dropHandles (s : State)  (hi : Inv s) (he : enabled s .dropHandles = true) : Inv (apply s .dropHandles) := by
  obtain ⟨h1, h2, h3, h4, h5, h6, h7, h8, h9, h10, h11⟩ := hi
  stop_inv

theorem inv_acceptExit (s : State)  (hi : Inv s) (he : enabled s .acceptExit = true) : Inv (apply s .acceptExit) := by
  obtain ⟨h1, h2, h3, h4, h5, h6, h7, h8, h9, h10, h11⟩ := hi
  stop_inv

theorem inv_observeStop (s : State) (c : Nat) (hi : Inv s) (he : enabled s (.observeStop c) = true) : Inv (apply s (.observeStop c)) := by
  obtain ⟨h1, h2, h3, h4, h5, h6, h7, h8, h9, h10, h11⟩ := hi
  stop_inv

theorem inv_wsDrained (s : State) (c : Nat) (hi : Inv s) (he : enabled s (.wsDrained c) = true) : Inv (apply s (.wsDrained c)) := by
  obtain ⟨h1, h2, h3, h4, h5, h6, h7, h8, h9, h10, h11⟩ := hi
  stop_inv

theorem inv_writerExit (s : State) (c : Nat) (hi : Inv s) (he : enabled s (.writerExit c) = true) : Inv (apply s (.writerExit c)) := by
  obtain ⟨h1, h2, h3, h4, h5, h6, h7, h8, h9, h10, h11⟩ := hi
  stop_inv

theorem inv_httpClose (s : State) (c : Nat) (hi : Inv s) (he : enabled s (.httpClose c) = true) : Inv (apply s (.httpClose c)) := by
  obtain ⟨h1, h2, h3, h4, h5, h6, h7, h8, h9, h10, h11⟩ := hi
  stop_inv

theorem inv_peerGone (s : State) (c : Nat) (hi : Inv s) (he : enabled s (.peerGone c) = true) : Inv (apply s (.peerGone c)) := by
  obtain ⟨h1, h2, h3, h4, h5, h6, h7, h8, h9, h10, h11⟩ := hi
  stop_inv

theorem inv_resolve (s : State)  (hi : Inv s) (he : enabled s .resolve = true) : Inv (apply s .resolve) := by
  obtain ⟨h1, h2, h3, h4, h5, h6, h7, h8, h9, h10, h11⟩ := hi
  stop_inv

theorem inv_apply (s : State) (op : Op) (hi : Inv s) (he : enabled s op = true) : Inv (apply s op) := by
  cases op with
  | connOpen c tr => exact inv_connOpen s c tr hi he
  | callSend c k => exact inv_callSend s c k hi he
  | wsRead k => exact inv_wsRead s k hi he
  | callStart k => exact inv_callStart s k hi he
  | httpRead k => exact inv_httpRead s k hi he
  | handlerReturn k => exact inv_handlerReturn s k hi he
  | enqueue k => exact inv_enqueue s k hi he
  | writerStep k => exact inv_writerStep s k hi he
  | httpWrite k => exact inv_httpWrite s k hi he
  | stop => exact inv_stop s hi he
  | dropHandles => exact inv_dropHandles s hi he
  | acceptExit => exact inv_acceptExit s hi he
  | observeStop c => exact inv_observeStop s c hi he
  | wsDrained c => exact inv_wsDrained s c hi he
  | writerExit c => exact inv_writerExit s c hi he
  | httpClose c => exact inv_httpClose s c hi he
  | peerGone c => exact inv_peerGone s c hi he
  | resolve => exact inv_resolve s hi he

theorem inv_step (s : State) (op : Op) (hi : Inv s) : Inv (step s op).1 := by
  unfold step
  split
  · exact inv_apply s op hi (by assumption)
  · exact hi

theorem run_inv (s : State) (ops : List Op) (hi : Inv s) : Inv (run s ops) := by
  induction ops generalizing s with
  | nil => exact hi
  | cons op r ih => exact ih _ (inv_step s op hi)

def Reachable (s : State) : Prop := ∃ cap ops, s = run (init cap) ops

/-- generic lifting: the invariant holds in every reachable state -/
theorem reachable_inv (s : State) (h : Reachable s) : Inv s := by
  obtain ⟨cap, ops, rfl⟩ := h
  exact run_inv _ _ (inv_init cap)

theorem run_append (s : State) (a b : List Op) : run s (a ++ b) = run (run s a) b := by
  induction a generalizing s with
  | nil => rfl
  | cons op r ih => simp [run, ih]

theorem reachable_step (s : State) (op : Op) (h : Reachable s) : Reachable (step s op).1 := by
  obtain ⟨cap, ops, rfl⟩ := h
  exact ⟨cap, ops ++ [op], by simp [run_append, run]⟩

theorem reachable_run (s : State) (ops : List Op) (h : Reachable s) : Reachable (run s ops) := by
  obtain ⟨cap, ops0, rfl⟩ := h
  exact ⟨cap, ops0 ++ ops, by simp [run_append]⟩

theorem exists_of_all_false {α : Type} (l : List α) (p : α → Bool) (h : l.all p = false) : ∃ a ∈ l, p a = false := by
  obtain ⟨a, ha, hp⟩ := List.all_eq_false.mp h
  exact ⟨a, ha, by simpa using hp⟩

/-! ### guards from membership (ids are unique) -/

theorem connSat_of_mem {s : State} (hi : Inv s) {x : Conn} (hx : x ∈ s.conns) {p : Conn → Bool} (hp : p x = true) :
    connSat s x.id p = true := by
  rw [connSat_iff]
  refine ⟨⟨x, hx, rfl⟩, fun x' hx' hid => ?_⟩
  have := hi.uniq x' hx' x hx hid
  subst this; exact hp

theorem callSat_of_mem {s : State} (hi : Inv s) {k : Call} (hk : k ∈ s.calls) {p : Call → Bool} (hp : p k = true) :
    callSat s k.id p = true := by
  rw [callSat_iff]
  refine ⟨⟨k, hk, rfl⟩, fun k' hk' hid => ?_⟩
  have := hi.uniqCalls k' hk' k hk hid
  subst this; exact hp

/-! ### a measure of the work left (termination of the shutdown) -/

theorem sum_map_le {α : Type} (l : List α) (w : α → Nat) (g : α → α) (h : ∀ a ∈ l, w (g a) ≤ w a) :
    ((l.map g).map w).sum ≤ (l.map w).sum := by
  induction l with
  | nil => simp
  | cons a r ih =>
    have h1 := h a (by simp)
    have h2 := ih (fun b hb => h b (by simp [hb]))
    simp only [List.map_cons, List.sum_cons]
    omega

theorem sum_map_lt {α : Type} (l : List α) (w : α → Nat) (g : α → α) (h : ∀ a ∈ l, w (g a) ≤ w a)
    (h2 : ∃ a ∈ l, w (g a) < w a) : ((l.map g).map w).sum < (l.map w).sum := by
  induction l with
  | nil => obtain ⟨a, ha, _⟩ := h2; cases ha
  | cons a r ih =>
    have h1 := h a (by simp)
    have hle := sum_map_le r w g (fun b hb => h b (by simp [hb]))
    simp only [List.map_cons, List.sum_cons]
    obtain ⟨b, hb, hlt⟩ := h2
    rcases List.mem_cons.mp hb with rfl | hbr
    · omega
    · have := ih (fun c hc => h c (by simp [hc])) ⟨b, hbr, hlt⟩
      omega

def callRank : CPhase → Nat
  | .sent => 6 | .received => 5 | .started => 4 | .answered => 3 | .queued => 2 | .onWire => 0 | .dropped => 0

def connRank : KPhase → Nat
  | .open => 4 | .graceful => 3 | .draining => 3 | .writerStop => 2 | .closed => 0

/-- work left: strictly decreased by every step the server takes by itself -/
def measure (s : State) : Nat :=
  (s.calls.map (fun y => callRank y.phase)).sum + (s.conns.map (fun x => connRank x.phase)).sum
    + s.accepting.toNat + (!s.resolved).toNat

theorem calls_lt (s : State) (k : Nat) (f : Call → Call) (p : Call → Bool) (hs : callSat s k p = true)
    (hf : ∀ y, p y = true → callRank (f y).phase < callRank y.phase) :
    ((updCall s.calls k f).map (fun y => callRank y.phase)).sum < (s.calls.map (fun y => callRank y.phase)).sum := by
  rw [callSat_iff] at hs
  obtain ⟨⟨y0, hy0, hk0⟩, hall⟩ := hs
  unfold updCall
  apply sum_map_lt s.calls (fun y => callRank y.phase) (fun y => if y.id == k then f y else y)
  · intro y hy
    by_cases hk : y.id = k
    · simp [hk]; exact Nat.le_of_lt (hf y (hall y hy hk))
    · simp [hk]
  · exact ⟨y0, hy0, by simp [hk0]; exact hf y0 (hall y0 hy0 hk0)⟩

theorem conns_lt (s : State) (c : Nat) (f : Conn → Conn) (p : Conn → Bool) (hs : connSat s c p = true)
    (hf : ∀ x, p x = true → connRank (f x).phase < connRank x.phase) :
    ((updConn s.conns c f).map (fun x => connRank x.phase)).sum < (s.conns.map (fun x => connRank x.phase)).sum := by
  rw [connSat_iff] at hs
  obtain ⟨⟨y0, hy0, hk0⟩, hall⟩ := hs
  unfold updConn
  apply sum_map_lt s.conns (fun x => connRank x.phase) (fun x => if x.id == c then f x else x)
  · intro y hy
    by_cases hk : y.id = c
    · simp [hk]; exact Nat.le_of_lt (hf y (hall y hy hk))
    · simp [hk]
  · exact ⟨y0, hy0, by simp [hk0]; exact hf y0 (hall y0 hy0 hk0)⟩

theorem measure_decreases (s : State) (hn : s.resolved = false) (op : Op) (hint : internal op = true)
    (he : enabled s op = true) : measure (apply s op) < measure s := by
  cases op <;> simp only [internal] at hint <;> try contradiction
  all_goals simp only [enabled] at he
  case wsRead k =>
    have := calls_lt s k (fun y => { y with phase := .received }) _ he (by intro y hy; simp at hy; simp [hy.1, callRank])
    simp only [measure, apply, setCallPhase]; omega
  case callStart k =>
    have := calls_lt s k (fun y => { y with phase := .started, startLate := s.resolved }) _ he (by intro y hy; simp at hy; simp [hy, callRank])
    simp only [measure, apply]; omega
  case httpRead k =>
    have := calls_lt s k (fun y => { y with phase := .started, startLate := s.resolved }) _ he (by intro y hy; simp at hy; simp [hy.1.1, callRank])
    simp only [measure, apply]; omega
  case handlerReturn k =>
    have := calls_lt s k (fun y => { y with phase := .answered }) _ he (by intro y hy; simp at hy; simp [hy, callRank])
    simp only [measure, apply, setCallPhase]; omega
  case enqueue k =>
    have := calls_lt s k (fun y => { y with phase := if connClosed s y.conn then .dropped else .queued }) _ he
      (by intro y hy; simp at hy; simp only [hy.1]; split <;> simp [callRank])
    simp only [measure, apply]; omega
  case writerStep k =>
    have := calls_lt s k (fun y => { y with phase := if gone s y.conn then .dropped else .onWire }) _ he
      (by intro y hy; simp at hy; simp only [hy.1]; split <;> simp [callRank])
    simp only [measure, apply]; omega
  case httpWrite k =>
    have := calls_lt s k (fun y => { y with phase := if gone s y.conn then .dropped else .onWire }) _ he
      (by intro y hy; simp at hy; simp only [hy.1]; split <;> simp [callRank])
    simp only [measure, apply]; omega
  case acceptExit =>
    simp at he
    simp [measure, apply, he.2]
  case observeStop c =>
    simp only [Bool.and_eq_true] at he
    have := conns_lt s c (fun x => { x with phase := if x.tr == .http then .graceful else .draining }) _ he.2
      (by intro x hx; simp at hx; simp only [hx]; split <;> simp [connRank])
    simp only [measure, apply]; omega
  case wsDrained c =>
    have := conns_lt s c (fun x => { x with phase := .writerStop }) _ he
      (by intro x hx; simp at hx; rcases hx.2 with h | h <;> simp [h.1, connRank])
    simp only [measure, apply, setConnPhase]; omega
  case writerExit c =>
    have := conns_lt s c (fun x => { x with phase := .closed }) _ he
      (by intro x hx; simp at hx; simp [hx.1.2, connRank])
    simp only [measure, apply, setConnPhase]; omega
  case httpClose c =>
    have h1 := conns_lt s c (fun x => { x with phase := .closed }) _ he
      (by intro x hx; simp at hx; have := hx.1.2; cases hp : x.phase <;> simp_all [connRank])
    have h2 := sum_map_le s.calls (fun y => callRank y.phase)
      (fun y => if y.conn == c && isInflight y.phase then { y with phase := .dropped } else y)
      (by intro y _; split <;> simp [callRank])
    simp only [measure, apply]; omega
  case resolve =>
    simp [measure, apply, hn]

end Jrpc.Stop
