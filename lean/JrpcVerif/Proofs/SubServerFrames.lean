/-
  Frame-order invariants of the server subscription machine (for C04): what is on a connection's
  queue ++ wire (`Conn.hist`: everything ever enqueued, in order) relative to the subscription
  records.  Proved for every operation, lifted to all operation sequences (`reachable_inv4`).
-/
import JrpcVerif.Proofs.SubServerLemmas
namespace Jrpc.SubServer

/-! ### classification of frames -/

/-- frames that belong to one subscription: its accept response and its notifications -/
def Frame.owned : Frame → Bool
  | .resp _ _ | .data _ _ _ | .closeOk _ _ _ | .closeErr _ _ _ => true
  | _ => false

/-- the frame carries this subscription's id and (response) request id / (notification) method -/
def Frame.fits (f : Frame) (s : Sub) : Bool :=
  match f with
  | .resp rid x => x == s.subId && rid == s.reqId
  | .data m x _ | .closeOk m x _ | .closeErr m x _ => x == s.subId && m == s.meth
  | _ => false

/-- subscription id named by a notification (data or closing) -/
def Frame.notifSid : Frame → Option Nat
  | .data _ x _ | .closeOk _ x _ | .closeErr _ x _ => some x
  | _ => none

def Frame.isCloseFor (x : Nat) : Frame → Bool
  | .closeOk _ y _ | .closeErr _ y _ => y == x
  | _ => false

/-- payloads of the data notifications naming subscription `x`, in order -/
def dataOf (x : Nat) : List Frame → List Nat
  | [] => []
  | .data _ y p :: r => if y == x then p :: dataOf x r else dataOf x r
  | _ :: r => dataOf x r

def closeCount (x : Nat) (l : List Frame) : Nat := l.countP (Frame.isCloseFor x)

/-- every notification is preceded by a response accepting the subscription it names -/
def RespFirst (l : List Frame) : Prop :=
  ∀ pre f post, l = pre ++ f :: post → ∀ x, f.notifSid = some x → ∃ rid, Frame.resp rid x ∈ pre

theorem dataOf_append (x : Nat) (a b : List Frame) : dataOf x (a ++ b) = dataOf x a ++ dataOf x b := by
  induction a with
  | nil => rfl
  | cons f r ih =>
    cases f <;> simp [dataOf, ih]
    split <;> simp

theorem closeCount_append (x : Nat) (a b : List Frame) :
    closeCount x (a ++ b) = closeCount x a + closeCount x b := by
  simp [closeCount, List.countP_append]

theorem respFirst_nil : RespFirst [] := by
  intro pre f post h
  simp at h

theorem respFirst_append {l fs : List Frame} (h : RespFirst l)
    (hfs : ∀ f ∈ fs, ∀ x, f.notifSid = some x → ∃ rid, Frame.resp rid x ∈ l) : RespFirst (l ++ fs) := by
  intro pre f post e x hx
  rcases List.append_eq_append_iff.mp e with ⟨a, ha, hb⟩ | ⟨a, ha, hb⟩
  · -- pre = l ++ a, fs = a ++ f :: post : the frame is one of the new ones
    have : f ∈ fs := by rw [hb]; simp
    obtain ⟨rid, hr⟩ := hfs f this x hx
    exact ⟨rid, by rw [ha]; simp [hr]⟩
  · -- l = pre ++ a, f :: post = a ++ fs
    cases a with
    | nil =>
      simp at ha hb
      have : f ∈ fs := by rw [← hb]; simp
      obtain ⟨rid, hr⟩ := hfs f this x hx
      exact ⟨rid, by rw [← ha]; exact hr⟩
    | cons g a' =>
      simp at hb
      obtain ⟨rfl, _⟩ := hb
      exact h pre f a' ha x hx

/-! ### the invariant -/

/-- history of connection `c` -/
def histAt (st : State) (c : Nat) : Option (List Frame) := (st.conns[c]?).map Conn.hist

structure Inv4 (st : State) : Prop where
  frames : ∀ c l, histAt st c = some l → ∀ f ∈ l, f.owned = true →
    ∃ s ∈ st.subs, f.fits s = true ∧ s.conn = c ∧ s.phase = .accepted
  respIn : ∀ s ∈ st.subs, s.phase = .accepted → ∀ l, histAt st s.conn = some l →
    Frame.resp s.reqId s.subId ∈ l
  order : ∀ c l, histAt st c = some l → RespFirst l
  fifo : ∀ s ∈ st.subs, ∀ l, histAt st s.conn = some l → dataOf s.subId l = s.produced
  closes : ∀ s ∈ st.subs, ∀ l, histAt st s.conn = some l →
    closeCount s.subId l = (if s.closeSent then 1 else 0)
  /-- the frame-level statements identify a subscription by the id on the wire: they are about
  histories in which the id provider never repeats an id (`FreshRun`) -/
  uniq : ∀ (i j : Nat) (si sj : Sub), st.subs[i]? = some si → st.subs[j]? = some sj →
    si.subId = sj.subId → i = j

theorem inv4_init (cfg : List (Nat × Nat)) : Inv4 (init cfg) := by
  have hh : ∀ c l, histAt (init cfg) c = some l → l = [] := by
    intro c l h
    simp [histAt, init, List.getElem?_map] at h
    obtain ⟨a, b, _, rfl⟩ := h
    simp [Conn.hist, mkConn]
  refine ⟨?_, by simp [init], ?_, by simp [init], by simp [init], by simp [init]⟩
  · intro c l h f hf
    rw [hh c l h] at hf; simp at hf
  · intro c l h
    rw [hh c l h]; exact respFirst_nil

theorem histAt_put (st : State) (k : Nat) (s' : Sub) (cn' : Conn) (c : Nat) :
    histAt (put st k s' cn') c =
      if s'.conn = c then (if c < st.conns.length then some cn'.hist else none) else histAt st c := by
  simp only [histAt, put, List.getElem?_set]
  by_cases h : s'.conn = c
  · subst h; simp
  · simp [h]

theorem histAt_putConn (st : State) (c0 : Nat) (cn' : Conn) (c : Nat) :
    histAt (putConn st c0 cn') c =
      if c0 = c then (if c < st.conns.length then some cn'.hist else none) else histAt st c := by
  simp only [histAt, putConn, List.getElem?_set]
  by_cases h : c0 = c
  · subst h; simp
  · simp [h]

theorem fits_sid {f : Frame} {s : Sub} (h : f.fits s = true) (x : Nat) (hx : f.notifSid = some x) :
    x = s.subId := by
  cases f <;> simp [Frame.fits, Frame.notifSid] at h hx <;> omega

theorem dataOf_single_other {f : Frame} {s : Sub} (h : f.owned = true → f.fits s = true) (x : Nat)
    (hne : x ≠ s.subId) : dataOf x [f] = [] := by
  cases f <;> simp [dataOf, Frame.owned, Frame.fits] at h ⊢
  omega

theorem closeCount_single_other {f : Frame} {s : Sub} (h : f.owned = true → f.fits s = true) (x : Nat)
    (hne : x ≠ s.subId) : closeCount x [f] = 0 := by
  cases f <;> simp [closeCount, Frame.isCloseFor, Frame.owned, Frame.fits] at h ⊢ <;> omega

/-- Writing back subscription `k` (only its mutable fields changed, `accepted` is absorbing)
together with its connection, whose history grew by the frames `fs` — all of them either
unowned (error / unsubscribe responses) or belonging to `s'`. -/
theorem inv4_put {st : State} (h : Inv st) (h4 : Inv4 st) {k : Nat} {s s' : Sub} {cn cn' : Conn}
    (hl : lookup st k = some (s, cn))
    (hconn : s'.conn = s.conn) (hmeth : s'.meth = s.meth) (hid : s'.subId = s.subId) (hrid : s'.reqId = s.reqId)
    (hacc : s.phase = .accepted → s'.phase = .accepted)
    (fs : List Frame) (hhist : cn'.hist = cn.hist ++ fs)
    (hfs : ∀ f ∈ fs, f.owned = true → f.fits s' = true ∧ s'.phase = .accepted)
    (hresp : s'.phase = .accepted → Frame.resp s'.reqId s'.subId ∈ cn.hist ++ fs)
    (hord : ∀ f ∈ fs, ∀ x, f.notifSid = some x → Frame.resp s.reqId s.subId ∈ cn.hist)
    (hprod : s'.produced = s.produced ++ dataOf s.subId fs)
    (hclose : (if s'.closeSent then 1 else 0) = (if s.closeSent then 1 else 0) + closeCount s.subId fs) :
    Inv4 (put st k s' cn') := by
  obtain ⟨hs, hc⟩ := lookup_some hl
  have hmem : s ∈ st.subs := lookup_mem hl
  have hlen : s.conn < st.conns.length := h.connOk s hmem
  have hH : histAt st s.conn = some cn.hist := by simp [histAt, hc]
  -- membership in the new subscription list
  have mem_new : ∀ t, t ∈ (put st k s' cn').subs → t = s' ∨ (t ∈ st.subs ∧ t.subId ≠ s.subId) := by
    intro t ht
    simp only [put] at ht
    obtain ⟨j, hj⟩ := List.mem_iff_getElem?.mp ht
    rcases getElem?_set_cases hj with ⟨_, e⟩ | ⟨hne, hj'⟩
    · exact Or.inl e
    · refine Or.inr ⟨List.mem_iff_getElem?.mpr ⟨j, hj'⟩, fun e => hne ?_⟩
      exact h4.uniq j k t s hj' hs e
  have s'_mem : s' ∈ (put st k s' cn').subs := by
    simp only [put]
    have hk : k < st.subs.length := by
      rcases List.getElem?_eq_some_iff.mp hs with ⟨hh, _⟩; exact hh
    exact List.mem_iff_getElem?.mpr ⟨k, by simp [hk]⟩
  -- an old witness survives (possibly as s')
  have wit : ∀ (f : Frame) (c : Nat), (∃ t ∈ st.subs, f.fits t = true ∧ t.conn = c ∧ t.phase = .accepted) →
      ∃ t ∈ (put st k s' cn').subs, f.fits t = true ∧ t.conn = c ∧ t.phase = .accepted := by
    rintro f c ⟨t, ht, hf, hcn, hp⟩
    obtain ⟨j, hj⟩ := List.mem_iff_getElem?.mp ht
    by_cases hjk : j = k
    · subst hjk
      rw [hs] at hj; cases hj
      refine ⟨s', s'_mem, ?_, by rw [hconn]; exact hcn, hacc hp⟩
      cases f <;> simp_all [Frame.fits]
    · refine ⟨t, ?_, hf, hcn, hp⟩
      simp only [put]
      exact List.mem_iff_getElem?.mpr ⟨j, by rw [List.getElem?_set_ne (fun e => hjk e.symm)]; exact hj⟩
  refine ⟨?_, ?_, ?_, ?_, ?_, ?_⟩
  · -- frames
    intro c l hcl f hf hown
    rw [histAt_put] at hcl
    split at hcl
    · rename_i hcc
      rw [hconn] at hcc; subst hcc
      simp [hlen] at hcl
      subst hcl
      rw [hhist] at hf
      rcases List.mem_append.mp hf with hf | hf
      · exact wit f _ (h4.frames _ _ hH f hf hown)
      · obtain ⟨h1, h2⟩ := hfs f hf hown
        exact ⟨s', s'_mem, h1, hconn, h2⟩
    · exact wit f c (h4.frames c l hcl f hf hown)
  · -- respIn
    intro t ht hp l hcl
    rw [histAt_put] at hcl
    rcases mem_new t ht with rfl | ⟨ht', _⟩
    · simp [hconn, hlen] at hcl
      subst hcl
      rw [hhist]; exact hresp hp
    · split at hcl
      · rename_i hcc
        rw [hconn] at hcc
        rw [← hcc] at hcl
        simp [hlen] at hcl
        subst hcl
        rw [hhist]
        have := h4.respIn t ht' hp cn.hist (by rw [← hcc]; exact hH)
        exact List.mem_append.mpr (Or.inl this)
      · exact h4.respIn t ht' hp l hcl
  · -- order
    intro c l hcl
    rw [histAt_put] at hcl
    split at hcl
    · rename_i hcc
      rw [hconn] at hcc; subst hcc
      simp [hlen] at hcl
      subst hcl
      rw [hhist]
      refine respFirst_append (h4.order _ _ hH) ?_
      intro f hf x hx
      have := hord f hf x hx
      -- the frame is owned (it is a notification), so it fits s' and x = s.subId
      have hown : f.owned = true := by cases f <;> simp_all [Frame.notifSid, Frame.owned]
      have hx' := fits_sid (hfs f hf hown).1 x hx
      exact ⟨s.reqId, by rw [hx', hid]; exact this⟩
    · exact h4.order c l hcl
  · -- fifo
    intro t ht l hcl
    rw [histAt_put] at hcl
    rcases mem_new t ht with rfl | ⟨ht', hne⟩
    · simp [hconn, hlen] at hcl
      subst hcl
      rw [hhist, dataOf_append, hid, h4.fifo s hmem _ hH, hprod]
    · split at hcl
      · rename_i hcc
        rw [hconn] at hcc
        rw [← hcc] at hcl
        simp [hlen] at hcl
        subst hcl
        rw [hhist, dataOf_append, h4.fifo t ht' cn.hist (by rw [← hcc]; exact hH)]
        suffices dataOf t.subId fs = [] by simp [this]
        clear hhist hresp hord hprod hclose
        induction fs with
        | nil => rfl
        | cons f r ih =>
          have e : f :: r = [f] ++ r := rfl
          rw [e, dataOf_append,
            dataOf_single_other (s := s') (fun ho => (hfs f (by simp) ho).1) t.subId (by rw [hid]; exact hne),
            ih (fun g hg => hfs g (by simp [hg]))]
          rfl
      · exact h4.fifo t ht' l hcl
  · -- closes
    intro t ht l hcl
    rw [histAt_put] at hcl
    rcases mem_new t ht with rfl | ⟨ht', hne⟩
    · simp [hconn, hlen] at hcl
      subst hcl
      rw [hhist, closeCount_append, hid, h4.closes s hmem _ hH, hclose]
    · split at hcl
      · rename_i hcc
        rw [hconn] at hcc
        rw [← hcc] at hcl
        simp [hlen] at hcl
        subst hcl
        rw [hhist, closeCount_append, h4.closes t ht' cn.hist (by rw [← hcc]; exact hH)]
        suffices closeCount t.subId fs = 0 by simp [this]
        clear hhist hresp hord hprod hclose
        induction fs with
        | nil => rfl
        | cons f r ih =>
          have e : f :: r = [f] ++ r := rfl
          rw [e, closeCount_append,
            closeCount_single_other (s := s') (fun ho => (hfs f (by simp) ho).1) t.subId (by rw [hid]; exact hne),
            ih (fun g hg => hfs g (by simp [hg]))]
      · exact h4.closes t ht' l hcl
  · -- uniq
    intro i j si sj hi hj hij
    simp only [put] at hi hj
    rcases getElem?_set_cases hi with ⟨e1, e2⟩ | ⟨hik, hi'⟩ <;>
      rcases getElem?_set_cases hj with ⟨e3, e4⟩ | ⟨hjk, hj'⟩
    · omega
    · rw [e2, hid] at hij; rw [e1]; exact h4.uniq _ _ _ _ hs hj' hij
    · rw [e4, hid] at hij; rw [e3]; exact h4.uniq _ _ _ _ hi' hs hij
    · exact h4.uniq _ _ _ _ hi' hj' hij

/-- `Inv4` sees the state only through the subscription list and the histories -/
theorem inv4_congr {st st' : State} (h4 : Inv4 st) (hsubs : st'.subs = st.subs)
    (hh : ∀ c, histAt st' c = histAt st c) : Inv4 st' := by
  refine ⟨?_, ?_, ?_, ?_, ?_, ?_⟩
  · intro c l hcl f hf ho
    rw [hh] at hcl; rw [hsubs]; exact h4.frames c l hcl f hf ho
  · intro s hs hp l hcl
    rw [hh] at hcl; rw [hsubs] at hs; exact h4.respIn s hs hp l hcl
  · intro c l hcl
    rw [hh] at hcl; exact h4.order c l hcl
  · intro s hs l hcl
    rw [hh] at hcl; rw [hsubs] at hs; exact h4.fifo s hs l hcl
  · intro s hs l hcl
    rw [hh] at hcl; rw [hsubs] at hs; exact h4.closes s hs l hcl
  · rw [hsubs]; exact h4.uniq

theorem dataOf_unowned (x : Nat) (fs : List Frame) (h : ∀ f ∈ fs, f.owned = false) : dataOf x fs = [] := by
  induction fs with
  | nil => rfl
  | cons f r ih =>
    have := h f (by simp)
    cases f <;> simp [Frame.owned] at this <;> simp [dataOf] <;> exact ih (fun g hg => h g (by simp [hg]))

theorem closeCount_unowned (x : Nat) (fs : List Frame) (h : ∀ f ∈ fs, f.owned = false) :
    closeCount x fs = 0 := by
  induction fs with
  | nil => rfl
  | cons f r ih =>
    have := h f (by simp)
    have ih' := ih (fun g hg => h g (by simp [hg]))
    simp only [closeCount] at ih' ⊢
    cases f <;> simp [Frame.owned] at this <;> simp [List.countP_cons, Frame.isCloseFor, ih']

/-- a connection's history grows by frames that belong to no subscription (error responses,
unsubscribe responses), or not at all -/
theorem inv4_putConn {st : State} (h4 : Inv4 st) {c : Nat} {cn cn' : Conn}
    (hc : st.conns[c]? = some cn) (fs : List Frame) (hhist : cn'.hist = cn.hist ++ fs)
    (hfs : ∀ f ∈ fs, f.owned = false) : Inv4 (putConn st c cn') := by
  have hlen : c < st.conns.length := by
    rcases List.getElem?_eq_some_iff.mp hc with ⟨hh, _⟩; exact hh
  have hH : histAt st c = some cn.hist := by simp [histAt, hc]
  have hnew : ∀ c2 l, histAt (putConn st c cn') c2 = some l →
      (c2 = c ∧ l = cn.hist ++ fs) ∨ (c2 ≠ c ∧ histAt st c2 = some l) := by
    intro c2 l hcl
    rw [histAt_putConn] at hcl
    split at hcl
    · rename_i e; subst e
      simp [hlen] at hcl
      exact Or.inl ⟨rfl, by rw [← hcl, hhist]⟩
    · rename_i e
      exact Or.inr ⟨fun e' => e e'.symm, hcl⟩
  refine ⟨?_, ?_, ?_, ?_, ?_, h4.uniq⟩
  · intro c2 l hcl f hf ho
    rcases hnew c2 l hcl with ⟨rfl, rfl⟩ | ⟨_, hold⟩
    · rcases List.mem_append.mp hf with hf | hf
      · exact h4.frames _ _ hH f hf ho
      · rw [hfs f hf] at ho; cases ho
    · exact h4.frames c2 l hold f hf ho
  · intro s hs hp l hcl
    rcases hnew _ l hcl with ⟨e, rfl⟩ | ⟨_, hold⟩
    · exact List.mem_append.mpr (Or.inl (h4.respIn s hs hp _ (by rw [e]; exact hH)))
    · exact h4.respIn s hs hp l hold
  · intro c2 l hcl
    rcases hnew c2 l hcl with ⟨rfl, rfl⟩ | ⟨_, hold⟩
    · refine respFirst_append (h4.order _ _ hH) ?_
      intro f hf x hx
      have := hfs f hf
      cases f <;> simp [Frame.owned, Frame.notifSid] at this hx
    · exact h4.order c2 l hold
  · intro s hs l hcl
    rcases hnew _ l hcl with ⟨e, rfl⟩ | ⟨_, hold⟩
    · rw [dataOf_append, dataOf_unowned _ fs hfs, h4.fifo s hs _ (by rw [e]; exact hH)]; simp
    · exact h4.fifo s hs l hold
  · intro s hs l hcl
    rcases hnew _ l hcl with ⟨e, rfl⟩ | ⟨_, hold⟩
    · rw [closeCount_append, closeCount_unowned _ fs hfs, h4.closes s hs _ (by rw [e]; exact hH)]; simp
    · exact h4.closes s hs l hold

theorem dataOf_nil_of_no_notif (x : Nat) (l : List Frame) (h : ∀ f ∈ l, f.notifSid ≠ some x) :
    dataOf x l = [] := by
  induction l with
  | nil => rfl
  | cons f r ih =>
    have hf := h f (by simp)
    have ih' := ih (fun g hg => h g (by simp [hg]))
    cases f <;> simp [dataOf, ih']
    rename_i m y p
    intro e
    simp [Frame.notifSid, e] at hf

set_option linter.unusedSimpArgs false in
theorem closeCount_zero_of_no_notif (x : Nat) (l : List Frame) (h : ∀ f ∈ l, f.notifSid ≠ some x) :
    closeCount x l = 0 := by
  induction l with
  | nil => rfl
  | cons f r ih =>
    have hf := h f (by simp)
    have ih' := ih (fun g hg => h g (by simp [hg]))
    simp only [closeCount] at ih' ⊢
    cases f <;> simp [List.countP_cons, Frame.isCloseFor, ih'] <;>
      (intro e; simp [Frame.notifSid, e] at hf)

/-- no frame anywhere names a subscription id that has not been handed out -/
theorem no_frame_for_fresh {st : State} (h4 : Inv4 st) (c : Nat) (l : List Frame)
    (hcl : histAt st c = some l) (x : Nat) (hx : ∀ s ∈ st.subs, s.subId ≠ x) : ∀ f ∈ l, f.notifSid ≠ some x := by
  intro f hf e
  have ho : f.owned = true := by cases f <;> simp_all [Frame.notifSid, Frame.owned]
  obtain ⟨s, hs, hfit, _, _⟩ := h4.frames c l hcl f hf ho
  exact hx s hs (fits_sid hfit x e).symm

@[simp] theorem hist_push (cn : Conn) (f : Frame) : (cn.push f).hist = cn.hist ++ [f] := by
  simp [Conn.push, Conn.hist]
@[simp] theorem hist_release (cn : Conn) : cn.release.hist = cn.hist := rfl

/-! ### every operation preserves `Inv4` -/

/-- with ids never repeated an accept overwrites nobody -/
theorem displace_id_of_uniq {st : State} (h4 : Inv4 st) {k : Nat} {s : Sub} (hs : st.subs[k]? = some s)
    (hnt : s.inTable = false) : st.subs.map (displace s.conn s.meth s.subId) = st.subs := by
  have : ∀ t ∈ st.subs, displace s.conn s.meth s.subId t = t := by
    intro t ht
    unfold displace
    split
    · rename_i hd
      exfalso
      simp only [sameKey, Bool.and_eq_true, beq_iff_eq] at hd
      obtain ⟨j, hj⟩ := List.mem_iff_getElem?.mp ht
      have e := h4.uniq j k t s hj hs hd.1.2
      subst e
      rw [hs] at hj; cases hj
      rw [hnt] at hd; exact absurd hd.2 (by simp)
    · rfl
  rw [List.map_congr_left this]; simp

theorem inv4_accept {st : State} (h : Inv st) (h4 : Inv4 st) (k : Nat) : Inv4 (doAccept st k).1 := by
  unfold doAccept
  split
  · exact h4
  · rename_i s cn hl
    have ok := h.subOk s (lookup_mem hl)
    split
    · exact h4
    · rename_i hph
      have hph : s.phase = .pending := by simpa using hph
      obtain ⟨f1, f2, f3, f4, f5, f6⟩ := ok.notAcc (by simp [hph])
      rw [displace_id_of_uniq h4 (lookup_some hl).1 f2]
      split
      · refine inv4_put h h4 hl rfl rfl rfl rfl (by simp [hph]) [] (by simp) (by simp) (by simp) (by simp)
          (by simp [dataOf]) (by simp [closeCount])
      · split
        · exact h4
        · split
          · refine inv4_put h h4 hl rfl rfl rfl rfl (by simp [hph]) [.respDead s.reqId s.subId] (by simp)
              (by simp [Frame.owned]) (by simp) (by simp [Frame.notifSid]) (by simp [dataOf])
              (by simp [closeCount, Frame.isCloseFor])
          · refine inv4_put h h4 hl rfl rfl rfl rfl (fun _ => rfl) [.resp s.reqId s.subId] (by simp) ?_ (by simp)
              (by simp [Frame.notifSid]) (by simp [dataOf]) (by simp [closeCount, Frame.isCloseFor])
            intro f hf _
            simp at hf; subst hf
            simp [Frame.fits]

theorem inv4_refuse {st : State} (h : Inv st) (h4 : Inv4 st) (k : Nat) (code : Int) (ph : Phase)
    (hph' : ph ≠ .accepted) : Inv4 (doRefuse st k code ph).1 := by
  unfold doRefuse
  split
  · exact h4
  · rename_i s cn hl
    have ok := h.subOk s (lookup_mem hl)
    split
    · exact h4
    · rename_i hph
      have hph : s.phase = .pending := by simpa using hph
      split
      · exact h4
      · split
        · refine inv4_put h h4 hl rfl rfl rfl rfl (by simp [hph]) [.err s.reqId code] (by simp)
            (by simp [Frame.owned]) (by simp [hph']) (by simp [Frame.notifSid]) (by simp [dataOf])
            (by simp [closeCount, Frame.isCloseFor])
        · refine inv4_put h h4 hl rfl rfl rfl rfl (by simp [hph]) [] (by simp) (by simp) (by simp [hph'])
            (by simp) (by simp [dataOf]) (by simp [closeCount])

theorem inv4_send {st : State} (h : Inv st) (h4 : Inv4 st) (k p : Nat) : Inv4 (doSend st k p).1 := by
  unfold doSend
  split
  · exact h4
  · rename_i s cn hl
    have ok := h.subOk s (lookup_mem hl)
    obtain ⟨hs, hc⟩ := lookup_some hl
    split
    · exact h4
    · rename_i hcl
      have hcl : s.clones > 0 := by
        have : ¬ s.clones = 0 := by simpa using hcl
        omega
      have hacc := ok.clonesAcc hcl
      have hr := h4.respIn s (lookup_mem hl) hacc cn.hist (by simp [histAt, hc])
      split
      · exact h4
      · split
        · exact h4
        · refine inv4_put h h4 hl rfl rfl rfl rfl (fun a => a) [.data s.meth s.subId p] (by simp) ?_ ?_ ?_
            (by simp [dataOf]) (by simp [closeCount, Frame.isCloseFor])
          · intro f hf _
            simp at hf; subst hf
            simp [Frame.fits, hacc]
          · intro _; exact List.mem_append.mpr (Or.inl hr)
          · intro f _ x _; exact hr

theorem inv4_sendResume {st : State} (h : Inv st) (h4 : Inv4 st) (k p : Nat) : Inv4 (doSendResume st k p).1 := by
  unfold doSendResume
  split
  · exact h4
  · rename_i s cn hl
    have ok := h.subOk s (lookup_mem hl)
    obtain ⟨hs, hc⟩ := lookup_some hl
    split
    · exact h4
    · rename_i hcl
      have hcl : s.clones > 0 := by
        have : ¬ s.clones = 0 := by simpa using hcl
        omega
      have hacc := ok.clonesAcc hcl
      have hr := h4.respIn s (lookup_mem hl) hacc cn.hist (by simp [histAt, hc])
      split
      · exact h4
      · split
        · exact h4
        · refine inv4_put h h4 hl rfl rfl rfl rfl (fun a => a) [.data s.meth s.subId p] (by simp) ?_ ?_ ?_
            (by simp [dataOf]) (by simp [closeCount, Frame.isCloseFor])
          · intro f hf _
            simp at hf; subst hf
            simp [Frame.fits, hacc]
          · intro _; exact List.mem_append.mpr (Or.inl hr)
          · intro f _ x _; exact hr

theorem inv4_quiet {st : State} (h : Inv st) (h4 : Inv4 st) {k : Nat} {s s' : Sub} {cn cn' : Conn}
    (hl : lookup st k = some (s, cn))
    (hconn : s'.conn = s.conn) (hmeth : s'.meth = s.meth) (hid : s'.subId = s.subId) (hrid : s'.reqId = s.reqId)
    (hph : s'.phase = s.phase) (hhist : cn'.hist = cn.hist)
    (hprod : s'.produced = s.produced) (hclose : s'.closeSent = s.closeSent) :
    Inv4 (put st k s' cn') := by
  obtain ⟨hs, hc⟩ := lookup_some hl
  refine inv4_put h h4 hl hconn hmeth hid hrid (fun a => by rw [hph]; exact a) [] (by simp [hhist]) (by simp) ?_
    (by simp) (by simp [dataOf, hprod]) (by simp [closeCount, hclose])
  intro hp
  rw [hph] at hp
  simp only [List.append_nil, hrid, hid]
  exact h4.respIn s (lookup_mem hl) hp cn.hist (by simp [histAt, hc])

theorem inv4_clone {st : State} (h : Inv st) (h4 : Inv4 st) (k : Nat) : Inv4 (doClone st k).1 := by
  unfold doClone
  split
  · exact h4
  · rename_i s cn hl
    split
    · exact h4
    · exact inv4_quiet h h4 hl rfl rfl rfl rfl rfl rfl rfl rfl

theorem inv4_dropSink {st : State} (h : Inv st) (h4 : Inv4 st) (k : Nat) : Inv4 (doDropSink st k).1 := by
  unfold doDropSink
  split
  · exact h4
  · rename_i s cn hl
    split
    · exact h4
    · exact inv4_quiet h h4 hl rfl rfl rfl rfl rfl (by split <;> rfl) rfl rfl

theorem inv4_return {st : State} (h : Inv st) (h4 : Inv4 st) (k : Nat) (r : Ret) : Inv4 (doReturn st k r).1 := by
  unfold doReturn
  split
  · exact h4
  · rename_i s cn hl
    split
    · exact h4
    · exact inv4_quiet h h4 hl rfl rfl rfl rfl rfl rfl rfl rfl

theorem closeFrame_props {s : Sub} {f : Frame} (hf : closeFrame s = some f) :
    f.owned = true ∧ f.fits s = true ∧ f.notifSid = some s.subId ∧ dataOf s.subId [f] = [] ∧
      closeCount s.subId [f] = 1 := by
  unfold closeFrame at hf
  split at hf
  · simp at hf
  · simp at hf; subst hf; simp [Frame.owned, Frame.fits, Frame.notifSid, dataOf, closeCount, Frame.isCloseFor]
  · simp at hf; subst hf; simp [Frame.owned, Frame.fits, Frame.notifSid, dataOf, closeCount, Frame.isCloseFor]

theorem inv4_task {st : State} (h : Inv st) (h4 : Inv4 st) (k : Nat) : Inv4 (doTask st k).1 := by
  unfold doTask
  split
  · exact h4
  · rename_i s cn hl
    have ok := h.subOk s (lookup_mem hl)
    obtain ⟨hs, hc⟩ := lookup_some hl
    split
    · exact h4
    · rename_i hg
      have hg' : s.phase = .accepted ∧ s.handlerDone = true ∧ s.taskDone = false := by
        simp at hg; exact ⟨hg.1.1, hg.1.2, hg.2⟩
      have hacc := hg'.1
      have hcs : s.closeSent = false := by
        cases hcs : s.closeSent with
        | false => rfl
        | true => have := ok.closeTask hcs; rw [hg'.2.2] at this; cases this
      have hr := h4.respIn s (lookup_mem hl) hacc cn.hist (by simp [histAt, hc])
      split
      · exact inv4_quiet h h4 hl rfl rfl rfl rfl rfl rfl rfl rfl
      · rename_i f hf
        obtain ⟨p1, p2, p3, p4, p5⟩ := closeFrame_props hf
        split
        · exact inv4_quiet h h4 hl rfl rfl rfl rfl rfl rfl rfl rfl
        · split
          · exact h4
          · refine inv4_put h h4 hl rfl rfl rfl rfl (fun a => a) [f] (by simp) ?_ ?_ ?_
              (by simp [p4]) (by simp [p5, hcs])
            · intro g hg _
              simp at hg; subst hg
              cases g <;> simp_all [Frame.fits]
            · intro _; exact List.mem_append.mpr (Or.inl hr)
            · intro g _ x _; exact hr

theorem inv4_unsubscribe {st : State} (h : Inv st) (h4 : Inv4 st) (c m x rid : Nat) :
    Inv4 (doUnsubscribe st c m x rid).1 := by
  unfold doUnsubscribe
  split
  · exact h4
  · rename_i cn hc
    split
    · exact h4
    · split
      · exact h4
      · split
        · exact inv4_putConn h4 hc [.unsub rid false] (by simp) (by simp [Frame.owned])
        · rename_i k hf
          obtain ⟨s, hs, hp⟩ := findIdx_some hf
          simp only [tableKey, sameKey, Bool.and_eq_true, beq_iff_eq] at hp
          obtain ⟨⟨⟨hsc, _⟩, _⟩, hit⟩ := hp
          rw [hs]
          have hl : lookup st k = some (s, cn) := by
            simp [lookup, hs, hsc, hc]
          refine inv4_put h h4 hl rfl rfl rfl rfl (fun a => a) [.unsub rid true] (by simp)
            (by simp [Frame.owned]) ?_ (by simp [Frame.notifSid]) (by simp [dataOf])
            (by simp [closeCount, Frame.isCloseFor])
          intro hp
          exact List.mem_append.mpr (Or.inl (h4.respIn s (lookup_mem hl) hp cn.hist (by simp [histAt, hsc, hc])))

/-- the id provider hands out an id it has never handed out before -/
def freshOp (st : State) : Op → Prop
  | .subscribe _ _ _ sid => ∀ s ∈ st.subs, s.subId ≠ sid
  | _ => True

theorem inv4_subscribe {st : State} (h4 : Inv4 st) (c m rid sid : Nat)
    (hfresh : ∀ s ∈ st.subs, s.subId ≠ sid) : Inv4 (doSubscribe st c m rid sid).1 := by
  unfold doSubscribe
  split
  · exact h4
  · rename_i cn hc
    have hlen : c < st.conns.length := by
      rcases List.getElem?_eq_some_iff.mp hc with ⟨hh, _⟩; exact hh
    split
    · exact h4
    · split
      · split
        · exact inv4_putConn h4 hc [.err rid tooManyCode] (by simp) (by simp [Frame.owned])
        · exact h4
      · -- a fresh pending record is appended; histories unchanged
        have hh : ∀ (sb : List Sub) (c2 : Nat),
            histAt ⟨st.conns.set c { cn with permitsFree := cn.permitsFree - 1 }, sb⟩ c2 = histAt st c2 := by
          intro sb c2
          simp only [histAt, List.getElem?_set]
          by_cases e : c = c2
          · subst e
            rw [hc]
            simp [hlen, Conn.hist]
          · simp [e]
        refine ⟨?_, ?_, ?_, ?_, ?_, ?_⟩
        · intro c2 l hcl f hf ho
          rw [hh] at hcl
          obtain ⟨s, hs, r⟩ := h4.frames c2 l hcl f hf ho
          exact ⟨s, List.mem_append.mpr (Or.inl hs), r⟩
        · intro s hs hp l hcl
          rw [hh] at hcl
          simp only [List.mem_append, List.mem_singleton] at hs
          rcases hs with hs | rfl
          · exact h4.respIn s hs hp l hcl
          · simp at hp
        · intro c2 l hcl
          rw [hh] at hcl
          exact h4.order c2 l hcl
        · intro s hs l hcl
          rw [hh] at hcl
          simp only [List.mem_append, List.mem_singleton] at hs
          rcases hs with hs | rfl
          · exact h4.fifo s hs l hcl
          · exact dataOf_nil_of_no_notif _ l (no_frame_for_fresh h4 _ l hcl _ hfresh)
        · intro s hs l hcl
          rw [hh] at hcl
          simp only [List.mem_append, List.mem_singleton] at hs
          rcases hs with hs | rfl
          · exact h4.closes s hs l hcl
          · simpa using closeCount_zero_of_no_notif _ l (no_frame_for_fresh h4 _ l hcl _ hfresh)
        · intro i j si sj hi hj hij
          have old : ∀ (n : Nat) (t : Sub),
              (st.subs ++ [({ conn := c, meth := m, subId := sid, reqId := rid, handlerDone := rawMeth m, taskDone := rawMeth m } : Sub)])[n]? = some t →
              st.subs[n]? = some t ∨ (n = st.subs.length ∧ t.subId = sid) := by
            intro n t hn
            rw [List.getElem?_append] at hn
            split at hn
            · exact Or.inl hn
            · cases hnn : n - st.subs.length with
              | zero => simp [hnn] at hn; exact Or.inr ⟨by omega, by rw [← hn]⟩
              | succ q => simp [hnn] at hn
          rcases old i si hi with hi0 | ⟨ei, es⟩ <;> rcases old j sj hj with hj0 | ⟨ej, et⟩
          · exact h4.uniq i j si sj hi0 hj0 hij
          · exact absurd (by rw [hij, et]) (hfresh si (List.mem_iff_getElem?.mpr ⟨i, hi0⟩))
          · exact absurd (by rw [← hij, es]) (hfresh sj (List.mem_iff_getElem?.mpr ⟨j, hj0⟩))
          · omega

theorem inv4_connOnly {st : State} (h4 : Inv4 st) {c : Nat} {cn cn' : Conn}
    (hc : st.conns[c]? = some cn) (hhist : cn'.hist = cn.hist) : Inv4 (putConn st c cn') :=
  inv4_putConn h4 hc [] (by simp [hhist]) (by simp)

theorem inv4_step {st : State} (h : Inv st) (h4 : Inv4 st) (op : Op) (hf : freshOp st op) :
    Inv4 (step st op).1 := by
  cases op with
  | subscribe c m rid sid => exact inv4_subscribe h4 c m rid sid hf
  | cancelCall k =>
    simp only [step, doCancelCall]
    split
    · exact h4
    · rename_i s cn hl
      split
      · exact h4
      · exact inv4_quiet h h4 hl rfl rfl rfl rfl rfl rfl rfl rfl
  | accept k => exact inv4_accept h h4 k
  | reject k code => exact inv4_refuse h h4 k code .rejected (by decide)
  | dropPending k => exact inv4_refuse h h4 k internalCode .dropped (by decide)
  | send k p => exact inv4_send h h4 k p
  | sendResume k p => exact inv4_sendResume h h4 k p
  | cloneSink k => exact inv4_clone h h4 k
  | dropSink k => exact inv4_dropSink h h4 k
  | isClosed k =>
    simp only [step, doIsClosed]
    split
    · exact h4
    · split <;> exact h4
  | handlerReturn k r => exact inv4_return h h4 k r
  | taskStep k => exact inv4_task h h4 k
  | unsubscribe c m x rid => exact inv4_unsubscribe h h4 c m x rid
  | unsubscribeBad c rid =>
    simp only [step, doUnsubscribeBad]
    split
    · exact h4
    · rename_i cn hc
      split
      · exact h4
      · split
        · exact h4
        · exact inv4_putConn h4 hc [.unsub rid false] (by simp) (by simp [Frame.owned])
  | connClose c =>
    simp only [step, doConnClose]
    split
    · exact h4
    · rename_i cn hc; exact inv4_connOnly h4 hc rfl
  | stop =>
    refine inv4_congr h4 rfl ?_
    intro c
    simp only [histAt, step, doStop, List.getElem?_map]
    cases st.conns[c]? <;> simp [Conn.hist]
  | connFinish c =>
    simp only [step, doConnFinish]
    split
    · exact h4
    · rename_i cn hc
      split
      · exact inv4_connOnly h4 hc rfl
      · exact h4
  | writerStep c =>
    simp only [step, doWriter]
    split
    · exact h4
    · rename_i cn hc
      split
      · exact h4
      · split
        · exact h4
        · rename_i f q hq
          exact inv4_connOnly h4 hc (by simp [Conn.hist, hq])

def FreshRun (st : State) : List Op → Prop
  | [] => True
  | op :: r => freshOp st op ∧ FreshRun (step st op).1 r

instance (st : State) (op : Op) : Decidable (freshOp st op) := by
  cases op <;> simp only [freshOp] <;> infer_instance

def decFresh : (st : State) → (ops : List Op) → Decidable (FreshRun st ops)
  | _, [] => isTrue trivial
  | st, op :: r =>
    have := decFresh (step st op).1 r
    by simp only [FreshRun]; infer_instance

instance (st : State) (ops : List Op) : Decidable (FreshRun st ops) := decFresh st ops

/-- reachable with an id provider that never repeats an id (counter, random): the setting of the
frame-level theorems, which identify a subscription by the id on the wire -/
def ReachableF (st : State) : Prop := ∃ cfg ops, st = run (init cfg) ops ∧ FreshRun (init cfg) ops

theorem run_inv4 (ops : List Op) : ∀ (st : State), Inv st → Inv4 st → FreshRun st ops → Inv4 (run st ops) := by
  induction ops with
  | nil => intro st _ h4 _; exact h4
  | cons op r ih => intro st h h4 hf; exact ih _ (inv_step h op) (inv4_step h h4 op hf.1) hf.2

theorem reachableF_inv4 {st : State} (hr : ReachableF st) : Inv4 st := by
  obtain ⟨cfg, ops, rfl, hf⟩ := hr
  exact run_inv4 ops _ (inv_init cfg) (inv4_init cfg) hf

theorem reachableF_reachable {st : State} (h : ReachableF st) : Reachable st := by
  obtain ⟨cfg, ops, e, _⟩ := h; exact ⟨cfg, ops, e⟩

theorem reachableF_step {st : State} (h : ReachableF st) (op : Op) (hf : freshOp st op) :
    ReachableF (step st op).1 := by
  obtain ⟨cfg, ops, rfl, hd⟩ := h
  refine ⟨cfg, ops ++ [op], ?_, ?_⟩
  · have : ∀ (s : State) (l : List Op), run s (l ++ [op]) = (step (run s l) op).1 := by
      intro s l
      induction l generalizing s with
      | nil => rfl
      | cons o r ih => exact ih _
    exact (this _ _).symm
  · have : ∀ (s : State) (l : List Op), FreshRun s l → freshOp (run s l) op → FreshRun s (l ++ [op]) := by
      intro s l
      induction l generalizing s with
      | nil => intro _ h2; exact ⟨h2, trivial⟩
      | cons o r ih => intro h1 h2; exact ⟨h1.1, ih _ h1.2 h2⟩
    exact this _ _ hd hf

/-! ### the shape of a step: what any operation can do to a subscription record / a connection -/

/-- how the record of subscription `k` may change in one step -/
structure SubRel (op : Op) (out : Out) (k : Nat) (s s' : Sub) : Prop where
  conn : s'.conn = s.conn
  meth : s'.meth = s.meth
  subId : s'.subId = s.subId
  reqId : s'.reqId = s.reqId
  unsub : s.unsubscribed = true → s'.unsubscribed = true
  acc : s.phase = .accepted → s'.phase = .accepted
  closeSent : s.closeSent = true → s'.closeSent = true
  /-- `produced` changes only by a successful `send k p` (or the resumption of a parked one), which
  appends `p` -/
  prod : s'.produced = s.produced ∨
    ∃ p, (op = .send k p ∨ op = .sendResume k p) ∧ out = .ok ∧ s'.produced = s.produced ++ [p]

/-- how a connection may change in one step: never reopened, history only grows -/
structure ConnRel (cn cn' : Conn) : Prop where
  closed : cn.isOpen = false → cn'.isOpen = false
  stopping : cn.stopping = true → cn'.stopping = true
  cap : cn'.cap = cn.cap
  qcap : cn'.qcap = cn.qcap
  hist : ∃ fs, cn'.hist = cn.hist ++ fs

theorem SubRel.rfl' {op : Op} {out : Out} {k : Nat} {s : Sub} : SubRel op out k s s :=
  ⟨rfl, rfl, rfl, rfl, id, id, id, Or.inl rfl⟩

theorem ConnRel.rfl' {cn : Conn} : ConnRel cn cn := ⟨id, id, rfl, rfl, ⟨[], by simp⟩⟩

inductive Shape (st : State) (op : Op) (out : Out) : State → Prop
  | same : Shape st op out st
  | put {k : Nat} {s s' : Sub} {cn cn' : Conn} : lookup st k = some (s, cn) → SubRel op out k s s' →
      ConnRel cn cn' → Shape st op out (put st k s' cn')
  | putConn {c : Nat} {cn cn' : Conn} : st.conns[c]? = some cn → ConnRel cn cn' →
      Shape st op out (putConn st c cn')
  /-- accept: the entry of a previous owner of the key (if any) is overwritten -/
  | putD {k : Nat} {s s' : Sub} {cn cn' : Conn} {c m x : Nat} : lookup st k = some (s, cn) →
      SubRel op out k s s' → ConnRel cn cn' →
      Shape st op out (put { st with subs := st.subs.map (displace c m x) } k s' cn')
  | newSub {c : Nat} {cn cn' : Conn} {t : Sub} : st.conns[c]? = some cn → ConnRel cn cn' →
      Shape st op out ⟨st.conns.set c cn', st.subs ++ [t]⟩
  | stopAll : Shape st op out (doStop st).1

theorem connRel_push (cn : Conn) (f : Frame) : ConnRel cn (cn.push f) :=
  ⟨id, id, rfl, rfl, ⟨[f], by simp⟩⟩
theorem connRel_release (cn : Conn) : ConnRel cn cn.release := ⟨id, id, rfl, rfl, ⟨[], by simp⟩⟩
theorem connRel_push_release (cn : Conn) (f : Frame) : ConnRel cn (cn.push f).release :=
  ⟨id, id, rfl, rfl, ⟨[f], by simp⟩⟩
theorem connRel_close (cn : Conn) : ConnRel cn { cn with isOpen := false } :=
  ⟨fun _ => rfl, id, rfl, rfl, ⟨[], by simp [Conn.hist]⟩⟩

theorem step_shape (st : State) (op : Op) : Shape st op (step st op).2 (step st op).1 := by
  cases op with
  | subscribe c m rid sid =>
    simp only [step, doSubscribe]
    split
    · exact .same
    · rename_i cn hc
      split
      · exact .same
      · split
        · split
          · exact .putConn hc (connRel_push _ _)
          · exact .same
        · exact .newSub hc ⟨id, id, rfl, rfl, ⟨[], by simp [Conn.hist]⟩⟩
  | cancelCall k =>
    simp only [step, doCancelCall]
    split
    · exact .same
    · rename_i s cn hl
      split
      · exact .same
      · exact .put hl ⟨rfl, rfl, rfl, rfl, id, id, id, Or.inl rfl⟩ ConnRel.rfl'
  | accept k =>
    simp only [step, doAccept]
    split
    · exact .same
    · rename_i s cn hl
      split
      · exact .same
      · rename_i hph
        have hph : s.phase = .pending := by simpa using hph
        split
        · exact .put hl ⟨rfl, rfl, rfl, rfl, id, by simp [hph], id, Or.inl rfl⟩ (connRel_release _)
        · split
          · exact .same
          · split
            · exact .put hl ⟨rfl, rfl, rfl, rfl, id, by simp [hph], id, Or.inl rfl⟩ (connRel_push_release _ _)
            · exact .putD hl ⟨rfl, rfl, rfl, rfl, id, fun _ => rfl, id, Or.inl rfl⟩ (connRel_push _ _)
  | reject k code =>
    simp only [step, doRefuse]
    split
    · exact .same
    · rename_i s cn hl
      split
      · exact .same
      · rename_i hph
        have hph : s.phase = .pending := by simpa using hph
        split
        · exact .same
        · refine .put hl ⟨rfl, rfl, rfl, rfl, id, by simp [hph], id, Or.inl rfl⟩ ?_
          split
          · exact connRel_push_release _ _
          · exact connRel_release _
  | dropPending k =>
    simp only [step, doRefuse]
    split
    · exact .same
    · rename_i s cn hl
      split
      · exact .same
      · rename_i hph
        have hph : s.phase = .pending := by simpa using hph
        split
        · exact .same
        · refine .put hl ⟨rfl, rfl, rfl, rfl, id, by simp [hph], id, Or.inl rfl⟩ ?_
          split
          · exact connRel_push_release _ _
          · exact connRel_release _
  | send k p =>
    simp only [step, doSend]
    split
    · exact .same
    · rename_i s cn hl
      split
      · exact .same
      · split
        · exact .same
        · split
          · exact .same
          · exact .put hl ⟨rfl, rfl, rfl, rfl, id, id, id, Or.inr ⟨p, Or.inl rfl, rfl, rfl⟩⟩ (connRel_push _ _)
  | sendResume k p =>
    simp only [step, doSendResume]
    split
    · exact .same
    · rename_i s cn hl
      split
      · exact .same
      · split
        · exact .same
        · split
          · exact .same
          · exact .put hl ⟨rfl, rfl, rfl, rfl, id, id, id, Or.inr ⟨p, Or.inr rfl, rfl, rfl⟩⟩ (connRel_push _ _)
  | cloneSink k =>
    simp only [step, doClone]
    split
    · exact .same
    · rename_i s cn hl
      split
      · exact .same
      · exact .put hl ⟨rfl, rfl, rfl, rfl, id, id, id, Or.inl rfl⟩ ConnRel.rfl'
  | dropSink k =>
    simp only [step, doDropSink]
    split
    · exact .same
    · rename_i s cn hl
      split
      · exact .same
      · refine .put hl ⟨rfl, rfl, rfl, rfl, id, id, id, Or.inl rfl⟩ ?_
        split
        · exact connRel_release _
        · exact ConnRel.rfl'
  | isClosed k =>
    simp only [step, doIsClosed]
    split
    · exact .same
    · split <;> exact .same
  | handlerReturn k r =>
    simp only [step, doReturn]
    split
    · exact .same
    · rename_i s cn hl
      split
      · exact .same
      · exact .put hl ⟨rfl, rfl, rfl, rfl, id, id, id, Or.inl rfl⟩ ConnRel.rfl'
  | taskStep k =>
    simp only [step, doTask]
    split
    · exact .same
    · rename_i s cn hl
      split
      · exact .same
      · split
        · exact .put hl ⟨rfl, rfl, rfl, rfl, id, id, id, Or.inl rfl⟩ ConnRel.rfl'
        · split
          · exact .put hl ⟨rfl, rfl, rfl, rfl, id, id, id, Or.inl rfl⟩ ConnRel.rfl'
          · split
            · exact .same
            · exact .put hl ⟨rfl, rfl, rfl, rfl, id, id, fun _ => rfl, Or.inl rfl⟩ (connRel_push _ _)
  | unsubscribe c m x rid =>
    simp only [step, doUnsubscribe]
    split
    · exact .same
    · rename_i cn hc
      split
      · exact .same
      · split
        · exact .same
        · split
          · exact .putConn hc (connRel_push _ _)
          · rename_i k hf
            obtain ⟨s, hs, hp⟩ := findIdx_some hf
            simp only [tableKey, sameKey, Bool.and_eq_true, beq_iff_eq] at hp
            rw [hs]
            have hl : lookup st k = some (s, cn) := by simp [lookup, hs, hp.1.1.1, hc]
            exact .put hl ⟨rfl, rfl, rfl, rfl, fun _ => rfl, id, id, Or.inl rfl⟩ (connRel_push _ _)
  | unsubscribeBad c rid =>
    simp only [step, doUnsubscribeBad]
    split
    · exact .same
    · rename_i cn hc
      split
      · exact .same
      · split
        · exact .same
        · exact .putConn hc (connRel_push _ _)
  | connClose c =>
    simp only [step, doConnClose]
    split
    · exact .same
    · rename_i cn hc; exact .putConn hc (connRel_close _)
  | stop => exact .stopAll
  | connFinish c =>
    simp only [step, doConnFinish]
    split
    · exact .same
    · rename_i cn hc
      split
      · exact .putConn hc (connRel_close _)
      · exact .same
  | writerStep c =>
    simp only [step, doWriter]
    split
    · exact .same
    · rename_i cn hc
      split
      · exact .same
      · split
        · exact .same
        · rename_i f q hq
          exact .putConn hc ⟨id, id, rfl, rfl, ⟨[], by simp [Conn.hist, hq]⟩⟩

/-- every subscription record persists across a step, changed at most as `SubRel` allows -/
theorem sub_persist {st : State} (op : Op) {k : Nat} {s : Sub} (hs : st.subs[k]? = some s) :
    ∃ s', (step st op).1.subs[k]? = some s' ∧ SubRel op (step st op).2 k s s' := by
  have hk : k < st.subs.length := by
    rcases List.getElem?_eq_some_iff.mp hs with ⟨hh, _⟩; exact hh
  have hsh := step_shape st op
  generalize (step st op).2 = out at hsh ⊢
  generalize (step st op).1 = st' at hsh ⊢
  cases hsh with
  | same => exact ⟨s, hs, SubRel.rfl'⟩
  | @put k2 s2 s2' cn cn' hl hrel _ =>
    obtain ⟨hs2, _⟩ := lookup_some hl
    by_cases e : k2 = k
    · subst e
      rw [hs] at hs2; cases hs2
      exact ⟨s2', by simp [put, hk], hrel⟩
    · exact ⟨s, by simp [put, List.getElem?_set_ne e, hs], SubRel.rfl'⟩
  | @putD k2 s2 s2' cn cn' c m x hl hrel _ =>
    obtain ⟨hs2, _⟩ := lookup_some hl
    by_cases e : k2 = k
    · subst e
      rw [hs] at hs2; cases hs2
      exact ⟨s2', by simp [put, hk], hrel⟩
    · refine ⟨displace c m x s, by simp [put, List.getElem?_set_ne e, List.getElem?_map, hs], ?_⟩
      unfold displace
      split
      · exact ⟨rfl, rfl, rfl, rfl, id, id, id, Or.inl rfl⟩
      · exact SubRel.rfl'
  | putConn _ _ => exact ⟨s, by simpa [putConn] using hs, SubRel.rfl'⟩
  | newSub _ _ => exact ⟨s, by rw [List.getElem?_append_left hk]; exact hs, SubRel.rfl'⟩
  | stopAll => exact ⟨s, by simpa [doStop] using hs, SubRel.rfl'⟩

/-- every connection persists across a step, changed at most as `ConnRel` allows -/
theorem conn_persist {st : State} (op : Op) {c : Nat} {cn : Conn} (hc : st.conns[c]? = some cn) :
    ∃ cn', (step st op).1.conns[c]? = some cn' ∧ ConnRel cn cn' := by
  have hlen : c < st.conns.length := by
    rcases List.getElem?_eq_some_iff.mp hc with ⟨hh, _⟩; exact hh
  have hsh := step_shape st op
  generalize (step st op).2 = out at hsh
  generalize (step st op).1 = st' at hsh ⊢
  cases hsh with
  | same => exact ⟨cn, hc, ConnRel.rfl'⟩
  | @put k2 s2 s2' cn2 cn2' hl hrel hcr =>
    obtain ⟨_, hc2⟩ := lookup_some hl
    by_cases e : s2'.conn = c
    · have : cn2 = cn := by rw [hrel.conn] at e; rw [e, hc] at hc2; cases hc2; rfl
      subst this
      exact ⟨cn2', by simp [put, e, hlen], hcr⟩
    · exact ⟨cn, by simp [put, List.getElem?_set_ne e, hc], ConnRel.rfl'⟩
  | @putD k2 s2 s2' cn2 cn2' c3 m3 x3 hl hrel hcr =>
    obtain ⟨_, hc2⟩ := lookup_some hl
    by_cases e : s2'.conn = c
    · have : cn2 = cn := by rw [hrel.conn] at e; rw [e, hc] at hc2; cases hc2; rfl
      subst this
      exact ⟨cn2', by simp [put, e, hlen], hcr⟩
    · exact ⟨cn, by simp [put, List.getElem?_set_ne e, hc], ConnRel.rfl'⟩
  | @putConn c2 cn2 cn2' hc2 hcr =>
    by_cases e : c2 = c
    · subst e
      rw [hc] at hc2; cases hc2
      exact ⟨cn2', by simp [putConn, hlen], hcr⟩
    · exact ⟨cn, by simp [putConn, List.getElem?_set_ne e, hc], ConnRel.rfl'⟩
  | @newSub c2 cn2 cn2' t hc2 hcr =>
    by_cases e : c2 = c
    · subst e
      rw [hc] at hc2; cases hc2
      exact ⟨cn2', by simp [hlen], hcr⟩
    · exact ⟨cn, by simp [List.getElem?_set_ne e, hc], ConnRel.rfl'⟩
  | stopAll =>
    exact ⟨{ cn with stopping := true }, by simp [doStop, List.getElem?_map, hc],
      ⟨id, fun _ => rfl, rfl, rfl, ⟨[], by simp [Conn.hist]⟩⟩⟩

end Jrpc.SubServer
