/-
  Invariants of the server subscription machine (Model/SubServer.lean), proved for every
  operation and lifted to all operation sequences (`reachable_inv`).  Used by Theorems/C06.lean
  and Theorems/C04.lean.
-/
import JrpcVerif.Model.SubServer
namespace Jrpc.SubServer

/-! ### list helpers -/

theorem countP_set {α} (p : α → Bool) (l : List α) (k : Nat) (a b : α) (h : l[k]? = some a) :
    (l.set k b).countP p + (if p a then 1 else 0) = l.countP p + (if p b then 1 else 0) := by
  induction l generalizing k with
  | nil => simp at h
  | cons x r ih =>
    cases k with
    | zero =>
      simp at h; subst h
      simp [List.countP_cons]; omega
    | succ k =>
      simp at h
      have := ih k h
      simp [List.countP_cons]; omega

theorem getElem?_set_cases {α} {l : List α} {k i : Nat} {b x : α} (h : (l.set k b)[i]? = some x) :
    (i = k ∧ x = b) ∨ (i ≠ k ∧ l[i]? = some x) := by
  rw [List.getElem?_set] at h
  by_cases hk : k = i
  · subst hk
    simp at h
    exact Or.inl ⟨rfl, h.2.symm⟩
  · simp [hk] at h
    exact Or.inr ⟨fun e => hk e.symm, h⟩

theorem countP_set_same {α} (p : α → Bool) (l : List α) (k : Nat) (a b : α) (h : l[k]? = some a)
    (hp : p b = p a) : (l.set k b).countP p = l.countP p := by
  have := countP_set p l k a b h
  rw [hp] at this; omega

theorem findIdx_some {p : Sub → Bool} {l : List Sub} {k : Nat} (h : findIdx p l = some k) :
    ∃ s, l[k]? = some s ∧ p s = true := by
  induction l generalizing k with
  | nil => simp [findIdx] at h
  | cons x r ih =>
    simp only [findIdx] at h
    split at h
    · simp at h; subst h; exact ⟨x, by simp, by assumption⟩
    · cases hr : findIdx p r with
      | none => simp [hr] at h
      | some j =>
        simp [hr] at h; subst h
        obtain ⟨s, hs, hp⟩ := ih hr
        exact ⟨s, by simpa using hs, hp⟩

theorem findIdx_none {p : Sub → Bool} {l : List Sub} (h : findIdx p l = none) :
    ∀ s ∈ l, p s = false := by
  induction l with
  | nil => simp
  | cons x r ih =>
    simp only [findIdx] at h
    split at h
    · simp at h
    · cases hr : findIdx p r with
      | none =>
        intro s hs
        cases hs with
        | head => simpa using ‹¬ p x = true›
        | tail _ hm => exact ih hr s hm
      | some j => simp [hr] at h

/-! ### typed ids: the embedding into keys is injective -/

theorem pow2_odd_inj : ∀ (a b k l : Nat), 2 ^ a * (2 * k + 1) = 2 ^ b * (2 * l + 1) → a = b ∧ k = l := by
  intro a
  induction a with
  | zero =>
    intro b k l h
    cases b with
    | zero => simp at h; exact ⟨rfl, by omega⟩
    | succ b =>
      exfalso
      rw [Nat.pow_succ] at h
      have : 2 ^ b * 2 * (2 * l + 1) = 2 * (2 ^ b * (2 * l + 1)) := by
        rw [Nat.mul_comm (2 ^ b) 2, Nat.mul_assoc]
      rw [this] at h
      simp at h
      omega
  | succ a ih =>
    intro b k l h
    cases b with
    | zero =>
      exfalso
      rw [Nat.pow_succ] at h
      have : 2 ^ a * 2 * (2 * k + 1) = 2 * (2 ^ a * (2 * k + 1)) := by
        rw [Nat.mul_comm (2 ^ a) 2, Nat.mul_assoc]
      rw [this] at h
      simp at h
      omega
    | succ b =>
      rw [Nat.pow_succ, Nat.pow_succ] at h
      have e1 : 2 ^ a * 2 * (2 * k + 1) = 2 * (2 ^ a * (2 * k + 1)) := by
        rw [Nat.mul_comm (2 ^ a) 2, Nat.mul_assoc]
      have e2 : 2 ^ b * 2 * (2 * l + 1) = 2 * (2 ^ b * (2 * l + 1)) := by
        rw [Nat.mul_comm (2 ^ b) 2, Nat.mul_assoc]
      rw [e1, e2] at h
      have h' : 2 ^ a * (2 * k + 1) = 2 ^ b * (2 * l + 1) := by omega
      obtain ⟨r1, r2⟩ := ih b k l h'
      exact ⟨by omega, r2⟩

theorem codeText_pos (c : Nat) (r : Text) : codeText (c :: r) > 0 := by
  simp only [codeText]
  exact Nat.mul_pos (Nat.pow_pos (by omega)) (by omega)

theorem codeText_injective : ∀ (s t : Text), codeText s = codeText t → s = t := by
  intro s
  induction s with
  | nil =>
    intro t h
    cases t with
    | nil => rfl
    | cons c r => have := codeText_pos c r; rw [← h] at this; simp [codeText] at this
  | cons a r ih =>
    intro t h
    cases t with
    | nil => have := codeText_pos a r; rw [h] at this; simp [codeText] at this
    | cons b q =>
      simp only [codeText] at h
      obtain ⟨e1, e2⟩ := pow2_odd_inj a b _ _ h
      rw [e1, ih q e2]

/-- different typed ids are different keys; in particular `Num n` and `Str "n"` never coincide -/
theorem idKey_injective (a b : SubId) (h : idKey a = idKey b) : a = b := by
  cases a <;> cases b <;> simp only [idKey] at h
  · congr; omega
  · omega
  · omega
  · congr; exact codeText_injective _ _ (by omega)

theorem idKey_num_ne_str (n : Nat) (s : Text) : idKey (.num n) ≠ idKey (.str s) := by
  simp only [idKey]; omega

/-! ### the invariant -/

/-- per-subscription facts -/
structure SubOk (s : Sub) : Prop where
  table : s.inTable = true ↔
    (s.phase = .accepted ∧ s.unsubscribed = false ∧ s.clones > 0 ∧ s.orphaned = false ∧ s.displaced = false)
  clonesAcc : s.clones > 0 → s.phase = .accepted
  unsubAcc : s.unsubscribed = true → s.phase = .accepted
  closeAcc : s.closeSent = true → s.phase = .accepted
  orphAcc : s.orphaned = true → s.phase = .accepted
  closeTask : s.closeSent = true → s.taskDone = true
  closeHandler : s.closeSent = true → s.handlerDone = true
  displAcc : s.displaced = true → s.phase = .accepted

/-- subscriptions of connection `c` that hold one of its permits -/
def held (st : State) (c : Nat) : Nat := st.subs.countP (fun s => s.conn == c && s.holds)

structure Inv (st : State) : Prop where
  connOk : ∀ s ∈ st.subs, s.conn < st.conns.length
  /-- the subscriber table is a map: at most one record owns the entry under a key -/
  tableUniq : ∀ (i j : Nat) (si sj : Sub), st.subs[i]? = some si → st.subs[j]? = some sj →
    si.inTable = true → sj.inTable = true → sameKey si.conn si.meth si.subId sj = true → i = j
  subOk : ∀ s ∈ st.subs, SubOk s
  permit : ∀ c cn, st.conns[c]? = some cn → cn.permitsFree + held st c = cn.cap

theorem lookup_some {st : State} {k : Nat} {s : Sub} {cn : Conn} (h : lookup st k = some (s, cn)) :
    st.subs[k]? = some s ∧ st.conns[s.conn]? = some cn := by
  unfold lookup at h
  split at h
  · simp at h
  · split at h
    · simp at h
    · simp at h; obtain ⟨h1, h2⟩ := h; subst h1; subst h2; exact ⟨by assumption, by assumption⟩

theorem inv_init (cfg : List (Nat × Nat)) : Inv (init cfg) := by
  refine ⟨by simp [init], by simp [init], by simp [init], ?_⟩
  intro c cn h
  simp [init, List.getElem?_map] at h
  obtain ⟨a, b, _, rfl⟩ := h
  simp [held, init, mkConn]

/-- writing back a subscription together with its connection preserves the invariant if the
local conditions hold -/
theorem inv_put {st : State} (h : Inv st) {k : Nat} {s s' : Sub} {cn cn' : Conn}
    (hl : lookup st k = some (s, cn))
    (hconn : s'.conn = s.conn) (hmeth : s'.meth = s.meth) (hid : s'.subId = s.subId)
    (htab : s'.inTable = true → s.inTable = true ∨
      ∀ j t, j ≠ k → st.subs[j]? = some t → t.inTable = true → sameKey s.conn s.meth s.subId t = false)
    (hok : SubOk s')
    (hcap : cn'.cap = cn.cap)
    (hperm : cn'.permitsFree + (if s'.holds then 1 else 0) = cn.permitsFree + (if s.holds then 1 else 0)) :
    Inv (put st k s' cn') := by
  obtain ⟨hs, hc⟩ := lookup_some hl
  have hmem : s ∈ st.subs := List.mem_iff_getElem?.mpr ⟨k, hs⟩
  have key_symm : ∀ a b : Sub, sameKey a.conn a.meth a.subId b = true → sameKey b.conn b.meth b.subId a = true := by
    intro a b hab
    simp only [sameKey, Bool.and_eq_true, beq_iff_eq] at hab ⊢
    omega
  refine ⟨?_, ?_, ?_, ?_⟩
  · intro x hx
    simp only [put, List.length_set] at hx ⊢
    rcases List.mem_or_eq_of_mem_set hx with hx | rfl
    · exact h.connOk x hx
    · rw [hconn]; exact h.connOk s hmem
  · intro i j si sj hi hj ti tj hij
    simp only [put] at hi hj
    rcases getElem?_set_cases hi with ⟨e1, e2⟩ | ⟨hik, hi'⟩ <;>
      rcases getElem?_set_cases hj with ⟨e3, e4⟩ | ⟨hjk, hj'⟩
    · omega
    · -- i = k (new record), j old
      rw [e2] at ti hij
      rw [hconn, hmeth, hid] at hij
      rcases htab ti with hold | hnone
      · rw [e1]; exact h.tableUniq _ _ _ _ hs hj' hold tj hij
      · rw [hnone j sj hjk hj' tj] at hij; cases hij
    · rw [e4] at tj hij
      have hij' : sameKey s.conn s.meth s.subId si = true := by
        have := key_symm si s' hij
        rwa [hconn, hmeth, hid] at this
      rcases htab tj with hold | hnone
      · rw [e3]; exact h.tableUniq _ _ _ _ hi' hs ti hold (key_symm s si hij')
      · rw [hnone i si hik hi' ti] at hij'; cases hij'
    · exact h.tableUniq _ _ _ _ hi' hj' ti tj hij
  · intro x hx
    simp only [put] at hx
    rcases List.mem_or_eq_of_mem_set hx with hx | rfl
    · exact h.subOk x hx
    · exact hok
  · intro c cn2 hc2
    simp only [put, List.getElem?_set] at hc2
    have hcnt := countP_set (fun x => x.conn == c && x.holds) st.subs k s s' hs
    simp only [held, put]
    by_cases hcc : s'.conn = c
    · have hlen : s'.conn < st.conns.length := by rw [hconn]; exact h.connOk s hmem
      simp [hcc] at hc2
      have hlen' : c < st.conns.length := by omega
      simp [hlen'] at hc2
      subst hc2
      have hp := h.permit c cn (by rw [← hcc, hconn]; exact hc)
      simp only [held] at hp
      have e1 : s.conn = c := by rw [← hconn]; exact hcc
      simp [hcc, e1] at hcnt
      rw [hcap]
      omega
    · simp [hcc] at hc2
      have hp := h.permit c cn2 hc2
      simp only [held] at hp
      have e1 : ¬ s.conn = c := by rw [← hconn]; exact hcc
      simp [hcc, e1] at hcnt
      omega

/-- changing only queue / wire / flags of a connection -/
theorem inv_putConn {st : State} (h : Inv st) {c : Nat} {cn cn' : Conn}
    (hc : st.conns[c]? = some cn) (hcap : cn'.cap = cn.cap) (hperm : cn'.permitsFree = cn.permitsFree) :
    Inv (putConn st c cn') := by
  refine ⟨?_, h.tableUniq, h.subOk, ?_⟩
  · intro x hx
    simp only [putConn, List.length_set]
    exact h.connOk x hx
  · intro c2 cn2 hc2
    simp only [putConn, List.getElem?_set] at hc2
    simp only [held, putConn]
    by_cases hcc : c = c2
    · subst hcc
      have hlen : c < st.conns.length := by
        rcases List.getElem?_eq_some_iff.mp hc with ⟨hh, _⟩; exact hh
      simp [hlen] at hc2
      subst hc2
      have := h.permit c cn hc
      simp only [held] at this
      omega
    · simp [hcc] at hc2
      exact h.permit c2 cn2 hc2

theorem lookup_mem {st : State} {k : Nat} {s : Sub} {cn : Conn} (h : lookup st k = some (s, cn)) :
    s ∈ st.subs := List.mem_iff_getElem?.mpr ⟨k, (lookup_some h).1⟩

/-! ### every operation preserves the invariant -/

theorem SubOk.notAcc {s : Sub} (ok : SubOk s) (h : s.phase ≠ .accepted) :
    s.clones = 0 ∧ s.inTable = false ∧ s.unsubscribed = false ∧ s.closeSent = false ∧
      s.orphaned = false ∧ s.displaced = false := by
  refine ⟨?_, ?_, ?_, ?_, ?_, ?_⟩
  · rcases Nat.eq_zero_or_pos s.clones with h0 | h0
    · exact h0
    · exact absurd (ok.clonesAcc h0) h
  · cases hi : s.inTable with
    | false => rfl
    | true => exact absurd (ok.table.mp hi).1 h
  · cases hu : s.unsubscribed with
    | false => rfl
    | true => exact absurd (ok.unsubAcc hu) h
  · cases hu : s.closeSent with
    | false => rfl
    | true => exact absurd (ok.closeAcc hu) h
  · cases hu : s.orphaned with
    | false => rfl
    | true => exact absurd (ok.orphAcc hu) h
  · cases hu : s.displaced with
    | false => rfl
    | true => exact absurd (ok.displAcc hu) h

theorem displace_key (c m x : Nat) (t : Sub) :
    (displace c m x t).conn = t.conn ∧ (displace c m x t).meth = t.meth ∧ (displace c m x t).subId = t.subId ∧
      (displace c m x t).holds = t.holds := by
  unfold displace
  split <;> simp [Sub.holds]

theorem displace_inTable {c m x : Nat} {t : Sub} (h : (displace c m x t).inTable = true) :
    displace c m x t = t ∧ t.inTable = true ∧ sameKey c m x t = false := by
  unfold displace at h ⊢
  split at h
  · simp at h
  · rename_i hn
    refine ⟨by simp [hn], h, ?_⟩
    cases hk : sameKey c m x t with
    | false => rfl
    | true => simp [hk, h] at hn

/-- overwriting the entry under a key (what `insert` does to a previous owner) preserves the invariant -/
theorem inv_displace {st : State} (h : Inv st) (c m x : Nat) :
    Inv { st with subs := st.subs.map (displace c m x) } := by
  refine ⟨?_, ?_, ?_, ?_⟩
  · intro t ht
    simp only [List.mem_map] at ht
    obtain ⟨t0, ht0, rfl⟩ := ht
    rw [(displace_key c m x t0).1]
    exact h.connOk t0 ht0
  · intro i j si sj hi hj ti tj hij
    simp only [List.getElem?_map] at hi hj
    cases hi0 : st.subs[i]? with
    | none => simp [hi0] at hi
    | some a =>
      cases hj0 : st.subs[j]? with
      | none => simp [hj0] at hj
      | some b =>
        simp [hi0] at hi; simp [hj0] at hj
        subst hi; subst hj
        obtain ⟨ea, ta, _⟩ := displace_inTable ti
        obtain ⟨eb, tb, _⟩ := displace_inTable tj
        rw [ea, eb] at hij
        exact h.tableUniq i j a b hi0 hj0 ta tb hij
  · intro t ht
    simp only [List.mem_map] at ht
    obtain ⟨t0, ht0, rfl⟩ := ht
    have ok := h.subOk t0 ht0
    unfold displace
    split
    · rename_i hd
      have hin : t0.inTable = true := by simp at hd; exact hd.2
      have hacc := (ok.table.mp hin).1
      exact ⟨by simp, ok.clonesAcc, ok.unsubAcc, ok.closeAcc, ok.orphAcc, ok.closeTask, ok.closeHandler,
        fun _ => hacc⟩
    · exact ok
  · intro c2 cn hc
    have := h.permit c2 cn hc
    simp only [held] at this ⊢
    rw [List.countP_map]
    have e : ((fun s => s.conn == c2 && s.holds) ∘ displace c m x) = (fun s => s.conn == c2 && s.holds) := by
      funext t
      simp only [Function.comp]
      rw [(displace_key c m x t).1, (displace_key c m x t).2.2.2]
    rw [e]
    exact this

theorem inv_accept {st : State} (h : Inv st) (k : Nat) : Inv (doAccept st k).1 := by
  unfold doAccept
  split
  · exact h
  · rename_i s cn hl
    have ok := h.subOk s (lookup_mem hl)
    obtain ⟨hs, hc⟩ := lookup_some hl
    split
    · exact h
    · rename_i hph
      have hph : s.phase = .pending := by simpa using hph
      obtain ⟨f1, f2, f3, f4, f5, f6⟩ := ok.notAcc (by simp [hph])
      split
      · refine inv_put h hl rfl rfl rfl (by intro hh; simp [f2] at hh) ?_ ?_ ?_
        · constructor <;> simp_all
        · rfl
        · simp [Conn.release, Sub.holds, hph, f1]
      · split
        · exact h
        · split
          · refine inv_put h hl rfl rfl rfl (by intro hh; simp [f2] at hh) ?_ ?_ ?_
            · constructor <;> simp_all
            · rfl
            · simp [Conn.release, Conn.push, Sub.holds, hph, f1]
          · have h1 := inv_displace h s.conn s.meth s.subId
            have hself : displace s.conn s.meth s.subId s = s := by simp [displace, f2]
            have hl1 : lookup { st with subs := st.subs.map (displace s.conn s.meth s.subId) } k = some (s, cn) := by
              simp [lookup, List.getElem?_map, hs, hself, hc]
            refine inv_put h1 hl1 rfl rfl rfl ?_ ?_ ?_ ?_
            · intro _
              right
              intro j t _ hj tin
              simp only [List.getElem?_map] at hj
              cases hj0 : st.subs[j]? with
              | none => simp [hj0] at hj
              | some t0 =>
                simp [hj0] at hj; subst hj
                obtain ⟨e, _, hk⟩ := displace_inTable tin
                rw [e]; exact hk
            · have := ok.table
              constructor <;> simp_all
            · rfl
            · simp [Conn.push, Sub.holds, hph]

theorem inv_refuse {st : State} (h : Inv st) (k : Nat) (code : Int) (ph : Phase) (hph' : ph ≠ .accepted)
    (hpp : ph ≠ .pending) : Inv (doRefuse st k code ph).1 := by
  unfold doRefuse
  split
  · exact h
  · rename_i s cn hl
    have ok := h.subOk s (lookup_mem hl)
    split
    · exact h
    · rename_i hph
      have hph : s.phase = .pending := by simpa using hph
      obtain ⟨f1, f2, f3, f4, f5, f6⟩ := ok.notAcc (by simp [hph])
      split
      · exact h
      · refine inv_put h hl rfl rfl rfl (by intro hh; simp [f2] at hh) ?_ ?_ ?_
        · constructor <;> simp_all
        · split <;> rfl
        · have : (ph == Phase.pending) = false := by simpa using hpp
          split <;> simp [Conn.release, Conn.push, Sub.holds, hph, f1, this]

theorem inv_send {st : State} (h : Inv st) (k p : Nat) : Inv (doSend st k p).1 := by
  unfold doSend
  split
  · exact h
  · rename_i s cn hl
    have ok := h.subOk s (lookup_mem hl)
    split
    · exact h
    · split
      · exact h
      · split
        · exact h
        · refine inv_put h hl rfl rfl rfl (fun hh => Or.inl hh) ?_ rfl ?_
          · exact ⟨ok.table, ok.clonesAcc, ok.unsubAcc, ok.closeAcc, ok.orphAcc, ok.closeTask, ok.closeHandler, ok.displAcc⟩
          · simp [Conn.push, Sub.holds]

theorem inv_sendResume {st : State} (h : Inv st) (k p : Nat) : Inv (doSendResume st k p).1 := by
  unfold doSendResume
  split
  · exact h
  · rename_i s cn hl
    have ok := h.subOk s (lookup_mem hl)
    split
    · exact h
    · split
      · exact h
      · split
        · exact h
        · refine inv_put h hl rfl rfl rfl (fun hh => Or.inl hh) ?_ rfl ?_
          · exact ⟨ok.table, ok.clonesAcc, ok.unsubAcc, ok.closeAcc, ok.orphAcc, ok.closeTask, ok.closeHandler, ok.displAcc⟩
          · simp [Conn.push, Sub.holds]

theorem inv_clone {st : State} (h : Inv st) (k : Nat) : Inv (doClone st k).1 := by
  unfold doClone
  split
  · exact h
  · rename_i s cn hl
    have ok := h.subOk s (lookup_mem hl)
    split
    · exact h
    · rename_i hc
      have hc : s.clones > 0 := by
        have : ¬ s.clones = 0 := by simpa using hc
        omega
      refine inv_put h hl rfl rfl rfl (fun hh => Or.inl hh) ?_ rfl ?_
      · have := ok.table
        have := ok.clonesAcc hc
        refine ⟨?_, fun _ => this, ok.unsubAcc, ok.closeAcc, ok.orphAcc, ok.closeTask, ok.closeHandler, ok.displAcc⟩
        simp_all
      · have : s.clones + 1 > 0 := by omega
        simp [Sub.holds, hc, this]

/-- the only fact about the F-13 switch the invariant proofs use: the drop of the LAST handle
removes the entry (true of the current and of the fixed code) -/
theorem dropSink_last : dropSinkRemovesEntry 1 = true := rfl

theorem inv_dropSink {st : State} (h : Inv st) (k : Nat) : Inv (doDropSink st k).1 := by
  unfold doDropSink
  split
  · exact h
  · rename_i s cn hl
    have ok := h.subOk s (lookup_mem hl)
    split
    · exact h
    · rename_i hc
      have hc : s.clones > 0 := by
        have : ¬ s.clones = 0 := by simpa using hc
        omega
      have hacc := ok.clonesAcc hc
      refine inv_put h hl rfl rfl rfl (fun hh => Or.inl (by revert hh; cases s.inTable <;> simp)) ?_ ?_ ?_
      · have ht := ok.table
        refine ⟨?_, fun _ => hacc, ok.unsubAcc, ok.closeAcc, fun _ => hacc, ok.closeTask, ok.closeHandler, ok.displAcc⟩
        simp only []
        cases hi : s.inTable <;> cases hr : dropSinkRemovesEntry s.clones <;> simp_all
        · have : s.clones ≠ 1 := fun e => by rw [e, dropSink_last] at hr; cases hr
          omega
        · omega
      · split <;> rfl
      · split
        · rename_i h1
          have h1 : s.clones = 1 := by simpa using h1
          simp [Conn.release, Sub.holds, h1, hacc]
        · rename_i h1
          have h1 : ¬ s.clones = 1 := by simpa using h1
          have : s.clones - 1 > 0 := by omega
          simp [Sub.holds, hc, this]

theorem inv_return {st : State} (h : Inv st) (k : Nat) (r : Ret) : Inv (doReturn st k r).1 := by
  unfold doReturn
  split
  · exact h
  · rename_i s cn hl
    have ok := h.subOk s (lookup_mem hl)
    split
    · exact h
    · refine inv_put h hl rfl rfl rfl (fun hh => Or.inl hh) ?_ rfl ?_
      · exact ⟨ok.table, ok.clonesAcc, ok.unsubAcc, ok.closeAcc, ok.orphAcc, ok.closeTask, fun _ => rfl, ok.displAcc⟩
      · simp [Sub.holds]

theorem inv_task {st : State} (h : Inv st) (k : Nat) : Inv (doTask st k).1 := by
  unfold doTask
  split
  · exact h
  · rename_i s cn hl
    have ok := h.subOk s (lookup_mem hl)
    split
    · exact h
    · rename_i hg
      have hacc : s.phase = .accepted := by
        simp at hg; exact hg.1.1
      have hdone : s.handlerDone = true := by
        simp at hg; exact hg.1.2
      split
      · refine inv_put h hl rfl rfl rfl (fun hh => Or.inl hh) ?_ rfl ?_
        · exact ⟨ok.table, ok.clonesAcc, ok.unsubAcc, ok.closeAcc, ok.orphAcc, fun _ => rfl, fun _ => hdone, ok.displAcc⟩
        · simp [Sub.holds]
      · split
        · refine inv_put h hl rfl rfl rfl (fun hh => Or.inl hh) ?_ rfl ?_
          · exact ⟨ok.table, ok.clonesAcc, ok.unsubAcc, ok.closeAcc, ok.orphAcc, fun _ => rfl, fun _ => hdone, ok.displAcc⟩
          · simp [Sub.holds]
        · split
          · exact h
          · refine inv_put h hl rfl rfl rfl (fun hh => Or.inl hh) ?_ rfl ?_
            · exact ⟨ok.table, ok.clonesAcc, ok.unsubAcc, fun _ => hacc, ok.orphAcc, fun _ => rfl, fun _ => hdone, ok.displAcc⟩
            · simp [Sub.holds, Conn.push]

theorem inv_connClose {st : State} (h : Inv st) (c : Nat) : Inv (doConnClose st c).1 := by
  unfold doConnClose
  split
  · exact h
  · rename_i cn hc
    exact inv_putConn h hc rfl rfl

theorem inv_connFinish {st : State} (h : Inv st) (c : Nat) : Inv (doConnFinish st c).1 := by
  unfold doConnFinish
  split
  · exact h
  · rename_i cn hc
    split
    · exact inv_putConn h hc rfl rfl
    · exact h

theorem inv_writer {st : State} (h : Inv st) (c : Nat) : Inv (doWriter st c).1 := by
  unfold doWriter
  split
  · exact h
  · rename_i cn hc
    split
    · exact h
    · split
      · exact h
      · exact inv_putConn h hc rfl rfl

theorem inv_stop {st : State} (h : Inv st) : Inv (doStop st).1 := by
  refine ⟨?_, h.tableUniq, h.subOk, ?_⟩
  · intro x hx
    simp only [doStop, List.length_map]
    exact h.connOk x hx
  · intro c cn hc
    simp only [doStop, List.getElem?_map] at hc
    cases hcc : st.conns[c]? with
    | none => simp [hcc] at hc
    | some cn0 =>
      simp [hcc] at hc
      subst hc
      have := h.permit c cn0 hcc
      simpa [held, doStop] using this

theorem inv_subscribe {st : State} (h : Inv st) (c m rid sid : Nat) : Inv (doSubscribe st c m rid sid).1 := by
  unfold doSubscribe
  split
  · exact h
  · rename_i cn hc
    have hlen : c < st.conns.length := by
      rcases List.getElem?_eq_some_iff.mp hc with ⟨hh, _⟩; exact hh
    split
    · exact h
    · split
      · split
        · exact inv_putConn h hc rfl rfl
        · exact h
      · rename_i hpf
        have hpf : cn.permitsFree ≠ 0 := by simpa using hpf
        have newrec : ∀ (i : Nat) (t : Sub),
            (st.subs ++ [({ conn := c, meth := m, subId := sid, reqId := rid, handlerDone := rawMeth m, taskDone := rawMeth m } : Sub)])[i]? = some t →
            t.inTable = true → st.subs[i]? = some t := by
          intro i t hi ti
          rw [List.getElem?_append] at hi
          split at hi
          · exact hi
          · cases hii : i - st.subs.length with
            | zero => simp [hii] at hi; subst hi; simp at ti
            | succ n => simp [hii] at hi
        refine ⟨?_, ?_, ?_, ?_⟩
        · intro x hx
          simp only [List.mem_append, List.mem_singleton, List.length_set] at hx ⊢
          rcases hx with hx | rfl
          · exact h.connOk x hx
          · exact hlen
        · intro i j si sj hi hj ti tj hij
          exact h.tableUniq i j si sj (newrec i si hi ti) (newrec j sj hj tj) ti tj hij
        · intro x hx
          simp only [List.mem_append, List.mem_singleton] at hx
          rcases hx with hx | rfl
          · exact h.subOk x hx
          · constructor <;> simp
        · intro c2 cn2 hc2
          simp only [List.getElem?_set] at hc2
          simp only [held, List.countP_append, List.countP_cons, List.countP_nil]
          by_cases hcc : c = c2
          · subst hcc
            simp [hlen] at hc2
            subst hc2
            have := h.permit c cn hc
            simp only [held] at this
            simp [Sub.holds] at this ⊢
            omega
          · simp [hcc] at hc2
            have := h.permit c2 cn2 hc2
            simp only [held] at this
            simp [hcc, Sub.holds] at this ⊢
            omega

theorem inv_unsubscribe {st : State} (h : Inv st) (c m x rid : Nat) :
    Inv (doUnsubscribe st c m x rid).1 := by
  unfold doUnsubscribe
  split
  · exact h
  · rename_i cn hc
    split
    · exact h
    · split
      · exact h
      · split
        · exact inv_putConn h hc rfl rfl
        · rename_i k hf
          obtain ⟨s, hs, hp⟩ := findIdx_some hf
          simp only [tableKey, sameKey, Bool.and_eq_true, beq_iff_eq] at hp
          obtain ⟨⟨⟨hsc, _⟩, _⟩, hit⟩ := hp
          rw [hs]
          have hl : lookup st k = some (s, cn) := by
            simp [lookup, hs, hsc, hc]
          have ok := h.subOk s (lookup_mem hl)
          have hacc := (ok.table.mp hit).1
          refine inv_put h hl rfl rfl rfl (by intro hh; simp at hh) ?_ rfl ?_
          · refine ⟨?_, ok.clonesAcc, fun _ => hacc, ok.closeAcc, ok.orphAcc, ok.closeTask, ok.closeHandler, ok.displAcc⟩
            simp
          · simp [Sub.holds, Conn.push]

theorem inv_step {st : State} (h : Inv st) (op : Op) : Inv (step st op).1 := by
  cases op with
  | subscribe c m rid sid => exact inv_subscribe h c m rid sid
  | cancelCall k =>
    simp only [step, doCancelCall]
    split
    · exact h
    · rename_i s cn hl
      have ok := h.subOk s (lookup_mem hl)
      split
      · exact h
      · refine inv_put h hl rfl rfl rfl (fun hh => Or.inl hh) ?_ rfl ?_
        · exact ⟨ok.table, ok.clonesAcc, ok.unsubAcc, ok.closeAcc, ok.orphAcc, fun _ => rfl, ok.closeHandler, ok.displAcc⟩
        · simp [Sub.holds]
  | accept k => exact inv_accept h k
  | reject k code => exact inv_refuse h k code .rejected (by decide) (by decide)
  | dropPending k => exact inv_refuse h k internalCode .dropped (by decide) (by decide)
  | send k p => exact inv_send h k p
  | sendResume k p => exact inv_sendResume h k p
  | cloneSink k => exact inv_clone h k
  | dropSink k => exact inv_dropSink h k
  | isClosed k =>
    simp only [step, doIsClosed]
    split
    · exact h
    · split <;> exact h
  | handlerReturn k r => exact inv_return h k r
  | taskStep k => exact inv_task h k
  | unsubscribe c m x rid => exact inv_unsubscribe h c m x rid
  | unsubscribeBad c rid =>
    simp only [step, doUnsubscribeBad]
    split
    · exact h
    · rename_i cn hc
      split
      · exact h
      · split
        · exact h
        · exact inv_putConn h hc rfl rfl
  | connClose c => exact inv_connClose h c
  | stop => exact inv_stop h
  | connFinish c => exact inv_connFinish h c
  | writerStep c => exact inv_writer h c

theorem run_inv {st : State} (h : Inv st) (ops : List Op) : Inv (run st ops) := by
  induction ops generalizing st with
  | nil => exact h
  | cons op r ih => exact ih (inv_step h op)

/-- a state reached from an initial configuration by any operation sequence -/
def Reachable (st : State) : Prop := ∃ cfg ops, st = run (init cfg) ops

theorem reachable_inv {st : State} (h : Reachable st) : Inv st := by
  obtain ⟨cfg, ops, rfl⟩ := h
  exact run_inv (inv_init cfg) ops

theorem reachable_step {st : State} (h : Reachable st) (op : Op) : Reachable (step st op).1 := by
  obtain ⟨cfg, ops, rfl⟩ := h
  refine ⟨cfg, ops ++ [op], ?_⟩
  have : ∀ (s : State) (l : List Op), run s (l ++ [op]) = (step (run s l) op).1 := by
    intro s l
    induction l generalizing s with
    | nil => rfl
    | cons o r ih => exact ih _
  exact (this _ _).symm

/-! ### id providers that only hand out free ids -/

/-- a record is live while its subscribe call is pending or it owns a table entry -/
def Sub.live (s : Sub) : Bool := s.phase == .pending || s.inTable

/-- The id handed out for a subscribe call is FREE on that connection and method: no pending call and
no registered subscription uses it there.  (A counter or random provider satisfies this trivially;
a provider may legitimately re-use an id once its subscription has been unsubscribed or has ended,
and the same id may be in use on another connection.) -/
def idFree (st : State) : Op → Prop
  | .subscribe c m _ sid => ∀ s ∈ st.subs, sameKey c m sid s = true → s.live = false
  | _ => True

def DisciplinedRun (st : State) : List Op → Prop
  | [] => True
  | op :: r => idFree st op ∧ DisciplinedRun (step st op).1 r

instance (st : State) (op : Op) : Decidable (idFree st op) := by
  cases op <;> simp only [idFree] <;> infer_instance

def decDisciplined : (st : State) → (ops : List Op) → Decidable (DisciplinedRun st ops)
  | _, [] => isTrue trivial
  | st, op :: r =>
    have := decDisciplined (step st op).1 r
    by simp only [DisciplinedRun]; infer_instance

instance (st : State) (ops : List Op) : Decidable (DisciplinedRun st ops) := decDisciplined st ops

/-- reachable with an id provider that only hands out free ids -/
def ReachableD (st : State) : Prop := ∃ cfg ops, st = run (init cfg) ops ∧ DisciplinedRun (init cfg) ops

/-- what such runs maintain: live records have pairwise different keys, nothing was ever displaced -/
structure Clean (st : State) : Prop where
  liveUniq : ∀ (i j : Nat) (si sj : Sub), st.subs[i]? = some si → st.subs[j]? = some sj →
    si.live = true → sj.live = true → sameKey si.conn si.meth si.subId sj = true → i = j
  noDispl : ∀ s ∈ st.subs, s.displaced = false

theorem clean_put {st : State} (h : Clean st) {k : Nat} {s s' : Sub} {cn cn' : Conn}
    (hl : lookup st k = some (s, cn))
    (hconn : s'.conn = s.conn) (hmeth : s'.meth = s.meth) (hid : s'.subId = s.subId)
    (hlive : s'.live = true → s.live = true) (hd : s'.displaced = false) : Clean (put st k s' cn') := by
  obtain ⟨hs, _⟩ := lookup_some hl
  have key_symm : ∀ a b : Sub, sameKey a.conn a.meth a.subId b = true → sameKey b.conn b.meth b.subId a = true := by
    intro a b hab
    simp only [sameKey, Bool.and_eq_true, beq_iff_eq] at hab ⊢
    omega
  refine ⟨?_, ?_⟩
  · intro i j si sj hi hj li lj hij
    simp only [put] at hi hj
    rcases getElem?_set_cases hi with ⟨e1, e2⟩ | ⟨hik, hi'⟩ <;>
      rcases getElem?_set_cases hj with ⟨e3, e4⟩ | ⟨hjk, hj'⟩
    · omega
    · rw [e2] at li hij
      rw [hconn, hmeth, hid] at hij
      rw [e1]; exact h.liveUniq _ _ _ _ hs hj' (hlive li) lj hij
    · rw [e4] at lj hij
      have hij' : sameKey s.conn s.meth s.subId si = true := by
        have := key_symm si s' hij
        rwa [hconn, hmeth, hid] at this
      rw [e3]; exact h.liveUniq _ _ _ _ hi' hs li (hlive lj) (key_symm s si hij')
    · exact h.liveUniq _ _ _ _ hi' hj' li lj hij
  · intro x hx
    simp only [put] at hx
    rcases List.mem_or_eq_of_mem_set hx with hx | rfl
    · exact h.noDispl x hx
    · exact hd

theorem clean_conns {st : State} (h : Clean st) (cs : List Conn) : Clean { st with conns := cs } :=
  ⟨h.liveUniq, h.noDispl⟩

/-- with live keys pairwise different an accept overwrites nobody -/
theorem displace_id_of_clean {st : State} (h : Clean st) {k : Nat} {s : Sub} (hs : st.subs[k]? = some s)
    (hp : s.phase = .pending) (hnt : s.inTable = false) :
    st.subs.map (displace s.conn s.meth s.subId) = st.subs := by
  have : ∀ t ∈ st.subs, displace s.conn s.meth s.subId t = t := by
    intro t ht
    unfold displace
    split
    · rename_i hd
      exfalso
      simp only [Bool.and_eq_true] at hd
      obtain ⟨j, hj⟩ := List.mem_iff_getElem?.mp ht
      have e := h.liveUniq k j s t hs hj (by simp [Sub.live, hp]) (by simp [Sub.live, hd.2]) hd.1
      subst e
      rw [hs] at hj; cases hj
      rw [hnt] at hd; exact absurd hd.2 (by simp)
    · rfl
  rw [List.map_congr_left this]; simp

theorem clean_step {st : State} (hi : Inv st) (h : Clean st) (op : Op) (hf : idFree st op) :
    Clean (step st op).1 := by
  cases op with
  | subscribe c m rid sid =>
    simp only [step, doSubscribe]
    split
    · exact h
    · split
      · exact h
      · split
        · split
          · exact clean_conns h _
          · exact h
        · have old : ∀ (i : Nat) (t : Sub),
              (st.subs ++ [({ conn := c, meth := m, subId := sid, reqId := rid, handlerDone := rawMeth m, taskDone := rawMeth m } : Sub)])[i]? = some t →
              st.subs[i]? = some t ∨ (i = st.subs.length ∧ t = { conn := c, meth := m, subId := sid, reqId := rid, handlerDone := rawMeth m, taskDone := rawMeth m }) := by
            intro i t hit
            rw [List.getElem?_append] at hit
            split at hit
            · exact Or.inl hit
            · cases hii : i - st.subs.length with
              | zero => simp [hii] at hit; exact Or.inr ⟨by omega, hit.symm⟩
              | succ n => simp [hii] at hit
          refine ⟨?_, ?_⟩
          · intro i j si sj hi' hj' li lj hij
            rcases old i si hi' with hi0 | ⟨ei, rfl⟩ <;> rcases old j sj hj' with hj0 | ⟨ej, rfl⟩
            · exact h.liveUniq i j si sj hi0 hj0 li lj hij
            · exfalso
              have hm : si ∈ st.subs := List.mem_iff_getElem?.mpr ⟨i, hi0⟩
              have : sameKey c m sid si = true := by
                simp only [sameKey, Bool.and_eq_true, beq_iff_eq] at hij ⊢; omega
              rw [hf si hm this] at li; cases li
            · exfalso
              have hm : sj ∈ st.subs := List.mem_iff_getElem?.mpr ⟨j, hj0⟩
              rw [hf sj hm hij] at lj; cases lj
            · omega
          · intro x hx
            simp only [List.mem_append, List.mem_singleton] at hx
            rcases hx with hx | rfl
            · exact h.noDispl x hx
            · rfl
  | cancelCall k =>
    simp only [step, doCancelCall]
    split
    · exact h
    · rename_i s cn hl
      split
      · exact h
      · exact clean_put h hl rfl rfl rfl (by simp [Sub.live]) (by simpa using h.noDispl s (lookup_mem hl))
  | accept k =>
    simp only [step, doAccept]
    split
    · exact h
    · rename_i s cn hl
      obtain ⟨hs, hc⟩ := lookup_some hl
      have ok := hi.subOk s (lookup_mem hl)
      split
      · exact h
      · rename_i hph
        have hph : s.phase = .pending := by simpa using hph
        obtain ⟨_, f2, _, _, _, f6⟩ := ok.notAcc (by simp [hph])
        split
        · exact clean_put h hl rfl rfl rfl (by simp [Sub.live, f2]) (by simpa using f6)
        · split
          · exact h
          · split
            · exact clean_put h hl rfl rfl rfl (by simp [Sub.live, f2]) (by simpa using f6)
            · rw [displace_id_of_clean h hs hph f2]
              exact clean_put h hl rfl rfl rfl (by intro _; simp [Sub.live, hph]) (by simpa using f6)
  | reject k code =>
    simp only [step, doRefuse]
    split
    · exact h
    · rename_i s cn hl
      have ok := hi.subOk s (lookup_mem hl)
      split
      · exact h
      · rename_i hph
        have hph : s.phase = .pending := by simpa using hph
        obtain ⟨_, f2, _, _, _, f6⟩ := ok.notAcc (by simp [hph])
        split
        · exact h
        · exact clean_put h hl rfl rfl rfl (by intro _; simp [Sub.live, hph]) (by simpa using f6)
  | dropPending k =>
    simp only [step, doRefuse]
    split
    · exact h
    · rename_i s cn hl
      have ok := hi.subOk s (lookup_mem hl)
      split
      · exact h
      · rename_i hph
        have hph : s.phase = .pending := by simpa using hph
        obtain ⟨_, f2, _, _, _, f6⟩ := ok.notAcc (by simp [hph])
        split
        · exact h
        · exact clean_put h hl rfl rfl rfl (by intro _; simp [Sub.live, hph]) (by simpa using f6)
  | send k p =>
    simp only [step, doSend]
    split
    · exact h
    · rename_i s cn hl
      split
      · exact h
      · split
        · exact h
        · split
          · exact h
          · exact clean_put h hl rfl rfl rfl (by simp [Sub.live]) (by simpa using h.noDispl s (lookup_mem hl))
  | sendResume k p =>
    simp only [step, doSendResume]
    split
    · exact h
    · rename_i s cn hl
      split
      · exact h
      · split
        · exact h
        · split
          · exact h
          · exact clean_put h hl rfl rfl rfl (by simp [Sub.live]) (by simpa using h.noDispl s (lookup_mem hl))
  | cloneSink k =>
    simp only [step, doClone]
    split
    · exact h
    · rename_i s cn hl
      split
      · exact h
      · exact clean_put h hl rfl rfl rfl (by simp [Sub.live]) (by simpa using h.noDispl s (lookup_mem hl))
  | dropSink k =>
    simp only [step, doDropSink]
    split
    · exact h
    · rename_i s cn hl
      split
      · exact h
      · refine clean_put h hl rfl rfl rfl ?_ (by simpa using h.noDispl s (lookup_mem hl))
        simp only [Sub.live]
        cases s.inTable <;> simp
  | isClosed k =>
    simp only [step, doIsClosed]
    split
    · exact h
    · split <;> exact h
  | handlerReturn k r =>
    simp only [step, doReturn]
    split
    · exact h
    · rename_i s cn hl
      split
      · exact h
      · exact clean_put h hl rfl rfl rfl (by simp [Sub.live]) (by simpa using h.noDispl s (lookup_mem hl))
  | taskStep k =>
    simp only [step, doTask]
    split
    · exact h
    · rename_i s cn hl
      have hd := h.noDispl s (lookup_mem hl)
      split
      · exact h
      · split
        · exact clean_put h hl rfl rfl rfl (by simp [Sub.live]) (by simpa using hd)
        · split
          · exact clean_put h hl rfl rfl rfl (by simp [Sub.live]) (by simpa using hd)
          · split
            · exact h
            · exact clean_put h hl rfl rfl rfl (by simp [Sub.live]) (by simpa using hd)
  | unsubscribe c m x rid =>
    simp only [step, doUnsubscribe]
    split
    · exact h
    · rename_i cn hc
      split
      · exact h
      · split
        · exact h
        · split
          · exact clean_conns h _
          · rename_i k hfi
            obtain ⟨s, hs, hp⟩ := findIdx_some hfi
            simp only [tableKey, sameKey, Bool.and_eq_true, beq_iff_eq] at hp
            rw [hs]
            have hl : lookup st k = some (s, cn) := by simp [lookup, hs, hp.1.1.1, hc]
            exact clean_put h hl rfl rfl rfl (by simp [Sub.live, hp.2]) (by simpa using h.noDispl s (lookup_mem hl))
  | unsubscribeBad c rid =>
    simp only [step, doUnsubscribeBad]
    split
    · exact h
    · split
      · exact h
      · split
        · exact h
        · exact clean_conns h _
  | connClose c =>
    simp only [step, doConnClose]
    split
    · exact h
    · exact clean_conns h _
  | stop => exact clean_conns h _
  | connFinish c =>
    simp only [step, doConnFinish]
    split
    · exact h
    · split
      · exact clean_conns h _
      · exact h
  | writerStep c =>
    simp only [step, doWriter]
    split
    · exact h
    · split
      · exact h
      · split
        · exact h
        · exact clean_conns h _

theorem clean_init (cfg : List (Nat × Nat)) : Clean (init cfg) := ⟨by simp [init], by simp [init]⟩

theorem reachableD_reachable {st : State} (h : ReachableD st) : Reachable st := by
  obtain ⟨cfg, ops, e, _⟩ := h; exact ⟨cfg, ops, e⟩

theorem run_clean (ops : List Op) : ∀ (s : State), Inv s → Clean s → DisciplinedRun s ops → Clean (run s ops) := by
  induction ops with
  | nil => intro s _ hc _; exact hc
  | cons op r ih =>
    intro s hi hc hd
    exact ih _ (inv_step hi op) (clean_step hi hc op hd.1) hd.2

theorem reachableD_clean {st : State} (h : ReachableD st) : Clean st := by
  obtain ⟨cfg, ops, rfl, hd⟩ := h
  exact run_clean ops _ (inv_init cfg) (clean_init cfg) hd

theorem reachableD_step {st : State} (h : ReachableD st) (op : Op) (hf : idFree st op) :
    ReachableD (step st op).1 := by
  obtain ⟨cfg, ops, rfl, hd⟩ := h
  refine ⟨cfg, ops ++ [op], ?_, ?_⟩
  · have : ∀ (s : State) (l : List Op), run s (l ++ [op]) = (step (run s l) op).1 := by
      intro s l
      induction l generalizing s with
      | nil => rfl
      | cons o r ih => exact ih _
    exact (this _ _).symm
  · have : ∀ (s : State) (l : List Op), DisciplinedRun s l → idFree (run s l) op → DisciplinedRun s (l ++ [op]) := by
      intro s l
      induction l generalizing s with
      | nil => intro _ h2; exact ⟨h2, trivial⟩
      | cons o r ih => intro h1 h2; exact ⟨h1.1, ih _ h1.2 h2⟩
    exact this _ _ hd hf

/-! ### shared vocabulary of the property theorems -/

def connOpen (st : State) (c : Nat) : Prop := ∃ cn, st.conns[c]? = some cn ∧ cn.isOpen = true

/-- "currently active": accepted, not unsubscribed, the handler still holds a sink, connection open -/
def Active (st : State) (s : Sub) : Prop :=
  s.phase = .accepted ∧ s.unsubscribed = false ∧ s.clones > 0 ∧ connOpen st s.conn

/-- no table entry has been removed by the drop of a non-last clone (the F-13 region) -/
def NoOrphan (st : State) : Prop := ∀ s ∈ st.subs, s.orphaned = false

instance (st : State) : Decidable (NoOrphan st) := by unfold NoOrphan; infer_instance

end Jrpc.SubServer
