/-
  Invariants of the server subscription machine (Model/SubServer.lean), proved for every
  operation and lifted to all operation sequences (`reachable_inv`).  Used by Theorems/C06.lean
  and Theorems/C04.lean.
-/
import JrpcVerif.Model.SubServer
namespace Jrpc.SubServer

/-! ### list helpers -/

theorem countP_set {α} (p : α → Bool) (l : List α) (k : Nat) (a b : α) (h : l[k]? = some a) :
    (l.set k b).countP p + (if p a then 1 else 0) = l.countP p + (if p b then 1 else 0) := by
  induction l generalizing k with
  | nil => simp at h
  | cons x r ih =>
    cases k with
    | zero =>
      simp at h; subst h
      simp [List.countP_cons]; omega
    | succ k =>
      simp at h
      have := ih k h
      simp [List.countP_cons]; omega

theorem getElem?_set_cases {α} {l : List α} {k i : Nat} {b x : α} (h : (l.set k b)[i]? = some x) :
    (i = k ∧ x = b) ∨ (i ≠ k ∧ l[i]? = some x) := by
  rw [List.getElem?_set] at h
  by_cases hk : k = i
  · subst hk
    simp at h
    exact Or.inl ⟨rfl, h.2.symm⟩
  · simp [hk] at h
    exact Or.inr ⟨fun e => hk e.symm, h⟩

theorem countP_set_same {α} (p : α → Bool) (l : List α) (k : Nat) (a b : α) (h : l[k]? = some a)
    (hp : p b = p a) : (l.set k b).countP p = l.countP p := by
  have := countP_set p l k a b h
  rw [hp] at this; omega

theorem findIdx_some {p : Sub → Bool} {l : List Sub} {k : Nat} (h : findIdx p l = some k) :
    ∃ s, l[k]? = some s ∧ p s = true := by
  induction l generalizing k with
  | nil => simp [findIdx] at h
  | cons x r ih =>
    simp only [findIdx] at h
    split at h
    · simp at h; subst h; exact ⟨x, by simp, by assumption⟩
    · cases hr : findIdx p r with
      | none => simp [hr] at h
      | some j =>
        simp [hr] at h; subst h
        obtain ⟨s, hs, hp⟩ := ih hr
        exact ⟨s, by simpa using hs, hp⟩

theorem findIdx_none {p : Sub → Bool} {l : List Sub} (h : findIdx p l = none) :
    ∀ s ∈ l, p s = false := by
  induction l with
  | nil => simp
  | cons x r ih =>
    simp only [findIdx] at h
    split at h
    · simp at h
    · cases hr : findIdx p r with
      | none =>
        intro s hs
        cases hs with
        | head => simpa using ‹¬ p x = true›
        | tail _ hm => exact ih hr s hm
      | some j => simp [hr] at h

/-! ### the invariant -/

/-- per-subscription facts -/
structure SubOk (s : Sub) : Prop where
  table : s.inTable = true ↔
    (s.phase = .accepted ∧ s.unsubscribed = false ∧ s.clones > 0 ∧ s.orphaned = false)
  clonesAcc : s.clones > 0 → s.phase = .accepted
  unsubAcc : s.unsubscribed = true → s.phase = .accepted
  closeAcc : s.closeSent = true → s.phase = .accepted
  orphAcc : s.orphaned = true → s.phase = .accepted
  closeTask : s.closeSent = true → s.taskDone = true
  closeHandler : s.closeSent = true → s.handlerDone = true

/-- subscriptions of connection `c` that hold one of its permits -/
def held (st : State) (c : Nat) : Nat := st.subs.countP (fun s => s.conn == c && s.holds)

structure Inv (st : State) : Prop where
  connOk : ∀ s ∈ st.subs, s.conn < st.conns.length
  idLt : ∀ s ∈ st.subs, s.subId < st.nextId
  idUniq : ∀ (i j : Nat) (si sj : Sub), st.subs[i]? = some si → st.subs[j]? = some sj → si.subId = sj.subId → i = j
  subOk : ∀ s ∈ st.subs, SubOk s
  permit : ∀ c cn, st.conns[c]? = some cn → cn.permitsFree + held st c = cn.cap

theorem lookup_some {st : State} {k : Nat} {s : Sub} {cn : Conn} (h : lookup st k = some (s, cn)) :
    st.subs[k]? = some s ∧ st.conns[s.conn]? = some cn := by
  unfold lookup at h
  split at h
  · simp at h
  · split at h
    · simp at h
    · simp at h; obtain ⟨h1, h2⟩ := h; subst h1; subst h2; exact ⟨by assumption, by assumption⟩

theorem inv_init (cfg : List (Nat × Nat)) : Inv (init cfg) := by
  refine ⟨by simp [init], by simp [init], by simp [init], by simp [init], ?_⟩
  intro c cn h
  simp [init, List.getElem?_map] at h
  obtain ⟨a, b, _, rfl⟩ := h
  simp [held, init, mkConn]

/-- writing back a subscription together with its connection preserves the invariant if the
local conditions hold -/
theorem inv_put {st : State} (h : Inv st) {k : Nat} {s s' : Sub} {cn cn' : Conn}
    (hl : lookup st k = some (s, cn))
    (hconn : s'.conn = s.conn) (hid : s'.subId = s.subId) (hok : SubOk s')
    (hcap : cn'.cap = cn.cap)
    (hperm : cn'.permitsFree + (if s'.holds then 1 else 0) = cn.permitsFree + (if s.holds then 1 else 0)) :
    Inv (put st k s' cn') := by
  obtain ⟨hs, hc⟩ := lookup_some hl
  have hmem : s ∈ st.subs := List.mem_iff_getElem?.mpr ⟨k, hs⟩
  refine ⟨?_, ?_, ?_, ?_, ?_⟩
  · intro x hx
    simp only [put, List.length_set] at hx ⊢
    rcases List.mem_or_eq_of_mem_set hx with hx | rfl
    · exact h.connOk x hx
    · rw [hconn]; exact h.connOk s hmem
  · intro x hx
    simp only [put] at hx ⊢
    rcases List.mem_or_eq_of_mem_set hx with hx | rfl
    · exact h.idLt x hx
    · rw [hid]; exact h.idLt s hmem
  · intro i j si sj hi hj hij
    simp only [put] at hi hj
    rcases getElem?_set_cases hi with ⟨e1, e2⟩ | ⟨hik, hi'⟩ <;>
      rcases getElem?_set_cases hj with ⟨e3, e4⟩ | ⟨hjk, hj'⟩
    · omega
    · rw [e2, hid] at hij; rw [e1]; exact h.idUniq _ _ _ _ hs hj' hij
    · rw [e4, hid] at hij; rw [e3]; exact h.idUniq _ _ _ _ hi' hs hij
    · exact h.idUniq _ _ _ _ hi' hj' hij
  · intro x hx
    simp only [put] at hx
    rcases List.mem_or_eq_of_mem_set hx with hx | rfl
    · exact h.subOk x hx
    · exact hok
  · intro c cn2 hc2
    simp only [put, List.getElem?_set] at hc2
    have hcnt := countP_set (fun x => x.conn == c && x.holds) st.subs k s s' hs
    simp only [held, put]
    by_cases hcc : s'.conn = c
    · have hlen : s'.conn < st.conns.length := by rw [hconn]; exact h.connOk s hmem
      simp [hcc] at hc2
      have hlen' : c < st.conns.length := by omega
      simp [hlen'] at hc2
      subst hc2
      have hp := h.permit c cn (by rw [← hcc, hconn]; exact hc)
      simp only [held] at hp
      have e1 : s.conn = c := by rw [← hconn]; exact hcc
      simp [hcc, e1] at hcnt
      rw [hcap]
      omega
    · simp [hcc] at hc2
      have hp := h.permit c cn2 hc2
      simp only [held] at hp
      have e1 : ¬ s.conn = c := by rw [← hconn]; exact hcc
      simp [hcc, e1] at hcnt
      omega

/-- changing only queue / wire / flags of a connection -/
theorem inv_putConn {st : State} (h : Inv st) {c : Nat} {cn cn' : Conn}
    (hc : st.conns[c]? = some cn) (hcap : cn'.cap = cn.cap) (hperm : cn'.permitsFree = cn.permitsFree) :
    Inv (putConn st c cn') := by
  refine ⟨?_, h.idLt, h.idUniq, h.subOk, ?_⟩
  · intro x hx
    simp only [putConn, List.length_set]
    exact h.connOk x hx
  · intro c2 cn2 hc2
    simp only [putConn, List.getElem?_set] at hc2
    simp only [held, putConn]
    by_cases hcc : c = c2
    · subst hcc
      have hlen : c < st.conns.length := by
        rcases List.getElem?_eq_some_iff.mp hc with ⟨hh, _⟩; exact hh
      simp [hlen] at hc2
      subst hc2
      have := h.permit c cn hc
      simp only [held] at this
      omega
    · simp [hcc] at hc2
      exact h.permit c2 cn2 hc2

theorem lookup_mem {st : State} {k : Nat} {s : Sub} {cn : Conn} (h : lookup st k = some (s, cn)) :
    s ∈ st.subs := List.mem_iff_getElem?.mpr ⟨k, (lookup_some h).1⟩

/-! ### every operation preserves the invariant -/

theorem SubOk.notAcc {s : Sub} (ok : SubOk s) (h : s.phase ≠ .accepted) :
    s.clones = 0 ∧ s.inTable = false ∧ s.unsubscribed = false ∧ s.closeSent = false ∧
      s.orphaned = false := by
  refine ⟨?_, ?_, ?_, ?_, ?_⟩
  · rcases Nat.eq_zero_or_pos s.clones with h0 | h0
    · exact h0
    · exact absurd (ok.clonesAcc h0) h
  · cases hi : s.inTable with
    | false => rfl
    | true => exact absurd (ok.table.mp hi).1 h
  · cases hu : s.unsubscribed with
    | false => rfl
    | true => exact absurd (ok.unsubAcc hu) h
  · cases hu : s.closeSent with
    | false => rfl
    | true => exact absurd (ok.closeAcc hu) h
  · cases hu : s.orphaned with
    | false => rfl
    | true => exact absurd (ok.orphAcc hu) h

theorem inv_accept {st : State} (h : Inv st) (k : Nat) : Inv (doAccept st k).1 := by
  unfold doAccept
  split
  · exact h
  · rename_i s cn hl
    have ok := h.subOk s (lookup_mem hl)
    split
    · exact h
    · rename_i hph
      have hph : s.phase = .pending := by simpa using hph
      obtain ⟨f1, f2, f3, f4, f5⟩ := ok.notAcc (by simp [hph])
      split
      · refine inv_put h hl rfl rfl ?_ ?_ ?_
        · constructor <;> simp_all
        · rfl
        · simp [Conn.release, Sub.holds, hph, f1]
      · split
        · exact h
        · refine inv_put h hl rfl rfl ?_ ?_ ?_
          · have := ok.table
            constructor <;> simp_all
          · rfl
          · simp [Conn.push, Sub.holds, hph]

theorem inv_refuse {st : State} (h : Inv st) (k : Nat) (code : Int) (ph : Phase) (hph' : ph ≠ .accepted)
    (hpp : ph ≠ .pending) : Inv (doRefuse st k code ph).1 := by
  unfold doRefuse
  split
  · exact h
  · rename_i s cn hl
    have ok := h.subOk s (lookup_mem hl)
    split
    · exact h
    · rename_i hph
      have hph : s.phase = .pending := by simpa using hph
      obtain ⟨f1, f2, f3, f4, f5⟩ := ok.notAcc (by simp [hph])
      split
      · exact h
      · refine inv_put h hl rfl rfl ?_ ?_ ?_
        · constructor <;> simp_all
        · split <;> rfl
        · have : (ph == Phase.pending) = false := by simpa using hpp
          split <;> simp [Conn.release, Conn.push, Sub.holds, hph, f1, this]

theorem inv_send {st : State} (h : Inv st) (k p : Nat) : Inv (doSend st k p).1 := by
  unfold doSend
  split
  · exact h
  · rename_i s cn hl
    have ok := h.subOk s (lookup_mem hl)
    split
    · exact h
    · split
      · exact h
      · split
        · exact h
        · refine inv_put h hl rfl rfl ?_ rfl ?_
          · exact ⟨ok.table, ok.clonesAcc, ok.unsubAcc, ok.closeAcc, ok.orphAcc, ok.closeTask, ok.closeHandler⟩
          · simp [Conn.push, Sub.holds]

theorem inv_clone {st : State} (h : Inv st) (k : Nat) : Inv (doClone st k).1 := by
  unfold doClone
  split
  · exact h
  · rename_i s cn hl
    have ok := h.subOk s (lookup_mem hl)
    split
    · exact h
    · rename_i hc
      have hc : s.clones > 0 := by
        have : ¬ s.clones = 0 := by simpa using hc
        omega
      refine inv_put h hl rfl rfl ?_ rfl ?_
      · have := ok.table
        have := ok.clonesAcc hc
        refine ⟨?_, fun _ => this, ok.unsubAcc, ok.closeAcc, ok.orphAcc, ok.closeTask, ok.closeHandler⟩
        simp_all
      · have : s.clones + 1 > 0 := by omega
        simp [Sub.holds, hc, this]

/-- the only fact about the F-13 switch the invariant proofs use: the drop of the LAST handle
removes the entry (true of the current and of the fixed code) -/
theorem dropSink_last : dropSinkRemovesEntry 1 = true := rfl

theorem inv_dropSink {st : State} (h : Inv st) (k : Nat) : Inv (doDropSink st k).1 := by
  unfold doDropSink
  split
  · exact h
  · rename_i s cn hl
    have ok := h.subOk s (lookup_mem hl)
    split
    · exact h
    · rename_i hc
      have hc : s.clones > 0 := by
        have : ¬ s.clones = 0 := by simpa using hc
        omega
      have hacc := ok.clonesAcc hc
      refine inv_put h hl rfl rfl ?_ ?_ ?_
      · have ht := ok.table
        refine ⟨?_, fun _ => hacc, ok.unsubAcc, ok.closeAcc, fun _ => hacc, ok.closeTask, ok.closeHandler⟩
        simp only []
        cases hi : s.inTable <;> cases hr : dropSinkRemovesEntry s.clones <;> simp_all
        · have : s.clones ≠ 1 := fun e => by rw [e, dropSink_last] at hr; cases hr
          omega
        · omega
      · split <;> rfl
      · split
        · rename_i h1
          have h1 : s.clones = 1 := by simpa using h1
          simp [Conn.release, Sub.holds, h1, hacc]
        · rename_i h1
          have h1 : ¬ s.clones = 1 := by simpa using h1
          have : s.clones - 1 > 0 := by omega
          simp [Sub.holds, hc, this]

theorem inv_return {st : State} (h : Inv st) (k : Nat) (r : Ret) : Inv (doReturn st k r).1 := by
  unfold doReturn
  split
  · exact h
  · rename_i s cn hl
    have ok := h.subOk s (lookup_mem hl)
    split
    · exact h
    · refine inv_put h hl rfl rfl ?_ rfl ?_
      · exact ⟨ok.table, ok.clonesAcc, ok.unsubAcc, ok.closeAcc, ok.orphAcc, ok.closeTask, fun _ => rfl⟩
      · simp [Sub.holds]

theorem inv_task {st : State} (h : Inv st) (k : Nat) : Inv (doTask st k).1 := by
  unfold doTask
  split
  · exact h
  · rename_i s cn hl
    have ok := h.subOk s (lookup_mem hl)
    split
    · exact h
    · rename_i hg
      have hacc : s.phase = .accepted := by
        simp at hg; exact hg.1.1
      have hdone : s.handlerDone = true := by
        simp at hg; exact hg.1.2
      split
      · refine inv_put h hl rfl rfl ?_ rfl ?_
        · exact ⟨ok.table, ok.clonesAcc, ok.unsubAcc, ok.closeAcc, ok.orphAcc, fun _ => rfl, fun _ => hdone⟩
        · simp [Sub.holds]
      · split
        · refine inv_put h hl rfl rfl ?_ rfl ?_
          · exact ⟨ok.table, ok.clonesAcc, ok.unsubAcc, ok.closeAcc, ok.orphAcc, fun _ => rfl, fun _ => hdone⟩
          · simp [Sub.holds]
        · split
          · exact h
          · refine inv_put h hl rfl rfl ?_ rfl ?_
            · exact ⟨ok.table, ok.clonesAcc, ok.unsubAcc, fun _ => hacc, ok.orphAcc, fun _ => rfl, fun _ => hdone⟩
            · simp [Sub.holds, Conn.push]

theorem inv_connClose {st : State} (h : Inv st) (c : Nat) : Inv (doConnClose st c).1 := by
  unfold doConnClose
  split
  · exact h
  · rename_i cn hc
    exact inv_putConn h hc rfl rfl

theorem inv_connFinish {st : State} (h : Inv st) (c : Nat) : Inv (doConnFinish st c).1 := by
  unfold doConnFinish
  split
  · exact h
  · rename_i cn hc
    split
    · exact inv_putConn h hc rfl rfl
    · exact h

theorem inv_writer {st : State} (h : Inv st) (c : Nat) : Inv (doWriter st c).1 := by
  unfold doWriter
  split
  · exact h
  · rename_i cn hc
    split
    · exact h
    · split
      · exact h
      · exact inv_putConn h hc rfl rfl

theorem inv_stop {st : State} (h : Inv st) : Inv (doStop st).1 := by
  refine ⟨?_, h.idLt, h.idUniq, h.subOk, ?_⟩
  · intro x hx
    simp only [doStop, List.length_map]
    exact h.connOk x hx
  · intro c cn hc
    simp only [doStop, List.getElem?_map] at hc
    cases hcc : st.conns[c]? with
    | none => simp [hcc] at hc
    | some cn0 =>
      simp [hcc] at hc
      subst hc
      have := h.permit c cn0 hcc
      simpa [held, doStop] using this

theorem inv_subscribe {st : State} (h : Inv st) (c m rid : Nat) : Inv (doSubscribe st c m rid).1 := by
  unfold doSubscribe
  split
  · exact h
  · rename_i cn hc
    have hlen : c < st.conns.length := by
      rcases List.getElem?_eq_some_iff.mp hc with ⟨hh, _⟩; exact hh
    split
    · exact h
    · split
      · split
        · exact inv_putConn h hc rfl rfl
        · exact h
      · rename_i hpf
        have hpf : cn.permitsFree ≠ 0 := by simpa using hpf
        refine ⟨?_, ?_, ?_, ?_, ?_⟩
        · intro x hx
          simp only [List.mem_append, List.mem_singleton, List.length_set] at hx ⊢
          rcases hx with hx | rfl
          · exact h.connOk x hx
          · exact hlen
        · intro x hx
          simp only [List.mem_append, List.mem_singleton] at hx ⊢
          rcases hx with hx | rfl
          · have := h.idLt x hx; omega
          · simp
        · intro i j si sj hi hj hij
          simp only [List.getElem?_append] at hi hj
          split at hi <;> split at hj
          · exact h.idUniq _ _ _ _ hi hj hij
          · have hm : si ∈ st.subs := List.mem_iff_getElem?.mpr ⟨i, hi⟩
            have := h.idLt si hm
            have hj' : sj.subId = st.nextId := by
              cases hjj : j - st.subs.length with
              | zero => simp [hjj] at hj; subst hj; rfl
              | succ n => simp [hjj] at hj
            omega
          · have hm : sj ∈ st.subs := List.mem_iff_getElem?.mpr ⟨j, hj⟩
            have := h.idLt sj hm
            have hi' : si.subId = st.nextId := by
              cases hii : i - st.subs.length with
              | zero => simp [hii] at hi; subst hi; rfl
              | succ n => simp [hii] at hi
            omega
          · have : i - st.subs.length = 0 := by
              cases hii : i - st.subs.length with
              | zero => rfl
              | succ n => simp [hii] at hi
            have : j - st.subs.length = 0 := by
              cases hjj : j - st.subs.length with
              | zero => rfl
              | succ n => simp [hjj] at hj
            omega
        · intro x hx
          simp only [List.mem_append, List.mem_singleton] at hx
          rcases hx with hx | rfl
          · exact h.subOk x hx
          · constructor <;> simp
        · intro c2 cn2 hc2
          simp only [List.getElem?_set] at hc2
          simp only [held, List.countP_append, List.countP_cons, List.countP_nil]
          by_cases hcc : c = c2
          · subst hcc
            simp [hlen] at hc2
            subst hc2
            have := h.permit c cn hc
            simp only [held] at this
            simp [Sub.holds] at this ⊢
            omega
          · simp [hcc] at hc2
            have := h.permit c2 cn2 hc2
            simp only [held] at this
            simp [hcc, Sub.holds] at this ⊢
            omega

theorem inv_unsubscribe {st : State} (h : Inv st) (c m x rid : Nat) :
    Inv (doUnsubscribe st c m x rid).1 := by
  unfold doUnsubscribe
  split
  · exact h
  · rename_i cn hc
    split
    · exact h
    · split
      · exact h
      · split
        · exact inv_putConn h hc rfl rfl
        · rename_i k hf
          obtain ⟨s, hs, hp⟩ := findIdx_some hf
          simp only [tableKey, Bool.and_eq_true, beq_iff_eq] at hp
          obtain ⟨⟨⟨hsc, _⟩, _⟩, hit⟩ := hp
          rw [hs]
          have hl : lookup st k = some (s, cn) := by
            simp [lookup, hs, hsc, hc]
          have ok := h.subOk s (lookup_mem hl)
          have hacc := (ok.table.mp hit).1
          refine inv_put h hl rfl rfl ?_ rfl ?_
          · refine ⟨?_, ok.clonesAcc, fun _ => hacc, ok.closeAcc, ok.orphAcc, ok.closeTask, ok.closeHandler⟩
            simp
          · simp [Sub.holds, Conn.push]

theorem inv_step {st : State} (h : Inv st) (op : Op) : Inv (step st op).1 := by
  cases op with
  | subscribe c m rid => exact inv_subscribe h c m rid
  | accept k => exact inv_accept h k
  | reject k code => exact inv_refuse h k code .rejected (by decide) (by decide)
  | dropPending k => exact inv_refuse h k internalCode .dropped (by decide) (by decide)
  | send k p => exact inv_send h k p
  | cloneSink k => exact inv_clone h k
  | dropSink k => exact inv_dropSink h k
  | isClosed k =>
    simp only [step, doIsClosed]
    split
    · exact h
    · split <;> exact h
  | handlerReturn k r => exact inv_return h k r
  | taskStep k => exact inv_task h k
  | unsubscribe c m x rid => exact inv_unsubscribe h c m x rid
  | connClose c => exact inv_connClose h c
  | stop => exact inv_stop h
  | connFinish c => exact inv_connFinish h c
  | writerStep c => exact inv_writer h c

theorem run_inv {st : State} (h : Inv st) (ops : List Op) : Inv (run st ops) := by
  induction ops generalizing st with
  | nil => exact h
  | cons op r ih => exact ih (inv_step h op)

/-- a state reached from an initial configuration by any operation sequence -/
def Reachable (st : State) : Prop := ∃ cfg ops, st = run (init cfg) ops

theorem reachable_inv {st : State} (h : Reachable st) : Inv st := by
  obtain ⟨cfg, ops, rfl⟩ := h
  exact run_inv (inv_init cfg) ops

theorem reachable_step {st : State} (h : Reachable st) (op : Op) : Reachable (step st op).1 := by
  obtain ⟨cfg, ops, rfl⟩ := h
  refine ⟨cfg, ops ++ [op], ?_⟩
  have : ∀ (s : State) (l : List Op), run s (l ++ [op]) = (step (run s l) op).1 := by
    intro s l
    induction l generalizing s with
    | nil => rfl
    | cons o r ih => exact ih _
  exact (this _ _).symm

/-! ### shared vocabulary of the property theorems -/

def connOpen (st : State) (c : Nat) : Prop := ∃ cn, st.conns[c]? = some cn ∧ cn.isOpen = true

/-- "currently active": accepted, not unsubscribed, the handler still holds a sink, connection open -/
def Active (st : State) (s : Sub) : Prop :=
  s.phase = .accepted ∧ s.unsubscribed = false ∧ s.clones > 0 ∧ connOpen st s.conn

/-- no table entry has been removed by the drop of a non-last clone (the F-13 region) -/
def NoOrphan (st : State) : Prop := ∀ s ∈ st.subs, s.orphaned = false

instance (st : State) : Decidable (NoOrphan st) := by unfold NoOrphan; infer_instance

end Jrpc.SubServer
