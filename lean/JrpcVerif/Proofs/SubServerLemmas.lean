/-
  Invariants of the server subscription machine (Model/SubServer.lean), proved for every
  operation and lifted to all operation sequences (`reachable_inv`).  Used by Theorems/C06.lean
  and Theorems/C04.lean.
-/
import JrpcVerif.Model.SubServer
namespace Jrpc.SubServer

/-! ### list helpers -/

theorem countP_set {α} (p : α → Bool) (l : List α) (k : Nat) (a b : α) (h : l[k]? = some a) :
    (l.set k b).countP p + (if p a then 1 else 0) = l.countP p + (if p b then 1 else 0) := by
  induction l generalizing k with
  | nil => simp at h
  | cons x r ih =>
    cases k with
    | zero =>
      simp at h; subst h
      simp [List.countP_cons]; omega
    | succ k =>
      simp at h
      have := ih k h
      simp [List.countP_cons]; omega

theorem getElem?_set_cases {α} {l : List α} {k i : Nat} {b x : α} (h : (l.set k b)[i]? = some x) :
    (i = k ∧ x = b) ∨ (i ≠ k ∧ l[i]? = some x) := by
  rw [List.getElem?_set] at h
  by_cases hk : k = i
  · subst hk
    simp at h
    exact Or.inl ⟨rfl, h.2.symm⟩
  · simp [hk] at h
    exact Or.inr ⟨fun e => hk e.symm, h⟩

theorem countP_set_same {α} (p : α → Bool) (l : List α) (k : Nat) (a b : α) (h : l[k]? = some a)
    (hp : p b = p a) : (l.set k b).countP p = l.countP p := by
  have := countP_set p l k a b h
  rw [hp] at this; omega

theorem findIdx_some {p : Sub → Bool} {l : List Sub} {k : Nat} (h : findIdx p l = some k) :
    ∃ s, l[k]? = some s ∧ p s = true := by
  induction l generalizing k with
  | nil => simp [findIdx] at h
  | cons x r ih =>
    simp only [findIdx] at h
    split at h
    · simp at h; subst h; exact ⟨x, by simp, by assumption⟩
    · cases hr : findIdx p r with
      | none => simp [hr] at h
      | some j =>
        simp [hr] at h; subst h
        obtain ⟨s, hs, hp⟩ := ih hr
        exact ⟨s, by simpa using hs, hp⟩

theorem findIdx_none {p : Sub → Bool} {l : List Sub} (h : findIdx p l = none) :
    ∀ s ∈ l, p s = false := by
  induction l with
  | nil => simp
  | cons x r ih =>
    simp only [findIdx] at h
    split at h
    · simp at h
    · cases hr : findIdx p r with
      | none =>
        intro s hs
        cases hs with
        | head => simpa using ‹¬ p x = true›
        | tail _ hm => exact ih hr s hm
      | some j => simp [hr] at h

/-! ### the invariant -/

/-- per-subscription facts -/
structure SubOk (s : Sub) : Prop where
  table : s.inTable = true ↔
    (s.phase = .accepted ∧ s.unsubscribed = false ∧ s.clones > 0 ∧ s.orphaned = false)
  clonesAcc : s.clones > 0 → s.phase = .accepted
  unsubAcc : s.unsubscribed = true → s.phase = .accepted
  closeAcc : s.closeSent = true → s.phase = .accepted

/-- subscriptions of connection `c` that hold one of its permits -/
def held (st : State) (c : Nat) : Nat := st.subs.countP (fun s => s.conn == c && s.holds)

structure Inv (st : State) : Prop where
  connOk : ∀ s ∈ st.subs, s.conn < st.conns.length
  idLt : ∀ s ∈ st.subs, s.subId < st.nextId
  idUniq : ∀ (i j : Nat) (si sj : Sub), st.subs[i]? = some si → st.subs[j]? = some sj → si.subId = sj.subId → i = j
  subOk : ∀ s ∈ st.subs, SubOk s
  permit : ∀ c cn, st.conns[c]? = some cn → cn.permitsFree + held st c = cn.cap

theorem lookup_some {st : State} {k : Nat} {s : Sub} {cn : Conn} (h : lookup st k = some (s, cn)) :
    st.subs[k]? = some s ∧ st.conns[s.conn]? = some cn := by
  unfold lookup at h
  split at h
  · simp at h
  · split at h
    · simp at h
    · simp at h; obtain ⟨h1, h2⟩ := h; subst h1; subst h2; exact ⟨by assumption, by assumption⟩

theorem inv_init (cfg : List (Nat × Nat)) : Inv (init cfg) := by
  refine ⟨by simp [init], by simp [init], by simp [init], by simp [init], ?_⟩
  intro c cn h
  simp [init, List.getElem?_map] at h
  obtain ⟨a, b, _, rfl⟩ := h
  simp [held, init, mkConn]

/-- writing back a subscription together with its connection preserves the invariant if the
local conditions hold -/
theorem inv_put {st : State} (h : Inv st) {k : Nat} {s s' : Sub} {cn cn' : Conn}
    (hl : lookup st k = some (s, cn))
    (hconn : s'.conn = s.conn) (hid : s'.subId = s.subId) (hok : SubOk s')
    (hcap : cn'.cap = cn.cap)
    (hperm : cn'.permitsFree + (if s'.holds then 1 else 0) = cn.permitsFree + (if s.holds then 1 else 0)) :
    Inv (put st k s' cn') := by
  obtain ⟨hs, hc⟩ := lookup_some hl
  have hmem : s ∈ st.subs := List.mem_iff_getElem?.mpr ⟨k, hs⟩
  refine ⟨?_, ?_, ?_, ?_, ?_⟩
  · intro x hx
    simp only [put, List.length_set] at hx ⊢
    rcases List.mem_or_eq_of_mem_set hx with hx | rfl
    · exact h.connOk x hx
    · rw [hconn]; exact h.connOk s hmem
  · intro x hx
    simp only [put] at hx ⊢
    rcases List.mem_or_eq_of_mem_set hx with hx | rfl
    · exact h.idLt x hx
    · rw [hid]; exact h.idLt s hmem
  · intro i j si sj hi hj hij
    simp only [put] at hi hj
    rcases getElem?_set_cases hi with ⟨e1, e2⟩ | ⟨hik, hi'⟩ <;>
      rcases getElem?_set_cases hj with ⟨e3, e4⟩ | ⟨hjk, hj'⟩
    · omega
    · rw [e2, hid] at hij; rw [e1]; exact h.idUniq _ _ _ _ hs hj' hij
    · rw [e4, hid] at hij; rw [e3]; exact h.idUniq _ _ _ _ hi' hs hij
    · exact h.idUniq _ _ _ _ hi' hj' hij
  · intro x hx
    simp only [put] at hx
    rcases List.mem_or_eq_of_mem_set hx with hx | rfl
    · exact h.subOk x hx
    · exact hok
  · intro c cn2 hc2
    simp only [put, List.getElem?_set] at hc2
    have hcnt := countP_set (fun x => x.conn == c && x.holds) st.subs k s s' hs
    simp only [held, put]
    by_cases hcc : s'.conn = c
    · have hlen : s'.conn < st.conns.length := by rw [hconn]; exact h.connOk s hmem
      simp [hcc] at hc2
      have hlen' : c < st.conns.length := by omega
      simp [hlen'] at hc2
      subst hc2
      have hp := h.permit c cn (by rw [← hcc, hconn]; exact hc)
      simp only [held] at hp
      have e1 : s.conn = c := by rw [← hconn]; exact hcc
      simp [hcc, e1] at hcnt
      rw [hcap]
      omega
    · simp [hcc] at hc2
      have hp := h.permit c cn2 hc2
      simp only [held] at hp
      have e1 : ¬ s.conn = c := by rw [← hconn]; exact hcc
      simp [hcc, e1] at hcnt
      omega

/-- changing only queue / wire / flags of a connection -/
theorem inv_putConn {st : State} (h : Inv st) {c : Nat} {cn cn' : Conn}
    (hc : st.conns[c]? = some cn) (hcap : cn'.cap = cn.cap) (hperm : cn'.permitsFree = cn.permitsFree) :
    Inv (putConn st c cn') := by
  refine ⟨?_, h.idLt, h.idUniq, h.subOk, ?_⟩
  · intro x hx
    simp only [putConn, List.length_set]
    exact h.connOk x hx
  · intro c2 cn2 hc2
    simp only [putConn, List.getElem?_set] at hc2
    simp only [held, putConn]
    by_cases hcc : c = c2
    · subst hcc
      have hlen : c < st.conns.length := by
        rcases List.getElem?_eq_some_iff.mp hc with ⟨hh, _⟩; exact hh
      simp [hlen] at hc2
      subst hc2
      have := h.permit c cn hc
      simp only [held] at this
      omega
    · simp [hcc] at hc2
      exact h.permit c2 cn2 hc2

theorem lookup_mem {st : State} {k : Nat} {s : Sub} {cn : Conn} (h : lookup st k = some (s, cn)) :
    s ∈ st.subs := List.mem_iff_getElem?.mpr ⟨k, (lookup_some h).1⟩

/-! ### every operation preserves the invariant -/

theorem inv_accept {st : State} (h : Inv st) (k : Nat) : Inv (doAccept st k).1 := by
  unfold doAccept
  split
  · exact h
  · rename_i s cn hl
    have ok := h.subOk s (lookup_mem hl)
    split
    · exact h
    · rename_i hph
      have hph : s.phase = .pending := by simpa using hph
      have hc0 : s.clones = 0 := by
        rcases Nat.eq_zero_or_pos s.clones with h0 | h0
        · exact h0
        · have := ok.clonesAcc h0; simp [hph] at this
      split
      · refine inv_put h hl rfl rfl ?_ ?_ ?_
        · constructor <;> simp_all
          · intro hu; have := ok.unsubAcc hu; simp [hph] at this
          · intro hu; have := ok.closeAcc hu; simp [hph] at this
        · rfl
        · simp [Conn.release, Sub.holds, hph, hc0]
      · split
        · exact h
        · refine inv_put h hl rfl rfl ?_ ?_ ?_
          · have hu : s.unsubscribed = false := by
              cases hu : s.unsubscribed with
              | false => rfl
              | true => have := ok.unsubAcc hu; simp [hph] at this
            have ho : s.inTable = false := by
              cases hi : s.inTable with
              | false => rfl
              | true => have := ok.table.mp hi; simp [hph] at this
            constructor <;> simp_all
            sorry
          · rfl
          · simp [Conn.push, Sub.holds, hph]

end Jrpc.SubServer
