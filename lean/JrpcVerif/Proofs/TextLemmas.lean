/-
  Helper lemmas for the JSON text layer (F1): length/suffix facts, fuel independence.
-/
import JrpcVerif.Model.JsonText
namespace Jrpc

/-! ### lengths -/

theorem skipWs_length_le (t : Text) : (skipWs t).length ≤ t.length := by
  fun_induction skipWs t <;> simp_all <;> omega

theorem skipDigits_length_le (t : Text) : (skipDigits t).length ≤ t.length := by
  fun_induction skipDigits t <;> simp_all <;> omega

theorem skipStr_length_lt (t r : Text) (h : skipStr t = some r) : r.length < t.length := by
  fun_induction skipStr t <;> simp_all <;> omega

theorem matchLit_length (p t r : Text) (h : matchLit p t = some r) : r.length + p.length = t.length := by
  fun_induction matchLit p t <;> simp_all <;> omega

theorem skipSign_length_le (t : Text) : (skipSign t).length ≤ t.length := by
  cases t <;> simp [skipSign]; split <;> simp

theorem skipDigits1_length_lt (t r : Text) (h : skipDigits1 t = some r) : r.length < t.length := by
  cases t with
  | nil => simp [skipDigits1] at h
  | cons c t =>
    simp only [skipDigits1] at h
    split at h
    · simp at h; subst h; have := skipDigits_length_le t; simp; omega
    · simp at h

theorem skipExponent_length_lt (t r : Text) (h : skipExponent t = some r) : r.length < t.length := by
  unfold skipExponent at h
  have := skipDigits1_length_lt _ _ h
  have := skipSign_length_le t
  omega

theorem skipExpOpt_length_le (t r : Text) (h : skipExpOpt t = some r) : r.length ≤ t.length := by
  cases t with
  | nil => simp [skipExpOpt] at h; subst h; simp
  | cons c t =>
    simp only [skipExpOpt] at h
    split at h
    · have := skipExponent_length_lt _ _ h; simp; omega
    · simp at h; subst h; simp

theorem skipFracExp_length_le (t r : Text) (h : skipFracExp t = some r) : r.length ≤ t.length := by
  cases t with
  | nil => simp [skipFracExp] at h; subst h; simp
  | cons c t =>
    simp only [skipFracExp] at h
    split at h
    · split at h
      · simp at h
      · rename_i r1 h1
        have := skipDigits1_length_lt _ _ h1
        have := skipExpOpt_length_le _ _ h; simp; omega
    · exact skipExpOpt_length_le _ _ h

theorem skipInteger_length_lt (t r : Text) (h : skipInteger t = some r) : r.length < t.length := by
  unfold skipInteger at h
  split at h
  · split at h
    · split at h
      · split at h
        · simp at h
        · have := skipFracExp_length_le _ _ h; simp at this; simp; omega
      · simp at h; subst h; simp
    · split at h
      · have := skipFracExp_length_le _ _ h
        have := skipDigits_length_le ‹_›; simp; omega
      · simp at h
  · simp at h

theorem skipNumber_length_lt (t r : Text) (h : skipNumber t = some r) : r.length < t.length := by
  unfold skipNumber at h
  split at h
  · split at h
    · have := skipInteger_length_lt _ _ h; simp; omega
    · exact skipInteger_length_lt _ _ h
  · simp at h


theorem afterItem_length (close : Nat) (t r : Text) (b : Bool) (h : afterItem close t = some (b, r)) :
    r.length < t.length := by
  unfold afterItem at h
  split at h
  · simp at h
  · rename_i d r1 hws
    have := skipWs_length_le t
    rw [hws] at this; simp at this
    split at h
    · simp at h; obtain ⟨_, h⟩ := h; subst h
      have := skipWs_length_le r1; omega
    · split at h
      · simp at h; obtain ⟨_, h⟩ := h; subst h; omega
      · simp at h

theorem splitKey_length (t k r : Text) (h : splitKey t = some (k, r)) : r.length + 2 < t.length := by
  unfold splitKey at h
  split at h
  · simp at h
  · split at h
    · simp at h
    · split at h
      · simp at h
      · rename_i r0 hs
        have := skipStr_length_lt _ _ hs
        split at h
        · simp at h
        · rename_i col r1 hws
          have := skipWs_length_le r0
          rw [hws] at this; simp at this
          split at h
          · simp at h
          · simp at h; obtain ⟨_, h⟩ := h; subst h
            have := skipWs_length_le r1; simp; omega

theorem skipValue_zero (t : Text) : skipValue 0 t = none := by cases t <;> rfl
theorem skipElems_zero (t : Text) : skipElems 0 t = none := by rfl
theorem skipMembers_zero (t : Text) : skipMembers 0 t = none := by rfl

/-- all three skippers consume at least one character -/
theorem skip_length_lt (f : Nat) :
    (∀ t r, skipValue f t = some r → r.length < t.length) ∧
    (∀ t r, skipElems f t = some r → r.length < t.length) ∧
    (∀ t r, skipMembers f t = some r → r.length < t.length) := by
  induction f with
  | zero =>
    refine ⟨?_, ?_, ?_⟩ <;> intro t r h
    · rw [skipValue_zero] at h; cases h
    · rw [skipElems_zero] at h; cases h
    · rw [skipMembers_zero] at h; cases h
  | succ f ih =>
    obtain ⟨ihV, ihE, ihM⟩ := ih
    refine ⟨?_, ?_, ?_⟩
    · intro t r h
      cases t with
      | nil => simp [skipValue] at h
      | cons c t =>
        simp only [skipValue] at h
        split at h
        · have := skipStr_length_lt _ _ h; simp; omega
        split at h
        · split at h
          · simp at h
          · rename_i d r1 hws
            have := skipWs_length_le t
            rw [hws] at this; simp at this
            split at h
            · simp at h; subst h; simp; omega
            · have := ihE _ _ h; simp at this; simp; omega
        split at h
        · split at h
          · simp at h
          · rename_i d r1 hws
            have := skipWs_length_le t
            rw [hws] at this; simp at this
            split at h
            · simp at h; subst h; simp; omega
            · have := ihM _ _ h; simp at this; simp; omega
        split at h
        · have := matchLit_length _ _ _ h; simp at this; simp; omega
        split at h
        · have := matchLit_length _ _ _ h; simp at this; simp; omega
        split at h
        · have := matchLit_length _ _ _ h; simp at this; simp; omega
        split at h
        · exact skipNumber_length_lt _ _ h
        · simp at h
    · intro t r h
      rw [skipElems] at h
      split at h
      · simp at h
      · rename_i r0 hv
        have := ihV _ _ hv
        split at h
        · simp at h
        · rename_i r1 ha
          have := afterItem_length _ _ _ _ ha
          have := ihE _ _ h; omega
        · rename_i r1 ha
          have := afterItem_length _ _ _ _ ha
          simp at h; subst h; omega
    · intro t r h
      rw [skipMembers] at h
      split at h
      · simp at h
      · rename_i k tv hk
        have := splitKey_length _ _ _ hk
        split at h
        · simp at h
        · rename_i r0 hv
          have := ihV _ _ hv
          split at h
          · simp at h
          · rename_i r1 ha
            have := afterItem_length _ _ _ _ ha
            have := ihM _ _ h; omega
          · rename_i r1 ha
            have := afterItem_length _ _ _ _ ha
            simp at h; subst h; omega

theorem skipValue_length_lt {f : Nat} {t r : Text} (h : skipValue f t = some r) : r.length < t.length :=
  (skip_length_lt f).1 t r h

/-- more fuel never changes a successful result -/
theorem skip_fuel_succ (f : Nat) :
    (∀ t r, skipValue f t = some r → skipValue (f + 1) t = some r) ∧
    (∀ t r, skipElems f t = some r → skipElems (f + 1) t = some r) ∧
    (∀ t r, skipMembers f t = some r → skipMembers (f + 1) t = some r) := by
  induction f with
  | zero =>
    refine ⟨?_, ?_, ?_⟩ <;> intro t r h
    · rw [skipValue_zero] at h; cases h
    · rw [skipElems_zero] at h; cases h
    · rw [skipMembers_zero] at h; cases h
  | succ f ih =>
    obtain ⟨ihV, ihE, ihM⟩ := ih
    refine ⟨?_, ?_, ?_⟩
    · intro t r h
      cases t with
      | nil => simp [skipValue] at h
      | cons c t =>
        rw [skipValue] at h ⊢
        grind
    · intro t r h
      rw [skipElems] at h ⊢
      grind
    · intro t r h
      rw [skipMembers] at h ⊢
      split at h
      · simp at h
      · rename_i k tv hk
        split at h
        · simp at h
        · rename_i r0 hv
          rw [ihV _ _ hv]; simp only []
          split at h
          · simp at h
          · exact ihM _ _ h
          · exact h

theorem skipValue_fuel_mono {f g : Nat} {t r : Text} (h : skipValue f t = some r) (hg : f ≤ g) :
    skipValue g t = some r := by
  induction hg with
  | refl => exact h
  | step _ ih => exact (skip_fuel_succ _).1 _ _ ih

theorem skipElems_fuel_mono {f g : Nat} {t r : Text} (h : skipElems f t = some r) (hg : f ≤ g) :
    skipElems g t = some r := by
  induction hg with
  | refl => exact h
  | step _ ih => exact (skip_fuel_succ _).2.1 _ _ ih

theorem skipMembers_fuel_mono {f g : Nat} {t r : Text} (h : skipMembers f t = some r) (hg : f ≤ g) :
    skipMembers g t = some r := by
  induction hg with
  | refl => exact h
  | step _ ih => exact (skip_fuel_succ _).2.2 _ _ ih


/-- fuel equal to the number of characters consumed always suffices -/
theorem skip_fuel_enough (f : Nat) :
    (∀ t r, skipValue f t = some r → ∀ g, t.length ≤ g + r.length → skipValue g t = some r) ∧
    (∀ t r, skipElems f t = some r → ∀ g, t.length ≤ g + r.length → skipElems g t = some r) ∧
    (∀ t r, skipMembers f t = some r → ∀ g, t.length ≤ g + r.length → skipMembers g t = some r) := by
  induction f with
  | zero =>
    refine ⟨?_, ?_, ?_⟩ <;> intro t r h
    · rw [skipValue_zero] at h; cases h
    · rw [skipElems_zero] at h; cases h
    · rw [skipMembers_zero] at h; cases h
  | succ f ih =>
    obtain ⟨ihV, ihE, ihM⟩ := ih
    refine ⟨?_, ?_, ?_⟩
    · intro t r h g hg
      have hlt := (skip_length_lt (f+1)).1 _ _ h
      cases g with
      | zero => omega
      | succ g =>
      cases t with
      | nil => simp [skipValue] at h
      | cons c t =>
        rw [skipValue] at h ⊢
        split
        · simp_all
        split
        · simp_all
          split at h
          · simp at h
          · rename_i d r1 hws
            have := skipWs_length_le t
            rw [hws] at this; simp at this
            split at h
            · rename_i hd; simp [hd]; simpa using h
            · rename_i hd; simp [hd]; exact ihE _ _ h g (by simp; omega)
        split
        · simp_all
          split at h
          · simp at h
          · rename_i d r1 hws
            have := skipWs_length_le t
            rw [hws] at this; simp at this
            split at h
            · rename_i hd; simp [hd]; simpa using h
            · rename_i hd; simp [hd]; exact ihM _ _ h g (by simp; omega)
        all_goals simp_all
    · intro t r h g hg
      have hlt := (skip_length_lt (f+1)).2.1 _ _ h
      cases g with
      | zero => omega
      | succ g =>
      rw [skipElems] at h ⊢
      split at h
      · simp at h
      · rename_i r0 hv
        have := skipValue_length_lt hv
        split at h
        · simp at h
        · rename_i r1 ha
          have := afterItem_length _ _ _ _ ha
          have := (skip_length_lt f).2.1 _ _ h
          rw [ihV _ _ hv g (by omega)]; simp only [ha]
          exact ihE _ _ h g (by omega)
        · rename_i r1 ha
          have := afterItem_length _ _ _ _ ha
          simp at h; subst h
          rw [ihV _ _ hv g (by omega)]; simp only [ha]
    · intro t r h g hg
      have hlt := (skip_length_lt (f+1)).2.2 _ _ h
      cases g with
      | zero => omega
      | succ g =>
      rw [skipMembers] at h ⊢
      split at h
      · simp at h
      · rename_i k tv hk
        have := splitKey_length _ _ _ hk
        split at h
        · simp at h
        · rename_i r0 hv
          have := skipValue_length_lt hv
          split at h
          · simp at h
          · rename_i r1 ha
            have := afterItem_length _ _ _ _ ha
            have := (skip_length_lt f).2.2 _ _ h
            rw [ihV _ _ hv g (by omega)]; simp only [ha]
            exact ihM _ _ h g (by omega)
          · rename_i r1 ha
            have := afterItem_length _ _ _ _ ha
            simp at h; subst h
            rw [ihV _ _ hv g (by omega)]; simp only [ha]

/-! ### string codec -/


theorem isHex_hexDigit (n : Nat) (h : n < 16) : isHex (hexDigit n) = true := by
  unfold hexDigit isHex isDigit
  split <;> simp <;> omega

theorem hexVal_hexDigit (n : Nat) (h : n < 16) : hexVal (hexDigit n) = n := by
  unfold hexDigit hexVal isDigit
  split
  · simp; split <;> omega
  · have h1 : ¬ (48 ≤ 87 + n ∧ 87 + n ≤ 57) := by omega
    have h2 : ¬ (65 ≤ 87 + n ∧ 87 + n ≤ 70) := by omega
    simp [h1, h2]

/-! custom unfolding lemmas for `skipStr` (the generated equations are split by pattern overlap) -/
theorem skipStr_quote (r : Text) : skipStr (34 :: r) = some r := by
  rw [skipStr.eq_def]; simp
theorem skipStr_plain (c : Nat) (r : Text) (h1 : c ≠ 34) (h2 : c ≠ 92) (h3 : 32 ≤ c) :
    skipStr (c :: r) = skipStr r := by
  rw [skipStr.eq_def]; simp [h1, h2]; omega
theorem skipStr_esc (e : Nat) (r : Text) (h : isSimpleEsc e = true) :
    skipStr (92 :: e :: r) = skipStr r := by
  rw [skipStr.eq_def]
  have : e ≠ 117 := by intro h'; subst h'; simp [isSimpleEsc] at h
  simp [h, this]
theorem skipStr_u (a b c d : Nat) (r : Text) (h : (isHex a && isHex b && isHex c && isHex d) = true) :
    skipStr (92 :: 117 :: a :: b :: c :: d :: r) = skipStr r := by
  rw [skipStr.eq_def]; simp only [] ; simp [h]

theorem skipStr_encodeChar (c : Nat) (t : Text) : skipStr (encodeChar c ++ t) = skipStr t := by
  unfold encodeChar
  split; · exact skipStr_esc _ _ (by decide)
  split; · exact skipStr_esc _ _ (by decide)
  split; · exact skipStr_esc _ _ (by decide)
  split; · exact skipStr_esc _ _ (by decide)
  split; · exact skipStr_esc _ _ (by decide)
  split; · exact skipStr_esc _ _ (by decide)
  split; · exact skipStr_esc _ _ (by decide)
  split
  · rename_i hlt
    have h1 := isHex_hexDigit (c / 16) (by omega)
    have h2 := isHex_hexDigit (c % 16) (by omega)
    have h0 : isHex 48 = true := by decide
    exact skipStr_u _ _ _ _ _ (by simp [h1, h2, h0])
  · simp_all
    exact skipStr_plain _ _ (by assumption) (by assumption) (by omega)

theorem skipStr_encodeStrBody (s r : Text) : skipStr (encodeStrBody s ++ 34 :: r) = some r := by
  induction s with
  | nil => simp [encodeStrBody, skipStr_quote]
  | cons c s ih => simp [encodeStrBody, skipStr_encodeChar, ih]


theorem decodeStrBody_nil : decodeStrBody [] = some [] := by rw [decodeStrBody.eq_def]
theorem decodeStrBody_plain (c : Nat) (r : Text) (h1 : c ≠ 34) (h2 : c ≠ 92) (h3 : 32 ≤ c) :
    decodeStrBody (c :: r) = (decodeStrBody r).map (fun s => c :: s) := by
  rw [decodeStrBody.eq_def]; simp [h1, h2]; omega
theorem decodeStrBody_esc (e : Nat) (r : Text) (h : isSimpleEsc e = true) :
    decodeStrBody (92 :: e :: r) = (decodeStrBody r).map (fun s => simpleEscVal e :: s) := by
  rw [decodeStrBody.eq_def]
  have : e ≠ 117 := by intro h'; subst h'; simp [isSimpleEsc] at h
  simp [h, this]
theorem decodeStrBody_u (a b c d : Nat) (r : Text)
    (h : (isHex a && isHex b && isHex c && isHex d) = true) (hn : hex4 a b c d < 0xD800) :
    decodeStrBody (92 :: 117 :: a :: b :: c :: d :: r) = (decodeStrBody r).map (fun s => hex4 a b c d :: s) := by
  rw [decodeStrBody.eq_def]; simp only []
  simp at h
  have h1 : ¬ (0xDC00 ≤ hex4 a b c d) := by omega
  have h2 : ¬ (0xD800 ≤ hex4 a b c d) := by omega
  simp [h, h1, h2]

theorem decodeStrBody_encodeChar (c : Nat) (t : Text) :
    decodeStrBody (encodeChar c ++ t) = (decodeStrBody t).map (fun s => c :: s) := by
  unfold encodeChar
  split; · rename_i h; simp at h; subst h; exact decodeStrBody_esc _ _ (by decide)
  split; · rename_i h; simp at h; subst h; exact decodeStrBody_esc _ _ (by decide)
  split; · rename_i h; simp at h; subst h; exact decodeStrBody_esc _ _ (by decide)
  split; · rename_i h; simp at h; subst h; exact decodeStrBody_esc _ _ (by decide)
  split; · rename_i h; simp at h; subst h; exact decodeStrBody_esc _ _ (by decide)
  split; · rename_i h; simp at h; subst h; exact decodeStrBody_esc _ _ (by decide)
  split; · rename_i h; simp at h; subst h; exact decodeStrBody_esc _ _ (by decide)
  split
  · rename_i hlt
    have h1 := isHex_hexDigit (c / 16) (by omega)
    have h2 := isHex_hexDigit (c % 16) (by omega)
    have h0 : isHex 48 = true := by decide
    have hv : hex4 48 48 (hexDigit (c / 16)) (hexDigit (c % 16)) = c := by
      unfold hex4
      rw [hexVal_hexDigit _ (by omega), hexVal_hexDigit _ (by omega)]
      have : hexVal 48 = 0 := by decide
      rw [this]; omega
    have := decodeStrBody_u 48 48 (hexDigit (c / 16)) (hexDigit (c % 16)) t (by simp [h1, h2, h0]) (by omega)
    rw [hv] at this
    exact this
  · simp_all
    exact decodeStrBody_plain _ _ (by assumption) (by assumption) (by omega)

theorem decodeStrBody_encodeStrBody (s : Text) : decodeStrBody (encodeStrBody s) = some s := by
  induction s with
  | nil => simp [encodeStrBody, decodeStrBody_nil]
  | cons c s ih => simp [encodeStrBody, decodeStrBody_encodeChar, ih]


theorem decodeString_encodeString (s : Text) : decodeString (encodeString s) = some s := by
  unfold decodeString encodeString
  simp only []
  have hrev : (encodeStrBody s ++ [34]).reverse = 34 :: (encodeStrBody s).reverse := by simp
  have hs := skipStr_encodeStrBody s []
  simp [hrev, hs, decodeStrBody_encodeStrBody]

/-! ### integers -/

theorem natDigits_spec (f : Nat) : ∀ n, n < f → ∃ m, ∀ acc a,
    digitsVal (natDigits f n acc) a = digitsVal acc (a * m + n) := by
  induction f with
  | zero => intro n h; omega
  | succ f ih =>
    intro n h
    by_cases hn : n < 10
    · refine ⟨10, ?_⟩
      intro acc a
      have hd : isDigit (48 + n) = true := by simp [isDigit]; omega
      have : 48 + n - 48 = n := by omega
      simp [natDigits, hn, digitsVal, hd, this]
    · obtain ⟨m, hm⟩ := ih (n / 10) (by omega)
      refine ⟨m * 10, ?_⟩
      intro acc a
      simp only [natDigits, hn, if_false]
      rw [hm]
      have hd : isDigit (48 + n % 10) = true := by simp [isDigit]; omega
      simp only [digitsVal, hd, if_true]
      congr 1
      have : 48 + n % 10 - 48 = n % 10 := by omega
      rw [this, Nat.add_mul, Nat.mul_assoc]
      omega

theorem natDigits_head (f : Nat) : ∀ n acc, n < f → ∃ d rest, natDigits f n acc = (48 + d) :: rest ∧ d < 10 ∧
    (d = 0 → n = 0 ∧ rest = acc) := by
  induction f with
  | zero => intro n acc h; omega
  | succ f ih =>
    intro n acc h
    by_cases hn : n < 10
    · exact ⟨n, acc, by simp [natDigits, hn], hn, fun h0 => ⟨h0, rfl⟩⟩
    · obtain ⟨d, rest, h1, h2, h3⟩ := ih (n / 10) ((48 + n % 10) :: acc) (by omega)
      refine ⟨d, rest, by simp [natDigits, hn, h1], h2, ?_⟩
      intro h0
      have := (h3 h0).1
      omega

theorem decodeNat_encodeNat (n : Nat) : decodeNat (encodeNat n) = some n := by
  unfold encodeNat
  obtain ⟨m, hm⟩ := natDigits_spec (n + 1) n (by omega)
  obtain ⟨d, rest, h1, h2, h3⟩ := natDigits_head (n + 1) n [] (by omega)
  have hv := hm [] 0
  rw [h1] at hv ⊢
  have hd : isDigit (48 + d) = true := by simp [isDigit]; omega
  cases rest with
  | nil =>
    simp [digitsVal, hd] at hv
    simp [decodeNat, hd]
    exact hv
  | cons c rest =>
    have hd0 : d ≠ 0 := by
      intro h0; have := (h3 h0).2; simp at this
    have h48 : ¬ (48 + d = 48) := by omega
    simp only [decodeNat]
    simp [hd0]
    rw [hv]; simp [digitsVal]

theorem decodeU64_encodeNat (n : Nat) (h : n < 18446744073709551616) : decodeU64 (encodeNat n) = some n := by
  simp [decodeU64, decodeNat_encodeNat, h]

theorem encodeNat_head (n : Nat) : ∃ d rest, encodeNat n = (48 + d) :: rest ∧ d < 10 := by
  obtain ⟨d, rest, h1, h2, _⟩ := natDigits_head (n + 1) n [] (by omega)
  exact ⟨d, rest, h1, h2⟩


end Jrpc
