/-
  Wire-type round-trip lemmas (C15): integers, error objects.
-/
import JrpcVerif.Theorems.C15
import JrpcVerif.Proofs.BuildLemmas
namespace Jrpc

theorem decodeI32_encodeInt (c : Int) (h1 : -2147483648 ≤ c) (h2 : c < 2147483648) :
    decodeI32 (encodeInt c) = some c := by
  cases c with
  | ofNat n =>
    obtain ⟨d, rest, hd, hlt⟩ := encodeNat_head n
    have hdn := decodeNat_encodeNat n
    simp only [encodeInt]
    rw [hd] at hdn ⊢
    simp only [decodeI32]
    have : ¬ (48 + d = 45) := by omega
    simp only [beq_iff_eq, this, ↓reduceIte, hdn]
    have : n < 2147483648 := by
      have : (Int.ofNat n) = (n : Int) := rfl
      omega
    simp [this]
  | negSucc n =>
    have hdn := decodeNat_encodeNat (n + 1)
    simp only [encodeInt, decodeI32, beq_self_eq_true, ↓reduceIte, hdn]
    have h3 : n + 1 ≤ 2147483648 := by
      have : Int.negSucc n = -((n : Int) + 1) := Int.negSucc_eq n
      omega
    simp [h3]
    exact (Int.negSucc_eq n).symm

theorem members_objectText (kvs : List (Text × Text)) (hst : ∀ kv ∈ kvs, Stable kv.2) :
    (members (objectText kvs)).bind decodeKeys = some kvs := by
  have := members_join kvs hst
  simp only [List.cons_append] at this
  simp [objectText, this, decodeKeys_rawKeys]

/-- well-formed error object: i32 code, data (if any) a stable JSON value other than `null` -/
def ErrObj.WF (e : ErrObj) : Prop :=
  -2147483648 ≤ e.code ∧ e.code < 2147483648 ∧ ∀ d, e.data = some d → Stable d ∧ d ≠ tNull

theorem elements_objectText (kvs : List (Text × Text)) : elements (objectText kvs) = none := by
  simp [elements, elementsF, objectText, skipWs, isJsonWs]

/-- **C15.2** — error objects: parse ∘ serialise = id -/
theorem c15_error_rt (e : ErrObj) (h : e.WF) : decodeErrObj (encodeErrObj e) = some e := by
  obtain ⟨h1, h2, h3⟩ := h
  obtain ⟨code, msg, data⟩ := e
  have hcode := decodeI32_encodeInt code h1 h2
  have hmsg := decodeString_encodeString msg
  cases data with
  | none =>
    have hm := members_objectText [(kCode, encodeInt code), (kMessage, encodeString msg)]
      (by intro kv hkv; simp at hkv; rcases hkv with h | h <;> subst h
          · exact stable_encodeInt code
          · exact stable_encodeString msg)
    have hmo : members (objectText [(kCode, encodeInt code), (kMessage, encodeString msg)]) ≠ none := by
      intro hn; rw [hn] at hm; simp at hm
    cases hmm : members (objectText [(kCode, encodeInt code), (kMessage, encodeString msg)]) with
    | none => exact absurd hmm hmo
    | some ms =>
      rw [hmm] at hm
      simp only [Option.bind] at hm
      simp only [decodeErrObj, encodeErrObj, errObjMembers, List.append_nil, structFields, hmm, hm]
      simp [countField, lookupField, kCode, kMessage, kData, hcode, hmsg, optRaw]
  | some d =>
    obtain ⟨hsd, hnd⟩ := h3 d rfl
    have hm := members_objectText [(kCode, encodeInt code), (kMessage, encodeString msg), (kData, d)]
      (by intro kv hkv; simp at hkv; rcases hkv with h | h | h <;> subst h
          · exact stable_encodeInt code
          · exact stable_encodeString msg
          · exact hsd)
    cases hmm : members (objectText [(kCode, encodeInt code), (kMessage, encodeString msg), (kData, d)]) with
    | none => rw [hmm] at hm; simp at hm
    | some ms =>
      rw [hmm] at hm
      simp only [Option.bind] at hm
      simp only [decodeErrObj, encodeErrObj, errObjMembers, List.cons_append, List.nil_append, structFields, hmm, hm]
      simp [countField, lookupField, kCode, kMessage, kData, hcode, hmsg, optRaw, hnd]

end Jrpc
