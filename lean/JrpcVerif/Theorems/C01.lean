/-
  C01 — every message gets at most one well-formed reply carrying its own id.
  Decision-logic theorems over the transcribed pipeline (Model/ServerMsg.lean).  "Frames" are all
  texts put on the connection queue because of one message: the per-message task's reply and
  whatever subscription callbacks wrote directly (`direct`).
-/
import JrpcVerif.Model.ServerMsg
namespace Jrpc.Srv
open Jrpc Jrpc.Gen.E

/-- frames of a single (non-batch) message on WS -/
def singleFrames (cfg : Cfg) (sub : Nat) (t : Text) : List Text :=
  let o := handleSingle cfg .ws sub t
  o.direct ++ (match o.reply with | some r => [r] | none => [])

theorem kind_subscribe (m : Text) (h : kindOfMethod m = some .subscribe) : m = nSub := by
  unfold kindOfMethod at h
  split at h
  · rename_i hm; simpa using hm
  split at h; · simp at h
  split at h; · simp at h
  split at h; · simp at h
  split at h <;> simp at h

theorem kind_unsubscribe (m : Text) (h : kindOfMethod m = some .unsubscribe) : m = nUnsub := by
  unfold kindOfMethod at h
  split at h; · simp at h
  split at h
  · rename_i hm; simpa using hm
  split at h; · simp at h
  split at h; · simp at h
  split at h <;> simp at h

theorem handlerOutcome_kind (m : Text) (p : Option Text) (k : MKind) (o : Outcome)
    (h : handlerOutcome m p = some (k, o)) : kindOfMethod m = some k ∧ o = outcomeOf m p := by
  unfold handlerOutcome at h
  split at h <;> simp_all

theorem callMethod_direct_nil (cfg : Cfg) (tr : Transport) (sub : Nat) (r : Request)
    (h : r.method ≠ nSub) : (callMethod cfg tr sub r).direct = [] ∧
      (callMethod cfg tr sub r).isSubscription = false ∧ (callMethod cfg tr sub r).nextSub = sub := by
  unfold callMethod
  cases hh : handlerOutcome r.method r.params with
  | none => simp
  | some ko =>
    obtain ⟨k, o⟩ := ko
    have hk : k ≠ .subscribe := by
      intro hk; subst hk
      exact h (kind_subscribe _ (handlerOutcome_kind _ _ _ _ hh).1)
    cases k <;> cases tr <;> cases o <;> simp_all

/-- **C01.1** — at most one frame for every message that is not a call of the subscription method;
nothing is ever written outside the reply. -/
theorem c01_at_most_one_frame (cfg : Cfg) (sub : Nat) (t : Text)
    (h : ∀ r, classify t = .call r → r.method ≠ nSub) :
    (singleFrames cfg sub t).length ≤ 1 ∧ (handleSingle cfg .ws sub t).direct = [] := by
  unfold singleFrames handleSingle
  cases hc : classify t with
  | call r =>
    have := callMethod_direct_nil cfg .ws sub r (h r hc)
    simp only [this.1, this.2.1]
    simp
  | notif n => simp
  | invalid id => simp
  | garbage => simp

/-- **C01.2** — a message is left unanswered exactly when it classifies as a notification (or is
the accepted call of a subscription, which is answered by the subscription itself), and then no
handler runs. -/
theorem c01_unanswered_iff_notification (cfg : Cfg) (tr : Transport) (sub : Nat) (t : Text) :
    ((handleSingle cfg tr sub t).reply = none ↔
      ((∃ n, classify t = .notif n) ∨ (∃ r, classify t = .call r ∧ (callMethod cfg tr sub r).isSubscription = true))) ∧
    ((∃ n, classify t = .notif n) → (handleSingle cfg tr sub t).invoked = [] ∧ (handleSingle cfg tr sub t).direct = []) := by
  unfold handleSingle
  cases hc : classify t with
  | call r =>
    simp only []
    by_cases hs : (callMethod cfg tr sub r).isSubscription = true <;> simp [hs]
  | notif n => simp
  | invalid id => simp
  | garbage => simp

/-- **C01.3** — a valid call is answered by a response object built with *that* id, carrying the
handler's outcome (result / its error), `-32601` when the method is unknown, `-32603` when the
library reports a failed (panicked) handler; a result that does not fit is C08's business. -/
theorem c01_valid_call_echo (cfg : Cfg) (tr : Transport) (sub : Nat) (t : Text) (r : Request)
    (hc : classify t = .call r) (hns : r.method ≠ nSub) (hnu : r.method ≠ nUnsub) :
    (handleSingle cfg tr sub t).reply = some (
      match handlerOutcome r.method r.params with
      | none => respText r.id (.error (errNoData METHOD_NOT_FOUND_CODE METHOD_NOT_FOUND_MSG))
      | some (_, .result raw) => methodResponse r.id (.result raw) cfg.maxResp
      | some (_, .error e) => methodResponse r.id (.error e) cfg.maxResp
      | some (_, .panic) => respText r.id (.error internalError)) := by
  unfold handleSingle
  simp only [hc]
  have hd := callMethod_direct_nil cfg tr sub r hns
  simp only [hd.2.1]
  unfold callMethod
  cases hh : handlerOutcome r.method r.params with
  | none => simp [errorResponse]
  | some ko =>
    obtain ⟨k, o⟩ := ko
    have hk1 : k ≠ .subscribe := by
      intro hk; subst hk
      exact hns (kind_subscribe _ (handlerOutcome_kind _ _ _ _ hh).1)
    have hk2 : k ≠ .unsubscribe := by
      intro hk; subst hk
      exact hnu (kind_unsubscribe _ (handlerOutcome_kind _ _ _ _ hh).1)
    cases k <;> cases o <;> simp_all [errorResponse]

/-- **C01.4** — what is not a request: `-32600` with the message's id when one is recoverable,
`-32700` with id null otherwise; no handler runs. -/
theorem c01_not_a_request (cfg : Cfg) (tr : Transport) (sub : Nat) (t : Text) :
    (∀ id, classify t = .invalid id →
        (handleSingle cfg tr sub t).reply = some (respText id (.error (errNoData INVALID_REQUEST_CODE INVALID_REQUEST_MSG))) ∧
        (handleSingle cfg tr sub t).invoked = []) ∧
    (classify t = .garbage →
        (handleSingle cfg tr sub t).reply = some (respText .null (.error (errNoData PARSE_ERROR_CODE PARSE_ERROR_MSG))) ∧
        (handleSingle cfg tr sub t).invoked = []) := by
  refine ⟨?_, ?_⟩
  · intro id hc; simp [handleSingle, hc, errorResponse]
  · intro hc; simp [handleSingle, hc, parseErrorResp, errorResponse]

/-- a text the sniff rejects (no `{`/`[` after at most 127 ASCII-whitespace characters) is answered
`-32700`/null over WS and with the same object (status 400) over HTTP, without running anything -/
theorem c01_unsniffable (cfg : Cfg) (sub : Nat) (t : Text) (hsz : byteLen t ≤ cfg.maxReq)
    (hs : sniff 128 0 t = none) :
    (wsMessage cfg sub t).frames = [parseErrorResp] ∧ (wsMessage cfg sub t).invoked = [] := by
  have : ¬ byteLen t > cfg.maxReq := by omega
  simp [wsMessage, this, hs]

/-- **C01.6** — no handler runs for anything but a valid call to its own name -/
theorem c01_invocations (cfg : Cfg) (tr : Transport) (sub : Nat) (t : Text) (m p : Text)
    (h : (m, p) ∈ (handleSingle cfg tr sub t).invoked) :
    ∃ r, classify t = .call r ∧ r.method = m ∧ (handlerOutcome m r.params).isSome ∧ p = paramsText r.params := by
  unfold handleSingle at h
  cases hc : classify t with
  | call r =>
    simp only [hc] at h
    unfold callMethod at h
    cases hh : handlerOutcome r.method r.params with
    | none => simp [hh] at h
    | some ko =>
      obtain ⟨k, o⟩ := ko
      refine ⟨r, rfl, ?_⟩
      cases k <;> cases tr <;> cases o <;> simp_all
  | notif n => simp [hc] at h
  | invalid id => simp [hc] at h
  | garbage => simp [hc] at h

/-- **C01.7** — the connection keeps serving: the only state a message leaves behind is the
subscription-id counter, and only an accepted subscribe call advances it. -/
theorem c01_keeps_serving (cfg : Cfg) (tr : Transport) (sub : Nat) (t : Text)
    (h : ∀ r, classify t = .call r → r.method ≠ nSub) :
    (handleSingle cfg tr sub t).nextSub = sub := by
  unfold handleSingle
  cases hc : classify t with
  | call r => simp [(callMethod_direct_nil cfg tr sub r (h r hc)).2.2]
  | notif n => simp
  | invalid id => simp
  | garbage => simp

/-- **C01.5** — a request to a non-subscription method yields the same response object over HTTP
and over WebSocket (the HTTP acknowledgement of "no reply" is the body `null`). -/
theorem c01_http_eq_ws (cfg : Cfg) (sub : Nat) (t : Text)
    (h : ∀ r, classify t = .call r → r.method ≠ nSub ∧ r.method ≠ nUnsub) :
    (handleSingle cfg .http 0 t).reply = (handleSingle cfg .ws sub t).reply := by
  unfold handleSingle
  cases hc : classify t with
  | call r =>
    obtain ⟨h1, h2⟩ := h r hc
    have ha := callMethod_direct_nil cfg .http 0 r h1
    have hb := callMethod_direct_nil cfg .ws sub r h1
    simp only [ha.2.1, hb.2.1]
    unfold callMethod
    cases hh : handlerOutcome r.method r.params with
    | none => simp
    | some ko =>
      obtain ⟨k, o⟩ := ko
      have hk1 : k ≠ .subscribe := by
        intro hk; subst hk
        exact h1 (kind_subscribe _ (handlerOutcome_kind _ _ _ _ hh).1)
      have hk2 : k ≠ .unsubscribe := by
        intro hk; subst hk
        exact h2 (kind_unsubscribe _ (handlerOutcome_kind _ _ _ _ hh).1)
      cases k <;> cases o <;> simp_all
  | notif n => simp
  | invalid id => simp
  | garbage => simp

end Jrpc.Srv
