/-
  C01 under pipelining — messages that do not call the subscription method are answered
  independently of the connection state (the subscription-id counter is the only state a message
  can read), so the multiset of frames a WebSocket connection produces for a burst of such messages
  does not depend on the order in which the per-message tasks run.  This is what the harness's
  `burst` operation compares (sorted frames, any send-queue capacity).
-/
import JrpcVerif.Theorems.C02
namespace Jrpc.Srv
open Jrpc Jrpc.Gen.E

/-- a call to anything but the subscription method neither reads nor advances the id counter -/
theorem callMethod_sub_indep (cfg : Cfg) (tr : Transport) (s s' : Nat) (r : Request) (h : r.method ≠ nSub) :
    callMethod cfg tr s' r = { callMethod cfg tr s r with nextSub := s' } := by
  unfold callMethod
  cases hh : handlerOutcome r.method r.params with
  | none => simp
  | some ko =>
    obtain ⟨k, o⟩ := ko
    have hk : k ≠ .subscribe := by
      intro hk
      subst hk
      exact h (kind_subscribe _ (handlerOutcome_kind _ _ _ _ hh).1)
    cases k with
    | subscribe => exact absurd rfl hk
    | unsubscribe => cases tr <;> simp
    | sync => cases o <;> simp
    | async => cases o <;> simp
    | blocking => cases o <;> simp

def BatchState.setSub (st : BatchState) (s : Nat) : BatchState := { st with sub := s }

/-- the batch loop commutes with changing the id counter when no entry calls the subscription
method -/
theorem runBatch_sub_indep (cfg : Cfg) (tr : Transport) (s' : Nat) : ∀ (es : List Entry) (st : BatchState),
    NoSub es →
    runBatch cfg tr es (st.setSub s') =
      (match runBatch cfg tr es st with
       | .ok st1 => .ok (st1.setSub s')
       | .error (e, st1) => .error (e, st1.setSub s')) := by
  intro es
  induction es with
  | nil => intro st _; simp [runBatch]
  | cons e es ih =>
    intro st hns
    have hns' : NoSub es := fun e' he' => hns e' (List.mem_cons_of_mem _ he')
    cases e with
    | call rq =>
      have hm : rq.method ≠ nSub := hns (.call rq) (List.mem_cons_self ..) rq rfl
      have hc := callMethod_sub_indep cfg tr st.sub s' rq hm
      have hn := (callMethod_direct_nil cfg tr st.sub rq hm).2.2
      simp only [runBatch, BatchState.setSub]
      rw [hc]
      dsimp only
      cases ha : st.b.append (callMethod cfg tr st.sub rq).resp cfg.maxResp with
      | error err =>
        simp only [BatchState.setSub]
      | ok b' =>
        dsimp only
        have := ih { b := b', gotNotif := st.gotNotif, direct := st.direct ++ (callMethod cfg tr st.sub rq).direct,
                     invoked := st.invoked ++ (callMethod cfg tr st.sub rq).invoked,
                     sub := (callMethod cfg tr st.sub rq).nextSub } hns'
        simp only [BatchState.setSub] at this
        exact this
    | notif =>
      simp only [runBatch, BatchState.setSub]
      exact ih { st with gotNotif := true } hns'
    | invalid id =>
      simp only [runBatch, BatchState.setSub]
      cases ha : st.b.append (errorResponse id (errNoData INVALID_REQUEST_CODE INVALID_REQUEST_MSG)) cfg.maxResp with
      | error err => simp only [BatchState.setSub]
      | ok b' =>
        dsimp only
        exact ih { st with b := b' } hns'

/-- a message text that cannot reach the subscription method: neither as a single call nor as a
batch entry -/
def SubFree (t : Text) : Prop :=
  (∀ r, classify t = .call r → r.method ≠ nSub) ∧
  (∀ es, elements t = some es → NoSub (es.map classifyEntry))

def MsgOut.setSub (o : MsgOut) (s : Nat) : MsgOut := { o with nextSub := s }

theorem handleSingle_sub_indep (cfg : Cfg) (tr : Transport) (s' : Nat) (t : Text) (h : SubFree t) :
    handleSingle cfg tr s' t = (handleSingle cfg tr 0 t).setSub s' := by
  unfold handleSingle
  cases hc : classify t with
  | call r =>
    dsimp only
    rw [callMethod_sub_indep cfg tr 0 s' r (h.1 r hc)]
    rfl
  | notif n => rfl
  | invalid id => rfl
  | garbage => rfl

theorem handleBatch_sub_indep (cfg : Cfg) (tr : Transport) (s' : Nat) (t : Text) (h : SubFree t) :
    handleBatch cfg tr s' t = (handleBatch cfg tr 0 t).setSub s' := by
  unfold handleBatch
  cases hb : cfg.batch with
  | disabled => rfl
  | limit n =>
    dsimp only
    cases he : elements t with
    | none => rfl
    | some es =>
      dsimp only
      split
      · rfl
      · have := runBatch_sub_indep cfg tr s' (es.map classifyEntry) ⟨BatchB.new, false, [], [], 0⟩ (h.2 es he)
        simp only [BatchState.setSub] at this
        rw [this]
        cases runBatch cfg tr (es.map classifyEntry) ⟨BatchB.new, false, [], [], 0⟩ with
        | error p => obtain ⟨e, st1⟩ := p; rfl
        | ok st1 =>
          dsimp only
          split <;> rfl
  | unlimited =>
    dsimp only
    cases he : elements t with
    | none => rfl
    | some es =>
      dsimp only
      split
      · rfl
      · have := runBatch_sub_indep cfg tr s' (es.map classifyEntry) ⟨BatchB.new, false, [], [], 0⟩ (h.2 es he)
        simp only [BatchState.setSub] at this
        rw [this]
        cases runBatch cfg tr (es.map classifyEntry) ⟨BatchB.new, false, [], [], 0⟩ with
        | error p => obtain ⟨e, st1⟩ := p; rfl
        | ok st1 =>
          dsimp only
          split <;> rfl

/-- a WebSocket text message whose sniffed body is `SubFree` -/
def WsSubFree (t : Text) : Prop := ∀ idx single, sniff 128 0 t = some (idx, single) → SubFree (t.drop idx)

/-- **frames and invocations of such a message do not depend on the id counter**, and the counter
is left as it was -/
theorem wsMessage_sub_indep (cfg : Cfg) (s : Nat) (t : Text) (h : WsSubFree t) :
    (wsMessage cfg s t).frames = (wsMessage cfg 0 t).frames ∧
    (wsMessage cfg s t).invoked = (wsMessage cfg 0 t).invoked ∧
    (wsMessage cfg s t).nextSub = s := by
  unfold wsMessage
  split
  · exact ⟨rfl, rfl, rfl⟩
  · cases hs : sniff 128 0 t with
    | none => exact ⟨rfl, rfl, rfl⟩
    | some p =>
      obtain ⟨idx, single⟩ := p
      have hf := h idx single hs
      dsimp only
      cases single with
      | true =>
        simp only [if_true]
        rw [handleSingle_sub_indep cfg .ws s (t.drop idx) hf]
        have h0 := handleSingle_sub_indep cfg .ws 0 (t.drop idx) hf
        refine ⟨rfl, rfl, rfl⟩
      | false =>
        simp only [Bool.false_eq_true, if_false]
        rw [handleBatch_sub_indep cfg .ws s (t.drop idx) hf]
        refine ⟨rfl, rfl, rfl⟩

/-- a connection processing messages one after the other, threading the id counter -/
def wsRun (cfg : Cfg) : Nat → List Text → List Text × List Invocation
  | _, [] => ([], [])
  | s, t :: ts =>
    let o := wsMessage cfg s t
    let r := wsRun cfg o.nextSub ts
    (o.frames ++ r.1, o.invoked ++ r.2)

theorem wsRun_flat (cfg : Cfg) : ∀ (ts : List Text) (s : Nat), (∀ t ∈ ts, WsSubFree t) →
    wsRun cfg s ts = (ts.flatMap (fun t => (wsMessage cfg 0 t).frames),
                      ts.flatMap (fun t => (wsMessage cfg 0 t).invoked)) := by
  intro ts
  induction ts with
  | nil => intro s _; rfl
  | cons t ts ih =>
    intro s h
    have ht := wsMessage_sub_indep cfg s t (h t (List.mem_cons_self ..))
    have := ih (wsMessage cfg s t).nextSub (fun t' ht' => h t' (List.mem_cons_of_mem _ ht'))
    simp only [wsRun, this, ht.1, ht.2.1, List.flatMap_cons]

/-- **C01 under pipelining** — for messages that do not call the subscription method, whatever
order the connection handles them in, the frames it sends and the handlers it runs are the same
multisets: exactly the answers each message gets on its own. -/
theorem c01_pipelining_order_independent (cfg : Cfg) (s s' : Nat) (ts ts' : List Text)
    (hp : ts.Perm ts') (h : ∀ t ∈ ts, WsSubFree t) :
    (wsRun cfg s ts).1.Perm (wsRun cfg s' ts').1 ∧ (wsRun cfg s ts).2.Perm (wsRun cfg s' ts').2 := by
  have h' : ∀ t ∈ ts', WsSubFree t := fun t ht => h t (hp.mem_iff.mpr ht)
  rw [wsRun_flat cfg ts s h, wsRun_flat cfg ts' s' h']
  exact ⟨hp.flatMap_right _, hp.flatMap_right _⟩

-- non-vacuity: an ordinary call satisfies the hypothesis
def kEchoCall : Text := [123, 34, 106, 115, 111, 110, 114, 112, 99, 34, 58, 34, 50, 46, 48, 34, 44, 34, 105, 100, 34, 58, 49, 44, 34, 109, 101, 116, 104, 111, 100, 34, 58, 34, 101, 99, 104, 111, 34, 125]

example : WsSubFree kEchoCall := by
  intro idx single hs
  have h0 : sniff 128 0 kEchoCall = some (0, true) := by decide
  rw [h0] at hs
  cases hs
  have hc : classify kEchoCall = .call ⟨.num 1, nEcho, none⟩ := by decide
  have he : elements kEchoCall = none := by decide
  refine ⟨?_, ?_⟩
  · intro r hr
    rw [show List.drop 0 kEchoCall = kEchoCall from rfl, hc] at hr
    cases hr
    decide
  · intro es hes
    rw [show List.drop 0 kEchoCall = kEchoCall from rfl, he] at hes
    cases hes

end Jrpc.Srv
