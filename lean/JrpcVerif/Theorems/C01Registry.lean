/-
  C01 (well-formedness, unconditional) — every outcome of the harness registry's handlers is a
  well-formed payload for requests parsed from *any* text (uses `trim_of_stable`: `Params::new` keeps a
  raw params slice unchanged), so `c01_reply_wellformed` holds without hypotheses on the handlers.
-/
import JrpcVerif.Theorems.C01Wire
import JrpcVerif.Proofs.LastCharLemmas
namespace Jrpc.Srv
open Jrpc Jrpc.Gen.E

theorem stable_false : Stable tFalse := by
  refine ⟨1, ?_⟩
  intro r _
  simp [tFalse, skipValue, matchLit]

/-- the params text a handler sees for a well-formed request is a Stable value -/
theorem paramsText_stable (p : Option Text) (h : optRawWF p) : Stable (paramsText p) := by
  cases p with
  | none => simp [paramsText, Params.new]; exact stable_null
  | some t =>
    obtain ⟨hs, _⟩ := h t rfl
    simp [paramsText, Params.new, trim_of_stable t hs]; exact hs

theorem rawParams_wf (p : Option Text) (h : optRawWF p) : ∀ d, (Params.new p).raw = some d → Stable d ∧ d ≠ tNull := by
  intro d hd
  cases p with
  | none => simp [Params.new] at hd
  | some t =>
    obtain ⟨hs, hn⟩ := h t rfl
    simp [Params.new, trim_of_stable t hs] at hd
    subst hd; exact ⟨hs, hn⟩

theorem sumOutcome_wf (p : Option Text) :
    (∀ raw, sumOutcome p = .result raw → Stable raw) ∧ (∀ e, sumOutcome p = .error e → e.WF) := by
  unfold sumOutcome
  simp only []
  have hinv : invalidParams.WF := ⟨by decide, by decide, by intro d hd; simp [invalidParams, errNoData] at hd⟩
  split
  · split
    · split
      · refine ⟨?_, ?_⟩
        · intro raw h; simp at h; subst h; exact stable_encodeNat _
        · intro e h; simp at h
      · refine ⟨?_, ?_⟩
        · intro raw h; simp at h
        · intro e h; simp at h; subst h
          exact ⟨by decide, by decide, by intro d hd; simp at hd⟩
    · exact ⟨by intro raw h; simp at h, by intro e h; simp at h; subst h; exact hinv⟩
  · exact ⟨by intro raw h; simp at h, by intro e h; simp at h; subst h; exact hinv⟩

theorem strOutcome_wf (p : Option Text) :
    (∀ raw, strOutcome p = .result raw → Stable raw) ∧ (∀ e, strOutcome p = .error e → e.WF) := by
  unfold strOutcome
  have hinv : invalidParams.WF := ⟨by decide, by decide, by intro d hd; simp [invalidParams, errNoData] at hd⟩
  split
  · split
    · exact ⟨by intro raw h; simp at h; subst h; exact stable_encodeString _, by intro e h; simp at h⟩
    · exact ⟨by intro raw h; simp at h, by intro e h; simp at h; subst h; exact hinv⟩
  · exact ⟨by intro raw h; simp at h, by intro e h; simp at h; subst h; exact hinv⟩

theorem kind_names (m : Text) (k : MKind) (h : kindOfMethod m = some k) (hk : k ≠ .subscribe) :
    m = nUnsub ∨ m = nEcho ∨ m = nSum ∨ m = nFail ∨ m = nStr ∨ m = nEsc ∨ m = nAEcho ∨ m = nASum ∨ m = nBlkEcho ∨ m = nBlkBoom ∨ m = nRpcE ∨ m = nBadSer := by
  unfold kindOfMethod at h
  split at h
  · simp at h; exact absurd h.symm hk
  split at h
  · rename_i hm; left; simpa using hm
  split at h
  · rename_i hm; simp at hm; right; rcases hm with (((((hm | hm) | hm) | hm) | hm) | hm) | hm <;> simp [hm]
  split at h
  · rename_i hm; simp at hm; right; right; right; right; right; right; rcases hm with hm | hm <;> simp [hm]
  split at h
  · rename_i hm; simp at hm; right; right; right; right; right; right; right; right; rcases hm with hm | hm <;> simp [hm]
  · simp at h

/-- every outcome of every (non-subscribe) handler of the harness registry is a well-formed payload -/
theorem outcomeOf_wf (m : Text) (p : Option Text) (hp : optRawWF p)
    (hm : m = nUnsub ∨ m = nEcho ∨ m = nSum ∨ m = nFail ∨ m = nStr ∨ m = nEsc ∨ m = nAEcho ∨ m = nASum ∨ m = nBlkEcho ∨ m = nBlkBoom ∨ m = nRpcE ∨ m = nBadSer) :
    (∀ raw, outcomeOf m p = .result raw → Stable raw) ∧ (∀ e, outcomeOf m p = .error e → e.WF) := by
  have hecho : (∀ raw, Outcome.result (paramsText p) = .result raw → Stable raw) ∧ (∀ e, Outcome.result (paramsText p) = .error e → e.WF) :=
    ⟨by intro raw h; simp at h; subst h; exact paramsText_stable p hp, by intro e h; simp at h⟩
  rcases hm with h | h | h | h | h | h | h | h | h | h | h | h <;> subst h
  · exact ⟨by intro raw h; simp [outcomeOf, nUnsub, nEcho, nAEcho, nBlkEcho, nRpcE, nSum, nASum, nFail, nStr, nEsc, nBlkBoom] at h; subst h; exact stable_false,
      by intro e h; simp [outcomeOf, nUnsub, nEcho, nAEcho, nBlkEcho, nRpcE, nSum, nASum, nFail, nStr, nEsc, nBlkBoom] at h⟩
  · simpa [outcomeOf, nEcho, nRpcE] using hecho
  · have := sumOutcome_wf p; simpa [outcomeOf, nSum, nEcho, nAEcho, nBlkEcho, nRpcE] using this
  · refine ⟨by intro raw h; simp [outcomeOf, nFail, nEcho, nAEcho, nBlkEcho, nRpcE, nSum, nASum] at h, ?_⟩
    intro e h
    simp [outcomeOf, nFail, nEcho, nAEcho, nBlkEcho, nRpcE, nSum, nASum] at h
    subst h
    exact ⟨by simp, by simp, rawParams_wf p hp⟩
  · have := strOutcome_wf p; simpa [outcomeOf, nStr, nFail, nEcho, nAEcho, nBlkEcho, nRpcE, nSum, nASum] using this
  · exact ⟨by intro raw h; simp [outcomeOf, nEsc, nStr, nFail, nEcho, nAEcho, nBlkEcho, nRpcE, nSum, nASum] at h; subst h; exact stable_encodeString _,
      by intro e h; simp [outcomeOf, nEsc, nStr, nFail, nEcho, nAEcho, nBlkEcho, nRpcE, nSum, nASum] at h⟩
  · simpa [outcomeOf, nAEcho, nEcho, nRpcE] using hecho
  · have := sumOutcome_wf p; simpa [outcomeOf, nASum, nSum, nEcho, nAEcho, nBlkEcho, nRpcE] using this
  · simpa [outcomeOf, nBlkEcho, nEcho, nAEcho, nRpcE] using hecho
  · exact ⟨by intro raw h; simp [outcomeOf, nBlkBoom, nEsc, nStr, nFail, nEcho, nAEcho, nBlkEcho, nRpcE, nSum, nASum] at h,
      by intro e h; simp [outcomeOf, nBlkBoom, nEsc, nStr, nFail, nEcho, nAEcho, nBlkEcho, nRpcE, nSum, nASum] at h⟩
  · simpa [outcomeOf, nRpcE, nEcho, nAEcho, nBlkEcho] using hecho
  · refine ⟨by intro raw h; simp [outcomeOf, nBadSer, nUnsub, nBlkBoom, nEsc, nStr, nFail, nEcho, nAEcho, nBlkEcho, nRpcE, nSum, nASum] at h, ?_⟩
    intro e h
    simp [outcomeOf, nBadSer, nUnsub, nBlkBoom, nEsc, nStr, nFail, nEcho, nAEcho, nBlkEcho, nRpcE, nSum, nASum] at h
    subst h
    exact ⟨by decide, by decide, by simp [errNoData]⟩

/-- **C01.1 (well-formedness, unconditional for the registry)** — every reply to a valid call of a
non-subscription method of the harness registry parses back as a JSON-RPC 2.0 response carrying the
request's own id; no hypothesis on the handler outcomes is left. -/
theorem c01_reply_wellformed_registry (cfg : Cfg) (tr : Transport) (sub : Nat) (t : Text) (r : Request)
    (hc : classify t = .call r) (hns : r.method ≠ nSub) (hnu : r.method ≠ nUnsub) :
    ∃ f resp, (handleSingle cfg tr sub t).reply = some f ∧ decodeResponse f = some resp ∧
      resp.jsonrpc = true ∧ resp.id = r.id := by
  have hreq : decodeRequest t = some r := by
    unfold classify at hc
    split at hc
    · rename_i r' hr'; simp at hc; subst hc; exact hr'
    · split at hc
      · simp at hc
      · split at hc <;> simp at hc
  obtain ⟨_, hp⟩ := decodeRequest_wf t r hreq
  have key : ∀ k o, handlerOutcome r.method r.params = some (k, o) →
      (∀ raw, o = .result raw → Stable raw) ∧ (∀ e, o = .error e → e.WF) := by
    intro k o hh
    obtain ⟨hk, ho⟩ := handlerOutcome_kind _ _ _ _ hh
    have hks : k ≠ .subscribe := by
      intro h; subst h; exact hns (kind_subscribe _ hk)
    subst ho
    exact outcomeOf_wf r.method r.params hp (kind_names r.method k hk hks)
  exact c01_reply_wellformed cfg tr sub t r hc hns hnu
    (fun k raw hh => (key k _ hh).1 raw rfl) (fun k e hh => (key k _ hh).2 e rfl)

end Jrpc.Srv
