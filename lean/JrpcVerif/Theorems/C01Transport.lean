/-
  C01 (transport clause) — the same response object over HTTP and over WebSocket, at the level of the
  two transports (size gate, 128-byte sniff, body reading), not only of `handle_rpc_call`.
-/
import JrpcVerif.Theorems.C01Wire
import JrpcVerif.Theorems.C19
namespace Jrpc.Srv
open Jrpc Jrpc.Gen.E

/-- the WS sniff (with running index) and the HTTP chunk sniff agree -/
theorem sniff_sniffChunk : ∀ (w i : Nat) (t : Text),
    sniff w i t = (match sniffChunk w t with
      | .found j s => some (i + j, s)
      | _ => none) := by
  intro w
  induction w with
  | zero => intro i t; cases t <;> simp [sniff, sniffChunk]
  | succ w ih =>
    intro i t
    cases t with
    | nil => simp [sniff, sniffChunk]
    | cons c r =>
      simp only [sniff, sniffChunk]
      split
      · rw [ih (i + 1) r]
        cases sniffChunk w r <;> simp [Sniff.succ]
        omega
      · split
        · simp
        · split <;> simp

/-- **C01.5 (transport level)** — one message within the size limit whose first non-whitespace
character (inside the 128-byte window) is `{`: the HTTP body (POST, JSON content type, one chunk)
is the frame sent over WebSocket, or the `null` acknowledgement when WebSocket sends nothing;
for every method other than the subscription methods. -/
theorem c01_http_eq_ws_transport (cfg : Cfg) (sub : Nat) (t : Text) (idx : Nat)
    (hsz : byteLen t ≤ cfg.maxReq) (hs : sniff 128 0 t = some (idx, true))
    (hct : isJsonContentType (some (lit "application/json")) = true)
    (h : ∀ r, classify (t.drop idx) = .call r → r.method ≠ nSub ∧ r.method ≠ nUnsub) :
    (httpCall cfg tPOST (some (lit "application/json")) none [t]).body =
      (match (wsMessage cfg sub t).frames with
       | [] => tNull
       | f :: _ => f) ∧
    (httpCall cfg tPOST (some (lit "application/json")) none [t]).status = 200 := by
  have hnot : ¬ byteLen t > cfg.maxReq := by omega
  have hsc := sniff_sniffChunk 128 0 t
  rw [hs] at hsc
  have hfound : sniffChunk 128 t = .found idx true := by
    cases hc : sniffChunk 128 t with
    | found j s => rw [hc] at hsc; simp at hsc; rw [hsc.1, hsc.2]
    | more => rw [hc] at hsc; simp at hsc
    | bad => rw [hc] at hsc; simp at hsc
  have hdir := (c01_at_most_one_frame cfg sub (t.drop idx) (fun r hr => (h r hr).1)).2
  have heq := c01_http_eq_ws cfg sub (t.drop idx) h
  have hne : (t.drop idx).isEmpty = false := by
    have := sniff_found_lt 128 t idx true hfound
    cases hd : t.drop idx with
    | nil => have : (t.drop idx).length = 0 := by rw [hd]; rfl
             simp at this; omega
    | cons x xs => rfl
  have hrb : readBody none [t] cfg.maxReq = .ok (t.drop idx) true := by
    have hlt := sniff_found_lt 128 t idx true hfound
    simp only [readBody, readChunks, Nat.zero_add, hnot, ↓reduceIte, Nat.sub_zero, hfound, List.isEmpty_iff]
    simp
    omega
  simp only [httpCall, bne_self_eq_false, Bool.false_eq_true, ↓reduceIte, hct, Bool.not_true, hrb,
    wsMessage, hnot, hs, hdir, List.nil_append, heq]
  cases (handleSingle cfg Transport.ws sub (t.drop idx)).reply <;> simp

end Jrpc.Srv
